//go:build verif

// C14: strings are sequences of code points; repr round-trips through eval.
//
// G-binding. TLC (spec/C14/PyStrGen.tla over PyStr.tla) enumerates every string up to the tier's length
// over an alphabet of 1-, 2-, 3- and 4-byte characters, quotes, backslash and NUL/newline (plus seeded
// longer strings over a wider alphabet handed to TLC in extra.ndjson) and prints, per string, every
// operation x argument position with the result the specification demands -- strings as code-point
// lists. This harness builds py.String values from code points, performs the operation through the Go
// API (bound methods via py.GetAttrString + py.Call, operators via py.GetItem / py.Add / ...), for a
// sample also through compiled source with the operands as globals, decodes the result to code points
// and compares by equality.
// T-binding for repr: for every string and every value of PyStrGen!ValSamples the text the real repr
// produces is (a) evaluated inside gpython and compared with the original (eval(repr(x)) == x) and
// (b) handed to TLC (PyStrTrace) which decodes it with the literal rules of the specification.
package main

import (
	"encoding/json"
	"fmt"
	"math/big"
	"math/rand"
	"os"
	"sort"
	"strconv"
	"strings"
	"sync"
	"sync/atomic"
	"time"

	"gpverif/common"
	"gpverif/pyrun"

	"github.com/go-python/gpython/py"
)

const noArg = 1000000000

type strRec struct {
	S     []int               `json:"s"`
	Cases [][]json.RawMessage `json:"cases"`
	Vals  []valRec            `json:"vals"`
}

type valRec struct {
	T      string   `json:"t"`
	Cps    []int    `json:"cps"`
	Neg    bool     `json:"neg"`
	Digits []int    `json:"digits"`
	N      int64    `json:"n"`
	D      int64    `json:"d"`
	Xs     []valRec `json:"xs"`
}

type opCase struct {
	Op      string
	T, U    []int
	A, B, C int
	Kind    string
	N       int
	R       json.RawMessage
}

func parseCase(raw []json.RawMessage) (*opCase, error) {
	if len(raw) != 9 {
		return nil, fmt.Errorf("case with %d fields", len(raw))
	}
	c := &opCase{R: raw[8]}
	for i, dst := range []interface{}{&c.Op, &c.T, &c.U, &c.A, &c.B, &c.C, &c.Kind, &c.N} {
		if err := json.Unmarshal(raw[i], dst); err != nil {
			return nil, err
		}
	}
	return c, nil
}

func pyStr(cps []int) py.String {
	rs := make([]rune, len(cps))
	for i, c := range cps {
		rs[i] = rune(c)
	}
	return py.String(string(rs))
}

func cpsOf(s string) []int {
	out := []int{}
	for _, r := range s {
		out = append(out, int(r))
	}
	return out
}

func nonNil(x []int) []int {
	if x == nil {
		return []int{}
	}
	return x
}

func cpsText(cps []int) string {
	parts := make([]string, len(cps))
	for i, c := range cps {
		parts[i] = strconv.Itoa(c)
	}
	return "[" + strings.Join(parts, ",") + "]"
}

// expectation and observation share one notation: i:<n> b:<0|1> s:[cps] l:[[cps],..] x:<Class>
func expectedText(c *opCase) string {
	switch c.Kind {
	case "i":
		return "i:" + strconv.Itoa(c.N)
	case "b":
		return "b:" + strconv.Itoa(c.N)
	case "s":
		var cps []int
		json.Unmarshal(c.R, &cps)
		return "s:" + cpsText(cps)
	case "l":
		var l [][]int
		json.Unmarshal(c.R, &l)
		parts := make([]string, len(l))
		for i, x := range l {
			parts[i] = cpsText(x)
		}
		return "l:[" + strings.Join(parts, ",") + "]"
	case "x":
		var cls string
		json.Unmarshal(c.R, &cls)
		return "x:" + cls
	}
	return "?"
}

func observedText(o py.Object) string {
	switch x := o.(type) {
	case py.Bool:
		if x {
			return "b:1"
		}
		return "b:0"
	case py.Int:
		return "i:" + strconv.FormatInt(int64(x), 10)
	case py.String:
		return "s:" + cpsText(cpsOf(string(x)))
	case *py.List:
		parts := make([]string, len(x.Items))
		for i, it := range x.Items {
			s, ok := it.(py.String)
			if !ok {
				return "?list of " + it.Type().Name
			}
			parts[i] = cpsText(cpsOf(string(s)))
		}
		return "l:[" + strings.Join(parts, ",") + "]"
	case nil:
		return "?nil"
	}
	return "?" + o.Type().Name
}

func intArg(n int) py.Object {
	if n == noArg {
		return py.None
	}
	return py.Int(n)
}

type worker struct {
	ctx      *pyrun.Ctx
	builtins *py.Module
}

func newWorker() *worker {
	w := &worker{ctx: pyrun.New()}
	if r := w.ctx.Exec("pass\n", 10*time.Second); r.Outcome() != "ok" {
		common.Inconclusive("property=C14 interpreter does not start: %s", r.Outcome())
	}
	w.builtins = w.ctx.Ctx.Store().Builtins
	return w
}

func (w *worker) method(self py.Object, name string, args ...py.Object) (py.Object, error) {
	m, err := py.GetAttrString(self, name)
	if err != nil {
		return nil, err
	}
	return py.Call(m, py.Tuple(args), nil)
}

func (w *worker) builtin(name string, args ...py.Object) (py.Object, error) {
	f, ok := w.builtins.Globals[name]
	if !ok {
		return nil, fmt.Errorf("no builtin %s", name)
	}
	return py.Call(f, py.Tuple(args), nil)
}

func searchArgs(t py.Object, c *opCase) []py.Object {
	args := []py.Object{t}
	if c.A != noArg {
		args = append(args, py.Int(c.A))
		if c.B != noArg {
			args = append(args, py.Int(c.B))
		}
	}
	return args
}

// viaAPI performs the operation through the Go API.
func (w *worker) viaAPI(s py.String, c *opCase) (py.Object, error) {
	t, u := pyStr(c.T), pyStr(c.U)
	switch c.Op {
	case "len":
		return py.Len(s)
	case "iter":
		l := py.NewList()
		err := py.Iterate(s, func(o py.Object) bool { l.Items = append(l.Items, o); return false })
		return l, err
	case "ord":
		return w.builtin("ord", s)
	case "chr":
		return w.builtin("chr", py.Int(c.A))
	case "splitws":
		return w.method(s, "split")
	case "strip", "lstrip", "rstrip":
		if len(c.T) == 1 && c.T[0] == noArg {
			return w.method(s, c.Op)
		}
		return w.method(s, c.Op, t)
	case "index":
		return py.GetItem(s, py.Int(c.A))
	case "slice":
		return py.GetItem(s, py.NewSlice(intArg(c.A), intArg(c.B), intArg(c.C)))
	case "mul":
		return py.Mul(s, py.Int(c.A))
	case "add":
		return py.Add(s, t)
	case "in":
		ok, err := py.SequenceContains(s, t)
		return py.Bool(ok), err
	case "split":
		return w.method(s, "split", t)
	case "join":
		return w.method(t, "join", py.NewListFromItems([]py.Object{s, s, py.String("x")}))
	case "replace":
		return w.method(s, "replace", t, u)
	case "lt":
		return py.Lt(s, t)
	case "gt":
		return py.Gt(s, t)
	case "le":
		return py.Le(s, t)
	case "eq":
		return py.Eq(s, t)
	case "find", "count", "startswith", "endswith":
		return w.method(s, c.Op, searchArgs(t, c)...)
	}
	return nil, fmt.Errorf("harness: unknown operation %s", c.Op)
}

// sourceOf is the fixed source text of an operation; operands are the globals s t u a b c.
func sourceOf(c *opCase) string {
	part := func(n int, name string) string {
		if n == noArg {
			return ""
		}
		return name
	}
	switch c.Op {
	case "len":
		return "len(s)"
	case "iter":
		return "[x for x in s]"
	case "ord":
		return "ord(s)"
	case "chr":
		return "chr(a)"
	case "splitws":
		return "s.split()"
	case "strip", "lstrip", "rstrip":
		if len(c.T) == 1 && c.T[0] == noArg {
			return "s." + c.Op + "()"
		}
		return "s." + c.Op + "(t)"
	case "index":
		return "s[a]"
	case "slice":
		if c.C == noArg {
			return "s[" + part(c.A, "a") + ":" + part(c.B, "b") + "]"
		}
		return "s[" + part(c.A, "a") + ":" + part(c.B, "b") + ":c]"
	case "mul":
		return "s * a"
	case "add":
		return "s + t"
	case "in":
		return "t in s"
	case "split":
		return "s.split(t)"
	case "join":
		return "t.join([s, s, 'x'])"
	case "replace":
		return "s.replace(t, u)"
	case "lt":
		return "s < t"
	case "gt":
		return "s > t"
	case "le":
		return "s <= t"
	case "eq":
		return "s == t"
	case "find", "count", "startswith", "endswith":
		switch {
		case c.A == noArg:
			return "s." + c.Op + "(t)"
		case c.B == noArg:
			return "s." + c.Op + "(t, a)"
		}
		return "s." + c.Op + "(t, a, b)"
	}
	return "None"
}

func outcome(r *pyrun.Result, v py.Object) (text string, bases []string) {
	switch {
	case r.TimedOut:
		return "timeout", nil
	case r.Panic != "":
		return "panic:" + r.PanicSite, nil
	case r.Exc != "":
		return "x:" + r.Exc, r.ExcBases
	}
	return observedText(v), nil
}

func agrees(want, got string, bases []string) bool {
	if want == got {
		return true
	}
	if strings.HasPrefix(want, "x:") && strings.HasPrefix(got, "x:") {
		for _, b := range bases {
			if "x:"+b == want {
				return true
			}
		}
	}
	return false
}

// classes for finding keys (abstract classes of the operands, never concrete values)
func textClass(cps []int) string {
	if len(cps) == 1 && cps[0] == noArg {
		return "none"
	}
	cls, ctl := "ascii", ""
	for _, c := range cps {
		if c > 127 {
			cls = "nonascii"
		}
		if c < 32 || c == 127 {
			ctl = "+ctl"
		}
	}
	_ = ctl
	return cls // the empty string counts as ascii
}

// for the whitespace-sensitive operations the presence of ASCII control characters is a class of its own
func textClassWS(cps []int) string {
	for _, c := range cps {
		if c < 32 || c == 127 {
			return textClass(cps) + "+ctl"
		}
	}
	return textClass(cps)
}
func subClass(cps []int) string {
	if len(cps) == 0 {
		return "empty"
	}
	return "nonempty"
}
func argClass(n int) string {
	switch {
	case n == noArg:
		return "none"
	case n < 0:
		return "neg"
	case n == 0:
		return "zero"
	}
	return "pos"
}
// which optional arguments are given, and whether any of them counts from the end
func searchArgClass(c *opCase) string {
	switch {
	case c.A == noArg:
		return "args=none"
	case c.B == noArg:
		if c.A < 0 {
			return "args=start(neg)"
		}
		return "args=start(nonneg)"
	case c.A < 0 || c.B < 0:
		return "args=start+end(neg)"
	}
	return "args=start+end(nonneg)"
}

func divergenceKind(want, got string) string {
	switch {
	case strings.HasPrefix(got, "panic:"), strings.HasPrefix(got, "x:"), got == "timeout":
		return got
	case strings.HasPrefix(want, "x:"):
		return "value,expected=" + want[2:]
	}
	return "value"
}
func caseKey(s []int, c *opCase, via, want, got string) string {
	args := ""
	switch c.Op {
	case "find", "count":
		args = searchArgClass(c) + ",sub=" + subClass(c.T)
	case "startswith", "endswith":
		args = searchArgClass(c)
	case "index", "mul", "chr":
		args = "arg=" + argClass(c.A)
	case "slice":
		args = "start=" + argClass(c.A) + ",stop=" + argClass(c.B) + ",step=" + argClass(c.C)
	case "len", "iter", "ord", "splitws":
		args = "noargs"
	default:
		args = "arg=" + subClass(c.T)
		if len(c.T) == 1 && c.T[0] == noArg {
			args = "arg=none"
		}
	}
	tc := textClass(s)
	switch c.Op {
	case "strip", "lstrip", "rstrip", "splitws":
		tc = textClassWS(s)
	}
	return "C14|" + c.Op + "|" + args + "|text=" + tc + "|observed=" + divergenceKind(want, got)
}

// ---------------------------------------------------------------------------------------------
// values for the repr round trip

func buildVal(v *valRec) (py.Object, error) {
	switch v.T {
	case "str":
		return pyStr(v.Cps), nil
	case "bytes":
		b := make([]byte, len(v.Cps))
		for i, c := range v.Cps {
			b[i] = byte(c)
		}
		return py.Bytes(b), nil
	case "int":
		ds := make([]byte, len(v.Digits))
		for i, d := range v.Digits {
			ds[i] = byte('0' + d)
		}
		txt := string(ds)
		if v.Neg {
			txt = "-" + txt
		}
		n, ok := new(big.Int).SetString(txt, 10)
		if !ok {
			return nil, fmt.Errorf("bad digits %q", txt)
		}
		if n.IsInt64() {
			return py.Int(n.Int64()), nil
		}
		return (*py.BigInt)(n), nil
	case "float":
		return py.Float(float64(v.N) / float64(v.D)), nil
	case "tuple", "list":
		items := make([]py.Object, len(v.Xs))
		for i := range v.Xs {
			x, err := buildVal(&v.Xs[i])
			if err != nil {
				return nil, err
			}
			items[i] = x
		}
		if v.T == "tuple" {
			return py.Tuple(items), nil
		}
		return py.NewListFromItems(items), nil
	}
	return nil, fmt.Errorf("unknown value type %q", v.T)
}

func valClass(v *valRec) string {
	switch v.T {
	case "tuple", "list":
		inner := map[string]bool{}
		for i := range v.Xs {
			inner[v.Xs[i].T] = true
		}
		var ks []string
		for k := range inner {
			ks = append(ks, k)
		}
		sort.Strings(ks)
		return fmt.Sprintf("%s(len=%s;%s)", v.T, lenClass(len(v.Xs)), strings.Join(ks, "+"))
	case "str", "bytes":
		return v.T + "(" + textClass(v.Cps) + ")"
	case "int":
		if len(v.Digits) > 18 {
			return "int(big)"
		}
		return "int(small)"
	}
	return v.T
}
func lenClass(n int) string {
	switch n {
	case 0:
		return "0"
	case 1:
		return "1"
	}
	return "many"
}

type traceLine struct {
	K string      `json:"k"`
	S []int       `json:"s"`
	V *valRec     `json:"v,omitempty"`
	R []int       `json:"r"`
	x interface{} // description for reports
	key string
}

// reprRoundTrip takes repr(x) from the real implementation, evaluates it inside gpython and compares with x.
// It returns the repr text (for TLC) and "" or the divergence kind of the in-interpreter round trip.
func (w *worker) reprRoundTrip(x py.Object) (text string, div string) {
	var reprObj py.Object
	r := pyrun.Guard(10*time.Second, func() error {
		var err error
		reprObj, err = py.Repr(x)
		return err
	})
	if r.Outcome() != "ok" {
		return "", "repr:" + r.Outcome()
	}
	rs, ok := reprObj.(py.String)
	if !ok {
		return "", "repr:not a str"
	}
	g := w.ctx.Mod.Globals
	g["r"] = rs
	g["x"] = x
	res := w.ctx.Eval("eval(r) == x", 10*time.Second)
	switch {
	case res.Outcome() != "ok":
		return string(rs), "eval:" + strings.TrimPrefix(res.Outcome(), "exc:")
	case res.Value != py.Bool(true):
		return string(rs), "eval:unequal"
	}
	return string(rs), ""
}

func main() {
	env := common.Setup()
	rep := common.NewReport(env, "model_checking")
	rep.Rule = "a case is one (string, operation, arguments) triple generated by TLC from spec/C14/PyStrGen.tla: all strings up to the tier's length over an 8-character alphabet (1-, 2-, 3-, 4-byte characters, both quotes, backslash, NUL or newline by seed parity) plus seeded longer strings over a wider alphabet, x len/iteration/index/slice/in/find/count/startswith/endswith (with start/end)/split/join/strip/replace/comparison/repetition/concatenation/ord/chr; distinct = distinct (string, operation, argument values); each is executed through the Go API and a seeded sample also through compiled source; plus one repr round trip per string and per sample value, validated by TLC"
	rep.Assumptions = []string{
		"TLC and the CommunityModules Json module are correct",
		"the specification PyStr.tla states Python 3.4's string semantics over code points (compared with CPython 3.11 on 49 558 operations and 3 000 repr texts during development)",
		"py.String(string([]rune)) is the embedding's way to build a str from code points (UTF-8 encoding by the Go runtime)",
	}
	if env.Replay != "" {
		replay(env, rep)
		return
	}
	rng := rand.New(rand.NewSource(env.Seed))

	// seeded longer strings over a wider alphabet (no surrogates: a Go string cannot hold them)
	wide := []int{0, 9, 10, 13, 31, 32, 39, 34, 92, 65, 97, 98, 122, 127, 133, 160, 173, 233, 255, 256, 888, 8232, 12288, 20013, 65535, 65536, 128512, 917504, 1114111}
	var extra strings.Builder
	nExtra := env.Pick(40, 300)
	for i := 0; i < nExtra; i++ {
		n := 5 + rng.Intn(6)
		cps := make([]int, n)
		for j := range cps {
			if rng.Intn(3) == 0 {
				cps[j] = wide[rng.Intn(len(wide))]
			} else {
				cps[j] = []int{97, 98, 233, 20013, 128512, 32}[rng.Intn(6)]
			}
		}
		fmt.Fprintf(&extra, "{\"s\":%s}\n", cpsText(cps))
	}

	var (
		mu        sync.Mutex
		distinct  int64
		evals     int64
		viaSource int64
		opCount   = map[string]int{}
		nonASCII  int64
		excCases  int64
		trace     []*traceLine
		nStrings  int64
		seenShort = map[string]bool{}
	)
	recs := make(chan []byte, 64)
	var wg sync.WaitGroup
	nw := env.Workers
	if nw > 8 {
		nw = 8
	}
	sampleEvery := env.Pick(7, 23)
	for i := 0; i < nw; i++ {
		wg.Add(1)
		go func(id int) {
			defer wg.Done()
			w := newWorker()
			defer w.ctx.Close()
			lrng := rand.New(rand.NewSource(env.Seed*1000 + int64(id)))
			for raw := range recs {
				var rec strRec
				if err := json.Unmarshal(raw, &rec); err != nil {
					common.Inconclusive("property=C14 bad record from TLC: %v", err)
				}
				if rec.S == nil {
					rec.S = []int{}
				}
				s := pyStr(rec.S)
				atomic.AddInt64(&nStrings, 1)
				local := map[string]int{}
				for _, rc := range rec.Cases {
					c, err := parseCase(rc)
					if err != nil {
						common.Inconclusive("property=C14 bad case from TLC: %v", err)
					}
					want := expectedText(c)
					local[c.Op]++
					if strings.HasPrefix(want, "x:") {
						atomic.AddInt64(&excCases, 1)
					}
					if strings.HasPrefix(textClass(rec.S), "nonascii") || strings.HasPrefix(textClass(c.T), "nonascii") {
						atomic.AddInt64(&nonASCII, 1)
					}
					// through the Go API
					var v py.Object
					r := pyrun.Guard(10*time.Second, func() error {
						var err error
						v, err = w.viaAPI(s, c)
						return err
					})
					got, bases := outcome(r, v)
					atomic.AddInt64(&evals, 1)
					if !agrees(want, got, bases) {
						rep.Violation(caseKey(rec.S, c, "api", want, got), map[string]interface{}{"s": rec.S, "op": c.Op, "t": c.T, "u": c.U, "a": c.A, "b": c.B, "c": c.C,
							"via": "Go API", "expected": want, "observed": got})
					}
					// a sample also through compiled source
					if lrng.Intn(sampleEvery) == 0 {
						g := w.ctx.Mod.Globals
						g["s"], g["t"], g["u"] = s, pyStr(c.T), pyStr(c.U)
						g["a"], g["b"], g["c"] = intArg(c.A), intArg(c.B), intArg(c.C)
						src := sourceOf(c)
						r2 := w.ctx.Eval(src, 10*time.Second)
						got2, bases2 := outcome(r2, r2.Value)
						atomic.AddInt64(&evals, 1)
						atomic.AddInt64(&viaSource, 1)
						if !agrees(want, got2, bases2) {
							rep.Violation(caseKey(rec.S, c, "source", want, got2), map[string]interface{}{"s": rec.S, "op": c.Op, "t": c.T, "u": c.U, "a": c.A, "b": c.B, "c": c.C,
								"via": "compiled source " + src, "expected": want, "observed": got2})
						}
					}
				}
				// repr round trip of the string itself
				text, div := w.reprRoundTrip(s)
				atomic.AddInt64(&evals, 1)
				if div != "" {
					rep.Violation("C14|repr|str|text="+textClass(rec.S)+"|observed="+div, map[string]interface{}{"s": rec.S, "repr": text})
				}
				var lines []*traceLine
				if text != "" || div == "" {
					lines = append(lines, &traceLine{K: "str", S: rec.S, R: cpsOf(text), x: rec.S, key: "C14|repr-decode|str|text=" + textClass(rec.S) + "|observed=rejected"})
				}
				for i := range rec.Vals {
					v := &rec.Vals[i]
					x, err := buildVal(v)
					if err != nil {
						common.Inconclusive("property=C14 %v", err)
					}
					text, div := w.reprRoundTrip(x)
					atomic.AddInt64(&evals, 1)
					if div != "" {
						rep.Violation("C14|repr|"+valClass(v)+"|observed="+div, map[string]interface{}{"value": v, "repr": text})
					}
					if text != "" {
						lines = append(lines, &traceLine{K: "val", V: v, R: cpsOf(text), x: v, key: "C14|repr-decode|" + valClass(v) + "|observed=rejected"})
					}
				}
				mu.Lock()
				if len(rec.S) <= 2 { // short strings are visited by both thorough runs: count their cases once
					for _, rc := range rec.Cases {
						k := cpsText(rec.S)
						for _, f := range rc[:6] {
							k += "|" + string(f)
						}
						if !seenShort[k] {
							seenShort[k] = true
							distinct++
						}
					}
					if !seenShort["repr|"+cpsText(rec.S)] {
						seenShort["repr|"+cpsText(rec.S)] = true
						distinct += 1 + int64(len(rec.Vals))
					}
				} else {
					distinct += int64(len(rec.Cases)) + 1
				}
				for k, n := range local {
					opCount[k] += n
				}
				trace = append(trace, lines...)
				if len(rec.S) >= 2 && len(rec.Cases) > 0 {
					if c, err := parseCase(rec.Cases[len(rec.Cases)/2]); err == nil {
						rep.Sample(map[string]interface{}{"s": rec.S, "op": c.Op, "t": c.T, "a": c.A, "b": c.B, "expected": expectedText(c)})
					}
				}
				mu.Unlock()
			}
		}(i)
	}

	runGen := func(maxLen int, full bool, extraFile string) *common.TLCResult {
		cfg := fmt.Sprintf("CONSTANTS\n  MaxLen = %d\n  Seed = %d\n  Full = %s\nINIT Init\nNEXT Next\nINVARIANT LawsOK\nCHECK_DEADLOCK FALSE\n",
			maxLen, env.Seed, strings.ToUpper(strconv.FormatBool(full)))
		res := env.MustTLC(common.TLCRun{Dir: "C14", Module: "PyStrGen", Config: "gen.cfg",
			Extra: map[string]string{"gen.cfg": cfg, "extra.ndjson": extraFile}, Timeout: 14 * time.Minute,
			OnLine: func(rec []byte) { b := make([]byte, len(rec)); copy(b, rec); recs <- b }})
		if len(res.Violations) > 0 || !res.Finished {
			common.Inconclusive("property=C14 a law of the specification fails (Decode(Repr(s)) = s, slice, split/join ...) or TLC did not finish: %v\n%s", res.Violations, res.Stdout)
		}
		rep.AddTLC(res)
		return res
	}
	runGen(env.Pick(3, 4), false, extra.String())
	if env.Thorough() {
		// the full argument lattice on the short strings
		runGen(2, true, "{\"s\":[]}\n")
	}
	close(recs)
	wg.Wait()

	// T: the recorded repr texts are decoded by the specification
	if len(trace) == 0 {
		common.Inconclusive("property=C14 no repr text recorded")
	}
	var tb strings.Builder
	for _, ln := range trace {
		var b []byte
		if ln.K == "str" {
			b, _ = json.Marshal(map[string]interface{}{"k": "str", "s": nonNil(ln.S), "r": nonNil(ln.R)})
		} else {
			b, _ = json.Marshal(map[string]interface{}{"k": "val", "v": ln.V, "r": nonNil(ln.R)})
		}
		tb.Write(b)
		tb.WriteByte('\n')
	}
	rejected := 0
	tres := env.MustTLC(common.TLCRun{Dir: "C14", Module: "PyStrTrace", Config: "trace.cfg", Extra: map[string]string{"trace.ndjson": tb.String()},
		Timeout: 5 * time.Minute, OnLine: func(rec []byte) {
			var r struct {
				Line int `json:"line"`
			}
			if json.Unmarshal(rec, &r) == nil && r.Line >= 1 && r.Line <= len(trace) {
				ln := trace[r.Line-1]
				rejected++
				rep.Violation(ln.key, map[string]interface{}{"value": ln.x, "repr_code_points": ln.R, "repr": string(pyStr(ln.R)), "via": "PyStrTrace: decoding the repr text does not give the value back"})
			}
		}})
	if !tres.Finished {
		common.Inconclusive("property=C14 trace validation did not finish\n%s", tres.Stdout)
	}
	rep.AddTLC(tres)

	rep.Evaluations = evals
	rep.Distinct = distinct
	rep.Traces = int64(len(trace))
	rep.Exhaustive = true
	rep.Extra["strings"] = nStrings
	rep.Extra["seeded_longer_strings"] = nExtra
	rep.Extra["operations_per_kind"] = opCount
	rep.Extra["operations_also_run_as_compiled_source"] = viaSource
	rep.Extra["cases_with_non_ascii_text_or_argument"] = nonASCII
	rep.Extra["cases_expecting_an_exception"] = excCases
	rep.Extra["repr_texts_validated_by_tlc"] = len(trace)
	rep.Extra["repr_texts_rejected_by_tlc"] = rejected
	rep.Extra["exhaustive_note"] = "all strings up to the stated length over the 8-character alphabet x the stated argument lattice; longer strings are a seeded sample"
	for _, op := range []string{"len", "iter", "index", "slice", "in", "find", "count", "startswith", "endswith", "split", "splitws", "join", "strip", "lstrip", "rstrip", "replace", "lt", "eq", "mul", "add", "ord", "chr"} {
		if opCount[op] == 0 {
			common.Vacuous("property=C14 vacuous run: operation %s never occurred", op)
		}
	}
	if nonASCII == 0 {
		common.Vacuous("property=C14 vacuous run: no non-ASCII case")
	}
	rep.Finish()
}

// replay re-runs the case of a replay file (operation cases only).
func replay(env *common.Env, rep *common.Report) {
	b, err := os.ReadFile(env.Replay)
	if err != nil {
		common.Inconclusive("property=C14 replay: %v", err)
	}
	var f struct {
		Key  string `json:"key"`
		Case struct {
			S        []int  `json:"s"`
			Op       string `json:"op"`
			T, U     []int
			A, B, C  int
			Expected string `json:"expected"`
		} `json:"case"`
	}
	if err := json.Unmarshal(b, &f); err != nil || f.Case.Op == "" {
		common.Inconclusive("property=C14 replay file does not hold an operation case: %v", err)
	}
	w := newWorker()
	c := &opCase{Op: f.Case.Op, T: f.Case.T, U: f.Case.U, A: f.Case.A, B: f.Case.B, C: f.Case.C}
	var v py.Object
	r := pyrun.Guard(10*time.Second, func() error {
		var err error
		v, err = w.viaAPI(pyStr(f.Case.S), c)
		return err
	})
	got, bases := outcome(r, v)
	fmt.Printf("string %v  op %s t=%v a=%d b=%d c=%d\nexpected %s\nobserved %s\n", f.Case.S, c.Op, c.T, c.A, c.B, c.C, f.Case.Expected, got)
	rep.Evaluations, rep.Distinct, rep.Traces = 1, 1, 1
	if !agrees(f.Case.Expected, got, bases) {
		rep.Violation(f.Key, f.Case)
	}
	rep.Finish()
}
