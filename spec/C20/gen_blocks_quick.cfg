SPECIFICATION GSpec
CONSTANTS
  Kinds <- Alphabet
  NextKinds <- BlockThenProbe
  MaxItems = 2
  Simulating = FALSE
INVARIANTS TypeOK OnceInOrder PromptClause NotEarly EchoClause Emit
CHECK_DEADLOCK FALSE
