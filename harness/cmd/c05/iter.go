//go:build verif

package main

import (
	_ "embed"
	"encoding/json"
	"fmt"
	"sort"
	"strconv"
	"strings"
	"sync"
	"sync/atomic"
	"time"

	"gpverif/common"
	"gpverif/pyrun"
)

//go:embed iter_prelude.py
var iterPrelude string

// ---- records printed by TLC (spec/C05/PyIter.tla) ----

type tree struct {
	K string `json:"k"`
	I int    `json:"i"`
	S string `json:"s"`
	L []tree `json:"l"`
}
type iterOut struct {
	T string `json:"t"`
	V tree   `json:"v"`
	E string `json:"e"`
}
type caseRec struct {
	Rec   string  `json:"rec"`
	Cons  string  `json:"cons"`
	Kind  string  `json:"kind"`
	Items []int   `json:"items"`
	End   string  `json:"end"`
	NPre  int     `json:"npre"`
	Out   iterOut `json:"out"`
	Pulls int     `json:"resumed"` // what the program can observe of the pulls (PyIter!Observable)
	Rest  []int   `json:"rest"`
}

func pyInts(a []int) string {
	p := make([]string, len(a))
	for i, x := range a {
		p[i] = strconv.Itoa(x)
	}
	return "[" + strings.Join(p, ", ") + "]"
}

// the text Python prints for an observation value
func pyTree(t tree) string {
	switch t.K {
	case "int":
		return strconv.Itoa(t.I)
	case "bool":
		if t.I != 0 {
			return "True"
		}
		return "False"
	case "str":
		return "'" + t.S + "'"
	case "list", "set":
		p := make([]string, len(t.L))
		for i, x := range t.L {
			p[i] = pyTree(x)
		}
		return "[" + strings.Join(p, ", ") + "]"
	}
	return "None"
}

func iterProgram(c *caseRec) string {
	return fmt.Sprintf("run('%s', '%s', %s, '%s')\n", c.Cons, c.Kind, pyInts(c.Items), c.End)
}

func iterExpected(c *caseRec) []string {
	l := []string{strconv.Itoa(c.NPre)}
	if c.Out.T == "exc" {
		l = append(l, "['exc', '"+c.Out.E+"']")
	} else {
		l = append(l, "['val', "+pyTree(c.Out.V)+"]")
	}
	if c.Kind == "listiter" || c.Kind == "rangeiter" {
		l = append(l, "['rest', "+pyInts(c.Rest)+"]")
	} else {
		l = append(l, "['pulls', "+strconv.Itoa(c.Pulls)+"]")
	}
	return l
}

// an unordered result (set, values of a dict) is compared up to order: sort the printed flat list of ints
func normaliseUnordered(line string) string {
	const pre = "['val', ["
	if !strings.HasPrefix(line, pre) || !strings.HasSuffix(line, "]]") {
		return line
	}
	body := line[len(pre) : len(line)-2]
	if body == "" {
		return line
	}
	parts := strings.Split(body, ", ")
	xs := make([]int, len(parts))
	for i, p := range parts {
		v, err := strconv.Atoi(p)
		if err != nil {
			return line
		}
		xs[i] = v
	}
	sort.Ints(xs)
	return pre + pyInts(xs)[1:] + "]"
}

func iterObsClass(line string) string {
	switch {
	case strings.HasPrefix(line, "['val', "):
		return "val"
	case strings.HasPrefix(line, "['exc', '"):
		return "exc:" + strings.TrimSuffix(strings.TrimPrefix(line, "['exc', '"), "']")
	}
	return "garbled"
}

type iterStats struct {
	cases, divergent      int64
	byCons, byProd, byOut *counter
	runs                  []map[string]interface{}
}

func iterObserved(c *caseRec, r *pyrun.Result) []string {
	obs := splitLines(r.Stdout)
	if c.Out.T == "val" && c.Out.V.K == "set" && len(obs) >= 2 {
		obs[1] = normaliseUnordered(obs[1])
	}
	return obs
}

func iterAgrees(c *caseRec, r *pyrun.Result) bool {
	obs, exp := iterObserved(c, r), iterExpected(c)
	if r.Outcome() != "ok" || len(obs) != len(exp) {
		return false
	}
	for i := range exp {
		if obs[i] != exp[i] {
			return false
		}
	}
	return true
}

func (is *iterStats) check(rep *common.Report, c *caseRec, r *pyrun.Result) {
	obs, exp := iterObserved(c, r), iterExpected(c)
	act := fmt.Sprintf("C05|PyIter.C_%s|producer=%s,end=%s|", c.Cons, c.Kind, c.End)
	report := func(div string) {
		atomic.AddInt64(&is.divergent, 1)
		rep.Violation(act+div, map[string]interface{}{"part": "PyIter", "consumer": c.Cons, "producer": c.Kind, "items": c.Items, "ending": c.End,
			"prelude": iterPrelude, "program": iterProgram(c), "expected": exp, "observed": obs, "run_outcome": r.Outcome(), "panic_site": r.PanicSite})
	}
	expClass := "val"
	if c.Out.T == "exc" {
		expClass = "exc:" + c.Out.E
	}
	if len(obs) >= 1 && obs[0] != exp[0] {
		report("pulled-at-creation")
		return
	}
	if len(obs) < 2 {
		kind := r.Outcome()
		if r.Panic != "" {
			kind = "panic@" + r.PanicSite
		}
		report("outcome:exp=" + expClass + "/obs=" + kind)
		return
	}
	if obs[1] != exp[1] {
		oc := iterObsClass(obs[1])
		if oc != expClass {
			report("outcome:exp=" + expClass + "/obs=" + oc)
		} else {
			report("value")
		}
		return
	}
	if len(obs) < 3 {
		report("after:" + r.Outcome())
		return
	}
	if obs[2] != exp[2] {
		report("pulls")
	}
}

func runIter(env *common.Env, rep *common.Report) *iterStats {
	is := &iterStats{byCons: newCounter(), byProd: newCounter(), byOut: newCounter()}
	cfg := "iter_quick.cfg"
	if env.Thorough() {
		cfg = "iter_thorough.cfg"
	}
	jobs := make(chan *caseRec, 8192)
	var wg sync.WaitGroup
	var done int64
	for w := 0; w < share(env, 2, 2); w++ {
		wg.Add(1)
		go func() {
			defer wg.Done()
			pw := newPyWorker(iterPrelude)
			for c := range jobs {
				if pw.n >= 4000 {
					pw.ctx.Close()
					pw.reset()
				}
				pw.n++
				prog := iterProgram(c)
				r := pw.ctx.Exec(prog, execTimeout)
				if !iterAgrees(c, r) {
					// a candidate divergence is re-run once in a fresh context before it is believed
					pw.reset()
					r = pw.ctx.Exec(prog, execTimeout)
					if r.TimedOut {
						pw.reset()
					}
				}
				is.check(rep, c, r)
				if atomic.AddInt64(&done, 1)%4999 == 1 {
					rep.Sample(map[string]interface{}{"part": "PyIter", "program": strings.TrimSpace(prog), "expected_lines": iterExpected(c)})
				}
			}
		}()
	}
	res := env.MustTLC(common.TLCRun{Dir: "C05", Module: "PyIter", Config: cfg, Seed: env.Seed, Workers: share(env, 1, 2), Timeout: tlcTimeout(env),
		OnLine: func(rec []byte) {
			c := &caseRec{}
			if err := json.Unmarshal(rec, c); err != nil || c.Rec != "case" {
				common.Inconclusive("property=C05 bad case record %.200s", rec)
			}
			is.cases++
			is.byCons.add(c.Cons, 1)
			is.byProd.add(c.Kind+"/"+c.End, 1)
			if c.Out.T == "exc" {
				is.byOut.add("exc:"+c.Out.E, 1)
			} else {
				is.byOut.add("val", 1)
			}
			jobs <- c
		}})
	close(jobs)
	wg.Wait()
	if len(res.Violations) > 0 || !res.Finished {
		common.Inconclusive("property=C05 the specification itself fails (spec/C05 PyIter %s): %v\n%s", cfg, res.Violations, res.Stdout)
	}
	if is.cases == 0 {
		common.Inconclusive("property=C05 TLC emitted no consumer case")
	}
	rep.AddTLC(res)
	is.runs = append(is.runs, map[string]interface{}{"config": cfg, "states": res.Distinct, "generated": res.Generated, "cases": is.cases, "tlc_wall_s": res.Wall.Seconds()})
	fmt.Printf("iter %-39s states=%d cases=%d at %.1fs\n", cfg, res.Distinct, is.cases, time.Since(env.Start).Seconds())
	return is
}
