# C05 consumer x producer scaffolding (static text; the cases and every expectation come from TLC).
# Only the vetted core of gpython is used outside the construct under test.
LOG = []
class It:
    def __init__(self, items, end):
        self.items = items
        self.end = end
        self.i = 0
    def __iter__(self):
        return self
    def __next__(self):
        LOG.append(1)
        if self.i < len(self.items):
            v = self.items[self.i]
            self.i += 1
            return v
        if self.end == "cls":
            raise StopIteration
        if self.end == "inst":
            raise StopIteration()
        if self.end == "instv":
            raise StopIteration(9)
        if self.end == "errE":
            raise Exception("boom")
        if self.end == "errB":
            raise BaseException("boom")
        raise KeyError("boom")
def gen(items, end):
    i = 0
    while i < len(items):
        LOG.append(1)
        yield items[i]
        i += 1
    LOG.append(1)
    if end == "err":
        raise KeyError("boom")
    if end == "errE":
        raise Exception("boom")
    if end == "errB":
        raise BaseException("boom")
    if end == "ret":
        return 9
class Able:
    def __init__(self, items, end):
        self.items = items
        self.end = end
    def __iter__(self):
        return gen(self.items, self.end)
def producer(kind, items, end):
    if kind == "class":
        return It(items, end)
    if kind == "gen":
        return gen(items, end)
    if kind == "able":
        return Able(items, end)
    if kind == "listiter":
        return iter(items)
    if kind == "rangeiter":
        return iter(range(len(items)))
    raise TypeError("unknown producer kind")
def f3(*a):
    return list(a)
def same(p):
    return p
def fin_for(p):
    out = []
    for x in p:
        out.append(x)
    return out
def fin_listcomp(p):
    return [x for x in p]
def fin_setcomp(p):
    return list({x for x in p})
def fin_dictcomp(p):
    d = {str(x): x for x in p}
    return [d[k] for k in list(d)]
def mk_genexp(p):
    return (x for x in p)
def fin_genexp(w):
    return list(w)
def fin_starcall(p):
    return f3(*p)
def fin_list(p):
    return list(p)
def fin_tuple(p):
    return list(tuple(p))
def fin_set(p):
    return list(set(p))
def fin_sum(p):
    return sum(p)
def fin_min(p):
    return min(p)
def fin_max(p):
    return max(p)
def fin_sorted(p):
    return sorted(p)
def mk_zip(p):
    return zip(p, [7, 8, 9, 10, 11])
def mk_zip2(p):
    return zip([7], p)
def fin_pairs(w):
    return [list(t) for t in list(w)]
def mk_map(p):
    return map(lambda x: x + 1, p)
def mk_filter(p):
    return filter(lambda x: x > 0, p)
def mk_enumerate(p):
    return enumerate(p)
def mk_join(p):
    return (str(x) for x in p)
def mk_joinmap(p):
    return map(str, p)
def fin_join(w):
    return ",".join(w)
def fin_star(p):
    a, *b = p
    return [a, b]
def fin_unpack2(p):
    a, b = p
    return [a, b]
def fin_any(p):
    return any(p)
def fin_all(p):
    return all(p)
def fin_in(p):
    return 2 in p
def mk_nextd(p):
    return iter(p)
def fin_nextd(w):
    return [next(w, -1), next(w, -1), next(w, -1)]
def deleg(p):
    r = yield from p
    yield [r]
def mk_yfv(p):
    return deleg(p)
MK = {"yfv": mk_yfv, "for": same, "listcomp": same, "setcomp": same, "dictcomp": same, "genexp": mk_genexp, "starcall": same,
      "list": same, "tuple": same, "set": same, "sum": same, "min": same, "max": same, "sorted": same,
      "zip": mk_zip, "zip2": mk_zip2, "map": mk_map, "filter": mk_filter, "enumerate": mk_enumerate,
      "join": mk_join, "joinmap": mk_joinmap, "star": same, "unpack2": same, "any": same, "all": same,
      "in": same, "nextd": mk_nextd}
FIN = {"yfv": fin_list, "for": fin_for, "listcomp": fin_listcomp, "setcomp": fin_setcomp, "dictcomp": fin_dictcomp, "genexp": fin_genexp,
       "starcall": fin_starcall, "list": fin_list, "tuple": fin_tuple, "set": fin_set, "sum": fin_sum, "min": fin_min,
       "max": fin_max, "sorted": fin_sorted, "zip": fin_pairs, "zip2": fin_pairs, "map": fin_list, "filter": fin_list,
       "enumerate": fin_pairs, "join": fin_join, "joinmap": fin_join, "star": fin_star, "unpack2": fin_unpack2,
       "any": fin_any, "all": fin_all, "in": fin_in, "nextd": fin_nextd}
def run(c, kind, items, end):
    del LOG[:]
    p = producer(kind, items, end)
    w = MK[c](p)
    print(len(LOG))
    try:
        r = FIN[c](w)
        print(['val', r])
    except KeyError:
        print(['exc', 'KeyError'])
    except ValueError:
        print(['exc', 'ValueError'])
    except TypeError:
        print(['exc', 'TypeError'])
    except StopIteration:
        print(['exc', 'StopIteration'])
    except (IndexError, AttributeError, NameError, RuntimeError, ZeroDivisionError, ImportError, NotImplementedError, SystemError, AssertionError):
        print(['exc', 'another class'])
    except Exception:
        print(['exc', 'Exception'])
    except BaseException:
        print(['exc', 'BaseException'])
    if kind == "listiter" or kind == "rangeiter":
        print(['rest', list(p)])
    else:
        print(['pulls', len(LOG)])
