SPECIFICATION Spec
CONSTANTS
  Mods = {"ma", "mb", "mc"}
  Families = {"flat2", "modname", "sample", "late"}
  AssumeAll = FALSE
INVARIANTS TypeOK OnlyAvailable RunOnce NoReentry OneObject Provenance StarRespectsUnderscore Terminates Usable Emit
CHECK_DEADLOCK FALSE
