-------------------------- MODULE PipelineUniverse --------------------------
(* C11: the explored input universe and what PyLex says about each input.                     *)
(*                                                                                            *)
(* An input is a sequence of items of the alphabet (alphabet.ndjson, shared with the harness: *)
(* the harness renders item i as the bytes given by its "hex" field), joined with one space   *)
(* (sp = TRUE) or with nothing (sp = FALSE), compiled in each of the three modes.             *)
(* Besides free sequences there are framed ones: a filler sequence placed in the hole of a    *)
(* grammatical context (Frames below: assignment target, augmented-assignment target, del,    *)
(* parameter list, block bodies ...), because the code that runs after the parser has shifted *)
(* a whole statement (grammar actions, symbol table, code generation) is only reached by      *)
(* nearly well-formed text.  Frames are written with explicit space items and joined with     *)
(* nothing; filler items are separated by one space item.                                     *)
(* TLC enumerates every sequence up to MaxLen (exhaustive configuration) or draws sequences   *)
(* of a length in SimLens (simulation configuration, -simulate with the run's seed) and       *)
(* prints, per sequence, the lexical classification of both joinings.                         *)
(*                                                                                            *)
(* Alphabet item: [id, free, core, hex, show, cls, items, ls, rs]                             *)
(*   free            the item takes part in the free / filler enumeration (the deeper          *)
(*                   indentation items exist for the nested-frame family only)                *)
(*   core            member of the small core alphabet (atoms, brackets, a few operators and  *)
(*                   keywords) over which longer frame fillers are enumerated                 *)
(*   cls = "tok"     items = the PyLex token items the text consists of                       *)
(*   cls = "ws"      in-line white space (items = its PyLex items)                            *)
(*   cls = "nl"      a line terminator followed by the white space in items                   *)
(*   cls = "bsnl"    backslash + line terminator                                              *)
(*   cls = "comment" a comment: swallows everything up to the next line terminator            *)
(*   cls = "lexerr"  a character that is an unconditional error outside strings and comments  *)
(*   cls = "opaque"  PyLex makes no claim about inputs containing it (string quotes that may  *)
(*                   pair up, malformed numbers, control bytes, invalid UTF-8, BOM)           *)
(*   ls / rs         the item cannot merge with a neighbour on its left / right when joined   *)
(*                   without a space (brackets, comma, white space ...)                       *)
EXTENDS Integers, Sequences, FiniteSets, TLC, Json, SequencesExt, PyLex

CONSTANTS NestDepth,   \* exhaustive: every misplaced-statement leaf under every nesting of 1..NestDepth compound frames
          MaxLen,      \* exhaustive: every free sequence of 1..MaxLen items
          MaxFill,     \* exhaustive: every filler of 0..MaxFill items in every frame
          CoreFill,    \* exhaustive: every filler of up to CoreFill items of the core alphabet in every frame
                       \* (and, where the hole is a statement position, every item followed by a core item)
          SimLens,     \* simulation: lengths of free sequences ({} in the exhaustive configuration)
          SimFill      \* simulation: lengths of frame fillers

Alpha == ndJsonDeserialize("alphabet.ndjson")
NAlpha == Len(Alpha)
FreeIds == { i \in 1..NAlpha : Alpha[i].free }

(* The physical lines (PyLex items) of the text obtained by joining the items of seq.         *)
Build(seq, sp) ==
  LET step(a, j) ==
        LET it   == Alpha[seq[j]]
            glue == IF ~sp /\ j > 1 /\ ~a.incomment /\ ~(Alpha[seq[j - 1]].rs \/ it.ls) THEN TRUE ELSE a.glue
            sep  == IF sp /\ j > 1 /\ ~a.incomment THEN <<PLWs(1)>> ELSE <<>>
            b    == [a EXCEPT !.glue = glue]
        IN IF it.cls = "opaque" THEN [b EXCEPT !.opaque = TRUE]
           ELSE IF a.incomment THEN
                IF it.cls = "nl" THEN [b EXCEPT !.lines = Append(@, a.cur), !.cur = it.items, !.incomment = FALSE]
                ELSE IF it.cls = "bsnl" THEN [b EXCEPT !.lines = Append(@, a.cur), !.cur = <<>>, !.incomment = FALSE]
                ELSE b
           ELSE IF it.cls \in {"tok", "ws"} THEN [b EXCEPT !.cur = (@ \o sep) \o it.items]
           ELSE IF it.cls = "nl" THEN [b EXCEPT !.lines = Append(@, a.cur \o sep), !.cur = it.items]
           ELSE IF it.cls = "bsnl" THEN [b EXCEPT !.lines = Append(@, (a.cur \o sep) \o <<PLBslash>>), !.cur = <<>>]
           ELSE IF it.cls = "comment" THEN [b EXCEPT !.cur = (@ \o sep) \o <<PLComment>>, !.incomment = TRUE]
           ELSE \* lexerr
                [b EXCEPT !.cur = @ \o sep, !.lexerr = TRUE]
      r == FoldLeft(step, [lines |-> <<>>, cur |-> <<>>, incomment |-> FALSE, glue |-> FALSE,
                           opaque |-> FALSE, lexerr |-> FALSE], [j \in 1..Len(seq) |-> j])
  IN [r EXCEPT !.lines = IF r.cur # <<>> THEN Append(@, r.cur) ELSE @]

(* lexical class of the joined text and, where PyLex yields tokens, the token kinds           *)
Classify(seq, sp) ==
  LET b == Build(seq, sp) IN
  IF b.opaque \/ b.glue THEN [lex |-> "none", toks |-> <<>>]
  ELSE LET r == PLLex(b.lines) IN
       IF ~r.nest \/ r.err = "tab" THEN [lex |-> "none", toks |-> <<>>]   \* improper nesting: no token-level meaning; tab consistency is C06's
       ELSE IF b.lexerr \/ r.err = "dedent" THEN [lex |-> "err", toks |-> <<>>]
       ELSE IF r.err = "eof" THEN [lex |-> "eof", toks |-> r.out]
       ELSE [lex |-> "toks", toks |-> r.out]

(* ---- frames: [pre, post] as "show" names of alphabet items; the hole is between them ---- *)
Fr(pre, post) == [pre |-> pre, post |-> post, body |-> FALSE]
FrB(pre, post) == [pre |-> pre, post |-> post, body |-> TRUE]    \* the hole is a statement position
Frames == <<
  Fr(<<>>, <<" ", "=", " ", "1">>),                                  \* {} = 1
  Fr(<<>>, <<" ", "+=", " ", "1">>),                                 \* {} += 1
  Fr(<<"x", " ", "=", " ">>, <<>>),                                  \* x = {}
  Fr(<<"x", " ", "=", " ", "y", " ", "=", " ">>, <<>>),              \* x = y = {}
  Fr(<<"del", " ">>, <<>>),                                          \* del {}
  Fr(<<"for", " ">>, <<" ", "in", " ", "x", ":", " ", "pass">>),     \* for {} in x: pass
  Fr(<<"for", " ", "x", " ", "in", " ">>, <<":", " ", "pass">>),     \* for x in {}: pass
  Fr(<<"def", " ", "x", "(">>, <<")", ":", " ", "pass">>),           \* def x({}): pass
  Fr(<<"def", " ", "x", "(", ")", " ", "->", " ">>, <<":", " ", "pass">>),   \* def x() -> {}: pass
  Fr(<<"lambda", " ">>, <<":", " ", "0">>),                          \* lambda {}: 0
  Fr(<<"class", " ", "x", "(">>, <<")", ":", " ", "pass">>),         \* class x({}): pass
  Fr(<<"with", " ">>, <<":", " ", "pass">>),                         \* with {}: pass
  Fr(<<"with", " ", "x", " ", "as", " ">>, <<":", " ", "pass">>),    \* with x as {}: pass
  Fr(<<"global", " ">>, <<>>),                                       \* global {}
  Fr(<<"import", " ">>, <<>>),                                       \* import {}
  Fr(<<"from", " ", "x", " ", "import", " ">>, <<>>),                \* from x import {}
  Fr(<<"from", " ">>, <<" ", "import", " ", "x">>),                  \* from {} import x
  Fr(<<"[">>, <<" ", "for", " ", "x", " ", "in", " ", "y", "]">>),   \* [{} for x in y]
  Fr(<<"[", "x", " ", "for", " ">>, <<" ", "in", " ", "y", "]">>),   \* [x for {} in y]
  Fr(<<"{">>, <<" ", "for", " ", "x", " ", "in", " ", "y", "}">>),   \* {{} for x in y}
  Fr(<<"{">>, <<"}">>),                                              \* {{}}
  Fr(<<"x", "[">>, <<"]">>),                                         \* x[{}]
  Fr(<<"x", "(">>, <<")">>),                                         \* x({})
  Fr(<<"x", "[">>, <<"]", " ", "=", " ", "1">>),                     \* x[{}] = 1
  Fr(<<"x", ".", "y", " ">>, <<" ", "1">>),                          \* x.y {} 1
  FrB(<<"def", " ", "x", "(", ")", ":", "\\n    ">>, <<>>),           \* def x(): NL {}
  FrB(<<"class", " ", "x", ":", "\\n    ">>, <<>>),                   \* class x: NL {}
  FrB(<<"def", " ", "x", "(", ")", ":", "\\n    ", "def", " ", "y", "(", ")", ":", " ">>, <<>>),   \* def x(): NL def y(): {}
  FrB(<<"while", " ", "x", ":", "\\n    ">>, <<>>),                   \* while x: NL {}
  FrB(<<"while", " ", "x", ":", "\\n    ", "try", ":", " ", "pass", "\\n    ", "finally", ":", " ">>, <<>>),  \* while x: NL try: pass NL finally: {}
  FrB(<<"try", ":", " ">>, <<"\\n", "finally", ":", " ", "pass">>),   \* try: {} NL finally: pass
  Fr(<<"try", ":", " ", "pass", "\\n", "except", " ">>, <<":", " ", "pass">>),   \* try: pass NL except {}: pass
  Fr(<<"if", " ", "x", ":", " ", "pass", "\\n">>, <<":", " ", "pass">>),   \* if x: pass NL {}: pass
  Fr(<<"@">>, <<"\\n", "def", " ", "x", "(", ")", ":", " ", "pass">>),  \* @{} NL def x(): pass
  Fr(<<"raise", " ">>, <<>>),                                        \* raise {}
  Fr(<<"assert", " ">>, <<>>),                                       \* assert {}
  Fr(<<"yield", " ">>, <<>>),                                        \* yield {}
  Fr(<<"x", " ", "if", " ">>, <<" ", "else", " ", "y">>)             \* x if {} else y
>>
NFrames == Len(Frames)
IdOf(show) == CHOOSE i \in 1..NAlpha : Alpha[i].show = show
IdsOf(shows) == [k \in 1..Len(shows) |-> IdOf(shows[k])]
SpaceId == IdOf(" ")
Spread(fill) == [k \in 1..(IF fill = <<>> THEN 0 ELSE 2 * Len(fill) - 1) |-> IF k % 2 = 1 THEN fill[(k + 1) \div 2] ELSE SpaceId]
FrameIds == [f \in 1..NFrames |-> [pre |-> IdsOf(Frames[f].pre), post |-> IdsOf(Frames[f].post)]]
ASSUME \A f \in 1..NFrames : \A k \in 1..Len(Frames[f].pre) : \E i \in 1..NAlpha : Alpha[i].show = Frames[f].pre[k]
ASSUME \A f \in 1..NFrames : \A k \in 1..Len(Frames[f].post) : \E i \in 1..NAlpha : Alpha[i].show = Frames[f].post[k]

(* ---- nested compound frames around a (possibly misplaced) simple statement ---------------- *)
(* The checks the compile stage makes after parsing - block-stack walks for break / continue,   *)
(* 'return' / 'yield' outside a function, nonlocal / global rules, import * - depend on the     *)
(* NESTING of compound statements, which neither short free sequences nor single-hole frames    *)
(* reach.  A compound frame is [head, tail]: head, a line break, the indented body, tail;       *)
(* "NL0" / "NL1" stand for a line break followed by the indentation of the frame itself / of    *)
(* its body.  A case is a nesting of 1..NestDepth frames around one leaf statement.             *)
Cf(head, tail) == [head |-> head, tail |-> tail]
Compounds == <<
  Cf(<<"with", " ", "x", ":">>, <<>>),
  Cf(<<"with", " ", "x", ",", " ", "y", ":">>, <<>>),
  Cf(<<"try", ":">>, <<"NL0", "finally", ":", "NL1", "pass">>),
  Cf(<<"try", ":", "NL1", "pass", "NL0", "finally", ":">>, <<>>),
  Cf(<<"try", ":">>, <<"NL0", "except", ":", "NL1", "pass">>),
  Cf(<<"try", ":", "NL1", "pass", "NL0", "except", ":">>, <<>>),
  Cf(<<"try", ":", "NL1", "pass", "NL0", "except", " ", "x", " ", "as", " ", "y", ":">>, <<>>),
  Cf(<<"try", ":", "NL1", "pass", "NL0", "except", ":", "NL1", "pass", "NL0", "else", ":">>, <<>>),
  Cf(<<"for", " ", "x", " ", "in", " ", "y", ":">>, <<>>),
  Cf(<<"for", " ", "x", " ", "in", " ", "y", ":", "NL1", "pass", "NL0", "else", ":">>, <<>>),
  Cf(<<"while", " ", "x", ":">>, <<>>),
  Cf(<<"while", " ", "x", ":", "NL1", "pass", "NL0", "else", ":">>, <<>>),
  Cf(<<"def", " ", "x", "(", ")", ":">>, <<>>),
  Cf(<<"class", " ", "x", ":">>, <<>>),
  Cf(<<"if", " ", "x", ":">>, <<>>),
  Cf(<<"if", " ", "x", ":", "NL1", "pass", "NL0", "else", ":">>, <<>>)
>>
NCompounds == Len(Compounds)
Leaves == <<
  <<"continue">>, <<"break">>, <<"return">>, <<"return", " ", "x">>, <<"yield">>, <<"yield", " ", "x">>, <<"x", " ", "=", " ", "yield">>,
  <<"yield", " ", "from", " ", "x">>, <<"lambda", ":", " ", "(", "yield", ")">>, <<"nonlocal", " ", "x">>, <<"global", " ", "x">>,
  <<"from", " ", "x", " ", "import", " ", "*">>, <<"import", " ", "x">>, <<"del", " ", "(", ")">>, <<"del", " ", "x">>, <<"raise">>,
  <<"raise", " ", "x", " ", "from", " ", "y">>, <<"pass">>, <<"x", " ", "=", " ", "1">>, <<"x", " ", "+=", " ", "1">>, <<"assert", " ", "x">>
>>
NLeaves == Len(Leaves)
NlShow(d) == <<"\\n", "\\n    ", "\\n        ", "\\n            ", "\\n                ">>[d + 1]   \* line break + indentation of depth d
Place(shows, d) == [k \in 1..Len(shows) |-> IF shows[k] = "NL0" THEN NlShow(d) ELSE IF shows[k] = "NL1" THEN NlShow(d + 1) ELSE shows[k]]
RECURSIVE NestShows(_, _, _)
NestShows(frames, leaf, d) ==
  IF frames = <<>> THEN Leaves[leaf]
  ELSE LET c == Compounds[Head(frames)] IN
       ((Place(c.head, d) \o <<NlShow(d + 1)>>) \o NestShows(Tail(frames), leaf, d + 1)) \o Place(c.tail, d)
(* a nested case is encoded as fill = <<frame, ..., frame, leaf>> with f = -1 *)
NestSeq(fill) == IdsOf(NestShows(SubSeq(fill, 1, Len(fill) - 1), fill[Len(fill)], 0))
NestCases == UNION { { fr \o <<lf>> : fr \in [1..n -> 1..NCompounds], lf \in 1..NLeaves } : n \in 1..NestDepth }

(* the item sequence of a case: a free sequence (f = 0), a filler in frame f, a nested case (f = -1) *)
CaseSeq(f, fill) == IF f = 0 THEN fill ELSE IF f = -1 THEN NestSeq(fill) ELSE (FrameIds[f].pre \o Spread(fill)) \o FrameIds[f].post
Skip == [lex |-> "skip", toks |-> <<>>]
Record(f, fill) == LET s == CaseSeq(f, fill) IN
                   [s |-> s, f |-> f, a |-> IF f = 0 THEN Classify(s, TRUE) ELSE Skip, b |-> Classify(s, FALSE)]

VARIABLES f, fill, tgt, out
vars == <<f, fill, tgt, out>>
Sim == SimLens # {}
Init == \/ /\ fill = <<>> /\ out = FALSE
           /\ f \in 0..NFrames
           /\ tgt \in (IF ~Sim THEN {0} ELSE IF f = 0 THEN SimLens ELSE SimFill)
        \/ /\ ~Sim /\ f = -1 /\ out = FALSE /\ tgt = 0
           /\ fill \in NestCases
Bound == IF Sim THEN tgt ELSE IF f = 0 THEN MaxLen ELSE MaxFill
AllCore(q) == \A k \in 1..Len(q) : Alpha[q[k]].core
(* exhaustive: every free item is a successor; simulation: one drawn with TLC's seeded RNG   *)
(* (the simulator generates and checks every candidate successor, so offering all items and  *)
(* letting it choose costs NAlpha times more)                                                *)
Grow == /\ f >= 0
        /\ \E i \in (IF ~Sim THEN FreeIds ELSE {RandomElement(FreeIds)}) :
              /\ \/ Len(fill) < Bound
                 \/ ~Sim /\ f # 0 /\ Len(fill) < CoreFill /\ Alpha[i].core /\ AllCore(fill)
                 \/ ~Sim /\ f # 0 /\ Frames[f].body /\ Len(fill) = 1 /\ Alpha[i].core   \* any item + core item at a statement position
              /\ fill' = Append(fill, i)
        /\ UNCHANGED <<f, tgt, out>>
(* simulation: the completed draw is exported by the step that leaves it (the simulator     *)
(* evaluates invariants on every candidate successor, an action only on the state it chose); *)
(* afterwards the behaviour stutters until the depth bound ends it                           *)
Export == /\ Sim /\ Len(fill) = tgt /\ ~out
          /\ PrintT(ToJson(Record(f, fill)))
          /\ out' = TRUE /\ UNCHANGED <<f, fill, tgt>>
Idle == out /\ UNCHANGED vars
(* a nested case does its work (and is exported) in a step, not in the initial state *)
Nest == f = -1 /\ ~out /\ out' = TRUE /\ UNCHANGED <<f, fill, tgt>>
Next == Grow \/ Export \/ Idle \/ Nest
Spec == Init /\ [][Next]_vars

(* exhaustive configuration: one record per case (each distinct state is checked once) *)
Emit == (~Sim /\ (f > 0 \/ (f = 0 /\ fill # <<>>) \/ (f = -1 /\ out))) => PrintT(ToJson(Record(f, fill)))
=============================================================================
