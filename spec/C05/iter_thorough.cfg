\* the full consumer x producer product: items of length 0..4 over {0,1,2}
SPECIFICATION Spec
CONSTANTS
  MaxLen = 4
  Alphabet = {0, 1, 2}
  ConsumerSet <- AllConsumers
INVARIANTS TypeOK AlgMatchesDecl LazyCreation OnlyStopEnds NeverBeyondFailure Emit
CHECK_DEADLOCK FALSE
