----------------------- MODULE LifecycleAbsTrace -----------------------
(* Trace validation of free-running executions of the real context against LifecycleAbs.      *)
(* The harness logs, with one global atomic sequence number, an event before each call, after *)
(* each return, from inside the executed code and from the close callback.  TLC places the    *)
(* internal steps.  Sessions are concatenated; a "reset" event starts a fresh context.        *)
EXTENDS LifecycleAbs, Json
Trace == ndJsonDeserialize("trace.ndjson")
VARIABLE l
tvars == <<avars, l>>
TInit == AInit /\ l = 1
Ev == Trace[l]
Consume(k) == l <= Len(Trace) /\ Ev.k = k /\ l' = l + 1
TInvoke == Consume("inv") /\ Invoke(Ev.p, Ev.op)
TReturn == Consume("ret") /\ Return(Ev.p, Ev.op, Ev.res)
TRunning == Consume("exec") /\ Running(Ev.p)
TCallbacks == Consume("cb") /\ Callbacks
TReset == /\ Consume("reset")
          /\ phase' = [p \in Procs |-> Idle] /\ adm' = {} /\ closed' = FALSE /\ cbs' = 0 /\ done' = FALSE
TInternal == Internal /\ UNCHANGED l
TNext == TInvoke \/ TReturn \/ TRunning \/ TCallbacks \/ TReset \/ TInternal
TSpec == TInit /\ [][TNext]_tvars
(* acceptance: the whole file is consumed; the high-water mark of l is kept in TLC register 1 *)
ASSUME TLCSet(1, 0)
Hwm == IF l > TLCGet(1) THEN TLCSet(1, l) ELSE TRUE
Accepted == IF TLCGet(1) = Len(Trace) + 1 THEN TRUE ELSE PrintT(ToJson([rejected_at |-> TLCGet(1), event |-> Trace[TLCGet(1)]]))  /\ FALSE
=============================================================================
