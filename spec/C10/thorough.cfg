SPECIFICATION Spec
CONSTANTS
  MaxFull = 2
  NSample = 1000
INVARIANT TypeOK
PROPERTY Delivered
CHECK_DEADLOCK FALSE
