---------------------------- MODULE Lifecycle ----------------------------
(* The open -> closing -> closed protocol of a gpython context (stdlib/stdlib.go), one action  *)
(* per critical section / blocking primitive.  pc[p] is the yield point (build tag verif)      *)
(* goroutine p is parked at -- a goroutine released from point X performs the access X names   *)
(* and runs to its next point -- or one of the blocked states in_wait (inside idle.Wait),      *)
(* in_once (inside closeOnce.Do while another Close runs), in_done (receiving from Done()).    *)
(*                                                                                             *)
(* Operations of a script:                                                                      *)
(*   run    ctx.RunCode(code)                 pb  exec  pop            (runr: code raises)      *)
(*   minit  ctx.ModuleInit(impl with code)    pb  pb2 exec pop2  pop   (nested RunCode; minitr) *)
(*   rac    ctx.ResolveAndCompile(path)       pb  pop                  (racx, minitc: fail)     *)
(*   close  ctx.Close()                       c_once [c_begin [in_wait] c_cb c_done] c_ret      *)
(*   wait   <-ctx.Done()                      w_recv [in_done]                                  *)
(*                                                                                             *)
(* AtomicWake = TRUE is the view of the controlling scheduler of the harness: a waiter woken   *)
(* by the last popBusy runs on its own (no yield point inside sync.Cond.Wait) to c_cb while    *)
(* every other goroutine is parked.  AtomicWake = FALSE lets any step happen between the       *)
(* wake-up and the waiter re-acquiring the mutex, which is what free-running code can do; the  *)
(* properties are checked in both.                                                             *)
EXTENDS Integers, Sequences, FiniteSets, TLC, Json

CONSTANTS Procs,       \* goroutine names
          ScriptSet,   \* set of script assignments [Procs -> Seq(Op)]
          AtomicWake   \* see above

(* the three execution entry points, each also in a variant that is admitted and then fails     *)
(* for its own reasons (the code raises; the source does not compile; the file does not exist): *)
(* every return path of every entry point must release the context exactly once.                *)
RunLike   == {"run", "runr"}                \* RunCode; runr: the code raises after its yield point
MinitLike == {"minit", "minitr"}            \* ModuleInit with code (nested RunCode); minitr: that code raises
RacLike   == {"rac", "racx", "minitc"}      \* ResolveAndCompile (racx: missing file); minitc: ModuleInit whose source does not compile
ExecOps   == RunLike \cup MinitLike \cup RacLike
Fails(op) == op \in {"runr", "minitr", "racx", "minitc"}
Ops == ExecOps \cup {"close", "wait"}

VARIABLES script,                              \* chosen at Init, constant afterwards
          closing, closed, running, once, done, cbs,   \* the context (cbs: close-callback rounds run)
          pc, ip, res,                         \* per goroutine: yield point, op index, results so far
          admitted,                            \* history: executions admitted and not finished, <<p, ip>>
          closeRet,                            \* history: some Close has returned
          late,                                \* history: late[p] = current op of p was invoked after a Close returned
          snap,                                \* history: snap[p] = admitted at the invocation of p's current op
          bad,                                 \* history: property clauses violated by a step (set of strings)
          lastP                                \* bookkeeping for the edge export (hidden by VIEW)

core == <<script, closing, closed, running, once, done, cbs, pc, ip, res, admitted, closeRet, late, snap, bad>>
vars == <<core, lastP>>

First(op) == CASE op \in ExecOps -> "pb" [] op = "close" -> "c_once" [] op = "wait" -> "w_recv"
PcAt(s, p, i) == IF i > Len(s[p]) THEN "fin" ELSE First(s[p][i])
Op(p) == script[p][ip[p]]

Init == /\ script \in ScriptSet
        /\ closing = FALSE /\ closed = FALSE /\ running = 0 /\ once = "idle" /\ done = FALSE /\ cbs = 0
        /\ pc = [p \in Procs |-> PcAt(script, p, 1)] /\ ip = [p \in Procs |-> 1]
        /\ res = [p \in Procs |-> <<>>] /\ admitted = {} /\ closeRet = FALSE
        /\ late = [p \in Procs |-> FALSE] /\ snap = [p \in Procs |-> {}] /\ bad = {} /\ lastP = "-"

(* p finishes its current operation with result r; pcs/adm/cr are the values of pc, admitted,   *)
(* closeRet after the step apart from p's own move to its next operation.                       *)
EndOp(p, r, pcs, adm, cr, newbad) ==
  /\ res' = [res EXCEPT ![p] = Append(@, r)]
  /\ ip' = [ip EXCEPT ![p] = @ + 1]
  /\ pc' = [pcs EXCEPT ![p] = PcAt(script, p, ip[p] + 1)]
  /\ late' = [late EXCEPT ![p] = cr]
  /\ snap' = [snap EXCEPT ![p] = adm]
  /\ closeRet' = cr
  /\ admitted' = adm
  /\ bad' = bad \cup newbad
        \cup (IF late[p] /\ Op(p) \in ExecOps /\ r # "err" THEN {"PostCloseFails"} ELSE {})
        \cup (IF Op(p) = "close" /\ snap[p] \cap adm # {} THEN {"CloseWaits"} ELSE {})

(* wake-up of the Close waiter when running reaches zero *)
WokenPc == IF AtomicWake THEN "c_cb" ELSE "woken"
WakeWaiters(pcs, cond) == [q \in Procs |-> IF cond /\ pcs[q] = "in_wait" THEN WokenPc ELSE pcs[q]]
WakeOnce(pcs) == [q \in Procs |-> IF pcs[q] = "in_once" THEN "c_ret" ELSE pcs[q]]
WakeDone(pcs) == [q \in Procs |-> IF pcs[q] = "in_done" THEN "w_end" ELSE pcs[q]]
SomeWaiter == \E q \in Procs : pc[q] = "in_wait"

(* pushBusy: { if closed -> error; running++ } under the mutex *)
PB(p) ==
  /\ pc[p] = "pb"
  /\ IF closed
     THEN /\ EndOp(p, "err", pc, admitted, closeRet, {})
          /\ UNCHANGED <<closing, closed, running, once, done, cbs>>
     ELSE /\ running' = running + 1
          /\ admitted' = admitted \cup {<<p, ip[p]>>}
          /\ pc' = [pc EXCEPT ![p] = CASE Op(p) \in RunLike -> "exec" [] Op(p) \in MinitLike -> "pb2" [] Op(p) \in RacLike -> "pop"]
          /\ bad' = bad \cup (IF cbs > 0 THEN {"NoAdmitAfterCallbacks"} ELSE {})
          /\ UNCHANGED <<closing, closed, once, done, cbs, ip, res, closeRet, late, snap>>

(* the nested RunCode of ModuleInit *)
PB2(p) ==
  /\ pc[p] = "pb2"
  /\ IF closed
     THEN /\ pc' = [pc EXCEPT ![p] = "pop_err"]   \* nested call fails, ModuleInit returns the error after its own popBusy
          /\ UNCHANGED <<running>>
     ELSE /\ running' = running + 1
          /\ pc' = [pc EXCEPT ![p] = "exec"]
  /\ UNCHANGED <<closing, closed, once, done, cbs, ip, res, admitted, closeRet, late, snap, bad>>

(* the executed code reaches the harness' own yield point and goes on *)
Exec(p) ==
  /\ pc[p] = "exec"
  /\ pc' = [pc EXCEPT ![p] = IF Op(p) \in MinitLike THEN "pop2" ELSE "pop"]
  /\ UNCHANGED <<closing, closed, running, once, done, cbs, ip, res, admitted, closeRet, late, snap, bad>>

(* popBusy: { running--; if running == 0 -> Broadcast } under the mutex *)
Pop2(p) ==
  /\ pc[p] = "pop2"
  /\ running' = running - 1
  /\ pc' = WakeWaiters([pc EXCEPT ![p] = "pop"], running - 1 = 0)
  /\ closed' = IF AtomicWake /\ running - 1 = 0 /\ SomeWaiter THEN TRUE ELSE closed
  /\ UNCHANGED <<closing, once, done, cbs, ip, res, admitted, closeRet, late, snap, bad>>

Pop(p) ==
  /\ pc[p] \in {"pop", "pop_err"}
  /\ running' = running - 1
  /\ closed' = IF AtomicWake /\ running - 1 = 0 /\ SomeWaiter THEN TRUE ELSE closed
  /\ EndOp(p, IF pc[p] = "pop_err" \/ Fails(Op(p)) THEN "err" ELSE "ok", WakeWaiters(pc, running - 1 = 0),
           admitted \ {<<p, ip[p]>>}, closeRet, {})
  /\ UNCHANGED <<closing, once, done, cbs>>

(* Close: closeOnce.Do *)
COnce(p) ==
  /\ pc[p] = "c_once"
  /\ once' = IF once = "idle" THEN "busy" ELSE once
  /\ pc' = [pc EXCEPT ![p] = CASE once = "idle" -> "c_begin" [] once = "done" -> "c_ret" [] OTHER -> "in_once"]
  /\ UNCHANGED <<closing, closed, running, done, cbs, ip, res, admitted, closeRet, late, snap, bad>>

(* { closing = true; for running > 0 { idle.Wait() }; closed = true } under the mutex *)
CBegin(p) ==
  /\ pc[p] = "c_begin"
  /\ closing' = TRUE
  /\ IF running = 0 THEN closed' = TRUE /\ pc' = [pc EXCEPT ![p] = "c_cb"]
                    ELSE closed' = closed /\ pc' = [pc EXCEPT ![p] = "in_wait"]
  /\ UNCHANGED <<running, once, done, cbs, ip, res, admitted, closeRet, late, snap, bad>>

(* the woken waiter re-acquires the mutex and re-tests (AtomicWake = FALSE only) *)
CWake(p) ==
  /\ pc[p] = "woken"
  /\ IF running = 0 THEN closed' = TRUE /\ pc' = [pc EXCEPT ![p] = "c_cb"]
                    ELSE closed' = closed /\ pc' = [pc EXCEPT ![p] = "in_wait"]
  /\ UNCHANGED <<closing, running, once, done, cbs, ip, res, admitted, closeRet, late, snap, bad>>

(* store.OnContextClosed() *)
CCb(p) ==
  /\ pc[p] = "c_cb"
  /\ cbs' = cbs + 1
  /\ pc' = [pc EXCEPT ![p] = "c_done"]
  /\ bad' = bad \cup (IF admitted # {} THEN {"NoAdmitAfterCallbacks"} ELSE {})
  /\ UNCHANGED <<closing, closed, running, once, done, ip, res, admitted, closeRet, late, snap>>

(* close(done); Do returns *)
CDone(p) ==
  /\ pc[p] = "c_done"
  /\ done' = TRUE /\ once' = "done"
  /\ pc' = WakeDone(WakeOnce([pc EXCEPT ![p] = "c_ret"]))
  /\ UNCHANGED <<closing, closed, running, cbs, ip, res, admitted, closeRet, late, snap, bad>>

CRet(p) ==
  /\ pc[p] = "c_ret"
  /\ EndOp(p, "closed", pc, admitted, TRUE, {})
  /\ UNCHANGED <<closing, closed, running, once, done, cbs>>

(* <-ctx.Done() *)
WRecv(p) ==
  /\ pc[p] = "w_recv"
  /\ pc' = [pc EXCEPT ![p] = IF done THEN "w_end" ELSE "in_done"]
  /\ UNCHANGED <<closing, closed, running, once, done, cbs, ip, res, admitted, closeRet, late, snap, bad>>

WEnd(p) ==
  /\ pc[p] = "w_end"
  /\ EndOp(p, "done", pc, admitted, closeRet, {})
  /\ UNCHANGED <<closing, closed, running, once, done, cbs>>

Step(p) == PB(p) \/ PB2(p) \/ Exec(p) \/ Pop2(p) \/ Pop(p) \/ COnce(p) \/ CBegin(p) \/ CWake(p)
           \/ CCb(p) \/ CDone(p) \/ CRet(p) \/ WRecv(p) \/ WEnd(p)

Next == \E p \in Procs : Step(p) /\ lastP' = p /\ UNCHANGED script
Spec == Init /\ [][Next]_vars
FairSpec == Spec /\ \A p \in Procs : WF_vars(Step(p) /\ lastP' = p /\ UNCHANGED script)

-----------------------------------------------------------------------------
(* The clauses of C09 *)
CounterSane        == running >= 0                         \* "no panic": a decrement without increment
CallbacksOnce      == cbs <= 1
DoneAfterQuiescence == done => (cbs = 1 /\ admitted = {})
NoRunDuringCb      == (cbs > 0) => admitted = {}
ClosedMeansIdle    == closed => (running = 0 /\ admitted = {})
StepClauses        == bad = {}        \* CloseWaits, PostCloseFails, NoAdmitAfterCallbacks (evaluated in the steps)
OnceOwner          == (once = "busy") <=> (\E p \in Procs : pc[p] \in {"c_begin", "in_wait", "woken", "c_cb", "c_done"})
TypeOK == /\ running \in -3..(2 * Cardinality(Procs)) /\ cbs \in 0..3
          /\ \A p \in Procs : ip[p] \in 1..(Len(script[p]) + 1)

Blocked(p) == pc[p] \in {"fin", "in_wait", "in_once", "in_done"}
Terminated == \A p \in Procs : pc[p] = "fin"
(* A goroutine may legitimately wait for Done forever when nobody ever calls Close: the only   *)
(* final states are "everybody finished or waits for a Done that no started Close will signal". *)
NoDeadlock == (\A p \in Procs : Blocked(p)) =>
                 (\A p \in Procs : pc[p] = "fin" \/ (pc[p] = "in_done" /\ ~done /\ once = "idle"))
Termination == <>(\A p \in Procs : Blocked(p))

-----------------------------------------------------------------------------
(* Export of the labelled state graph: one JSON record per explored edge *)
View == core
HookOf(x) == CASE x = "pb2" -> "pb" [] x \in {"pop2", "pop_err"} -> "pop" [] OTHER -> x
StateRec == [closing |-> closing, closed |-> closed, running |-> running, done |-> done, cbs |-> cbs,
             pc |-> [p \in Procs |-> HookOf(pc[p])], res |-> res, ip |-> ip, bad |-> bad, mpc |-> pc]
Emit == PrintT(ToJson([script |-> script, src |-> StateRec, p |-> lastP', dst |-> StateRec']))
=============================================================================
