SPECIFICATION GSpec
CONSTANTS
  Kinds <- CoreKinds
  MaxItems = 4
  Simulating = FALSE
INVARIANTS TypeOK OnceInOrder PromptClause NotEarly EchoClause Emit
CHECK_DEADLOCK FALSE
