\* the full consumer x producer product: items of length 0..3 over {0,1,2}, every ending, every failure position
SPECIFICATION Spec
CONSTANTS
  MaxLen = 3
  Alphabet = {0, 1, 2}
  ConsumerSet <- AllConsumers
INVARIANTS TypeOK AlgMatchesDecl LazyCreation OnlyStopEnds NeverBeyondFailure Emit
CHECK_DEADLOCK FALSE
