---------------------------- MODULE PyLiteralGen ----------------------------
(* C06 literal cases: every spelling of the enumerated universe with the value it denotes.     *)
EXTENDS PyLiteral

CONSTANTS Kind,        \* "str" | "num"
          FullLen,     \* bodies of 0..FullLen pieces with every prefix and quote kind
          RepLen,      \* bodies of FullLen+1..RepLen pieces with representative prefixes and quotes:
          RepPrefixes, \*   indices into LitPrefixes
          RepQuotes    \*   quote kinds

Bodies(n) == [1..n -> 1..NPieces]
StrUniverse ==
  UNION { { [kind |-> "str", pf |-> pf, q |-> q, body |-> b, body2 |-> <<>>] : pf \in 1..NLitPrefixes, q \in 1..4, b \in Bodies(n) } : n \in 0..FullLen }
  \cup UNION { { [kind |-> "str", pf |-> pf, q |-> q, body |-> b, body2 |-> <<>>] : pf \in RepPrefixes, q \in RepQuotes, b \in Bodies(n) } : n \in (FullLen + 1)..RepLen }
  \* implicit concatenation of two one-piece literals of the same kind (second literal: the other quote family)
  \cup { [kind |-> "concat", pf |-> pf, q |-> q, body |-> b, body2 |-> b2] : pf \in {1, 4, 6}, q \in RepQuotes, b \in Bodies(1), b2 \in Bodies(1) }
  \cup { [kind |-> "badstr", pf |-> 1, q |-> 1, body |-> b, body2 |-> <<>>] : b \in BadStrings }
NumUniverse == { [kind |-> "num", x |-> x] : x \in { y \in IntSpellings : NumOk(y) } }
               \cup { [kind |-> "num", x |-> x] : x \in FloatSpellings }
               \cup { [kind |-> "badnum", x |-> b] : b \in BadNumbers }
Universe == IF Kind = "str" THEN StrUniverse ELSE NumUniverse

Case(u) ==
  IF u.kind = "str" THEN
       LET pf == LitPrefixes[u.pf] IN
       IF ~BodyOk(u.body, u.q, pf) THEN [kind |-> "skip"]
       ELSE [kind |-> "str", bytes |-> pf.bytes, raw |-> pf.raw, triple |-> u.q >= 3, pieces |-> [i \in 1..Len(u.body) |-> Pieces[u.body[i]].name],
             src |-> LitSrc(u.body, u.q, pf), val |-> LitVal(u.body, u.q, pf)]
  ELSE IF u.kind = "concat" THEN
       LET pf == LitPrefixes[u.pf]
           q2 == 5 - u.q            \* ' <-> """ ,  " <-> '''
       IN IF ~BodyOk(u.body, u.q, pf) \/ ~BodyOk(u.body2, q2, pf) THEN [kind |-> "skip"]
          ELSE [kind |-> "str", bytes |-> pf.bytes, raw |-> pf.raw, triple |-> FALSE,
                pieces |-> <<Pieces[u.body[1]].name, "concatenation", Pieces[u.body2[1]].name>>,
                src |-> (LitSrc(u.body, u.q, pf) \o <<32>>) \o LitSrc(u.body2, q2, pf),
                val |-> LitVal(u.body, u.q, pf) \o LitVal(u.body2, q2, pf)]
  ELSE IF u.kind = "badstr" THEN [kind |-> "bad", what |-> "string", src |-> u.body]
  ELSE IF u.kind = "badnum" THEN [kind |-> "bad", what |-> "number", src |-> u.x]
  ELSE LET v == NumVal(u.x) IN [kind |-> "num", src |-> NumSrc(u.x), imag |-> u.x.imag # 0, isint |-> u.x.k = "int", num |-> v.num, den |-> v.den]

VARIABLES u, c
Init == u \in Universe /\ c = [kind |-> "todo"]
Next == c.kind = "todo" /\ c' = Case(u) /\ UNCHANGED u
Spec == Init /\ [][Next]_<<u, c>>
Emit == c.kind \notin {"todo", "skip"} => PrintT(ToJson(c))
=============================================================================
