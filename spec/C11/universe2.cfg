SPECIFICATION Spec
CONSTANTS MaxLen = 2
          SimLens = {}
INVARIANT Emit
CHECK_DEADLOCK FALSE
