------------------------------- MODULE PyIter -------------------------------
(* C05, second half: every consumer of iterables drives any iterator through __iter__/__next__, *)
(* stops only on StopIteration (raised as class or as instance) and propagates every other      *)
(* exception unchanged.                                                                         *)
(*                                                                                              *)
(* A producer is [kind, items, end]:                                                            *)
(*   kind  "class"     user-defined iterator class (__iter__ returns self, __next__)            *)
(*         "gen"       generator                                                                *)
(*         "able"      iterable object whose __iter__ is a generator function                   *)
(*         "listiter"  iter(list)           "rangeiter"  iter(range(n))                        *)
(*   items the values delivered, in order, before the producer ends                             *)
(*   end   "cls"  raise StopIteration        "inst" raise StopIteration()      (class)          *)
(*         "instv" raise StopIteration(9)  (class): the value a delegating yield from evaluates to *)
(*         "fall" falls off the end          "ret"  return 9                  (generators)     *)
(*         "err"  raise KeyError at that position (i.e. after Len(items) deliveries)            *)
(*         "errE" / "errB"  raise Exception / BaseException there: the ANCESTORS of             *)
(*                StopIteration are not StopIteration - only the class itself and its           *)
(*                subclasses end an iteration (found missing by an independently seeded change:  *)
(*                the subclass test of the exhaustion check with its operands exchanged)         *)
(* The n-th __next__ call (n counted from 0) delivers PullRes(p, n).                            *)
(*                                                                                              *)
(* A consumer is an action that pulls one item at a time. Observation of a case: the number of  *)
(* pulls made when the consuming object was merely created (lazy wrappers pull nothing), the    *)
(* consumer's value or the class of the exception it propagates, and the total number of pulls  *)
(* (any/all/in/zip/unpacking stop early: a failure beyond the consumed prefix is never seen).   *)
(* The step-wise consumers are checked against a closed-form declarative statement (Decl).      *)
EXTENDS Integers, Sequences, FiniteSets, TLC, Json, SequencesExt, FiniteSetsExt

CONSTANTS MaxLen,       \* longest item sequence
          Alphabet,     \* item values (small naturals; 0 is falsy, 2 is what `in` looks for)
          ConsumerSet   \* consumers explored

\* ---- observation values: uniformly shaped trees ----
Tr(k, i, s, l) == [k |-> k, i |-> i, s |-> s, l |-> l]
VInt(x)  == Tr("int", x, "", <<>>)
VBool(b) == Tr("bool", IF b THEN 1 ELSE 0, "", <<>>)
VStr(s)  == Tr("str", 0, s, <<>>)
VList(l) == Tr("list", 0, "", l)     \* ordered
VBag(l)  == Tr("set", 0, "", l)      \* unordered collection (a set / the values of a dict): compared up to order
VNone    == Tr("none", 0, "", <<>>)
Ints(s)  == [i \in 1..Len(s) |-> VInt(s[i])]
OVal(v)  == [t |-> "val", v |-> v, e |-> ""]
OExc(c)  == [t |-> "exc", v |-> VNone, e |-> c]

\* ---- producers ----
ItemSeqs == UNION { [1..k -> Alphabet] : k \in 0..MaxLen }
Prod(kind, items, end) == [kind |-> kind, items |-> items, end |-> end]
ErrEnds == {"err", "errE", "errB"}
ErrClass(end) == CASE end = "err" -> "KeyError" [] end = "errE" -> "Exception" [] end = "errB" -> "BaseException"
Producers ==
   { Prod("class", it, e) : it \in ItemSeqs, e \in {"cls", "inst", "instv"} \cup ErrEnds }
   \cup { Prod(kd, it, e) : kd \in {"gen", "able"}, it \in ItemSeqs, e \in {"fall", "ret"} \cup ErrEnds }
   \cup { Prod("listiter", it, "fall") : it \in ItemSeqs }
   \cup { Prod("rangeiter", [i \in 1..k |-> i - 1], "fall") : k \in 0..MaxLen }

\* what the n-th call of __next__ does (n = number of calls made before)
PullRes(p, k) ==
   IF k < Len(p.items) THEN [t |-> "item", v |-> p.items[k + 1]]
   ELSE IF p.end \in ErrEnds /\ (k = Len(p.items) \/ p.kind = "class") THEN [t |-> "exc", v |-> 0]
   ELSE [t |-> "stop", v |-> 0]      \* StopIteration, as class, as instance, or by the generator ending

VARIABLES cs,     \* the case [cons, p]
          n,      \* number of __next__ calls so far
          acc,    \* items the consumer holds
          phase,  \* "new" -> "pull" -> "done"
          npre,   \* pulls made when the consuming object had been created but not used
          out     \* the consumer's outcome
vars == <<cs, n, acc, phase, npre, out>>

Init == /\ cs \in { [cons |-> c, p |-> p] : c \in ConsumerSet, p \in Producers }
        /\ n = 0 /\ acc = <<>> /\ phase = "new" /\ npre = -1 /\ out = OVal(VNone)

\* creating the consumer (calling iter(), building the map/filter/zip/enumerate/generator-expression
\* object) pulls nothing
Create == phase = "new" /\ phase' = "pull" /\ npre' = n /\ UNCHANGED <<cs, n, acc, out>>

Pulled == PullRes(cs.p, n)
Continue(a) == n' = n + 1 /\ acc' = a /\ UNCHANGED <<cs, phase, npre, out>>
Finish(o)   == n' = n + 1 /\ phase' = "done" /\ out' = o /\ UNCHANGED <<cs, acc, npre>>
FinishNoPull(o) == phase' = "done" /\ out' = o /\ UNCHANGED <<cs, n, acc, npre>>
Is(c) == phase = "pull" /\ cs.cons = c
Propagate == Finish(OExc(ErrClass(cs.p.end)))     \* any exception other than StopIteration: unchanged, to the caller

\* consumers that take everything: pull until StopIteration, then compute F of the items
Drain(F(_)) == CASE Pulled.t = "item" -> Continue(Append(acc, Pulled.v))
                 [] Pulled.t = "stop" -> Finish(F(acc))
                 [] Pulled.t = "exc"  -> Propagate

LessThan(a, b) == a < b
RECURSIVE JoinComma(_)
JoinComma(a) == IF a = <<>> THEN "" ELSE IF Len(a) = 1 THEN ToString(a[1]) ELSE ToString(a[1]) \o "," \o JoinComma(Tail(a))
RList(a)   == OVal(VList(Ints(a)))
RBag(a)    == OVal(VBag(Ints(SetToSortSeq(ToSet(a), LessThan))))
RSorted(a) == OVal(VList(Ints(SortSeq(a, LessThan))))
RSum(a)    == OVal(VInt(FoldLeft(LAMBDA x, y : x + y, 0, a)))
RMin(a)    == IF a = <<>> THEN OExc("ValueError") ELSE OVal(VInt(Min(ToSet(a))))
RMax(a)    == IF a = <<>> THEN OExc("ValueError") ELSE OVal(VInt(Max(ToSet(a))))
RMap(a)    == OVal(VList([i \in 1..Len(a) |-> VInt(a[i] + 1)]))
RFilter(a) == OVal(VList(Ints(SelectSeq(a, LAMBDA x : x > 0))))
REnum(a)   == OVal(VList([i \in 1..Len(a) |-> VList(<< VInt(i - 1), VInt(a[i]) >>)]))
RZip(a)    == OVal(VList([i \in 1..Len(a) |-> VList(<< VInt(a[i]), VInt(6 + i) >>)]))   \* zip(p, [7, 8, 9, 10, 11])
RJoin(a)   == OVal(VStr(JoinComma(a)))
RStar(a)   == IF a = <<>> THEN OExc("ValueError") ELSE OVal(VList(<< VInt(a[1]), VList(Ints(Tail(a))) >>))

C_for      == Is("for")      /\ Drain(RList)      \* for x in p: out.append(x)
C_listcomp == Is("listcomp") /\ Drain(RList)      \* [x for x in p]
C_setcomp  == Is("setcomp")  /\ Drain(RBag)       \* {x for x in p}
C_dictcomp == Is("dictcomp") /\ Drain(RBag)       \* {str(x): x for x in p}, its values
C_genexp   == Is("genexp")   /\ Drain(RList)      \* list(x for x in p)
C_starcall == Is("starcall") /\ Drain(RList)      \* f(*p)
C_list     == Is("list")     /\ Drain(RList)
C_tuple    == Is("tuple")    /\ Drain(RList)
C_set      == Is("set")      /\ Drain(RBag)
C_sum      == Is("sum")      /\ Drain(RSum)
C_min      == Is("min")      /\ Drain(RMin)
C_max      == Is("max")      /\ Drain(RMax)
C_sorted   == Is("sorted")   /\ Drain(RSorted)
C_zip      == Is("zip")      /\ Drain(RZip)       \* list(zip(p, longer list)): p is asked first in every round
C_map      == Is("map")      /\ Drain(RMap)       \* list(map(lambda x: x + 1, p))
C_filter   == Is("filter")   /\ Drain(RFilter)    \* list(filter(lambda x: x > 0, p))
C_enumerate == Is("enumerate") /\ Drain(REnum)
C_join     == Is("join")     /\ Drain(RJoin)      \* ",".join(str(x) for x in p)
C_joinmap  == Is("joinmap")  /\ Drain(RJoin)      \* ",".join(map(str, p))
C_star     == Is("star")     /\ Drain(RStar)      \* a, *b = p
\* def d(): r = yield from p; yield [r]   consumed by list(d()): the items, then the VALUE of the yield from - what the
\* StopIteration that ended p carried (a generator's return value, the argument of a StopIteration raised by a user
\* iterator), None if it carried nothing; whoever raised it and through whatever Python code it travelled
EndVal(q) == IF q.end \in {"ret", "instv"} THEN VInt(9) ELSE VNone
RYfv(a)    == OVal(VList(Ints(a) \o << VList(<< EndVal(cs.p) >>) >>))
C_yfv      == Is("yfv")      /\ Drain(RYfv)

\* consumers that stop early
C_any == Is("any") /\ CASE Pulled.t = "item" -> (IF Pulled.v # 0 THEN Finish(OVal(VBool(TRUE))) ELSE Continue(acc))
                        [] Pulled.t = "stop" -> Finish(OVal(VBool(FALSE)))
                        [] Pulled.t = "exc"  -> Propagate
C_all == Is("all") /\ CASE Pulled.t = "item" -> (IF Pulled.v = 0 THEN Finish(OVal(VBool(FALSE))) ELSE Continue(acc))
                        [] Pulled.t = "stop" -> Finish(OVal(VBool(TRUE)))
                        [] Pulled.t = "exc"  -> Propagate
C_in  == Is("in")  /\ CASE Pulled.t = "item" -> (IF Pulled.v = 2 THEN Finish(OVal(VBool(TRUE))) ELSE Continue(acc))   \* 2 in p
                        [] Pulled.t = "stop" -> Finish(OVal(VBool(FALSE)))
                        [] Pulled.t = "exc"  -> Propagate
\* a, b = p : two items, then one more pull that must end the iteration
C_unpack2 == Is("unpack2") /\
   CASE Pulled.t = "item" -> (IF Len(acc) = 2 THEN Finish(OExc("ValueError")) ELSE Continue(Append(acc, Pulled.v)))
     [] Pulled.t = "stop" -> (IF Len(acc) = 2 THEN Finish(RList(acc)) ELSE Finish(OExc("ValueError")))
     [] Pulled.t = "exc"  -> Propagate
\* list(zip([7], p)): the one-element list is asked first; in the second round it ends the zip before p is asked
C_zip2 == Is("zip2") /\
   IF acc # <<>> THEN FinishNoPull(OVal(VList(<< VList(<< VInt(7), VInt(acc[1]) >>) >>)))
   ELSE CASE Pulled.t = "item" -> Continue(<< Pulled.v >>)
          [] Pulled.t = "stop" -> Finish(OVal(VList(<<>>)))
          [] Pulled.t = "exc"  -> Propagate
\* it = iter(p); [next(it, -1), next(it, -1), next(it, -1)] : StopIteration (only) selects the default
C_nextd == Is("nextd") /\
   LET take(x) == IF Len(acc) = 2 THEN Finish(RList(Append(acc, x))) ELSE Continue(Append(acc, x)) IN
   CASE Pulled.t = "item" -> take(Pulled.v)
     [] Pulled.t = "stop" -> take(-1)
     [] Pulled.t = "exc"  -> Propagate

Consume == \/ C_for \/ C_listcomp \/ C_setcomp \/ C_dictcomp \/ C_genexp \/ C_starcall \/ C_list \/ C_tuple \/ C_set
           \/ C_sum \/ C_min \/ C_max \/ C_sorted \/ C_zip \/ C_map \/ C_filter \/ C_enumerate \/ C_join \/ C_joinmap
           \/ C_star \/ C_yfv \/ C_any \/ C_all \/ C_in \/ C_unpack2 \/ C_zip2 \/ C_nextd
AllConsumers == {"for", "listcomp", "setcomp", "dictcomp", "genexp", "starcall", "list", "tuple", "set", "sum", "min", "max",
                 "sorted", "zip", "map", "filter", "enumerate", "join", "joinmap", "star", "yfv", "any", "all", "in", "unpack2",
                 "zip2", "nextd"}
Next == Create \/ Consume
Spec == Init /\ [][Next]_vars

-----------------------------------------------------------------------------
(* Declarative statement of the same thing, in closed form over the whole item sequence.        *)
Fails(p) == p.end \in ErrEnds
FirstIdx(p, P(_)) == IF \E i \in 1..Len(p.items) : P(p.items[i]) THEN Min({ i \in 1..Len(p.items) : P(p.items[i]) }) ELSE 0
Whole(p, F(_)) == [out |-> IF Fails(p) THEN OExc(ErrClass(p.end)) ELSE F(p.items), pulls |-> Len(p.items) + 1]
Early(p, P(_), hit, miss) == LET k == FirstIdx(p, P) IN
   IF k > 0 THEN [out |-> OVal(VBool(hit)), pulls |-> k] ELSE Whole(p, LAMBDA a : OVal(VBool(miss)))
Decl(c, p) ==
   LET len == Len(p.items) IN
   CASE c \in {"for", "listcomp", "genexp", "starcall", "list", "tuple"} -> Whole(p, RList)
     [] c \in {"setcomp", "dictcomp", "set"} -> Whole(p, RBag)
     [] c = "sum" -> Whole(p, RSum) [] c = "min" -> Whole(p, RMin) [] c = "max" -> Whole(p, RMax)
     [] c = "sorted" -> Whole(p, RSorted) [] c = "zip" -> Whole(p, RZip) [] c = "map" -> Whole(p, RMap)
     [] c = "filter" -> Whole(p, RFilter) [] c = "enumerate" -> Whole(p, REnum)
     [] c \in {"join", "joinmap"} -> Whole(p, RJoin)
     [] c = "yfv" -> Whole(p, LAMBDA a : OVal(VList(Ints(a) \o << VList(<< EndVal(p) >>) >>)))
     [] c = "star" -> IF len = 0 THEN [out |-> IF Fails(p) THEN OExc(ErrClass(p.end)) ELSE OExc("ValueError"), pulls |-> 1]
                      ELSE Whole(p, RStar)
     [] c = "any" -> Early(p, LAMBDA x : x # 0, TRUE, FALSE)
     [] c = "all" -> Early(p, LAMBDA x : x = 0, FALSE, TRUE)
     [] c = "in"  -> Early(p, LAMBDA x : x = 2, TRUE, FALSE)
     [] c = "unpack2" -> IF len >= 3 THEN [out |-> OExc("ValueError"), pulls |-> 3]
                         ELSE [out |-> IF Fails(p) THEN OExc(ErrClass(p.end)) ELSE IF len = 2 THEN RList(p.items) ELSE OExc("ValueError"),
                               pulls |-> len + 1]
     [] c = "zip2" -> [out |-> IF len >= 1 THEN OVal(VList(<< VList(<< VInt(7), VInt(p.items[1]) >>) >>))
                               ELSE IF Fails(p) THEN OExc(ErrClass(p.end)) ELSE OVal(VList(<<>>)), pulls |-> 1]
     [] c = "nextd" -> IF len >= 3 THEN [out |-> RList(SubSeq(p.items, 1, 3)), pulls |-> 3]
                       ELSE IF Fails(p) THEN [out |-> OExc(ErrClass(p.end)), pulls |-> len + 1]
                       ELSE [out |-> RList(p.items \o [i \in 1..(3 - len) |-> -1]), pulls |-> 3]

AlgMatchesDecl == phase = "done" => (out = Decl(cs.cons, cs.p).out /\ n = Decl(cs.cons, cs.p).pulls)
LazyCreation   == phase # "new" => npre = 0
\* the only way a consumer ends with a value is a StopIteration or a decision taken on the consumed prefix;
\* an exception outcome other than the consumer's own ValueError is the producer's, unchanged
OnlyStopEnds == (phase = "done" /\ out.t = "exc" /\ out.e \in {"KeyError", "Exception", "BaseException"}) => (Fails(cs.p) /\ n = Len(cs.p.items) + 1)
NeverBeyondFailure == n <= Len(cs.p.items) + 1 \/ ~Fails(cs.p)
TypeOK == phase \in {"new", "pull", "done"} /\ n \in 0..(MaxLen + 3) /\ out.t \in {"val", "exc"}

\* ---- export: one record per case ----
MinOf2(a, b) == IF a < b THEN a ELSE b
\* What a program can see of the pulls: an iterator class sees every __next__ call; a generator body is resumed
\* once per call until it has ended (a call on an exhausted generator runs nothing, PyGen!DoneAbsorbing);
\* of a builtin iterator only the unconsumed rest is visible.
Observable(p, k) == IF p.kind \in {"gen", "able"} THEN MinOf2(k, Len(p.items) + 1) ELSE k
Emit == phase = "done" =>
   PrintT(ToJson([rec |-> "case", cons |-> cs.cons, kind |-> cs.p.kind, items |-> cs.p.items, end |-> cs.p.end,
                  npre |-> npre, out |-> out, pulls |-> n, resumed |-> Observable(cs.p, n),
                  rest |-> SubSeq(cs.p.items, MinOf2(n, Len(cs.p.items)) + 1, Len(cs.p.items))]))
=============================================================================
