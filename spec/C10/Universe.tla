------------------------------ MODULE Universe ------------------------------
(* C10: the input universe of the call/operator boundary, as data.                               *)
(*                                                                                               *)
(* Values: representative values of every builtin type, given by the Python expression that      *)
(* builds them (evaluated by the real interpreter after Prelude has run).                        *)
(*   fresh: the value is mutable or consumable - build a new one for every case                  *)
(*   huge : a magnitude that makes repetition / exponentiation / shifting / allocation           *)
(*          unbounded work by Python's own semantics                                             *)
(*   tier : "std" everywhere; "fatal" only in the subprocess tier (self-referential containers)  *)
(* Operators: every unary/binary/ternary operator, comparison, subscript and slice get/set/del,  *)
(* attribute get/set/del, iteration, call forms, truth/str/repr/len/hash uses - as source        *)
(* templates over the names a, b, c.                                                             *)
(* Programs: statement skeletons (exit statements under nested compound statements).             *)
(* Callables are NOT listed here: they are enumerated from the live interpreter (everything      *)
(* callable in builtins and in the attribute tables of the types of Values), minus Excluded.     *)
EXTENDS Integers, Sequences, FiniteSets, SequencesExt, TLC

Prelude ==
  "import math\ndef fn(a, b=2):\n    return a\ndef gf():\n    yield 1\n    yield 2\nclass K:\n    pass\nclass CM:\n    def __enter__(self):\n        return self\n    def __exit__(self, t, v, tb):\n        return False\ncm = CM()\ndef selflist():\n    l = [1]\n    l.append(l)\n    return l\ndef selfdict():\n    d = {}\n    d['d'] = d\n    return d\ndef deeplist():\n    l = []\n    for i in range(50):\n        l = [l]\n    return l\n"

V(id, src, fresh, huge, tier) == [id |-> id, src |-> src, fresh |-> fresh, huge |-> huge, tier |-> tier]
CoreValues == <<
  V("None", "None", FALSE, FALSE, "std"),
  V("True", "True", FALSE, FALSE, "std"),
  V("False", "False", FALSE, FALSE, "std"),
  V("int:0", "0", FALSE, FALSE, "std"),
  V("int:1", "1", FALSE, FALSE, "std"),
  V("int:-1", "-1", FALSE, FALSE, "std"),
  V("int:3", "3", FALSE, FALSE, "std"),
  V("int:maxint64", "2**63-1", FALSE, TRUE, "std"),
  V("int:minint64", "-2**63", FALSE, TRUE, "std"),
  V("bigint:2**63", "2**63", FALSE, TRUE, "std"),
  V("bigint:-2**70", "-2**70", FALSE, TRUE, "std"),
  V("float:0.0", "0.0", FALSE, FALSE, "std"),
  V("float:-0.0", "-0.0", FALSE, FALSE, "std"),
  V("float:1.5", "1.5", FALSE, FALSE, "std"),
  V("float:inf", "float('inf')", FALSE, FALSE, "std"),
  V("float:-inf", "float('-inf')", FALSE, FALSE, "std"),
  V("float:nan", "float('nan')", FALSE, FALSE, "std"),
  V("complex:1j", "1j", FALSE, FALSE, "std"),
  V("str:empty", "''", FALSE, FALSE, "std"),
  V("str:ab", "'ab'", FALSE, FALSE, "std"),
  V("str:nonascii", "'\\u00e9\\U0001f600'", FALSE, FALSE, "std"),
  V("str:percent", "'%s%d'", FALSE, FALSE, "std"),
  V("str:brace", "'{0}{x}'", FALSE, FALSE, "std"),
  V("str:digits", "'12'", FALSE, FALSE, "std"),
  V("bytes:empty", "b''", FALSE, FALSE, "std"),
  V("bytes:ab", "b'ab'", FALSE, FALSE, "std"),
  V("tuple:empty", "()", FALSE, FALSE, "std"),
  V("tuple:mixed", "(1, 'a')", FALSE, FALSE, "std"),
  V("tuple:unhashable", "([1], {})", TRUE, FALSE, "std"),
  V("list:empty", "[]", TRUE, FALSE, "std"),
  V("list:ints", "[1, 2]", TRUE, FALSE, "std"),
  V("list:nested", "[[1], {'a': 1}, (2,)]", TRUE, FALSE, "std"),
  V("list:deep", "deeplist()", TRUE, FALSE, "std"),
  \* sequences of would-be pairs of every wrong length (dict(), dict.update(), zip-like consumers index into them)
  V("list:1-tuples", "[('a',)]", TRUE, FALSE, "std"),
  V("list:3-tuples", "[('a', 1, 2)]", TRUE, FALSE, "std"),
  V("list:pairs", "[('a', 1), ('b', 2)]", TRUE, FALSE, "std"),
  V("list:strs", "['ab', 'c', '']", TRUE, FALSE, "std"),
  V("tuple:of-empty", "((),)", FALSE, FALSE, "std"),
  V("dict:empty", "{}", TRUE, FALSE, "std"),
  V("dict:a", "{'a': 1}", TRUE, FALSE, "std"),
  V("set:empty", "set()", TRUE, FALSE, "std"),
  V("set:one", "{1}", TRUE, FALSE, "std"),
  V("range:3", "range(3)", FALSE, FALSE, "std"),
  V("range:empty", "range(0)", FALSE, FALSE, "std"),
  V("range:down", "range(5, 0, -2)", FALSE, FALSE, "std"),
  V("slice:1:2", "slice(1, 2)", FALSE, FALSE, "std"),
  V("slice:none", "slice(None)", FALSE, FALSE, "std"),
  V("slice:rev", "slice(-1, None, -1)", FALSE, FALSE, "std"),
  V("type:int", "int", FALSE, FALSE, "std"),
  V("type:str", "str", FALSE, FALSE, "std"),
  V("type:type", "type", FALSE, FALSE, "std"),
  V("type:object", "object", FALSE, FALSE, "std"),
  V("type:ValueError", "ValueError", FALSE, FALSE, "std"),
  V("exc:noargs", "ValueError()", TRUE, FALSE, "std"),
  V("exc:onearg", "ValueError('x')", TRUE, FALSE, "std"),
  V("exc:twoargs", "KeyError('k', 2)", TRUE, FALSE, "std"),
  V("exc:stopiteration", "StopIteration()", TRUE, FALSE, "std"),
  V("builtin:len", "len", FALSE, FALSE, "std"),
  V("function", "fn", FALSE, FALSE, "std"),
  V("lambda", "(lambda: 0)", TRUE, FALSE, "std"),
  V("boundmethod", "[].append", TRUE, FALSE, "std"),
  V("generator", "gf()", TRUE, FALSE, "std"),
  V("iterator", "iter([1, 2])", TRUE, FALSE, "std"),
  V("class", "K", FALSE, FALSE, "std"),
  V("instance", "K()", TRUE, FALSE, "std"),
  V("object()", "object()", TRUE, FALSE, "std"),
  V("module", "math", FALSE, FALSE, "std"),
  V("Ellipsis", "Ellipsis", FALSE, FALSE, "std"),
  V("NotImplemented", "NotImplemented", FALSE, FALSE, "std"),
  V("list:selfref", "selflist()", TRUE, FALSE, "fatal"),
  V("dict:selfref", "selfdict()", TRUE, FALSE, "fatal")
>>

\* Parameterised texts: conversions and formatting switch algorithm with the length of the text (machine-word
\* fast path up to 18 digits, big-number path beyond), so numeric texts come in the lengths around that
\* boundary, in digit alphabets valid for few and for many bases, with prefix, sign and blanks.
TextLens == {1, 18, 19, 20, 40}
Rep(ch, n) == "'" \o ch \o "' * " \o ToString(n)
TextValues ==
  [i \in 1..5 |-> LET n == SetToSortSeq(TextLens, <)[i] IN V("str:ones" \o ToString(n), Rep("1", n), FALSE, FALSE, "std")] \o
  [i \in 1..5 |-> LET n == SetToSortSeq(TextLens, <)[i] IN V("str:zs" \o ToString(n), Rep("z", n), FALSE, FALSE, "std")] \o
  << V("str:hex20", "'0x' + 'f' * 20", FALSE, FALSE, "std"),
     V("str:signed-blanks20", "' -' + '7' * 20 + ' '", FALSE, FALSE, "std"),
     V("bytes:ones20", "b'1' * 20", FALSE, FALSE, "std") >>

\* Boundary sweep: every small integer as an argument (bases, widths, counts, precisions, indices).
\* Sweep values are not part of the full product; they occur in SweepTuples only.
SweepInts == -2..40
SweepValues == [i \in 1..Cardinality(SweepInts) |-> V("sweep:" \o ToString(i - 3), ToString(i - 3), FALSE, FALSE, "std")]

Values == CoreValues \o TextValues \o SweepValues
NV == Len(CoreValues) + Len(TextValues)      \* the values of the full product and of the sampled triples
IdxOf(id) == CHOOSE i \in 1..Len(Values) : Values[i].id = id
SweepIdx == { NV + i : i \in 1..Len(SweepValues) }
\* the other positions of a sweep tuple hold one "long / rich" representative
RichIdx == { IdxOf("str:ones20"), IdxOf("str:ab"), IdxOf("list:ints"), IdxOf("int:3") }
SweepTuples ==
  { <<k>> : k \in SweepIdx } \cup
  { <<r, k>> : r \in RichIdx, k \in SweepIdx } \cup { <<k, r>> : r \in RichIdx, k \in SweepIdx } \cup
  { <<k, r, r>> : r \in RichIdx, k \in SweepIdx } \cup { <<r, k, r>> : r \in RichIdx, k \in SweepIdx } \cup
  { <<r, r, k>> : r \in RichIdx, k \in SweepIdx }

\* callables that do I/O or affect the process are not applied (by name in builtins; by attribute name elsewhere)
Excluded == {"open", "input", "exit", "quit", "print", "exec", "eval", "compile", "__import__", "help", "breakpoint"}

O(name, arity, kind, src) == [name |-> name, arity |-> arity, kind |-> kind, src |-> src]
\* kind "expr": compiled in eval mode; "stmt": compiled in exec mode
Operators == <<
  O("neg", 1, "expr", "-a"), O("pos", 1, "expr", "+a"), O("invert", 1, "expr", "~a"), O("not", 1, "expr", "not a"),
  O("truth", 1, "stmt", "if a:\n    pass\n"), O("while-truth", 1, "stmt", "n = 0\nwhile a and n < 2:\n    n = n + 1\n"),
  O("str", 1, "expr", "str(a)"), O("repr", 1, "expr", "repr(a)"), O("ascii", 1, "expr", "ascii(a)"),
  O("len", 1, "expr", "len(a)"), O("abs", 1, "expr", "abs(a)"), O("iter", 1, "expr", "iter(a)"), O("next", 1, "expr", "next(a)"),
  O("for", 1, "stmt", "n = 0\nfor x in a:\n    n = n + 1\n    if n > 5:\n        break\n"),
  O("listcomp", 1, "expr", "[x for x in a][:5]"), O("star-call", 1, "expr", "fn(*a)"), O("starstar-call", 1, "expr", "fn(**a)"),
  O("call0", 1, "expr", "a()"), O("hash-as-key", 1, "expr", "{a: 1}"), O("hash-in-set", 1, "expr", "{a}"),
  O("unpack2", 1, "stmt", "x, y = a\n"), O("unpack-star", 1, "stmt", "x, *y = a\n"),
  O("raise", 1, "stmt", "raise a\n"), O("assert", 1, "stmt", "assert a\n"), O("with", 1, "stmt", "with a:\n    pass\n"),
  O("yield-from", 1, "stmt", "def g():\n    yield from a\nfor x in g():\n    break\n"),
  O("class-base", 1, "stmt", "class C(a):\n    pass\n"), O("class-meta", 1, "stmt", "class C(metaclass=a):\n    pass\n"),
  O("decorator", 1, "stmt", "@a\ndef h():\n    pass\n"), O("del-name", 1, "stmt", "z = a\ndel z\n"),
  O("getattr-real", 1, "expr", "a.real"), O("getattr-missing", 1, "expr", "a.no_such_attribute"),
  O("getattr-class", 1, "expr", "a.__class__"), O("getattr-dict", 1, "expr", "a.__dict__"), O("getattr-name", 1, "expr", "a.__name__"),
  O("getattr-doc", 1, "expr", "a.__doc__"), O("delattr", 1, "stmt", "del a.x\n"), O("format", 1, "expr", "'{}'.format(a)"),
  O("percent-s", 1, "expr", "'%s' % a"), O("percent-r", 1, "expr", "'%r' % (a,)"), O("percent-d", 1, "expr", "'%d' % a"),
  O("except-class", 1, "stmt", "try:\n    raise KeyError('k')\nexcept a:\n    pass\n"),
  O("slice-all", 1, "expr", "a[:]"), O("slice-rev", 1, "expr", "a[::-1]"), O("index0", 1, "expr", "a[0]"), O("index-neg", 1, "expr", "a[-1]"),

  O("add", 2, "expr", "a + b"), O("sub", 2, "expr", "a - b"), O("mul", 2, "expr", "a * b"), O("truediv", 2, "expr", "a / b"),
  O("floordiv", 2, "expr", "a // b"), O("mod", 2, "expr", "a % b"), O("pow", 2, "expr", "a ** b"), O("lshift", 2, "expr", "a << b"),
  O("rshift", 2, "expr", "a >> b"), O("and", 2, "expr", "a & b"), O("or", 2, "expr", "a | b"), O("xor", 2, "expr", "a ^ b"),
  O("divmod", 2, "expr", "divmod(a, b)"),
  O("lt", 2, "expr", "a < b"), O("le", 2, "expr", "a <= b"), O("eq", 2, "expr", "a == b"), O("ne", 2, "expr", "a != b"),
  O("gt", 2, "expr", "a > b"), O("ge", 2, "expr", "a >= b"), O("is", 2, "expr", "a is b"), O("is-not", 2, "expr", "a is not b"),
  O("in", 2, "expr", "a in b"), O("not-in", 2, "expr", "a not in b"), O("bool-and", 2, "expr", "a and b"), O("bool-or", 2, "expr", "a or b"),
  O("iadd", 2, "stmt", "a += b\n"), O("isub", 2, "stmt", "a -= b\n"), O("imul", 2, "stmt", "a *= b\n"), O("itruediv", 2, "stmt", "a /= b\n"),
  O("ifloordiv", 2, "stmt", "a //= b\n"), O("imod", 2, "stmt", "a %= b\n"), O("ipow", 2, "stmt", "a **= b\n"), O("ilshift", 2, "stmt", "a <<= b\n"),
  O("irshift", 2, "stmt", "a >>= b\n"), O("iand", 2, "stmt", "a &= b\n"), O("ior", 2, "stmt", "a |= b\n"), O("ixor", 2, "stmt", "a ^= b\n"),
  O("getitem", 2, "expr", "a[b]"), O("delitem", 2, "stmt", "del a[b]\n"), O("slice-from", 2, "expr", "a[b:]"), O("slice-to", 2, "expr", "a[:b]"),
  O("slice-step", 2, "expr", "a[::b]"), O("call1", 2, "expr", "a(b)"), O("call-kw", 2, "expr", "a(x=b)"), O("call-star", 2, "expr", "a(*b)"),
  O("call-starstar", 2, "expr", "a(**b)"), O("getattr-dyn", 2, "expr", "getattr(a, b)"), O("hasattr", 2, "expr", "hasattr(a, b)"),
  O("setattr-x", 2, "stmt", "a.x = b\n"), O("isinstance", 2, "expr", "isinstance(a, b)"), O("issubclass", 2, "expr", "issubclass(a, b)"),
  O("raise-from", 2, "stmt", "raise a from b\n"), O("assert-msg", 2, "stmt", "assert a, b\n"), O("percent", 2, "expr", "'%s %s' % (a, b)"),
  O("format2", 2, "expr", "'{0} {1!r}'.format(a, b)"), O("format-spec", 2, "expr", "format(a, b)"),
  O("except-tuple", 2, "stmt", "try:\n    raise a\nexcept (b, ValueError):\n    pass\n"),
  O("dict-display", 2, "expr", "{a: b}"), O("chained-compare", 2, "expr", "a < b < a"), O("map", 2, "expr", "list(map(a, b))[:5]"),
  O("filter", 2, "expr", "list(filter(a, b))[:5]"), O("zip", 2, "expr", "list(zip(a, b))[:5]"), O("sorted-key", 2, "expr", "sorted(a, key=b)"),
  O("class-2bases", 2, "stmt", "class C(a, b):\n    pass\n"), O("with-as", 2, "stmt", "with a as b.x:\n    pass\n"),

  \* one keyword argument under each of the parameter names the builtins and methods use (a keyword alone, without the
  \* positional argument it normally accompanies, reaches the unguarded reads of a missing positional)
  O("kw:key", 2, "expr", "a(key=b)"), O("kw:reverse", 2, "expr", "a(reverse=b)"), O("kw:sep", 2, "expr", "a(sep=b)"),
  O("kw:end", 2, "expr", "a(end=b)"), O("kw:file", 2, "expr", "a(file=b)"), O("kw:flush", 2, "expr", "a(flush=b)"),
  O("kw:default", 2, "expr", "a(default=b)"), O("kw:start", 2, "expr", "a(start=b)"), O("kw:mode", 2, "expr", "a(mode=b)"),
  O("kw:base", 2, "expr", "a(base=b)"), O("kw:iterable", 2, "expr", "a(iterable=b)"), O("kw:object", 2, "expr", "a(object=b)"),
  O("kw:encoding", 2, "expr", "a(encoding=b)"), O("kw:errors", 2, "expr", "a(errors=b)"), O("kw:name", 2, "expr", "a(name=b)"),
  O("kw:step", 2, "expr", "a(step=b)"), O("kw:fillchar", 2, "expr", "a(fillchar=b)"),
  \* the builtins that are Excluded as callables (I/O, process) in the forms that cannot touch a file or the process
  O("open-mode-only", 1, "expr", "open(mode=a)"), O("open-buffering-only", 1, "expr", "open(buffering=a)"), O("open-kwargs", 1, "expr", "open(**a)"),
  O("print-sep", 2, "expr", "print(a, sep=b)"), O("print-end", 2, "expr", "print(a, end=b)"), O("print-file", 2, "expr", "print(a, file=b)"),
  O("print-sep-only", 1, "expr", "print(sep=a)"), O("print-star", 1, "expr", "print(*a)"), O("print-flush", 2, "expr", "print(a, flush=b)"),
  O("eval1", 1, "expr", "eval(a)"), O("eval2", 2, "expr", "eval(a, b)"), O("exec2", 2, "expr", "exec(a, b)"),
  O("compile2", 2, "expr", "compile(a, 'f', b)"), O("import1", 1, "expr", "__import__(a)"),

  O("pow3", 3, "expr", "pow(a, b, c)"), O("setitem", 3, "stmt", "a[b] = c\n"), O("slice", 3, "expr", "a[b:c]"), O("slice3", 3, "expr", "a[b:c:b]"),
  O("setslice", 3, "stmt", "a[b:c] = a\n"), O("delslice", 3, "stmt", "del a[b:c]\n"), O("setslice-val", 3, "stmt", "a[b:] = c\n"),
  O("call2", 3, "expr", "a(b, c)"), O("call-star-kw", 3, "expr", "a(*b, **c)"), O("setattr-dyn", 3, "expr", "setattr(a, b, c)"),
  O("ifexp", 3, "expr", "a if b else c"), O("type3", 3, "expr", "type(a, b, c)"), O("between", 3, "expr", "a <= b <= c"),
  O("slice-obj", 3, "expr", "slice(a, b, c)"), O("range3", 3, "expr", "list(range(a, b, c))[:5]"), O("str-method-dyn", 3, "expr", "getattr(a, 'startswith', len)(b, c)")
>>

\* ---- argument tuples (as indices into Values) ----
TupleSet(n) == [1..n -> 1..NV]
HasTier(t, tier) == \E i \in 1..Len(t) : Values[t[i]].tier = tier
HasHuge(t) == \E i \in 1..Len(t) : Values[t[i]].huge
\* tier of a case over the argument tuple t (for a method call t includes the receiver):
\*   "fatal": contains a value that is only used in the subprocess fatal tier
\*   "resource": two or more operands, one of them huge - Python itself demands unbounded work there
\*               (repetition, exponent, shift, allocation); only run with resource limits, outcome not judged
\*   "std": everything else
TierOf(t) == IF HasTier(t, "fatal") THEN "fatal" ELSE IF Len(t) >= 2 /\ HasHuge(t) THEN "resource" ELSE "std"

\* ---- programs: an exit statement under up to two nested compound statements, at module level or in a function ----
Ind(b) == [i \in 1..Len(b) |-> "    " \o b[i]]
Wrappers == {"none", "try-finally:body", "try-finally:final", "try-except:body", "try-except:handler", "try-else", "with", "for", "for-else", "while", "if"}
\* k: nesting level ("1" outer, "2" inner), so that nested loops have their own counters
Wrap(w, b, k) ==
  CASE w = "none" -> b
    [] w = "try-finally:body"   -> <<"try:">> \o Ind(b) \o <<"finally:", "    pass">>
    [] w = "try-finally:final"  -> <<"try:", "    pass", "finally:">> \o Ind(b)
    [] w = "try-except:body"    -> <<"try:">> \o Ind(b) \o <<"except ValueError:", "    pass">>
    [] w = "try-except:handler" -> <<"try:", "    raise ValueError()", "except ValueError:">> \o Ind(b)
    [] w = "try-else"           -> <<"try:", "    pass", "except ValueError:", "    pass", "else:">> \o Ind(b)
    [] w = "with"               -> <<"with cm:">> \o Ind(b)
    [] w = "for"                -> <<"for i in [1, 2]:">> \o Ind(b)
    [] w = "for-else"           -> <<"for i in []:", "    pass", "else:">> \o Ind(b)
    [] w = "while"              -> <<"n" \o k \o " = 0", "while n" \o k \o " < 2:", "    n" \o k \o " = n" \o k \o " + 1">> \o Ind(b)
    [] w = "if"                 -> <<"if n0 == 0:">> \o Ind(b)
Exits == {"break", "continue", "return", "return 1", "yield 1", "x = yield", "raise KeyError('k')", "pass", "del nosuch", "yield from [1]"}
Tops == {"module", "function"}
Top(t, b) == IF t = "module" THEN <<"n0 = 0">> \o b
             ELSE <<"n0 = 0", "def f():">> \o Ind(b) \o <<"r = f()", "try:", "    r = list(r)", "except TypeError:", "    pass">>
Programs == { [top |-> t, outer |-> w1, inner |-> w2, exit |-> e, lines |-> Top(t, Wrap(w1, Wrap(w2, <<e>>, "2"), "1"))] :
                t \in Tops, w1 \in Wrappers, w2 \in Wrappers, e \in Exits }
\* ---- re-entrant programs: a callback that runs INSIDE a container operation changes the container ----
\* A host operation on the list L (dict D, set S) calls back into Python - a key function, __eq__ / __lt__ of a member,
\* a generator feeding the operation, the body of a loop - and on its T-th call the callback shrinks, grows or empties
\* the container.  Python answers with a value or an exception (ValueError "list modified during sort", RuntimeError
\* "changed size during iteration", IndexError ...); an implementation that measured the container once and then
\* indexes it unchecked panics.  (Found missing by an independently seeded change: list.sort swapping unchecked.)
ListHosts == << "L.sort(key=cb)", "L.sort(key=cb, reverse=True)", "r = sorted(L, key=cb)", "r = min(L, key=cb)", "r = max(L, key=cb)",
                "r = list(map(cb, L))", "r = list(filter(cb, L))", "r = [cb(x) for x in L]", "for x in L: cb(x)",
                "r = L.index(E())", "r = L.count(E())", "L.remove(E())", "r = E() in L", "r = L == [E(), E(), E(), E(), E()]",
                "r = L < [E(), E(), E(), E(), E()]", "L.extend(gen())", "L[:] = gen()", "L += gen()", "L[1:3] = gen()", "L[::2] = gen()",
                "r = list(zip(L, gen()))", "r = list(enumerate(gen()))", "r = sum(gen())", "r = tuple(gen())", "r = L + list(gen())",
                "r = L * cbi()", "r = L[cbi():]", "L.insert(cbi(), 7)", "r = L.pop(cbi())", "L[cbi()] = 7", "del L[cbi()]",
                "r = ''.join(str(x) for x in gen())", "r = reversed(L); cb(0); r = list(r)", "it = iter(L); cb(0); r = list(it)" >>
ListMutations == << "del L[1:]", "L.clear()", "L.append(0)", "L.extend([0] * 50)", "del L[0]", "L.pop()", "L.reverse()", "L[:] = []", "L.insert(0, 9)" >>
DictHosts == << "for k in D: mut()", "r = [mut() for k in D]", "r = list(map(cb, D))", "D.update(pairs())", "r = sorted(D, key=cb)",
                "r = min(D, key=cb)", "r = dict(pairs())", "for k in D.keys(): mut()", "for k in D.items(): mut()", "for k in D.values(): mut()",
                "r = D == {'a': E(), 'b': E(), 'c': E()}" >>
DictMutations == << "D.clear()", "D['zz'] = 1", "del D['a']", "D.pop('b', None)", "D.update({'q': 1})" >>
SetHosts == << "for e in S: mut()", "r = [mut() for e in S]", "r = sorted(S, key=cb)", "S.update(gen())", "r = S | set(gen())", "r = min(S, key=cb)" >>
SetMutations == << "S.clear()", "S.add(99)", "S.discard(1)", "S.pop()" >>
KeyReturns == << "x", "n[0]", "-n[0]" >>
ReScaffold(size, t, mutation, keyret) == <<
  "L = list(range(" \o ToString(size) \o ", 0, -1))",
  "D = {'a': 1, 'b': 2, 'c': 3}",
  "S = {1, 2, 3}",
  "n = [0]",
  "def mut():",
  "    n[0] += 1",
  "    if n[0] == " \o ToString(t) \o ":",
  "        " \o mutation,
  "    return 0",
  "def cb(x):",
  "    mut()",
  "    return " \o keyret,
  "def cbi():",
  "    mut()",
  "    return 1",
  "class E:",
  "    def __eq__(self, o):",
  "        mut()",
  "        return False",
  "    def __lt__(self, o):",
  "        mut()",
  "        return True",
  "def gen():",
  "    for i in range(3):",
  "        mut()",
  "        yield i",
  "def pairs():",
  "    for k in ['x', 'y', 'z']:",
  "        mut()",
  "        yield (k, 1)" >>
ReProg(kind, host, size, t, mutation, keyret) ==
  [name |-> "reentrant " \o kind, host |-> host, mutation |-> mutation, lines |-> ReScaffold(size, t, mutation, keyret) \o <<host>>]
Rng(q) == { q[i] : i \in 1..Len(q) }
ReentrantPrograms ==
  { ReProg("list", h, sz, t, m, kr) : h \in Rng(ListHosts), sz \in {2, 3, 5}, t \in 1..5, m \in Rng(ListMutations), kr \in Rng(KeyReturns) } \cup
  { ReProg("dict", h, 3, t, m, "x") : h \in Rng(DictHosts), t \in 1..3, m \in Rng(DictMutations) } \cup
  { ReProg("set", h, 3, t, m, "x") : h \in Rng(SetHosts), t \in 1..3, m \in Rng(SetMutations) }

\* ---- unbound variables: a name is read, in every kind of scope that can read it, while it has no value ----
\* The variable x of a function (or of the module) is read before it is assigned, after it was deleted, or is never
\* assigned at all - by the function body itself, by a nested function, by a lambda, by a comprehension, by a CLASS
\* BODY nested in the function (which has its own instruction for such a read), by a method of such a class; the value
\* is then used (an operator, repr, a call) or stored and used later.  Python answers NameError (UnboundLocalError);
\* an implementation that hands out "no value" as a value fails at the first use.
\* (Found missing by an independently seeded change: LOAD_CLASSDEREF pushing nil for an unbound cell.)
UbReaders == << <<"body",      <<"    r = USE">> >>,
                <<"nested",    <<"    def g():", "        return USE", "    r = g()">> >>,
                <<"lambda",    <<"    r = (lambda: USE)()">> >>,
                <<"comp",      <<"    r = [USE for i in (1, 2)]">> >>,
                <<"classbody", <<"    class C:", "        y = USE", "    r = repr(C.y)">> >>,
                <<"classstore", <<"    class C:", "        y = x", "    r = C.y + 1">> >>,
                <<"method",    <<"    class C:", "        def m(self):", "            return USE", "    r = C().m()">> >> >>
UbStates  == << <<"later",   <<>>, <<"    x = 1">> >>,                      \* assigned only after the read
                <<"deleted", <<"    x = 1", "    del x">>, <<>> >>,         \* assigned, deleted, read
                <<"cond",    <<"    if n0:", "        x = 1">>, <<>> >>,    \* assigned on a path that is not taken
                <<"bound",   <<"    x = 1">>, <<>> >> >>                    \* (control: it has a value)
UbUses    == << "x + 1", "repr(x)", "x()", "[x, x]", "x.real" >>
RECURSIVE ReplaceUse(_, _)
Subst(line, use) ==   \* the reader lines contain the word USE at most once, at the end or before a fixed suffix
  CASE line = "    r = USE" -> "    r = " \o use
    [] line = "        return USE" -> "        return " \o use
    [] line = "    r = (lambda: USE)()" -> "    r = (lambda: " \o use \o ")()"
    [] line = "    r = [USE for i in (1, 2)]" -> "    r = [" \o use \o " for i in (1, 2)]"
    [] line = "        y = USE" -> "        y = " \o use
    [] line = "            return USE" -> "            return " \o use
    [] OTHER -> line
ReplaceUse(ls, use) == IF ls = <<>> THEN <<>> ELSE <<Subst(Head(ls), use)>> \o ReplaceUse(Tail(ls), use)
UnboundPrograms ==
  { [name |-> "unbound " \o UbReaders[r][1] \o "/" \o UbStates[st][1], use |-> UbUses[u],
     lines |-> ((<<"n0 = 0", "def f():">> \o UbStates[st][2]) \o ReplaceUse(UbReaders[r][2], UbUses[u])) \o UbStates[st][3] \o <<"    return r", "f()">>] :
      r \in 1..Len(UbReaders), st \in 1..Len(UbStates), u \in 1..Len(UbUses) }

\* programs whose only legal outcomes need unbounded stack in this implementation: subprocess tier
FatalPrograms == { [name |-> "unbounded recursion", lines |-> <<"def f():", "    return f()", "f()">>],
                   [name |-> "unbounded recursion through __repr__-like nesting", lines |-> <<"def g(n):", "    return [g(n + 1)]", "g(0)">>] }
=============================================================================
