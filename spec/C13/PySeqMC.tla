------------------------------ MODULE PySeqMC ------------------------------
(* Design check of spec/lib/PySeq.tla: the algorithmic formulations (the arithmetic the code is   *)
(* written in) equal the declarative ones (what Python's reference says) on the whole bounded     *)
(* domain, plus sanity laws of the declarative model itself.  One initial state per length /      *)
(* range; the per-case work happens in Next steps so that the workers share it.                   *)
EXTENDS PySeq, TLC
CONSTANTS MaxLen,      \* sequence lengths 0..MaxLen
          IdxMax,      \* integer slice components / indices -IdxMax..IdxMax, BigNeg, BigPos (and None)
          MaxRhs,      \* lengths 0..MaxRhs of the right-hand side of slice assignments
          Wide,        \* BOOLEAN: the larger family of ranges range(s, s + n*k + d, k)
          CmpLen       \* sequences over {1,2} up to this length for the ordering laws
VARIABLE c

\* (TLC configuration files cannot spell negative numbers, hence the sets are built here)
Lens == 0..MaxLen
Idx == (-IdxMax..IdxMax) \cup {BigNeg, BigPos}
RhsLens == 0..MaxRhs
RStarts == IF Wide THEN {-3, 10} ELSE {1}
RSteps == IF Wide THEN {-3, -1, 1, 2} ELSE {-2, 1, 3}
RDeltas == {0, 1}

Comp == Idx \cup {NoneV}
Iota(n) == [i \in 1..n |-> i - 1]
Rhs(m) == [i \in 1..m |-> 100 + i]
Words == UNION { [1..l -> {1, 2}] : l \in 0..CmpLen }

Init == \/ \E n \in Lens : c = <<"len", n>>
        \/ \E n \in Lens, s \in RStarts, k \in RSteps, d \in RDeltas : c = <<"range", s, s + n * k + d, k>>
        \/ \E w \in Words : c = <<"word", w>>
Next == \/ /\ c[1] = "len"
           /\ \E a \in Comp, b \in Comp, st \in Comp \ {0} : c' = <<"slice", c[2], a, b, st>>
        \/ /\ c[1] = "range"
           /\ \E a \in Comp, b \in Comp, st \in Comp \ {0} : c' = <<"rslice", c[2], c[3], c[4], a, b, st>>
        \/ /\ c[1] = "word"
           /\ \E w \in Words : c' = <<"pair", c[2], w>>
Spec == Init /\ [][Next]_c

IsSlice == c[1] = "slice"
N == c[2]
A == c[3]
B == c[4]
ST == c[5]

PosAgree == IsSlice => PositionsA(N, A, B, ST) = PositionsD(N, A, B, ST)
PosInRange == IsSlice => LET P == PositionsD(N, A, B, ST)
                         IN /\ \A j \in 1..Len(P) : P[j] \in 0..(N - 1)
                            /\ \A i, j \in 1..Len(P) : i # j => P[i] # P[j]
                            /\ \A j \in 1..(Len(P) - 1) : P[j + 1] - P[j] = StepOf(ST)
\* nothing further along the progression is inside the sequence and before the bound: the slice is maximal
PosMaximal == IsSlice => LET P == PositionsD(N, A, B, ST) k == StepOf(ST)
                         IN Len(P) > 0 => LET nxt == P[Len(P)] + k
                                          IN IF k > 0 THEN nxt >= BoundUp(N, B) ELSE nxt <= BoundDn(N, B)
GetAgree == IsSlice => GetSliceA(Iota(N), A, B, ST) = GetSliceD(Iota(N), A, B, ST)
SimpleIsSubSeq == (IsSlice /\ IsSimple(ST)) =>
                    GetSliceD(Iota(N), A, B, ST) = SubSeq(Iota(N), SpliceLo(N, A) + 1, SpliceHi(N, A, B))
DelAgree == IsSlice => /\ DelSliceA(Iota(N), A, B, ST) = DelSliceD(Iota(N), A, B, ST)
                       /\ Len(DelSliceD(Iota(N), A, B, ST)) = N - Len(PositionsD(N, A, B, ST))
SetAgree == IsSlice => \A m \in RhsLens : SetSliceOk(Iota(N), A, B, ST, Rhs(m)) =>
                          /\ SetSliceA(Iota(N), A, B, ST, Rhs(m)) = SetSliceD(Iota(N), A, B, ST, Rhs(m))
                          \* what was assigned is what the same slice now reads, when the lengths match
                          /\ (Len(Rhs(m)) = Len(PositionsD(N, A, B, ST))) =>
                                GetSliceD(SetSliceD(Iota(N), A, B, ST, Rhs(m)), A, B, ST) = Rhs(m)
                          \* deleting equals assigning the empty sequence for plain slices
                          /\ (IsSimple(ST) /\ m = 0) => SetSliceD(Iota(N), A, B, ST, Rhs(m)) = DelSliceD(Iota(N), A, B, ST)
SelfAssign == IsSlice => (SetSliceOk(Iota(N), A, B, ST, Iota(N)) =>
                            SetSliceA(Iota(N), A, B, ST, Iota(N)) = SetSliceD(Iota(N), A, B, ST, Iota(N)))

IsRSlice == c[1] = "rslice"
RangeAgree == IsRSlice =>
   LET g == RangeSliceA(c[2], c[3], c[4], c[5], c[6], c[7])
   IN /\ RangeCountA(c[2], c[3], c[4]) = RangeCountD(c[2], c[3], c[4])
      /\ RangeCountA(g.start, g.stop, g.step) = RangeCountD(g.start, g.stop, g.step)
      /\ RangeElemsD(g.start, g.stop, g.step) = GetSliceD(RangeElemsD(c[2], c[3], c[4]), c[5], c[6], c[7])

\* ordering laws: exactly one of <, ==, > ; <= is < or == ; agrees with the first-difference loop
FirstDiff(s, t) == CHOOSE k \in 1..(SqMin(Len(s), Len(t)) + 1) :
                      /\ \A i \in 1..(k - 1) : s[i] = t[i]
                      /\ (k > SqMin(Len(s), Len(t)) \/ s[k] # t[k])
LexLtA(s, t) == LET k == FirstDiff(s, t) IN IF k > SqMin(Len(s), Len(t)) THEN Len(s) < Len(t) ELSE s[k] < t[k]
OrderLaws == c[1] = "pair" =>
   LET s == c[2] t == c[3]
       one(p, q, r) == (p /\ ~q /\ ~r) \/ (~p /\ q /\ ~r) \/ (~p /\ ~q /\ r)
   IN /\ one(LexLt(s, t), SeqEq(s, t), LexLt(t, s))
      /\ LexLt(s, t) = LexLtA(s, t)
      /\ LexLe(s, t) = ~LexLt(t, s)
      /\ SeqEq(s, t) = (s = t)
      /\ Len(ConcatD(s, t)) = Len(s) + Len(t)
      /\ \A k \in -1..3 : /\ Len(RepeatD(s, k)) = Len(s) * SqMax(k, 0)
                          /\ \A i \in 1..Len(RepeatD(s, k)) : ElemIn(s, RepeatD(s, k)[i])
      /\ SubseqIn(ConcatD(s, t), t) /\ SubseqIn(ConcatD(s, t), s)
      /\ (SubseqIn(s, t) => Len(t) <= Len(s))
=============================================================================
