SPECIFICATION Spec
CONSTANTS
  Mods = {"ma", "mb"}
  Families = {"raise"}
  AssumeAll = TRUE
INVARIANTS TypeOK OnlyAvailable RunOnce NoReentry OneObject Provenance StarRespectsUnderscore Terminates Usable Emit
CHECK_DEADLOCK FALSE
