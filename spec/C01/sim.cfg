CONSTANTS
  Tier = "thorough"
  Seed = 1
  Fams = {}
  Depth = 3
INIT SimInit
NEXT SimNext
INVARIANT MetaOK
CHECK_DEADLOCK FALSE
