------------------------------- MODULE PyClass -------------------------------
(* C16: class hierarchies, the C3 method resolution order, attribute lookup and binding.          *)
(*                                                                                                *)
(* Classes are numbered 1..N in definition order; Bases[c] is the ordered sequence of the direct  *)
(* bases of c (distinct, all < c, at most MaxBases).  Class 0 is `object`: the implicit base of   *)
(* a class without bases and the last element of every MRO.                                      *)
(*                                                                                                *)
(* C3 is stated twice: IsC3 is the definition of the linearisation as a predicate on a candidate  *)
(* order (every element is the head of the first input list whose head is in no tail), together   *)
(* with the properties it is meant to guarantee (Consistent, WellFormed); MergeA is the algorithm *)
(* as written in py/type.go:pmerge (index vector `remain`, tail_contains on the original lists).   *)
(* PyClassMC checks that MergeA succeeds exactly when a C3 order exists and then returns it.      *)
EXTENDS Integers, Sequences, FiniteSets, TLC, Json, SequencesExt, Functions
Obj == 0
ElemsOf(q) == { q[i] : i \in 1..Len(q) }
PosIn(q, x) == CHOOSE i \in 1..Len(q) : q[i] = x
\* a is a subsequence of b (neither has duplicates)
IsSubseq(a, b) == /\ ElemsOf(a) \subseteq ElemsOf(b)
                  /\ \A i, j \in 1..Len(a) : i < j => PosIn(b, a[i]) < PosIn(b, a[j])

\* ---------------------------------------------------------------------------------------------
\* the merge input of a class statement: the linearisations of the bases, then the list of bases
BasesOf(bs) == IF bs = <<>> THEN <<Obj>> ELSE bs
LinOf(mros, b) == IF b = Obj THEN <<Obj>> ELSE mros[b]
MergeInput(bs, mros) == LET b == BasesOf(bs) IN [i \in 1..Len(b) |-> LinOf(mros, b[i])] \o <<b>>
AllOf(ls) == UNION { ElemsOf(ls[k]) : k \in 1..Len(ls) }

\* ---------------- declarative: what a C3 linearisation is ----------------
\* L (a permutation of all elements of ls) is the C3 merge of ls iff each L[i] is the head of the
\* first list -- after removing L[1..i-1] from every list -- whose head occurs in no tail.
Without(q, S) == SelectSeq(q, LAMBDA x : x \notin S)
TailOf(q) == IF q = <<>> THEN <<>> ELSE Tail(q)
IsC3(L, ls) ==
  /\ Len(L) = Cardinality(AllOf(ls)) /\ ElemsOf(L) = AllOf(ls)
  /\ \A i \in 1..Len(L) :
       LET done == { L[j] : j \in 1..(i - 1) }
           rem == [k \in 1..Len(ls) |-> Without(ls[k], done)]
           good(k) == rem[k] # <<>> /\ \A j \in 1..Len(ls) : rem[k][1] \notin ElemsOf(TailOf(rem[j]))
       IN \E k \in 1..Len(ls) : good(k) /\ L[i] = rem[k][1] /\ \A k2 \in 1..(k - 1) : ~good(k2)
\* what the linearisation is for: some total order extends every input list ...
Consistent(ls) == \E p \in SetToSeqs(AllOf(ls)) : \A k \in 1..Len(ls) : IsSubseq(ls[k], p)
\* ... and the MRO of class c extends the local precedence order and every base's MRO
RECURSIVE Ancestors(_, _)
Ancestors(Bases, c) == IF c = Obj THEN {Obj} ELSE {c, Obj} \cup UNION { Ancestors(Bases, Bases[c][i]) : i \in 1..Len(Bases[c]) }
NoDup(q) == \A i, j \in 1..Len(q) : i # j => q[i] # q[j]
WellFormed(Bases, c, L, mros) ==
  /\ L[1] = c /\ NoDup(L) /\ ElemsOf(L) = Ancestors(Bases, c) /\ L[Len(L)] = Obj
  /\ IsSubseq(Bases[c], L)                                          \* local precedence order
  /\ \A i \in 1..Len(Bases[c]) : IsSubseq(mros[Bases[c][i]], L)     \* monotonicity

\* ---------------- algorithmic: py/type.go pmerge ----------------
\* remain[k] = index of the next element of ls[k] not yet in acc (1-based)
TailContains(l, whence, x) == \E j \in (whence + 1)..Len(l) : l[j] = x
RECURSIVE PMerge(_, _, _)
PMerge(ls, remain, acc) ==
  LET n == Len(ls)
      live == { i \in 1..n : remain[i] <= Len(ls[i]) }
      ok(i) == \A j \in 1..n : ~TailContains(ls[j], remain[j], ls[i][remain[i]])
      cands == { i \in live : ok(i) }
  IN IF live = {} THEN [ok |-> TRUE, mro |-> acc]
     ELSE IF cands = {} THEN [ok |-> FALSE, mro |-> <<>>]                      \* "mro is wonky"
     ELSE LET i == CHOOSE i \in cands : \A i2 \in cands : i <= i2              \* first list, in order
              x == ls[i][remain[i]]
          IN PMerge(ls, [j \in 1..n |-> IF remain[j] <= Len(ls[j]) /\ ls[j][remain[j]] = x THEN remain[j] + 1 ELSE remain[j]],
                    Append(acc, x))
MergeA(ls) == PMerge(ls, [j \in 1..Len(ls) |-> 1], <<>>)
\* the class statement: MRO = <<c>> \o merge, or TypeError
MroOfNew(c, bs, mros) == LET m == MergeA(MergeInput(bs, mros)) IN
                         IF m.ok THEN [ok |-> TRUE, mro |-> <<c>> \o m.mro] ELSE [ok |-> FALSE, mro |-> <<>>]

\* ---------------------------------------------------------------------------------------------
\* attribute lookup and binding
\* cdict[c] : attribute name -> [kind, tag] for the names class c defines itself; idict likewise
\* for an instance.  kind: "plain" (a value), "func", "classmethod", "staticmethod".
ClassName(c) == "K" \o ToString(c)
RECURSIVE FirstDef(_, _, _)
FirstDef(mro, cdict, name) == IF mro = <<>> THEN -1
                              ELSE IF Head(mro) # Obj /\ name \in DOMAIN cdict[Head(mro)] THEN Head(mro)
                              ELSE FirstDef(Tail(mro), cdict, name)
\* observations: a value, the result of calling what was found (definition + what it was bound
\* to, i.e. the implicit arguments it received), or an exception
Val(tag) == [t |-> "val", v |-> tag, recv |-> <<>>]
Called(tag, recv) == [t |-> "call", v |-> tag, recv |-> recv]
Exc(cls) == [t |-> "exc", v |-> cls, recv |-> <<>>]
Done == [t |-> "ok", v |-> "", recv |-> <<>>]
\* binding of an attribute found in a CLASS dictionary: through an instance a function binds the
\* instance and a classmethod the instance's class; through a class a function is the plain
\* function (binds nothing) and a classmethod binds the class the read was applied to
Bind(d, instName, clsName) ==
  CASE d.kind = "plain" -> Val(d.tag)
    [] d.kind = "func" -> Called(d.tag, IF instName = "" THEN <<>> ELSE <<instName>>)
    [] d.kind = "classmethod" -> Called(d.tag, <<clsName>>)
    [] d.kind = "staticmethod" -> Called(d.tag, <<>>)
\* an attribute stored in the INSTANCE dictionary is returned as it is (nothing binds)
Raw(d) == IF d.kind = "plain" THEN Val(d.tag) ELSE Called(d.tag, <<>>)
=============================================================================
