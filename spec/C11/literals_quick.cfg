SPECIFICATION Spec
CONSTANT MaxPieces = 2
INVARIANTS TypeOK Emit
CHECK_DEADLOCK FALSE
