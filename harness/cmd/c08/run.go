//go:build verif

package main

import (
	"encoding/json"
	"fmt"
	"math/rand"
	"os"
	"path/filepath"
	"regexp"
	"sort"
	"strings"
	"sync"
	"sync/atomic"
	"time"

	"gpverif/pyrun"

	"github.com/go-python/gpython/py"
	"github.com/go-python/gpython/repl"
	"github.com/go-python/gpython/stdlib"
	"github.com/go-python/gpython/vm"
)

// builtin types the SetTypeAttr/GetTypeAttr operations are rendered on (chosen by case number)
var typeNames = []string{"int", "str", "list", "dict", "float", "tuple", "ValueError", "bytes", "set", "object"}

// types exported by Go-implemented modules ("module.Name"), enumerated from the live interpreter by the driver
// and handed to the worker processes; the type an embedder would register is gpvembed.EType
var stdTypes []string

var embedType = py.NewType("EType", "a type registered through the embedding API by the verification harness")

// depths of the HoldDeep / Recurse operations (from the specification's Meta record)
var holdDepth, recDepth = 900, 300

func init() {
	py.RegisterModule(&py.ModuleImpl{Info: py.ModuleInfo{Name: "gpvembed", Doc: "module registered by the verification harness"},
		Globals: py.StringDict{"EType": embedType},
		Methods: []*py.Method{
			// hold(): called by HoldDeep at the bottom of its recursion; under the replay scheduler the context's
			// goroutine parks here (all its frames stay active) until its second step is released
			py.MustNewMethod("hold", func(self py.Object) (py.Object, error) {
				if m, ok := self.(*py.Module); ok {
					if x, ok := gated.Load(m.Context); ok {
						x.(*cx).yield()
					}
				}
				return py.None, nil
			}, 0, "hold()"),
		}})
}

// liveStdTypes: every type defined in Go that a registered module (named like the directories of stdlib/)
// exports in its globals and that builtins does not already have.
func liveStdTypes(repo string) []string {
	ctx := py.NewContext(py.ContextOpts{})
	defer ctx.Close()
	inBuiltins := map[*py.Type]bool{}
	for _, v := range ctx.Store().Builtins.Globals {
		if t, ok := v.(*py.Type); ok {
			inBuiltins[t] = true
		}
	}
	dirs, _ := os.ReadDir(filepath.Join(repo, "stdlib"))
	var out []string
	for _, d := range dirs {
		if !d.IsDir() {
			continue
		}
		impl := py.GetModuleImpl(d.Name())
		if impl == nil {
			continue
		}
		for name, v := range impl.Globals {
			if t, ok := v.(*py.Type); ok && t.Name != "" && t.Flags&py.TPFLAGS_HEAPTYPE == 0 && !inBuiltins[t] {
				out = append(out, d.Name()+"."+name)
			}
		}
	}
	sort.Strings(out)
	return out
}

var umodDir string
var pmodDirs map[string]string // context name -> the directory its search path has for pmod (none for the others)

// initRuntime prepares what every real run needs: the source module umod and a harmless default
// sink for REPL echoes (the stock vm.PrintExpr writes to the process's stdout).
func initRuntime(scratch string) {
	umodDir = filepath.Join(scratch, "umoddir")
	os.MkdirAll(umodDir, 0o755)
	os.WriteFile(filepath.Join(umodDir, "umod.py"), []byte("print('body')\n"), 0o644)
	// pmod: one module name, two files; which one a context finds depends on its own sys.path (spec: PathOf)
	for _, d := range []string{"A", "B"} {
		os.MkdirAll(filepath.Join(scratch, "pmod"+d), 0o755)
		os.WriteFile(filepath.Join(scratch, "pmod"+d, "pmod.py"), []byte("print('body"+d+"')\n"), 0o644)
	}
	pmodDirs = map[string]string{"c1": filepath.Join(scratch, "pmodA"), "c2": filepath.Join(scratch, "pmodB")}
	vm.PrintExpr = func(string) {}
	stdlib.VerifYield = func(c py.Context, point string) {
		if point != "pb" {
			return
		}
		if x, ok := gated.Load(c); ok {
			x.(*cx).yield()
		}
	}
}

var gated sync.Map // py.Context -> *cx (only contexts under the replay scheduler)

// render: one template per operation constructor. n makes the names private to one case so that
// state left behind in shared places by earlier cases cannot be mistaken for this case's.
func render(o OpT, val string, n int) string {
	// the concrete type of a SetTypeAttr/GetTypeAttr operation: its kind comes from the specification,
	// the type of that kind rotates with the case number
	t, imp := typeNames[n%len(typeNames)], ""
	switch o.A {
	case "stdlib":
		t = stdTypes[n%len(stdTypes)]
		imp = "import " + strings.SplitN(t, ".", 2)[0] + "\n"
	case "embedder":
		t, imp = "gpvembed.EType", "import gpvembed\n"
	}
	switch o.Op {
	case "SetGlobal":
		return fmt.Sprintf("g%d = '%s'\n", n, val)
	case "GetGlobal":
		return fmt.Sprintf("print(g%d)\n", n)
	case "Import":
		return "import " + o.A + "\n"
	case "SetModAttr":
		return fmt.Sprintf("import %s\n%s.mattr%d = '%s'\n", o.A, o.A, n, val)
	case "GetModAttr":
		return fmt.Sprintf("import %s\nprint(%s.mattr%d)\n", o.A, o.A, n)
	// the entries this harness writes to sys.path / sys.argv carry the prefix mk: ; whatever else the
	// configuration put there (program name, search paths, the process's own arguments) is left alone
	case "AppendSys": // in-place mutation
		return fmt.Sprintf("import sys\nsys.%s.append('mk:%s')\n", o.A, val)
	case "SetSys": // rebinding to a new list
		return fmt.Sprintf("import sys\nsys.%s = [x for x in sys.%s if x[:3] != 'mk:'] + ['mk:%s']\n", o.A, o.A, val)
	case "ReadSys":
		return fmt.Sprintf("import sys\nprint('|'.join([x for x in sys.%s if x[:3] == 'mk:']))\n", o.A)
	case "RebindBuiltin":
		return fmt.Sprintf("import builtins\nbuiltins.len = lambda x: '%s'\n", val)
	case "CallBuiltin":
		return "print(len([7]))\n"
	case "RebindStdout": // own_writer is a second capturing writer the harness put into the context's __main__
		return "import sys\nsys.stdout = own_writer\n"
	case "Print":
		return fmt.Sprintf("print('%s')\n", val)
	case "SetTypeAttr":
		return fmt.Sprintf("%s%s.tattr%d = '%s'\n", imp, t, n, val)
	case "GetTypeAttr":
		return fmt.Sprintf("%sprint(%s.tattr%d)\n", imp, t, n)
	case "MutateImplObject":
		return fmt.Sprintf("import os\nos.environ['GPV%d'] = '%s'\n", n, val)
	case "ReadImplObject":
		return fmt.Sprintf("import os\nprint(os.environ['GPV%d'])\n", n)
	case "ReplLine":
		return fmt.Sprintf("'%s'", val)
	case "HoldDeep": // gpvembed.hold() parks the context's goroutine HoldDepth frames deep until the scheduler lets it go
		return fmt.Sprintf("import gpvembed\ndef _down%d(k):\n    if k == 0:\n        gpvembed.hold()\n        return 0\n    return _down%d(k - 1) + 1\nprint(_down%d(%d))\n", n, n, n, holdDepth)
	case "Recurse":
		return fmt.Sprintf("def _rec%d(k):\n    if k == 0:\n        return 0\n    return _rec%d(k - 1) + 1\nprint(_rec%d(%d))\n", n, n, n, recDepth)
	}
	panic("no template for operation " + o.Op)
}

// ---- one real context -------------------------------------------------------------------

type realEntry struct {
	Entry
	bases []string // for an exception: its class and base classes
}

type cx struct {
	name   string
	pc     *pyrun.Ctx
	rp     *repl.REPL
	own    *pyrun.Writer // the writer RebindStdout installs as sys.stdout
	script []int
	tag    string // "b<n>." prefix of every value of this case
	n      int
	config string

	mu  sync.Mutex
	obs []realEntry

	adv      chan struct{}
	ack      chan struct{}
	wantPark int32
	free     bool
	ops      int
}

// terminal of the context's REPL
type termUI struct{ c *cx }

func (t termUI) SetPrompt(string) {}
func (t termUI) Print(s string) {
	t.c.mu.Lock()
	t.c.obs = append(t.c.obs, realEntry{Entry: Entry{K: "echo", I: 0, V: s}})
	t.c.mu.Unlock()
}

func newCx(name string, script []int, n int, free bool, config string, lazy bool) *cx {
	c := &cx{name: name, script: script, n: n, tag: fmt.Sprintf("b%d.", n), free: free, config: config,
		adv: make(chan struct{}), ack: make(chan struct{}, 1)}
	if !lazy {
		c.create()
	}
	return c
}

// create makes the real context in the configuration class of the case.
func (c *cx) create() {
	var opts py.ContextOpts
	switch c.config {
	case "zero":
		opts = py.ContextOpts{}
	case "default":
		opts = py.DefaultContextOpts()
	default:
		opts = py.ContextOpts{SysArgs: []string{"prog"}, SysPaths: []string{umodDir}}
		if d := pmodDirs[c.name]; d != "" {
			opts.SysPaths = append(opts.SysPaths, d)
		}
	}
	ctx := py.NewContext(opts)
	out := &pyrun.Writer{}
	sys := ctx.Store().MustGetModule("sys")
	sys.Globals["stdout"] = out
	sys.Globals["stderr"] = out
	if c.config != "explicit" {
		// the source module umod must be importable in every configuration
		if l, ok := sys.Globals["path"].(*py.List); ok {
			l.Append(py.String(umodDir))
			if d := pmodDirs[c.name]; d != "" {
				l.Append(py.String(d))
			}
		}
	}
	c.pc = &pyrun.Ctx{Ctx: ctx, Out: out}
	c.rp = repl.New(ctx)
	c.rp.SetUI(termUI{c})
	c.own = &pyrun.Writer{}
	c.rp.Module.Globals["own_writer"] = c.own
	if !c.free {
		gated.Store(ctx, c)
	}
}

func (c *cx) close() {
	if c.pc == nil {
		return
	}
	gated.Delete(c.pc.Ctx)
	c.pc.Close()
}

// yield is reached inside REPL.Run, after vm.PrintExpr has been rebound, before the line runs.
func (c *cx) yield() {
	if atomic.CompareAndSwapInt32(&c.wantPark, 1, 0) {
		c.ack <- struct{}{}
		<-c.adv
	}
}

// collectStray: text that arrived in one of this context's writers while it was not running an operation
// was printed by another context.
func (c *cx) collectStray() {
	if c.pc == nil {
		return
	}
	t := c.pc.Out.String() + c.own.String()
	c.pc.Out.Reset()
	c.own.Reset()
	if t != "" {
		c.mu.Lock()
		c.obs = append(c.obs, realEntry{Entry: Entry{K: "stray", I: 0, V: strings.ReplaceAll(strings.TrimSuffix(t, "\n"), "\n", "/")}})
		c.mu.Unlock()
	}
}

func (c *cx) runOp(i int) {
	if c.pc == nil {
		c.create()
	}
	c.collectStray()
	o := opList[c.script[i]-1]
	val := c.tag + c.name + ":" + fmt.Sprint(i+1)
	src := render(o, val, c.n)
	c.ops++
	if o.Op == "ReplLine" {
		if !c.free {
			atomic.StoreInt32(&c.wantPark, 1)
		}
		v := "ok"
		func() {
			defer func() {
				if e := recover(); e != nil {
					v = "panic:" + fmt.Sprint(e)
				}
			}()
			if err := c.rp.Run(src); err != nil {
				v = "err"
			}
		}()
		if !c.free && atomic.CompareAndSwapInt32(&c.wantPark, 1, 0) {
			// the line never reached RunCode: the two steps collapse
			c.ack <- struct{}{}
			<-c.adv
		}
		e := realEntry{Entry: Entry{K: "op", I: i + 1, V: ""}}
		if v != "ok" {
			e.V = v
		}
		c.mu.Lock()
		c.obs = append(c.obs, e)
		c.mu.Unlock()
		return
	}
	var (
		rerr error
		pnc  string
	)
	if o.Op == "HoldDeep" && !c.free {
		atomic.StoreInt32(&c.wantPark, 1)
	}
	func() {
		defer func() {
			if e := recover(); e != nil {
				pnc = fmt.Sprint(e)
			}
		}()
		code, err := py.Compile(src, "<"+o.Op+">", py.ExecMode, 0, true)
		if err != nil {
			rerr = err
			return
		}
		_, rerr = c.pc.Ctx.RunCode(code, c.rp.Module.Globals, c.rp.Module.Globals, nil)
	}()
	if o.Op == "HoldDeep" && !c.free && atomic.CompareAndSwapInt32(&c.wantPark, 1, 0) {
		// the recursion never reached hold(): the two steps collapse
		c.ack <- struct{}{}
		<-c.adv
	}
	var segs []string
	std, own := c.pc.Out.String(), c.own.String()
	c.pc.Out.Reset()
	c.own.Reset()
	if o.Op == "Print" {
		// the observation names the writer of this context that received the text
		if std != "" {
			std = "std:" + std
		}
		if own != "" {
			own = "own:" + own
		}
	}
	if out := std + own; out != "" {
		segs = strings.Split(strings.TrimSuffix(out, "\n"), "\n")
	}
	e := realEntry{Entry: Entry{K: "op", I: i + 1}}
	if pnc != "" {
		segs = append(segs, "panic:"+pnc)
	} else if rerr != nil {
		r := pyrun.Guard(5*time.Second, func() error { return rerr })
		segs = append(segs, "exc:"+r.Exc)
		e.bases = r.ExcBases
	}
	e.V = strings.Join(segs, "/")
	c.mu.Lock()
	c.obs = append(c.obs, e)
	c.mu.Unlock()
}

// loop: the context's own goroutine; under the scheduler every operation waits for its release.
func (c *cx) loop(done *sync.WaitGroup) {
	defer done.Done()
	for i := range c.script {
		if !c.free {
			<-c.adv
		}
		c.runOp(i)
		if !c.free {
			c.ack <- struct{}{}
		}
	}
}

func (c *cx) observed() []realEntry {
	c.collectStray()
	c.mu.Lock()
	defer c.mu.Unlock()
	out := make([]realEntry, len(c.obs))
	copy(out, c.obs)
	for i := range out {
		out[i].V = strings.ReplaceAll(strings.ReplaceAll(out[i].V, "mk:", ""), c.tag, "")
	}
	return out
}

// ---- comparison -------------------------------------------------------------------------

// sameEntry: equality, except that an exception class is compared up to inheritance.
func sameEntry(want Entry, got realEntry) bool {
	if want.K != got.K || want.I != got.I {
		return false
	}
	if want.V == got.V {
		return true
	}
	ws, gs := strings.Split(want.V, "/"), strings.Split(got.V, "/")
	if len(ws) != len(gs) {
		return false
	}
	for i := range ws {
		if ws[i] == gs[i] {
			continue
		}
		if i == len(ws)-1 && strings.HasPrefix(ws[i], "exc:") && strings.HasPrefix(gs[i], "exc:") {
			for _, b := range got.bases {
				if "exc:"+b == ws[i] {
					return true
				}
			}
		}
		return false
	}
	return true
}

func firstDiff(want []Entry, got []realEntry) int {
	for i := 0; i < len(want) || i < len(got); i++ {
		if i >= len(want) || i >= len(got) || !sameEntry(want[i], got[i]) {
			return i
		}
	}
	return -1
}

type divergence struct {
	comp    Comp
	ctx     string
	at      int
	want    []map[string][]Entry
	got     map[string][]Entry
	foreign bool // the diverging observation shows a value written by another context or case
}

func (d *divergence) detail(c *Case) map[string]interface{} {
	r := c.render()
	r["context"] = d.ctx
	r["first_diverging_observation"] = d.at
	r["ideal_model"] = d.want
	r["real"] = d.got
	r["shows_foreign_value"] = d.foreign
	return r
}

var tagRe = regexp.MustCompile(`b\d+\.c\d+:\d+|c\d+:\d+`)

// judge compares what the contexts observed with the observations the ideal model allows.
func judge(c *Case, got map[string][]realEntry) *divergence {
	names := ctxNames(c.Script)
	var best *divergence
	bestScore := -1
	for _, allowed := range c.Allowed {
		var d *divergence
		for _, n := range names {
			if i := firstDiff(allowed[n], got[n]); i >= 0 {
				// the operation whose observation diverged: the one the model expected there, else the real one
				op := ""
				var e Entry
				if i < len(allowed[n]) {
					e = allowed[n][i]
				} else {
					e = got[n][i].Entry
				}
				if i < len(got[n]) && got[n][i].K == "stray" {
					// text printed by another context arrived in one of this context's writers
					op = "Print"
				} else if e.K == "echo" || (i < len(got[n]) && got[n][i].K == "echo") {
					// an echo the model did not expect here (or expected and missing) is always vm.PrintExpr's doing
					op = "ReplLine"
				} else if e.I >= 1 && e.I <= len(c.Script[n]) {
					op = opList[c.Script[n][e.I-1]-1].Op
				}
				d = &divergence{comp: meta[op], ctx: n, at: i}
				if d.comp.Name == "" {
					d.comp = Comp{Name: "unknown component", Writer: op}
				}
				if i < len(got[n]) {
					for _, tg := range tagRe.FindAllString(got[n][i].V, -1) {
						if !strings.HasPrefix(tg, n+":") {
							d.foreign = true
						}
					}
				}
				break
			}
		}
		if d == nil {
			return nil
		}
		// several models are allowed (e.g. assignment to a builtin type attribute may be per-context or be
		// rejected): the divergence is judged against the model the real run follows longest, otherwise an
		// operation that merely took the other allowed branch would be blamed for a later, unrelated leak
		score := 0
		for _, n := range names {
			if i := firstDiff(allowed[n], got[n]); i >= 0 {
				score += i
			} else {
				score += len(got[n])
			}
		}
		if best == nil || score > bestScore {
			best, bestScore = d, score
		}
	}
	if best == nil {
		return nil
	}
	best.want = c.Allowed
	best.got = map[string][]Entry{}
	for n, es := range got {
		for _, e := range es {
			best.got[n] = append(best.got[n], e.Entry)
		}
	}
	return best
}

// ---- gated replay of one behaviour ------------------------------------------------------

// onlyActive: contexts whose script is empty are not even created.
func replayCase(c *Case, n int, onlyActive bool) *divergence {
	var names []string
	for _, nm := range ctxNames(c.Script) {
		if !onlyActive || len(c.Script[nm]) > 0 {
			names = append(names, nm)
		}
	}
	cxs := map[string]*cx{}
	var wg sync.WaitGroup
	for _, nm := range names {
		cxs[nm] = newCx(nm, c.Script[nm], n, false, c.Config, c.Lazy)
		wg.Add(1)
		go cxs[nm].loop(&wg)
	}
	stuck := ""
	for _, who := range c.Order {
		x := cxs[who]
		x.adv <- struct{}{}
		select {
		case <-x.ack:
		case <-time.After(20 * time.Second):
			stuck = who
		}
		if stuck != "" {
			break
		}
	}
	got := map[string][]realEntry{}
	if stuck == "" {
		wg.Wait()
	}
	for _, nm := range names {
		got[nm] = cxs[nm].observed()
		if stuck == "" {
			cxs[nm].close()
		}
	}
	if stuck != "" {
		d := &divergence{comp: Comp{Name: "operation does not finish", Writer: "hang"}, ctx: stuck}
		d.want = c.Allowed
		return d
	}
	return judge(c, got)
}

// ---- free-running worker (subprocess, race detector on) ---------------------------------

const sharedProgram = `import math
def fib(n):
    a, b = 0, 1
    for _ in range(n):
        a, b = b, a + b
    return a
def gen(n):
    for i in range(n):
        yield i * i
class K:
    def __init__(self, v):
        self.v = v
    def twice(self):
        return self.v * 2
acc = []
for i in range(60):
    try:
        acc.append(fib(i % 20) + int(math.sqrt(i)) + K(i).twice())
        if i % 7 == 0:
            raise ValueError(i)
    except ValueError:
        acc.append(-1)
d = {}
for i in range(20):
    d[str(i)] = [x for x in gen(i % 5)]
total = 0
for k in sorted(d.keys()):
    total = total + sum(d[k])
f = lambda x: x + total
print(sum(acc), total, f(1), len(acc))
`

// soloWorker: one single-operation case in this fresh process; prints "match" or "diverge".
func soloWorker(jobFile string) {
	b, err := os.ReadFile(jobFile)
	var job stressJob
	if err != nil || json.Unmarshal(b, &job) != nil || len(job.Cases) != 1 {
		os.Exit(11)
	}
	opList, meta, stdTypes = job.OpList, job.Meta, job.StdTypes
	initRuntime(job.Scratch)
	if replayCase(job.Cases[0], 1, true) == nil {
		os.Exit(0)
	} else {
		os.Exit(10)
	}
}

func stressWorker(jobFile string) {
	b, err := os.ReadFile(jobFile)
	if err != nil {
		fmt.Fprintln(os.Stderr, "stress worker:", err)
		os.Exit(3)
	}
	var job stressJob
	if err := json.Unmarshal(b, &job); err != nil {
		fmt.Fprintln(os.Stderr, "stress worker:", err)
		os.Exit(3)
	}
	opList, meta, stdTypes = job.OpList, job.Meta, job.StdTypes
	initRuntime(job.Scratch)
	stdlib.VerifYield = nil
	res := &stressResult{}
	var mu sync.Mutex
	var serial int64
	stop := make(chan struct{})
	var bg sync.WaitGroup

	// concurrent compilation of a corpus
	var compiles int64
	for g := 0; g < job.Compilers; g++ {
		bg.Add(1)
		go func(g int) {
			defer bg.Done()
			rng := rand.New(rand.NewSource(job.Seed*1000 + int64(g)))
			for {
				select {
				case <-stop:
					return
				default:
				}
				if len(job.Corpus) == 0 {
					return
				}
				src := job.Corpus[rng.Intn(len(job.Corpus))]
				func() {
					defer func() {
						if e := recover(); e != nil {
							mu.Lock()
							res.Panics = append(res.Panics, "py.Compile: "+fmt.Sprint(e))
							mu.Unlock()
						}
					}()
					py.Compile(src, "<corpus>", py.ExecMode, 0, true)
				}()
				atomic.AddInt64(&compiles, 1)
			}
		}(g)
	}

	// one code object executed by many contexts at once; reference = the same code run alone first
	if job.SharedN > 0 {
		code, err := py.Compile(sharedProgram, "<shared>", py.ExecMode, 0, true)
		if err != nil {
			fmt.Fprintln(os.Stderr, "stress worker: shared program does not compile:", err)
			os.Exit(3)
		}
		runShared := func() string {
			c := pyrun.New(umodDir)
			defer c.Close()
			out := ""
			func() {
				defer func() {
					if e := recover(); e != nil {
						out = "panic:" + fmt.Sprint(e)
					}
				}()
				_, err := py.RunCode(c.Ctx, code, "<shared>", nil)
				out = c.Out.String()
				if err != nil {
					out += "ERR"
				}
			}()
			return out
		}
		solo := runShared()
		for g := 0; g < job.SharedN; g++ {
			bg.Add(1)
			go func() {
				defer bg.Done()
				for {
					select {
					case <-stop:
						return
					default:
					}
					got := runShared()
					mu.Lock()
					res.SharedRuns++
					if got != solo && len(res.SharedDiff) < 5 {
						res.SharedDiff = append(res.SharedDiff, fmt.Sprintf("solo=%q concurrent=%q", solo, got))
					}
					mu.Unlock()
				}
			}()
		}
	}

	// the script assignments, every context on its own goroutine, no gating
	jobs := make(chan *Case)
	var wg sync.WaitGroup
	for w := 0; w < job.Parallel; w++ {
		wg.Add(1)
		go func() {
			defer wg.Done()
			for c := range jobs {
				n := int(atomic.AddInt64(&serial, 1))
				names := ctxNames(c.Script)
				cxs := map[string]*cx{}
				var run sync.WaitGroup
				start := make(chan struct{})
				for _, nm := range names {
					x := newCx(nm, c.Script[nm], n, true, c.Config, c.Lazy)
					cxs[nm] = x
					run.Add(1)
					go func() {
						<-start
						x.loop(&run)
					}()
				}
				close(start)
				run.Wait()
				got := map[string][]realEntry{}
				ops := 0
				for _, nm := range names {
					got[nm] = cxs[nm].observed()
					ops += cxs[nm].ops
					cxs[nm].close()
				}
				var d *divergence
				if job.CheckObs {
					d = judge(c, got)
				}
				mu.Lock()
				res.Runs++
				res.Ops += ops
				if d != nil && len(res.Mismatches) < 20 {
					res.Mismatches = append(res.Mismatches, stressMismatch{Comp: d.comp, Detail: d.detail(c)})
				}
				for _, es := range got {
					for _, e := range es {
						if strings.Contains(e.V, "panic:") && len(res.Panics) < 20 {
							res.Panics = append(res.Panics, e.V)
						}
					}
				}
				mu.Unlock()
			}
		}()
	}
	began := time.Now()
feed:
	for r := 0; r < job.Rounds; r++ {
		for _, c := range job.Cases {
			if job.BudgetS > 0 && time.Since(began) > time.Duration(job.BudgetS)*time.Second {
				break feed
			}
			jobs <- c
		}
	}
	close(jobs)
	wg.Wait()
	close(stop)
	bg.Wait()
	res.Compiles = int(atomic.LoadInt64(&compiles))
	out, _ := json.Marshal(res)
	if err := os.WriteFile(os.Getenv("GPV_C08_RESULT"), out, 0o644); err != nil {
		fmt.Fprintln(os.Stderr, "stress worker: cannot write result:", err)
		os.Exit(3)
	}
}
