SPECIFICATION Spec
CONSTANTS Kind = "str"
          FullLen = 2
          RepLen = 3
          RepPrefixes = {1, 6}
          RepQuotes = {1}
INVARIANT Emit
CHECK_DEADLOCK FALSE
