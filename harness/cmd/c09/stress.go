//go:build verif

package main

import (
	"os"
	"encoding/json"
	"fmt"
	"math/rand"
	"runtime"
	"strings"
	"sync"
	"time"

	"gpverif/common"

	"github.com/go-python/gpython/py"
)

type ev struct {
	K   string `json:"k"`
	P   string `json:"p"`
	Op  string `json:"op"`
	Res string `json:"res"`
	S   int    `json:"s"` // session
}

// session runs goroutines freely (no gating) against one fresh context and logs
// invocation/return/exec/callback events under one mutex (the log order is the global order:
// "inv" is logged before the call starts and "ret" after it returned, so the linearization
// points of the call lie between them).
type session struct {
	id  int
	mu  sync.Mutex
	log []ev
	ctx py.Context
}

func (s *session) emit(k, p, op, res string) {
	s.mu.Lock()
	s.log = append(s.log, ev{k, p, op, res, s.id})
	s.mu.Unlock()
}

// run executes one session. Every third session is "targeted": executor a runs its jobs back to
// back (no jitter between them) with executions long enough that a Close issued by another
// goroutine finds one in flight and has to wait -- the next job then competes with the woken
// closer for the mutex, which is the window between idle.Wait's wake-up and its re-acquiring the
// mutex that the controlling scheduler of the replay cannot open (no yield point inside Cond.Wait).
func (s *session) run(rng *rand.Rand) {
	targeted := s.id%3 == 0
	s.ctx = py.NewContext(py.ContextOpts{SysPaths: []string{racDir}})
	_, err := s.ctx.ModuleInit(&py.ModuleImpl{Info: py.ModuleInfo{Name: "vcb"},
		OnContextClosed: func(*py.Module) { s.emit("cb", "-", "-", "-") }})
	if err != nil {
		common.Inconclusive("property=C09 stress: %v", err)
	}
	// a: all execution kinds; b: RunCode / ResolveAndCompile only (ModuleInit writes the module
	// store, which the API documents as not safe for concurrent use); c, d: Close and Done waits.
	scripts := map[string][]string{}
	pick := func(ops []string, n int) []string {
		var r []string
		for i := 0; i < n; i++ {
			r = append(r, ops[rng.Intn(len(ops))])
		}
		return r
	}
	scripts["a"] = pick([]string{"run", "minit", "rac", "run", "runr", "minitr", "racx", "minitc"}, 2+rng.Intn(4))
	scripts["b"] = pick([]string{"run", "rac", "runr", "racx"}, 1+rng.Intn(4))
	scripts["c"] = pick([]string{"close", "wait", "nop", "nop"}, 1+rng.Intn(3))
	scripts["d"] = pick([]string{"close", "nop", "nop", "close"}, 1+rng.Intn(3))
	// make sure someone closes so that waits end
	scripts["d"] = append(scripts["d"], "close")
	if targeted {
		scripts["a"] = pick([]string{"run", "run", "minit", "rac", "runr"}, 4+rng.Intn(4))
		scripts["b"] = nil
		scripts["c"] = []string{"close"}
		scripts["d"] = pick([]string{"wait", "close"}, 1)
	}
	seeds := map[string]int64{}
	for p := range scripts {
		seeds[p] = rng.Int63()
	}
	var wg sync.WaitGroup
	for p, sc := range scripts {
		p, sc := p, sc
		wg.Add(1)
		go func() {
			defer wg.Done()
			lr := rand.New(rand.NewSource(seeds[p]))
			jitter := func() {
				switch lr.Intn(4) {
				case 0:
					runtime.Gosched()
				case 1:
					time.Sleep(time.Duration(lr.Intn(50)) * time.Microsecond)
				}
			}
			y := py.MustNewMethod("y", func(self py.Object) (py.Object, error) {
				s.emit("exec", p, "-", "-")
				if targeted {
					time.Sleep(time.Duration(40+lr.Intn(120)) * time.Microsecond)
				} else {
					jitter()
				}
				// still inside the admitted execution: a callback round logged between the two
				// events ran while this execution was in flight
				s.emit("exec", p, "-", "-")
				return py.None, nil
			}, 0, "")
			if targeted && p != "a" {
				time.Sleep(time.Duration(20+lr.Intn(400)) * time.Microsecond)
			}
			for _, op := range sc {
				if !(targeted && p == "a") {
					jitter()
				}
				if op == "nop" {
					continue
				}
				s.emit("inv", p, op, "-")
				res := func() (out string) {
					defer func() {
						if e := recover(); e != nil {
							out = "panic"
						}
					}()
					switch op {
					case "run", "runr", "minit", "minitr", "minitc", "rac", "racx":
						return execOp(s.ctx, op, y)
					case "close":
						s.ctx.Close()
						return "closed"
					case "wait":
						<-s.ctx.Done()
						return "done"
					}
					return "?"
				}()
				s.emit("ret", p, op, res)
			}
		}()
	}
	fin := make(chan struct{})
	go func() { wg.Wait(); close(fin) }()
	select {
	case <-fin:
	case <-time.After(10 * time.Second):
		s.emit("hang", "-", "-", "-")
	}
}

func stress(env *common.Env, rep *common.Report, rng *rand.Rand) {
	n := env.Pick(300, 6000)
	var all []ev
	hangs := 0
	for i := 0; i < n; i++ {
		s := &session{id: i}
		s.run(rand.New(rand.NewSource(rng.Int63())))
		if i > 0 {
			all = append(all, ev{"reset", "-", "-", "-", i})
		}
		s.mu.Lock()
		for _, e := range s.log {
			if e.K == "hang" {
				hangs++
				rep.Violation("C09|stress|deadlock", map[string]interface{}{"session": i, "log": s.log})
			}
		}
		all = append(all, s.log...)
		if os.Getenv("VERIF_C09_DUMP") != "" && i%3 == 0 && i < 30 {
			for _, e := range s.log {
				fmt.Printf("%d:%s/%s/%s/%s ", e.S, e.K, e.P, e.Op, e.Res)
			}
			fmt.Println()
		}
		s.mu.Unlock()
		if hangs > 0 {
			break
		}
	}
	if hangs > 0 {
		return
	}
	// validate in shards so that a rejection is located and the rest is still checked
	shard := 20000
	validated := 0
	for off := 0; off < len(all); {
		end := off + shard
		if end >= len(all) {
			end = len(all)
		} else {
			for end < len(all) && all[end].K != "reset" {
				end++
			}
		}
		part := all[off:end]
		if len(part) > 0 && part[0].K == "reset" {
			part = part[1:]
		}
		var b strings.Builder
		for _, e := range part {
			j, _ := json.Marshal(e)
			b.Write(j)
			b.WriteByte('\n')
		}
		if d := os.Getenv("VERIF_C09_DUMP"); d != "" {
			os.WriteFile(d+".trace.ndjson", []byte(b.String()), 0o644)
		}
		var rejected []byte
		res := env.MustTLC(common.TLCRun{Dir: "C09", Module: "LifecycleAbsTrace", Config: "trace.cfg", Workers: 1,
			Extra: map[string]string{"trace.ndjson": b.String()}, Timeout: 10 * time.Minute,
			OnLine: func(rec []byte) { rejected = append([]byte{}, rec...) }})
		rep.AddTLC(res)
		if rejected != nil {
			var rj struct {
				At    int `json:"rejected_at"`
				Event ev  `json:"event"`
			}
			json.Unmarshal(rejected, &rj)
			// context: the session's events up to the rejected one
			var ctxEv []ev
			for i := 0; i < rj.At && i < len(part); i++ {
				if part[i].S == rj.Event.S {
					ctxEv = append(ctxEv, part[i])
				}
			}
			rep.Violation(fmt.Sprintf("C09|stress|rejected|%s %s %s", rj.Event.K, rj.Event.Op, rj.Event.Res),
				map[string]interface{}{"rejected_event": rj.Event, "session_prefix": ctxEv})
		} else if len(res.Violations) > 0 {
			rep.Violation("C09|stress|"+common.TrimKey(res.Violations[0], 60), map[string]interface{}{"tlc": res.Stdout})
		} else {
			validated += len(part)
		}
		off = end
	}
	rep.Extra["stress_sessions"] = n
	rep.Extra["stress_events_validated"] = validated
	rep.Traces += int64(n)
}
