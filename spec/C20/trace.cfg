SPECIFICATION TSpec
CONSTANTS
  Kinds <- TKinds
  MaxItems = 1000
  Progress = FALSE
INVARIANT Emit
CHECK_DEADLOCK FALSE
