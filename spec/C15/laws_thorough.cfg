SPECIFICATION Spec
CONSTANTS Tier = 1
INVARIANT LawsHold
CHECK_DEADLOCK FALSE
