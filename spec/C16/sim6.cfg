SPECIFICATION Spec
CONSTANTS
  MaxN = 6
  MaxBases = 3
  EmitAll = FALSE
INVARIANT DesignOk
CHECK_DEADLOCK FALSE
