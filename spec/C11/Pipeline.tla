------------------------------ MODULE Pipeline ------------------------------
(* C11: the compile pipeline is total.                                                        *)
(*                                                                                            *)
(* compile(bytes, file, mode) runs the stages Lex -> Parse -> Symtable -> Compile -> Assemble.*)
(* Every stage either passes its product on or stops the pipeline with an exception of the    *)
(* SyntaxError family that carries file name, line and offset.  When the last stage passes    *)
(* the result is a code object.  Nothing else can be observed: there is no action that        *)
(* produces a panic, a SystemError, any other exception class, an error without location, or  *)
(* "no answer" (watchdog expiry).                                                             *)
(*                                                                                            *)
(* The specification does not decide which texts compile: which stage fails, and whether one *)
(* does, is left open.  This module is an outcome monitor, not a compiler.  (What PyLex says   *)
(* about an input is compared with the real lexer separately, at the parser.LexString level;   *)
(* whether a text PyLex rejects is also rejected by compile is a question about the grammar   *)
(* and belongs to C06.)                                                                       *)
EXTENDS Integers, Sequences, FiniteSets, TLC

Stages    == <<"Lex", "Parse", "Symtable", "Compile", "Assemble">>
Modes     == {"exec", "eval", "single"}
SynFamily == {"SyntaxError", "IndentationError", "TabError"}

NoOutcome   == [kind |-> "none", cls |-> "", file |-> FALSE, line |-> FALSE, offset |-> FALSE]
CodeOutcome == [kind |-> "code", cls |-> "", file |-> FALSE, line |-> FALSE, offset |-> FALSE]
SynOutcome(c) == [kind |-> "exc", cls |-> c, file |-> TRUE, line |-> TRUE, offset |-> TRUE]

(* classes a stage may raise: the two indentation classes come from the lexer and the parser  *)
(* ("expected an indented block"); later stages report plain SyntaxError                      *)
MayRaise(stage) == IF stage \in {"Lex", "Parse"} THEN SynFamily ELSE {"SyntaxError"}

(* the machine as a successor function, so that the same definition serves the model-checked  *)
(* behaviour spec below and the acceptance test for observed outcomes                         *)
Start(mode) == [mode |-> mode, at |-> 1, outcome |-> NoOutcome]
Running(s) == s.outcome.kind = "none"
Succ(s) ==
  IF ~Running(s) THEN {}
  ELSE LET stage == Stages[s.at]
           pass  == IF s.at = Len(Stages) THEN { [s EXCEPT !.outcome = CodeOutcome] }
                    ELSE { [s EXCEPT !.at = @ + 1] }
           fail  == { [s EXCEPT !.outcome = SynOutcome(c)] : c \in MayRaise(stage) }
       IN pass \cup fail

VARIABLE st
Init == st \in { Start(m) : m \in Modes }
Next == st' \in Succ(st)
Spec == Init /\ [][Next]_st

(* design checks (TLC, Pipeline.cfg) *)
TypeOK == st.at \in 1..Len(Stages) /\ st.mode \in Modes
Total == ~Running(st) => \/ st.outcome = CodeOutcome
                         \/ (st.outcome.kind = "exc" /\ st.outcome.cls \in SynFamily
                             /\ st.outcome.file /\ st.outcome.line /\ st.outcome.offset)
NoStuck == Running(st) => Succ(st) # {}                      \* termination: every running state has a successor ...
Progress == Running(st) => \A t \in Succ(st) : ~Running(t) \/ t.at > st.at   \* ... and stages only advance

(* all states reachable from s (at most Len(Stages)+1 steps) *)
RECURSIVE ReachFrom(_, _)
ReachFrom(S, n) == IF n = 0 THEN S ELSE ReachFrom(S \cup UNION { Succ(s) : s \in S }, n - 1)
Terminals(mode) == { s.outcome : s \in { t \in ReachFrom({Start(mode)}, Len(Stages) + 1) : ~Running(t) } }

(* An observed event [mode, kind, cls, bases, file, line, offset] is accepted iff some         *)
(* terminal outcome of the machine matches it; exception classes are compared up to           *)
(* inheritance (bases = the observed class and all its base classes).                         *)
Matches(o, e) ==
  /\ o.kind = e.kind
  /\ o.kind = "exc" => /\ \E i \in 1..Len(e.bases) : e.bases[i] = o.cls
                       /\ o.file = e.file /\ o.line = e.line /\ o.offset = e.offset
Accepts(e) == e.mode \in Modes /\ \E o \in Terminals(e.mode) : Matches(o, e)
=============================================================================
