-------------------------- MODULE PipelineUniverse --------------------------
(* C11: the explored input universe and what PyLex says about each input.                     *)
(*                                                                                            *)
(* An input is a sequence of items of the alphabet (alphabet.ndjson, shared with the harness: *)
(* the harness renders item i as the bytes given by its "hex" field), joined with one space   *)
(* (sp = TRUE) or with nothing (sp = FALSE), compiled in each of the three modes.             *)
(* TLC enumerates every sequence up to MaxLen (exhaustive configuration) or draws sequences   *)
(* of a length in SimLens (simulation configuration) and prints, per sequence, the lexical    *)
(* classification of both joinings.                                                           *)
(*                                                                                            *)
(* Alphabet item: [id, hex, show, cls, items, ls, rs]                                         *)
(*   cls = "tok"     items = the PyLex token items the text consists of                       *)
(*   cls = "ws"      in-line white space (items = its PyLex items)                            *)
(*   cls = "nl"      a line terminator followed by the white space in items                   *)
(*   cls = "bsnl"    backslash + line terminator                                              *)
(*   cls = "comment" a comment: swallows everything up to the next line terminator            *)
(*   cls = "lexerr"  a character that is an unconditional error outside strings and comments  *)
(*   cls = "opaque"  PyLex makes no claim about inputs containing it (string quotes that may  *)
(*                   pair up, malformed numbers, control bytes, invalid UTF-8, BOM)           *)
(*   ls / rs         the item cannot merge with a neighbour on its left / right when joined   *)
(*                   without a space (brackets, comma, white space ...)                       *)
EXTENDS Integers, Sequences, FiniteSets, TLC, Json, SequencesExt, PyLex

CONSTANTS MaxLen,      \* exhaustive: every sequence of 1..MaxLen items
          SimLens      \* simulation: target lengths ({} in the exhaustive configuration)

Alpha == ndJsonDeserialize("alphabet.ndjson")
NAlpha == Len(Alpha)

(* The physical lines (PyLex items) of the text obtained by joining the items of seq.         *)
Build(seq, sp) ==
  LET step(a, j) ==
        LET it   == Alpha[seq[j]]
            glue == IF ~sp /\ j > 1 /\ ~a.incomment /\ ~(Alpha[seq[j - 1]].rs \/ it.ls) THEN TRUE ELSE a.glue
            sep  == IF sp /\ j > 1 /\ ~a.incomment THEN <<PLWs(1)>> ELSE <<>>
            b    == [a EXCEPT !.glue = glue]
        IN IF it.cls = "opaque" THEN [b EXCEPT !.opaque = TRUE]
           ELSE IF a.incomment THEN
                IF it.cls = "nl" THEN [b EXCEPT !.lines = Append(@, a.cur), !.cur = it.items, !.incomment = FALSE]
                ELSE IF it.cls = "bsnl" THEN [b EXCEPT !.lines = Append(@, a.cur), !.cur = <<>>, !.incomment = FALSE]
                ELSE b
           ELSE IF it.cls \in {"tok", "ws"} THEN [b EXCEPT !.cur = (@ \o sep) \o it.items]
           ELSE IF it.cls = "nl" THEN [b EXCEPT !.lines = Append(@, a.cur \o sep), !.cur = it.items]
           ELSE IF it.cls = "bsnl" THEN [b EXCEPT !.lines = Append(@, (a.cur \o sep) \o <<PLBslash>>), !.cur = <<>>]
           ELSE IF it.cls = "comment" THEN [b EXCEPT !.cur = (@ \o sep) \o <<PLComment>>, !.incomment = TRUE]
           ELSE \* lexerr
                [b EXCEPT !.cur = @ \o sep, !.lexerr = TRUE]
      r == FoldLeft(step, [lines |-> <<>>, cur |-> <<>>, incomment |-> FALSE, glue |-> FALSE,
                           opaque |-> FALSE, lexerr |-> FALSE], [j \in 1..Len(seq) |-> j])
  IN [r EXCEPT !.lines = IF r.cur # <<>> THEN Append(@, r.cur) ELSE @]

(* lexical class of the joined text and, where PyLex yields tokens, the token kinds           *)
Classify(seq, sp) ==
  LET b == Build(seq, sp) IN
  IF b.opaque \/ b.glue THEN [lex |-> "none", toks |-> <<>>]
  ELSE LET r == PLLex(b.lines) IN
       IF ~r.nest \/ r.err = "tab" THEN [lex |-> "none", toks |-> <<>>]   \* improper nesting: no token-level meaning; tab consistency is C06's
       ELSE IF b.lexerr \/ r.err = "dedent" THEN [lex |-> "err", toks |-> <<>>]
       ELSE IF r.err = "eof" THEN [lex |-> "eof", toks |-> r.out]
       ELSE [lex |-> "toks", toks |-> r.out]

Record(seq) == [s |-> seq, a |-> Classify(seq, TRUE), b |-> Classify(seq, FALSE)]

VARIABLES seq, tgt
Init == seq = <<>> /\ tgt \in (IF SimLens = {} THEN {0} ELSE SimLens)
Next == /\ Len(seq) < (IF tgt = 0 THEN MaxLen ELSE tgt)
        /\ \E i \in 1..NAlpha : seq' = Append(seq, i)
        /\ UNCHANGED tgt
Spec == Init /\ [][Next]_<<seq, tgt>>

(* export: one record per sequence (exhaustive) / per completed draw (simulation) *)
Emit == (seq # <<>> /\ (tgt = 0 \/ Len(seq) = tgt)) => PrintT(ToJson(Record(seq)))
=============================================================================
