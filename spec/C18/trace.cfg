SPECIFICATION TSpec
CONSTANT NProcs = 17
CHECK_DEADLOCK FALSE
