\* ideal model, 2 contexts, scripts of <=2 and <=2 operations, all interleavings; behaviours exported
SPECIFICATION Spec
CONSTANTS
  Ctx = {"c1", "c2"}
  Shared = FALSE
  MaxLens <- ML22
  ScriptSet <- MCScripts
  Policies <- Both
INVARIANTS NonInterference FinalEqualsSolo Emit
CHECK_DEADLOCK FALSE
