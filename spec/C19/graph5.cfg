SPECIFICATION Spec
CONSTANTS
  Mods = {"ma", "mb", "mc"}
  Families = {"graph5"}
  AssumeAll = TRUE
INVARIANTS TypeOK OnlyAvailable RunOnce NoReentry OneObject Provenance StarRespectsUnderscore Terminates Usable Emit
CHECK_DEADLOCK FALSE
