---- MODULE PyScopeDice ----
\* Sampling driver: one program per line of dice.ndjson ({"d": [[d1,d2,d3,d4], ...]}).
EXTENDS PyScopeGen
Seq2 == <<"x", "y">>
Seq2C == <<"x", "y", "__class__">>
Cases == ndJsonDeserialize("dice.ndjson")
VARIABLES l, v
Init == l \in 1..Len(Cases) /\ v = "todo"
Next == /\ v = "todo"
        /\ PrintT(ToJson(Expect(Build(Cases[l].d).prog)))
        /\ v' = "done" /\ UNCHANGED l
Spec == Init /\ [][Next]_<<l, v>>
====
