\* all interleavings of 3 goroutines x every script of <=2 operations containing a Close
SPECIFICATION Spec
CONSTANTS
  Procs = {"a", "b", "c", "d"}
  MaxLen = 1
  NeedClose = FALSE
  OpSet = {"run", "minit", "rac", "close", "wait"}
  AtomicWake = FALSE
  ScriptSet <- MCScripts
VIEW View
INVARIANTS CounterSane CallbacksOnce DoneAfterQuiescence NoRunDuringCb ClosedMeansIdle StepClauses OnceOwner TypeOK NoDeadlock
CHECK_DEADLOCK FALSE
