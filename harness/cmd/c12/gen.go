//go:build verif

package main

import (
	"crypto/sha1"
	"encoding/json"
	"fmt"
	"math/rand"
	"os"
	"strings"

	"gpverif/common"
)

func sha1sum(b []byte) [20]byte { return sha1.Sum(b) }

// ---------------------------------------------------------------------------------------
// Seeded generator of programs that stress code generation.  It knows nothing about what the
// compiler should emit: it only produces source text.  Programs the compiler rejects are simply
// not part of the corpus (C12 quantifies over the programs the compiler accepts); programs that
// raise at run time are fine (exception paths are paths).

type ctx struct {
	inFunc  bool
	isGen   bool
	loops   int  // enclosing loops of the current function body
	guarded int  // enclosing try/with blocks of the current function body
	inFinal bool // inside a finally clause (continue is a syntax error there)
	depth   int
}

type pgen struct {
	rng   *rand.Rand
	b     strings.Builder
	ind   int
	funcs []string // callable names defined so far (module level), with arity 2
	gens  []string
	nstmt int
	uniq  int
	limit int
	wild  bool // may place break/continue/return/yield where the grammar's context rules forbid them
}

func (g *pgen) line(format string, a ...interface{}) {
	g.b.WriteString(strings.Repeat("    ", g.ind))
	fmt.Fprintf(&g.b, format, a...)
	g.b.WriteByte('\n')
	g.nstmt++
}
func (g *pgen) n(k int) int              { return g.rng.Intn(k) }
func (g *pgen) p(pct int) bool           { return g.rng.Intn(100) < pct }
func (g *pgen) pick(xs ...string) string { return xs[g.rng.Intn(len(xs))] }
func (g *pgen) fresh(prefix string) string {
	g.uniq++
	return fmt.Sprintf("%s%d", prefix, g.uniq)
}

var intVars = []string{"v0", "v1", "v2", "v3"}

func (g *pgen) ivar() string { return intVars[g.n(len(intVars))] }

// expr produces an expression (mostly int valued; type errors at run time are acceptable).
func (g *pgen) expr(c ctx, d int) string {
	if d <= 0 {
		switch g.n(7) {
		case 0, 1:
			return fmt.Sprint(g.n(7))
		case 2, 3, 4:
			return g.ivar()
		case 5:
			return g.pick("None", "True", "False", "'s'", "1.5", "b'x'", "lst", "dct")
		default:
			return "len(lst)"
		}
	}
	e := func() string { return g.expr(c, d-1) }
	switch g.n(30) {
	case 0, 1, 2:
		return "(" + e() + " " + g.pick("+", "-", "*", "//", "%", "&", "|", "^") + " " + e() + ")"
	case 3:
		return "(" + e() + " " + g.pick("<<", ">>", "**") + " " + fmt.Sprint(g.n(3)) + ")"
	case 4:
		return "(" + g.pick("-", "+", "~", "not ") + e() + ")"
	case 5, 6:
		// chained comparison
		s := "(" + e()
		for i, k := 0, 1+g.n(3); i < k; i++ {
			s += " " + g.pick("<", "<=", "==", "!=", ">", ">=", "is", "is not") + " " + e()
		}
		return s + ")"
	case 7:
		return "(" + e() + " " + g.pick("in", "not in") + " lst)"
	case 8, 9:
		s := "(" + e()
		for i, k := 0, 1+g.n(3); i < k; i++ {
			s += " " + g.pick("and", "or") + " " + e()
		}
		return s + ")"
	case 10, 11:
		return "(" + e() + " if " + e() + " else " + e() + ")"
	case 12:
		return "ident(" + e() + ")"
	case 13:
		if len(g.funcs) > 0 {
			f := g.funcs[g.n(len(g.funcs))]
			switch g.n(6) {
			case 0:
				return f + "(" + e() + ", " + e() + ")"
			case 1:
				return f + "(" + e() + ", b=" + e() + ")"
			case 2:
				return f + "(*lst)"
			case 3:
				return f + "(**dct)"
			case 4:
				return f + "(" + e() + ", *lst, **dct)"
			default:
				return f + "(a=" + e() + ", *lst)"
			}
		}
		return "ident(" + e() + ")"
	case 14:
		return "lst[" + e() + " % 3]"
	case 15:
		return g.pick("lst[1:]", "lst[:2]", "lst[::2]", "lst[:]", "lst["+e()+":"+e()+"]", "lst["+e()+":"+e()+":"+e()+"]", "lst[::-1]", "lst[0, 1:2]")
	case 16:
		return g.seqDisplay(c, d-1)
	case 17:
		return "{" + e() + ", " + e() + "}"
	case 18:
		return "{'a': " + e() + ", 'b': " + e() + "}"
	case 19:
		x := g.fresh("x")
		return "[" + g.exprWith(c, d-1, x) + " for " + x + " in range(" + fmt.Sprint(g.n(4)) + ")" + g.compIf(c, d, x) + "]"
	case 20:
		x, y := g.fresh("x"), g.fresh("y")
		return "[" + x + " + " + y + " for " + x + " in range(2) for " + y + " in lst" + g.compIf(c, d, y) + "]"
	case 21:
		x := g.fresh("x")
		return "{" + g.exprWith(c, d-1, x) + " for " + x + " in lst}"
	case 22:
		x := g.fresh("x")
		return "{str(" + x + "): " + g.exprWith(c, d-1, x) + " for " + x + " in range(3)" + g.compIf(c, d, x) + "}"
	case 23:
		x := g.fresh("x")
		return g.pick("list", "sum", "tuple") + "(" + g.exprWith(c, d-1, x) + " for " + x + " in range(3)" + g.compIf(c, d, x) + ")"
	case 24:
		x := g.fresh("x")
		return "(lambda " + x + g.pick(", y="+e(), ", y=1, *a", ", y=2, *a, k="+e()+", **kw", ", *, y="+e()) + ": " + x + " + y)(" + e() + ")"
	case 25:
		return "(lambda: " + e() + ")()"
	case 26:
		if c.isGen || (g.wild && g.p(2)) {
			return "(yield " + e() + ")"
		}
		return "cm.s"
	case 27:
		return "[[" + e() + " for _a in range(2)] for _b in range(2)]"
	case 28:
		return g.pick("dct['a']", "dct.get('zz')", "str("+e()+")", "abs("+e()+")", "max("+e()+", "+e()+")")
	default:
		return e()
	}
}

func (g *pgen) seqDisplay(c ctx, d int) string {
	k := g.n(4)
	var xs []string
	for i := 0; i < k; i++ {
		xs = append(xs, g.expr(c, d))
	}
	if g.p(50) {
		return "[" + strings.Join(xs, ", ") + "]"
	}
	if k == 1 {
		return "(" + xs[0] + ",)"
	}
	return "(" + strings.Join(xs, ", ") + ")"
}

func (g *pgen) exprWith(c ctx, d int, v string) string {
	if g.p(40) {
		return v
	}
	return "(" + v + " " + g.pick("+", "*", "-") + " " + g.expr(c, d) + ")"
}

func (g *pgen) compIf(c ctx, d int, v string) string {
	switch g.n(4) {
	case 0:
		return " if " + v + " % 2"
	case 1:
		return " if " + v + " if " + g.expr(c, 0)
	}
	return ""
}

func (g *pgen) block(c ctx, minStmts int) {
	g.ind++
	c.depth++
	k := minStmts + g.n(2)
	if k == 0 {
		k = 1
	}
	for i := 0; i < k; i++ {
		g.stmt(c)
	}
	g.ind--
}

var excClasses = []string{"ValueError", "KeyError", "ZeroDivisionError", "TypeError", "LookupError", "ArithmeticError", "Exception", "IndexError", "NameError", "(KeyError, ValueError)", "AttributeError"}

func (g *pgen) simple(c ctx) {
	e := func(d int) string { return g.expr(c, d) }
	switch g.n(26) {
	case 0, 1, 2:
		g.line("%s = %s", g.ivar(), e(1+g.n(2)))
	case 3, 4:
		g.line("%s %s= %s", g.ivar(), g.pick("+", "-", "*", "//", "%", "&", "|", "^", "<<", ">>", "**"), e(1))
	case 5:
		g.line("lst[%s %% 3] %s= %s", e(0), g.pick("+", "-", "*"), e(1))
	case 6:
		g.line("cm.s %s= %s", g.pick("+", "-", "|"), e(1))
	case 7:
		g.line("dct['a'] %s= %s", g.pick("+", "*"), e(1))
	case 8:
		g.line("%s = %s = %s", g.ivar(), g.ivar(), e(2))
	case 9:
		g.line("%s, %s = %s, %s", g.ivar(), g.ivar(), e(1), e(1))
	case 10:
		g.line("%s", g.pick("v0, *v1 = lst", "*v0, v1 = lst", "v0, *v1, v2 = 1, 2, 3, 4", "[v0, v1], v2 = (1, 2), 3", "(v0, v1) = lst[0:2]", "v0, (v1, *v2) = 1, (2, 3, 4)"))
	case 11:
		g.line("lst[%s %% 3] = %s", e(0), e(1))
	case 12:
		g.line("dct[%s] = %s", g.pick("'a'", "'b'", "'c'"), e(1))
	case 13:
		g.line("ident(%s)", e(2))
	case 14:
		g.line("%s", e(2))
	case 15:
		g.line("assert %s%s", e(1), g.pick("", ", 'msg'", ", "+e(0)))
	case 16:
		g.line("del %s", g.pick("v3", "lst[0]", "dct['b']", "lst[0:1]", "cm.s", "v2, v3", "lst[::2]"))
	case 17:
		g.line("lst = %s", g.pick("[1, 2, 3]", "[v0, v1, v2]", "list(range(4))", "[0] * 3"))
	case 18:
		g.line("raise %s", g.pick("ValueError('x')", "KeyError", "ZeroDivisionError()", "TypeError('t') from None", "ValueError('a') from KeyError('b')", "IndexError"))
	case 19:
		g.line("boom()")
	case 20:
		g.line("pass")
	case 21:
		g.line("lst.append(%s)", e(1))
	case 22:
		g.line("cm = CM(%s)", g.pick("0", "1", "True", "False"))
	case 23:
		g.line("v0 = %s // %s", e(1), e(0))
	case 24:
		if c.isGen {
			g.line("%s", g.pick("yield", "yield "+e(1), "v1 = yield "+e(1), "yield from range(2)", "v2 = yield from sub()", "yield from [v0, v1]"))
		} else {
			g.line("%s += 1", g.ivar())
		}
	default:
		g.line("%s = %s", g.ivar(), e(2))
	}
}

func (g *pgen) exits(c ctx) {
	// statements that leave the current construct; placed according to the context, and in "wild"
	// programs anywhere (the compiler must reject what the language forbids)
	var opts []string
	if c.loops > 0 || (g.wild && c.guarded > 0) {
		opts = append(opts, "break", "break")
		if c.loops > 0 && (!c.inFinal || (g.wild && g.p(10))) {
			opts = append(opts, "continue", "continue")
		} else if g.wild && g.p(5) {
			opts = append(opts, "continue")
		}
	}
	if c.inFunc || (g.wild && g.p(3)) {
		if c.isGen {
			opts = append(opts, "return")
		} else {
			opts = append(opts, "return "+g.expr(c, 1), "return")
		}
	}
	opts = append(opts, "raise "+g.pick("ValueError('v')", "KeyError('k')", "ZeroDivisionError"))
	if c.guarded > 0 {
		opts = append(opts, "raise")
	}
	g.line("%s", opts[g.n(len(opts))])
}

func (g *pgen) stmt(c ctx) {
	if c.depth >= 5 || g.nstmt > g.limit {
		g.simple(c)
		return
	}
	switch g.n(34) {
	case 0, 1:
		g.line("if %s:", g.expr(c, 2))
		g.block(c, 1)
		for g.p(30) {
			g.line("elif %s:", g.expr(c, 1))
			g.block(c, 1)
		}
		if g.p(50) {
			g.line("else:")
			g.block(c, 1)
		}
	case 2, 3:
		x := g.pick("v0", "v1", "i", "j")
		switch g.n(4) {
		case 0:
			g.line("for %s in range(%d):", x, g.n(4))
		case 1:
			g.line("for %s in lst:", x)
		case 2:
			g.line("for i, %s in enumerate(lst):", x)
		default:
			g.line("for %s in %s:", x, g.seqDisplay(c, 0))
		}
		lc := c
		lc.loops++
		lc.inFinal = false
		g.block(lc, 1)
		if g.p(30) {
			g.line("else:")
			g.block(c, 1)
		}
	case 4, 5:
		w := g.fresh("w")
		g.line("%s = %d", w, 1+g.n(3))
		if g.p(20) {
			g.line("while True:")
			g.ind++
			g.line("%s -= 1", w)
			g.line("if %s < 0:", w)
			g.ind++
			g.line("break")
			g.ind -= 2
		} else {
			g.line("while %s > 0%s:", w, g.pick("", " and "+g.expr(c, 1), " or False"))
			g.ind++
			g.line("%s -= 1", w)
			g.ind--
		}
		lc := c
		lc.loops++
		lc.inFinal = false
		g.block(lc, 1)
		if g.p(30) {
			g.line("else:")
			g.block(c, 1)
		}
	case 6, 7, 8, 9:
		// try statement in all its shapes
		tc := c
		tc.guarded++
		g.line("try:")
		g.block(tc, 1)
		hasExcept := g.p(70)
		if hasExcept {
			for i, k := 0, 1+g.n(3); i < k; i++ {
				cls := excClasses[g.n(len(excClasses))]
				switch g.n(3) {
				case 0:
					g.line("except %s:", cls)
				case 1:
					g.line("except %s as exc:", cls)
				default:
					g.line("except %s as %s:", cls, g.ivar())
				}
				g.block(tc, 1)
			}
			if g.p(25) {
				g.line("except:")
				g.block(tc, 1)
			}
			if g.p(35) {
				g.line("else:")
				g.block(tc, 1)
			}
		}
		if !hasExcept || g.p(45) {
			g.line("finally:")
			fc := c
			fc.inFinal = true
			fc.guarded++
			g.block(fc, 1)
		}
	case 10, 11, 12:
		wc := c
		wc.guarded++
		switch g.n(5) {
		case 0:
			g.line("with CM(%s):", g.pick("0", "1"))
		case 1:
			g.line("with CM(%s) as cm:", g.pick("0", "1", "v0"))
		case 2:
			g.line("with CM(0) as cm, CM(1) as c2:")
		case 3:
			g.line("with CM(1), CM(0) as cm:")
		default:
			g.line("with cm:")
		}
		g.block(wc, 1)
	case 13, 14, 15, 16:
		g.exits(c)
	case 17:
		if c.depth <= 3 {
			g.funcDef(c, false)
		} else {
			g.simple(c)
		}
	case 18:
		if c.depth <= 2 {
			g.classDef(c)
		} else {
			g.simple(c)
		}
	case 19:
		if c.inFunc {
			g.line("gl %s= %s", g.pick("", "+", "-"), g.expr(c, 1))
		} else {
			g.line("%s", g.pick("import math", "from math import pi, e as E", "import math as m", "from math import *"))
		}
	default:
		g.simple(c)
	}
}

func (g *pgen) params() string {
	return g.pick("a, b", "a, b", "a, b", "a, b=2", "a=1, b=2", "a, b=2, *args", "a, b=2, **kw", "a, b=2, *args, k=3, **kw", "a, *, b=2", "a, b=2, *, k, j=4",
		"a: int, b: 'ann' = 2", "a, b: int = 2, *args: 'va', k: int = 3, **kw: 'kwa'")
}

func (g *pgen) funcDef(c ctx, top bool) string {
	name := g.fresh("f")
	isGen := g.p(30)
	params := g.params()
	ret := ""
	if g.p(15) {
		ret = " -> " + g.pick("int", "'r'", "None")
	}
	// decorators mostly on functions without defaults or annotations (the others fail at definition time
	// on the present tree and would end the program early)
	ndeco := 3
	if params == "a, b" && ret == "" {
		ndeco = 40
	}
	for g.p(ndeco) {
		g.line("@%s", g.pick("ident", "deco(1)", "ident"))
	}
	g.line("def %s(%s)%s:", name, params, ret)
	fc := ctx{inFunc: true, isGen: isGen, depth: c.depth}
	g.ind++
	if g.p(30) {
		g.line("%s", g.pick("'''doc'''", "'doc string'"))
	}
	if c.inFunc && g.p(50) {
		g.line("nonlocal v0")
	}
	if g.p(50) {
		g.line("global gl")
	}
	g.line("v1 = a")
	g.line("v2 = v3 = 0")
	g.line("lst = [1, 2, 3]")
	g.line("dct = {'a': 1, 'b': 2}")
	g.line("cm = CM(0)")
	if !c.inFunc {
		g.line("v0 = b")
	}
	if isGen {
		g.line("yield v1")
	}
	g.ind--
	g.block(fc, 2)
	g.ind++
	if g.p(40) {
		// closure over locals
		in := g.fresh("g")
		g.line("def %s(z=v1, *r):", in)
		g.ind++
		g.line("nonlocal v2")
		g.line("v2 += z")
		g.line("return v2 + v1 + len(lst)")
		g.ind--
		g.line("v3 = %s(%s)", in, g.expr(fc, 1))
	}
	if !isGen {
		g.line("return %s", g.expr(fc, 2))
	} else if g.p(50) {
		g.line("yield %s", g.expr(fc, 1))
	}
	g.ind--
	if top {
		if isGen {
			g.gens = append(g.gens, name)
		} else {
			g.funcs = append(g.funcs, name)
		}
	}
	return name
}

func (g *pgen) classDef(c ctx) {
	name := g.fresh("K")
	base := g.pick("", "", "(object)", "(CM)", "(Base)", "(Base, metaclass=type)")
	if g.p(15) {
		g.line("@ident")
	}
	g.line("class %s%s:", name, base)
	g.ind++
	if g.p(30) {
		g.line("'''class doc'''")
	}
	g.line("attr = %s", g.expr(c, 1))
	g.line("def __init__(self, s=0):")
	g.ind++
	if strings.HasPrefix(base, "(CM") || strings.HasPrefix(base, "(Base") {
		g.line("%s", g.pick("Base.__init__(self, s)", "self.s = s", "CM.__init__(self, s)"))
	}
	g.line("self.s = s")
	g.line("self.k = __class__" + g.pick("", ".attr"))
	g.ind--
	g.line("def m(self, a, b=1):")
	mc := ctx{inFunc: true, depth: c.depth + 1}
	g.ind++
	g.line("v0 = v1 = v2 = v3 = a")
	g.line("lst = [a, b, 3]")
	g.line("dct = {'a': a}")
	g.line("cm = self")
	g.ind--
	g.block(mc, 1)
	g.ind++
	g.line("return v0")
	g.ind--
	if g.p(40) {
		g.line("%s", g.pick("@staticmethod", "@classmethod"))
		g.line("def sm(*a, **k):")
		g.ind++
		g.line("return len(a)")
		g.ind--
	}
	if g.p(30) {
		// class-level control flow
		cc := ctx{depth: c.depth + 1}
		g.line("for _i in range(2):")
		g.block(cc, 1)
	}
	g.ind--
	g.line("try:")
	g.ind++
	g.line("v3 = %s(1).m(%s)", name, g.expr(c, 1))
	g.ind--
	g.line("except Exception:")
	g.ind++
	g.line("pass")
	g.ind--
}

const prelude = `class Base:
    def __init__(self, s=0):
        self.s = s
class CM(Base):
    def __enter__(self):
        return self
    def __exit__(self, t, v, tb):
        return self.s
def ident(x):
    return x
def deco(n):
    def wrap(f):
        return f
    return wrap
def boom():
    raise ValueError('boom')
def sub():
    x = yield 1
    return 2
v0 = 1
v1 = 2
v2 = 3
v3 = 4
gl = 0
lst = [1, 2, 3]
dct = {'a': 1, 'b': 2}
cm = CM(0)
`

// program builds one program of the given family.
func program(rng *rand.Rand, family string) string {
	g := &pgen{rng: rng, limit: 70}
	g.b.WriteString(prelude)
	g.wild = family == "wild"
	top := ctx{}
	switch family {
	case "ctl", "wild":
		for i, k := 0, 1+g.n(2); i < k; i++ {
			g.funcDef(top, true)
		}
		for i, k := 0, 1+g.n(3); i < k; i++ {
			g.stmt(top)
		}
	case "expr":
		g.funcDef(top, true)
		for i, k := 0, 4+g.n(6); i < k; i++ {
			g.simple(top)
		}
		g.line("v0 = %s", g.expr(top, 4))
	case "scope":
		g.classDef(top)
		g.funcDef(top, true)
	case "lines":
		// gaps in line numbers and long lines: multi-entry line table increments
		g.funcDef(top, true)
		g.b.WriteString(strings.Repeat("\n", 250+g.n(300)))
		g.line("v0 = %s", g.expr(top, 3))
		var xs []string
		for i, n := 0, 180+g.n(140); i < n; i++ { // 540..960 bytes of code on one line
			xs = append(xs, g.expr(top, 0))
		}
		g.line("lst = [%s]", strings.Join(xs, ", "))
		g.b.WriteString(strings.Repeat("#\n", g.n(300)))
		g.line("v1 = (%s +\n\n\n  %s)", g.expr(top, 2), g.expr(top, 2))
		g.stmt(top)
	}
	// drive what was defined
	for _, f := range g.funcs {
		g.line("try:")
		g.ind++
		g.line("v3 = %s(%d, %d)", f, g.n(3), g.n(3))
		g.line("v3 = %s(1, b=0)", f)
		g.ind--
		g.line("except Exception as exc:")
		g.ind++
		g.line("v3 = -1")
		g.ind--
	}
	for _, f := range g.gens {
		g.line("try:")
		g.ind++
		g.line("it = %s(%d, 1)", f, g.n(3))
		g.line("v3 = next(it)")
		g.line("v3 = it.send(5)")
		g.line("for v2 in it:")
		g.ind++
		g.line("pass")
		g.ind -= 2
		g.line("except Exception as exc:")
		g.ind++
		g.line("v3 = -2")
		g.ind--
	}
	if family == "lines" {
		// the last statement of the file sits behind a gap of more than 255 lines: any surplus in the
		// accumulated line increments leaves the source
		g.b.WriteString(strings.Repeat("\n", 256+g.n(300)))
		g.b.WriteString("v2 = v0")
		if g.p(50) {
			g.b.WriteString("\n")
		}
	}
	return g.b.String()
}

func generate(rng *rand.Rand, n int) []*Source {
	fams := []string{"ctl", "ctl", "ctl", "ctl", "expr", "expr", "scope", "scope", "wild", "lines"}
	var out []*Source
	for i := 0; i < n; i++ {
		fam := fams[i%len(fams)]
		out = append(out, &Source{Name: fmt.Sprintf("gen_%s_%d.py", fam, i), Origin: "gen", Text: program(rng, fam), Run: true, Class: "gen:" + fam})
	}
	return out
}

// gridSources enumerates small control-flow shapes exhaustively: every exit statement (break, continue,
// return, raise) at every clause position (loop body, loop else, try body of try/finally and try/except,
// except body with and without a name, else of try, finally body, with body), alone and nested in every
// other clause position, inside a loop in a function.  Each shape is its own program (the compiler rejects
// some, e.g. continue in finally).  full = both kinds of outer loop.
func gridSources(full bool) []*Source {
	type clause struct {
		name string
		open func(ind string, hole func(ind string) string) string
	}
	clauses := []clause{
		{"loopbody", func(in string, h func(string) string) string { return in + "for j in [1, 2]:\n" + h(in+"    ") }},
		{"loopelse", func(in string, h func(string) string) string {
			return in + "for j in [1]:\n" + in + "    r += 1\n" + in + "else:\n" + h(in+"    ")
		}},
		{"tryfinally", func(in string, h func(string) string) string {
			return in + "try:\n" + h(in+"    ") + in + "finally:\n" + in + "    r += 1\n"
		}},
		{"tryexcept", func(in string, h func(string) string) string {
			return in + "try:\n" + h(in+"    ") + in + "except ValueError:\n" + in + "    r += 1\n"
		}},
		{"except", func(in string, h func(string) string) string {
			return in + "try:\n" + in + "    raise ValueError\n" + in + "except ValueError:\n" + h(in+"    ")
		}},
		{"exceptas", func(in string, h func(string) string) string {
			return in + "try:\n" + in + "    raise ValueError\n" + in + "except ValueError as e:\n" + h(in+"    ")
		}},
		{"tryelse", func(in string, h func(string) string) string {
			return in + "try:\n" + in + "    r += 1\n" + in + "except ValueError:\n" + in + "    pass\n" + in + "else:\n" + h(in+"    ")
		}},
		{"finally", func(in string, h func(string) string) string {
			return in + "try:\n" + in + "    r += 1\n" + in + "finally:\n" + h(in+"    ")
		}},
		{"with", func(in string, h func(string) string) string { return in + "with CM():\n" + h(in+"    ") }},
	}
	exits := []string{"break", "continue", "return r", "raise KeyError"}
	outers := []string{"for i in [1, 2, 3]:"}
	if full {
		outers = append(outers, "while i < 3:")
	}
	const head = "class CM:\n    def __enter__(self):\n        return self\n    def __exit__(self, t, v, tb):\n        return False\n"
	var out []*Source
	emit := func(name, outer, body string) {
		var b strings.Builder
		b.WriteString(head + "def g(a):\n    r = 0\n    i = 0\n    " + outer + "\n        i += 1\n" + body + "        r += 10\n    return r\n")
		b.WriteString("for a in [0, 1, 2]:\n    try:\n        g(a)\n    except KeyError:\n        pass\n")
		out = append(out, &Source{Name: name, Origin: "grid", Text: b.String(), Run: true, Class: "grid"})
	}
	for oi, outer := range outers {
		for _, ex := range exits {
			leaf := func(in string) string { return in + "if a == i:\n" + in + "    " + ex + "\n" + in + "r += 1\n" }
			for _, c1 := range clauses {
				emit(fmt.Sprintf("grid_%d_%s_%s.py", oi, c1.name, strings.Fields(ex)[0]), outer, c1.open("        ", leaf))
				for _, c2 := range clauses {
					c2 := c2
					emit(fmt.Sprintf("grid_%d_%s_%s_%s.py", oi, c1.name, c2.name, strings.Fields(ex)[0]), outer,
						c1.open("        ", func(in string) string { return c2.open(in, leaf) }))
				}
			}
		}
	}
	return out
}

// shallowSources: every block-creating construct ALONE (and every pair nested) in code that needs as little evaluation
// stack as Python allows - bodies of one shallow statement, at module level and as the only statement of a function.
// The declared stack size is tight exactly there: an enclosing or preceding block, or a body statement that needs two
// slots, leaves slack that hides an under-estimate of one slot (found by an independently seeded change: SETUP_WITH's
// stack effect lowered by one only shows for `with q: f()` whose __exit__ swallows an exception).  Context managers
// come in the three kinds that matter to WITH_CLEANUP: __exit__ false, __exit__ true (swallows), __enter__ value used.
func shallowSources() []*Source {
	const head = "class CM:\n    def __init__(self, s):\n        self.s = s\n    def __enter__(self):\n        return self\n    def __exit__(self, t, v, tb):\n        return self.s\ndef f():\n    pass\ndef boom():\n    raise KeyError\nx = 0\nq = CM(False)\nqs = CM(True)\n"
	type cons struct {
		name string
		open func(in string, body string) string
	}
	conses := []cons{
		{"with", func(in, b string) string { return in + "with q:\n" + b }},
		{"withswallow", func(in, b string) string { return in + "with qs:\n" + b }},
		{"withas", func(in, b string) string { return in + "with qs as w:\n" + b }},
		{"with2", func(in, b string) string { return in + "with q, qs:\n" + b }},
		{"tryfinally", func(in, b string) string { return in + "try:\n" + b + in + "finally:\n" + in + "    pass\n" }},
		{"tryexcept", func(in, b string) string { return in + "try:\n" + b + in + "except KeyError:\n" + in + "    pass\n" }},
		{"tryexceptas", func(in, b string) string {
			return in + "try:\n" + b + in + "except KeyError as e:\n" + in + "    pass\n"
		}},
		{"trybare", func(in, b string) string { return in + "try:\n" + b + in + "except:\n" + in + "    pass\n" }},
		{"tryexceptelse", func(in, b string) string {
			return in + "try:\n" + in + "    pass\n" + in + "except KeyError:\n" + in + "    pass\n" + in + "else:\n" + b
		}},
		{"tryexceptfinally", func(in, b string) string {
			return in + "try:\n" + b + in + "except KeyError:\n" + in + "    pass\n" + in + "finally:\n" + in + "    pass\n"
		}},
		{"handler", func(in, b string) string { return in + "try:\n" + in + "    boom()\n" + in + "except KeyError:\n" + b }},
		{"finalbody", func(in, b string) string { return in + "try:\n" + in + "    pass\n" + in + "finally:\n" + b }},
		{"for", func(in, b string) string { return in + "for i in (1, 2):\n" + b }},
		{"forelse", func(in, b string) string { return in + "for i in ():\n" + in + "    pass\n" + in + "else:\n" + b }},
		{"while", func(in, b string) string { return in + "while x:\n" + b }},
	}
	bodies := []string{"pass", "x", "f()", "boom()", "raise KeyError", "x = 1", "return", "del x"}
	// the constructs that also appear as the INNER one of a nested pair
	inner := map[string]bool{"with": true, "withswallow": true, "tryfinally": true, "tryexcept": true, "for": true}
	var out []*Source
	emit := func(name, text string, fn bool) {
		var b strings.Builder
		b.WriteString(head)
		if fn {
			b.WriteString("def g():\n" + text + "try:\n    g()\nexcept KeyError:\n    pass\nexcept NameError:\n    pass\n")
		} else {
			b.WriteString("try:\n" + text + "except KeyError:\n    pass\nexcept NameError:\n    pass\n")
		}
		out = append(out, &Source{Name: name, Origin: "shallow", Text: b.String(), Run: true, Class: "shallow"})
	}
	for _, c1 := range conses {
		for bi, body := range bodies {
			if body == "return" {
				emit(fmt.Sprintf("shallow_fn_%s_%d.py", c1.name, bi), c1.open("    ", "        "+body+"\n"), true)
				continue
			}
			emit(fmt.Sprintf("shallow_fn_%s_%d.py", c1.name, bi), c1.open("    ", "        "+body+"\n"), true)
			// at module level the construct is the first block of the code object only without the guarding try: run it bare too
			out = append(out, &Source{Name: fmt.Sprintf("shallow_mod_%s_%d.py", c1.name, bi), Origin: "shallow",
				Text: head + c1.open("", "    "+body+"\n"), Run: true, Class: "shallow"})
			for _, c2 := range conses {
				if !inner[c2.name] {
					continue
				}
				emit(fmt.Sprintf("shallow_fn_%s_%s_%d.py", c1.name, c2.name, bi), c1.open("    ", c2.open("        ", "            "+body+"\n")), true)
			}
		}
	}
	return out
}

// probeSources: fixed programs for corners the random families reach rarely.
func probeSources(env *common.Env) []*Source {
	var out []*Source
	add := func(name, text string) {
		out = append(out, &Source{Name: name, Origin: "probe", Text: text, Run: true, Class: "probe"})
	}
	// absolute jump targets beyond 65535: EXTENDED_ARG on POP_JUMP_IF_FALSE / JUMP_ABSOLUTE.  (Relative jumps
	// of that size, and short relative jumps behind an instruction that grows, make the assembler panic;
	// that is C11's business - such programs are not accepted and so are not part of C12's domain.)
	var b strings.Builder
	b.WriteString("v = 1\n")
	for i := 0; i < 11000; i++ {
		b.WriteString("v = 2\n")
	}
	b.WriteString("w = 3\nwhile w:\n    w -= 1\n    v = w\n    v = w\nfor w in [1, 2]:\n    v = w\n    v = w\n    v = w\n    v = w\n")
	add("probe_extended_jump.py", b.String())
	// EXTENDED_ARG on MAKE_FUNCTION (annotations) and MAKE_CLOSURE
	add("probe_annotations.py", "def outer(q):\n    def f(a: int, b: 'x' = 1, *c: 2, d: 3 = 4, **e: 5) -> 6:\n        return a + b + q\n    return f(1)\nr = outer(2)\ndef g(a: 1) -> 2: return a\ng(3)\n")
	// 11 nested try/except/finally statements need 22 blocks at run time
	{
		var d strings.Builder
		for i := 0; i < 11; i++ {
			d.WriteString(strings.Repeat(" ", i) + "try:\n")
		}
		d.WriteString(strings.Repeat(" ", 11) + "pass\n")
		for i := 10; i >= 0; i-- {
			d.WriteString(strings.Repeat(" ", i) + "except ValueError:\n" + strings.Repeat(" ", i+1) + "pass\n")
			d.WriteString(strings.Repeat(" ", i) + "finally:\n" + strings.Repeat(" ", i+1) + "pass\n")
		}
		out = append(out, &Source{Name: "probe_nest_try_11.py", Origin: "probe", Text: d.String(), Run: true, Class: "probe"})
	}
	// loop exits where only a try or with block, not a loop, encloses them
	add("probe_break_in_try.py", "def f():\n    try:\n        break\n    finally:\n        pass\n")
	add("probe_break_in_with.py", "class CM:\n    def __enter__(self): return self\n    def __exit__(self, *a): return False\ndef f():\n    with CM():\n        break\n")
	add("probe_break_in_except.py", "def f():\n    try:\n        pass\n    except ValueError:\n        break\n")
	add("probe_continue_in_try.py", "def f():\n    try:\n        continue\n    finally:\n        pass\n")
	add("probe_break_in_finally.py", "def f():\n    try:\n        pass\n    finally:\n        break\n")
	// decorated functions with defaults, keyword-only defaults, annotations, closures
	add("probe_decorated.py", "def ident(x):\n    return x\ntry:\n    @ident\n    def f1(a, b=1):\n        return a\n    f1(1)\nexcept TypeError:\n    pass\ndef outer(q):\n    @ident\n    def f2(a, *, k=2):\n        return a + q\n    return f2\n@ident\ndef f3(a: int) -> int:\n    return a\n")
	// deep block nesting (CO_MAXBLOCKS is 20)
	for _, depth := range []int{19, 20, 21} {
		var d strings.Builder
		for i := 0; i < depth; i++ {
			d.WriteString(strings.Repeat(" ", i) + "while 1:\n")
		}
		d.WriteString(strings.Repeat(" ", depth) + "break\n")
		out = append(out, &Source{Name: fmt.Sprintf("probe_nest_%d.py", depth), Origin: "probe", Text: d.String(), Run: false, Class: "probe"})
	}
	return out
}

// replaySources: --replay <file> re-checks the source recorded in a replay file.
func replaySources(env *common.Env) []*Source {
	b, err := os.ReadFile(env.Replay)
	if err != nil {
		common.Inconclusive("property=C12 cannot read replay %s: %v", env.Replay, err)
	}
	var r struct {
		Case struct {
			Repro map[string]string `json:"repro"`
		} `json:"case"`
	}
	if err := json.Unmarshal(b, &r); err != nil {
		common.Inconclusive("property=C12 replay %s does not parse: %v", env.Replay, err)
	}
	if src := r.Case.Repro["source"]; src != "" {
		return []*Source{{Name: "replay.py", Origin: "gen", Text: src, Run: true, Class: "replay"}}
	}
	if f := r.Case.Repro["file"]; f != "" {
		for _, s := range append(repoSources(env), probeSources(env)...) {
			if s.Name == f {
				return []*Source{s}
			}
		}
	}
	common.Inconclusive("property=C12 replay %s names no source", env.Replay)
	return nil
}
