#!/root/.pyenv/versions/3.11.7/bin/python3
"""DEVELOPMENT AID ONLY -- never run by bin/check.

Validates the PREDICTIONS OF THE SPECIFICATION (spec/C03/PyScope.tla) against CPython 3.11 in
order to find mistakes in the TLA+ text: reads the file written by `C03_DUMP=<file> bin/check C03 ..`
(rendered program, spec's reject flag, classification, log) and reports every program on which
CPython disagrees with the specification.  Known 3.4/3.11 deltas for this family: none
(use-before-global is a SyntaxError in 3.11 and C03 states it is rejected).
"""
import json, sys, symtable, io, contextlib, collections
PRO = open(sys.argv[2]).read() if len(sys.argv) > 2 else None
SC = {1: "local", 2: "global_explicit", 3: "global_implicit", 4: "free", 5: "cell"}
PROLOGUE = ("LOG = []\nFNS = []\ndef L(v):\n    LOG.append(v)\n    return v\ndef REG(f, a):\n    FNS.append([f, a])\n    return f\n"
            "CLSS = []\ndef REGC(c, n):\n    CLSS.append([c, n])\ndef CN(c):\n    i = len(CLSS) - 1\n    while i >= 0:\n        if CLSS[i][0] is c:\n            return CLSS[i][1]\n        i -= 1\n    return 'unregistered'\n")
EPILOGUE = "i_ = 0\nn_ = len(FNS)\nwhile i_ < n_:\n    p_ = FNS[i_]\n    try:\n        p_[0](**p_[1])\n    except NameError:\n        L('NameError')\n    i_ += 1\n"
bad = collections.Counter(); n = 0
for line in open(sys.argv[1]):
    r = json.loads(line); n += 1
    src = r["src"]
    try:
        top = symtable.symtable(src, "<s>", "exec"); rejected = False
    except SyntaxError:
        rejected = True
    if rejected != r["reject"]:
        bad["reject"] += 1
        if bad["reject"] <= 3: print("REJECT differs: spec", r["reject"], "cpython", rejected, "\n" + src)
        continue
    if rejected: continue
    tabs = []
    def walk(t):
        tabs.append(t)
        for c in t.get_children(): walk(c)
    walk(top)
    if len(tabs) != len(r["cls"]):
        bad["blocks"] += 1; print("BLOCKS differ\n" + src); continue
    for i, t in enumerate(tabs):
        for nm in r["names"]:
            try: got = SC.get((t.lookup(nm)._Symbol__flags >> 11) & 7, "-")
            except KeyError: got = "-"
            if got != r["cls"][i][nm]:
                bad["cls"] += 1
                if bad["cls"] <= 5: print("CLS differs block", i + 1, nm, "spec", r["cls"][i][nm], "cpython", got, "\n" + src)
    g = {}
    try:
        exec(compile(PROLOGUE, "<p>", "exec"), g); exec(compile(src, "<s>", "exec"), g); exec(compile(EPILOGUE, "<e>", "exec"), g)
        log = g["LOG"]
    except Exception as e:
        log = ["EXC " + type(e).__name__]
    if log != r["log"]:
        bad["log"] += 1
        if bad["log"] <= 5: print("LOG differs: spec", r["log"], "cpython", log, "\n" + src)
print(n, "programs;", dict(bad) or "no disagreement")
