SPECIFICATION Spec
CONSTANTS
  Mods = {"ma", "mb", "mc"}
  Family = "graph3"
INVARIANTS TypeOK RunOnce NoReentry OneObject Provenance StarRespectsUnderscore Terminates Usable Emit
CHECK_DEADLOCK FALSE
