------------------------------- MODULE MCGen -------------------------------
(* Body templates and bounded instances of PyGen.                                              *)
(* Every template has a name that says which features of C05 it exercises; finding keys are    *)
(* built from these names. Templates 1..10 are the ones of the validated prototype.             *)
EXTENDS PyGen

L(n) == [k |-> "log", n |-> n]
Y(v) == [k |-> "yield", v |-> v]
R(v) == [k |-> "recv", v |-> v]
Ret(v) == [k |-> "ret", v |-> v]
Raise == [k |-> "raise"]
Inc == [k |-> "inc"]
YLoc == [k |-> "yloc"]
Loop(n, b) == [k |-> "loop", n |-> n, body |-> b]
TryF(b, f) == [k |-> "tryf", body |-> b, fin |-> f]
YF(b) == [k |-> "yf", b |-> b, then |-> ""]
YFRet(b) == [k |-> "yf", b |-> b, then |-> "ret"]          \* r = yield from T; log r; return r
YFUnpack(b) == [k |-> "yf", b |-> b, then |-> "unpack"]    \* q, r = yield from T; log [q, r]
RetV(val) == [k |-> "retv", val |-> val]
RStop(v) == [k |-> "rstop", v |-> v]                        \* raise StopIteration(v)

Templates == <<
  [name |-> "plain",            ss |-> << L(1), Y(10), L(2), Y(11), L(3) >>],
  [name |-> "loop_recv_ret",    ss |-> << Loop(2, << R(20) >>), Ret(5) >>],
  [name |-> "try_yield_finally", ss |-> << TryF(<< Y(30), L(4) >>, << L(5) >>), Y(31) >>],
  [name |-> "raise_mid",        ss |-> << Y(40), Raise, Y(41) >>],
  [name |-> "yf_returning",     ss |-> << YF(9), L(6) >>],
  [name |-> "try_yf_raising",   ss |-> << TryF(<< YF(10) >>, << L(8) >>) >>],
  [name |-> "return_only",      ss |-> << Ret(9) >>],
  [name |-> "yield_in_finally_pending_exc", ss |-> << R(70), TryF(<< Raise >>, << Y(71) >>), L(9) >>],
  [name |-> "yield_then_return", ss |-> << Y(50), Ret(7) >>],
  [name |-> "recv_then_raise",  ss |-> << R(60), Raise >>],
  [name |-> "locals_in_loop",   ss |-> << Loop(3, << Inc, YLoc >>), L(7) >>],
  [name |-> "return_in_try_yield_in_finally", ss |-> << Loop(2, << TryF(<< R(80), Ret(3) >>, << Y(81), L(10) >>) >>), L(11) >>],
  [name |-> "yf_nested",        ss |-> << YF(5), Y(90) >>],
  [name |-> "yf_recv_loop",     ss |-> << YF(2), R(91) >>],
  \* 15..19: structured return values (a tuple of any shape is one value); 20..24 one hop, 25..29 two hops of
  \* yield from handing the value on; 30..33 the value unpacked
  [name |-> "ret_empty_tuple",  ss |-> << Y(100), RetV(TupleV(<<>>)) >>],
  [name |-> "ret_1tuple",       ss |-> << Y(101), RetV(TupleV(<< IntV(7) >>)) >>],
  [name |-> "ret_pair",         ss |-> << Y(102), RetV(TupleV(<< IntV(10), IntV(20) >>)) >>],
  [name |-> "ret_nested_tuple", ss |-> << Y(103), RetV(TupleV(<< TupleV(<< IntV(1), IntV(2) >>), IntV(3) >>)) >>],
  [name |-> "ret_list",         ss |-> << Y(104), RetV(ListV(<< IntV(10), IntV(20) >>)) >>],
  [name |-> "yf1_empty_tuple",  ss |-> << YFRet(15) >>],
  [name |-> "yf1_1tuple",       ss |-> << YFRet(16) >>],
  [name |-> "yf1_pair",         ss |-> << YFRet(17) >>],
  [name |-> "yf1_nested_tuple", ss |-> << YFRet(18) >>],
  [name |-> "yf1_list",         ss |-> << YFRet(19) >>],
  [name |-> "yf2_empty_tuple",  ss |-> << YFRet(20) >>],
  [name |-> "yf2_1tuple",       ss |-> << YFRet(21) >>],
  [name |-> "yf2_pair",         ss |-> << YFRet(22) >>],
  [name |-> "yf2_nested_tuple", ss |-> << YFRet(23) >>],
  [name |-> "yf2_list",         ss |-> << YFRet(24) >>],
  [name |-> "unpack_pair",      ss |-> << YFUnpack(17), L(12) >>],
  [name |-> "unpack_list",      ss |-> << YFUnpack(19), L(13) >>],
  [name |-> "unpack_pair_after_hop", ss |-> << YFUnpack(22), L(14) >>],
  [name |-> "unpack_nested_tuple", ss |-> << YFUnpack(18), L(15) >>],
  \* 34..38: the generator ends by RAISING StopIteration(v) itself (Python 3.4: that is how a generator ends, the value
  \* is what an enclosing yield from evaluates to) - the exception has travelled through Python code before the
  \* delegating generator sees it
  [name |-> "rstop_after_yield", ss |-> << Y(110), RStop(8) >>],
  [name |-> "yf1_rstop",        ss |-> << YFRet(34) >>],
  [name |-> "yf2_rstop",        ss |-> << YFRet(35) >>],
  [name |-> "rstop_in_try_finally", ss |-> << TryF(<< Y(111), RStop(6) >>, << L(16) >>) >>],
  [name |-> "yf1_rstop_try",    ss |-> << YFRet(37), L(17) >>]
>>
B == [i \in 1..Len(Templates) |-> Templates[i].ss]
BNames == [i \in 1..Len(Templates) |-> Templates[i].name]

\* number of templates in use (quick: 12, thorough: 14)
CONSTANT NB
AllTops == [1..NTop -> 1..NB]
\* the templates about structured return values: each driven alone (the other instances are an idle "plain")
ValueTemplates == 15..Len(Templates)
ValueTops == { [g \in 1..NTop |-> IF g = 1 THEN i ELSE 1] : i \in ValueTemplates }
TopsWithValues == AllTops \cup ValueTops

SendQuick == {NoneV, StrV("a")}
SendThorough == {NoneV, StrV("a"), StrV("b")}

\* ---- transparency of yield from: each delegating template next to its in-place form ----
RECURSIVE InlineSeq(_)
InlineStmt(s) == IF s.k = "yf" THEN [k |-> "inl", body |-> InlineSeq(B[s.b]), then |-> s.then]
                 ELSE IF s.k = "loop" THEN [s EXCEPT !.body = InlineSeq(s.body)]
                 ELSE IF s.k = "tryf" THEN [s EXCEPT !.body = InlineSeq(s.body), !.fin = InlineSeq(s.fin)]
                 ELSE s
InlineSeq(ss) == [i \in 1..Len(ss) |-> InlineStmt(ss[i])]
RECURSIVE HasYF(_)
HasYFStmt(s) == s.k = "yf" \/ (s.k = "loop" /\ HasYF(s.body)) \/ (s.k = "tryf" /\ (HasYF(s.body) \/ HasYF(s.fin)))
HasYF(ss) == \E i \in 1..Len(ss) : HasYFStmt(ss[i])
Delegating == { i \in 1..Len(B) : HasYF(B[i]) }
\* templates Len(B)+i is the in-place form of template i
BWithInline == [i \in 1..(2 * Len(B)) |-> IF i <= Len(B) THEN B[i] ELSE InlineSeq(B[i - Len(B)])]
LockTops == { <<i, i + Len(B)>> : i \in Delegating }
\* the design check: every template alone (instance 2 is an idle "plain"), and the lock-step pairs
DesignTops == LockTops \cup { <<i, 1>> : i \in 1..Len(B) }
\* quick: the delegating templates of the first 14, one representative of each way a structured value is handed on, and
\* the first 14 templates alone
QuickLockTops == { <<i, i + Len(B)>> : i \in (Delegating \cap 1..14) \cup {22, 28, 30, 31} }
QuickDesignTops == QuickLockTops \cup { <<i, 1>> : i \in 1..14 }
NoTops == {}

\* the header record the harness renders the generator definitions from
ASSUME PrintT(ToJson([rec |-> "bodies", names |-> BNames, bodies |-> B, nb |-> NB]))
=============================================================================
