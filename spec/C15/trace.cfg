SPECIFICATION Spec
INVARIANT TypeOK
CHECK_DEADLOCK FALSE
