---------------------------- MODULE PyGrammarGen ----------------------------
(* C06 case generation: bounded random trees x seeded spellings, with the specification's     *)
(* own consistency check Lex(Layout(Spell(tree))) = Spell(tree) (PyLex inverts the layout).   *)
EXTENDS PyGrammar, PyGrammarRec, Json

CONSTANTS Seed,        \* run seed (from VERIF_SEED)
          Kind,        \* "random": bounded random trees; "pairs" / "triples": every operator form nested in every operand slot
          NCases,      \* random: number of trees
          NSpell,      \* spellings per tree (the first one is plain: single blanks, no comments)
          ExprDepth,   \* nesting depth of expressions
          StmtDepth,   \* nesting depth of compound statements
          NMutants     \* single-token mutations per tree (rejection cases)

(* ---- statement sequences: what the parser keeps between two statements of one block ------------------------ *)
(* Kind = "stmtseq": every ordered pair of statement templates - every compound statement with each of its optional *)
(* clauses present and absent (if / else / elif / elif+else, while and for with and without else, the four try      *)
(* shapes, with and with-as) and three simple statements - as consecutive statements of the module (ctx 0) and as   *)
(* non-first statements of one block (ctx 1), in NSpell seeded spellings each (one-line or indented suites, blank    *)
(* lines, comments, semicolons).  A generated parser carries its semantic values in a stack whose slots are reused: *)
(* what one statement leaves behind must not become part of the next (found missing by an independently seeded      *)
(* change: the elif chain of an earlier statement turning up as the else part of a later one-line if).              *)
NTemplates == 17
LdN(n) == Nm(n, "Load")
XS(n) == ExprS(LdN(n))
Tmpl(i, n) ==     \* n = <<n1, n2, n3>>: the names this statement uses
  CASE i = 1 -> IfS(LdN(n[1]), <<XS(n[2])>>, <<>>)
    [] i = 2 -> IfS(LdN(n[1]), <<XS(n[2])>>, <<XS(n[3])>>)
    [] i = 3 -> IfS(LdN(n[1]), <<XS(n[2])>>, <<IfS(LdN(n[3]), <<XS(n[2])>>, <<>>)>>)
    [] i = 4 -> IfS(LdN(n[1]), <<XS(n[2])>>, <<IfS(LdN(n[3]), <<XS(n[2])>>, <<XS(n[1])>>)>>)
    [] i = 5 -> WhileS(LdN(n[1]), <<XS(n[2])>>, <<>>)
    [] i = 6 -> WhileS(LdN(n[1]), <<XS(n[2])>>, <<XS(n[3])>>)
    [] i = 7 -> ForS(Nm(n[1], "Store"), LdN(n[2]), <<XS(n[3])>>, <<>>)
    [] i = 8 -> ForS(Nm(n[1], "Store"), LdN(n[2]), <<XS(n[3])>>, <<XS(n[1])>>)
    [] i = 9 -> TryS(<<XS(n[1])>>, <<HandlerN(LdN(n[2]), "", <<XS(n[3])>>)>>, <<>>, <<>>)
    [] i = 10 -> TryS(<<XS(n[1])>>, <<HandlerN(NoneN, "", <<XS(n[2])>>)>>, <<XS(n[3])>>, <<>>)
    [] i = 11 -> TryS(<<XS(n[1])>>, <<>>, <<>>, <<XS(n[2])>>)
    [] i = 12 -> TryS(<<XS(n[1])>>, <<HandlerN(LdN(n[2]), "e", <<XS(n[3])>>)>>, <<>>, <<XS(n[1])>>)
    [] i = 13 -> WithS(<<WithItemN(LdN(n[1]), NoneN)>>, <<XS(n[2])>>)
    [] i = 14 -> WithS(<<WithItemN(LdN(n[1]), Nm(n[2], "Store"))>>, <<XS(n[3])>>)
    [] i = 15 -> XS(n[1])
    [] i = 16 -> PassS
    [] i = 17 -> AssignS(<<Nm(n[1], "Store")>>, LdN(n[2]))
SeqTree(a, b, ctx) ==
  LET two == <<Tmpl(a, <<"a", "b", "c">>), Tmpl(b, <<"x", "y", "a">>)>> IN
  ModuleM(IF ctx = 0 THEN two ELSE <<WhileS(LdN("b"), <<PassS>> \o two, <<>>)>>)

(* slots of all forms / of the level representatives, as <<form, slot>> *)
Slots == { <<f, k>> : f \in 1..NForms, k \in 1..3 } \cap { p \in (1..NForms) \X (1..3) : p[2] <= FormArity(p[1]) }
LevelSlots == { p \in Slots : \E i \in 1..Len(LevelForms) : LevelForms[i] = p[1] }
Universe ==
  IF Kind = "random" THEN 1..NCases
  ELSE IF Kind = "stmtseq" THEN { <<a, b, ctx>> : a \in 1..NTemplates, b \in 1..NTemplates, ctx \in 0..1 }
  ELSE IF Kind = "pairs" THEN { <<p[1], p[2], g>> : p \in Slots, g \in 1..NForms }
  ELSE { <<p[1], p[2], q[1], q[2], LevelForms[e]>> : p \in LevelSlots, q \in LevelSlots, e \in 1..Len(LevelForms) }
CaseNo(u) == IF Kind = "random" THEN u
             ELSE IF Kind = "stmtseq" THEN (u[1] * 20 + u[2]) * 2 + u[3]
             ELSE IF Kind = "pairs" THEN (u[1] * 3 + u[2]) * 40 + u[3]
             ELSE (((u[1] * 3 + u[2]) * 40 + u[3]) * 3 + u[4]) * 40 + u[5]
CaseTree(u) ==
  IF Kind = "random" THEN
       LET h == H0(Seed, u) IN
       IF u % 4 = 0 THEN ExpressionM(GenE(ExprDepth, Fork(h, 1)))
       ELSE ModuleM(GenBody(ExprDepth - (u % 2), StmtDepth, Fork(h, 1)))
  ELSE IF Kind = "stmtseq" THEN SeqTree(u[1], u[2], u[3])
  ELSE IF Kind = "pairs" THEN ExpressionM(PairTree(u[1], u[2], u[3]))
  ELSE ExpressionM(TripleTree(u[1], u[2], u[3], u[4], u[5]))

Spelling(tree, n, j) ==
  LET h    == Fork(H0(Seed + 7, n), j)
      lay  == [plain |-> j = 1, ff |-> Chance(Fork(h, 3), 8)]
      toks == SpellMod(tree, Fork(h, 1))
      lines == Layout(toks, Fork(h, 2), lay)
      lx   == PLLex(lines)
  IN [toks |-> TokKinds(toks), text |-> LinesText(lines), ff |-> lay.ff,
      eol |-> IF lay.plain THEN "LF" ELSE Pick(Fork(h, 4), <<"LF", "LF", "LF", "CRLF", "CR">>),
      final_eol |-> lay.plain \/ PLLead(lines[Len(lines)]).first = "eol" \/ Chance(Fork(h, 5), 85),   \* an unterminated last line is not blank
      selfcheck |-> IF lx.err # "" THEN "pylex error: " \o lx.err
                    ELSE IF lx.out # TokKinds(toks) THEN "pylex tokens differ"
                    ELSE IF j = 1 /\ ~InGrammar(TokKinds(toks), IF tree.t = "Expression" THEN "eval" ELSE "exec") THEN "recogniser rejects a spelled tree"
                    ELSE "ok"]

(* ---- mutated texts: one token item of a spelling deleted, inserted or replaced; the          *)
(* indentation of one line respelled with a tab for eight blanks (or back) or replaced by other  *)
(* white space; a backslash at the end of the file.  PyLex says what the token stream of the     *)
(* mutated text is (or that there is none), the recogniser whether it can be a program.          *)
InsertToks == << TK("NAME", "z"), TK("NUMBER", "1"), TK("STRING", "'s'") >>
              \o [i \in 1..54 |-> LET x == << "(", ")", "[", "]", "{", "}", ",", ":", ";", ".", "=", "==", "+", "-", "not", "and", "or", "if", "else",
                                              "for", "in", "is", "lambda", "yield", "return", "pass", "def", "class", "import", "from", "as", "with",
                                              "while", "try", "except", "finally", "del", "global", "assert", "raise", "None", "...", "+=", "<", "~",
                                              "|", "*", "**", "@", "->", "elif", "break", "continue", "nonlocal" >>[i] IN TK(x, x)]
Mutant(lines, mode, h) ==
  LET withTok == { l \in 1..Len(lines) : \E k \in 1..Len(lines[l]) : lines[l][k].k = "tok" }
      l0   == 1 + Draw(Fork(h, 1), Len(lines))
      l    == IF l0 \in withTok THEN l0 ELSE CHOOSE x \in withTok : TRUE
      line == lines[l]
      idx  == SelectSeq([k \in 1..Len(line) |-> k], LAMBDA k : line[k].k = "tok")
      at   == Pick(Fork(h, 2), idx)
      \* lines whose indentation starts with eight blanks or a tab: the other one reaches the same column
      retabs == { x \in 1..Len(lines) : lines[x] # <<>> /\ (lines[x][1].k = "tab" \/ (lines[x][1].k = "ws" /\ lines[x][1].n = 8)) }
      op0  == Pick(Fork(h, 3), <<"delete", "delete", "delete", "insert", "insert", "insert", "replace", "replace", "retab", "retab", "bslash_eof",
                                  "reindent", "reindent", "reindent">>)
      op   == IF op0 = "retab" /\ retabs = {} THEN "delete" ELSE op0
      new  == Pick(Fork(h, 4), InsertToks)
      sp   == <<WsItem(1)>>
      rl   == IF retabs = {} THEN l ELSE CHOOSE x \in retabs : Cardinality({ y \in retabs : y < x }) = Draw(Fork(h, 5), Cardinality(retabs))
      line2 == IF op = "delete" THEN (SubSeq(line, 1, at - 1) \o sp) \o SubSeq(line, at + 1, Len(line))
               ELSE IF op = "insert" THEN ((SubSeq(line, 1, at - 1) \o sp) \o <<TokItem(new)>> \o sp) \o SubSeq(line, at, Len(line))
               ELSE IF op = "replace" THEN ((SubSeq(line, 1, at - 1) \o sp) \o <<TokItem(new)>> \o sp) \o SubSeq(line, at + 1, Len(line))
               ELSE IF op = "reindent" THEN   \* another leading white space for the line
                    Pick(Fork(h, 6), << <<>>, <<WsItem(1)>>, <<WsItem(2)>>, <<WsItem(4)>>, <<WsItem(4)>>, <<WsItem(8)>>, <<TabItem>>, <<TabItem>>,
                                        <<WsItem(4), TabItem>>, <<TabItem, WsItem(4)>>, <<WsItem(8), WsItem(4)>>, <<TabItem, TabItem>>, <<WsItem(6)>> >>)
                    \o SubSeq(line, idx[1], Len(line))
               ELSE line
      lines2 == IF op = "retab" THEN [lines EXCEPT ![rl] = <<IF lines[rl][1].k = "tab" THEN WsItem(8) ELSE TabItem>> \o Tail(lines[rl])]
                ELSE IF op = "bslash_eof" THEN [lines EXCEPT ![Len(lines)] = (@ \o sp) \o <<BslashItem>>]
                ELSE [lines EXCEPT ![l] = line2]
      lx   == PLLex(lines2)
      verdict == IF ~lx.nest THEN "reject:brackets" ELSE IF lx.err # "" THEN "reject:" \o lx.err
                 ELSE IF ~InGrammar(lx.out, mode) THEN "reject:grammar" ELSE "unknown"
  IN [op |-> op, tok |-> IF op = "delete" THEN line[at].s ELSE IF op \in {"retab", "bslash_eof", "reindent"} THEN "" ELSE new.s, text |-> LinesText(lines2), verdict |-> verdict,
      toks |-> IF lx.nest /\ lx.err = "" THEN lx.out ELSE <<>>,      \* what the lexer must produce, whatever the grammar says
      star |-> \E k \in 1..Len(lx.out) : lx.out[k] \in {"*", "**", "@", "->"}]

Case(u) ==
  LET tree == CaseTree(u)
      n    == CaseNo(u)
      mode == IF tree.t = "Expression" THEN "eval" ELSE "exec" IN
  [id |-> n, kind |-> Kind, mode |-> mode, tree |-> tree,
   spellings |-> [j \in 1..NSpell |-> Spelling(tree, n, j)],
   mutants |-> LET h == Fork(H0(Seed + 7, n), 1)
                   lines == Layout(SpellMod(tree, Fork(h, 1)), Fork(h, 2), [plain |-> TRUE, ff |-> FALSE])
               IN [m \in 1..NMutants |-> Mutant(lines, mode, Fork(H0(Seed + 13, n), m))]]

VARIABLES u, c
Init == u \in Universe /\ c = [id |-> 0]
Next == c.id = 0 /\ c' = Case(u) /\ UNCHANGED u
Spec == Init /\ [][Next]_<<u, c>>

(* the specification's own consistency: PyLex inverts Layout, the recogniser accepts what Spell produces *)
SelfCheck == c.id # 0 => \A j \in 1..NSpell : c.spellings[j].selfcheck = "ok"
Emit == c.id # 0 => PrintT(ToJson(c))
=============================================================================
