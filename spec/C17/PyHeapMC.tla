------------------------------ MODULE PyHeapMC ------------------------------
(* Configurations of PyHeap explored by the C17 check.  One TLC run covers every configuration of a    *)
(* tier: the configuration is part of the initial state.                                                *)
EXTENDS PyHeap

ListForms == {"append", "appendref", "extend", "insert", "pop", "popi", "remove", "reverse", "sort", "clear", "copy", "iadd",
              "imul", "setitem", "delitem", "getitem", "setslice", "setslice2", "setslicem1", "setrev", "seteven", "delslice", "delslice2",
              "delslicem1", "slicecopy", "getslice", "listcopy", "concat", "concat2", "repeat", "rebind", "contains", "len", "eq",
              "index", "count", "iter", "next", "drain", "forappend", "listcomp", "sortkeymut"}
\* the forms that change or copy state (for the deeper graph)
ListCore == {"append", "appendref", "extend", "iadd", "imul", "setitem", "delitem", "setslice", "setrev", "seteven", "delslice", "slicecopy",
             "listcopy", "concat", "concat2", "rebind", "sort", "sortkeymut", "iter", "next", "drain", "forappend", "eq", "insert", "pop", "remove", "reverse",
             "clear", "copy"}
\* mutation during iteration: iterator creation/advance interleaved with growth and shrinkage
IterForms == {"iter", "next", "drain", "append", "delitem", "insert", "pop", "clear"}
\* equal-but-distinguishable members (1, 1.0, True): stable in-place sort, membership, removal, and whole-list
\* extended-slice assignment from the list itself / an alias / another list on lists of three and four items
SortForms == {"setitem", "append", "sort", "sortkeymut", "reverse", "remove", "index", "count", "contains", "setrev", "seteven"}
DictForms == {"dset", "ddel", "dgetitem", "get", "get2", "dcontains", "len", "update", "updatekw", "pop", "pop2", "setdefault",
              "clear", "dictcopy", "copy", "rebind", "eq", "keys", "values", "items", "diter", "dforcopy"}
SetForms == {"add", "remove", "discard", "contains", "len", "update", "or", "and", "sub", "xor", "ior", "iand", "isub", "ixor",
             "clear", "setcopy", "copy", "rebind", "eq", "le", "issubset", "isdisjoint", "pop", "iterlen"}

Cfg(name, kind, maxops, maxlen, scalars, idxmax, keys, forms, pairs) ==
  [name |-> name, kind |-> kind, maxops |-> maxops, maxlen |-> maxlen, scalars |-> scalars, idxmax |-> idxmax,
   keys |-> keys, forms |-> forms, pairs |-> pairs]

\* quick: every edge within 2 statements; the two focus graphs over small alphabets go to 4 and 3
QuickConfigs == {
  Cfg("list2", "list", 2, 5, {"0", "1.0"}, 1, {"a"}, ListForms, "few"),
  Cfg("list-iter4", "list", 4, 4, {"0"}, 0, {"a"}, IterForms, "few"),
  Cfg("list-sort3", "list", 3, 4, {"0", "1.0", "True"}, 0, {"a"}, SortForms, "few"),
  Cfg("dict2", "dict", 2, 3, {"0", "1"}, 1, {"a", "b"}, DictForms, "few"),
  Cfg("set2", "set", 2, 4, {"0", "1", "1.0", "True", "2"}, 1, {"a"}, SetForms, "few") }

\* thorough: every edge within 2 statements over the rich alphabet, within 3 over a lean one; focus graphs to 6 and 4
ThoroughConfigs == {
  Cfg("list2-rich", "list", 2, 6, {"0", "1", "1.0"}, 2, {"a"}, ListForms, "all"),
  Cfg("list3-lean", "list", 3, 3, {"0"}, 1, {"a"}, ListCore, "few"),
  Cfg("list-iter6", "list", 6, 4, {"0"}, 0, {"a"}, IterForms, "few"),
  Cfg("list-sort4", "list", 4, 4, {"0", "1", "1.0", "True"}, 0, {"a"}, SortForms, "few"),
  Cfg("dict3", "dict", 3, 3, {"0", "1", "2"}, 1, {"a", "b", "c"}, DictForms, "few"),
  Cfg("set3", "set", 3, 4, {"0", "1", "1.0", "True", "2", "3"}, 1, {"a"}, SetForms, "few") }

\* simulation: long random histories (the harness sets the depth to maxops + 1)
SimQuickConfigs == {
  Cfg("list-sim8", "list", 8, 6, {"0", "1", "1.0"}, 2, {"a"}, ListForms, "all"),
  Cfg("dict-sim8", "dict", 8, 3, {"0", "1", "2"}, 1, {"a", "b", "c"}, DictForms, "few"),
  Cfg("set-sim8", "set", 8, 4, {"0", "1", "1.0", "True", "2", "3"}, 1, {"a"}, SetForms, "few") }
SimThoroughConfigs == {
  Cfg("list-sim12", "list", 12, 7, {"0", "1", "1.0", "True"}, 3, {"a"}, ListForms, "all"),
  Cfg("dict-sim12", "dict", 12, 3, {"0", "1", "2"}, 1, {"a", "b", "c"}, DictForms, "few"),
  Cfg("set-sim12", "set", 12, 4, {"0", "1", "1.0", "True", "2", "3"}, 1, {"a"}, SetForms, "few") }
=============================================================================
