//go:build !race

package main

const raceEnabled = false
