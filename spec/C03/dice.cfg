SPECIFICATION Spec
CONSTANT Names = {"x", "y", "__class__"}
CONSTANT NameSeq <- Seq2C
CONSTANT MaxScopes = 6
CONSTANT MaxDepth = 3
CONSTANT MaxEvStmt = 6
CONSTANT MaxEvExpr = 3
CONSTANT WithLocset = FALSE
CHECK_DEADLOCK FALSE
