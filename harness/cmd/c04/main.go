//go:build verif

// C04: call arguments bind to parameters exactly as Python's algorithm says.
//
//  1. Design check (spec/C04/PyCallMC): on the WHOLE product of signatures x call shapes TLC
//     checks that the algorithmic binder BindA (fill-in order of vm.EvalCode) equals the
//     declarative BindD and that successful bindings conserve the supplied arguments.
//  2. Binding G, Python functions (spec/C04/PyCallGen): the harness chooses WHICH (signature,
//     call) index pairs to run (seeded sample in the quick tier, the full product in the thorough
//     tier); TLC prints the signature, the call shapes and BindD's result for each pair; the
//     harness renders one program per unit (one def, many calls), runs it in-process on the real
//     interpreter and compares what every parameter received / TypeError with TLC's record.
//  3. Binding G, Go callables (spec/C04/GoCall): the four Go signatures of py.NewMethod registered
//     by this harness in a module and on a Go-defined type, reached as module function, through an
//     instance and through the class, called with the same call shapes; the Go side reports the
//     receiver, args and kwargs it was handed; expectations from GoCall.tla.
//
// No expectation lives here: the harness renders, runs, and compares by equality.
package main

import (
	"encoding/json"
	"fmt"
	"math/rand"
	"os"
	"sort"
	"strings"
	"sync"
	"sync/atomic"
	"time"

	"gpverif/common"
	"gpverif/pyrun"

	"github.com/go-python/gpython/py"
)

// ---------------------------------------------------------------------------------------------
// records printed by TLC

type KwoParam struct {
	Name string `json:"name"`
	D    bool   `json:"d"`
}
type Sig struct {
	Npos int        `json:"npos"`
	Ndef int        `json:"ndef"`
	Va   bool       `json:"va"`
	Vk   bool       `json:"vk"`
	Kwo  []KwoParam `json:"kwo"`
}
type Call struct {
	N     int      `json:"n"`
	Kws   []string `json:"kws"`
	Star  int      `json:"star"`
	Hasss bool     `json:"hasss"`
	Ss    []string `json:"ss"`
}
type Exp struct {
	Ok    bool       `json:"ok"`
	Recv  string     `json:"recv"`
	Vals  []string   `json:"vals,omitempty"` // Python functions: parameter values in ParamSeq order
	Va    []string   `json:"va,omitempty"`
	Args  []string   `json:"args,omitempty"` // Go callables: positional arguments
	Kw    [][]string `json:"kw,omitempty"`
	Kinds []string   `json:"kinds,omitempty"`
	Part  string     `json:"part,omitempty"`
}
type Case struct {
	Ci     int    `json:"ci"`
	Zs     string `json:"zs"` // how this call spells the keyword "z" (a name that is no parameter): z / va / kw / loc
	E      Exp    `json:"e"`
	NoRecv *Exp   `json:"norecv,omitempty"`
}
type Unit struct {
	ID       int      `json:"id"`
	Si       int      `json:"si"`
	Form     string   `json:"form"`
	Sig      Sig      `json:"sig"`
	Params   []string `json:"params"`
	Defaults []bool   `json:"defaults"`
	Kind     string   `json:"kind"` // Go units
	Via      string   `json:"via"`
	Cases    []Case   `json:"cases"`
}

// zsOf: how the unit's call ci spells the keyword "z" (chosen by the specification per case)
func (u *Unit) zsOf(ci int) string {
	for i := range u.Cases {
		if u.Cases[i].Ci == ci {
			return u.Cases[i].Zs
		}
	}
	return ""
}

type unitReq struct {
	ID   int    `json:"id"`
	Si   int    `json:"si,omitempty"`
	Form string `json:"form,omitempty"`
	Kind int    `json:"kind,omitempty"`
	Via  int    `json:"via,omitempty"`
	Cis  []int  `json:"cis"`
}

// Obs is what one call did on the real interpreter.
type Obs struct {
	Outcome string     `json:"outcome"` // "ok" | "TypeError" | other (exception class, panic, garbled)
	Entered bool       `json:"entered"` // the function body ran
	Recv    string     `json:"recv"`
	Vals    []string   `json:"vals,omitempty"`
	Va      []string   `json:"va,omitempty"`
	Kw      [][]string `json:"kw,omitempty"`
}

// ---------------------------------------------------------------------------------------------
// rendering

func q(s string) string { return "'" + s + "'" }

func sigSource(s Sig, method bool) string {
	var parts []string
	if method {
		parts = append(parts, "self")
	}
	pos := []string{"a", "b"}
	for i := 0; i < s.Npos; i++ {
		p := pos[i]
		if i >= s.Npos-s.Ndef {
			p += "=" + q("def:"+pos[i])
		}
		parts = append(parts, p)
	}
	if s.Va {
		parts = append(parts, "*va")
	} else if len(s.Kwo) > 0 {
		parts = append(parts, "*")
	}
	for _, k := range s.Kwo {
		p := k.Name
		if k.D {
			p += "=" + q("def:"+k.Name)
		}
		parts = append(parts, p)
	}
	if s.Vk {
		parts = append(parts, "**kw")
	}
	return "def f(" + strings.Join(parts, ", ") + "):"
}

// callArgs renders the argument list of a call shape. wrap renders a positional value.
// kwAfter places the explicit keywords after *seq (both spellings are in the 3.4 grammar).
func callArgs(c Call, zs string, wrap func(string) string, kwAfter bool) string {
	var args, kws []string
	spell := func(k string) string {
		if k == "z" && zs != "" {
			return zs
		}
		return k
	}
	for i := 1; i <= c.N; i++ {
		args = append(args, wrap(fmt.Sprintf("p%d", i)))
	}
	for _, k := range c.Kws {
		kws = append(kws, spell(k)+"="+q("kw:"+k))
	}
	star := ""
	if c.Star >= 0 {
		var el []string
		for i := 1; i <= c.Star; i++ {
			el = append(el, wrap(fmt.Sprintf("s%d", i)))
		}
		star = "*[" + strings.Join(el, ", ") + "]"
	}
	if kwAfter && star != "" {
		args = append(args, star)
		args = append(args, kws...)
	} else {
		args = append(args, kws...)
		if star != "" {
			args = append(args, star)
		}
	}
	if c.Hasss {
		var el []string
		for _, k := range c.Ss {
			el = append(el, q(spell(k))+": "+q("ss:"+k))
		}
		args = append(args, "**{"+strings.Join(el, ", ")+"}")
	}
	return strings.Join(args, ", ")
}

const helperT = `def t(th):
    E[0] = 0
    try:
        r = th()
    except TypeError:
        r = 'TypeError'
    print(E[0], r)
`

// pyProgram renders one Python unit: the function of the signature (reporting every parameter
// as lists) and one guarded call per case.
func pyProgram(u *Unit, calls []Call, cis []int, kwAfter bool) string {
	var b strings.Builder
	method := u.Form == "method"
	b.WriteString("E = [0]\n")
	ind := ""
	if method {
		b.WriteString("class C:\n")
		ind = "    "
	}
	b.WriteString(ind + sigSource(u.Sig, method) + "\n")
	b.WriteString(ind + "    E[0] = 1\n")
	b.WriteString(ind + "    loc = 'local'\n") // a local variable of the body: its name is not a parameter name
	recv := "''"
	if method {
		recv = "self.tag"
	}
	va, kw := "[]", "[]"
	if u.Sig.Va {
		va = "list(va)"
	}
	if u.Sig.Vk {
		kw = "[[k, kw[k]] for k in sorted(kw)]"
	}
	b.WriteString(ind + "    return [" + recv + ", [" + strings.Join(u.Params, ", ") + "], " + va + ", " + kw + "]\n")
	fn := "f"
	if method {
		b.WriteString("o = C()\no.tag = 'inst'\n")
		fn = "o.f"
	}
	b.WriteString(helperT)
	for _, ci := range cis {
		b.WriteString("t(lambda: " + fn + "(" + callArgs(calls[ci-1], u.zsOf(ci), q, kwAfter) + "))\n")
	}
	return b.String()
}

func goProgram(u *Unit, calls []Call, cis []int, kwAfter bool) string {
	var b strings.Builder
	b.WriteString("import vt\nV = vt.V\no = V('inst')\nE = [0]\n")
	b.WriteString(helperT)
	fn := map[string]string{"args": "fa", "kwargs": "fk", "noargs": "fn", "onearg": "fo"}[u.Kind]
	target := map[string]string{"module": "vt.", "instance": "o.", "class": "V."}[u.Via] + fn
	wrap := func(s string) string { return "V(" + q(s) + ")" }
	for _, ci := range cis {
		b.WriteString("t(lambda: " + target + "(" + callArgs(calls[ci-1], "", wrap, kwAfter) + "))\n")
	}
	return b.String()
}

// ---------------------------------------------------------------------------------------------
// the Go callables under test (module vt, type V)

type V struct{ Tag string }

var vType = py.NewTypeX("V", "tagged value of the C04 harness", func(metatype *py.Type, args py.Tuple, kwargs py.StringDict) (py.Object, error) {
	if len(args) != 1 {
		return nil, py.ExceptionNewf(py.ValueError, "V(tag)")
	}
	s, ok := args[0].(py.String)
	if !ok {
		return nil, py.ExceptionNewf(py.ValueError, "V(tag)")
	}
	return &V{Tag: string(s)}, nil
}, nil)

func (v *V) Type() *py.Type { return vType }

func tagOf(o py.Object) string {
	switch x := o.(type) {
	case nil:
		return "nil"
	case *V:
		if x == nil {
			return "none"
		}
		return x.Tag
	case py.String:
		return string(x)
	case *py.Module:
		if x == nil {
			return "none" // typed nil: no receiver was supplied
		}
		if n, ok := x.Globals["__name__"].(py.String); ok && n == "vt" {
			return "module"
		}
		return "module?"
	}
	return "?" + o.Type().Name
}

// delivered builds the list [1-marker handled by caller, recv, args, [], kw] the program prints.
func delivered(self py.Object, args []py.Object, kwargs py.StringDict) py.Object {
	a := py.NewList()
	for _, x := range args {
		a.Append(py.String(tagOf(x)))
	}
	var keys []string
	for k := range kwargs {
		keys = append(keys, k)
	}
	sort.Strings(keys)
	kw := py.NewList()
	for _, k := range keys {
		kw.Append(py.NewListFromItems([]py.Object{py.String(k), py.String(tagOf(kwargs[k]))}))
	}
	return py.NewListFromItems([]py.Object{py.String(tagOf(self)), a, py.NewList(), kw})
}

func goFa(self py.Object, args py.Tuple) (py.Object, error) { return delivered(self, args, nil), nil }
func goFk(self py.Object, args py.Tuple, kwargs py.StringDict) (py.Object, error) {
	return delivered(self, args, kwargs), nil
}
func goFn(self py.Object) (py.Object, error) { return delivered(self, nil, nil), nil }
func goFo(self py.Object, arg py.Object) (py.Object, error) {
	return delivered(self, []py.Object{arg}, nil), nil
}

func registerGo() {
	mk := func() []*py.Method {
		return []*py.Method{
			py.MustNewMethod("fa", goFa, 0, ""),
			py.MustNewMethod("fk", goFk, 0, ""),
			py.MustNewMethod("fn", goFn, 0, ""),
			py.MustNewMethod("fo", goFo, 0, ""),
		}
	}
	for _, m := range mk() {
		vType.Dict[m.Name] = m
	}
	py.RegisterModule(&py.ModuleImpl{Info: py.ModuleInfo{Name: "vt", Doc: "C04 harness callables"},
		Methods: mk(), Globals: py.StringDict{"V": vType}})
}

// ---------------------------------------------------------------------------------------------
// running and parsing

func toStrings(x interface{}) ([]string, bool) {
	l, ok := x.([]interface{})
	if !ok {
		return nil, false
	}
	out := make([]string, 0, len(l))
	for _, e := range l {
		s, ok := e.(string)
		if !ok {
			return nil, false
		}
		out = append(out, s)
	}
	return out, true
}

func parseLine(line string) Obs {
	line = strings.TrimSpace(line)
	if len(line) < 3 || (line[0] != '0' && line[0] != '1') || line[1] != ' ' {
		return Obs{Outcome: "garbled:" + common.TrimKey(line, 40)}
	}
	o := Obs{Entered: line[0] == '1'}
	rest := line[2:]
	if rest == "TypeError" {
		o.Outcome = "TypeError"
		return o
	}
	var v []interface{}
	if json.Unmarshal([]byte(strings.ReplaceAll(rest, "'", "\"")), &v) != nil || len(v) != 4 {
		return Obs{Outcome: "garbled:" + common.TrimKey(rest, 40)}
	}
	recv, ok0 := v[0].(string)
	vals, ok1 := toStrings(v[1])
	va, ok2 := toStrings(v[2])
	kwl, ok3 := v[3].([]interface{})
	if !(ok0 && ok1 && ok2 && ok3) {
		return Obs{Outcome: "garbled:" + common.TrimKey(rest, 40)}
	}
	o.Outcome, o.Recv, o.Vals, o.Va = "ok", recv, vals, va
	for _, p := range kwl {
		ps, ok := toStrings(p)
		if !ok || len(ps) != 2 {
			return Obs{Outcome: "garbled:" + common.TrimKey(rest, 40)}
		}
		o.Kw = append(o.Kw, ps)
	}
	return o
}

// runProgram runs a rendered unit and returns one observation per call. If the unit did not
// run to completion (an exception other than TypeError escaped, a panic, a compile failure) the
// calls are re-run one per program so that the failure is attributed to its call.
func runProgram(render func(cis []int) string, cis []int) []Obs {
	r := pyrun.Run(render(cis), 60*time.Second)
	lines := strings.Split(strings.TrimRight(r.Stdout, "\n"), "\n")
	if r.Outcome() == "ok" && len(lines) == len(cis) {
		out := make([]Obs, len(cis))
		for i, l := range lines {
			out[i] = parseLine(l)
		}
		return out
	}
	if len(cis) == 1 {
		oc := r.Outcome()
		if oc == "ok" {
			oc = fmt.Sprintf("garbled:%d lines", len(lines))
		}
		if r.Panic != "" {
			oc = "panic:" + r.PanicSite
		}
		return []Obs{{Outcome: oc}}
	}
	out := make([]Obs, 0, len(cis))
	for _, ci := range cis {
		out = append(out, runProgram(render, []int{ci})...)
	}
	return out
}

func eqStrings(a, b []string) bool {
	if len(a) != len(b) {
		return false
	}
	for i := range a {
		if a[i] != b[i] {
			return false
		}
	}
	return true
}

func eqPairs(a, b [][]string) bool {
	norm := func(x [][]string) []string {
		var out []string
		for _, p := range x {
			out = append(out, strings.Join(p, "\x00"))
		}
		sort.Strings(out)
		return out
	}
	return eqStrings(norm(a), norm(b))
}

// agrees: the observation is the one the specification demands (python = Python function unit).
func agrees(e *Exp, o *Obs, python bool) bool {
	if !e.Ok {
		return o.Outcome == "TypeError" && !o.Entered
	}
	if o.Outcome != "ok" || o.Recv != e.Recv || !eqPairs(o.Kw, e.Kw) {
		return false
	}
	if python {
		return o.Entered && eqStrings(o.Vals, e.Vals) && eqStrings(o.Va, e.Va)
	}
	return eqStrings(o.Vals, e.Args)
}

// ---------------------------------------------------------------------------------------------

type checker struct {
	env       *common.Env
	rep       *common.Report
	mu        sync.Mutex
	distinct  map[uint32]struct{}
	evals     int64
	expOk     int64
	expErr    int64
	kindSeen  map[string]int64
	partSeen  map[string]int64
	goSeen    map[string]int64
	diverged  int64
	rechecked int64
	flaky     int64
	perKey    map[string]int
	samples   int
}

func (ck *checker) note(code uint32) {
	ck.mu.Lock()
	ck.distinct[code] = struct{}{}
	ck.mu.Unlock()
}

// confirm re-runs one diverging call alone in a fresh context (first few per key only).
func (ck *checker) confirm(key string, render func(cis []int) string, c *Case, python bool) bool {
	ck.mu.Lock()
	n := ck.perKey[key]
	ck.perKey[key] = n + 1
	ck.mu.Unlock()
	if n >= 10 {
		return true
	}
	atomic.AddInt64(&ck.rechecked, 1)
	o := runProgram(render, []int{c.Ci})[0]
	if agrees(&c.E, &o, python) {
		atomic.AddInt64(&ck.flaky, 1)
		return false
	}
	return true
}

func divergence(e *Exp, o *Obs) string {
	switch {
	case o.Outcome != "ok" && o.Outcome != "TypeError":
		return "observed=" + o.Outcome
	case o.Outcome == "TypeError" && o.Entered:
		return "observed=TypeError inside the body"
	case e.Ok && o.Outcome == "TypeError":
		return "observed=TypeError"
	case !e.Ok:
		return "observed=bound"
	}
	return "observed=other values"
}

func (ck *checker) doUnit(u *Unit, calls []Call) {
	python := u.Kind == ""
	kwAfter := (u.ID+int(ck.env.Seed))%2 == 1
	cis := make([]int, len(u.Cases))
	for i, c := range u.Cases {
		cis[i] = c.Ci
	}
	render := func(x []int) string {
		if python {
			return pyProgram(u, calls, x, kwAfter)
		}
		return goProgram(u, calls, x, kwAfter)
	}
	obs := runProgram(render, cis)
	for i := range u.Cases {
		c := &u.Cases[i]
		o := &obs[i]
		atomic.AddInt64(&ck.evals, 1)
		var code uint32
		if python {
			f := uint32(0)
			if u.Form == "method" {
				f = 1
			}
			code = f<<28 | uint32(u.Si)<<16 | uint32(c.Ci)
		} else {
			code = goCode(u.Kind, u.Via, c.Ci)
		}
		ck.note(code)
		ck.mu.Lock()
		if c.E.Ok {
			ck.expOk++
		} else {
			ck.expErr++
		}
		for _, k := range c.E.Kinds {
			ck.kindSeen[k]++
		}
		if python {
			ck.partSeen[u.Form+";"+c.E.Part]++
		} else {
			ck.goSeen[u.Kind+"/"+u.Via+"/"+map[bool]string{true: "delivered", false: "TypeError"}[c.E.Ok]]++
		}
		if want := ck.samples; want < 5 && ((python && (want < 2 && c.E.Ok || want == 2 && !c.E.Ok)) || (!python && (want < 3 || want == 3 && c.E.Ok || want == 4))) {
			if python || want >= 3 {
				ck.samples++
				ck.rep.Sample(ck.detail(u, calls, c, o, kwAfter))
			} else {
				ck.samples = 3
			}
		}
		ck.mu.Unlock()
		if agrees(&c.E, o, python) {
			continue
		}
		atomic.AddInt64(&ck.diverged, 1)
		var key string
		if python {
			key = "C04|BindD|" + c.E.Part + "|binding differs"
		} else if c.NoRecv != nil && u.Via == "class" && agrees(c.NoRecv, o, false) {
			key = "C04|GoCall|via=class|receiver not taken from the arguments"
		} else {
			key = "C04|GoCall|via=" + u.Via + ",go=" + u.Kind + "|" + divergence(&c.E, o)
		}
		if !ck.confirm(key, render, c, python) {
			continue
		}
		ck.rep.Violation(key, ck.detail(u, calls, c, o, kwAfter))
	}
}

func goCode(kind, via string, ci int) uint32 {
	k := map[string]uint32{"args": 0, "kwargs": 1, "noargs": 2, "onearg": 3}[kind]
	v := map[string]uint32{"module": 0, "instance": 1, "class": 2}[via]
	return 2<<28 | (k*3+v)<<16 | uint32(ci)
}

func (ck *checker) detail(u *Unit, calls []Call, c *Case, o *Obs, kwAfter bool) map[string]interface{} {
	d := map[string]interface{}{"ci": c.Ci, "call_shape": calls[c.Ci-1], "expected": c.E, "observed": o}
	if !agrees(&c.E, o, u.Kind == "") {
		d["divergence"] = divergence(&c.E, o)
	}
	if u.Kind == "" {
		d["part"] = "python"
		d["si"] = u.Si
		d["uid"] = u.ID // the specification derives the spelling of "z" from the unit id and the call index
		d["form"] = u.Form
		d["signature"] = sigSource(u.Sig, u.Form == "method")
		d["call"] = "f(" + callArgs(calls[c.Ci-1], c.Zs, q, kwAfter) + ")"
		d["program"] = pyProgram(u, calls, []int{c.Ci}, kwAfter)
	} else {
		d["part"] = "go"
		d["go_signature"] = u.Kind
		d["via"] = u.Via
		d["program"] = goProgram(u, calls, []int{c.Ci}, kwAfter)
	}
	return d
}

// ---------------------------------------------------------------------------------------------
// unit selection (WHICH cases run is the harness's choice; WHAT they must do is TLC's)

func chunks(cis []int, per int) [][]int {
	var out [][]int
	n := (len(cis) + per - 1) / per
	if n == 0 {
		return nil
	}
	size := (len(cis) + n - 1) / n
	for i := 0; i < len(cis); i += size {
		j := i + size
		if j > len(cis) {
			j = len(cis)
		}
		out = append(out, cis[i:j])
	}
	return out
}

func sample(rng *rand.Rand, n int, frac float64) []int {
	k := int(float64(n)*frac + 0.999)
	p := rng.Perm(n)[:k]
	for i := range p {
		p[i]++
	}
	sort.Ints(p)
	return p
}

func all(n int) []int {
	out := make([]int, n)
	for i := range out {
		out[i] = i + 1
	}
	return out
}

const perUnit = 300

func main() {
	env := common.Setup()
	rep := common.NewReport(env, "model_checking")
	registerGo()
	ck := &checker{env: env, rep: rep, distinct: map[uint32]struct{}{}, kindSeen: map[string]int64{}, partSeen: map[string]int64{},
		goSeen: map[string]int64{}, perKey: map[string]int{}}

	// ---- replay of one recorded case -----------------------------------------------------
	var pyUnits, goUnits []unitReq
	nsigs, ncalls := 0, 0
	if env.Replay != "" {
		b, err := os.ReadFile(env.Replay)
		if err != nil {
			common.Inconclusive("property=C04 cannot read replay file: %v", err)
		}
		var rf struct {
			Case struct {
				Part string `json:"part"`
				Si   int    `json:"si"`
				Uid  int    `json:"uid"`
				Form string `json:"form"`
				Ci   int    `json:"ci"`
				Kind string `json:"go_signature"`
				Via  string `json:"via"`
			} `json:"case"`
		}
		if json.Unmarshal(b, &rf) != nil || rf.Case.Ci == 0 {
			common.Inconclusive("property=C04 replay file does not hold a C04 case")
		}
		if rf.Case.Part == "python" {
			if rf.Case.Uid == 0 {
				rf.Case.Uid = 1
			}
			pyUnits = []unitReq{{ID: rf.Case.Uid, Si: rf.Case.Si, Form: rf.Case.Form, Cis: []int{rf.Case.Ci}}}
		} else {
			k := map[string]int{"args": 1, "kwargs": 2, "noargs": 3, "onearg": 4}[rf.Case.Kind]
			v := map[string]int{"module": 1, "instance": 2, "class": 3}[rf.Case.Via]
			goUnits = []unitReq{{ID: 1, Kind: k, Via: v, Cis: []int{rf.Case.Ci}}}
		}
	} else {
		// ---- 1. design check on the whole product ------------------------------------------
		stats := map[string]int64{}
		var smu sync.Mutex
		// development aid (trying the check against mutated trees on a loaded machine): C04_DESIGN_SIGS=n
		// restricts the design check to the first n signatures; the evidence says so.
		mcExtra := map[string]string{}
		sigLimit := 0
		if v := os.Getenv("C04_DESIGN_SIGS"); v != "" {
			fmt.Sscanf(v, "%d", &sigLimit)
			mcExtra["mc.cfg"] = fmt.Sprintf("SPECIFICATION Spec\nCONSTANTS\n  NChunks = 16\n  SigLimit = %d\nINVARIANT DesignOk\nCHECK_DEADLOCK FALSE\n", sigLimit)
			fmt.Printf("NOTE property=C04 design check reduced to %d signatures (C04_DESIGN_SIGS, development aid)\n", sigLimit)
		}
		mc := env.MustTLC(common.TLCRun{Dir: "C04", Module: "PyCallMC", Config: "mc.cfg", Extra: mcExtra, Timeout: 40 * time.Minute,
			OnLine: func(rec []byte) {
				var r struct {
					Nsigs  int              `json:"nsigs"`
					Ncalls int              `json:"ncalls"`
					N      int64            `json:"n"`
					Bad    int64            `json:"bad"`
					Ok     int64            `json:"ok"`
					Kinds  map[string]int64 `json:"kinds"`
				}
				if json.Unmarshal(rec, &r) != nil {
					return
				}
				smu.Lock()
				defer smu.Unlock()
				if r.Nsigs > 0 {
					nsigs, ncalls = r.Nsigs, r.Ncalls
					return
				}
				stats["pairs"] += r.N
				stats["disagree"] += r.Bad
				stats["bind_ok"] += r.Ok
				for k, v := range r.Kinds {
					stats["TypeError_"+k] += v
				}
			}})
		rep.AddTLC(mc)
		if len(mc.Violations) > 0 || !mc.Finished || stats["disagree"] != 0 {
			common.Inconclusive("property=C04 the specification fails its own design check (BindA = BindD, conservation): %v\n%s", mc.Violations, mc.Stdout)
		}
		checkedSigs := nsigs
		if sigLimit > 0 {
			checkedSigs = sigLimit
			rep.Extra["design_check_reduced_to_signatures"] = sigLimit
		}
		if nsigs == 0 || ncalls == 0 || stats["pairs"] != int64(checkedSigs)*int64(ncalls) {
			common.Inconclusive("property=C04 design check covered %d pairs, expected %d x %d", stats["pairs"], nsigs, ncalls)
		}
		for _, k := range []string{"bind_ok", "TypeError_missing", "TypeError_surplus", "TypeError_duplicate", "TypeError_unexpected"} {
			if stats[k] == 0 && sigLimit == 0 {
				common.Vacuous("property=C04 design check is vacuous: no pair with %s", k)
			}
		}
		rep.Extra["design_check"] = map[string]interface{}{"module": "PyCallMC", "signatures": nsigs, "call_shapes": ncalls, "pairs_checked_BindA_eq_BindD_and_conserved": stats["pairs"],
			"pairs_binding_ok": stats["bind_ok"], "pairs_TypeError_missing": stats["TypeError_missing"], "pairs_TypeError_surplus": stats["TypeError_surplus"],
			"pairs_TypeError_duplicate": stats["TypeError_duplicate"], "pairs_TypeError_unexpected": stats["TypeError_unexpected"], "wall_s": mc.Wall.Seconds()}

		// ---- 2. choose the units -------------------------------------------------------------
		rng := rand.New(rand.NewSource(env.Seed))
		id := 0
		add := func(si int, form string, cis []int) {
			for _, ch := range chunks(cis, perUnit) {
				id++
				pyUnits = append(pyUnits, unitReq{ID: id, Si: si, Form: form, Cis: ch})
			}
		}
		if env.Thorough() {
			for si := 1; si <= nsigs; si++ {
				add(si, "func", all(ncalls))
				add(si, "method", sample(rng, ncalls, 0.10))
			}
		} else {
			csel := sample(rng, ncalls, 0.05)
			ssel := map[int]bool{}
			for _, si := range sample(rng, nsigs, 0.10) {
				ssel[si] = true
			}
			for si := 1; si <= nsigs; si++ {
				if ssel[si] {
					add(si, "func", all(ncalls))
				} else {
					add(si, "func", csel)
				}
				add(si, "method", sample(rng, ncalls, 0.01))
			}
		}
		gid := 0
		for k := 1; k <= 4; k++ {
			for v := 1; v <= 3; v++ {
				cis := all(ncalls)
				if !env.Thorough() {
					cis = sample(rng, ncalls, 0.20)
				}
				for _, ch := range chunks(cis, perUnit) {
					gid++
					goUnits = append(goUnits, unitReq{ID: gid, Kind: k, Via: v, Cis: ch})
				}
			}
		}
	}

	// ---- 3. generate with TLC and run, streaming -----------------------------------------------
	runGen := func(module, cfg, file string, reqs []unitReq) {
		if len(reqs) == 0 {
			return
		}
		var nd strings.Builder
		for _, r := range reqs {
			b, _ := json.Marshal(r)
			nd.Write(b)
			nd.WriteByte('\n')
		}
		var calls []Call
		ready := make(chan struct{})
		work := make(chan []byte, 64)
		var wg sync.WaitGroup
		var got int64
		for w := 0; w < env.Workers; w++ {
			wg.Add(1)
			go func() {
				defer wg.Done()
				for rec := range work {
					var u Unit
					if err := json.Unmarshal(rec, &u); err != nil || len(u.Cases) == 0 {
						common.Inconclusive("property=C04 unreadable record from %s: %v", module, err)
					}
					<-ready
					ck.doUnit(&u, calls)
					atomic.AddInt64(&got, 1)
				}
			}()
		}
		res := env.MustTLC(common.TLCRun{Dir: "C04", Module: module, Config: cfg, Extra: map[string]string{file: nd.String()},
			Timeout: 40 * time.Minute,
			OnLine: func(rec []byte) {
				if calls == nil && strings.HasPrefix(string(rec), `{"calls"`) {
					var c struct {
						Calls []Call `json:"calls"`
					}
					if json.Unmarshal(rec, &c) != nil || len(c.Calls) == 0 {
						common.Inconclusive("property=C04 unreadable call table from %s", module)
					}
					calls = c.Calls
					close(ready)
					return
				}
				work <- append([]byte(nil), rec...)
			}})
		close(work)
		wg.Wait()
		rep.AddTLC(res)
		if len(res.Violations) > 0 || !res.Finished {
			common.Inconclusive("property=C04 %s: %v\n%s", module, res.Violations, res.Stdout)
		}
		if int(got) != len(reqs) {
			common.Inconclusive("property=C04 %s printed %d of %d units\n%s", module, got, len(reqs), res.Stdout)
		}
	}
	t0 := time.Now()
	runGen("PyCallGen", "gen.cfg", "units.ndjson", pyUnits)
	pyCases := ck.evals
	t1 := time.Now()
	runGen("GoCall", "gogen.cfg", "gounits.ndjson", goUnits)

	rep.Evaluations = ck.evals
	rep.Distinct = int64(len(ck.distinct))
	rep.Traces = ck.evals
	rep.Exhaustive = env.Thorough() && env.Replay == ""
	rep.Rule = "a case is one (callable, call shape) pair executed on the real interpreter and compared with TLC's record: callable = a Python function of one of the signatures of PyCall.SigSeq (plain def, or the same def as a method called through an instance) or one of the four Go signatures x {module function, through an instance, through the class}; call shape = one element of PyCall.CallSeq. Distinct = distinct (form, signature index, call index) / (Go signature, access, call index) triples; every pair is non-trivial (it binds at least the empty argument list against a signature and has a spec-computed outcome: the delivered values or TypeError)."
	rep.Extra["python_cases"] = pyCases
	rep.Extra["go_cases"] = ck.evals - pyCases
	rep.Extra["python_units"] = len(pyUnits)
	rep.Extra["go_units"] = len(goUnits)
	rep.Extra["expected_bound"] = ck.expOk
	rep.Extra["expected_TypeError"] = ck.expErr
	rep.Extra["expected_TypeError_kinds"] = ck.kindSeen
	rep.Extra["python_cases_by_partition"] = ck.partSeen
	rep.Extra["go_cases_by_signature_access_outcome"] = ck.goSeen
	rep.Extra["diverging_cases"] = ck.diverged
	rep.Extra["divergences_rerun_alone"] = ck.rechecked
	rep.Extra["divergences_not_reproduced"] = ck.flaky
	rep.Extra["design_stage_s"] = t0.Sub(env.Start).Seconds()
	rep.Extra["python_stage_s"] = t1.Sub(t0).Seconds()
	rep.Extra["go_stage_s"] = time.Since(t1).Seconds()
	rep.Assumptions = []string{
		"TLC and the CommunityModules Json module are correct",
		"the vetted scaffolding of the generated programs works (list display of str, sorted() of str keys, try/except TypeError, lambda); a TypeError raised inside the function body would be reported as a divergence, not hidden (the body sets a flag first)",
		"argument values are distinct string tags, so 'which argument reached which parameter' is observable; evaluation order of the arguments is C01's subject, not compared here",
	}
	if env.Replay == "" {
		for k, n := range map[string]int64{"bound": ck.expOk, "TypeError": ck.expErr} {
			if n == 0 {
				common.Vacuous("property=C04 vacuous run: no case with expected outcome %s", k)
			}
		}
	}
	rep.Finish()
}
