//go:build verif

// C06: parsing yields exactly the tree the Python 3.4 grammar assigns.
//
// TLC (spec/C06/PyGrammarGen.tla, PyLiteralGen.tla) prints cases; this harness renders them and
// runs the real parser:
//
//	G  for every (tree, spelling): ast.Dump(parser.ParseString(text, mode)) must equal the dump of
//	   the tree record (one fixed template per node type, see dump.go); for every mutated text the
//	   specification's recogniser / PyLex rejects, the parser must return a SyntaxError-family error;
//	   for every literal spelling the parsed literal must have the value the specification computed.
//	T  parser.LexString(text) must produce exactly the token kinds PyLex produced for the spelling.
//
// The specification checks itself in the same TLC run (PyLex inverts Layout; the recogniser accepts
// every spelled tree); a failure there is a machinery failure (exit 2), not a verdict.
package main

import (
	"encoding/json"
	"fmt"
	"math/big"
	"os"
	"regexp"
	"sort"
	"strconv"
	"strings"
	"sync"
	"sync/atomic"
	"time"

	"gpverif/common"

	"github.com/go-python/gpython/ast"
	"github.com/go-python/gpython/parser"
	"github.com/go-python/gpython/py"
	_ "github.com/go-python/gpython/stdlib"
)

// ---------------------------------------------------------------------------------------
// records printed by TLC

type spelling struct {
	Toks      []string `json:"toks"`
	Text      []string `json:"text"`
	FF        bool     `json:"ff"`
	EOL       string   `json:"eol"`
	FinalEOL  bool     `json:"final_eol"`
	SelfCheck string   `json:"selfcheck"`
}
type mutant struct {
	Op      string   `json:"op"`
	Tok     string   `json:"tok"`
	Text    []string `json:"text"`
	Verdict string   `json:"verdict"`
	Star    bool     `json:"star"`
	Toks    []string `json:"toks"` // PyLex's token stream of the mutated text (empty: none / no claim)
}
type gcase struct {
	ID        int64           `json:"id"`
	Kind      string          `json:"kind"`
	Mode      string          `json:"mode"`
	Tree      json.RawMessage `json:"tree"`
	Spellings []spelling      `json:"spellings"`
	Mutants   []mutant        `json:"mutants"`
}
type lcase struct {
	Kind   string   `json:"kind"` // str | num | bad
	What   string   `json:"what"` // bad: string | number
	Bytes  bool     `json:"bytes"`
	Raw    bool     `json:"raw"`
	Triple bool     `json:"triple"`
	Pieces []string `json:"pieces"`
	Src    []int    `json:"src"`
	Val    []int    `json:"val"`
	Imag   bool     `json:"imag"`
	IsInt  bool     `json:"isint"`
	Num    int64    `json:"num"`
	Den    int64    `json:"den"`
}

// ---------------------------------------------------------------------------------------
// running the real parser

var synFamily = map[string]bool{"SyntaxError": true, "IndentationError": true, "TabError": true}

type parsed struct {
	dump   string
	tree   ast.Ast
	errCls string // "" = no error
	errMsg string
	panic  string
}

func modeOf(s string) py.CompileMode {
	switch s {
	case "eval":
		return py.EvalMode
	case "single":
		return py.SingleMode
	}
	return py.ExecMode
}

func parseText(text, mode string) (p parsed) {
	defer func() {
		if r := recover(); r != nil {
			p = parsed{panic: fmt.Sprint(r)}
		}
	}()
	tree, err := parser.ParseString(text, modeOf(mode))
	if err != nil {
		p.errCls = "GoError"
		if exc, ok := err.(*py.Exception); ok {
			p.errCls = exc.Type().Name
			if a, ok := exc.Args.(py.Tuple); ok && len(a) > 0 {
				p.errMsg = fmt.Sprint(a[0])
			}
		} else {
			p.errMsg = err.Error()
		}
		return p
	}
	p.tree = tree
	p.dump = ast.Dump(tree)
	return p
}

var tokNameRe = regexp.MustCompile(`^("(?:[^"\\]|\\.)*")`)

func lexKinds(text, mode string) (kinds []string, failed bool, panicked string) {
	defer func() {
		if r := recover(); r != nil {
			panicked = fmt.Sprint(r)
		}
	}()
	lts, err := parser.LexString(text, modeOf(mode))
	for i := range lts {
		m := tokNameRe.FindStringSubmatch(lts[i].String())
		if m == nil {
			kinds = append(kinds, "?")
			continue
		}
		name, uerr := strconv.Unquote(m[1])
		if uerr != nil {
			name = m[1]
		}
		if name == "FILE_INPUT" || name == "EVAL_INPUT" || name == "SINGLE_INPUT" {
			continue
		}
		kinds = append(kinds, name)
	}
	return kinds, err != nil, ""
}

func render(lines []string, eol string, final bool) string {
	sep := "\n"
	switch eol {
	case "CRLF":
		sep = "\r\n"
	case "CR":
		sep = "\r"
	}
	s := strings.Join(lines, sep)
	if final {
		s += sep
	}
	return s
}

func show(s string) string {
	if len(s) > 6000 {
		return strconv.Quote(s[:6000]) + "…"
	}
	return strconv.Quote(s)
}

// ---------------------------------------------------------------------------------------

type stats struct {
	mu          sync.Mutex
	cases       map[string]int64 // kind -> trees
	spellings   int64
	dumpsEqual  int64
	lexRuns     int64
	lexEqual    int64
	mutants     int64
	rejClaims   map[string]int64
	rejected    int64
	noClaim     int64
	deltaSkip   int64
	literals    map[string]int64
	litOK       int64
	nodeTypes   map[string]int64
	eols        map[string]int64
	ffSpellings int64
	distinct    map[string]struct{}
	selfFail    []string
}

var (
	st    = &stats{cases: map[string]int64{}, rejClaims: map[string]int64{}, literals: map[string]int64{}, nodeTypes: map[string]int64{}, eols: map[string]int64{}, distinct: map[string]struct{}{}}
	rep   *common.Report
	evals atomic.Int64
)

func (s *stats) noteDistinct(text string) {
	s.mu.Lock()
	s.distinct[hashKey(text)] = struct{}{}
	s.mu.Unlock()
}

// firstDiffNode names the innermost Node.field of the expected dump that contains the first
// position where the two dumps differ (the case class of a dump divergence).
func firstDiffNode(want, got string) string {
	i := 0
	for i < len(want) && i < len(got) && want[i] == got[i] {
		i++
	}
	type frame struct{ node, field string }
	var stack []frame
	name := ""
	for j := 0; j < i && j < len(want); j++ {
		c := want[j]
		switch {
		case c == '(':
			stack = append(stack, frame{node: name})
			name = ""
		case c == ')':
			if len(stack) > 0 {
				stack = stack[:len(stack)-1]
			}
			name = ""
		case c == '=':
			if len(stack) > 0 && name != "" {
				stack[len(stack)-1].field = name
			}
			name = ""
		case (c >= 'a' && c <= 'z') || (c >= 'A' && c <= 'Z') || c == '_':
			name += string(c)
		default:
			name = ""
		}
	}
	// The class is the innermost enclosing Node.field that is not an expression node (statement,
	// arguments, comprehension, keyword, withitem, handler ...): the same defect then has the same
	// key whatever expression it occurs in.  Only when that field merely holds an arbitrary
	// expression (value, test, iter ...) is the innermost expression frame added, so that defects
	// in expressions themselves stay apart.
	inner := ""
	for k := len(stack) - 1; k >= 0; k-- {
		if stack[k].node == "" {
			continue
		}
		if inner == "" {
			inner = stack[k].node + "." + stack[k].field
		}
		if !exprNodes[stack[k].node] {
			anchor := stack[k].node + "." + stack[k].field
			if exprFields[stack[k].field] && inner != anchor {
				return anchor + "/" + inner
			}
			return anchor
		}
	}
	if inner != "" {
		return inner
	}
	return "top"
}

var exprNodes = map[string]bool{"BoolOp": true, "BinOp": true, "UnaryOp": true, "Lambda": true, "IfExp": true, "Dict": true, "Set": true, "ListComp": true,
	"SetComp": true, "DictComp": true, "GeneratorExp": true, "Yield": true, "YieldFrom": true, "Compare": true, "Call": true, "Num": true, "Str": true,
	"Bytes": true, "NameConstant": true, "Ellipsis": true, "Attribute": true, "Subscript": true, "Starred": true, "Name": true, "List": true, "Tuple": true,
	"Slice": true, "ExtSlice": true, "Index": true}

var exprFields = map[string]bool{"value": true, "test": true, "iter": true, "exc": true, "cause": true, "msg": true, "returns": true, "annotation": true,
	"context_expr": true, "type": true, "body": true, "ifs": true, "defaults": true, "bases": true}

func checkGrammarCase(c *gcase) {
	want, types, err := dumpTree(c.Tree)
	if err != nil {
		common.Inconclusive("property=C06 cannot render tree of case %d: %v", c.ID, err)
	}
	st.mu.Lock()
	st.cases[c.Kind]++
	for t, n := range types {
		st.nodeTypes[t] += n
	}
	st.mu.Unlock()
	plainOK := true
	for j, sp := range c.Spellings {
		if sp.SelfCheck != "ok" {
			st.mu.Lock()
			st.selfFail = append(st.selfFail, fmt.Sprintf("case %d spelling %d: %s", c.ID, j+1, sp.SelfCheck))
			st.mu.Unlock()
			continue
		}
		text := render(sp.Text, sp.EOL, sp.FinalEOL)
		st.noteDistinct(c.Mode + "\x00" + text)
		evals.Add(1)
		p := parseText(text, c.Mode)
		detail := map[string]interface{}{"case": c.ID, "kind": c.Kind, "mode": c.Mode, "spelling": j + 1, "source": show(text), "eol": sp.EOL, "form_feed": sp.FF,
			"expected_dump": want, "observed_dump": p.dump, "error": p.errCls, "message": common.TrimKey(p.errMsg, 160), "panic": p.panic}
		good := func(q parsed) bool { return q.panic == "" && q.errCls == "" && q.dump == want }
		ok := good(p)
		st.mu.Lock()
		st.spellings++
		st.eols[sp.EOL]++
		if sp.FF {
			st.ffSpellings++
		}
		if ok {
			st.dumpsEqual++
		}
		st.mu.Unlock()
		if !ok {
			// Which part of the spelling relation is it?  Undo the layout choices one at a time:
			// (1) the line terminator, (2) form feeds; what still fails then is class Spell.
			lines, cur := sp.Text, p
			if sp.EOL != "LF" {
				q := parseText(render(lines, "LF", sp.FinalEOL), c.Mode)
				if good(q) {
					rep.Violation("C06|Layout|eol="+sp.EOL+"|rejected or misparsed", detail)
					continue
				}
				cur = q
			}
			if sp.FF {
				noFF := make([]string, len(lines))
				for i, l := range lines {
					noFF[i] = strings.ReplaceAll(l, "\f", "")
				}
				q := parseText(render(noFF, "LF", sp.FinalEOL), c.Mode)
				if good(q) {
					rep.Violation("C06|Layout|form feed|rejected or misparsed", detail)
					continue
				}
				cur = q
			}
			// (token-level choices - parentheses, trailing commas - and white-space choices are not told
			// apart: both belong to the spelling relation; the detail says whether the plain spelling failed)
			cls := "Spell"
			if j == 0 {
				plainOK = false
			}
			detail["plain_spelling_of_this_tree_failed"] = !plainOK
			detail["observed_dump_after_undoing_eol_and_form_feed"] = cur.dump
			detail["first_difference"] = diffContext(want, cur.dump)
			rep.Violation("C06|"+cls+"|"+observed(cur, want, true), detail)
			continue
		}
		// T: the token stream
		if c.Mode == "exec" || sp.FinalEOL {
			kinds, failed, pan := lexKinds(text, c.Mode)
			evals.Add(1)
			eq := !failed && pan == "" && len(kinds) == len(sp.Toks)
			if eq {
				for i := range kinds {
					if kinds[i] != sp.Toks[i] {
						eq = false
						break
					}
				}
			}
			st.mu.Lock()
			st.lexRuns++
			if eq {
				st.lexEqual++
			}
			st.mu.Unlock()
			if !eq {
				d := "tokens differ"
				if failed {
					d = "lexer rejects"
				}
				if pan != "" {
					d = "lexer panics"
				}
				rep.Violation("C06|PyLex|"+d+"|"+firstTokDiff(sp.Toks, kinds), map[string]interface{}{"case": c.ID, "mode": c.Mode, "source": show(text),
					"spec_tokens": sp.Toks, "lexer_tokens": kinds})
			}
		}
	}
	for _, m := range c.Mutants {
		st.mu.Lock()
		st.mutants++
		st.mu.Unlock()
		what := m.Op
		if m.Tok != "" {
			what += " " + tokClass(m.Tok)
		}
		if len(m.Toks) > 0 && c.Mode == "exec" {
			// T on the mutated text: whatever the grammar makes of it, the lexer must see PyLex's tokens
			text := render(m.Text, "LF", true)
			kinds, failed, pan := lexKinds(text, c.Mode)
			evals.Add(1)
			eq := !failed && pan == "" && len(kinds) == len(m.Toks)
			for i := 0; eq && i < len(kinds); i++ {
				eq = kinds[i] == m.Toks[i]
			}
			st.mu.Lock()
			st.lexRuns++
			if eq {
				st.lexEqual++
			}
			st.mu.Unlock()
			if !eq {
				d := "tokens differ"
				if failed {
					d = "lexer rejects"
				}
				if pan != "" {
					d = "lexer panics"
				}
				rep.Violation("C06|PyLex|"+d+"|"+firstTokDiff(m.Toks, kinds)+"|mutated text: "+m.Op, map[string]interface{}{"case": c.ID, "mode": c.Mode, "source": show(text),
					"operation": m.Op, "spec_tokens": m.Toks, "lexer_tokens": kinds})
			}
		}
		if !strings.HasPrefix(m.Verdict, "reject") {
			st.mu.Lock()
			st.noClaim++
			st.mu.Unlock()
			continue
		}
		if m.Star {
			// the mutated text contains * ** @ or ->: generalised unpacking, matrix multiplication and
			// relaxed decorators were added to the grammar after 3.4 and are exactly what the recogniser
			// was vetted without; no claim is made either way
			st.mu.Lock()
			st.deltaSkip++
			st.mu.Unlock()
			continue
		}
		text := render(m.Text, "LF", true)
		st.noteDistinct(c.Mode + "\x00" + text)
		evals.Add(1)
		p := parseText(text, c.Mode)
		st.mu.Lock()
		st.rejClaims[m.Verdict]++
		if synFamily[p.errCls] {
			st.rejected++
		}
		st.mu.Unlock()
		if !synFamily[p.errCls] {
			key := "C06|InGrammar|" + m.Verdict + "|" + what + "|observed=accepted"
			if p.panic != "" {
				key = "C06|InGrammar|observed=panic|" + msgClass(p.panic)
			} else if p.errCls != "" {
				// rejected, but not with a SyntaxError: the class of the mutation does not matter
				key = "C06|InGrammar|observed=error:" + p.errCls + "|" + msgClass(p.errMsg)
			}
			rep.Violation(key,
				map[string]interface{}{"case": c.ID, "mode": c.Mode, "source": show(text), "operation": m.Op, "token": m.Tok, "spec_verdict": m.Verdict, "observed_dump": p.dump})
		}
	}
}

// observed names the divergence class of a parse result for a finding key.
func observed(p parsed, want string, withMsg bool) string {
	switch {
	case p.panic != "":
		return "panic"
	case p.errCls != "":
		if withMsg {
			return "error:" + p.errCls + "|" + msgClass(p.errMsg)
		}
		return "error:" + p.errCls
	}
	return "dump differs at " + firstDiffNode(want, p.dump)
}

func diffContext(want, got string) string {
	i := 0
	for i < len(want) && i < len(got) && want[i] == got[i] {
		i++
	}
	cut := func(s string) string {
		a, b := i-60, i+80
		if a < 0 {
			a = 0
		}
		if b > len(s) {
			b = len(s)
		}
		if a > len(s) {
			a = len(s)
		}
		return s[a:b]
	}
	return "expected …" + cut(want) + "…  observed …" + cut(got) + "…"
}

func tokClass(t string) string {
	if t == "" {
		return "?"
	}
	c := t[0]
	switch {
	case c >= '0' && c <= '9':
		return "NUMBER"
	case c == '\'' || c == '"':
		return "STRING"
	}
	if len(t) > 1 && (t[len(t)-1] == '\'' || t[len(t)-1] == '"') {
		return "STRING"
	}
	if len(t) == 1 && ((c >= 'a' && c <= 'z') || (c >= 'A' && c <= 'Z')) {
		return "NAME"
	}
	return t
}

func firstTokDiff(want, got []string) string {
	for i := 0; i < len(want) || i < len(got); i++ {
		w, g := "<end>", "<end>"
		if i < len(want) {
			w = want[i]
		}
		if i < len(got) {
			g = got[i]
		}
		if w != g {
			return "want=" + w + ",got=" + g
		}
	}
	return "same"
}

var (
	reAstType = regexp.MustCompile(`\*ast\.\w+`)
	reQuoted  = regexp.MustCompile(`'[^']*'|"[^"]*"`)
	reDigits  = regexp.MustCompile(`\d+`)
)

func msgClass(s string) string {
	s = strings.SplitN(s, "\n", 2)[0]
	s = reAstType.ReplaceAllString(s, "*ast.T")
	if i := strings.Index(s, ": missing method"); i > 0 {
		s = s[:i]
	}
	s = reQuoted.ReplaceAllString(s, "Q")
	s = reDigits.ReplaceAllString(s, "N")
	return common.TrimKey(s, 60)
}

// literal cases: the parsed literal must denote the value TLC printed
func checkLiteral(c *lcase) {
	src := make([]rune, len(c.Src))
	for i, x := range c.Src {
		src[i] = rune(x)
	}
	text := string(src)
	st.noteDistinct("lit\x00" + text)
	evals.Add(1)
	p := parseText(text, "eval")
	st.mu.Lock()
	st.literals[c.Kind]++
	st.mu.Unlock()
	detail := map[string]interface{}{"source": show(text), "kind": c.Kind, "error": p.errCls, "message": common.TrimKey(p.errMsg, 160), "panic": p.panic, "observed_dump": p.dump}
	if c.Kind == "bad" {
		if !synFamily[p.errCls] {
			obs := "accepted"
			if p.panic != "" {
				obs = "panic"
			} else if p.errCls != "" {
				obs = "error:" + p.errCls
			}
			rep.Violation("C06|PyLiteral.Bad|"+c.What+" "+strconv.Quote(text)+"|observed="+obs, detail)
		} else {
			st.mu.Lock()
			st.litOK++
			st.mu.Unlock()
		}
		return
	}
	if p.panic != "" || p.errCls != "" {
		obs := "error:" + p.errCls
		if p.panic != "" {
			obs = "panic"
		}
		litFailure(c, text, obs, detail)
		return
	}
	body := p.tree.(*ast.Expression).Body
	ok := false
	switch c.Kind {
	case "str":
		detail["expected_code_points"] = c.Val
		if c.Bytes {
			if b, isB := body.(*ast.Bytes); isB {
				got := []byte(b.S)
				ok = len(got) == len(c.Val)
				for i := 0; ok && i < len(got); i++ {
					ok = int(got[i]) == c.Val[i]
				}
				detail["observed_bytes"] = got
			}
		} else if s, isS := body.(*ast.Str); isS {
			got := []rune(string(s.S))
			ok = len(got) == len(c.Val)
			for i := 0; ok && i < len(got); i++ {
				ok = int(got[i]) == c.Val[i]
			}
			detail["observed_code_points"] = got
		}
	case "num":
		detail["expected_value"] = fmt.Sprintf("%d/%d imag=%v int=%v", c.Num, c.Den, c.Imag, c.IsInt)
		if n, isN := body.(*ast.Num); isN {
			detail["observed_value"] = fmt.Sprintf("%T %v", n.N, n.N)
			// the value denoted: the rational num/den; for a float literal the double nearest to it
			// (IEEE division of two exactly representable integers is correctly rounded)
			want := float64(c.Num) / float64(c.Den)
			switch v := n.N.(type) {
			case py.Int:
				ok = !c.Imag && c.IsInt && c.Den == 1 && int64(v) == c.Num
			case *py.BigInt:
				ok = !c.Imag && c.IsInt && c.Den == 1 && (*big.Int)(v).IsInt64() && (*big.Int)(v).Int64() == c.Num
			case py.Float:
				ok = !c.Imag && !c.IsInt && float64(v) == want
			case py.Complex:
				ok = c.Imag && real(complex128(v)) == 0 && imag(complex128(v)) == want
			}
		}
	}
	if ok {
		st.mu.Lock()
		st.litOK++
		st.mu.Unlock()
		return
	}
	litFailure(c, text, "value differs", detail)
}

type litFail struct {
	c      *lcase
	text   string
	obs    string
	detail map[string]interface{}
}

var (
	litFails   []litFail
	litFailsMu sync.Mutex
)

func litFailure(c *lcase, text, obs string, detail map[string]interface{}) {
	litFailsMu.Lock()
	litFails = append(litFails, litFail{c, text, obs, detail})
	litFailsMu.Unlock()
}

func litFlags(c *lcase) string {
	f := "str"
	if c.Bytes {
		f = "bytes"
	}
	if c.Raw {
		f += ",raw"
	}
	return f
}

// reportLiteralFailures keys every failing string literal by the piece class that already fails on
// its own (a one-piece literal of the same kind), so that one defective escape does not produce a
// key per combination it occurs in; number literals are keyed by their spelling class.
func reportLiteralFailures() {
	alone := map[string]bool{}
	for _, f := range litFails {
		if f.c.Kind == "str" && len(f.c.Pieces) == 1 {
			alone[litFlags(f.c)+"|"+f.c.Pieces[0]] = true
		}
	}
	for _, f := range litFails {
		if f.c.Kind == "num" {
			rep.Violation("C06|PyLiteral.NumVal|"+litClass(f.text)+"|observed="+f.obs, f.detail)
			continue
		}
		cls := ""
		for _, pc := range f.c.Pieces {
			if alone[litFlags(f.c)+"|"+pc] {
				cls = pc
				break
			}
		}
		if cls == "" {
			u := map[string]bool{}
			var l []string
			for _, pc := range f.c.Pieces {
				if !u[pc] {
					u[pc] = true
					l = append(l, pc)
				}
			}
			sort.Strings(l)
			cls = strings.Join(l, "+")
		}
		rep.Violation("C06|PyLiteral.LitVal|"+litFlags(f.c)+"|"+cls+"|observed="+f.obs, f.detail)
	}
}

// litClass is the spelling class of a number literal for finding keys: base / float / imaginary.
func litClass(text string) string {
	cls := "decimal"
	l := strings.ToLower(text)
	switch {
	case strings.HasPrefix(l, "0x"):
		cls = "hex"
	case strings.HasPrefix(l, "0o"):
		cls = "octal"
	case strings.HasPrefix(l, "0b"):
		cls = "binary"
	case strings.ContainsAny(l, ".e"):
		cls = "float"
	}
	if strings.HasSuffix(l, "j") {
		cls += "+imag"
	}
	return cls
}

// ---------------------------------------------------------------------------------------

func runTLC(env *common.Env, run common.TLCRun, handle func([]byte) error) *common.TLCResult {
	jobs := make(chan []byte, 1024)
	var wg sync.WaitGroup
	var bad atomic.Int64
	for i := 0; i < env.Workers; i++ {
		wg.Add(1)
		go func() {
			defer wg.Done()
			for b := range jobs {
				if err := handle(b); err != nil {
					bad.Add(1)
				}
			}
		}()
	}
	run.OnLine = func(b []byte) {
		cp := append([]byte(nil), b...)
		jobs <- cp
	}
	res := env.MustTLC(run)
	close(jobs)
	wg.Wait()
	rep.AddTLC(res)
	if len(res.Violations) > 0 {
		// SelfCheck: the specification disagrees with itself
		common.Inconclusive("property=C06 %s/%s: the specification fails its own consistency check: %v\n%s", run.Dir, run.Config, res.Violations, res.Stdout)
	}
	if !res.Finished {
		common.Inconclusive("property=C06 %s/%s did not finish\n%s", run.Dir, run.Config, res.Stdout)
	}
	if bad.Load() > 0 {
		common.Inconclusive("property=C06 %d records of %s could not be read", bad.Load(), run.Config)
	}
	return res
}

func genCfg(seed int64, kind string, ncases, nspell, ed, sd, nmut int) string {
	return fmt.Sprintf("SPECIFICATION Spec\nCONSTANTS Seed = %d\n Kind = %q\n NCases = %d\n NSpell = %d\n ExprDepth = %d\n StmtDepth = %d\n NMutants = %d\nINVARIANT SelfCheck\nINVARIANT Emit\nCHECK_DEADLOCK FALSE\n",
		seed, kind, ncases, nspell, ed, sd, nmut)
}

func main() {
	env := common.Setup()
	rep = common.NewReport(env, "model_checking")
	if env.Replay != "" {
		replay(env)
		return
	}
	handleG := func(b []byte) error {
		var c gcase
		if err := json.Unmarshal(b, &c); err != nil {
			return err
		}
		checkGrammarCase(&c)
		if c.ID%997 == 1 && len(c.Spellings) > 0 {
			sp := c.Spellings[len(c.Spellings)-1]
			rep.Sample(map[string]interface{}{"kind": c.Kind, "mode": c.Mode, "source": show(render(sp.Text, sp.EOL, sp.FinalEOL)), "tree": c.Tree})
		}
		return nil
	}
	var nlit atomic.Int64
	handleL := func(b []byte) error {
		var c lcase
		if err := json.Unmarshal(b, &c); err != nil {
			return err
		}
		checkLiteral(&c)
		if nlit.Add(1)%9973 == 5 {
			rep.Sample(map[string]interface{}{"kind": "literal " + c.Kind, "source_code_points": c.Src, "value_code_points": c.Val, "num": c.Num, "den": c.Den})
		}
		return nil
	}
	seed := env.Seed % 100000
	type job struct {
		name string
		run  common.TLCRun
		h    func([]byte) error
	}
	mk := func(name, cfg string) common.TLCRun {
		return common.TLCRun{Dir: "C06", Module: "PyGrammarGen", Config: name + ".cfg", Extra: map[string]string{name + ".cfg": cfg}, Timeout: 14 * time.Minute}
	}
	jobs := []job{
		{"numbers", common.TLCRun{Dir: "C06", Module: "PyLiteralGen", Config: "lit_num.cfg", Timeout: 10 * time.Minute}, handleL},
		{"strings", common.TLCRun{Dir: "C06", Module: "PyLiteralGen", Config: map[bool]string{false: "lit_str_quick.cfg", true: "lit_str_thorough.cfg"}[env.Thorough()], Timeout: 14 * time.Minute}, handleL},
		{"pairs", mk("pairs", genCfg(seed, "pairs", 0, env.Pick(2, 3), 0, 0, env.Pick(0, 2))), handleG},
		{"stmtseq", mk("stmtseq", genCfg(seed, "stmtseq", 0, env.Pick(6, 12), 0, 0, 0)), handleG},
		{"random", mk("random", genCfg(seed, "random", env.Pick(700, 3000), 3, env.Pick(2, 3), env.Pick(1, 2), 4)), handleG},
	}
	if env.Thorough() {
		jobs = append(jobs, job{"triples", mk("triples", genCfg(seed, "triples", 0, 2, 0, 0, 0)), handleG})
	}
	if f := os.Getenv("VERIF_C06_RECORDS"); f != "" {
		// development aid: check the records of an earlier TLC run (one PrintT line per record)
		devRecords(f, handleG, handleL)
		jobs = nil
	}
	phase := map[string]float64{}
	var pm sync.Mutex
	// the generating runs are independent; they run one after the other, each with all workers
	// (the machine-wide TLC slot limit of harness/common makes side-by-side runs wait anyway)
	for _, j := range jobs {
		t0 := time.Now()
		runTLC(env, j.run, j.h)
		pm.Lock()
		phase[j.name] = time.Since(t0).Seconds()
		pm.Unlock()
	}
	if len(st.selfFail) > 0 {
		common.Inconclusive("property=C06 the specification fails its own consistency check: %v", st.selfFail[:1])
	}

	reportLiteralFailures()

	rep.Evaluations = evals.Load()
	rep.Distinct = int64(len(st.distinct))
	rep.Traces = st.spellings + st.mutants + st.litOK
	rep.Rule = "cases printed by TLC: bounded random trees (seeded, PyGrammarGen Kind=random) x seeded spellings, every operator form nested in every operand slot of every form (pairs" +
		map[bool]string{false: "", true: ", triples over one form per grammar level"}[env.Thorough()] + "), single-token mutations judged by the recogniser/PyLex, and the literal universe of PyLiteralGen; " +
		"distinct_nontrivial = distinct (mode, source text) pairs given to the parser; evaluations = ParseString + LexString calls"
	rep.Exhaustive = false
	rep.Extra["trees_by_kind"] = st.cases
	rep.Extra["spellings"] = st.spellings
	rep.Extra["spellings_dump_equal"] = st.dumpsEqual
	rep.Extra["token_streams_compared"] = st.lexRuns
	rep.Extra["token_streams_equal"] = st.lexEqual
	rep.Extra["mutants"] = st.mutants
	rep.Extra["rejection_claims_by_verdict"] = st.rejClaims
	rep.Extra["rejection_claims_rejected_by_parser"] = st.rejected
	rep.Extra["mutants_without_claim"] = st.noClaim
	rep.Extra["mutants_skipped_post_3_4_syntax"] = st.deltaSkip
	rep.Extra["literals_by_kind"] = st.literals
	rep.Extra["literals_value_equal_or_rejected"] = st.litOK
	rep.Extra["node_type_occurrences"] = st.nodeTypes
	rep.Extra["line_terminators"] = st.eols
	rep.Extra["spellings_with_form_feed"] = st.ffSpellings
	rep.Extra["phase_seconds"] = phase
	rep.Assumptions = []string{
		"the trees, spellings and literal universes are the bounded ones of spec/C06; larger trees and other spellings are not explored",
		"the shape UnaryOp(USub, Num) is not generated: the 3.4 grammar and the 3.4 reference implementation (which folds -1 into Num(-1) depending on parentheses) disagree on it",
		"rejection is asserted only where the grammar-only recogniser or PyLex rejects, and not for mutated texts containing * ** @ -> (syntax generalised after 3.4)",
		"the recogniser, the speller and the literal denotations were differentially vetted against CPython 3.11 during development (design.d/C06.md); CPython is not used by the check",
	}
	for _, need := range []string{"BinOp", "Compare", "BoolOp", "Call", "Lambda", "ListComp", "If", "Try", "With", "FunctionDef", "ClassDef", "For", "Subscript", "Starred", "ImportFrom"} {
		if st.nodeTypes[need] == 0 {
			common.Vacuous("property=C06 vacuous run: no %s node in any generated tree", need)
		}
	}
	if st.rejected == 0 || st.litOK == 0 || st.lexEqual == 0 {
		common.Vacuous("property=C06 vacuous run: rejected=%d literals=%d token streams=%d", st.rejected, st.litOK, st.lexEqual)
	}
	rep.Finish()
}

func devRecords(path string, g, l func([]byte) error) {
	f, err := os.Open(path)
	if err != nil {
		common.Inconclusive("property=C06 %v", err)
	}
	defer f.Close()
	common.ReadNDJSON(f, func(b []byte) error {
		if len(b) == 0 || b[0] != '"' {
			return nil
		}
		var s string
		if json.Unmarshal(b, &s) != nil {
			return nil
		}
		if strings.Contains(s, `"tree"`) {
			return g([]byte(s))
		}
		return l([]byte(s))
	})
}

func replay(env *common.Env) {
	b, err := os.ReadFile(env.Replay)
	if err != nil {
		common.Inconclusive("property=C06 replay: %v", err)
	}
	var r struct {
		Key  string `json:"key"`
		Case struct {
			Source string `json:"source"`
			Mode   string `json:"mode"`
			Want   string `json:"expected_dump"`
		} `json:"case"`
	}
	if err := json.Unmarshal(b, &r); err != nil {
		common.Inconclusive("property=C06 replay: %v", err)
	}
	src, err := strconv.Unquote(r.Case.Source)
	if err != nil {
		common.Inconclusive("property=C06 replay: the recorded source was truncated (%v)", err)
	}
	mode := r.Case.Mode
	if mode == "" {
		mode = "eval"
	}
	p := parseText(src, mode)
	fmt.Printf("REPLAY property=C06 key=%s mode=%s source=%s\n  expected dump: %s\n  observed dump: %s\n  error: %s %s panic: %s\n", r.Key, mode, r.Case.Source, r.Case.Want, p.dump, p.errCls, p.errMsg, p.panic)
	kinds, failed, pan := lexKinds(src, mode)
	fmt.Printf("  LexString: failed=%v panic=%q tokens=%v\n", failed, pan, kinds)
	os.Exit(0)
}
