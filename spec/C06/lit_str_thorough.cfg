SPECIFICATION Spec
CONSTANTS Kind = "str"
          FullLen = 2
          RepLen = 3
INVARIANT Emit
CHECK_DEADLOCK FALSE
