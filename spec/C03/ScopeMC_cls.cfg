SPECIFICATION Spec
CONSTANT Names = {"__class__"}
CONSTANT Shapes <- Shapes3
CONSTANT Flags3 <- FlagSetsQ
INVARIANT Ok
CHECK_DEADLOCK FALSE
