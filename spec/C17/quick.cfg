\* quick: every edge of the state graphs of QuickConfigs (PyHeapMC.tla)
\* the placeholder of Provided is replaced at run time by "<kind>.<method or operator>" for everything the live gpython types provide
SPECIFICATION Spec
CONSTANTS
  Configs <- QuickConfigs
  Provided = {@PROVIDED@}
  EmitAll = TRUE
VIEW View
INVARIANTS WellFormed AliasVisibility LastObsIsHeap Bounded EmitFinal
CHECK_DEADLOCK FALSE
