SPECIFICATION Spec
CONSTANTS NestDepth = 3
          MaxLen = 3
          MaxFill = 2
          CoreFill = 2
          SimLens = {}
          SimFill = {}
INVARIANT Emit
CHECK_DEADLOCK FALSE
