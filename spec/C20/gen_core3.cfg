SPECIFICATION GSpec
CONSTANTS
  Kinds <- CoreKinds
  MaxItems = 3
  Simulating = FALSE
INVARIANTS TypeOK OnceInOrder PromptClause NotEarly EchoClause Emit
CHECK_DEADLOCK FALSE
