------------------------------- MODULE PyGen -------------------------------
(* C05, first half: generators are lazy and resumable.                                          *)
(*                                                                                              *)
(* A generator instance is a resumable control stack over a body tree. Bodies are sequences of  *)
(* statements:                                                                                  *)
(*   [k |-> "log",  n]            record the event <<"l", n>>                                   *)
(*   [k |-> "yield", v]           yield v, discard what is sent                                 *)
(*   [k |-> "recv", v]            x = yield v ; record <<"r", x>>                                *)
(*   [k |-> "inc"]                n = n + 1            (n is a local of the generator, 0 at start)*)
(*   [k |-> "yloc"]               yield n                                                       *)
(*   [k |-> "loop", n, body]      for _ in range(n): body                                       *)
(*   [k |-> "tryf", body, fin]    try: body finally: fin                                        *)
(*   [k |-> "ret", v]             return v                            (v an int)                *)
(*   [k |-> "retv", val]          return val                          (val any value: a tuple of *)
(*                                any shape is ONE value; it is what StopIteration carries and   *)
(*                                what a delegating `yield from` evaluates to, unchanged per hop) *)
(*   [k |-> "raise"]              raise KeyError                                                *)
(*   [k |-> "rstop", v]           raise StopIteration(v): ends the generator like return v (3.4)                   *)
(*   [k |-> "yf", b, then]        then = "":       r = yield from <new generator with body Bodies[b]> ; record <<"yf", r>> *)
(*                                then = "ret":    the same, followed by  return r               *)
(*                                then = "unpack": q, r = yield from ... ; record <<"un", [q, r]>> (TypeError / ValueError *)
(*                                                 from the unpacking if the value is no sequence / not of length 2)      *)
(*   [k |-> "inl", body]          specification-only: the body of a sub-generator written in place*)
(*                                (used to STATE that yield from is transparent, never rendered) *)
(* The driver performs next(g) / g.send(v) on NTop live instances. Every call is one history     *)
(* entry with the generator's status before the call, the outcome (yielded value |              *)
(* StopIteration(value) | exception class) and the events the bodies recorded DURING that call  *)
(* (so "exactly the code up to the next yield runs" is an observation of every call).           *)
(* Values are uniformly records (TLC cannot compare an integer with a string).                  *)
EXTENDS Integers, Sequences, FiniteSets, TLC, Json, SequencesExt

CONSTANTS Bodies,      \* sequence of body templates (sequences of statements)
          NTop,        \* number of live top-level generator instances
          MaxOps,      \* length of the driver histories
          SendVals,    \* set of values the driver sends (NoneV = next())
          TopChoices,  \* set of assignments of templates to the instances
          MaxMicro,    \* bound on the small steps of one call (RunF); RunComplete checks it suffices
          LockChoices, \* the assignments <<delegating template, its in-place form>> (design check only)
          MaxOpsOne    \* history length of the single-instance design check

\* values: None, ints, strings and -- as return values -- tuples and lists of values (l = the items)
NoneV  == [t |-> "none", i |-> 0, s |-> "", l |-> <<>>]
IntV(n) == [t |-> "int", i |-> n, s |-> "", l |-> <<>>]
StrV(x) == [t |-> "str", i |-> 0, s |-> x, l |-> <<>>]
TupleV(items) == [t |-> "tuple", i |-> 0, s |-> "", l |-> items]
ListV(items)  == [t |-> "list", i |-> 0, s |-> "", l |-> items]

GTop(s) == s[Len(s)]
GPop(s) == SubSeq(s, 1, Len(s) - 1)
SeqF(ss) == [k |-> "seq", ss |-> ss]
Norm == [t |-> "norm", v |-> NoneV]

\* outcomes of one driver call
OYield(v) == [k |-> "yield", v |-> v, e |-> ""]
OStop(v)  == [k |-> "stop",  v |-> v, e |-> ""]
OExc(c)   == [k |-> "exc",   v |-> NoneV, e |-> c]
ORunning  == [k |-> "running", v |-> NoneV, e |-> ""]
Ev(k, v)  == [k |-> k, v |-> v]

NewGen(b) == [ks |-> << SeqF(Bodies[b]) >>, comp |-> Norm, st |-> "created", how |-> "",
              inbox |-> NoneV, sub |-> 0, par |-> 0, loc |-> 0, ythen |-> ""]

VARIABLES gens,      \* generator instances; 1..NTop are the driver's, the others are yield-from children
          top,       \* templates of the top-level instances
          active,    \* 0, or the top-level generator the current next/send is running
          hist,      \* sequence of [g, sent, pre, out, log]
          log        \* events recorded by the bodies during the current call
vars == <<gens, top, active, hist, log>>

Init == /\ top \in TopChoices
        /\ gens = [g \in 1..NTop |-> NewGen(top[g])]
        /\ active = 0 /\ hist = <<>> /\ log = <<>>

\* innermost generator of the delegation chain starting at g, and the whole chain
RECURSIVE Inner(_, _)
Inner(G, g) == IF G[g].sub = 0 THEN g ELSE Inner(G, G[g].sub)
RECURSIVE Chain(_, _)
Chain(G, g) == IF G[g].sub = 0 THEN {g} ELSE {g} \cup Chain(G, G[g].sub)
\* parent of generator c in a delegation chain (0 if none): recorded when the child is created
Parent(G, c) == G[c].par
SetSt(G, S, st) == [i \in 1..Len(G) |-> IF i \in S THEN [G[i] EXCEPT !.st = st] ELSE G[i]]
PreOf(G, g) == IF G[g].st = "done" THEN "done-" \o G[g].how ELSE G[g].st

\* The whole state as one record, so that a call can be stated both in small steps (Start, Step, Step, ...)
\* and as one run-to-suspension step (Call); both are built from the same two functions StartF and StepF.
St(G, a, h, l) == [gens |-> G, active |-> a, hist |-> h, log |-> l]
Cur == St(gens, active, hist, log)
Becomes(s) == gens' = s.gens /\ active' = s.active /\ hist' = s.hist /\ log' = s.log /\ UNCHANGED top

\* what happens with the value v of a completed `yield from` expression (see the statement "yf")
UnpackOK(v) == v.t \in {"tuple", "list"} /\ Len(v.l) = 2
AfterYFComp(v, then) ==
   IF then = "ret" THEN [t |-> "ret", v |-> v]
   ELSE IF then = "unpack" /\ ~UnpackOK(v)
        THEN [t |-> "exc", v |-> StrV(IF v.t \in {"tuple", "list"} THEN "ValueError" ELSE "TypeError")]
   ELSE Norm
AfterYFLog(lg, v, then) ==
   IF then = "unpack" THEN (IF UnpackOK(v) THEN Append(lg, Ev("un", ListV(v.l))) ELSE lg)
   ELSE Append(lg, Ev("yf", v))

\* the driver starts next(g) (v = NoneV) or g.send(v)
StartF(s, g, v) ==
  LET ent(o) == [g |-> g, sent |-> v, pre |-> PreOf(s.gens, g), out |-> o, log |-> <<>>] IN
  IF s.gens[g].st = "done" THEN
     \* an exhausted generator stays exhausted: StopIteration, nothing runs
     St(s.gens, 0, Append(s.hist, ent(OStop(NoneV))), <<>>)
  ELSE IF s.gens[g].st = "created" /\ v # NoneV THEN
     \* there is no yield expression to receive the value; the generator stays just-created
     St(s.gens, 0, Append(s.hist, ent(OExc("TypeError"))), <<>>)
  ELSE
     St([SetSt(s.gens, Chain(s.gens, g), "running") EXCEPT ![Inner(s.gens, g)].inbox = v], g, Append(s.hist, ent(ORunning)), <<>>)

\* the running call ends with outcome o, the generators being G
EndF(s, G, o) == St(G, 0, [s.hist EXCEPT ![Len(s.hist)].out = o, ![Len(s.hist)].log = s.log], s.log)

\* one small step of the innermost generator c of the active chain
StepF(s) ==
  LET G == s.gens
      c == Inner(G, s.active)
      g == G[c]
      p == Parent(G, c)
      Go(G2) == [s EXCEPT !.gens = G2]                                   \* internal step, nothing recorded
      GoLog(G2, e) == [s EXCEPT !.gens = G2, !.log = Append(s.log, e)]   \* internal step recording an event
  IN
  IF g.ks = <<>> THEN
     \* generator c finished with completion g.comp
     LET r  == IF g.comp.t = "exc" THEN OExc(g.comp.v.s) ELSE OStop(g.comp.v)
         Gd == [G EXCEPT ![c].st = "done", ![c].how = IF g.comp.t = "exc" THEN "exc" ELSE "ret"] IN
     IF p = 0 THEN EndF(s, Gd, r)
     ELSE \* deliver to the delegating parent: the value of the yield-from expression, or the exception
          IF g.comp.t = "exc" THEN Go([Gd EXCEPT ![p].sub = 0, ![p].comp = g.comp])
          ELSE [s EXCEPT !.gens = [Gd EXCEPT ![p].sub = 0, ![p].comp = AfterYFComp(g.comp.v, G[p].ythen)],
                         !.log = AfterYFLog(s.log, g.comp.v, G[p].ythen)]
  ELSE LET f == GTop(g.ks) IN
    IF g.comp.t # "norm" THEN
       \* abrupt completion (return or exception in flight): unwind one frame
       IF f.k = "tryf" THEN
          \* the pending finally block runs with the completion saved
          Go([G EXCEPT ![c].ks = Append(Append(GPop(g.ks), [k |-> "fin", saved |-> g.comp]), SeqF(f.fin)), ![c].comp = Norm])
       ELSE IF f.k = "inlf" /\ g.comp.t = "ret" THEN
          \* (specification-only) the in-place sub-body returned: that is the value of the yield from
          [s EXCEPT !.gens = [G EXCEPT ![c].ks = GPop(g.ks), ![c].comp = AfterYFComp(g.comp.v, f.then)],
                    !.log = AfterYFLog(s.log, g.comp.v, f.then)]
       ELSE Go([G EXCEPT ![c].ks = GPop(g.ks)])
    ELSE IF f.k = "seq" /\ f.ss = <<>> THEN Go([G EXCEPT ![c].ks = GPop(g.ks)])
    ELSE IF f.k = "loop" THEN
       \* loop position: the remaining iteration count lives in the frame
       IF f.i > 0 THEN Go([G EXCEPT ![c].ks = Append(Append(GPop(g.ks), [f EXCEPT !.i = @ - 1]), SeqF(f.body))])
       ELSE Go([G EXCEPT ![c].ks = GPop(g.ks)])
    ELSE IF f.k = "tryf" THEN
       \* the try body completed normally: run the finally block
       Go([G EXCEPT ![c].ks = Append(Append(GPop(g.ks), [k |-> "fin", saved |-> Norm]), SeqF(f.fin))])
    ELSE IF f.k = "fin" THEN
       \* the finally block completed normally: the saved completion continues
       Go([G EXCEPT ![c].ks = GPop(g.ks), ![c].comp = f.saved])
    ELSE IF f.k = "inlf" THEN [s EXCEPT !.gens = [G EXCEPT ![c].ks = GPop(g.ks), ![c].comp = AfterYFComp(NoneV, f.then)],
                                        !.log = AfterYFLog(s.log, NoneV, f.then)]
    ELSE IF f.k = "resume" THEN
       \* the generator was suspended at a yield and has now been resumed with g.inbox
       IF f.recv THEN GoLog([G EXCEPT ![c].ks = GPop(g.ks)], Ev("r", g.inbox)) ELSE Go([G EXCEPT ![c].ks = GPop(g.ks)])
    ELSE \* f.k = "seq" with statements left
     LET x == Head(f.ss)
         rest == Append(GPop(g.ks), SeqF(Tail(f.ss)))
         \* suspend the whole chain: the call ends with the yielded value
         Suspend(v, recv) == EndF(s, SetSt([G EXCEPT ![c].ks = Append(rest, [k |-> "resume", recv |-> recv])], Chain(G, s.active), "suspended"), OYield(v))
     IN
     CASE x.k = "log"   -> GoLog([G EXCEPT ![c].ks = rest], Ev("l", IntV(x.n)))
       [] x.k = "yield" -> Suspend(IntV(x.v), FALSE)
       [] x.k = "recv"  -> Suspend(IntV(x.v), TRUE)
       [] x.k = "yloc"  -> Suspend(IntV(g.loc), FALSE)
       [] x.k = "inc"   -> Go([G EXCEPT ![c].ks = rest, ![c].loc = @ + 1])
       [] x.k = "loop"  -> Go([G EXCEPT ![c].ks = Append(rest, [k |-> "loop", body |-> x.body, i |-> x.n])])
       [] x.k = "tryf"  -> Go([G EXCEPT ![c].ks = Append(Append(rest, [k |-> "tryf", fin |-> x.fin]), SeqF(x.body))])
       [] x.k = "ret"   -> Go([G EXCEPT ![c].ks = rest, ![c].comp = [t |-> "ret", v |-> IntV(x.v)]])
       [] x.k = "retv"  -> Go([G EXCEPT ![c].ks = rest, ![c].comp = [t |-> "ret", v |-> x.val]])
       \* raise StopIteration(v) in a generator body (Python 3.4, before PEP 479): the generator ends exactly as by
       \* `return v` - pending finally blocks run, the caller of next() sees StopIteration(v), a delegating yield from
       \* evaluates to v
       [] x.k = "rstop" -> Go([G EXCEPT ![c].ks = rest, ![c].comp = [t |-> "ret", v |-> IntV(x.v)]])
       [] x.k = "raise" -> Go([G EXCEPT ![c].ks = rest, ![c].comp = [t |-> "exc", v |-> StrV("KeyError")]])
       [] x.k = "yf"    -> \* create the child; it is started with next(), whatever was sent to the parent before
                           Go(Append([G EXCEPT ![c].ks = rest, ![c].sub = Len(G) + 1, ![c].ythen = x.then], [NewGen(x.b) EXCEPT !.st = "running", !.par = c]))
       [] x.k = "inl"   -> Go([G EXCEPT ![c].ks = Append(Append(rest, [k |-> "inlf", then |-> x.then]), SeqF(x.body))])

\* run the started call to its end (suspension, return or exception); MaxMicro bounds the number of small steps
RunF(s) == FoldLeft(LAMBDA acc, i : IF acc.active = 0 THEN acc ELSE StepF(acc), s, [i \in 1..MaxMicro |-> i])

Start(g, v) == active = 0 /\ Len(hist) < MaxOps /\ Becomes(StartF(Cur, g, v))
Step == active # 0 /\ Becomes(StepF(Cur))
\* one whole call as one step
Call(g, v) == active = 0 /\ Len(hist) < MaxOps /\ Becomes(RunF(StartF(Cur, g, v)))

Drive == \E g \in 1..NTop, v \in SendVals : Start(g, v)
Next == Step \/ Drive
Spec == Init /\ [][Next]_vars
\* the same behaviours at the granularity of driver calls (used to enumerate histories)
NextCalls == \E g \in 1..NTop, v \in SendVals : Call(g, v)
SpecCalls == Init /\ [][NextCalls]_vars

-----------------------------------------------------------------------------
(* The clauses of C05 as invariants of the model.                                               *)

Completed(h) == h.out.k # "running"

\* an exhausted generator stays exhausted: once a call ended with StopIteration or an exception raised
\* by the body, every later call raises StopIteration (value None) and runs nothing
\* (hist only grows, so it suffices to state it for the latest call j)
DoneAbsorbing == LET j == Len(hist) IN \A i \in 1..(j - 1) :
   (hist[i].g = hist[j].g /\ Completed(hist[j])
      /\ hist[i].out.k \in {"stop", "exc"} /\ ~(hist[i].pre = "created" /\ hist[i].sent # NoneV))
      => (hist[j].out = OStop(NoneV) /\ hist[j].log = <<>> /\ hist[j].pre \in {"done-ret", "done-exc"})
DoneStatus == \A g \in 1..Len(gens) : gens[g].st = "done" => gens[g].ks = <<>>

\* send(non-None) to a just-created generator is TypeError and the generator stays just-created
SendCreated == LET i == Len(hist) IN
   (i > 0 /\ hist[i].pre = "created" /\ hist[i].sent # NoneV)
      => (hist[i].out = OExc("TypeError") /\ hist[i].log = <<>> /\ gens[hist[i].g].st = "created")

\* laziness: nothing of a body runs before the first next(); between calls nothing runs
Untouched(g) == gens[g].ks = << SeqF(Bodies[top[g]]) >> /\ gens[g].loc = 0 /\ gens[g].sub = 0
LazyCreation == \A g \in 1..NTop : gens[g].st = "created" => Untouched(g)
Quiescent == active = 0 => \A g \in 1..Len(gens) : gens[g].st # "running"
\* a call that ended with a yield left the generator suspended exactly at that yield: the frame on
\* top of the control stack of the innermost generator is the resume point
SuspendedAtYield == \A g \in 1..NTop : (active = 0 /\ gens[g].st = "suspended")
      => LET c == Inner(gens, g) IN gens[c].ks # <<>> /\ GTop(gens[c].ks).k = "resume"

\* in the call-granular specification every call has run to its end (MaxMicro is large enough)
RunComplete == active = 0 /\ \A i \in 1..Len(hist) : Completed(hist[i])

TypeOK == /\ active \in 0..NTop
          /\ \A i \in 1..Len(hist) : hist[i].g \in 1..NTop /\ hist[i].out.k \in {"yield", "stop", "exc", "running"}
          /\ \A g \in 1..Len(gens) : gens[g].st \in {"created", "suspended", "running", "done"}

-----------------------------------------------------------------------------
(* yield from is transparent: a body that delegates to a sub-generator and the same body with  *)
(* the sub-generator's statements written in place ("inl", its return value becoming the value   *)
(* of the expression) are indistinguishable under every history of next/send. Checked by running *)
(* both side by side (NTop = 2, TopChoices pairs a body with its in-place form) in lock-step.    *)
DriveLock == \E g \in 1..NTop, v \in SendVals :
   /\ Start(g, v)
   /\ IF Len(hist) % 2 = 0 THEN g = 1 ELSE (g = 2 /\ v = hist[Len(hist)].sent)
NextLock == Step \/ DriveLock
SpecLock == Init /\ [][NextLock]_vars
\* One design-check run for both small-step readings: assignments in LockChoices are driven in lock-step,
\* the others (a template and an idle partner) by every history of MaxOpsOne calls on instance 1.
DriveOne == Len(hist) < MaxOpsOne /\ \E v \in SendVals : Start(1, v)
NextDesign == Step \/ (IF top \in LockChoices THEN DriveLock ELSE DriveOne)
SpecDesign == Init /\ [][NextDesign]_vars
Transparent == (top \in LockChoices /\ active = 0 /\ Len(hist) > 0 /\ Len(hist) % 2 = 0)
      => LET a == hist[Len(hist) - 1] b == hist[Len(hist)] IN a.out = b.out /\ a.log = b.log /\ a.pre = b.pre

-----------------------------------------------------------------------------
(* Export: one record per terminal behaviour.                                                   *)
Final == active = 0 /\ Len(hist) = MaxOps
Emit == Final => PrintT(ToJson([rec |-> "beh", top |-> top, hist |-> hist]))
=============================================================================
