SPECIFICATION Spec
INVARIANT TypeOK
INVARIANT Total
INVARIANT NoStuck
INVARIANT Progress
CHECK_DEADLOCK FALSE
