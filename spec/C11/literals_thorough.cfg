SPECIFICATION Spec
CONSTANT MaxPieces = 3
INVARIANTS TypeOK Emit
CHECK_DEADLOCK FALSE
