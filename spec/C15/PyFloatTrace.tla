---------------------------- MODULE PyFloatTrace ----------------------------
(* Trace validation for C15: every line of trace.ndjson is one float / mixed / complex operation  *)
(* performed by the real gpython code with its operands (doubles as their exact 64-bit patterns,   *)
(* transported as 8 bytes because TLC integers are 32-bit; ints as BigNum digit sequences) and     *)
(* what was observed.  A line is accepted iff the observation is what PyFloatOps!Expected allows.  *)
(* One initial state per line; the check runs in the Next step so that all workers share it.       *)
(* Rejected lines are exported as JSON with the finding key computed from the specification's      *)
(* case partition and the expected outcome.                                                        *)
EXTENDS PyFloatOps, Json
Lines == ndJsonDeserialize("trace.ndjson")
VARIABLES l, v
Fld(R, f, d) == IF f \in DOMAIN R THEN R[f] ELSE d
Operand(r) == IF r.t = "gone" THEN [t |-> "gone"] ELSE IF r.t = "f" THEN [t |-> "f", f |-> DecodeF(r.b)]
              ELSE IF r.t = "c" THEN [t |-> "c", re |-> DecodeF(r.re), im |-> DecodeF(r.im)]
              ELSE [t |-> "i", z |-> r.z]
NoOperand == [t |-> "i", z |-> ZZero]
FullObs(o) == [k |-> o.k, f |-> IF "b" \in DOMAIN o THEN DecodeF(o.b) ELSE NaN, f2 |-> IF "b2" \in DOMAIN o THEN DecodeF(o.b2) ELSE NaN,
               v |-> Fld(o, "v", ZZero), t |-> Fld(o, "t", 0), txt |-> Fld(o, "txt", <<>>), bases |-> Fld(o, "bases", <<>>)]
NoObs == [k |-> "none", f |-> NaN, f2 |-> NaN, v |-> ZZero, t |-> 0, txt |-> <<>>, bases |-> <<>>]
Full(R) == [op |-> R.op, x |-> IF "x" \in DOMAIN R THEN Operand(R.x) ELSE NoOperand, y |-> IF "y" \in DOMAIN R THEN Operand(R.y) ELSE NoOperand,
            txt |-> Fld(R, "txt", <<>>), o |-> FullObs(R.o), o2 |-> IF "o2" \in DOMAIN R THEN FullObs(R.o2) ELSE NoObs,
            \* the operand objects re-read after the operation (Go API route); absent = not observed = unchanged
            xa |-> IF "xa" \in DOMAIN R THEN Operand(R.xa) ELSE IF "x" \in DOMAIN R THEN Operand(R.x) ELSE NoOperand,
            ya |-> IF "ya" \in DOMAIN R THEN Operand(R.ya) ELSE IF "y" \in DOMAIN R THEN Operand(R.y) ELSE NoOperand]
\* the expected outcome in transportable form (doubles as sign / mantissa digits / exponent)
ShowF(f) == [k |-> f.k, s |-> f.s, m |-> f.m, e |-> f.e]
Verdict(n) ==
  LET C == Full(Lines[n]) e == Expected(C) IN
  IF e.k = "ood" THEN (IF PrintT(ToJson([l |-> n, key |-> "OOD"])) THEN "bad" ELSE "bad")
  ELSE LET resultOk == Accept(C, e)
           operandsOk == OperandsPreserved(C)
           r1 == resultOk \/ PrintT(ToJson([l |-> n, key |-> FindingKey(C, e),
                                            exp |-> [k |-> e.k, f |-> ShowF(e.f), f2 |-> ShowF(e.f2), v |-> e.v, t |-> e.t, ename |-> e.ename]]))
           r2 == operandsOk \/ PrintT(ToJson([l |-> n, key |-> MutationKey(C)]))      \* a second record, independent of the result
       IN IF r1 /\ r2 /\ resultOk /\ operandsOk THEN "ok" ELSE "bad"
Init == l \in 1..Len(Lines) /\ v = "todo"
Next == v = "todo" /\ v' = Verdict(l) /\ UNCHANGED l
Spec == Init /\ [][Next]_<<l, v>>
TypeOK == v \in {"todo", "ok", "bad"}
=============================================================================
