---- MODULE SymtableAlg ----
\* Pass 2 of /repo/symtable/symtable.go (SymTable.Analyze: AnalyzeBlock, AnalyzeName, AnalyzeCells,
\* Symbols.Update -- a transcription of CPython's symtable.c analyze_block) over the result of
\* pass 1 (SymTable.Parse/AddDef: def-use flags per block).
\*
\* Every iteration over a Go map in that code (`for name, v := range st.Symbols` in AnalyzeBlock,
\* `for name, scope := range scopes` in AnalyzeCells, `for name, symbol := range symbols` and
\* `for name := range free` in Symbols.Update) is ONE STEP OPERATOR PER ELEMENT here
\* (AnalyzeName, CellStep, UpdSymStep, UpdFreeStep).  Two drivers use the step operators:
\*   * Analyze(Blocks, Ord)  -- constant level: folds the steps in the explicit orders Ord[b]
\*     (used to compute expectations for generated programs and as the canonical result);
\*   * SymtableRun.tla       -- a state machine that takes the elements of every loop one action
\*     at a time in an arbitrary order, so that TLC quantifies over all iteration orders.
\*
\* A program is a sequence Blocks of records [type, parent, flags]; parent < own index (children
\* in definition order = index order), parent = 0 for the module (index 1);
\* flags : Names -> SUBSET {"G","L","P","N","U"}
\*   G global stmt (DefGlobal), L assigned/deleted/imported (DefLocal|DefImport), P parameter
\*   (DefParam), N nonlocal stmt (DefNonlocal), U used (DefUse)
\* Pass 1 also records every `global n` of any block on the MODULE block (AddDef, DefGlobal
\* branch); callers build Blocks accordingly (see WithModuleGlobals).
EXTENDS Integers, Sequences, FiniteSets, TLC, SequencesExt, Functions
CONSTANT Names
NIL == [nil |-> TRUE, s |-> {}]     \* the module block's `bound` is a nil map
BS(S) == [nil |-> FALSE, s |-> S]
INV == "-"  LOC == "local"  GE == "global_explicit"  GI == "global_implicit"  FREE == "free"  CELL == "cell"
Bound(f) == f \cap {"L", "P"} # {}
Children(Blocks, b) == { c \in 1..Len(Blocks) : Blocks[c].parent = b }
ChildSeq(Blocks, b) == SetToSortSeq(Children(Blocks, b), <)
Syms(Blocks, b) == { n \in Names : Blocks[b].flags[n] # {} }       \* keys of st.Symbols after pass 1
IsNested(Blocks, b) == \* st.Nested: some proper ancestor is a function
  LET RECURSIVE Anc(_)
      Anc(x) == IF x = 0 THEN FALSE ELSE IF Blocks[x].type = "function" THEN TRUE ELSE Anc(Blocks[x].parent)
  IN Anc(Blocks[b].parent)
\* AddDef: a `global n` anywhere also sets DefGlobal on the module block's symbol
\* (TLCEval: TLC evaluates [x \in S |-> e] lazily and re-evaluates e at every application; the
\* program tables are forced once)
WithModuleGlobals(raw) ==
  TLCEval([i \in 1..Len(raw) |->
     IF i = 1 THEN [raw[1] EXCEPT !.flags = TLCEval([n \in Names |->
                       IF \E j \in 1..Len(raw) : "G" \in raw[j].flags[n] THEN @[n] \cup {"G"} ELSE @[n]])]
     ELSE raw[i]])

\* ---- AnalyzeName: one iteration of `for name, v := range st.Symbols`; s is the loop state ----
\* s = [scopes, local, global, bound, free, err, stfree]; bound/free/global are the (copied) maps
\* AnalyzeBlock received, mutated in place exactly as the Go code does.
NameState0(bound, free, global) ==
  [scopes |-> [n \in Names |-> INV], local |-> {}, global |-> global, bound |-> bound,
   free |-> free, err |-> "", stfree |-> FALSE]
AnalyzeName(Blocks, b, s, name) ==
  LET f == Blocks[b].flags[name] IN
  IF s.err # "" \/ f = {} THEN s       \* only names present in st.Symbols are visited
  ELSE IF "G" \in f THEN
       IF "P" \in f THEN [s EXCEPT !.err = "param and global"]
       ELSE IF "N" \in f THEN [s EXCEPT !.err = "nonlocal and global"]
       ELSE [s EXCEPT !.scopes[name] = GE, !.global = @ \cup {name},
                      !.bound = IF @.nil THEN @ ELSE BS(@.s \ {name})]
  ELSE IF "N" \in f THEN
       IF "P" \in f THEN [s EXCEPT !.err = "param and nonlocal"]
       ELSE IF s.bound.nil THEN [s EXCEPT !.err = "nonlocal at module level"]
       ELSE IF name \notin s.bound.s THEN [s EXCEPT !.err = "no binding for nonlocal"]
       ELSE [s EXCEPT !.scopes[name] = FREE, !.free = @ \cup {name}, !.stfree = TRUE]
  ELSE IF Bound(f) THEN [s EXCEPT !.scopes[name] = LOC, !.local = @ \cup {name}, !.global = @ \ {name}]
  ELSE IF ~s.bound.nil /\ name \in s.bound.s THEN [s EXCEPT !.scopes[name] = FREE, !.free = @ \cup {name}, !.stfree = TRUE]
  ELSE IF name \in s.global THEN [s EXCEPT !.scopes[name] = GI]
  ELSE [s EXCEPT !.scopes[name] = GI, !.stfree = (@ \/ IsNested(Blocks, b))]

\* names visible in nested blocks (newbound / newglobal of AnalyzeBlock); `bound0`/`global0` are
\* the maps as received (class blocks copy them BEFORE the loop), s1 is the state after the loop
NewBound(Blocks, b, bound0, s1) ==
  IF Blocks[b].type = "class" THEN bound0.s \cup {"__class__"}
  ELSE (IF Blocks[b].type = "function" THEN s1.local ELSE {}) \cup s1.bound.s
NewGlobal(Blocks, b, global0, s1) == IF Blocks[b].type = "class" THEN global0 ELSE s1.global

\* ---- AnalyzeCells: one iteration of `for name, scope := range scopes`; c = [scopes, free] ----
CellStep(c, n) == IF c.scopes[n] = LOC /\ n \in c.free
                  THEN [scopes |-> [c.scopes EXCEPT ![n] = CELL], free |-> c.free \ {n}] ELSE c
\* DropClassFree
DropClass(c) == [c EXCEPT !.free = @ \ {"__class__"}]

\* ---- Symbols.Update ----
\* u : Names -> scope is the Scope field of st.Symbols (INV = no such symbol)
\* first loop `for name, symbol := range symbols`: symbol.Scope = scopes[name]
UpdSymStep(Blocks, b, u, scopes, n) == IF n \in Syms(Blocks, b) THEN [u EXCEPT ![n] = scopes[n]] ELSE u
\* second loop `for name := range free`: an unresolved free name of a child becomes an implicit
\* FREE symbol of this block when it is bound further out
UpdFreeStep(Blocks, b, u, bound, n) ==
  IF n \notin Names THEN u
  ELSE IF n \in Syms(Blocks, b) \/ u[n] # INV THEN u          \* symbol exists: continue
  ELSE IF bound.nil \/ n \notin bound.s THEN u                  \* a global: continue
  ELSE [u EXCEPT ![n] = FREE]

\* ---- AnalyzeBlock, functional driver: returns [res, free, err]; res : block -> (name -> scope) ----
\* Ord[b] = [names, cells, usym, ufree]: the iteration orders of the four loops of block b
\* (sequences over Names; elements that are not in the iterated map are skipped by the steps)
RECURSIVE AnalyzeBlock(_, _, _, _, _, _)
AnalyzeBlock(Blocks, Ord, b, bound, free, global) ==
  LET isClass == Blocks[b].type = "class"
      isFunc == Blocks[b].type = "function"
      s1 == FoldLeft(LAMBDA s, n : AnalyzeName(Blocks, b, s, n), NameState0(bound, free, global), Ord[b].names)
      newbound == NewBound(Blocks, b, bound, s1)
      newglobal == NewGlobal(Blocks, b, global, s1)
      kids == ChildSeq(Blocks, b)
      kidRes == [k \in 1..Len(kids) |-> AnalyzeBlock(Blocks, Ord, kids[k], BS(newbound), {}, newglobal)]
      kidErr == LET bad == { k \in 1..Len(kids) : kidRes[k].err # "" } IN
                IF bad = {} THEN "" ELSE kidRes[CHOOSE k \in bad : \A j \in bad : k <= j].err
      allfree == UNION { kidRes[k].free : k \in 1..Len(kids) }
      c0 == [scopes |-> s1.scopes, free |-> allfree]
      c1 == IF isFunc THEN FoldLeft(LAMBDA c, n : IF n \in Syms(Blocks, b) THEN CellStep(c, n) ELSE c, c0, Ord[b].cells)
            ELSE IF isClass THEN DropClass(c0) ELSE c0
      u0 == [n \in Names |-> INV]
      u1 == FoldLeft(LAMBDA u, n : UpdSymStep(Blocks, b, u, c1.scopes, n), u0, Ord[b].usym)
      u2 == FoldLeft(LAMBDA u, n : IF n \in c1.free THEN UpdFreeStep(Blocks, b, u, s1.bound, n) ELSE u, u1, Ord[b].ufree)
      mine == [x \in {b} |-> u2]
      below == LET RECURSIVE Merge(_, _)
                   Merge(k, acc) == IF k > Len(kids) THEN acc ELSE Merge(k + 1, acc @@ kidRes[k].res)
               IN Merge(1, mine)
  IN [res |-> below,
      free |-> s1.free \cup c1.free,
      err |-> IF s1.err # "" THEN s1.err ELSE kidErr]
Analyze(Blocks, Ord) == AnalyzeBlock(Blocks, Ord, 1, NIL, {}, {})
\* the same order in every block
UniformOrd(Blocks, sq) == [b \in 1..Len(Blocks) |-> [names |-> sq, cells |-> sq, usym |-> sq, ufree |-> sq]]
====
