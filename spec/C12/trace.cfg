SPECIFICATION Spec
CHECK_DEADLOCK FALSE
INVARIANTS Accepted ObservedDepthOK
