//go:build verif

// C19: a module body runs once per context; all importers share the module.
//
//  1. TLC checks the clauses of C19 on spec/C19/PyImport.tla (run-once, no re-entry, one object per
//     name with every binder counted, star-import exactness, termination of cycles, usability
//     after failures) for every configuration of the tier's families, and prints every terminal
//     behaviour: the bodies of the modules, and per statement of the main program the log the
//     modules must have written and the module table afterwards.
//  2. R-binding: the harness renders each configuration to module files in a scratch directory
//     (and to Go ModuleImpls registered with py.RegisterModule), runs the main program statement
//     by statement in a real py.Context and compares, after every statement, the log and the
//     projected module table with the behaviour(s) TLC printed for that configuration.
//     Every few cases a second context imports the same modules interleaved with the first one:
//     each context must show a complete behaviour of its own (the per-context clause).
//
// Nothing here knows what an import does: the templates below only render statements and
// observations; every expected log entry comes from TLC.
package main

import (
	"crypto/sha1"
	"encoding/json"
	"fmt"
	"math/rand"
	"os"
	"path/filepath"
	"sort"
	"strconv"
	"strings"
	"sync"
	"sync/atomic"
	"time"

	"gpverif/common"
	"gpverif/pyrun"

	"github.com/go-python/gpython/py"
)

// ---------------------------------------------------------------------------------------
// what TLC prints

type Stmt struct {
	Form   string            `json:"form"`
	T      string            `json:"t"`
	U      string            `json:"u,omitempty"`
	Vals   map[string]string `json:"vals,omitempty"`
	HasAll bool              `json:"hasall,omitempty"`
	All    []string          `json:"all,omitempty"`
	Tuple  bool              `json:"astuple,omitempty"`
}
type Obs struct {
	Store []string   `json:"store"`
	Log   [][]string `json:"log"`
	Cls   [][]string `json:"cls"`
}
type Rec struct {
	Fam    string            `json:"fam"`
	Kinds  map[string]string `json:"kinds"`
	Bodies map[string][]Stmt `json:"bodies"`
	Policy string            `json:"policy"`
	StarEr string            `json:"starerr"`
	Alts   int               `json:"alts"`
	Obs    []Obs             `json:"obs"`
}
type rawRec struct {
	Fam    string          `json:"fam"`
	Kinds  json.RawMessage `json:"kinds"`
	Bodies json.RawMessage `json:"bodies"`
}

// a case = one configuration with every behaviour the model allows for it
type Case struct {
	Family string
	Key    string
	Alts   []*Rec
}

// ---------------------------------------------------------------------------------------
// the log module: a Go module registered once; each context gets its own instance and buffer

type ctxLog struct {
	mu      sync.Mutex
	entries [][]string
}

var logs sync.Map // py.Context -> *ctxLog

const maxLog = 300

func logOf(self py.Object) *ctxLog {
	m, ok := self.(*py.Module)
	if !ok {
		return nil
	}
	v, _ := logs.LoadOrStore(m.Context, &ctxLog{})
	return v.(*ctxLog)
}

func strOf(o py.Object) string {
	switch x := o.(type) {
	case py.String:
		return string(x)
	case py.Int:
		return strconv.FormatInt(int64(x), 10)
	}
	s, err := py.Str(o)
	if err != nil {
		return "<unprintable>"
	}
	return string(s.(py.String))
}

func registerLogModule() {
	py.RegisterModule(&py.ModuleImpl{Info: py.ModuleInfo{Name: "vlog"},
		Methods: []*py.Method{
			py.MustNewMethod("log", func(self py.Object, args py.Tuple) (py.Object, error) {
				l := logOf(self)
				e := make([]string, len(args))
				for i, a := range args {
					e[i] = strOf(a)
				}
				l.mu.Lock()
				l.entries = append(l.entries, e)
				n := len(l.entries)
				l.mu.Unlock()
				if n > maxLog {
					// no configuration writes this much: a module is being re-entered without end (gpython has no
					// recursion limit and a Go stack overflow cannot be recovered). SystemExit passes every guard.
					return nil, py.ExceptionNewf(py.SystemExit, "runaway import")
				}
				return py.None, nil
			}, 0, "log(*fields)"),
			// same(object, name): is the object the one registered under name in this context's module table?
			py.MustNewMethod("same", func(self py.Object, args py.Tuple) (py.Object, error) {
				if m, ok := self.(*py.Module); ok && len(args) == 2 {
					if reg, err := m.Context.Store().GetModule(strOf(args[1])); err == nil && py.Object(reg) == args[0] {
						return py.String("same"), nil
					}
				}
				return py.String("other"), nil
			}, 0, "same(object, name)"),
			// exc(importer, index, exception): an exception class the statement's guard does not name
			py.MustNewMethod("exc", func(self py.Object, args py.Tuple) (py.Object, error) {
				l := logOf(self)
				var e []string
				for _, a := range args[:len(args)-1] {
					e = append(e, strOf(a))
				}
				e = append(e, "exc:"+args[len(args)-1].Type().Name)
				l.mu.Lock()
				l.entries = append(l.entries, e)
				l.mu.Unlock()
				return py.None, nil
			}, 0, "exc(*fields, exception)"),
		}})
}

func drain(c py.Context) [][]string {
	v, ok := logs.Load(c)
	if !ok {
		return nil
	}
	l := v.(*ctxLog)
	l.mu.Lock()
	defer l.mu.Unlock()
	out := l.entries
	l.entries = nil
	return out
}

// ---------------------------------------------------------------------------------------
// rendering

type renderer struct {
	worker  int
	kinds   map[string]string
	lateDir string // where the files of "late" modules are written: not on sys.path until the main program appends it
}

// concrete module name: private to the worker. py.RegisterModule is process-wide, and a module object that
// leaked between contexts must show up as a wrong log within one worker (which drives its contexts from one
// goroutine), not as a data race between workers. worker 0 renders the plain names (dump for CPython).
func (r *renderer) conc(t string) string {
	if t == "nx" {
		return "nx_nosuchmodule"
	}
	if r.worker == 0 {
		return t
	}
	switch r.kinds[t] {
	case "gosrc", "goglob":
		return fmt.Sprintf("%s_g%d", t, r.worker)
	}
	return fmt.Sprintf("%s_w%d", t, r.worker)
}

func q(s string) string { return "'" + s + "'" }

// one guarded import statement with the observation of what it bound
func (r *renderer) stmt(importer string, idx int, s Stmt) string {
	T := r.conc(s.T)
	I, ix := q(importer), q(strconv.Itoa(idx))
	var b strings.Builder
	w := func(l string) { b.WriteString(l + "\n") }
	w("try:")
	modObs := func(name string) {
		w("    try:")
		w("        _k = " + name + "._n")
		w("    except AttributeError:")
		w("        _k = 0")
		w("    " + name + "._n = _k + 1")
		w("    try:")
		w("        _s = " + name + ".v")
		w("    except AttributeError:")
		w("        _s = 'AttributeError'")
		w("    vlog.log(" + I + ", " + ix + ", 'mod', " + q(s.T) + ", _k + 1, _s, vlog.same(" + name + ", " + q(T) + "))")
	}
	switch s.Form {
	case "addpath":
		// the directory of the "late" modules becomes part of this context's search path
		w("    import sys")
		w("    sys.path.append(" + q(r.lateDir) + ")")
		w("    vlog.log(" + I + ", " + ix + ", 'addpath')")
	case "import":
		w("    import " + T)
		modObs(T)
	case "import_as":
		w("    import " + T + " as al")
		modObs("al")
	case "from":
		w("    from " + T + " import v")
		w("    vlog.log(" + I + ", " + ix + ", 'from', v)")
	case "from_as":
		w("    from " + T + " import v as w")
		w("    vlog.log(" + I + ", " + ix + ", 'from', w)")
	case "frommod", "frommod_as":
		// a module name as the imported name: observed is only WHICH module object got bound
		U, b := r.conc(s.U), r.conc(s.U)
		if s.Form == "frommod_as" {
			w("    from " + T + " import " + U + " as mx")
			b = "mx"
		} else {
			w("    from " + T + " import " + U)
		}
		w("    if " + b + ".__name__ == " + q(U) + ":")
		w("        vlog.log(" + I + ", " + ix + ", 'frommod', " + q(s.U) + ")")
		w("    else:")
		w("        vlog.log(" + I + ", " + ix + ", 'frommod', 'another-object')")
	case "from_missing":
		w("    from " + T + " import zz")
		w("    vlog.log(" + I + ", " + ix + ", 'bound-a-missing-name')")
	case "star":
		w("    from " + T + " import *")
		for i, n := range []string{"v", "_h", "pub", "w"} {
			x := "_x" + strconv.Itoa(i+1)
			w("    try:")
			w("        " + x + " = " + n)
			w("    except NameError:")
			w("        " + x + " = '-'")
		}
		w("    vlog.log(" + I + ", " + ix + ", 'star', _x1, _x2, _x3, _x4)")
	}
	w("except ImportError:")
	w("    vlog.log(" + I + ", " + ix + ", 'ImportError')")
	w("except AttributeError:") // only the import statement itself can raise it here: the observations guard their own
	w("    vlog.log(" + I + ", " + ix + ", 'AttributeError')")
	w("except ValueError:")
	if importer == "main" {
		w("    vlog.log(" + I + ", " + ix + ", 'ValueError')")
	} else {
		w("    raise")
	}
	w("except Exception as _e:")
	w("    vlog.exc(" + I + ", " + ix + ", _e)")
	return b.String()
}

func (r *renderer) body(m string, body []Stmt) string {
	var b strings.Builder
	b.WriteString("import vlog\n")
	for i, s := range body {
		switch s.Form {
		case "run", "end":
			b.WriteString("vlog.log(" + q(s.Form) + ", " + q(m) + ")\n")
		case "set":
			b.WriteString(setSrc(s))
		case "raise":
			b.WriteString("raise ValueError('boom')\n")
		default:
			b.WriteString(r.stmt(m, i+1, s))
		}
	}
	return b.String()
}

func setSrc(s Stmt) string {
	var names []string
	for n := range s.Vals {
		names = append(names, n)
	}
	sort.Strings(names)
	var b strings.Builder
	for _, n := range names {
		b.WriteString(n + " = " + q(s.Vals[n]) + "\n")
	}
	if s.HasAll {
		var l []string
		for _, n := range s.All {
			l = append(l, q(n))
		}
		if s.Tuple {
			if len(l) == 1 {
				l[0] += ","
			}
			b.WriteString("__all__ = (" + strings.Join(l, ", ") + ")\n")
		} else {
			b.WriteString("__all__ = [" + strings.Join(l, ", ") + "]\n")
		}
	}
	return b.String()
}

// ---------------------------------------------------------------------------------------
// running one case on real contexts

type step struct {
	Store []string   `json:"store"`
	Log   [][]string `json:"log"`
}

type world struct {
	r     *renderer
	dir   string
	mods  []string
	mains []string
}

func prepare(worker int, dir string, rec *Rec) (*world, error) {
	r := &renderer{worker: worker, kinds: rec.Kinds, lateDir: filepath.Join(dir, "late")}
	w := &world{r: r, dir: dir}
	old, _ := filepath.Glob(filepath.Join(dir, "*.py"))
	for _, f := range old {
		os.Remove(f)
	}
	os.RemoveAll(r.lateDir)
	for m := range rec.Kinds {
		w.mods = append(w.mods, m)
	}
	sort.Strings(w.mods)
	for _, m := range w.mods {
		body := rec.Bodies[m]
		switch rec.Kinds[m] {
		case "src":
			if err := os.WriteFile(filepath.Join(dir, r.conc(m)+".py"), []byte(r.body(m, body)), 0o644); err != nil {
				return nil, err
			}
		case "late":
			os.MkdirAll(r.lateDir, 0o755)
			if err := os.WriteFile(filepath.Join(r.lateDir, r.conc(m)+".py"), []byte(r.body(m, body)), 0o644); err != nil {
				return nil, err
			}
		case "gosrc":
			py.RegisterModule(&py.ModuleImpl{Info: py.ModuleInfo{Name: r.conc(m)}, CodeSrc: r.body(m, body)})
		case "goglob":
			g := py.StringDict{}
			for _, s := range body {
				if s.Form != "set" {
					return nil, fmt.Errorf("a Go module with globals only has a body step %q", s.Form)
				}
				for n, v := range s.Vals {
					g[n] = py.String(v)
				}
				if s.HasAll {
					if s.Tuple {
						t := py.Tuple{}
						for _, n := range s.All {
							t = append(t, py.String(n))
						}
						g["__all__"] = t
					} else {
						l := py.NewList()
						for _, n := range s.All {
							l.Append(py.String(n))
						}
						g["__all__"] = l
					}
				}
			}
			py.RegisterModule(&py.ModuleImpl{Info: py.ModuleInfo{Name: r.conc(m)}, Globals: g})
		}
	}
	for i, s := range rec.Bodies["main"] {
		w.mains = append(w.mains, r.stmt("main", i+1, s))
	}
	return w, nil
}

type session struct {
	w     *world
	c     *pyrun.Ctx
	steps []step
}

func (w *world) open() (*session, error) {
	c := pyrun.New(w.dir)
	if r := c.Exec("import vlog\n", 10*time.Second); r.Outcome() != "ok" {
		c.Close()
		return nil, fmt.Errorf("scaffold: import vlog: %s %s", r.Outcome(), r.Msg)
	}
	drain(c.Ctx)
	return &session{w: w, c: c}, nil
}

func (s *session) step(i int) {
	r := s.c.Exec(s.w.mains[i], 20*time.Second)
	l := drain(s.c.Ctx)
	if o := r.Outcome(); o != "ok" {
		l = append(l, []string{"main", strconv.Itoa(i + 1), "uncaught:" + o})
	}
	var st []string
	for _, m := range append(append([]string{}, s.w.mods...), "nx") { // the missing module must never appear in the table
		if _, err := s.c.Ctx.Store().GetModule(s.w.r.conc(m)); err == nil {
			st = append(st, m)
		}
	}
	s.steps = append(s.steps, step{Store: st, Log: l})
}

func (s *session) close() {
	logs.Delete(s.c.Ctx)
	s.c.Close()
}

// run executes the case in one context, or in two contexts interleaved statement by statement
func runCase(worker int, dir string, cs *Case, two bool) (a, b []step, err error) {
	w, err := prepare(worker, dir, cs.Alts[0])
	if err != nil {
		return nil, nil, err
	}
	sa, err := w.open()
	if err != nil {
		return nil, nil, err
	}
	defer sa.close()
	var sb *session
	if two {
		if sb, err = w.open(); err != nil {
			return nil, nil, err
		}
		defer sb.close()
	}
	for i := range w.mains {
		sa.step(i)
		if sb != nil {
			sb.step(i)
		}
	}
	if sb != nil {
		b = sb.steps
	}
	return sa.steps, b, nil
}

// ---------------------------------------------------------------------------------------
// comparison (equality only) and naming of divergences by the model's own case partition

type diff struct {
	key    string
	detail map[string]interface{}
}

func eqStrs(a, b []string) bool {
	if len(a) != len(b) {
		return false
	}
	for i := range a {
		if a[i] != b[i] {
			return false
		}
	}
	return true
}

var fieldNames = map[string][]string{
	"mod":  {"importer", "index", "kind", "target", "count", "value", "object"},
	"from": {"importer", "index", "kind", "value"},
	"frommod": {"importer", "index", "kind", "module"},
	"star": {"importer", "index", "kind", "v", "_h", "pub", "w"},
}

func entryKind(e []string) string {
	if len(e) == 2 {
		return e[0] // run / end
	}
	if len(e) >= 3 {
		return e[2]
	}
	return "?"
}

// the action of PyImport.tla that produced the expected entry and the class of its operands
func action(exp []string, cls []string) (string, string) {
	if len(cls) < 3 {
		return "?", "?"
	}
	switch cls[0] {
	case "body":
		return "RunBodyStep(" + cls[1] + ")", "kind=" + cls[2]
	case "raised":
		return "CatchInMain", "form=" + cls[1] + ",target=" + cls[2]
	}
	act := "BindNames"
	if cls[2] == "missing" || cls[2] == "unavailable" {
		act = "MissingModule"
	}
	return act, "form=" + cls[1] + ",target=" + cls[2]
}

func observedClass(exp, obs []string) string {
	ke, ko := entryKind(exp), entryKind(obs)
	if ke != ko || len(exp) != len(obs) {
		return ko
	}
	names := fieldNames[ke]
	for i := range exp {
		if exp[i] != obs[i] {
			if i < len(names) {
				return "wrong-" + names[i]
			}
			return "wrong-field"
		}
	}
	return "same"
}

func compare(alt *Rec, got []step) []diff {
	var ds []diff
	if len(got) != len(alt.Obs) {
		return []diff{{"C19|main|statements|observed=count-differs", nil}}
	}
	for i, o := range alt.Obs {
		g := got[i]
		mainCls := "?"
		if n := len(o.Cls); n > 0 {
			_, mainCls = action(o.Log[n-1], o.Cls[n-1])
		}
		n := len(o.Log)
		if len(g.Log) < n {
			n = len(g.Log)
		}
		j := 0
		if len(g.Log) == len(o.Log) {
			for ; j < n; j++ {
				if !eqStrs(o.Log[j], g.Log[j]) {
					act, cl := action(o.Log[j], o.Cls[j])
					ds = append(ds, diff{"C19|" + act + "|" + cl + "|observed=" + observedClass(o.Log[j], g.Log[j]),
						map[string]interface{}{"main_statement": i + 1, "entry": j + 1, "expected": o.Log[j], "observed": g.Log[j]}})
				}
			}
		} else {
			for j < n && eqStrs(o.Log[j], g.Log[j]) {
				j++
			}
			switch {
			case j < len(o.Log) && j < len(g.Log):
				act, cl := action(o.Log[j], o.Cls[j])
				ds = append(ds, diff{"C19|" + act + "|" + cl + "|observed=" + observedClass(o.Log[j], g.Log[j]) + ",log-length-differs",
					map[string]interface{}{"main_statement": i + 1, "entry": j + 1, "expected": o.Log[j], "observed": g.Log[j]}})
			case j < len(o.Log):
				act, cl := action(o.Log[j], o.Cls[j])
				ds = append(ds, diff{"C19|" + act + "|" + cl + "|observed=entry-missing",
					map[string]interface{}{"main_statement": i + 1, "entry": j + 1, "expected": o.Log[j]}})
			default:
				ds = append(ds, diff{"C19|after " + mainCls + "|end of statement|observed=extra-entry:" + entryKind(g.Log[j]),
					map[string]interface{}{"main_statement": i + 1, "entry": j + 1, "observed": g.Log[j]}})
			}
		}
		exp := append([]string(nil), o.Store...)
		sort.Strings(exp)
		if !eqStrs(exp, g.Store) {
			ds = append(ds, diff{"C19|ModuleTable|after " + mainCls + "|observed=" + storeDiff(exp, g.Store),
				map[string]interface{}{"main_statement": i + 1, "expected_table": exp, "observed_table": g.Store}})
		}
	}
	return ds
}

func storeDiff(exp, got []string) string {
	in := func(s []string, x string) bool {
		for _, y := range s {
			if x == y {
				return true
			}
		}
		return false
	}
	extra, missing := false, false
	for _, x := range got {
		if !in(exp, x) {
			extra = true
		}
	}
	for _, x := range exp {
		if !in(got, x) {
			missing = true
		}
	}
	switch {
	case extra && missing:
		return "table-differs"
	case extra:
		return "module-registered-that-must-not-be"
	}
	return "module-missing-from-table"
}

// judge returns nil if the observation is one of the allowed behaviours, else the divergences from the
// nearest one (fewest differing entries; the model's order of alternatives breaks ties)
func judge(cs *Case, got []step) (matched *Rec, ds []diff) {
	best := -1
	for _, alt := range cs.Alts {
		d := compare(alt, got)
		if len(d) == 0 {
			return alt, nil
		}
		if best < 0 || len(d) < best {
			best, ds = len(d), d
		}
	}
	return nil, ds
}

// ---------------------------------------------------------------------------------------
// sampled configurations of the rich family (membership is checked by TLC: ASSUME CfgOK)

type cfgStmt struct {
	Form string `json:"form"`
	T    string `json:"t"`
	U    string `json:"u,omitempty"`
}
type cfgMod struct {
	Kind   string    `json:"kind"`
	Pre    []cfgStmt `json:"pre"`
	Post   []cfgStmt `json:"post"`
	All    string    `json:"all"`
	Raises string    `json:"raises"`
}
type cfgT struct {
	Mods map[string]cfgMod `json:"mods"`
	Main []cfgStmt         `json:"main"`
}

func sampleCfgs(rng *rand.Rand, n int, mods []string, maxMain int) string {
	forms := []string{"import", "import_as", "from", "from_as", "star", "from_missing"}
	targets := append(append([]string{}, mods...), "nx")
	pickStmt := func() cfgStmt {
		t := targets[rng.Intn(len(targets))]
		if t == "nx" && rng.Intn(2) == 0 { // the missing module a little less often
			t = mods[rng.Intn(len(mods))]
		}
		if rng.Intn(5) == 0 { // from t import <module name> [as mx]
			return cfgStmt{[]string{"frommod", "frommod_as"}[rng.Intn(2)], t, mods[rng.Intn(len(mods))]}
		}
		if rng.Intn(4) == 0 { // plain imports a little more often: they create module-name attributes
			return cfgStmt{"import", t, ""}
		}
		return cfgStmt{forms[rng.Intn(len(forms))], t, ""}
	}
	var b strings.Builder
	seen := map[string]bool{}
	for len(seen) < n {
		c := cfgT{Mods: map[string]cfgMod{}}
		for _, m := range mods {
			cm := cfgMod{Kind: "src", Pre: []cfgStmt{}, Post: []cfgStmt{}, All: []string{"no", "no", "empty", "emptyt", "v", "vh", "vz"}[rng.Intn(7)], Raises: "no"}
			switch k := rng.Intn(8); {
			case k >= 7:
				cm.Kind = "goglob"
			case k >= 4:
				cm.Kind = "gosrc"
			}
			if cm.Kind != "goglob" {
				if rng.Intn(5) < 3 {
					cm.Pre = append(cm.Pre, pickStmt())
					if rng.Intn(6) == 0 {
						cm.Pre = append(cm.Pre, pickStmt())
					}
				}
				if rng.Intn(5) < 3 {
					cm.Post = append(cm.Post, pickStmt())
					if rng.Intn(6) == 0 {
						cm.Post = append(cm.Post, pickStmt())
					}
				}
				switch k := rng.Intn(8); {
				case k == 7:
					cm.Raises = "late"
				case k == 6:
					cm.Raises = "early"
				}
			}
			c.Mods[m] = cm
		}
		nm := 2 + rng.Intn(maxMain-1)
		for i := 0; i < nm; i++ {
			c.Main = append(c.Main, pickStmt())
		}
		j, _ := json.Marshal(c)
		if seen[string(j)] {
			continue
		}
		seen[string(j)] = true
		b.Write(j)
		b.WriteByte('\n')
	}
	return b.String()
}

// ---------------------------------------------------------------------------------------

type family struct {
	name    string
	module  string
	config  string
	extra   map[string]string
	timeout time.Duration
}

type counters struct {
	mu        sync.Mutex
	cases     map[string]int // per family
	classes   map[string]int // expected log entries per class (vacuity)
	policies  map[string]int // which alternative matched when the model allows two
	distinct  map[[20]byte]bool
	steps     int64
	contexts2 int64
	notRepro  int64
	diverging int64
}

func main() {
	env := common.Setup()
	rep := common.NewReport(env, "model_checking")
	rep.Rule = "a case is one configuration (module kinds and bodies with their import statements, main program) of spec/C19/PyImportCfg.tla; " +
		"cases are distinct when their rendered bodies differ; every case imports at least one module, so none is trivial"
	rep.Assumptions = []string{
		"TLC and the CommunityModules Json module are correct",
		"the scaffolding (a Go module vlog whose methods append to a per-context list, try/except with builtin classes, attribute assignment on a module object) works in gpython; a broken scaffold shows as violations of every case, not as silence",
		"a module body that raises: the model allows both keeping the half-initialised module registered and removing it (Python 3.4); C19 does not say",
	}
	registerLogModule()
	rng := rand.New(rand.NewSource(env.Seed))

	if env.Replay != "" {
		replay(env, rep)
	}
	// one TLC run per module-set size; each explores the union of its exhaustive families and a seeded sample
	var fams []family
	add := func(name, config string, nsample int, mods []string, maxMain int) {
		fams = append(fams, family{name, "MC", config, map[string]string{"cfgs.ndjson": sampleCfgs(rng, nsample, mods, maxMain)}, 30 * time.Minute})
	}
	m3, m4 := []string{"ma", "mb", "mc"}, []string{"ma", "mb", "mc", "md"}
	switch {
	case os.Getenv("VERIF_C19_DEV") != "": // development: a small run (flat2 + sample), not a tier
		add("dev3", "dev3.cfg", 1500, m3, 3)
	case env.Thorough():
		add("thorough3", "thorough3.cfg", 12000, m3, 3)
		add("thorough2", "thorough2.cfg", 1, []string{"ma", "mb"}, 2)
		add("thorough4", "thorough4.cfg", 8000, m4, 4)
	default:
		add("quick3", "quick3.cfg", 2500, m3, 3)
	}

	cnt := &counters{cases: map[string]int{}, classes: map[string]int{}, policies: map[string]int{}, distinct: map[[20]byte]bool{}}
	jobs := make(chan *Case, 4096)
	var wg sync.WaitGroup
	nw := env.Workers
	if nw > 12 {
		nw = 12
	}
	var seq int64
	twoEvery := int64(env.Pick(4, 2))
	for wk := 1; wk <= nw; wk++ {
		wk := wk
		dir := filepath.Join(env.Scratch, fmt.Sprintf("mods%d", wk))
		os.MkdirAll(dir, 0o755)
		wg.Add(1)
		go func() {
			defer wg.Done()
			for cs := range jobs {
				n := atomic.AddInt64(&seq, 1)
				two := n%twoEvery == 0
				check(wk, dir, cs, two, rep, cnt)
			}
		}()
	}

	tlcInfo := map[string]interface{}{}
	for _, f := range fams {
		pending := map[string]*Case{}
		nrec := 0
		t0 := time.Since(env.Start).Seconds()
		res := env.MustTLC(common.TLCRun{Dir: "C19", Module: f.module, Config: f.config, Extra: f.extra, Timeout: f.timeout,
			Seed: env.Seed, OnLine: func(b []byte) {
				var raw rawRec
				rec := &Rec{}
				if json.Unmarshal(b, &raw) != nil || json.Unmarshal(b, rec) != nil || rec.Alts < 1 {
					common.Inconclusive("property=C19 unreadable record from TLC: %.200s", b)
				}
				if nrec == 0 {
					fmt.Printf("first behaviour from TLC at %.1fs\n", time.Since(env.Start).Seconds())
				}
				nrec++
				key := raw.Fam + string(raw.Kinds) + string(raw.Bodies)
				cs := pending[key]
				if cs == nil {
					cs = &Case{Family: raw.Fam, Key: key}
					pending[key] = cs
				}
				cs.Alts = append(cs.Alts, rec)
				if len(cs.Alts) == rec.Alts {
					delete(pending, key)
					sort.Slice(cs.Alts, func(i, j int) bool { // Python 3.4's choices first: remove, AttributeError
						if cs.Alts[i].Policy != cs.Alts[j].Policy {
							return cs.Alts[i].Policy > cs.Alts[j].Policy
						}
						return cs.Alts[i].StarEr < cs.Alts[j].StarEr
					})
					jobs <- cs
				}
			}})
		if len(res.Violations) > 0 || !res.Finished {
			common.Inconclusive("property=C19 the model itself fails on family %s: %v\n%s", f.name, res.Violations, res.Stdout)
		}
		if len(pending) > 0 {
			common.Inconclusive("property=C19 family %s: %d configurations with an incomplete set of behaviours", f.name, len(pending))
		}
		rep.AddTLC(res)
		tlcInfo[f.name] = map[string]interface{}{"states": res.Distinct, "behaviours": nrec, "wall_s": res.Wall.Seconds()}
		fmt.Printf("run %s: %d states, %d behaviours, started at %.1fs, TLC %.1fs (at %.1fs)\n", f.name, res.Distinct, nrec, t0, res.Wall.Seconds(), time.Since(env.Start).Seconds())
	}
	close(jobs)
	wg.Wait()

	total := 0
	for _, n := range cnt.cases {
		total += n
	}
	rep.Evaluations = cnt.steps
	rep.Distinct = int64(len(cnt.distinct))
	rep.Traces = int64(total) + cnt.contexts2
	rep.Exhaustive = false
	rep.Extra["tlc_runs"] = tlcInfo
	rep.Extra["cases_per_family"] = cnt.cases
	rep.Extra["cases_run_in_two_interleaved_contexts"] = cnt.contexts2
	rep.Extra["expected_log_entries_per_class"] = cnt.classes
	rep.Extra["behaviour_matched_when_two_allowed"] = cnt.policies
	rep.Extra["diverging_cases"] = cnt.diverging
	rep.Extra["exhaustive_within"] = "families graph*/uniform/diamond/flat*/raise/modname/late are enumerated completely; sample is a seeded sample of the family CfgOK"
	if total == 0 {
		common.Inconclusive("property=C19 no case was generated")
	}
	// vacuity: every statement form must have met every class of target
	for _, form := range []string{"import", "import_as", "from", "from_as", "star", "from_missing", "frommod", "frommod_as"} {
		for _, tc := range []string{"first", "loaded", "loading", "missing"} {
			if cnt.classes["stmt "+form+" "+tc] == 0 {
				common.Vacuous("property=C19 vacuous run: no %s statement met a %s target", form, tc)
			}
		}
	}
	if os.Getenv("VERIF_C19_DEV") == "" && (cnt.classes["stmt addpath -"] == 0 || cnt.classes["stmt import unavailable"] == 0 || cnt.classes["body run late"] == 0) {
		common.Vacuous("property=C19 vacuous run: no module became available late")
	}
	raised := 0
	for c, n := range cnt.classes {
		if strings.HasPrefix(c, "raised ") {
			raised += n
		}
	}
	if cnt.classes["body run src"] == 0 || cnt.classes["body run gosrc"] == 0 || raised == 0 || cnt.contexts2 == 0 {
		common.Vacuous("property=C19 vacuous run: no source module, no Go module with source, no raising body or no second context was exercised")
	}
	if cnt.notRepro > 0 {
		common.Inconclusive("property=C19 %d diverging cases did not diverge again in a fresh context", cnt.notRepro)
	}
	rep.Finish()
}

// development aid (never used by a tier): VERIF_C19_DUMP=<file> appends every case, rendered, with the
// behaviours the model allows, so that the MODEL can be compared with CPython (see design.d/C19.md)
var dumpMu sync.Mutex

func dump(path string, cs *Case) {
	r := &renderer{worker: 0, kinds: map[string]string{}} // everything as source files
	files := map[string]string{}
	for m := range cs.Alts[0].Kinds {
		files[m] = r.body(m, cs.Alts[0].Bodies[m])
		if cs.Alts[0].Kinds[m] == "goglob" {
			files[m] = setSrc(cs.Alts[0].Bodies[m][0])
		}
	}
	var mains []string
	for i, s := range cs.Alts[0].Bodies["main"] {
		mains = append(mains, r.stmt("main", i+1, s))
	}
	j, _ := json.Marshal(map[string]interface{}{"files": files, "mains": mains, "alts": obsOf(cs)})
	dumpMu.Lock()
	defer dumpMu.Unlock()
	f, err := os.OpenFile(path, os.O_APPEND|os.O_CREATE|os.O_WRONLY, 0o644)
	if err == nil {
		f.Write(append(j, '\n'))
		f.Close()
	}
}

func check(worker int, dir string, cs *Case, two bool, rep *common.Report, cnt *counters) {
	if p := os.Getenv("VERIF_C19_DUMP"); p != "" {
		dump(p, cs)
	}
	a, b, err := runCase(worker, dir, cs, two)
	if err != nil {
		common.Inconclusive("property=C19 cannot run a case: %v", err)
	}
	matched, ds := judge(cs, a)
	var matched2 *Rec
	var ds2 []diff
	if b != nil {
		matched2, ds2 = judge(cs, b)
	}
	if len(ds) > 0 || len(ds2) > 0 {
		// once more from scratch before anything is reported
		a2, b2, err := runCase(worker, dir, cs, two)
		if err != nil {
			common.Inconclusive("property=C19 cannot re-run a case: %v", err)
		}
		_, r1 := judge(cs, a2)
		var r2 []diff
		if b2 != nil {
			_, r2 = judge(cs, b2)
		}
		if len(r1) == 0 && len(r2) == 0 {
			atomic.AddInt64(&cnt.notRepro, 1)
			ds, ds2 = nil, nil
		}
	}
	report := func(ds []diff, got []step, which string) {
		for _, d := range ds {
			det := map[string]interface{}{"family": cs.Family, "context": which, "kinds": cs.Alts[0].Kinds, "bodies": cs.Alts[0].Bodies,
				"allowed": obsOf(cs), "observed": got, "divergence": d.detail, "files": sources(worker, cs.Alts[0])}
			rep.Violation(d.key, det)
		}
	}
	report(ds, a, "first")
	report(ds2, b, "second, interleaved with the first")

	h := sha1.Sum([]byte(strings.TrimPrefix(cs.Key, cs.Family)))
	cnt.mu.Lock()
	cnt.cases[cs.Family]++
	cnt.distinct[h] = true
	cnt.steps += int64(len(a) + len(b))
	if b != nil {
		cnt.contexts2++
	}
	if len(ds) > 0 || len(ds2) > 0 {
		cnt.diverging++
	}
	for _, o := range cs.Alts[0].Obs {
		for _, c := range o.Cls {
			cnt.classes[strings.Join(c, " ")]++
		}
	}
	if len(cs.Alts) > 1 {
		for _, m := range []*Rec{matched, matched2} {
			if m != nil {
				for _, o := range cs.Alts {
					if o != m && !sameObs(o, m) { // the choice was observable
						cnt.policies[m.Policy+"/"+m.StarEr]++
						break
					}
				}
			}
		}
	}
	n := cnt.cases[cs.Family]
	cnt.mu.Unlock()
	if n%4000 == 1 {
		rep.Sample(map[string]interface{}{"family": cs.Family, "kinds": cs.Alts[0].Kinds, "main": cs.Alts[0].Bodies["main"],
			"bodies": cs.Alts[0].Bodies, "expected": cs.Alts[0].Obs, "observed": a})
	}
}

// replay re-runs the one configuration of a recorded divergence; the behaviours the model allows for it
// are in the file (they were printed by TLC when the divergence was found)
func replay(env *common.Env, rep *common.Report) {
	b, err := os.ReadFile(env.Replay)
	var f struct {
		Case struct {
			Family  string            `json:"family"`
			Kinds   map[string]string `json:"kinds"`
			Bodies  map[string][]Stmt `json:"bodies"`
			Allowed []struct {
				Policy string `json:"policy"`
				StarEr string `json:"starerr"`
				Obs    []Obs  `json:"obs"`
			} `json:"allowed"`
		} `json:"case"`
	}
	if err != nil || json.Unmarshal(b, &f) != nil || len(f.Case.Allowed) == 0 || len(f.Case.Bodies["main"]) == 0 {
		common.Inconclusive("property=C19 replay file %s holds no configuration: %v", env.Replay, err)
	}
	cs := &Case{Family: f.Case.Family, Key: string(b)}
	for _, a := range f.Case.Allowed {
		cs.Alts = append(cs.Alts, &Rec{Fam: f.Case.Family, Kinds: f.Case.Kinds, Bodies: f.Case.Bodies, Policy: a.Policy, StarEr: a.StarEr, Alts: len(f.Case.Allowed), Obs: a.Obs})
	}
	dir := filepath.Join(env.Scratch, "mods1")
	os.MkdirAll(dir, 0o755)
	cnt := &counters{cases: map[string]int{}, classes: map[string]int{}, policies: map[string]int{}, distinct: map[[20]byte]bool{}}
	check(1, dir, cs, true, rep, cnt)
	if cnt.notRepro > 0 {
		common.Inconclusive("property=C19 the replayed case diverged once and not again in a fresh context")
	}
	rep.Evaluations = cnt.steps
	rep.Finish()
}

func sameObs(a, b *Rec) bool {
	x, _ := json.Marshal(a.Obs)
	y, _ := json.Marshal(b.Obs)
	return string(x) == string(y)
}

func obsOf(cs *Case) []interface{} {
	var out []interface{}
	for _, a := range cs.Alts {
		out = append(out, map[string]interface{}{"policy": a.Policy, "starerr": a.StarEr, "obs": a.Obs})
	}
	return out
}

func sources(worker int, rec *Rec) map[string]string {
	r := &renderer{worker: worker, kinds: rec.Kinds}
	out := map[string]string{}
	for m, k := range rec.Kinds {
		if k != "goglob" {
			out[r.conc(m)+" ("+k+")"] = r.body(m, rec.Bodies[m])
		}
	}
	var mains []string
	for i, s := range rec.Bodies["main"] {
		mains = append(mains, r.stmt("main", i+1, s))
	}
	out["main"] = strings.Join(mains, "")
	return out
}
