SPECIFICATION Spec
CONSTANT MaxDepth = 3
INVARIANT TypeOK
CHECK_DEADLOCK FALSE
