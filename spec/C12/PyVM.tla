---- MODULE PyVM ----
(***************************************************************************)
(* The abstract bytecode machine of gpython (Python 3.4 bytecode), over a *)
(* concrete code object taken as data.  Constant level only: decoding,     *)
(* the static well-formedness predicates and the successor relation.      *)
(* PyVMStatic explores it per code object, PyVMTrace validates recorded    *)
(* executions of the real VM against it.                                   *)
(*                                                                         *)
(* Written from the documented meaning of the 3.4 opcodes (library         *)
(* reference, "dis") and the unwinding scheme of the evaluation loop       *)
(* (block stack, why codes).  compile/instructions.go:opcodeStackEffect    *)
(* is NOT consulted: this is the independent table the compiler's stack    *)
(* size computation is checked against.                                    *)
(*                                                                         *)
(* A code object is a record                                               *)
(*   bytes      the code string, one integer 0..255 per byte               *)
(*   st         witness of the instruction boundaries: st[p+1] = 1 iff an  *)
(*              instruction starts at offset p.  It is supplied by the     *)
(*              harness and VERIFIED here (WitnessBad): the                *)
(*              formula below has exactly one solution, the decoding that  *)
(*              starts at offset 0, so what a boundary is is decided by    *)
(*              this module (no recursion over 60 kB code strings needed). *)
(*   nconsts nnames nvars ncells   sizes of co_consts, co_names,           *)
(*              co_varnames, co_cellvars + co_freevars                     *)
(*   kkind      kind of co_consts[i] at kkind[i+1]: 1 None, 2 code object,  *)
(*              3 str, 4 tuple, 0 anything else                            *)
(*   stacksize  co_stacksize                                               *)
(*   lnotab firstlineno nlines     line table, first line, number of lines *)
(*              of the source (0 = source not available)                   *)
(*   emit       1 = export the reachable (pc, depth, block depth) triples  *)
(***************************************************************************)
EXTENDS Integers, Sequences, FiniteSets, TLC, Json, SequencesExt

Codes == ndJsonDeserialize("codes.ndjson")
NC == Len(Codes)

---------------------------------------------------------------------------
(* Decoding *)

HAVE_ARG == 90
EXTENDED_ARG == 144
BIG == 1073741824        \* stands for "an operand of 2^30 or more" (TLC integers are 32 bit)

CodeLen(c) == Len(Codes[c].bytes)
B(c, i) == Codes[c].bytes[i + 1]                    \* byte at offset i
Size(c, p) == IF B(c, p) >= HAVE_ARG THEN 3 ELSE 1
RawArg(c, p) == B(c, p + 1) + 256 * B(c, p + 2)
IsStart(c, p) == p >= 0 /\ p < CodeLen(c) /\ Codes[c].st[p + 1] = 1

\* The instruction at p is the second half of an extended instruction.  EXTENDED_ARG is executed as
\* an instruction of its own (no stack effect); the instruction after it takes the high 16 bits of
\* its operand from it.
ExtPrefix(c, p) == p >= 3 /\ IsStart(c, p - 3) /\ B(c, p - 3) = EXTENDED_ARG
Arg(c, p) == IF B(c, p) < HAVE_ARG THEN 0
             ELSE IF ExtPrefix(c, p)
                  THEN (IF RawArg(c, p - 3) >= 16384 THEN BIG ELSE 65536 * RawArg(c, p - 3) + RawArg(c, p))
                  ELSE RawArg(c, p)

\* Offsets at which the boundary witness is not the decoding from offset 0.
WitnessBad(c) ==
  LET n == CodeLen(c)
      st == Codes[c].st
  IN IF Len(st) # n THEN {0}
     ELSE (IF n > 0 /\ st[1] # 1 THEN {0} ELSE {})
          \cup { p \in 0..(n - 1) : st[p + 1] = 1 /\
                   LET e == p + Size(c, p)
                   IN e <= n /\ ~( (\A q \in (p + 1)..(e - 1) : st[q + 1] = 0) /\ (e < n => st[e + 1] = 1) ) }
NoArgOps == {1, 2, 3, 4, 5, 9, 10, 11, 12, 15, 19, 20, 22, 23, 24, 25, 26, 27, 28, 29, 54, 55, 56, 57, 59, 60,
             61, 62, 63, 64, 65, 66, 67, 68, 70, 71, 72, 75, 76, 77, 78, 79, 80, 81, 83, 84, 86, 87, 88, 89}
ArgOps == {90, 91, 92, 93, 94, 95, 96, 97, 98, 100, 101, 102, 103, 104, 105, 106, 107, 108, 109, 110, 111, 112,
           113, 114, 115, 116, 119, 120, 121, 122, 124, 125, 126, 130, 131, 132, 133, 134, 135, 136, 137, 138,
           140, 141, 142, 143, 144, 145, 146, 147, 148}
AllOps == NoArgOps \cup ArgOps

NameOps == {90, 91, 95, 96, 97, 98, 101, 106, 108, 109, 116}   \* index co_names
VarOps == {124, 125, 126}                                      \* index co_varnames
CellOps == {135, 136, 137, 138, 148}                           \* index co_cellvars + co_freevars
CountOps == {92, 94, 102, 103, 104, 131, 140, 141, 142}        \* operand is a count of stack items
OperandOK(c, o, a) ==
  CASE o = 100 -> a < Codes[c].nconsts
    [] o \in VarOps -> a < Codes[c].nvars
    [] o \in NameOps -> a < Codes[c].nnames
    [] o \in CellOps -> a < Codes[c].ncells
    [] o = 107 -> a <= 10                 \* < <= == != > >= in not-in is is-not exception-match
    [] o = 130 -> a <= 2                  \* raise / raise e / raise e from c
    [] o = 133 -> a \in {2, 3}
    [] o \in {145, 146, 147} -> a >= 1
    [] o \in CountOps -> a < 65536
    [] OTHER -> TRUE

AbsJumps == {111, 112, 113, 114, 115, 119}
RelJumps == {93, 110, 120, 121, 122, 143}
JumpOps == AbsJumps \cup RelJumps
JumpTarget(c, p) == IF B(c, p) \in AbsJumps THEN Arg(c, p) ELSE p + 3 + Arg(c, p)
\* a jump must land on an instruction start inside the code, and not between EXTENDED_ARG and its instruction
TargetOK(c, t) == IsStart(c, t) /\ ~ExtPrefix(c, t)

\* What is wrong with the instruction at p (one pass over the instructions, reachable or not):
\*  0 nothing; 1 its operand bytes run past the end of the code string; 2 undefined opcode, or EXTENDED_ARG
\*  not followed by an instruction that takes an operand; 3 operand does not index an existing constant /
\*  name / local / cell / comparison (or is not a legal count); 4 jump target is not an instruction start
InstrKind(c, p) ==
  IF p + Size(c, p) > CodeLen(c) THEN 1
  ELSE IF B(c, p) \notin AllOps THEN 2
  ELSE IF B(c, p) < HAVE_ARG THEN 0
  ELSE IF B(c, p) = EXTENDED_ARG /\ ~(p + 3 < CodeLen(c) /\ B(c, p + 3) >= HAVE_ARG /\ B(c, p + 3) # EXTENDED_ARG) THEN 2
  ELSE IF ~OperandOK(c, B(c, p), Arg(c, p)) THEN 3
  ELSE IF B(c, p) \in JumpOps /\ ~TargetOK(c, JumpTarget(c, p)) THEN 4
  ELSE 0
InstrBad(c) == { p \in 0..(CodeLen(c) - 1) : Codes[c].st[p + 1] = 1 /\ InstrKind(c, p) # 0 }

\* The line table (py/code.go Addr2Line): pairs (address increment, line increment) of unsigned bytes;
\* line = firstlineno + sum of the line increments of the entries whose cumulated address is <= addr.
\* Demanded: an even number of bytes; cumulated addresses stay inside the code and every entry that
\* changes the line sits on an instruction start (monotone by construction of the encoding, checked
\* anyway); lines start at >= 1 and never leave the source.  "" = fine, else the kind of failure.
LnotabCheck(c) ==
  LET ln == Codes[c].lnotab
      n == Len(ln)
      step(a, k) ==
        LET da == ln[2 * k - 1]
            dl == ln[2 * k]
            na == a.addr + da
        IN [addr |-> na, line |-> a.line + dl,
            bad |-> IF a.bad # "" THEN a.bad
                    ELSE IF ~(da \in 0..255 /\ dl \in 0..255) THEN "byte"
                    ELSE IF na < a.addr \/ a.line + dl < a.line THEN "monotone"
                    ELSE IF na > CodeLen(c) \/ (dl > 0 /\ ~IsStart(c, na)) THEN "address"
                    ELSE ""]
  IN IF n % 2 # 0 THEN "odd"
     ELSE LET r == FoldLeft(step, [addr |-> 0, line |-> Codes[c].firstlineno, bad |-> ""], [k \in 1..(n \div 2) |-> k])
          IN IF r.bad # "" THEN r.bad
             ELSE IF Codes[c].firstlineno < 1 THEN "firstline"
             ELSE IF Codes[c].nlines > 0 /\ r.line > Codes[c].nlines THEN "range"
             ELSE ""

\* Verdict of the static clauses for one code object (each part is evaluated once: TLC re-evaluates a
\* LET definition or an operator argument at every reference, so nothing expensive is named twice).
StaticCheck(c) == [wit |-> WitnessBad(c), ins |-> InstrBad(c), ln |-> LnotabCheck(c)]
NoChk == [wit |-> {}, ins |-> {}, ln |-> ""]
Runnable(k) == k.wit = {} /\ k.ins = {}
MinOf(S) == CHOOSE x \in S : \A y \in S : x <= y

---------------------------------------------------------------------------
(* The machine: value stack of tags, block stack, unwinding *)

\* tags: V any value; N the constant None; KC KS KT a code object / str / tuple constant; W(t) a why code pushed by unwinding (2 return, 3 break,
\* 4 continue, 6 silenced); R(t) the pending return value / continue target below W; ET EV TB the
\* exception triple pushed for a handler.
NAnnOf(a) == (a \div 65536) % 32768
T(k) == [k |-> k, t |-> 0]
V == T("V")
Why(t) == [k |-> "W", t |-> t]
Ret(t) == [k |-> "R", t |-> t]

LOOP == "L"  EXC == "E"  FIN == "F"  HND == "H"
Blk(t, h, l) == [t |-> t, h |-> h, l |-> l]
MAXBLOCKS == 20

Take(s, n) == SubSeq(s, 1, n)
Drop(s, n) == SubSeq(s, 1, Len(s) - n)
Top(s) == s[Len(s)]
Push(s, x) == Append(s, x)
PushN(s, n) == s \o [i \in 1..n |-> V]

\* at a handler: the three values of the exception being replaced, then traceback, value, type
ConstTag(k) == CASE k = 1 -> T("N") [] k = 2 -> T("KC") [] k = 3 -> T("KS") [] k = 4 -> T("KT") [] OTHER -> V

\* MAKE_FUNCTION / MAKE_CLOSURE (clos = 1) with operand a find, from the top: the qualified name (a str
\* constant), the code object, [the tuple of cells], [the tuple of annotated parameter names, then the
\* annotation values], then for each keyword-only default its value above its name (a str constant), then
\* the positional defaults.
FuncShapeOK(s, a, clos) ==
  LET top == Len(s)
      base == top - 2 - clos - NAnnOf(a)      \* position of the value of the last keyword-only default
  IN /\ s[top].k = "KS" /\ s[top - 1].k = "KC"
     /\ (NAnnOf(a) > 0 => s[top - 2 - clos].k = "KT")
     /\ \A j \in 1..((a \div 256) % 256) : s[base - (2 * j - 1)].k = "KS"

ExcSix == <<V, V, V, T("TB"), T("EV"), T("ET")>>

St(p, s, b) == [pc |-> p, stk |-> s, blk |-> b, ph |-> "run"]
Bad(msg, p) == [pc |-> p, stk |-> <<>>, blk |-> <<>>, ph |-> msg]
Done(msg, p) == [pc |-> p, stk |-> <<>>, blk |-> <<>>, ph |-> msg]

\* The unwinding loop entered with why in {"exc","ret","brk","cont"} after the instruction at p;
\* tgt = target of a pending continue.
RECURSIVE Unwind(_, _, _, _, _)
Unwind(p, s, b, why, tgt) ==
  IF b = <<>>
  THEN (IF why = "exc" THEN Done("raised", p) ELSE IF why = "ret" THEN Done("returned", p) ELSE Bad("badexit", p))
  ELSE LET top == b[Len(b)]
           rest == SubSeq(b, 1, Len(b) - 1)
       IN IF top.t = LOOP /\ why = "cont" THEN St(tgt, s, b)
          ELSE IF top.t = HND
               THEN (IF Len(s) < top.l + 3 THEN Bad("handler_unwind", p) ELSE Unwind(p, Take(s, top.l), rest, why, tgt))
          ELSE LET s2 == IF Len(s) > top.l THEN Take(s, top.l) ELSE s
               IN IF top.t = LOOP /\ why = "brk" THEN St(top.h, s2, rest)
                  ELSE IF why = "exc" /\ top.t \in {EXC, FIN}
                       THEN St(top.h, s2 \o ExcSix, Append(rest, Blk(HND, -1, Len(s2))))
                  ELSE IF top.t = FIN
                       THEN St(top.h,
                               (IF why \in {"ret", "cont"} THEN Push(s2, Ret(tgt)) ELSE s2)
                                 \o << Why(CASE why = "ret" -> 2 [] why = "brk" -> 3 [] OTHER -> 4) >>,
                               rest)
                  ELSE Unwind(p, s2, rest, why, tgt)

\* instructions that cannot raise
NoRaise == {1, 2, 3, 4, 5, 9, 80, 83, 87, 89, 100, 110, 113, 119, 120, 121, 122, 125, 135, 144}

Binary == {19, 20, 22, 23, 24, 25, 26, 27, 28, 29, 55, 56, 57, 59, 62, 63, 64, 65, 66, 67, 75, 76, 77, 78, 79}
NArgs(a) == (a % 256) + 2 * ((a \div 256) % 256)
NAnn(a) == NAnnOf(a)

\* <<values that must be on the stack, values popped, values pushed>> of the plain opcodes
Eff(o, a) ==
  CASE o = 1 -> <<1, 1, 0>>                       \* POP_TOP
    [] o = 9 -> <<0, 0, 0>>                       \* NOP
    [] o \in {10, 11, 12, 15, 68} -> <<1, 1, 1>>  \* UNARY_*, GET_ITER
    [] o \in Binary -> <<2, 2, 1>>                \* BINARY_*, INPLACE_*
    [] o = 54 -> <<3, 2, 0>>                      \* STORE_MAP: the dict stays
    [] o = 60 -> <<3, 3, 0>>                      \* STORE_SUBSCR
    [] o = 61 -> <<2, 2, 0>>                      \* DELETE_SUBSCR
    [] o = 70 -> <<1, 1, 0>>                      \* PRINT_EXPR
    [] o = 71 -> <<0, 0, 1>>                      \* LOAD_BUILD_CLASS
    [] o = 84 -> <<1, 1, 0>>                      \* IMPORT_STAR
    [] o = 86 -> <<1, 1, 1>>                      \* YIELD_VALUE: yields TOS, resumes with the sent value
    [] o = 90 -> <<1, 1, 0>>                      \* STORE_NAME
    [] o = 91 -> <<0, 0, 0>>                      \* DELETE_NAME
    [] o = 92 -> <<1, 1, a>>                      \* UNPACK_SEQUENCE
    [] o = 94 -> <<1, 1, (a % 256) + (a \div 256) + 1>>   \* UNPACK_EX
    [] o = 95 -> <<2, 2, 0>>                      \* STORE_ATTR
    [] o = 96 -> <<1, 1, 0>>                      \* DELETE_ATTR
    [] o = 97 -> <<1, 1, 0>>                      \* STORE_GLOBAL
    [] o = 98 -> <<0, 0, 0>>                      \* DELETE_GLOBAL
    [] o = 101 -> <<0, 0, 1>>                     \* LOAD_NAME
    [] o \in {102, 103, 104} -> <<a, a, 1>>       \* BUILD_TUPLE/LIST/SET
    [] o = 105 -> <<0, 0, 1>>                     \* BUILD_MAP (operand is a size hint)
    [] o = 106 -> <<1, 1, 1>>                     \* LOAD_ATTR
    [] o = 107 -> <<2, 2, 1>>                     \* COMPARE_OP
    [] o = 108 -> <<2, 2, 1>>                     \* IMPORT_NAME
    [] o = 109 -> <<1, 0, 1>>                     \* IMPORT_FROM: the module stays
    [] o = 116 -> <<0, 0, 1>>                     \* LOAD_GLOBAL
    [] o = 124 -> <<0, 0, 1>>                     \* LOAD_FAST
    [] o = 125 -> <<1, 1, 0>>                     \* STORE_FAST
    [] o = 126 -> <<0, 0, 0>>                     \* DELETE_FAST
    [] o = 131 -> <<NArgs(a) + 1, NArgs(a) + 1, 1>>        \* CALL_FUNCTION
    [] o \in {140, 141} -> <<NArgs(a) + 2, NArgs(a) + 2, 1>> \* CALL_FUNCTION_VAR / _KW
    [] o = 142 -> <<NArgs(a) + 3, NArgs(a) + 3, 1>>        \* CALL_FUNCTION_VAR_KW
    [] o = 133 -> <<a, a, 1>>                     \* BUILD_SLICE
    [] o \in {135, 136, 148} -> <<0, 0, 1>>       \* LOAD_CLOSURE, LOAD_DEREF, LOAD_CLASSDEREF
    [] o = 137 -> <<1, 1, 0>>                     \* STORE_DEREF
    [] o = 138 -> <<0, 0, 0>>                     \* DELETE_DEREF
    [] o \in {145, 146} -> <<a + 1, 1, 0>>        \* LIST_APPEND, SET_ADD: the container is a entries below
    [] o = 147 -> <<a + 2, 2, 0>>                 \* MAP_ADD

\* Successors of a running state of code object c.  The static clauses (Runnable) are assumed:
\* operands are in range and jump targets are instruction starts.
Succ(c, p, s, b) ==
  LET o == B(c, p)
      a == Arg(c, p)
      n == p + Size(c, p)
      need(k) == Len(s) >= k
      under == {Bad("underflow", p)}
      raise == IF o \in NoRaise THEN {} ELSE {Unwind(p, s, b, "exc", 0)}
  IN raise \cup
   (CASE o = 2 -> IF need(2) THEN {St(n, Drop(s, 2) \o <<s[Len(s)], s[Len(s) - 1]>>, b)} ELSE under
      [] o = 3 -> IF need(3) THEN {St(n, Drop(s, 3) \o <<s[Len(s)], s[Len(s) - 2], s[Len(s) - 1]>>, b)} ELSE under
      [] o = 4 -> IF need(1) THEN {St(n, Push(s, Top(s)), b)} ELSE under
      [] o = 5 -> IF need(2) THEN {St(n, s \o <<s[Len(s) - 1], s[Len(s)]>>, b)} ELSE under
      [] o = 100 -> {St(n, Push(s, ConstTag(Codes[c].kkind[a + 1])), b)}
      \* YIELD_FROM: the sub-iterator is exhausted (its result replaces it), or a value is yielded and the
      \* instruction is executed again when the generator is resumed with the sent value on top
      [] o = 72 -> IF need(2) THEN {St(n, Drop(s, 2) \o <<V>>, b), St(p, Drop(s, 1) \o <<V>>, b)} ELSE under
      [] o = 80 -> {Unwind(p, s, b, "brk", 0)}
      [] o = 119 -> {Unwind(p, s, b, "cont", a)}
      [] o = 83 -> IF need(1) THEN {Unwind(p, Drop(s, 1), b, "ret", 0)} ELSE under
      [] o = 87 -> IF b = <<>> \/ b[Len(b)].t = HND THEN {Bad("pop_block", p)}
                   ELSE IF Len(s) # b[Len(b)].l THEN {Bad("pop_block_level", p)}
                   ELSE {St(n, s, Drop(b, 1))}
      [] o = 89 -> IF b = <<>> \/ b[Len(b)].t # HND \/ Len(s) < b[Len(b)].l + 3 THEN {Bad("pop_except", p)}
                   ELSE {St(n, Take(s, b[Len(b)].l), Drop(b, 1))}
      [] o = 88 -> IF ~need(1) THEN under ELSE
                   LET v == Top(s)
                       s1 == Drop(s, 1)
                   IN CASE v.k = "N" -> {St(n, s1, b)}
                        [] v.k = "W" /\ v.t \in {2, 4} ->
                             IF Len(s1) >= 1 /\ Top(s1).k = "R"
                             THEN {Unwind(p, Drop(s1, 1), b, IF v.t = 2 THEN "ret" ELSE "cont", Top(s1).t)}
                             ELSE {Bad("end_finally", p)}
                        [] v.k = "W" /\ v.t = 3 -> {Unwind(p, s1, b, "brk", 0)}
                        [] v.k = "W" /\ v.t = 6 ->
                             IF b # <<>> /\ b[Len(b)].t = HND /\ Len(s1) >= b[Len(b)].l + 3
                             THEN {St(n, Take(s1, b[Len(b)].l), Drop(b, 1))}
                             ELSE {Bad("end_finally", p)}
                        [] v.k = "ET" -> IF Len(s1) >= 2 THEN {Unwind(p, Drop(s1, 2), b, "exc", 0)} ELSE under
                        [] OTHER -> {Bad("end_finally", p)}
      \* WITH_CLEANUP: __exit__ sits under the 1..3 values saying why the block is left (under six values
      \* when it is left by an exception); it is removed, called, and may silence the exception
      [] o = 81 -> IF ~need(1) THEN under ELSE
                   LET v == Top(s)
                   IN CASE v.k = "N" -> IF need(2) THEN {St(n, Drop(s, 2) \o <<v>>, b), Unwind(p, Drop(s, 2) \o <<v>>, b, "exc", 0)} ELSE under
                        [] v.k = "W" /\ v.t \in {2, 4} ->
                             IF need(3) THEN {St(n, Drop(s, 3) \o <<s[Len(s) - 1], v>>, b), Unwind(p, Drop(s, 3) \o <<s[Len(s) - 1], v>>, b, "exc", 0)} ELSE under
                        [] v.k = "W" -> IF need(2) THEN {St(n, Drop(s, 2) \o <<v>>, b), Unwind(p, Drop(s, 2) \o <<v>>, b, "exc", 0)} ELSE under
                        [] v.k = "ET" ->
                             IF need(7) /\ b # <<>> /\ b[Len(b)].t = HND
                             THEN LET b2 == Drop(b, 1) \o <<Blk(HND, -1, b[Len(b)].l - 1)>>
                                      s2 == Drop(s, 7) \o <<V, V, V, V, s[Len(s) - 2], s[Len(s) - 1], s[Len(s)]>>
                                  IN {St(n, s2, b2), St(n, Push(s2, Why(6)), b2), Unwind(p, s2, b2, "exc", 0)}
                             ELSE {Bad("with_cleanup", p)}
                        [] OTHER -> {Bad("with_cleanup", p)}
      [] o = 93 -> IF need(1) THEN {St(n, Push(s, V), b), St(n + a, Drop(s, 1), b)} ELSE under
      [] o = 144 -> {St(n, s, b)}
      [] o = 110 -> {St(n + a, s, b)}
      [] o = 113 -> {St(a, s, b)}
      [] o \in {111, 112} -> IF need(1) THEN {St(a, s, b), St(n, Drop(s, 1), b)} ELSE under
      [] o \in {114, 115} -> IF need(1) THEN {St(a, Drop(s, 1), b), St(n, Drop(s, 1), b)} ELSE under
      [] o = 120 -> {St(n, s, Append(b, Blk(LOOP, n + a, Len(s))))}
      [] o = 121 -> {St(n, s, Append(b, Blk(EXC, n + a, Len(s))))}
      [] o = 122 -> {St(n, s, Append(b, Blk(FIN, n + a, Len(s))))}
      \* SETUP_WITH: the manager is replaced by its __exit__, a finally block is pushed, then the result of __enter__
      [] o = 143 -> IF need(1) THEN {St(n, Drop(s, 1) \o <<V, V>>, Append(b, Blk(FIN, n + a, Len(s))))} ELSE under
      [] o = 130 -> IF need(a) THEN {Unwind(p, Drop(s, a), b, "exc", 0)} ELSE under
      [] o \in {132, 134} ->
           IF ~need(NArgs(a) + NAnn(a) + (IF o = 134 THEN 3 ELSE 2)) THEN under
           ELSE IF ~FuncShapeOK(s, a, IF o = 134 THEN 1 ELSE 0) THEN {Bad("make_function", p)}
           ELSE {St(n, Push(Drop(s, NArgs(a) + NAnn(a) + (IF o = 134 THEN 3 ELSE 2)), V), b)}
      [] OTHER -> UNION { IF ~need(e[1]) THEN under ELSE {St(n, PushN(Drop(s, e[2]), e[3]), b)} : e \in {Eff(o, a)} })

\* the stack never drops below the level of an enclosing block (3 more inside a handler)
LevelsOK(s, b) == \A j \in 1..Len(b) : Len(s) >= b[j].l + (IF b[j].t = HND THEN 3 ELSE 0)
====
