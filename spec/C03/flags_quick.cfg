SPECIFICATION Spec
CONSTANT Names = {"x", "__class__"}
CONSTANT NameSeq <- Seq1C
CONSTANT FShapes <- Chain4
CONSTANT FFlags <- F7
CONSTANT Mode = "cls"
CONSTANT FModFlags <- FModQ
CONSTANT MaxScopes = 4
CONSTANT MaxDepth = 3
CONSTANT MaxEvStmt = 9
CONSTANT MaxEvExpr = 3
CONSTANT WithLocset = FALSE
CHECK_DEADLOCK FALSE
