---- MODULE PyVMStatic ----
(***************************************************************************)
(* Static part of C12: TLC explores the abstract state space of every code *)
(* object of codes.ndjson (one initial state per code object) and checks   *)
(* the clauses of C12 as invariants.  The code objects are the real output *)
(* of the compiler, so a violated invariant is a verdict about the         *)
(* compiler; every violating state prints one JSON record naming the code  *)
(* object, the offset of the offending instruction and its opcode (run     *)
(* with -continue to collect all of them).                                 *)
(***************************************************************************)
EXTENDS PyVM

VARIABLES cid, pc, stk, blk, ph, chk
vars == <<cid, pc, stk, blk, ph, chk>>

StackSize == Codes[cid].stacksize

Init == /\ cid \in 1..NC /\ pc = 0 /\ stk = <<>> /\ blk = <<>> /\ ph = "load" /\ chk = NoChk

\* the static clauses, computed in a step so that the workers share the work
\* (a bad line table is reported in a terminal side state, so that the exploration of the code goes on:
\* TLC does not expand a state that violates an invariant, even with -continue)
Load == /\ ph = "load"
        /\ \E k \in {StaticCheck(cid)} :
             \/ chk' = [k EXCEPT !.ln = ""] /\ ph' = "checked"
             \/ k.ln # "" /\ chk' = k /\ ph' = "lnotab"
        /\ UNCHANGED <<cid, pc, stk, blk>>
Start == /\ ph = "checked"
         /\ ph' = IF ~Runnable(chk) THEN "malformed" ELSE IF CodeLen(cid) = 0 THEN "pc" ELSE "run"
         /\ UNCHANGED <<cid, pc, stk, blk, chk>>

\* A successor that breaks a bound is turned into a terminal state that keeps the offset p of the
\* instruction that produced it (so the report names the culprit, and the state space stays finite).
Judge(p, r) ==
  IF r.ph # "run" THEN r
  ELSE IF ~(r.pc >= 0 /\ r.pc < CodeLen(cid) /\ Codes[cid].st[r.pc + 1] = 1) THEN [pc |-> p, stk |-> r.stk, blk |-> r.blk, ph |-> "pc"]
  ELSE IF Len(r.stk) > StackSize THEN [pc |-> p, stk |-> r.stk, blk |-> r.blk, ph |-> "depth"]
  ELSE IF Len(r.blk) > MAXBLOCKS THEN [pc |-> p, stk |-> r.stk, blk |-> r.blk, ph |-> "blocks"]
  ELSE IF ~LevelsOK(r.stk, r.blk) THEN [pc |-> p, stk |-> r.stk, blk |-> r.blk, ph |-> "level"]
  ELSE r
Run == /\ ph = "run"
       /\ \E r \in { Judge(pc, r0) : r0 \in Succ(cid, pc, stk, blk) } :
            /\ pc' = r.pc /\ stk' = r.stk /\ blk' = r.blk /\ ph' = r.ph
       /\ UNCHANGED <<cid, chk>>
Next == Load \/ Start \/ Run
Spec == Init /\ [][Next]_vars

---------------------------------------------------------------------------
Report(inv, p, kind) ==
  PrintT(ToJson([v |-> inv, cid |-> cid, pc |-> p, kind |-> kind, depth |-> Len(stk), nblk |-> Len(blk),
                 op |-> IF p >= 0 /\ p < CodeLen(cid) THEN B(cid, p) ELSE -1]))

InsOf(k) == { p \in chk.ins : InstrKind(cid, p) = k }
\* machinery: the boundary witness supplied by the harness is the decoding from offset 0
WitnessOK == chk.wit = {} \/ ~Report("WitnessOK", MinOf(chk.wit), "witness")
\* every instruction lies inside the code string
DecodeOK == InsOf(1) = {} \/ ~Report("DecodeOK", MinOf(InsOf(1)), "truncated")
\* every opcode is defined; EXTENDED_ARG prefixes an instruction with an operand
OpcodesOK == InsOf(2) = {} \/ ~Report("OpcodesOK", MinOf(InsOf(2)), "opcode")
\* every operand indexes an existing constant, name, local, cell or comparison
OperandsOK == InsOf(3) = {} \/ ~Report("OperandsOK", MinOf(InsOf(3)), "operand")
\* every jump lands on an instruction boundary inside the code
JumpTargetsOK == InsOf(4) = {} \/ ~Report("JumpTargetsOK", MinOf(InsOf(4)), "jump")
\* the line table is monotone and stays within the code and the source
LnotabOK == ph # "lnotab" \/ ~Report("LnotabOK", -1, chk.ln)
\* no path underflows the value stack
NoUnderflow == ph # "underflow" \/ ~Report("NoUnderflow", pc, ph)
\* the value stack never exceeds co_stacksize
DepthOK == ph # "depth" \/ ~Report("DepthOK", pc, ph)
\* MAKE_FUNCTION / MAKE_CLOSURE find the code object, the qualified name, the annotation names and the names
\* of the keyword-only defaults where the instruction's documented stack layout puts them
FuncOperandsOK == ph # "make_function" \/ ~Report("FuncOperandsOK", pc, ph)
\* POP_BLOCK / POP_EXCEPT / END_FINALLY / WITH_CLEANUP find blocks and markers of the right kind
BlocksBalanced == ph \notin {"pop_block", "pop_block_level", "pop_except", "end_finally", "with_cleanup", "handler_unwind"}
                  \/ ~Report("BlocksBalanced", pc, ph)
\* the value stack never drops below the level of an enclosing block
BlockLevelsOK == ph # "level" \/ ~Report("BlockLevelsOK", pc, ph)
\* at most CO_MAXBLOCKS nested blocks
BlockDepthOK == ph # "blocks" \/ ~Report("BlockDepthOK", pc, ph)
\* control never leaves the code string or lands inside an instruction
InRange == ph # "pc" \/ ~Report("InRange", pc, ph)
\* every path ends in RETURN_VALUE or in a propagating exception
EndsInReturn == ph # "badexit" \/ ~Report("EndsInReturn", pc, ph)
\* nothing else
PhaseKnown == ph \in {"load", "checked", "lnotab", "malformed", "run", "returned", "raised", "underflow", "badexit", "make_function",
                      "depth", "blocks", "level", "pc",
                      "pop_block", "pop_block_level", "pop_except", "end_finally", "with_cleanup", "handler_unwind"}

\* export of the reachable (pc, depth, block depth) triples of the code objects marked emit (always TRUE)
EmitReach == (ph = "run" /\ Codes[cid].emit = 1)
               => PrintT(ToJson([e |-> cid, pc |-> pc, d |-> Len(stk), b |-> Len(blk)]))
====
