\* ideal model (Shared = FALSE): NonInterference is checked on every interleaving of every script
\* assignment of the family MaxLens and of the seeded sample Chosen (module MCS is generated by the
\* harness: EXTENDS MC, defines Chosen); every terminal behaviour is exported for the replay
SPECIFICATION Spec
CONSTANTS
  Ctx = {"c1", "c2", "c3"}
  Shared = FALSE
  MaxLens <- ML210
  OnlyRelated = TRUE
  Seeds <- AllSeeds
  Cases <- AllCases
  Policies <- Both
  Configs <- AllConfigs
  ConfigDepth = 3
INVARIANTS NonInterference FinalEqualsSolo Emit
CHECK_DEADLOCK FALSE
