//go:build verif

// C08: interpreter contexts are isolated and safe to run concurrently.
//
//  1. TLC checks NonInterference on the ideal model of spec/C08/Contexts.tla (Shared = FALSE) for
//     every script assignment within the tier's bounds and prints every terminal behaviour
//     (scripts, interleaving, observations). A second run on the implementation-shaped model
//     (Shared = TRUE) prints the operations at which behaviours leave NonInterference.
//  2. R-binding: every behaviour is replayed on real py.Contexts, one goroutine per context, one
//     RunCode per operation, released by a scheduler in the model's interleaving (REPL lines are
//     two steps: the lifecycle yield point "pb" inside REPL.Run separates rebinding vm.PrintExpr
//     from running the line). The observations of every context are compared with the IDEAL
//     model's. A divergence is a leak; it is keyed by the state component (from the spec's Meta
//     record) of the operation whose observation diverged.
//  3. Race clause: the same script assignments run free (no gating) in worker subprocesses under the
//     Go race detector, together with concurrent py.Compile calls on a corpus and contexts that
//     execute one shared *py.Code. Every distinct race report is a violation. The race detector,
//     not TLC, is the oracle for this clause.
package main

import (
	"encoding/json"
	"fmt"
	"math/rand"
	"os"
	"os/exec"
	"path/filepath"
	"sort"
	"strings"
	"sync"
	"sync/atomic"
	"time"

	"gpverif/common"
)

// ---- data printed by TLC ----------------------------------------------------------------

type OpT struct {
	Op string `json:"op"`
	A  string `json:"a"`
}
type Comp struct {
	Name   string `json:"name"`
	Writer string `json:"writer"`
}
type Entry struct {
	K string `json:"k"`
	I int    `json:"i"`
	V string `json:"v"`
}
type Beh struct {
	Script map[string][]int   `json:"script"`
	Order  []string           `json:"order"`
	Obs    map[string][]Entry `json:"obs"`
	Policy map[string]string  `json:"policy"`
	Config string             `json:"config"`
	Lazy   bool               `json:"lazy"`
	Meta   map[string]Comp    `json:"meta"`
	OpList []OpT              `json:"oplist"`
	HoldD  int                `json:"holddepth"`
	RecD   int                `json:"recdepth"`
	Leak   *Comp              `json:"leak"`
	At     string             `json:"at"`
}

// Case is one (script assignment, interleaving) with the observations the ideal model allows
// (one per policy the specification leaves open).
type Case struct {
	Script  map[string][]int     `json:"script"`
	Order   []string             `json:"order"`
	Config  string               `json:"config"` // how the contexts are created: explicit | zero | default
	Lazy    bool                 `json:"lazy"`   // contexts are created at their first step
	Allowed []map[string][]Entry `json:"allowed"`
}

var (
	opList []OpT
	meta   map[string]Comp
)

func ctxNames(s map[string][]int) []string {
	var n []string
	for c := range s {
		n = append(n, c)
	}
	sort.Strings(n)
	return n
}

func scriptKey(s map[string][]int) string {
	var b strings.Builder
	for _, c := range ctxNames(s) {
		fmt.Fprintf(&b, "%s=%v;", c, s[c])
	}
	return b.String()
}

func (c *Case) hasOp(name string) bool {
	for _, s := range c.Script {
		for _, i := range s {
			if opList[i-1].Op == name {
				return true
			}
		}
	}
	return false
}

func (c *Case) components() map[string]bool {
	m := map[string]bool{}
	for _, s := range c.Script {
		for _, i := range s {
			m[meta[opList[i-1].Op].Name] = true
		}
	}
	return m
}

func (c *Case) nonEmpty() int {
	n := 0
	for _, s := range c.Script {
		if len(s) > 0 {
			n++
		}
	}
	return n
}

func (c *Case) render() map[string]interface{} {
	sc := map[string][]string{}
	for n, s := range c.Script {
		sc[n] = []string{}
		for _, i := range s {
			o := opList[i-1]
			if o.A != "" {
				sc[n] = append(sc[n], o.Op+"("+o.A+")")
			} else {
				sc[n] = append(sc[n], o.Op)
			}
		}
	}
	return map[string]interface{}{"script": sc, "order": c.Order, "contexts_created": c.Config, "created_at_first_step": c.Lazy}
}

// ---- TLC runs ---------------------------------------------------------------------------

type tlcStats struct {
	name      string
	states    int64
	generated int64
	records   int
}

func runIdeal(env *common.Env, rep *common.Report, cases map[string]*Case, order *[]string, cfg string, extra map[string]string, module string) tlcStats {
	res := env.MustTLC(common.TLCRun{Dir: "C08", Module: module, Config: cfg, Extra: extra, Timeout: 20 * time.Minute,
		OnLine: func(b []byte) {
			var r Beh
			if err := json.Unmarshal(b, &r); err != nil {
				common.Inconclusive("property=C08 bad record from TLC: %v", err)
			}
			if r.Meta != nil {
				meta, opList = r.Meta, r.OpList
				if r.HoldD != holdDepth || r.RecD != recDepth {
					common.Inconclusive("property=C08 the specification's HoldDepth/RecDepth (%d/%d) differ from the templates' (%d/%d)", r.HoldD, r.RecD, holdDepth, recDepth)
				}
				return
			}
			if r.Script == nil {
				return
			}
			k := scriptKey(r.Script) + strings.Join(r.Order, "") + "/" + r.Config
			c := cases[k]
			if c == nil {
				c = &Case{Script: r.Script, Order: r.Order, Config: r.Config, Lazy: r.Lazy}
				cases[k] = c
				*order = append(*order, k)
			}
			js, _ := json.Marshal(r.Obs)
			for _, a := range c.Allowed {
				if ja, _ := json.Marshal(a); string(ja) == string(js) {
					return
				}
			}
			c.Allowed = append(c.Allowed, r.Obs)
		}})
	if len(res.Violations) > 0 || !res.Finished {
		common.Inconclusive("property=C08 the ideal model does not satisfy NonInterference (%s): %v\n%s", cfg, res.Violations, res.Stdout)
	}
	rep.AddTLC(res)
	return tlcStats{cfg, res.Distinct, res.Generated, res.Records}
}

func runImpl(env *common.Env, rep *common.Report, cfg string) (map[string]int, tlcStats) {
	leaks := map[string]int{}
	res := env.MustTLC(common.TLCRun{Dir: "C08", Module: "MC", Config: cfg, Timeout: 20 * time.Minute,
		OnLine: func(b []byte) {
			var r Beh
			if json.Unmarshal(b, &r) == nil && r.Leak != nil {
				leaks[r.Leak.Writer+"|"+r.Leak.Name]++
			}
		}})
	if len(res.Violations) > 0 || !res.Finished {
		common.Inconclusive("property=C08 implementation-shaped run failed (%s): %v\n%s", cfg, res.Violations, res.Stdout)
	}
	rep.AddTLC(res)
	return leaks, tlcStats{cfg, res.Distinct, res.Generated, res.Records}
}

// sampleModule: module MCS with an explicit, seeded set Chosen of script assignments (TLC explores
// every interleaving of each); AllCases adds the exhaustive family of the configuration.
type smp struct{ n, nctx, maxLen int }

func sampleModule(rng *rand.Rand, samples []smp, nops int) string {
	var sets []string
	seen := map[string]bool{}
	for _, sm := range samples {
		for k := 0; k < sm.n; {
			var parts []string
			for c := 0; c < 3; c++ {
				var s []string
				if c < sm.nctx {
					l := 1 + rng.Intn(sm.maxLen)
					for j := 0; j < l; j++ {
						s = append(s, fmt.Sprint(1+rng.Intn(nops)))
					}
				}
				parts = append(parts, "<<"+strings.Join(s, ", ")+">>")
			}
			e := "F3(" + strings.Join(parts, ", ") + ")"
			if seen[e] {
				continue
			}
			seen[e] = true
			sets = append(sets, e)
			k++
		}
	}
	if len(sets) == 0 {
		sets = []string{"F3(<<>>, <<>>, <<>>)"}
	}
	return "---- MODULE MCS ----\nEXTENDS MC\nChosen == {" + strings.Join(sets, ",\n  ") + "}\n" +
		"AllSeeds == MCSeeds \\cup { a[\"c1\"] : a \\in Chosen }\n" +
		"AllCases(s1) == MCCases(s1) \\cup { a \\in Chosen : a[\"c1\"] = s1 }\n====\n"
}

// ---- race-detector plumbing -------------------------------------------------------------

func argValue(name string) string {
	for i, a := range os.Args {
		if a == name && i+1 < len(os.Args) {
			return os.Args[i+1]
		}
		if strings.HasPrefix(a, name+"=") {
			return a[len(name)+1:]
		}
	}
	return ""
}

// reexecWithRaceLog: GORACE is read when the process starts, so the check re-executes itself once
// with the race detector told to log to the scratch directory and to keep going.
func reexecWithRaceLog() {
	if os.Getenv("GPV_C08_CHILD") != "" {
		return
	}
	scratch := argValue("-scratch")
	if scratch == "" {
		return
	}
	cmd := exec.Command(os.Args[0], os.Args[1:]...)
	cmd.Env = append(os.Environ(), "GPV_C08_CHILD=1", "GORACE=halt_on_error=0 exitcode=0 log_path="+filepath.Join(scratch, "race"))
	var se strings.Builder
	cmd.Stdout, cmd.Stderr, cmd.Stdin = os.Stdout, &tee{&se}, nil
	err := cmd.Run()
	if fl := fatalLine(se.String()); strings.HasPrefix(fl, "fatal error:") {
		// The Go runtime aborted the driver while independent behaviours were being replayed on distinct
		// contexts in parallel (e.g. "concurrent map read and map write"): that is the property failing,
		// not the machinery.
		env := common.Setup()
		rep := common.NewReport(env, "model_checking")
		rep.Rule = "the run was aborted by the Go runtime during the parallel replay; nothing else was counted"
		rep.Evaluations, rep.Distinct = 1, 0
		rep.Violation("C08|race|fatal|"+common.TrimKey(fl, 60), map[string]interface{}{"workload": "parallel replay of independent behaviours on distinct contexts",
			"stderr": common.TrimKey(se.String(), 3000)})
		rep.Finish()
	}
	if ee, ok := err.(*exec.ExitError); ok {
		os.Exit(ee.ExitCode())
	}
	if err != nil {
		common.Inconclusive("property=C08 cannot re-execute: %v", err)
	}
	os.Exit(0)
}

// tee copies the child's stderr through and keeps the first part of it
type tee struct{ keep *strings.Builder }

func (t *tee) Write(p []byte) (int, error) {
	if t.keep.Len() < 1<<16 {
		t.keep.Write(p)
	}
	return os.Stderr.Write(p)
}

type raceReport struct {
	key   string
	text  string
	files string
}

const gpPrefix = "github.com/go-python/gpython/"

// parseRaceLogs turns every report in <scratch>/<prefix>.* into (top gpython frame of access 1, of access 2).
func parseRaceLogs(glob string) []raceReport {
	var out []raceReport
	files, _ := filepath.Glob(glob)
	sort.Strings(files)
	for _, f := range files {
		b, err := os.ReadFile(f)
		if err != nil {
			continue
		}
		for _, blk := range strings.Split(string(b), "==================") {
			if !strings.Contains(blk, "WARNING: DATA RACE") {
				continue
			}
			var tops []string
			lines := strings.Split(blk, "\n")
			for i := 0; i < len(lines); i++ {
				l := lines[i]
				isAccess := (strings.Contains(l, " at 0x") && strings.Contains(l, " by ")) &&
					(strings.HasPrefix(l, "Write") || strings.HasPrefix(l, "Read") || strings.HasPrefix(l, "Previous") || strings.HasPrefix(l, "Atomic"))
				if !isAccess {
					continue
				}
				top, first := "", ""
				for j := i + 1; j < len(lines) && strings.TrimSpace(lines[j]) != ""; j++ {
					fl := lines[j]
					if !strings.HasPrefix(fl, "  ") || strings.HasPrefix(fl, "      ") {
						continue // file:line lines
					}
					fn := strings.TrimSpace(fl)
					if k := strings.LastIndex(fn, "("); k > 0 {
						fn = fn[:k]
					}
					if first == "" {
						first = fn
					}
					if strings.HasPrefix(fn, gpPrefix) {
						top = strings.TrimPrefix(fn, gpPrefix)
						break
					}
				}
				if top == "" {
					top = first
				}
				tops = append(tops, top)
			}
			sort.Strings(tops)
			out = append(out, raceReport{key: strings.Join(tops, "|"), text: common.TrimKey(blk, 1500), files: filepath.Base(f)})
		}
	}
	return out
}

// ---- main -------------------------------------------------------------------------------

func main() {
	if jf := os.Getenv("GPV_C08_SOLO"); jf != "" {
		soloWorker(jf)
		return
	}
	if os.Getenv("GPV_C08_STRESS") != "" {
		stressWorker(os.Getenv("GPV_C08_STRESS"))
		return
	}
	reexecWithRaceLog()
	env := common.Setup()
	rep := common.NewReport(env, "model_checking")
	rep.Rule = "a case is one terminal behaviour (script assignment, interleaving) of spec/C08/Contexts.tla printed by TLC and replayed on real contexts with every context's observations compared with the ideal model's; distinct = distinct (scripts, interleaving); non-trivial = at least two contexts run at least one operation each"
	rep.Assumptions = []string{
		"TLC and the CommunityModules Json module are correct",
		"operation-level gating: one RunCode per operation, released in the model's interleaving (REPL.Run is split at the lifecycle yield point inside RunCode); interleavings inside a statement are only exercised by the free-running race stage",
		"the no-data-race clause is decided by the Go race detector on the free-running workloads, not by TLC",
		"interference between operations on different state components is unobservable by construction (distinct names), so exhaustive enumeration is restricted to script assignments that share a component; unrelated assignments are sampled",
	}
	rng := rand.New(rand.NewSource(env.Seed))

	// 1. TLC: ideal model (verdict): the exhaustive family of the tier plus a seeded sample ...
	cases := map[string]*Case{}
	var order []string
	var stats []tlcStats
	nops := 30 // size of the alphabet; checked against the Meta record below
	samples := []smp{{env.Pick(180, 1000), 2, 2}, {env.Pick(30, 200), 3, 2}, {env.Pick(45, 400), 2, 3}, {env.Pick(0, 20), 3, 3}}
	mcs := map[string]string{"MCS.tla": sampleModule(rng, samples, nops)}
	stats = append(stats, runIdeal(env, rep, cases, &order, map[bool]string{false: "ideal.cfg", true: "ideal_thorough.cfg"}[env.Thorough()], mcs, "MCS"))
	if env.Thorough() {
		stats = append(stats, runIdeal(env, rep, cases, &order, "ideal_111.cfg", map[string]string{"MCS.tla": sampleModule(rng, nil, nops)}, "MCS"))
		// design check of the larger family; nothing exported (replaying its 420 000 behaviours under -race does not fit the budget)
		stats = append(stats, runIdeal(env, rep, cases, &order, "design22.cfg", nil, "MC"))
	}
	if meta == nil || len(opList) != nops {
		common.Inconclusive("property=C08 TLC printed no Meta record or the alphabet has changed (%d operations)", len(opList))
	}
	rep.Extra["sampled_assignments"] = map[string]int{"2 contexts x <=2 ops": samples[0].n, "3 contexts x <=2 ops": samples[1].n, "2 contexts x <=3 ops": samples[2].n, "3 contexts x <=3 ops": samples[3].n}
	// ... and the implementation-shaped model (documents which operations leak in the design as built)
	modelLeaks, st := runImpl(env, rep, map[bool]string{false: "impl.cfg", true: "impl_thorough.cfg"}[env.Thorough()])
	stats = append(stats, st)
	tl := map[string]interface{}{}
	for _, s := range stats {
		tl[s.name] = map[string]int64{"states": s.states, "generated": s.generated, "records": int64(s.records)}
	}
	rep.Extra["tlc_runs"] = tl
	rep.Extra["leaks_in_implementation_shaped_model"] = modelLeaks
	fmt.Printf("phase tlc done at %.1fs: %d behaviours\n", time.Since(env.Start).Seconds(), len(order))

	// 2. gated replay against the ideal model
	sort.Strings(order)
	initRuntime(env.Scratch)
	stdTypes = liveStdTypes(env.Repo)
	if len(stdTypes) == 0 {
		common.Inconclusive("property=C08 no type exported by a Go-implemented module was found in the live interpreter")
	}
	rep.Extra["types_of_go_modules_found_live"] = stdTypes
	leaky := replayAll(env, rep, cases, order)
	fmt.Printf("phase replay done at %.1fs\n", time.Since(env.Start).Seconds())

	// 3. race clause
	raceStage(env, rep, rng, cases, order, leaky)

	rep.Finish()
}

// replayAll replays every case; returns the components that leaked (name -> writer).
func replayAll(env *common.Env, rep *common.Report, cases map[string]*Case, order []string) map[string]string {
	var (
		mu       sync.Mutex
		leaky    = map[string]string{}
		nontriv  int64
		steps    int64
		diverged int64
		serial   int64
	)
	// smoke: every single-operation solo behaviour first, serially. A divergence there that shows no
	// value written by another context is a broken scaffold (templates vs specification), not a verdict.
	var pre, rest []string
	for _, k := range order {
		c := cases[k]
		tot := 0
		for _, s := range c.Script {
			tot += len(s)
		}
		if tot == 1 {
			// alone in the process: no other context exists
			d := replayCase(c, int(atomic.AddInt64(&serial, 1)), true)
			if d != nil && !d.foreign && !soloInFreshProcess(env, c) {
				// also in a process that has never had another context: the templates and the specification disagree
				common.Inconclusive("property=C08 scaffold: a single operation run alone does not behave as the specification says: %v", d.detail(c))
			}
			// (if it behaves as specified in a fresh process, the divergence here is caused by state that
			// earlier, closed contexts of this process left behind: a leak between contexts)
			if d == nil {
				// the same with idle contexts around it
				d = replayCase(c, int(atomic.AddInt64(&serial, 1)), false)
			}
			if d != nil {
				leaky[d.comp.Name] = d.comp.Writer
				rep.Violation("C08|"+d.comp.Writer+"|"+d.comp.Name+" shared", d.detail(c))
			}
			steps++
			continue
		}
		if tot == 2 && c.nonEmpty() == 2 {
			pre = append(pre, k)
		} else {
			rest = append(rest, k)
		}
	}
	handle := func(k string) {
		c := cases[k]
		d := replayCase(c, int(atomic.AddInt64(&serial, 1)), false)
		mu.Lock()
		defer mu.Unlock()
		steps += int64(len(c.Order))
		if c.nonEmpty() >= 2 {
			nontriv++
		}
		if d != nil {
			diverged++
			leaky[d.comp.Name] = d.comp.Writer
			rep.Violation("C08|"+d.comp.Writer+"|"+d.comp.Name+" shared", d.detail(c))
		}
	}
	// first, one at a time, every behaviour of two contexts with one operation each: this shows which
	// state components are really shared in this build ...
	for _, k := range pre {
		handle(k)
	}
	// ... because a behaviour that touches a shared component cannot be replayed while other behaviours
	// run in this process (Go maps written by one goroutine and read by another abort the process).
	// vm.PrintExpr is one variable per process, so REPL behaviours are also replayed one at a time.
	var alone, pool []string
	for _, k := range rest {
		c := cases[k]
		solo := c.hasOp("ReplLine") || c.hasOp("HoldDeep")
		for comp := range c.components() {
			if _, ok := leaky[comp]; ok {
				solo = true
			}
		}
		if solo {
			alone = append(alone, k)
		} else {
			pool = append(pool, k)
		}
	}
	var wg sync.WaitGroup
	jobs := make(chan string, 256)
	nw := env.Workers / 2
	if nw < 2 {
		nw = 2
	}
	if nw > 8 {
		nw = 8
	}
	for w := 0; w < nw; w++ {
		wg.Add(1)
		go func() {
			defer wg.Done()
			for k := range jobs {
				handle(k)
			}
		}()
	}
	for _, k := range pool {
		jobs <- k
	}
	close(jobs)
	wg.Wait()
	for _, k := range alone {
		handle(k)
	}
	rep.Extra["replayed_in_parallel"] = len(pool)
	rep.Extra["replayed_one_at_a_time"] = len(alone) + len(pre)
	for i := 0; i < len(order) && i < 5; i++ {
		c := cases[order[(i*7919)%len(order)]]
		r := c.render()
		r["allowed_observations"] = c.Allowed
		rep.Sample(r)
	}
	rep.Evaluations = steps
	rep.Distinct = nontriv
	rep.Traces = int64(len(order))
	rep.Extra["behaviours_replayed"] = len(order)
	rep.Extra["behaviours_diverging_from_ideal"] = diverged
	rep.Extra["leaking_components_observed"] = leaky
	// vacuity: every operation of the alphabet must have been executed
	used := map[string]int{}
	for _, k := range order {
		for _, s := range cases[k].Script {
			for _, i := range s {
				used[opList[i-1].Op]++
			}
		}
	}
	rep.Extra["operation_counts"] = used
	for _, o := range opList {
		if used[o.Op] == 0 {
			common.Inconclusive("property=C08 operation %s never occurred in a replayed behaviour", o.Op)
		}
	}
	return leaky
}

// soloInFreshProcess runs one single-operation case in a new process and reports whether it behaves as specified there.
func soloInFreshProcess(env *common.Env, c *Case) bool {
	jf := filepath.Join(env.Scratch, "solo.json")
	b, _ := json.Marshal(&stressJob{Cases: []*Case{c}, OpList: opList, Meta: meta, StdTypes: stdTypes, Scratch: env.Scratch})
	os.WriteFile(jf, b, 0o644)
	cmd := exec.Command(os.Args[0])
	cmd.Dir = env.Scratch
	cmd.Env = append(os.Environ(), "GPV_C08_SOLO="+jf)
	// the verdict is the exit status (0 = behaves as specified); whatever the child prints is not protocol
	return cmd.Run() == nil
}

// ---- race stage -------------------------------------------------------------------------

type stressJob struct {
	Cases     []*Case         `json:"cases"`
	OpList    []OpT           `json:"oplist"`
	StdTypes  []string        `json:"std_types"`
	Meta      map[string]Comp `json:"meta"`
	Rounds    int             `json:"rounds"`
	Parallel  int             `json:"parallel"`
	Compilers int             `json:"compilers"`
	SharedN   int             `json:"shared_n"`
	Corpus    []string        `json:"corpus"`
	Scratch   string          `json:"scratch"`
	Seed      int64           `json:"seed"`
	CheckObs  bool            `json:"check_obs"`
	BudgetS   int             `json:"budget_s"` // the worker stops starting new runs after this many seconds
}
type stressMismatch struct {
	Comp   Comp        `json:"comp"`
	Detail interface{} `json:"detail"`
}
type stressResult struct {
	Runs       int              `json:"runs"`
	Ops        int              `json:"ops"`
	Compiles   int              `json:"compiles"`
	SharedRuns int              `json:"shared_runs"`
	SharedDiff []string         `json:"shared_diff"`
	Mismatches []stressMismatch `json:"mismatches"`
	Panics     []string         `json:"panics"`
	Stdout     string           `json:"-"` // what the worker wrote to its stdout: text that escaped every context's writer
}

func corpus(env *common.Env, rng *rand.Rand, n int) []string {
	var files []string
	for _, g := range []string{"vm/tests/*.py", "py/tests/*.py", "examples/*.py", "compile/*.py"} {
		m, _ := filepath.Glob(filepath.Join(env.Repo, g))
		files = append(files, m...)
	}
	sort.Strings(files)
	rng.Shuffle(len(files), func(i, j int) { files[i], files[j] = files[j], files[i] })
	var out []string
	for _, f := range files {
		b, err := os.ReadFile(f)
		if err != nil || len(b) > 6000 {
			continue
		}
		out = append(out, string(b))
		if len(out) >= n {
			break
		}
	}
	return out
}

func runStress(env *common.Env, name string, job *stressJob, timeout time.Duration) (*stressResult, string, error) {
	jf := filepath.Join(env.Scratch, "stress-"+name+".json")
	b, _ := json.Marshal(job)
	os.WriteFile(jf, b, 0o644)
	cmd := exec.Command(os.Args[0])
	cmd.Dir = env.Scratch
	rf := filepath.Join(env.Scratch, "stress-"+name+".result.json")
	os.Remove(rf)
	cmd.Env = append(os.Environ(), "GPV_C08_STRESS="+jf, "GPV_C08_RESULT="+rf,
		"GORACE=halt_on_error=0 exitcode=0 log_path="+filepath.Join(env.Scratch, "race-"+name))
	var so, se strings.Builder
	cmd.Stdout, cmd.Stderr = &so, &se
	if err := cmd.Start(); err != nil {
		return nil, "", err
	}
	t := time.AfterFunc(timeout, func() { cmd.Process.Kill() })
	err := cmd.Wait()
	t.Stop()
	// the result comes in a file the parent named; stdout and stderr of the worker are data (text that leaked out
	// of a context, runtime messages), never protocol
	var res stressResult
	rb, rerr := os.ReadFile(rf)
	if rerr == nil {
		rerr = json.Unmarshal(rb, &res)
	}
	if rerr != nil && err == nil {
		err = fmt.Errorf("no result from stress worker: %v", rerr)
	}
	res.Stdout = common.TrimKey(so.String(), 400)
	return &res, se.String(), err
}

func fatalLine(stderr string) string {
	for _, l := range strings.Split(stderr, "\n") {
		if strings.HasPrefix(l, "fatal error:") || strings.HasPrefix(l, "panic:") {
			return strings.TrimSpace(l)
		}
	}
	return ""
}

func raceStage(env *common.Env, rep *common.Report, rng *rand.Rand, cases map[string]*Case, order []string, leaky map[string]string) {
	// distinct script assignments with at least two active contexts
	byScript := map[string]*Case{}
	var keys []string
	for _, k := range order {
		c := cases[k]
		if c.nonEmpty() < 2 {
			continue
		}
		sk := scriptKey(c.Script) + "/" + c.Config
		if _, ok := byScript[sk]; !ok {
			byScript[sk] = c
			keys = append(keys, sk)
		}
	}
	rng.Shuffle(len(keys), func(i, j int) { keys[i], keys[j] = keys[j], keys[i] })
	var clean []*Case
	leakyCases := map[string][]*Case{}
	for _, sk := range keys {
		c := byScript[sk]
		var hit []string
		for comp := range c.components() {
			if _, ok := leaky[comp]; ok {
				hit = append(hit, comp)
			}
		}
		switch len(hit) {
		case 0:
			clean = append(clean, c)
		case 1:
			leakyCases[hit[0]] = append(leakyCases[hit[0]], c)
		}
	}
	nClean := env.Pick(400, 6000)
	if len(clean) > nClean {
		clean = clean[:nClean]
	}
	raceInfo := map[string]interface{}{"race_detector": raceEnabled}
	if !raceEnabled {
		fmt.Println("note: built without -race (VERIF_NORACE=1): the data-race clause is not decided by this run")
	}
	total := 0
	// clean workload: everything that did not leak in the replay, plus concurrent Compile and a shared code object
	job := &stressJob{Cases: clean, OpList: opList, Meta: meta, StdTypes: stdTypes, Rounds: env.Pick(1, 2), Parallel: 4, Compilers: 16, SharedN: env.Pick(8, 16),
		Corpus: corpus(env, rng, env.Pick(24, 120)), Scratch: env.Scratch, Seed: env.Seed, CheckObs: true}
	job.BudgetS = env.Pick(25, 150)
	res, stderr, err := runStress(env, "clean", job, time.Duration(job.BudgetS+90)*time.Second)
	reports := parseRaceLogs(filepath.Join(env.Scratch, "race-clean.*"))
	reports = append(reports, parseRaceLogs(filepath.Join(env.Scratch, "race.*"))...) // the gated replay itself
	for _, r := range reports {
		rep.Violation("C08|race|"+r.key, map[string]interface{}{"workload": "clean", "report": r.text})
	}
	if err != nil {
		if fl := fatalLine(stderr); fl != "" {
			rep.Violation("C08|race|fatal|"+common.TrimKey(fl, 60), map[string]interface{}{"workload": "clean", "stderr": common.TrimKey(stderr, 3000)})
		} else if len(reports) == 0 {
			common.Inconclusive("property=C08 stress worker (clean workload) failed: %v\n%s", err, common.TrimKey(stderr, 2000))
		}
	} else {
		total += res.Runs
		raceInfo["clean"] = res2map(res, len(clean))
		for _, m := range res.Mismatches {
			rep.Violation("C08|"+m.Comp.Writer+"|"+m.Comp.Name+" shared", map[string]interface{}{"free_running": true, "case": m.Detail})
		}
		for _, d := range res.SharedDiff {
			rep.Violation("C08|shared code object|output differs from solo run", d)
		}
		for _, p := range res.Panics {
			rep.Violation("C08|free run|panic|"+common.TrimKey(p, 80), p)
		}
		if res.Stdout != "" {
			// every context of the workload has its own captured sys.stdout: text on the process's stdout was
			// printed through another context's sys module
			c := meta["Print"]
			rep.Violation("C08|"+c.Writer+"|"+c.Name+" shared", map[string]interface{}{"free_running": true, "text_on_process_stdout": res.Stdout})
		}
	}
	raceInfo["clean_race_reports"] = len(reports)

	// one workload per leaking component: concurrent use of state the replay has shown to be shared
	var comps []string
	for c := range leaky {
		comps = append(comps, c)
	}
	sort.Strings(comps)
	for i, comp := range comps {
		cs := leakyCases[comp]
		if len(cs) > env.Pick(60, 600) {
			cs = cs[:env.Pick(60, 600)]
		}
		if len(cs) == 0 {
			continue
		}
		name := fmt.Sprintf("leaky%d", i)
		job := &stressJob{Cases: cs, OpList: opList, Meta: meta, StdTypes: stdTypes, Rounds: env.Pick(3, 6), Parallel: 4, Scratch: env.Scratch, Seed: env.Seed, BudgetS: env.Pick(8, 25)}
		res, stderr, err := runStress(env, name, job, time.Duration(job.BudgetS+60)*time.Second)
		key := "C08|" + leaky[comp] + "|" + comp + " shared|data race"
		info := map[string]interface{}{"assignments": len(cs)}
		if err != nil {
			fl := fatalLine(stderr)
			if fl == "" {
				common.Inconclusive("property=C08 stress worker (%s) failed: %v\n%s", comp, err, common.TrimKey(stderr, 2000))
			}
			info["fatal"] = fl
			rep.Violation(key, map[string]interface{}{"workload": comp, "fatal": fl})
		} else {
			total += res.Runs
			info["runs"] = res.Runs
		}
		rs := parseRaceLogs(filepath.Join(env.Scratch, "race-"+name+".*"))
		seen := map[string]bool{}
		for _, r := range rs {
			if !seen[r.key] {
				seen[r.key] = true
			}
			rep.Violation(key, map[string]interface{}{"workload": comp, "frames": r.key, "report": r.text})
		}
		var fr []string
		for k := range seen {
			fr = append(fr, k)
		}
		sort.Strings(fr)
		info["race_reports"] = len(rs)
		info["race_frames"] = fr
		raceInfo["leaky:"+comp] = info
	}
	raceInfo["free_runs"] = total
	rep.Extra["race_stage"] = raceInfo
	fmt.Printf("phase race done at %.1fs\n", time.Since(env.Start).Seconds())
}

func res2map(r *stressResult, n int) map[string]interface{} {
	return map[string]interface{}{"assignments": n, "free_runs": r.Runs, "operations": r.Ops, "compiles": r.Compiles, "shared_code_runs": r.SharedRuns}
}
