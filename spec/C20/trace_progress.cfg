SPECIFICATION TSpec
CONSTANTS
  Kinds <- TKinds
  MaxItems = 1000
  Progress = TRUE
INVARIANT Emit
CHECK_DEADLOCK FALSE
