------------------------------ MODULE Pipeline ------------------------------
(* C11: the compile pipeline is total.                                                        *)
(*                                                                                            *)
(* compile(bytes, file, mode) runs the stages Lex -> Parse -> Symtable -> Compile -> Assemble.*)
(* Every stage either passes its product on or stops the pipeline with an exception of the    *)
(* SyntaxError family that carries file name, line and offset.  When the last stage passes    *)
(* the result is a code object.  Nothing else can be observed: there is no action that        *)
(* produces a panic, a SystemError, any other exception class, an error without location, or  *)
(* "no answer" (watchdog expiry).                                                             *)
(*                                                                                            *)
(* The only thing the specification knows about the *input* is what PyLex says about it       *)
(* (parameter lex of the initial state):                                                      *)
(*   "err"     PyLex finds a lexical error (unknown character, inconsistent dedent)           *)
(*   "eof"     PyLex finds the end of file inside brackets / after a backslash                *)
(*   "toks"    PyLex produces a token stream                                                  *)
(*   "none"    PyLex makes no claim (text outside the part of the lexical grammar it models)  *)
(* In the first two cases the Lex stage cannot pass.  Which of the later stages fails, and    *)
(* whether one does, is not decided here: this module is an outcome monitor, not a compiler.  *)
EXTENDS Integers, Sequences, FiniteSets, TLC

Stages    == <<"Lex", "Parse", "Symtable", "Compile", "Assemble">>
Modes     == {"exec", "eval", "single"}
LexClass  == {"err", "eof", "toks", "none"}
SynFamily == {"SyntaxError", "IndentationError", "TabError"}

NoOutcome   == [kind |-> "none", cls |-> "", file |-> FALSE, line |-> FALSE, offset |-> FALSE]
CodeOutcome == [kind |-> "code", cls |-> "", file |-> FALSE, line |-> FALSE, offset |-> FALSE]
SynOutcome(c) == [kind |-> "exc", cls |-> c, file |-> TRUE, line |-> TRUE, offset |-> TRUE]

(* classes a stage may raise: the two indentation classes come from the lexer and the parser  *)
(* ("expected an indented block"); later stages report plain SyntaxError                      *)
MayRaise(stage) == IF stage \in {"Lex", "Parse"} THEN SynFamily ELSE {"SyntaxError"}

(* the machine as a successor function, so that the same definition serves the model-checked  *)
(* behaviour spec below and the acceptance test for observed outcomes                         *)
Start(lex, mode) == [lex |-> lex, mode |-> mode, at |-> 1, outcome |-> NoOutcome]
Running(s) == s.outcome.kind = "none"
Succ(s) ==
  IF ~Running(s) THEN {}
  ELSE LET stage == Stages[s.at]
           pass  == IF stage = "Lex" /\ s.lex \in {"err", "eof"} THEN {}
                    ELSE IF s.at = Len(Stages) THEN { [s EXCEPT !.outcome = CodeOutcome] }
                    ELSE { [s EXCEPT !.at = @ + 1] }
           fail  == { [s EXCEPT !.outcome = SynOutcome(c)] : c \in MayRaise(stage) }
       IN pass \cup fail

VARIABLE st
Init == st \in { Start(l, m) : l \in LexClass, m \in Modes }
Next == st' \in Succ(st)
Spec == Init /\ [][Next]_st

(* design checks (TLC, Pipeline.cfg) *)
TypeOK == st.at \in 1..Len(Stages) /\ st.lex \in LexClass /\ st.mode \in Modes
Total == ~Running(st) => \/ st.outcome = CodeOutcome
                         \/ (st.outcome.kind = "exc" /\ st.outcome.cls \in SynFamily
                             /\ st.outcome.file /\ st.outcome.line /\ st.outcome.offset)
NoStuck == Running(st) => Succ(st) # {}                      \* termination: every running state has a successor ...
Progress == Running(st) => \A t \in Succ(st) : ~Running(t) \/ t.at > st.at   \* ... and stages only advance
LexVerdict == (st.lex \in {"err", "eof"} /\ ~Running(st)) => st.outcome.kind = "exc"

(* all states reachable from s (at most Len(Stages)+1 steps) *)
RECURSIVE ReachFrom(_, _)
ReachFrom(S, n) == IF n = 0 THEN S ELSE ReachFrom(S \cup UNION { Succ(s) : s \in S }, n - 1)
Terminals(lex, mode) == { s.outcome : s \in { t \in ReachFrom({Start(lex, mode)}, Len(Stages) + 1) : ~Running(t) } }

(* An observed event [lex, mode, kind, cls, bases, file, line, offset] is accepted iff some    *)
(* terminal outcome of the machine matches it; exception classes are compared up to           *)
(* inheritance (bases = the observed class and all its base classes).                         *)
Matches(o, e) ==
  /\ o.kind = e.kind
  /\ o.kind = "exc" => /\ \E i \in 1..Len(e.bases) : e.bases[i] = o.cls
                       /\ o.file = e.file /\ o.line = e.line /\ o.offset = e.offset
Accepts(e) == e.lex \in LexClass /\ e.mode \in Modes /\ \E o \in Terminals(e.lex, e.mode) : Matches(o, e)
=============================================================================
