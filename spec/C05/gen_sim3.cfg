\* sampled (-simulate): histories of 6 next/send("a")/send("b") calls on 3 live generators, all 14 templates
SPECIFICATION SpecCalls
CONSTANTS
  NTop = 3
  MaxOps = 6
  NB = 14
  MaxMicro = 80
  MaxOpsOne = 0
  LockChoices <- NoTops
  Bodies <- B
  SendVals <- SendThorough
  TopChoices <- TopsWithValues
INVARIANTS RunComplete TypeOK DoneAbsorbing DoneStatus SendCreated LazyCreation Quiescent SuspendedAtYield Emit
CHECK_DEADLOCK FALSE
