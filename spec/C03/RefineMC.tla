---- MODULE RefineMC ----
\* Bounded families of pass-1 results (two names) on which SymtableRun is explored under every
\* iteration order.  Used by C03 (invariant RefinesD) and C18 (invariant Confluent).
EXTENDS SymtableRun
CONSTANTS NameSeq,          \* the names in a fixed order (canonical order of the functional driver)
          Shapes,           \* parent vectors
          FlagsX, FlagsY    \* def-use flag sets tried for the first / second name
ShapesQ == { <<0,1>>, <<0,1,2>>, <<0,1,1>> }
ShapesT == { <<0,1>>, <<0,1,2>>, <<0,1,1>>, <<0,1,2,3>>, <<0,1,2,2>> }
FX2 == { {}, {"L"}, {"U"}, {"L","U"}, {"G"}, {"G","L"}, {"G","U"}, {"N"}, {"N","L"}, {"N","U"}, {"P"}, {"P","U"}, {"P","G"}, {"P","N"}, {"G","N"} }
FY2 == { {}, {"L"}, {"U"}, {"L","U"}, {"G","L"}, {"N","U"}, {"P"} }
FX3 == { {}, {"L"}, {"U"}, {"L","U"}, {"G","L"}, {"N","U"}, {"P"} }
FY3 == { {"L"}, {"U"}, {"L","U"}, {"N","L"} }
FYq == { {"L","U"}, {"N","L"} }
Shapes4 == { <<0,1,2,3>>, <<0,1,2,2>> }
FX4 == { {"L"}, {"U"}, {"N","U"}, {"G","L"} }
Seq2 == <<"x", "y">>
VARIABLES shape, types, fx, fy
allvars == <<prog, stk, res, err, shape, types, fx, fy>>
FlagsOf(i, n) == IF n = NameSeq[1] THEN fx[i] ELSE fy[i]
Mk == WithModuleGlobals([i \in 1..Len(shape) |-> [type |-> types[i], parent |-> shape[i], flags |-> [n \in Names |-> FlagsOf(i, n)]]])
TypesOK == types[1] = "module" /\ \A i \in 2..Len(shape) : types[i] # "module"
Init == /\ shape \in Shapes
        /\ types \in [1..Len(shape) -> {"module", "function", "class"}] /\ TypesOK
        /\ fx \in [1..Len(shape) -> FlagsX] /\ (\A i \in 1..Len(shape) : "P" \in fx[i] => types[i] = "function")
        /\ fy \in [1..Len(shape) -> FlagsY] /\ (\A i \in 1..Len(shape) : "P" \in fy[i] => types[i] = "function")
        /\ prog = Mk /\ err = "" /\ res = [b \in 1..Len(shape) |-> NoRes]
        /\ stk = <<Frame(1, NIL, {}, {})>>
SpecMC == Init /\ [][Next /\ UNCHANGED <<shape, types, fx, fy>>]_allvars
\* C18: all terminal states of one program agree (= the functional driver in the canonical order)
Canon == Analyze(prog, UniformOrd(prog, NameSeq))
Confluent == Terminal => /\ (err # "") = (Canon.err # "")
                         /\ (err = "" => \A b \in 1..Len(prog) : res[b] = Canon.res[b])
View == <<prog, stk, res, err # "">>
====
