----------------------------- MODULE PyIntTrace -----------------------------
(* Trace validation for C07: every line of trace.ndjson is one integer operation performed by  *)
(* the real gpython code (through the Go API with each operand forced into each representation, *)
(* or through compiled source text) together with what was observed.  A line is accepted iff    *)
(* the observation is the outcome PyInt!Expected allows.  Lines are independent: one initial     *)
(* state per line, the check itself is done in the Next step so that all TLC workers share it.   *)
(* Rejected lines are exported as JSON records (finding key computed from the specification's    *)
(* case partition, and the expected outcome); the harness only relays them.                      *)
EXTENDS PyInt, Json
Lines == ndJsonDeserialize("trace.ndjson")
VARIABLES l, v
\* lines carry only the fields their operation needs (loading JSON is the single-threaded part of a run);
\* Full(R) completes a line to the uniform record PyInt reads
Fld(R, f, d) == IF f \in DOMAIN R THEN R[f] ELSE d
FullObs(o) == [k |-> o.k, v |-> Fld(o, "v", ZZero), rv |-> Fld(o, "rv", "?"), v2 |-> Fld(o, "v2", ZZero), rv2 |-> Fld(o, "rv2", "?"),
               t |-> Fld(o, "t", 0), txt |-> Fld(o, "txt", <<>>), bases |-> Fld(o, "bases", <<>>)]
Full(R) == [op |-> R.op, form |-> Fld(R, "form", ""), a |-> Fld(R, "a", ZZero), ra |-> Fld(R, "ra", "w"),
            b |-> Fld(R, "b", ZZero), rb |-> Fld(R, "rb", "w"), c |-> Fld(R, "c", ZZero), rc |-> Fld(R, "rc", "w"),
            base |-> Fld(R, "base", 10), txt |-> Fld(R, "txt", <<>>), o |-> FullObs(R.o),
            \* the operands after the operation; a line without them (operands that could not be re-read) asserts nothing
            aa |-> Fld(R, "aa", Fld(R, "a", ZZero)), raa |-> Fld(R, "raa", "?"), ra0 |-> Fld(R, "ra0", ""),
            ab |-> Fld(R, "ab", Fld(R, "b", ZZero)), rab |-> Fld(R, "rab", "?"), rb0 |-> Fld(R, "rb0", ""),
            ac |-> Fld(R, "ac", Fld(R, "c", ZZero)), rac |-> Fld(R, "rac", "?"), rc0 |-> Fld(R, "rc0", "")]
WellFormed(C) == IsZ(C.a) /\ IsZ(C.b) /\ IsZ(C.c) /\ IsZ(C.o.v) /\ IsZ(C.o.v2) /\ IsZ(C.aa) /\ IsZ(C.ab) /\ IsZ(C.ac)
Verdict(n) ==
  LET C == Full(Lines[n]) IN
  IF ~WellFormed(C) THEN (IF PrintT(ToJson([l |-> n, key |-> "MALFORMED"])) THEN "bad" ELSE "bad")
  ELSE LET e == Expected(C) IN
       IF e.k = "ood" THEN (IF PrintT(ToJson([l |-> n, key |-> "OOD"])) THEN "bad" ELSE "bad")
       ELSE LET resultOk == Match(e, C.o)
                operandsOk == OperandsPreserved(C)
                r1 == resultOk \/ PrintT(ToJson([l |-> n, key |-> FindingKey(C, e),
                                                 exp |-> [k |-> e.k, v |-> e.v, v2 |-> e.v2, t |-> e.t, txt |-> e.txt, ename |-> e.ename]]))
                r2 == operandsOk \/ PrintT(ToJson([l |-> n, key |-> MutationKey(C, e)]))     \* a second record: independent of the result
            IN IF r1 /\ r2 /\ resultOk /\ operandsOk THEN "ok" ELSE "bad"
Init == l \in 1..Len(Lines) /\ v = "todo"
Next == v = "todo" /\ v' = Verdict(l) /\ UNCHANGED l
Spec == Init /\ [][Next]_<<l, v>>
TypeOK == v \in {"todo", "ok", "bad"}
=============================================================================
