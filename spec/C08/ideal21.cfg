\* ideal model, 2 contexts, scripts of <=2 and <=1 operations, all interleavings; behaviours exported
SPECIFICATION Spec
CONSTANTS
  Ctx = {"c1", "c2"}
  Shared = FALSE
  MaxLens <- ML21
  ScriptSet <- MCScripts
  Policies <- Both
INVARIANTS NonInterference FinalEqualsSolo Emit
CHECK_DEADLOCK FALSE
