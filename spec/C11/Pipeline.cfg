SPECIFICATION Spec
INVARIANT TypeOK
INVARIANT Total
INVARIANT NoStuck
INVARIANT Progress
INVARIANT LexVerdict
CHECK_DEADLOCK FALSE
