SPECIFICATION Spec
CONSTANTS
  MaxN = 5
  MaxBases = 3
  EmitAll = TRUE
INVARIANT DesignOk
CHECK_DEADLOCK FALSE
