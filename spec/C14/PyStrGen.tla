---------------------------------- MODULE PyStrGen ----------------------------------
(* C14 -- case generator and design check. One initial state per string s over the alphabet
   (1-, 2-, 3-, 4-byte characters, both quotes, backslash, NUL or newline); the Next step
     * checks the laws of the specification on s: Decode(Repr(s)) = s, slice = declarative slice,
       Join/Split round trip, Find consistent with In/Count/StartsWith;
     * prints one record with every operation x argument position on s and the result PyStr demands:
       [op, t, u, a, b, c, kind, n, r]  (t, u: string arguments as code-point lists; a, b, c: integer
       arguments, NoArg = omitted; kind: i(nt) b(ool) s(tr) l(ist of str) x(exception, n = 0, r = class)).
   Strings are code-point lists everywhere; the harness encodes them to UTF-8 only to build py.String. *)
EXTENDS PyStr, Json

CONSTANTS MaxLen, Seed, Full
VARIABLES s, res

Alpha == {97, 233, 20013, 128512, 39, 34, 92, IF Seed % 2 = 0 THEN 10 ELSE 0}
Strings == UNION { [1..n -> Alpha] : n \in 0..MaxLen }
\* seeded longer strings over a wider alphabet, chosen by the harness (input file, one record [s |-> code points] per line)
ExtraRecs == ndJsonDeserialize("extra.ndjson")
ExtraStrings == { ExtraRecs[i].s : i \in 1..Len(ExtraRecs) }

\* values whose repr must evaluate back to an equal value (str, bytes, int, float, nested tuple/list)
I(neg, ds) == VIntC(neg, ds)
ValSamples ==
    LET big == <<1, 1, 8, 0, 5, 9, 1, 6, 2, 0, 7, 1, 7, 4, 1, 1, 3, 0, 3, 4, 2, 4>>      \* 2**70
        s1 == VStrC(<<97, 233>>)
        b1 == VBytesC(<<97, 0, 255, 34>>)
    IN { I(FALSE, <<0>>), I(FALSE, <<7>>), I(TRUE, <<5>>), I(FALSE, big), I(TRUE, big), I(FALSE, <<9, 2, 2, 3, 3, 7, 2, 0, 3, 6, 8, 5, 4, 7, 7, 5, 8, 0, 7>>),
         VFloatC(0, 1), VFloatC(3, 2), VFloatC(-5, 2), VFloatC(1, 4), VFloatC(100, 1), VFloatC(-1, 8), VFloatC(12345, 1),
         s1, VStrC(<<>>), VStrC(<<39, 34, 92, 10>>), VStrC(<<128512, 0, 20013>>),
         b1, VBytesC(<<>>), VBytesC(<<39>>), VBytesC(<<39, 34>>), VBytesC(<<92, 10, 13, 9, 127, 128>>),
         VTupleC(<<>>), VTupleC(<<I(FALSE, <<1>>)>>), VTupleC(<<I(FALSE, <<1>>), s1>>), VTupleC(<<VTupleC(<<>>)>>), VTupleC(<<s1>>),
         VListC(<<>>), VListC(<<VListC(<<>>)>>), VListC(<<VFloatC(3, 2), VTupleC(<<I(FALSE, <<2>>), VStrC(<<120>>)>>)>>),
         VListC(<<VBytesC(<<120>>), VTupleC(<<VStrC(<<121>>)>>)>>), VListC(<<VTupleC(<<I(TRUE, <<1>>)>>), VListC(<<I(FALSE, <<2>>), VTupleC(<<I(FALSE, <<3>>)>>)>>)>>),
         VTupleC(<<I(FALSE, <<1>>), I(FALSE, <<2>>), I(FALSE, <<3>>)>>), VTupleC(<<VListC(<<I(FALSE, <<1>>)>>), b1>>) }
ValLaws == \A v \in ValSamples : ValEq(ValDecode(ValRepr(v)), v)

RI(n) == <<"i", n, <<>>>>
RB(b) == <<"b", IF b THEN 1 ELSE 0, <<>>>>
RS(x) == <<"s", 0, x>>
RL(xs) == <<"l", 0, xs>>
RX(c) == <<"x", 0, c>>
OfV(r) == IF r.ok THEN RS(r.v) ELSE RX(r.exc)
Case(op, t, u, a, b, c, r) == <<op, t, u, a, b, c>> \o r

Needles(x) == {<<>>, <<98>>, x} \cup { <<x[i]>> : i \in 1..Len(x) } \cup { <<x[i], x[i + 1]>> : i \in 1..(Len(x) - 1) }
              \cup (IF Len(x) >= 2 THEN { <<x[Len(x)], x[1]>> } ELSE {})
StartsQ == {-2, 0, 1, 2, 5}
StartsF == {-5, -2, -1, 0, 1, 2, 3, 5}
SearchArgs == {<<NoArg, NoArg>>} \cup { <<a, NoArg>> : a \in IF Full THEN StartsF ELSE StartsQ }
              \cup { <<a, b>> : a \in IF Full THEN {-1, 0, 1, 2} ELSE {0, 1, 2}, b \in IF Full THEN {-1, 0, 1, 2, 3, 5} ELSE {-1, 1, 2, 3} }
Bounds1 == IF Full THEN {NoArg, -5, -2, -1, 0, 1, 2, 3, 5} ELSE {NoArg, -2, -1, 0, 1, 2, 5}
Bounds2 == {NoArg, -2, 0, 1, 3}

\* strings of length >= 4 are the bulk of the thorough tier: they get a thinner needle set and argument lattice
NeedlesThin(x) == {<<>>, <<98>>, x} \cup { <<x[i]>> : i \in 1..Len(x) } \cup { <<x[2], x[3]>> }
SearchArgsThin == {<<NoArg, NoArg>>, <<-2, NoArg>>, <<1, NoArg>>, <<3, NoArg>>, <<5, NoArg>>, <<0, -1>>, <<1, 3>>, <<2, 5>>}
CasesOf(x) ==
    LET thin == Len(x) >= 4 /\ ~Full
        nd == IF thin THEN NeedlesThin(x) ELSE Needles(x)
        sargs == IF thin THEN SearchArgsThin ELSE SearchArgs
        b2 == IF thin THEN {NoArg, -2, 1} ELSE Bounds2
    IN
    { Case("len", <<>>, <<>>, NoArg, NoArg, NoArg, RI(Len(x))),
      Case("iter", <<>>, <<>>, NoArg, NoArg, NoArg, RL([i \in 1..Len(x) |-> <<x[i]>>])),
      Case("ord", <<>>, <<>>, NoArg, NoArg, NoArg, LET o == Ord(x) IN IF o.ok THEN RI(o.n) ELSE RX(o.exc)),
      Case("splitws", <<>>, <<>>, NoArg, NoArg, NoArg, RL(SplitWS(x, 1, <<>>))),
      Case("strip", <<NoArg>>, <<>>, NoArg, NoArg, NoArg, RS(Strip(x, <<NoArg>>))),
      Case("lstrip", <<NoArg>>, <<>>, NoArg, NoArg, NoArg, RS(LStrip(x, <<NoArg>>))),
      Case("rstrip", <<NoArg>>, <<>>, NoArg, NoArg, NoArg, RS(RStrip(x, <<NoArg>>))),
      Case("slice", <<>>, <<>>, 1, 3, 0, OfV(Slice(x, 1, 3, 0))) }
    \cup { Case("index", <<>>, <<>>, i, NoArg, NoArg, OfV(Index(x, i))) : i \in -5..5 }
    \cup { Case("slice", <<>>, <<>>, a, b, NoArg, OfV(Slice(x, a, b, NoArg))) : a \in Bounds1, b \in Bounds1 }
    \cup { Case("slice", <<>>, <<>>, a, b, c, OfV(Slice(x, a, b, c))) : a \in b2, b \in b2, c \in {2, -1, -2} }
    \cup { Case("mul", <<>>, <<>>, k, NoArg, NoArg, RS(Repeat(x, k))) : k \in -1..3 }
    \cup UNION { { Case("in", t, <<>>, NoArg, NoArg, NoArg, RB(StrIn(t, x))),
                   Case("split", t, <<>>, NoArg, NoArg, NoArg, IF t = <<>> THEN RX("ValueError") ELSE RL(Split(x, t))),
                   Case("join", t, <<>>, NoArg, NoArg, NoArg, RS(Join(t, <<x, x, <<120>>>>))),       \* t.join([s, s, 'x'])
                   Case("strip", t, <<>>, NoArg, NoArg, NoArg, RS(Strip(x, t))),
                   Case("lstrip", t, <<>>, NoArg, NoArg, NoArg, RS(LStrip(x, t))),
                   Case("rstrip", t, <<>>, NoArg, NoArg, NoArg, RS(RStrip(x, t))),
                   Case("replace", t, <<90>>, NoArg, NoArg, NoArg, RS(Replace(x, t, <<90>>))),
                   Case("replace", t, <<>>, NoArg, NoArg, NoArg, RS(Replace(x, t, <<>>))),
                   Case("replace", t, <<233, 128512>>, NoArg, NoArg, NoArg, RS(Replace(x, t, <<233, 128512>>))),
                   Case("lt", t, <<>>, NoArg, NoArg, NoArg, RB(Less(x, t))),
                   Case("gt", t, <<>>, NoArg, NoArg, NoArg, RB(Less(t, x))),
                   Case("le", t, <<>>, NoArg, NoArg, NoArg, RB(Less(x, t) \/ x = t)),
                   Case("eq", t, <<>>, NoArg, NoArg, NoArg, RB(x = t)),
                   Case("add", t, <<>>, NoArg, NoArg, NoArg, RS(x \o t)) } : t \in nd }
    \cup UNION { { Case("find", t, <<>>, ab[1], ab[2], NoArg, RI(Find(x, t, ab[1], ab[2]))),
                   Case("count", t, <<>>, ab[1], ab[2], NoArg, RI(Count(x, t, ab[1], ab[2]))),
                   Case("startswith", t, <<>>, ab[1], ab[2], NoArg, RB(StartsWith(x, t, ab[1], ab[2]))),
                   Case("endswith", t, <<>>, ab[1], ab[2], NoArg, RB(EndsWith(x, t, ab[1], ab[2]))) } : t \in nd, ab \in sargs }
    \cup (IF x # <<>> THEN {}
          ELSE { Case("chr", <<>>, <<>>, k, NoArg, NoArg, OfV(Chr(k)))
                 : k \in {-1, 0, 65, 127, 128, 255, 256, 2047, 2048, 55295, 57344, 65535, 65536, 1114111, 1114112} })

\* laws of the specification on one string (design check; a failure makes the check inconclusive)
Laws(x) ==
    /\ LET d == Decode(Repr(x)) IN d.ok /\ d.v = x
    /\ LET d == ReadValue(ReprBytes([i \in 1..Len(x) |-> x[i] % 256]), 1) IN d.ok /\ d.v.cps = [i \in 1..Len(x) |-> x[i] % 256]
    /\ \A a \in Bounds1, b \in Bounds1 : Slice(x, a, b, NoArg).v = SliceDecl(x, a, b)
    /\ \A t \in Needles(x) :
         /\ t # <<>> => Join(t, Split(x, t)) = x
         /\ StrIn(t, x) = (Count(x, t, NoArg, NoArg) > 0)
         /\ StartsWith(x, t, NoArg, NoArg) = (Find(x, t, NoArg, NoArg) = 0)
         /\ (Find(x, t, NoArg, NoArg) >= 0) => MatchAt(x, t, Find(x, t, NoArg, NoArg))
         /\ Replace(x, t, t) = x
    /\ ~Less(x, x)
    /\ \A k \in 0..3 : Len(Repeat(x, k)) = k * Len(x)

Init == s \in Strings \cup ExtraStrings /\ res = "todo"
Next == /\ res = "todo"
        /\ res' = IF Laws(s) /\ (s # <<>> \/ ValLaws) THEN "ok" ELSE "badlaw"
        /\ PrintT(ToJson([s |-> s, cases |-> CasesOf(s), vals |-> IF s = <<>> THEN ValSamples ELSE {}]))
        /\ UNCHANGED s
LawsOK == res # "badlaw"
====================================================================================
