---- MODULE PyScopeFlags ----
\* Systematic driver: one program for EVERY assignment of def-use flag sets to the blocks of a tree
\* (the families on which ScopeMC/RefineMC compare the transcribed algorithm with the declarative
\* rules), so that the real symtable package, compiler and interpreter meet every such
\* configuration -- in particular the rare ones (a class that declares a name global between a
\* function binding it and a method using it, nonlocal through two levels, ...) that random
\* construction seldom produces.
\* Block i > 1 is a def (type "function") or a class; its body is, per name in NameSeq order:
\*   the declarations (G: global n, N: nonlocal n), then the binding (L: n = tag), then all child
\*   definitions (each def child is called right after its definition), then the use (U: log n).
\* P makes n a plain parameter.
EXTENDS PyScopeGen
Seq1 == <<"x">>
Seq2 == <<"x", "y">>
CONSTANTS FShapes, FFlags, FModFlags
Chain4 == { <<0,1,2,3>> }
Trees3 == { <<0,1>>, <<0,1,2>>, <<0,1,1>> }
Trees4 == { <<0,1,2,3>>, <<0,1,2,2>>, <<0,1,1,3>> }
F7 == { {}, {"L"}, {"U"}, {"L","U"}, {"G","L"}, {"N","U"}, {"P"} }
F9 == { {}, {"L"}, {"U"}, {"L","U"}, {"G","L"}, {"G","U"}, {"N","U"}, {"N","L"}, {"P","U"} }
FMod == { {}, {"L"} }
FModQ == { {"L"} }
VARIABLES shape, types, fl, v
TypesOK == types[1] = "module" /\ \A i \in 2..Len(shape) : types[i] # "module"
FlagsOK == \A i \in 1..Len(shape) : \A n \in Names :
              /\ ("P" \in fl[i][n] => types[i] = "function")
              /\ (i = 1 => fl[i][n] \in FModFlags)
Kids(i) == SelectSeq([c \in 1..Len(shape) |-> c], LAMBDA c : shape[c] = i)
Body(i) ==
  LET per(op, flag) == FoldLeft(LAMBDA acc, n : IF flag \in fl[i][n] THEN Append(acc, Ev(op, n, 0)) ELSE acc, <<>>, NameSeq)
      kids == FoldLeft(LAMBDA acc, c : acc \o <<Ev("child", "-", c)>> \o (IF types[c] = "function" THEN <<Ev("call", "-", c)>> ELSE <<>>), <<>>, Kids(i))
  IN per("global", "G") \o per("nonlocal", "N") \o per("bind", "L") \o kids \o per("use", "U")
\* (TLCEval: see SymtableAlg.WithModuleGlobals -- the program is built once, not at every P[s])
Prog == TLCEval([i \in 1..Len(shape) |->
           [kind |-> IF i = 1 THEN "module" ELSE IF types[i] = "function" THEN "def" ELSE "class",
            parent |-> shape[i],
            par |-> TLCEval([n \in Names |-> IF "P" \in fl[i][n] THEN [k |-> "arg", from |-> "-"] ELSE NoPar]),
            iter |-> "-", tgt |-> "-", ev |-> Body(i)]])
Init == /\ shape \in FShapes
        /\ types \in [1..Len(shape) -> {"module", "function", "class"}] /\ TypesOK
        /\ fl \in [1..Len(shape) -> [Names -> FFlags \cup FModFlags]] /\ FlagsOK
        /\ v = "todo"
Next == /\ v = "todo"
        /\ PrintT(ToJson(Expect(Prog)))
        /\ v' = "done" /\ UNCHANGED <<shape, types, fl>>
Spec == Init /\ [][Next]_<<shape, types, fl, v>>
====
