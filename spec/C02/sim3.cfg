\* quick: seeded sample of programs of nesting depth exactly 3 (-simulate)
SPECIFICATION SpecSim
CONSTANTS
  Depth = 3
  MinDepth = 3
  SynDepth = 2
  Outer3 <- Contexts
  MaxIn = 4
INVARIANTS TypeOK CleanupOnce HandlerFirstMatch NoneLost HandledStack EscapeIntact FinalOK RejectedNeverRuns
CHECK_DEADLOCK FALSE
