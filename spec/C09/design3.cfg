\* all interleavings of 3 goroutines x every script of <=2 operations containing a Close
SPECIFICATION Spec
CONSTANTS
  Procs = {"a", "b", "c"}
  MaxLen = 2
  NeedClose = TRUE
  OpSet = {"run", "minit", "rac", "close", "wait"}
  AtomicWake = FALSE
  ScriptSet <- MCScripts
VIEW View
INVARIANTS CounterSane CallbacksOnce DoneAfterQuiescence NoRunDuringCb ClosedMeansIdle StepClauses OnceOwner TypeOK NoDeadlock
CHECK_DEADLOCK FALSE
