SPECIFICATION TSpec
CONSTANT NProcs = 20
CHECK_DEADLOCK FALSE
