SPECIFICATION TSpec
CONSTANTS Procs = {"a", "b", "c", "d"}
CONSTRAINT Hwm
INVARIANT AbsInv
POSTCONDITION Accepted
CHECK_DEADLOCK FALSE
