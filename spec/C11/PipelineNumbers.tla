--------------------------- MODULE PipelineNumbers ---------------------------
(* C11: the universe of NUMERIC literals.                                                       *)
(*                                                                                              *)
(* A number token is   integer-part  fraction  exponent  suffix   with each part optional and   *)
(* each in every spelling the 3.4 grammar has and in the near-misses around it: decimal, zero,  *)
(* leading zeros, hex / octal / binary prefixes in both cases with and without digits, an       *)
(* underscore; a fraction that is a lone point, point-digits; exponents in both cases, signed,  *)
(* empty; the imaginary suffix in BOTH cases, the long suffix of Python 2.  The lexer picks the *)
(* conversion routine from the shape of the text (a regular expression per class and a suffix   *)
(* test per branch), so every branch has to see every suffix.  TLC enumerates the product; each *)
(* text is compiled alone, negated and as an operand in the three modes.  For C11 the only      *)
(* claim is the outcome alphabet of Pipeline.tla - a code object or a SyntaxError.              *)
(* (Found missing by an independently seeded change: 1.5J - a float-form imaginary literal with *)
(* the upper-case suffix - reaching the float conversion with its suffix: ValueError.)          *)
EXTENDS Integers, Sequences, TLC, Json

IntParts == <<"", "0", "1", "12", "00", "007", "08", "0x1f", "0X1F", "0x", "0o17", "0O17", "0o8", "0b101", "0B101", "0b2", "1_0",
              "9223372036854775807", "9223372036854775808", "123456789012345678901234567890">>
Fracs    == <<"", ".", ".0", ".5", ".50", "..">>
Exps     == <<"", "e3", "E3", "e+3", "E-3", "e", "e+", "e1000", "e-1000">>
Suffixes == <<"", "j", "J", "l", "L", "jj", "x">>

VARIABLES i, f, e, s
vars == <<i, f, e, s>>
Init == i \in 1..Len(IntParts) /\ f \in 1..Len(Fracs) /\ e \in 1..Len(Exps) /\ s \in 1..Len(Suffixes)
Spec == Init /\ [][FALSE]_vars
Text == ((IntParts[i] \o Fracs[f]) \o Exps[e]) \o Suffixes[s]
Emit == Text # "" => PrintT(ToJson([num |-> Text]))
=============================================================================
