------------------------------ MODULE PyLiteral ------------------------------
(* C06: the value each literal spelling denotes (Language Reference 3.4, 2.4.1-2.4.6).        *)
(* Source text and string values are sequences of code points (TLC never has to take a string  *)
(* apart); numbers are exact rationals num/den (a float literal denotes the double nearest to  *)
(* that rational).  Everything stays below 2^31.                                              *)
EXTENDS Integers, Sequences, FiniteSets, TLC, SequencesExt, Json

LConcat(ss) == FoldLeft(LAMBDA a, b : a \o b, <<>>, ss)

(* code points *)
cBSLASH == 92
cSQ == 39
cDQ == 34
cNL == 10
c0 == 48
cx == 120
cu == 117
cU == 85
cN == 78
cLBRACE == 123
cRBRACE == 125
cDOT == 46
cPLUS == 43
cMINUS == 45
HexDigit(d) == IF d < 10 THEN 48 + d ELSE 97 + (d - 10)           \* lower case
HexDigitU(d) == IF d < 10 THEN 48 + d ELSE 65 + (d - 10)          \* upper case
Digits(ds) == [i \in 1..Len(ds) |-> 48 + ds[i]]
ValueIn(ds, base) == FoldLeft(LAMBDA a, d : a * base + d, 0, ds)

(* ------------------------------------------------------------------------------------------ *)
(* string literal bodies are sequences of pieces                                              *)
(*   [k |-> "char", c]            an ordinary source character                                *)
(*   [k |-> "simple", c, v]       backslash + character c, denoting code point v               *)
(*   [k |-> "oct", ds]            backslash + 1..3 octal digits                                *)
(*   [k |-> "hex", w, ds, up]     \xhh (w = 2), \uhhhh (w = 4), \Uhhhhhhhh (w = 8)             *)
(*   [k |-> "named", name_chars, v]  \N{name}                                                  *)
(*   [k |-> "unknown", c]         backslash + a character that is no escape: both stay         *)
(*   [k |-> "cont"]               backslash + newline: denotes nothing                         *)
(*   [k |-> "nl"]                 a newline (triple-quoted literals only)                      *)
(*   [k |-> "oq"]                 the quote character that is not the delimiter                *)
Ch(name, c) == [name |-> name, k |-> "char", c |-> c]
Simple(name, c, v) == [name |-> name, k |-> "simple", c |-> c, v |-> v]
Oct(name, ds) == [name |-> name, k |-> "oct", ds |-> ds]
Hex(name, w, ds, up) == [name |-> name, k |-> "hex", w |-> w, ds |-> ds, up |-> up]
Named(name, cs, v) == [name |-> name, k |-> "named", name_chars |-> cs, v |-> v]
Unknown(name, c) == [name |-> name, k |-> "unknown", c |-> c]

LATIN_SMALL_LETTER_A == <<76,65,84,73,78,32,83,77,65,76,76,32,76,69,84,84,69,82,32,65>>

(* name = the class of the piece in finding keys *)
Pieces == <<
  Ch("ascii", 97), Ch("ascii", 32), Ch("ascii", 57), Ch("latin1", 233), Ch("ascii", 35), Ch("bmp", 8364), [name |-> "other quote", k |-> "oq"],
  Simple("esc backslash", 92, 92), Simple("esc quote", 39, 39), Simple("esc quote", 34, 34), Simple("esc a", 97, 7), Simple("esc b", 98, 8),
  Simple("esc f", 102, 12), Simple("esc n", 110, 10), Simple("esc r", 114, 13), Simple("esc t", 116, 9), Simple("esc v", 118, 11),
  Oct("esc octal", <<0>>), Oct("esc octal", <<7>>), Oct("esc octal", <<1, 0, 1>>), Oct("esc octal", <<3, 7, 7>>), Oct("esc octal", <<1, 2>>),
  Hex("esc x", 2, <<4, 1>>, FALSE), Hex("esc x", 2, <<15, 15>>, FALSE), Hex("esc x", 2, <<10, 11>>, TRUE),
  Hex("esc u", 4, <<0, 0, 14, 9>>, FALSE), Hex("esc u", 4, <<2, 0, 10, 12>>, TRUE),
  Hex("esc U", 8, <<0, 0, 0, 1, 15, 6, 0, 0>>, FALSE),
  Named("esc N", LATIN_SMALL_LETTER_A, 97),
  Unknown("unknown escape", 113), Unknown("unknown escape", 100), Unknown("unknown escape", 32),
  [name |-> "backslash newline", k |-> "cont"], [name |-> "newline", k |-> "nl"]
>>
NPieces == Len(Pieces)

(* quote: 1 = ' , 2 = " , 3 = ''' , 4 = """  *)
QuoteChar(q) == IF q \in {1, 3} THEN cSQ ELSE cDQ
OtherQuote(q) == IF q \in {1, 3} THEN cDQ ELSE cSQ
QuoteSrc(q) == IF q <= 2 THEN <<QuoteChar(q)>> ELSE <<QuoteChar(q), QuoteChar(q), QuoteChar(q)>>

PieceSrc(p, q) ==
  CASE p.k = "char" -> <<p.c>>
    [] p.k = "oq" -> <<OtherQuote(q)>>
    [] p.k = "simple" -> <<cBSLASH, p.c>>
    [] p.k = "oct" -> <<cBSLASH>> \o Digits(p.ds)
    [] p.k = "hex" -> <<cBSLASH, IF p.w = 2 THEN cx ELSE IF p.w = 4 THEN cu ELSE cU>> \o [i \in 1..Len(p.ds) |-> IF p.up THEN HexDigitU(p.ds[i]) ELSE HexDigit(p.ds[i])]
    [] p.k = "named" -> (<<cBSLASH, cN, cLBRACE>> \o p.name_chars) \o <<cRBRACE>>
    [] p.k = "unknown" -> <<cBSLASH, p.c>>
    [] p.k = "cont" -> <<cBSLASH, cNL>>
    [] p.k = "nl" -> <<cNL>>

(* is the piece legal in a literal with these properties? *)
PieceOk(p, q, raw, bytes) ==
  /\ p.k = "nl" => q >= 3
  /\ (p.k = "char" /\ p.c > 127) => ~bytes                       \* bytes literals: ASCII source characters only
  /\ (p.k = "oct" /\ ValueIn(p.ds, 8) > 255) => ~bytes            \* not generated (3.4 silently truncates)

(* the value a piece denotes *)
PieceVal(p, q, raw, bytes) ==
  IF raw THEN PieceSrc(p, q)                                      \* raw: every source character stands for itself
  ELSE CASE p.k = "char" -> <<p.c>>
         [] p.k = "oq" -> <<OtherQuote(q)>>
         [] p.k = "simple" -> <<p.v>>
         [] p.k = "oct" -> <<ValueIn(p.ds, 8)>>
         [] p.k = "hex" -> IF bytes /\ p.w > 2 THEN PieceSrc(p, q) ELSE <<ValueIn(p.ds, 16)>>     \* \u \U are not escapes in bytes literals
         [] p.k = "named" -> IF bytes THEN PieceSrc(p, q) ELSE <<p.v>>
         [] p.k = "unknown" -> <<cBSLASH, p.c>>
         [] p.k = "cont" -> <<>>
         [] p.k = "nl" -> <<cNL>>

(* pieces that may not follow one another because the source text would read differently:      *)
(* an octal escape of fewer than three digits followed by an octal digit                        *)
Adjacent(p1, p2) == ~(p1.k = "oct" /\ Len(p1.ds) < 3 /\ p2.k = "char" /\ p2.c \in 48..55)

(* prefixes: [src, raw, bytes] *)
LitPrefixes == <<
  [src |-> <<>>, raw |-> FALSE, bytes |-> FALSE], [src |-> <<117>>, raw |-> FALSE, bytes |-> FALSE], [src |-> <<85>>, raw |-> FALSE, bytes |-> FALSE],
  [src |-> <<114>>, raw |-> TRUE, bytes |-> FALSE], [src |-> <<82>>, raw |-> TRUE, bytes |-> FALSE],
  [src |-> <<98>>, raw |-> FALSE, bytes |-> TRUE], [src |-> <<66>>, raw |-> FALSE, bytes |-> TRUE],
  [src |-> <<98, 114>>, raw |-> TRUE, bytes |-> TRUE], [src |-> <<66, 82>>, raw |-> TRUE, bytes |-> TRUE], [src |-> <<98, 82>>, raw |-> TRUE, bytes |-> TRUE],
  [src |-> <<66, 114>>, raw |-> TRUE, bytes |-> TRUE], [src |-> <<114, 98>>, raw |-> TRUE, bytes |-> TRUE], [src |-> <<82, 66>>, raw |-> TRUE, bytes |-> TRUE],
  [src |-> <<114, 66>>, raw |-> TRUE, bytes |-> TRUE], [src |-> <<82, 98>>, raw |-> TRUE, bytes |-> TRUE] >>
NLitPrefixes == Len(LitPrefixes)

(* one literal: prefix pf, quote q, body = piece indices *)
BodyOk(body, q, pf) ==
  /\ \A i \in 1..Len(body) : PieceOk(Pieces[body[i]], q, pf.raw, pf.bytes)
  /\ \A i \in 1..(Len(body) - 1) : Adjacent(Pieces[body[i]], Pieces[body[i + 1]])
  \* a raw literal cannot end in an odd number of backslashes; the only piece ending in a backslash-like
  \* hazard is handled by construction: no piece ends with a bare backslash
LitSrc(body, q, pf) == ((pf.src \o QuoteSrc(q)) \o LConcat([i \in 1..Len(body) |-> PieceSrc(Pieces[body[i]], q)])) \o QuoteSrc(q)
LitVal(body, q, pf) == LConcat([i \in 1..Len(body) |-> PieceVal(Pieces[body[i]], q, pf.raw, pf.bytes)])

(* ------------------------------------------------------------------------------------------ *)
(* numbers.  A spelling is described by its parts; Src gives the text, Val the exact value.    *)
(*   int:   [k |-> "int", base, up (prefix letter upper case), ds]                              *)
(*   float: [k |-> "float", ip (digits or <<>>), dot (BOOLEAN), fp (digits), ex ("none" or       *)
(*           [up, sign ("", "+", "-"), ds])]                                                     *)
(*   either may carry imag |-> "j" / "J" / ""                                                   *)
IntSrc(x) ==
  IF x.base = 10 THEN Digits(x.ds)
  ELSE <<c0, CASE x.base = 16 -> IF x.up THEN 88 ELSE 120 [] x.base = 8 -> IF x.up THEN 79 ELSE 111 [] x.base = 2 -> IF x.up THEN 66 ELSE 98>>
       \o [i \in 1..Len(x.ds) |-> IF x.up THEN HexDigitU(x.ds[i]) ELSE HexDigit(x.ds[i])]
ExpSrc(e) == IF e.on THEN (<<IF e.up THEN 69 ELSE 101>> \o (IF e.sign = 1 THEN <<cPLUS>> ELSE IF e.sign = -1 THEN <<cMINUS>> ELSE <<>>)) \o Digits(e.ds) ELSE <<>>
FloatSrc(x) == ((Digits(x.ip) \o (IF x.dot THEN <<cDOT>> ELSE <<>>)) \o Digits(x.fp)) \o ExpSrc(x.ex)
ImagSrc(x) == IF x.imag = 1 THEN <<106>> ELSE IF x.imag = 2 THEN <<74>> ELSE <<>>
NumSrc(x) == (IF x.k = "int" THEN IntSrc(x) ELSE FloatSrc(x)) \o ImagSrc(x)

RECURSIVE Pow10(_)
Pow10(n) == IF n = 0 THEN 1 ELSE 10 * Pow10(n - 1)
RECURSIVE Gcd(_, _)
Gcd(a, b) == IF b = 0 THEN a ELSE Gcd(b, a % b)
Ratio(n, d) == LET g == Gcd(n, d) IN IF n = 0 THEN [num |-> 0, den |-> 1] ELSE [num |-> n \div g, den |-> d \div g]
(* well-formedness (lexical definitions 2.4.4 - 2.4.6) *)
NumOk(x) ==
  IF x.k = "int" THEN
       /\ x.ds # <<>>
       /\ \A i \in 1..Len(x.ds) : x.ds[i] < x.base
       /\ (x.base = 10 /\ x.imag = 0 /\ Len(x.ds) > 1) => (x.ds[1] # 0 \/ \A i \in 1..Len(x.ds) : x.ds[i] = 0)   \* "0"+ | nonzerodigit digit*
       /\ x.imag # 0 => x.base = 10
  ELSE /\ (x.dot \/ x.ex.on)                                   \* otherwise it is an integer
       /\ x.dot => (x.ip # <<>> \/ x.fp # <<>>)
       /\ ~x.dot => (x.ip # <<>> /\ x.fp = <<>>)
       /\ x.ex.on => x.ex.ds # <<>>
NumVal(x) ==
  IF x.k = "int" THEN Ratio(ValueIn(x.ds, x.base), 1)
  ELSE LET m == ValueIn(x.ip \o x.fp, 10)
           e == (IF x.ex.on THEN (IF x.ex.sign = -1 THEN -1 ELSE 1) * ValueIn(x.ex.ds, 10) ELSE 0) - Len(x.fp)
       IN IF e >= 0 THEN Ratio(m * Pow10(e), 1) ELSE Ratio(m, Pow10(-e))
NoExp == [on |-> FALSE, up |-> FALSE, sign |-> 0, ds |-> <<>>]
Exp(up, sign, ds) == [on |-> TRUE, up |-> up, sign |-> sign, ds |-> ds]

IntDigitSeqs(base) ==
  IF base = 10 THEN {<<0>>, <<0, 0>>, <<7>>, <<1, 0>>, <<4, 2>>, <<1, 2, 3>>, <<9, 0, 9>>, <<2, 1, 4, 7, 4, 8, 3, 6, 4, 7>>, <<1, 0, 0, 0, 0, 0, 0>>}
  ELSE IF base = 16 THEN {<<0>>, <<1, 15>>, <<10, 11, 12>>, <<15, 15, 15, 15>>, <<0, 0, 1>>, <<7, 15, 15, 15, 15, 15, 15, 15>>, <<13, 14>>}
  ELSE IF base = 8 THEN {<<0>>, <<7>>, <<1, 7>>, <<7, 7, 7>>, <<0, 1, 0>>, <<1, 2, 3, 4, 5, 6, 7>>}
  ELSE {<<0>>, <<1>>, <<1, 0, 1>>, <<0, 1, 1>>, <<1, 1, 1, 1, 1, 1, 1, 1>>}
IntSpellings == { [k |-> "int", base |-> b, up |-> u, ds |-> d, imag |-> 0] : b \in {10}, u \in {FALSE}, d \in IntDigitSeqs(10) }
                \cup UNION { { [k |-> "int", base |-> b, up |-> u, ds |-> d, imag |-> 0] : u \in BOOLEAN, d \in IntDigitSeqs(b) } : b \in {16, 8, 2} }
                \cup { [k |-> "int", base |-> 10, up |-> FALSE, ds |-> d, imag |-> j] : d \in {<<0>>, <<1>>, <<0, 0, 7>>, <<1, 2>>, <<0, 1, 0>>}, j \in {1, 2} }
FloatSpellings ==
  { x \in { [k |-> "float", ip |-> ip, dot |-> dot, fp |-> fp, ex |-> ex, imag |-> j] :
              ip \in {<<>>, <<0>>, <<1>>, <<1, 2>>, <<0, 0, 7>>, <<3, 0, 0>>}, dot \in BOOLEAN, fp \in {<<>>, <<5>>, <<2, 5>>, <<0, 5>>, <<1, 2, 5>>, <<0>>},
              ex \in {NoExp, Exp(FALSE, 0, <<0>>), Exp(FALSE, 0, <<1>>), Exp(TRUE, 0, <<2>>), Exp(FALSE, 1, <<1>>), Exp(FALSE, -1, <<1>>),
                      Exp(TRUE, -1, <<2>>), Exp(FALSE, 0, <<0, 3>>), Exp(FALSE, -1, <<3>>), Exp(FALSE, 0, <<5>>)},
              j \in {0, 1, 2} } : NumOk(x) }
NumSpellings == { x \in IntSpellings : NumOk(x) } \cup FloatSpellings

(* ill-formed string literals (truncated \\x \\u \\U escapes, unknown character name, non-ASCII  *)
(* character in a bytes literal, mixing bytes and str in a concatenation, unterminated quotes,  *)
(* a line break inside a single-quoted literal, illegal prefixes ur / bu)                       *)
BadStrings == { <<39, 92, 120, 52, 39>>,
                <<39, 92, 120, 103, 49, 39>>,
                <<39, 92, 117, 49, 50, 39>>,
                <<39, 92, 85, 48, 48, 48, 48, 39>>,
                <<98, 39, 233, 39>>,
                <<39, 97, 39, 32, 98, 39, 98, 39>>,
                <<98, 39, 97, 39, 32, 39, 98, 39>>,
                <<39, 92, 78, 123, 78, 79, 80, 69, 125, 39>>,
                <<39, 92, 78, 123, 39>>,
                <<39, 97, 98, 99>>,
                <<34, 97, 98, 99, 39>>,
                <<39, 39, 39, 97, 98, 99, 39, 39>>,
                <<39, 97, 10, 98, 39>>,
                <<98, 39, 92>>,
                <<114, 39, 92, 39>>,
                <<39, 92, 78, 39>>,
                <<117, 114, 39, 97, 39>>,
                <<98, 117, 39, 97, 39>>,
                <<39, 92>> }

(* ill-formed number-like texts: the lexical grammar gives them no reading as one expression *)
BadNumbers == { <<48, 49>>, <<48, 48, 55>>, <<48, 120>>, <<48, 98, 50>>, <<48, 111, 56>>, <<49, 101>>, <<49, 101, 43>>, <<48, 120, 103>>,
                <<49, 46, 53, 46, 53>>, <<48, 98>>, <<48, 111>>, <<49, 46, 101>>, <<46, 101, 49>>, <<49, 106, 106>>, <<48, 120, 49, 106>> }
=============================================================================
