---------------------------------- MODULE PyExpr ----------------------------------
(* C01 -- evaluation order, grouping, short circuit and assignment-target order of Python 3.4
   expressions and assignments, as a set-valued big-step semantics.

   Trees are records with a field k:
     leaf(id, v)                       the call e(id): logs id, yields the id-th value v
     name(id)                          variable (lambda parameter, module global, prelude function f/g)
     bin(op, l, r)                     + - * / // % ** << >> & | ^
     un(op, x)                         - + ~ not
     bool(op, xs)                      and / or, n-ary, short circuit, yields the deciding operand
     cmp(ops, xs)                      chained comparison; ops from < <= == != > >= is isnot in notin
     ife(test, a, b)                   a if test else b
     tup(xs) list(xs) set(xs)          displays
     dict(ks, vs)                      {k1: v1, ...}: per item key-then-value OR value-then-key (3.4 manual vs 3.4 bytecode)
     idx(x, i)  slice(x, lo, hi, st)   subscript, slicing (absent component = node none)
     attr(x)                           x.a
     lam(ps, ds, body)                 lambda with defaults for the last Len(ds) parameters
     call(f, args)                     args: [ak: pos|kw|star|dstar, name, e]
   Statements:
     assign(ts, v)    targets: name | attr | idx | slice | tup/list of targets
     aug(op, t, v)    target: name | attr | idx
     iftest(test)     `if test: c = 1 / else: c = 2`  (the test in a jump context)

   Values are uniform records [t, n, d, xs, s]:
     int/bool (n), float (n/d, d a power of two: only exactly representable results are in the model),
     none, str (s), list/tuple/set (xs), dict (xs = tuples <<key, value>>),
     ref (n = id of the leaf that owns the mutable object; contents in the heap),
     fn (n: 1 = prelude f, 2 = prelude g, 3 = closure returned by g (xs = <<captured>>), 4 = a lambda value).

   Eval(e, st) is the SET of allowed outcomes [log, val, exc, sg]: a singleton except where Python 3.4
   leaves a choice. exc = "" for a value, an exception class name otherwise, or "SKIP": the case
   leaves the modelled domain (number too large for TLC, inexact float, an operation on a type this
   module does not define) and is dropped by the generator -- never judged.
   sg collects the signatures "kind|op=..,types=.." of the primitive data operations performed.
   Numbers are bounded by LIM because TLC's integers are 32-bit.                                    *)
EXTENDS Integers, Sequences, FiniteSets, TLC

LIM == 524288          \* |numerator| bound (2^19)
DLIM == 1024           \* denominator bound (2^10)

\* ---------------------------------------------------------------------------------------------
\* values
Val(t, n, d, xs, s) == [t |-> t, n |-> n, d |-> d, xs |-> xs, s |-> s]
VInt(n) == Val("int", n, 1, <<>>, "")
VBool(b) == Val("bool", IF b THEN 1 ELSE 0, 1, <<>>, "")
VFloat(n, d) == Val("float", n, d, <<>>, "")
VNone == Val("none", 0, 1, <<>>, "")
VStr(s) == Val("str", 0, 1, <<>>, s)
VList(xs) == Val("list", 0, 1, xs, "")
VTuple(xs) == Val("tuple", 0, 1, xs, "")
VSet(xs) == Val("set", 0, 1, xs, "")
VDict(xs) == Val("dict", 0, 1, xs, "")
VRef(k) == Val("ref", k, 1, <<>>, "")
VFn(n, xs) == Val("fn", n, 1, xs, "")
VObj(a) == Val("obj", 0, 1, <<a>>, "")

\* state read by expressions: env (names -> values), heap (leaf id -> list or obj value)
Deref(v, heap) == IF v.t = "ref" THEN heap[v.n] ELSE v
TypeOf(v, heap) == Deref(v, heap).t
IsNum(v) == v.t \in {"int", "bool", "float"}
IsIntLike(v) == v.t \in {"int", "bool"}
AbsI(x) == IF x < 0 THEN -x ELSE x
\* abstract class of an operand for signatures: its type, refined by "is zero" / "is negative" exactly where
\* the operator's definition has a case split on it (divisor, exponent, shift count, base of a power)
NumClass(v, zero, negv) == IF v.t \in {"int", "float"} /\ zero /\ v.n = 0 THEN v.t \o "0"
                           ELSE IF v.t \in {"int", "float"} /\ negv /\ v.n < 0 THEN v.t \o "-" ELSE v.t
ClassL(op, v, heap) == NumClass(Deref(v, heap), op = "**", FALSE)
ClassR(op, v, heap) == NumClass(Deref(v, heap), op \in {"/", "//", "%"}, op \in {"**", "<<", ">>"})

\* results of primitive data operations
ROk(v) == [val |-> v, exc |-> ""]
RExc(c) == [val |-> VNone, exc |-> c]
RSkip == RExc("SKIP")

RECURSIVE Gcd(_, _)
Gcd(a, b) == IF b = 0 THEN a ELSE Gcd(b, a % b)
IsPow2(d) == d \in {1, 2, 4, 8, 16, 32, 64, 128, 256, 512, 1024}
\* a rational n/d (d # 0) as a float value, if it is in the model
MkFloat(n0, d0) ==
    LET n1 == IF d0 < 0 THEN -n0 ELSE n0
        d1 == AbsI(d0)
        g == Gcd(AbsI(n1), d1)
        n == n1 \div g
        d == d1 \div g
    IN IF AbsI(n) > LIM \/ d > DLIM \/ ~IsPow2(d) THEN RSkip ELSE ROk(VFloat(n, d))
MkInt(n) == IF AbsI(n) > LIM THEN RSkip ELSE ROk(VInt(n))
MkNum(isFloat, n, d) == IF isFloat THEN MkFloat(n, d) ELSE MkInt(n)
SafeMul(a, b) == a = 0 \/ b = 0 \/ AbsI(a) <= (2 * LIM * DLIM) \div AbsI(b)

\* floor of the rational n/d (d # 0)
FloorQ(n, d) == IF d < 0 THEN (-n) \div (-d) ELSE n \div d

\* x^k for a rational x = n/d and k >= 0; [ok, n, d]
RECURSIVE PowQ(_, _, _)
PowQ(n, d, k) ==
    IF k = 0 THEN [ok |-> TRUE, n |-> 1, d |-> 1]
    ELSE LET p == PowQ(n, d, k - 1) IN
         IF ~p.ok \/ AbsI(p.n) > LIM \/ p.d > DLIM THEN [ok |-> FALSE, n |-> 0, d |-> 1]
         ELSE [ok |-> TRUE, n |-> p.n * n, d |-> p.d * d]

\* bitwise operations on unbounded two's complement integers
RECURSIVE BitN(_, _, _)
BitN(op, a, b) ==  \* a, b >= 0
    IF a = 0 /\ b = 0 THEN 0
    ELSE LET x == a % 2
             y == b % 2
             z == CASE op = "&" -> IF x = 1 /\ y = 1 THEN 1 ELSE 0
                    [] op = "|" -> IF x = 1 \/ y = 1 THEN 1 ELSE 0
                    [] op = "^" -> IF x # y THEN 1 ELSE 0
         IN z + 2 * BitN(op, a \div 2, b \div 2)
Inv(a) == -a - 1
BitOp(op, a, b) ==
    CASE op = "&" -> IF a >= 0 /\ b >= 0 THEN BitN("&", a, b)
                     ELSE IF a < 0 /\ b >= 0 THEN b - BitN("&", b, Inv(a))
                     ELSE IF a >= 0 /\ b < 0 THEN a - BitN("&", a, Inv(b))
                     ELSE Inv(BitN("|", Inv(a), Inv(b)))
      [] op = "|" -> IF a >= 0 /\ b >= 0 THEN BitN("|", a, b)
                     ELSE IF a < 0 /\ b >= 0 THEN Inv(Inv(a) - BitN("&", Inv(a), b))
                     ELSE IF a >= 0 /\ b < 0 THEN Inv(Inv(b) - BitN("&", Inv(b), a))
                     ELSE Inv(BitN("&", Inv(a), Inv(b)))
      [] op = "^" -> IF a >= 0 /\ b >= 0 THEN BitN("^", a, b)
                     ELSE IF a < 0 /\ b >= 0 THEN Inv(BitN("^", Inv(a), b))
                     ELSE IF a >= 0 /\ b < 0 THEN Inv(BitN("^", a, Inv(b)))
                     ELSE BitN("^", Inv(a), Inv(b))
Pow2(k) == 2^k

\* ---------------------------------------------------------------------------------------------
\* arithmetic on numbers (int, bool, float): Python 3.4 numeric tower without complex
NumOp(op, a, b) ==
    LET fl == a.t = "float" \/ b.t = "float"
        bothBool == a.t = "bool" /\ b.t = "bool"
    IN
    CASE op = "+" -> MkNum(fl, a.n * b.d + b.n * a.d, a.d * b.d)
      [] op = "-" -> MkNum(fl, a.n * b.d - b.n * a.d, a.d * b.d)
      [] op = "*" -> IF ~SafeMul(a.n, b.n) THEN RSkip ELSE MkNum(fl, a.n * b.n, a.d * b.d)
      [] op = "/" -> IF b.n = 0 THEN RExc("ZeroDivisionError") ELSE MkFloat(a.n * b.d, a.d * b.n)
      [] op = "//" -> IF b.n = 0 THEN RExc("ZeroDivisionError")
                      ELSE MkNum(fl, FloorQ(a.n * b.d, a.d * b.n), 1)
      [] op = "%" -> IF b.n = 0 THEN RExc("ZeroDivisionError")
                     ELSE LET q == FloorQ(a.n * b.d, a.d * b.n) IN
                          IF ~SafeMul(q, b.n) THEN RSkip
                          ELSE MkNum(fl, a.n * b.d - q * b.n * a.d, a.d * b.d)
      [] op = "**" ->
           IF b.d # 1 THEN RSkip                                   \* fractional exponent: libm
           ELSE IF b.n < 0 /\ a.n = 0 THEN RExc("ZeroDivisionError")
           ELSE IF a.n = a.d THEN MkNum(fl \/ b.n < 0, 1, 1)        \* 1 ** k
           ELSE IF a.n = 0 THEN MkNum(fl, IF b.n = 0 THEN 1 ELSE 0, 1)
           ELSE IF AbsI(b.n) > 40 THEN RSkip
           ELSE LET p == PowQ(a.n, a.d, AbsI(b.n)) IN
                IF ~p.ok THEN RSkip
                ELSE IF b.n >= 0 THEN MkNum(fl, p.n, p.d) ELSE MkFloat(p.d, p.n)
      [] op \in {"<<", ">>", "&", "|", "^"} ->
           IF fl THEN RExc("TypeError")
           ELSE IF op = "<<" THEN (IF b.n < 0 THEN RExc("ValueError")
                                   ELSE IF a.n = 0 THEN MkInt(0)
                                   ELSE IF b.n > 19 THEN RSkip ELSE MkInt(a.n * Pow2(b.n)))
           ELSE IF op = ">>" THEN (IF b.n < 0 THEN RExc("ValueError")
                                   ELSE IF b.n > 20 THEN MkInt(IF a.n < 0 THEN -1 ELSE 0)
                                   ELSE MkInt(a.n \div Pow2(b.n)))
           ELSE LET r == BitOp(op, a.n, b.n) IN IF bothBool THEN ROk(VBool(r = 1)) ELSE MkInt(r)

RECURSIVE RepeatSeq(_, _)
RepeatSeq(xs, k) == IF k <= 0 THEN <<>> ELSE xs \o RepeatSeq(xs, k - 1)

\* sets of small ints as ascending sequences
SetOps == {"|", "&", "-", "^"}
IntSetOf(v) == { v.xs[i].n : i \in 1..Len(v.xs) }
IsIntSet(v) == v.t = "set" /\ \A i \in 1..Len(v.xs) : v.xs[i].t = "int"
RECURSIVE AscSeq(_)
AscSeq(S) == IF S = {} THEN <<>> ELSE LET m == CHOOSE x \in S : \A y \in S : x <= y IN <<VInt(m)>> \o AscSeq(S \ {m})
SetOpVal(op, a, b) ==
    LET A == IntSetOf(a) B == IntSetOf(b) IN
    VSet(AscSeq(CASE op = "|" -> A \cup B [] op = "&" -> A \cap B [] op = "-" -> A \ B [] op = "^" -> (A \ B) \cup (B \ A)))

\* binary operator on arbitrary values
BinOp(op, a0, b0, heap) ==
    LET a == Deref(a0, heap)
        b == Deref(b0, heap)
        seqT == {"list", "tuple"}
    IN
    IF IsNum(a) /\ IsNum(b) THEN NumOp(op, a, b)
    \* set | & - ^ set: a NEW set (neither operand is changed, the result is neither operand)
    ELSE IF IsIntSet(a) /\ IsIntSet(b) /\ op \in SetOps THEN ROk(SetOpVal(op, a, b))
    ELSE IF a.t \in {"set", "dict"} \/ b.t \in {"set", "dict"} THEN RSkip
    ELSE IF a.t = "str" /\ op = "%" THEN RSkip
    ELSE IF op = "+" /\ a.t = b.t /\ a.t \in seqT THEN
         (IF Len(a.xs) + Len(b.xs) > 16 THEN RSkip ELSE ROk(Val(a.t, 0, 1, a.xs \o b.xs, "")))
    ELSE IF op = "+" /\ a.t = "str" /\ b.t = "str" THEN ROk(VStr(a.s \o b.s))
    ELSE IF op = "*" /\ a.t \in seqT /\ IsIntLike(b) THEN
         (IF Len(a.xs) * b.n > 16 THEN RSkip ELSE ROk(Val(a.t, 0, 1, RepeatSeq(a.xs, b.n), "")))
    ELSE IF op = "*" /\ b.t \in seqT /\ IsIntLike(a) THEN
         (IF Len(b.xs) * a.n > 16 THEN RSkip ELSE ROk(Val(b.t, 0, 1, RepeatSeq(b.xs, a.n), "")))
    ELSE IF op = "*" /\ ((a.t = "str" /\ IsIntLike(b)) \/ (b.t = "str" /\ IsIntLike(a))) THEN RSkip
    ELSE RExc("TypeError")

Truthy(v0, heap) == LET v == Deref(v0, heap) IN
    CASE IsNum(v) -> v.n # 0
      [] v.t = "none" -> FALSE
      [] v.t = "str" -> v.s # ""
      [] v.t \in {"list", "tuple", "set", "dict"} -> v.xs # <<>>
      [] OTHER -> TRUE

UnOp(op, a0, heap) ==
    LET a == Deref(a0, heap) IN
    CASE op = "not" -> ROk(VBool(~Truthy(a0, heap)))
      [] op = "-" -> IF IsNum(a) THEN MkNum(a.t = "float", -a.n, a.d) ELSE RExc("TypeError")
      [] op = "+" -> IF IsNum(a) THEN MkNum(a.t = "float", a.n, a.d) ELSE RExc("TypeError")
      [] op = "~" -> IF IsIntLike(a) THEN MkInt(-a.n - 1) ELSE RExc("TypeError")

\* == : never raises on this universe
RECURSIVE PyEq(_, _, _)
PyEq(a0, b0, heap) ==
    IF a0.t = "ref" /\ b0.t = "ref" /\ a0.n = b0.n THEN TRUE
    ELSE LET a == Deref(a0, heap)
             b == Deref(b0, heap)
         IN
         IF IsNum(a) /\ IsNum(b) THEN a.n * b.d = b.n * a.d
         ELSE IF a.t # b.t THEN FALSE
         ELSE CASE a.t = "none" -> TRUE
                [] a.t = "str" -> a.s = b.s
                [] a.t \in {"list", "tuple"} ->
                     Len(a.xs) = Len(b.xs) /\ \A i \in 1..Len(a.xs) : PyEq(a.xs[i], b.xs[i], heap)
                [] a.t = "set" ->
                     Len(a.xs) = Len(b.xs) /\ \A i \in 1..Len(a.xs) : \E j \in 1..Len(b.xs) : PyEq(a.xs[i], b.xs[j], heap)
                [] a.t = "dict" ->
                     Len(a.xs) = Len(b.xs) /\ \A i \in 1..Len(a.xs) : \E j \in 1..Len(b.xs) :
                         PyEq(a.xs[i].xs[1], b.xs[j].xs[1], heap) /\ PyEq(a.xs[i].xs[2], b.xs[j].xs[2], heap)
                [] a.t = "fn" -> a.n = b.n /\ a.n \in {1, 2}
                [] OTHER -> FALSE          \* distinct objects

Hashable(v, heap) == TypeOf(v, heap) \notin {"list", "set", "dict"}   \* tuples here only hold hashables

\* one comparison operator: a SET of results (identity of equal immutables is implementation-defined)
CmpOp(op, a0, b0, heap) ==
    LET a == Deref(a0, heap)
        b == Deref(b0, heap)
        ordered == {"<", "<=", ">", ">="}
        neg(S) == { IF r.exc # "" THEN r ELSE ROk(VBool(r.val.n = 0)) : r \in S }
        isR == IF a0.t = "ref" \/ b0.t = "ref" THEN { ROk(VBool(a0.t = b0.t /\ a0.n = b0.n)) }
               ELSE IF a.t # b.t THEN { ROk(VBool(FALSE)) }
               ELSE IF a.t = "none" THEN { ROk(VBool(TRUE)) }
               ELSE IF a.t = "bool" THEN { ROk(VBool(a.n = b.n)) }
               ELSE IF a.t \in {"int", "float", "str", "tuple"} THEN
                    (IF PyEq(a, b, heap) THEN { ROk(VBool(TRUE)), ROk(VBool(FALSE)) } ELSE { ROk(VBool(FALSE)) })
               ELSE IF a.t \in {"list", "set", "dict"} /\ ~PyEq(a, b, heap) THEN { ROk(VBool(FALSE)) }
               ELSE { RSkip }
        inR == CASE b.t \in {"list", "tuple"} -> { ROk(VBool(\E i \in 1..Len(b.xs) : PyEq(a0, b.xs[i], heap))) }
                 \* (a SET on the left is looked up as the frozenset of its members, so it is an equality search, not an error)
                 [] b.t = "set" -> IF ~Hashable(a0, heap) /\ a.t # "set" THEN { RExc("TypeError") }
                                   ELSE { ROk(VBool(\E i \in 1..Len(b.xs) : PyEq(a0, b.xs[i], heap))) }
                 [] b.t = "dict" -> IF ~Hashable(a0, heap) THEN { RExc("TypeError") }
                                    ELSE { ROk(VBool(\E i \in 1..Len(b.xs) : PyEq(a0, b.xs[i].xs[1], heap))) }
                 [] b.t = "str" -> IF a.t # "str" THEN { RExc("TypeError") } ELSE { RSkip }
                 [] OTHER -> { RExc("TypeError") }
    IN
    CASE op = "==" -> { ROk(VBool(PyEq(a0, b0, heap))) }
      [] op = "!=" -> { ROk(VBool(~PyEq(a0, b0, heap))) }
      [] op \in ordered ->
           IF IsNum(a) /\ IsNum(b) THEN
              LET x == a.n * b.d
                  y == b.n * a.d
              IN { ROk(VBool(CASE op = "<" -> x < y [] op = "<=" -> x <= y [] op = ">" -> x > y [] op = ">=" -> x >= y)) }
           ELSE IF a.t = b.t /\ a.t \in {"str", "list", "tuple", "set"} THEN { RSkip }
           ELSE { RExc("TypeError") }
      [] op = "is" -> isR
      [] op = "isnot" -> neg(isR)
      [] op = "in" -> inR
      [] op = "notin" -> neg(inR)

\* x[i]
GetItem(x0, i0, heap) ==
    LET x == Deref(x0, heap)
        i == Deref(i0, heap)
    IN
    CASE x.t \in {"list", "tuple"} ->
           IF ~IsIntLike(i) THEN RExc("TypeError")
           ELSE LET n == Len(x.xs)
                    j == IF i.n < 0 THEN i.n + n ELSE i.n
                IN IF j < 0 \/ j >= n THEN RExc("IndexError") ELSE ROk(x.xs[j + 1])
      [] x.t = "dict" ->
           IF ~Hashable(i0, heap) THEN RExc("TypeError")
           ELSE IF \E p \in 1..Len(x.xs) : PyEq(x.xs[p].xs[1], i0, heap)
                THEN ROk(x.xs[CHOOSE p \in 1..Len(x.xs) : PyEq(x.xs[p].xs[1], i0, heap)].xs[2])
                ELSE RExc("KeyError")
      [] x.t = "str" -> RSkip
      [] OTHER -> RExc("TypeError")

\* slice positions (PySlice_GetIndicesEx); a, b, st are values: none or int-like
SliceIdx(n, a, b, st) ==
    LET step == IF st.t = "none" THEN 1 ELSE st.n
        clampS(x) == LET y == IF x < 0 THEN x + n ELSE x
                         z == IF y < 0 THEN (IF step < 0 THEN -1 ELSE 0) ELSE y
                     IN IF z >= n THEN (IF step < 0 THEN n - 1 ELSE n) ELSE z
        start == IF a.t = "none" THEN (IF step < 0 THEN n - 1 ELSE 0) ELSE clampS(a.n)
        stop == IF b.t = "none" THEN (IF step < 0 THEN -1 ELSE n) ELSE clampS(b.n)
        len == IF (step < 0 /\ stop >= start) \/ (step > 0 /\ start >= stop) THEN 0
               ELSE IF step < 0 THEN ((start - stop - 1) \div (-step)) + 1
               ELSE ((stop - start - 1) \div step) + 1
    IN [start |-> start, stop |-> stop, step |-> step, len |-> len]
SliceArgOk(v) == v.t \in {"none", "int", "bool"}
GetSlice(x0, a0, b0, st0, heap) ==
    LET x == Deref(x0, heap)
        a == Deref(a0, heap)
        b == Deref(b0, heap)
        st == Deref(st0, heap)
        badType == ~(SliceArgOk(a) /\ SliceArgOk(b) /\ SliceArgOk(st))
        zeroStep == st.t \in {"int", "bool"} /\ st.n = 0
    IN
    CASE x.t \in {"list", "tuple"} ->
           IF badType /\ zeroStep THEN RSkip           \* which error comes first is not pinned down
           ELSE IF badType THEN RExc("TypeError")
           ELSE IF zeroStep THEN RExc("ValueError")
           ELSE LET g == SliceIdx(Len(x.xs), a, b, st) IN
                ROk(Val(x.t, 0, 1, [j \in 1..g.len |-> x.xs[g.start + (j - 1) * g.step + 1]], ""))
      [] x.t = "str" -> RSkip
      [] OTHER -> RExc("TypeError")

GetAttr(x0, heap) == LET x == Deref(x0, heap) IN
    IF x.t = "obj" THEN ROk(x.xs[1]) ELSE RExc("AttributeError")

\* elements of an iterable value (unpacking, *seq, slice assignment)
IterOf(v0, heap) == LET v == Deref(v0, heap) IN
    CASE v.t \in {"list", "tuple"} -> [ok |-> TRUE, skip |-> FALSE, xs |-> v.xs]
      [] v.t \in {"str", "set", "dict"} -> [ok |-> FALSE, skip |-> TRUE, xs |-> <<>>]
      [] OTHER -> [ok |-> FALSE, skip |-> FALSE, xs |-> <<>>]

\* ---------------------------------------------------------------------------------------------
\* signatures of primitive operations
Sig2(kind, op, a, b, heap) == kind \o "|op=" \o op \o ",types=" \o ClassL(op, a, heap) \o ":" \o ClassR(op, b, heap)
Sig1(kind, op, a, heap) == kind \o "|op=" \o op \o ",types=" \o TypeOf(a, heap)

\* ---------------------------------------------------------------------------------------------
\* outcomes
Out(log, v, sg) == [log |-> log, val |-> v, exc |-> "", sg |-> sg]
Err(log, c, sg) == [log |-> log, val |-> VNone, exc |-> c, sg |-> sg]
\* outcome of a primitive result r (ROk/RExc) after the evaluation prefix p = [log, sg]
Prim(p, r, sig) == [log |-> p.log, val |-> r.val, exc |-> r.exc, sg |-> p.sg \cup {sig}]
\* q happened after p
After(p, q) == [q EXCEPT !.log = p.log \o q.log, !.sg = p.sg \cup q.sg]
Fail(r) == r.exc # ""

NameOrder == <<"a", "b", "c", "i", "j", "k", "m", "n", "p", "q", "x", "y", "z">>   \* sorted(): ascending

MarkF == 100      \* logged by the prelude function f when it is entered
MarkG == 101      \* logged by the prelude function g when it is entered

Permute(xs, order) == [i \in 1..Len(order) |-> xs[order[i]]]
InvPerm(order) == [i \in 1..Len(order) |-> CHOOSE j \in 1..Len(order) : order[j] = i]
SelIdx(args, kinds) == SelectSeq([i \in 1..Len(args) |-> i], LAMBDA i : args[i].ak \in kinds)
\* the two argument evaluation orders Python 3.4 allows (reference manual / CPython 3.4 bytecode)
ArgOrders(args) == { [i \in 1..Len(args) |-> i],
                     SelIdx(args, {"pos"}) \o SelIdx(args, {"kw"}) \o SelIdx(args, {"star"}) \o SelIdx(args, {"dstar"}) }

RECURSIVE Eval(_, _), EvalSeq(_, _), EvalBool(_, _, _), EvalCmp(_, _, _, _, _), EvalDictItems(_, _, _, _), CallFn(_, _, _, _), ApplyLam(_, _, _, _, _)

\* evaluate es left to right; [log, vals, exc, sg]
EvalSeq(es, st) ==
    IF es = <<>> THEN { [log |-> <<>>, vals |-> <<>>, exc |-> "", sg |-> {}] }
    ELSE UNION { IF Fail(r) THEN { [log |-> r.log, vals |-> <<>>, exc |-> r.exc, sg |-> r.sg] }
                 ELSE { [log |-> r.log \o q.log, vals |-> <<r.val>> \o q.vals, exc |-> q.exc, sg |-> r.sg \cup q.sg]
                        : q \in EvalSeq(Tail(es), st) }
                 : r \in Eval(Head(es), st) }

EvalBool(op, xs, st) ==
    UNION { IF Fail(r) \/ Len(xs) = 1 THEN { r }
            ELSE IF (op = "and") = Truthy(r.val, st.heap) THEN { After(r, q) : q \in EvalBool(op, Tail(xs), st) }
            ELSE { r }
            : r \in Eval(Head(xs), st) }

\* left operand `left` already evaluated; ops[i] compares it with xs[i]
EvalCmp(ops, xs, i, left, st) ==
    UNION { IF Fail(r) THEN { r }
            ELSE UNION { LET c == Prim(r, pr, Sig2("cmp", ops[i], left, r.val, st.heap)) IN
                         IF Fail(c) \/ i = Len(ops) THEN { c }
                         ELSE IF ~Truthy(c.val, st.heap) THEN { c }
                         ELSE { After(c, q) : q \in EvalCmp(ops, xs, i + 1, r.val, st) }
                         : pr \in CmpOp(ops[i], left, r.val, st.heap) }
            : r \in Eval(xs[i], st) }

\* dict display items i..n; pairs so far in acc; keyFirst fixes the order inside every item
EvalDictItems(e, i, keyFirst, st) ==
    IF i > Len(e.ks) THEN { [log |-> <<>>, vals |-> <<>>, exc |-> "", sg |-> {}] }
    ELSE UNION { IF Fail(r) THEN { r }
                 ELSE LET kv == IF keyFirst THEN r.vals ELSE <<r.vals[2], r.vals[1]>> IN
                      { [log |-> r.log \o q.log, vals |-> <<VTuple(kv)>> \o q.vals, exc |-> q.exc, sg |-> r.sg \cup q.sg]
                        : q \in EvalDictItems(e, i + 1, keyFirst, st) }
                 : r \in EvalSeq(IF keyFirst THEN <<e.ks[i], e.vs[i]>> ELSE <<e.vs[i], e.ks[i]>>, st) }

\* insert pairs left to right: a later equal key replaces the value, the first key object stays
RECURSIVE DictBuild(_, _, _)
DictBuild(pairs, acc, heap) ==
    IF pairs = <<>> THEN acc
    ELSE LET p == Head(pairs)
             hit == { j \in 1..Len(acc) : PyEq(acc[j][1], p.xs[1], heap) }
         IN DictBuild(Tail(pairs),
                      IF hit = {} THEN Append(acc, <<p.xs[1], p.xs[2]>>)
                      ELSE [acc EXCEPT ![CHOOSE j \in hit : TRUE] = <<acc[CHOOSE j \in hit : TRUE][1], p.xs[2]>>],
                      heap)
RECURSIVE SetBuild(_, _, _)
SetBuild(xs, acc, heap) ==
    IF xs = <<>> THEN acc
    ELSE SetBuild(Tail(xs), IF \E j \in 1..Len(acc) : PyEq(acc[j], Head(xs), heap) THEN acc ELSE Append(acc, Head(xs)), heap)

\* bind a call of a lambda: [ok, env]
BindLam(lam, dvals, pos, kws, env) ==
    LET np == Len(lam.ps)
        nd == Len(dvals)
        kwNames == { kws[i][1] : i \in 1..Len(kws) }
        dupKw == \E i, j \in 1..Len(kws) : i < j /\ kws[i][1] = kws[j][1]
        unknown == \E nm \in kwNames : \A i \in 1..np : lam.ps[i] # nm
        clash == \E i \in 1..np : i <= Len(pos) /\ lam.ps[i] \in kwNames
        missing == \E i \in 1..np : i > Len(pos) /\ lam.ps[i] \notin kwNames /\ i <= np - nd
        valOf(i) == IF i <= Len(pos) THEN pos[i]
                    ELSE IF lam.ps[i] \in kwNames THEN kws[CHOOSE j \in 1..Len(kws) : kws[j][1] = lam.ps[i]][2]
                    ELSE dvals[i - (np - nd)]
        names == { lam.ps[i] : i \in 1..np }
    IN IF Len(pos) > np \/ dupKw \/ unknown \/ clash \/ missing THEN [ok |-> FALSE, env |-> env]
       ELSE [ok |-> TRUE, env |-> [nm \in (DOMAIN env) \cup names |->
                                   IF nm \in names THEN valOf(CHOOSE i \in 1..np : lam.ps[i] = nm) ELSE env[nm]]]

\* call of a function VALUE with evaluated arguments: set of outcomes (log = what the callee logs)
CallFn(fv, pos, kws, st) ==
    LET dupKw == \E i, j \in 1..Len(kws) : i < j /\ kws[i][1] = kws[j][1] IN
    IF fv.t # "fn" THEN { Err(<<>>, "TypeError", {}) }
    ELSE IF dupKw THEN { Err(<<>>, "TypeError", {}) }
    ELSE CASE fv.n = 1 ->
                LET sorted == SelectSeq(NameOrder, LAMBDA nm : \E i \in 1..Len(kws) : kws[i][1] = nm)
                    pairOf(nm) == VList(<<VStr(nm), kws[CHOOSE i \in 1..Len(kws) : kws[i][1] = nm][2]>>)
                IN IF \E i \in 1..Len(kws) : \A j \in 1..Len(NameOrder) : NameOrder[j] # kws[i][1]
                   THEN { Err(<<>>, "SKIP", {}) }
                   ELSE { Out(<<MarkF>>, VList(<<VList(pos), VList([i \in 1..Len(sorted) |-> pairOf(sorted[i])])>>), {}) }
           [] fv.n = 2 -> IF Len(pos) = 1 /\ kws = <<>> THEN { Out(<<MarkG>>, VFn(3, <<pos[1]>>), {}) }
                          ELSE IF Len(pos) = 0 /\ Len(kws) = 1 /\ kws[1][1] = "x" THEN { Out(<<MarkG>>, VFn(3, <<kws[1][2]>>), {}) }
                          ELSE { Err(<<>>, "TypeError", {}) }
           [] fv.n = 3 -> IF Len(pos) = 1 /\ kws = <<>> THEN { Out(<<>>, VList(<<fv.xs[1], pos[1]>>), {}) }
                          ELSE IF Len(pos) = 0 /\ Len(kws) = 1 /\ kws[1][1] = "y" THEN { Out(<<>>, VList(<<fv.xs[1], kws[1][2]>>), {}) }
                          ELSE { Err(<<>>, "TypeError", {}) }
           [] OTHER -> { Err(<<>>, "SKIP", {}) }

ApplyLam(lam, dvals, pos, kws, st) ==
    LET b == BindLam(lam, dvals, pos, kws, st.env) IN
    IF ~b.ok THEN { Err(<<>>, "TypeError", {}) }
    ELSE Eval(lam.body, [st EXCEPT !.env = b.env])

Eval(e, st) ==
  LET heap == st.heap IN
  CASE e.k = "leaf" -> { Out(<<e.id>>, e.v, {}) }
    [] e.k = "none" -> { Out(<<>>, VNone, {}) }
    [] e.k = "name" -> IF e.id \in DOMAIN st.env THEN { Out(<<>>, st.env[e.id], {}) } ELSE { Err(<<>>, "NameError", {}) }
    [] e.k = "bin" -> { IF Fail(r) THEN Err(r.log, r.exc, r.sg)
                        ELSE Prim(r, BinOp(e.op, r.vals[1], r.vals[2], heap), Sig2("bin", e.op, r.vals[1], r.vals[2], heap))
                        : r \in EvalSeq(<<e.l, e.r>>, st) }
    [] e.k = "un" -> { IF Fail(r) THEN r ELSE Prim(r, UnOp(e.op, r.val, heap), Sig1("un", e.op, r.val, heap))
                       : r \in Eval(e.x, st) }
    [] e.k = "bool" -> EvalBool(e.op, e.xs, st)
    [] e.k = "cmp" -> UNION { IF Fail(a) THEN { a } ELSE { After(a, q) : q \in EvalCmp(e.ops, Tail(e.xs), 1, a.val, st) }
                              : a \in Eval(e.xs[1], st) }
    [] e.k = "ife" -> UNION { IF Fail(c) THEN { c }
                              ELSE { After(c, r) : r \in Eval(IF Truthy(c.val, heap) THEN e.a ELSE e.b, st) }
                              : c \in Eval(e.test, st) }
    [] e.k \in {"tup", "list"} ->
         { IF Fail(r) THEN Err(r.log, r.exc, r.sg)
           ELSE Out(r.log, Val(IF e.k = "tup" THEN "tuple" ELSE "list", 0, 1, r.vals, ""), r.sg)
           : r \in EvalSeq(e.xs, st) }
    [] e.k = "set" ->
         { IF Fail(r) THEN Err(r.log, r.exc, r.sg)
           ELSE IF \E i \in 1..Len(r.vals) : ~Hashable(r.vals[i], heap) THEN Err(r.log, "TypeError", r.sg)
           ELSE Out(r.log, VSet(SetBuild(r.vals, <<>>, heap)), r.sg)
           : r \in EvalSeq(e.xs, st) }
    [] e.k = "dict" ->
         { IF Fail(r) THEN Err(r.log, r.exc, r.sg)
           ELSE IF \E i \in 1..Len(r.vals) : ~Hashable(r.vals[i].xs[1], heap) THEN Err(r.log, "TypeError", r.sg)
           ELSE LET ps == DictBuild(r.vals, <<>>, heap) IN
                Out(r.log, VDict([i \in 1..Len(ps) |-> VTuple(ps[i])]), r.sg)
           : r \in EvalDictItems(e, 1, TRUE, st) \cup EvalDictItems(e, 1, FALSE, st) }
    [] e.k = "idx" -> { IF Fail(r) THEN Err(r.log, r.exc, r.sg)
                        ELSE Prim(r, GetItem(r.vals[1], r.vals[2], heap), Sig2("idx", "get", r.vals[1], r.vals[2], heap))
                        : r \in EvalSeq(<<e.x, e.i>>, st) }
    [] e.k = "slice" -> { IF Fail(r) THEN Err(r.log, r.exc, r.sg)
                          ELSE Prim(r, GetSlice(r.vals[1], r.vals[2], r.vals[3], r.vals[4], heap), Sig1("slice", "get", r.vals[1], heap))
                          : r \in EvalSeq(<<e.x, e.lo, e.hi, e.st>>, st) }
    [] e.k = "attr" -> { IF Fail(r) THEN r ELSE Prim(r, GetAttr(r.val, heap), Sig1("attr", "get", r.val, heap))
                         : r \in Eval(e.x, st) }
    [] e.k = "lam" -> { IF Fail(r) THEN Err(r.log, r.exc, r.sg) ELSE Out(r.log, VFn(4, <<>>), r.sg)
                        : r \in EvalSeq(e.ds, st) }
    [] e.k = "call" ->
         LET isLam == e.f.k = "lam"
             \* callee: a lambda is applied directly (its defaults are evaluated where the lambda expression is)
             callee == IF isLam THEN { [log |-> r.log, val |-> VFn(4, r.vals), exc |-> r.exc, sg |-> r.sg] : r \in EvalSeq(e.f.ds, st) }
                       ELSE Eval(e.f, st)
             argEs == [i \in 1..Len(e.args) |-> e.args[i].e]
             doCall(c, r, order) ==
                 \* c: callee outcome, r: EvalSeq outcome of the arguments taken in `order`
                 LET vals == Permute(r.vals, InvPerm(order))
                     posI == SelIdx(e.args, {"pos"})
                     kwI == SelIdx(e.args, {"kw"})
                     stI == SelIdx(e.args, {"star"})
                     dsI == SelIdx(e.args, {"dstar"})
                     star == IF stI = <<>> THEN [ok |-> TRUE, skip |-> FALSE, xs |-> <<>>] ELSE IterOf(vals[stI[1]], heap)
                     dsv == IF dsI = <<>> THEN VDict(<<>>) ELSE Deref(vals[dsI[1]], heap)
                     dsOk == dsv.t = "dict" /\ \A i \in 1..Len(dsv.xs) : dsv.xs[i].xs[1].t = "str"
                     pos == [i \in 1..Len(posI) |-> vals[posI[i]]] \o star.xs
                     kws == [i \in 1..Len(kwI) |-> <<e.args[kwI[i]].name, vals[kwI[i]]>>]
                            \o (IF dsOk THEN [i \in 1..Len(dsv.xs) |-> <<dsv.xs[i].xs[1].s, dsv.xs[i].xs[2]>>] ELSE <<>>)
                     pre == [log |-> c.log \o r.log, sg |-> c.sg \cup r.sg]
                 IN IF star.skip THEN { Err(pre.log, "SKIP", pre.sg) }
                    ELSE IF ~star.ok \/ ~dsOk THEN { Err(pre.log, "TypeError", pre.sg) }
                    ELSE { After(pre, q) : q \in IF isLam THEN ApplyLam(e.f, c.val.xs, pos, kws, st) ELSE CallFn(c.val, pos, kws, st) }
         IN UNION { IF Fail(c) THEN { c }
                    ELSE UNION { UNION { IF Fail(r) THEN { Err(c.log \o r.log, r.exc, c.sg \cup r.sg) } ELSE doCall(c, r, order)
                                         : r \in EvalSeq(Permute(argEs, order), st) }
                                 : order \in ArgOrders(e.args) }
                    : c \in callee }

\* ---------------------------------------------------------------------------------------------
\* statements: outcomes [log, exc, env, heap, sg]
SOut(log, env, heap, sg) == [log |-> log, exc |-> "", env |-> env, heap |-> heap, sg |-> sg]
SErr(p, c) == [p EXCEPT !.exc = c]
SAfter(p, r) == [p EXCEPT !.log = p.log \o r.log, !.sg = p.sg \cup r.sg, !.exc = r.exc]
StOf(p) == [env |-> p.env, heap |-> p.heap]

SetItem(x0, i0, v, p0) ==    \* p0: statement outcome so far; returns a statement outcome
    LET p == [p0 EXCEPT !.sg = @ \cup {Sig2("setitem", "=", x0, i0, p0.heap)}]
        heap == p.heap
        x == Deref(x0, heap)
        i == Deref(i0, heap)
    IN CASE x.t = "list" ->
              IF ~IsIntLike(i) THEN SErr(p, "TypeError")
              ELSE LET n == Len(x.xs)
                       j == IF i.n < 0 THEN i.n + n ELSE i.n
                   IN IF j < 0 \/ j >= n THEN SErr(p, "IndexError")
                      ELSE IF x0.t = "ref" THEN [p EXCEPT !.heap = [heap EXCEPT ![x0.n] = VList([x.xs EXCEPT ![j + 1] = v])]]
                      ELSE p
         [] x.t = "dict" -> IF Hashable(i0, heap) THEN p ELSE SErr(p, "TypeError")
         [] x.t = "str" -> SErr(p, "TypeError")
         [] OTHER -> SErr(p, "TypeError")

SetAttr(x0, v, p0) ==
    LET p == [p0 EXCEPT !.sg = @ \cup {Sig1("setattr", "=", x0, p0.heap)}]
        x == Deref(x0, p.heap) IN
    IF x.t = "obj" THEN [p EXCEPT !.heap = [p.heap EXCEPT ![x0.n] = VObj(v)]]
    ELSE IF x.t = "fn" THEN SErr(p, "SKIP")
    ELSE SErr(p, "AttributeError")

SetSlice(x0, a0, b0, st0, v, p0) ==
    LET heap == p0.heap
        x == Deref(x0, heap)
        a == Deref(a0, heap)
        b == Deref(b0, heap)
        st == Deref(st0, heap)
        it == IterOf(v, heap)
        \* class of the bounds: forward, or start beyond stop (an insertion at start)
        bcls == IF x.t = "list" /\ SliceArgOk(a) /\ SliceArgOk(b) /\ SliceArgOk(st) /\ (st.t = "none" \/ st.n = 1)
                THEN (LET g == SliceIdx(Len(x.xs), a, b, st) IN IF g.stop < g.start THEN "reversed" ELSE "forward") ELSE "other"
        p == [p0 EXCEPT !.sg = @ \cup {"setslice|op=" \o bcls \o ",types=" \o TypeOf(x0, heap) \o ":" \o TypeOf(v, heap)}]
    IN IF x.t # "list" THEN (IF x.t \in {"str", "dict"} THEN SErr(p, "SKIP") ELSE SErr(p, "TypeError"))
       ELSE IF ~(SliceArgOk(a) /\ SliceArgOk(b) /\ SliceArgOk(st)) THEN SErr(p, IF it.ok THEN "TypeError" ELSE "SKIP")
       ELSE IF st.t # "none" /\ st.n # 1 THEN SErr(p, "SKIP")
       ELSE IF it.skip THEN SErr(p, "SKIP")
       ELSE IF ~it.ok THEN SErr(p, "TypeError")
       ELSE LET g == SliceIdx(Len(x.xs), a, b, st)
                hi == IF g.stop < g.start THEN g.start ELSE g.stop
                nx == SubSeq(x.xs, 1, g.start) \o it.xs \o SubSeq(x.xs, hi + 1, Len(x.xs))
            IN IF Len(nx) > 16 THEN SErr(p, "SKIP")
               ELSE IF x0.t = "ref" THEN [p EXCEPT !.heap = [heap EXCEPT ![x0.n] = VList(nx)]] ELSE p

RECURSIVE Store(_, _, _), StoreAll(_, _, _)
\* store value v into target t after the statement prefix p: set of statement outcomes
Store(t, v, p) ==
    CASE t.k = "name" -> { [p EXCEPT !.env = [nm \in (DOMAIN p.env) \cup {t.id} |-> IF nm = t.id THEN v ELSE p.env[nm]]] }
      [] t.k = "attr" -> { IF Fail(r) THEN SAfter(p, r) ELSE SetAttr(r.val, v, SAfter(p, r)) : r \in Eval(t.x, StOf(p)) }
      [] t.k = "idx" -> { IF Fail(r) THEN SAfter(p, r) ELSE SetItem(r.vals[1], r.vals[2], v, SAfter(p, r))
                          : r \in EvalSeq(<<t.x, t.i>>, StOf(p)) }
      [] t.k = "slice" -> { IF Fail(r) THEN SAfter(p, r) ELSE SetSlice(r.vals[1], r.vals[2], r.vals[3], r.vals[4], v, SAfter(p, r))
                            : r \in EvalSeq(<<t.x, t.lo, t.hi, t.st>>, StOf(p)) }
      [] t.k \in {"tup", "list"} ->
           LET it == IterOf(v, p.heap) IN
           IF it.skip THEN { SErr(p, "SKIP") }
           ELSE IF ~it.ok THEN { SErr(p, "TypeError") }
           ELSE IF Len(it.xs) # Len(t.xs) THEN { SErr(p, "ValueError") }
           ELSE StoreAll(t.xs, it.xs, {p})
\* targets ts[i] := vs[i] left to right, from every outcome in P
StoreAll(ts, vs, P) ==
    IF ts = <<>> THEN P
    ELSE StoreAll(Tail(ts), Tail(vs), UNION { IF Fail(p) THEN { p } ELSE Store(Head(ts), Head(vs), p) : p \in P })

\* in-place operators: same results as the binary operator, except that list += extends the object
InplaceOp(op, a0, b0, p) ==
    LET a == Deref(a0, p.heap) IN
    IF a.t = "list" /\ op = "+" THEN
        LET it == IterOf(b0, p.heap) IN
        IF it.skip THEN [r |-> RSkip, p |-> p]
        ELSE IF ~it.ok THEN [r |-> RExc("TypeError"), p |-> p]
        ELSE IF Len(a.xs) + Len(it.xs) > 16 THEN [r |-> RSkip, p |-> p]
        ELSE IF a0.t = "ref" THEN [r |-> ROk(a0), p |-> [p EXCEPT !.heap = [p.heap EXCEPT ![a0.n] = VList(a.xs \o it.xs)]]]
        ELSE [r |-> ROk(VList(a.xs \o it.xs)), p |-> p]
    ELSE IF a.t = "list" THEN [r |-> RSkip, p |-> p]     \* list *= : not modelled
    \* set |= &= -= ^= set: the LEFT operand's object is updated in place and stays the target's value; the right
    \* operand is only read (for a commutative operator the two are told apart by exactly this)
    ELSE IF IsIntSet(a) /\ op \in SetOps THEN
        LET b == Deref(b0, p.heap) IN
        IF ~IsIntSet(b) THEN [r |-> (IF b.t \in {"set", "dict"} THEN RSkip ELSE RExc("TypeError")), p |-> p]
        ELSE IF a0.t = "ref" THEN [r |-> ROk(a0), p |-> [p EXCEPT !.heap = [p.heap EXCEPT ![a0.n] = SetOpVal(op, a, b)]]]
        ELSE [r |-> ROk(SetOpVal(op, a, b)), p |-> p]
    ELSE [r |-> BinOp(op, a0, b0, p.heap), p |-> p]

Exec(s, st0) ==
    LET p0 == SOut(<<>>, st0.env, st0.heap, {}) IN
    CASE s.k = "assign" ->
           UNION { IF Fail(r) THEN { SAfter(p0, r) }
                   ELSE StoreAll(s.ts, [i \in 1..Len(s.ts) |-> r.val], { SAfter(p0, r) })
                   : r \in Eval(s.v, st0) }
      [] s.k = "aug" ->
           LET finish(p, cur, store(_, _)) ==
                   \* cur: current value of the target (already loaded); evaluate rhs, operate, store
                   UNION { IF Fail(r) THEN { SAfter(p, r) }
                           ELSE LET p1 == SAfter(p, r)
                                    io == InplaceOp(s.op, cur, r.val, p1)
                                    p2 == [io.p EXCEPT !.sg = @ \cup {Sig2("aug", s.op, cur, r.val, p1.heap)}]
                                IN IF io.r.exc # "" THEN { SErr(p2, io.r.exc) } ELSE { store(io.r.val, p2) }
                           : r \in Eval(s.v, StOf(p)) }
           IN (CASE s.t.k = "name" ->
                     IF s.t.id \notin DOMAIN st0.env THEN { SErr(p0, "NameError") }
                     ELSE finish(p0, st0.env[s.t.id],
                                 LAMBDA v, p : [p EXCEPT !.env = [nm \in DOMAIN p.env |-> IF nm = s.t.id THEN v ELSE p.env[nm]]])
                [] s.t.k = "attr" ->
                     UNION { IF Fail(x) THEN { SAfter(p0, x) }
                             ELSE LET p1 == SAfter(p0, x)
                                      g == GetAttr(x.val, p1.heap)
                                  IN IF g.exc # "" THEN { SErr(p1, g.exc) }
                                     ELSE finish(p1, g.val, LAMBDA v, p : SetAttr(x.val, v, p))
                             : x \in Eval(s.t.x, st0) }
                [] s.t.k = "idx" ->
                     UNION { IF Fail(x) THEN { SAfter(p0, x) }
                             ELSE LET p1 == SAfter(p0, x)
                                      g == GetItem(x.vals[1], x.vals[2], p1.heap)
                                  IN IF g.exc # "" THEN { SErr(p1, g.exc) }
                                     ELSE finish(p1, g.val, LAMBDA v, p : SetItem(x.vals[1], x.vals[2], v, p))
                             : x \in EvalSeq(<<s.t.x, s.t.i>>, st0) })
      [] s.k = "iftest" ->
           { IF Fail(r) THEN SAfter(p0, r)
             ELSE LET p1 == SAfter(p0, r)
                      v == VInt(IF Truthy(r.val, st0.heap) THEN 1 ELSE 2)
                  IN [p1 EXCEPT !.env = [nm \in (DOMAIN p1.env) \cup {"c"} |-> IF nm = "c" THEN v ELSE p1.env[nm]]]
             : r \in Eval(s.test, st0) }
====================================================================================
