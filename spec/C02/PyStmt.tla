------------------------------- MODULE PyStmt -------------------------------
(* C02 -- source-level control flow of Python 3.4: loops with else, if, try/except/else/finally,  *)
(* with, nested calls, return/break/continue/raise/bare raise.                                    *)
(*                                                                                                *)
(* Programs are DATA (trees of statement records).  A small-step machine with an explicit control *)
(* stack and completion records  norm | brk | cont | ret | exc(class, traceback)  gives every     *)
(* program, for every choice of its run-time inputs (conditions, iteration counts), its event log *)
(* (marks, __enter__/__exit__ calls with the class handed to __exit__) and its outcome            *)
(* (normal / return / escaping exception class with the traceback lines, lines being those of the *)
(* canonical rendering: one statement per physical line, `def` on line 1).                        *)
(*                                                                                                *)
(* TLC (1) enumerates the programs (a path of <= Depth compound contexts around one leaf          *)
(* statement), (2) runs the machine over all inputs while checking the clauses of C02 as          *)
(* invariants of the semantics itself (ghost component g), (3) prints one JSON record per         *)
(* behaviour, which the harness renders and runs on the real interpreter.                         *)
EXTENDS Integers, Sequences, FiniteSets, TLC, Json

CONSTANTS Depth,     \* maximal number of compound contexts around the leaf
          MinDepth,  \* minimal number (0 for exhaustive runs, = Depth for simulation of deep programs)
          SynDepth,  \* programs the compiler must reject are generated up to this path length only
          MaxIn,     \* number of freely chosen inputs per run; later reads are forced to 0
          Outer3     \* contexts allowed outermost in paths of length >= 3 (cfg: Contexts or OuterRep)

-----------------------------------------------------------------------------
(* Exception classes: builtin ones only (gpython cannot define exception classes).               *)
Parent == [ KeyError |-> "LookupError", IndexError |-> "LookupError", LookupError |-> "Exception",
            ValueError |-> "Exception", ZeroDivisionError |-> "ArithmeticError",
            ArithmeticError |-> "Exception", RuntimeError |-> "Exception",
            Exception |-> "BaseException", BaseException |-> "object" ]
Classes == DOMAIN Parent
(* the int the context manager of the rendering logs for the class handed to __exit__ *)
ClassCode == [ KeyError |-> 1, ValueError |-> 2, IndexError |-> 3, ZeroDivisionError |-> 4 ]
CodeOf(c) == IF c \in DOMAIN ClassCode THEN ClassCode[c] ELSE 9
(* symbolic traceback lines outside the program text *)
TopCall    == 0     \* the call of the program function by the embedder's unit
EnterRaise == -1    \* the raise statement inside CM.__enter__
ExitRaise  == -2    \* the raise statement inside CM.__exit__
NextRaise  == -3    \* the raise statement inside IT.__next__ (user iterator that raises KeyError instead of StopIteration)

(* algorithmic matching: walk the base-class chain (what an MRO scan does) *)
RECURSIVE IsSubAlg(_, _)
IsSubAlg(c, k) == IF c = k THEN TRUE ELSE IF c = "object" THEN FALSE ELSE IsSubAlg(Parent[c], k)
(* declarative matching: k is among the ancestors of c (reflexive transitive closure of Parent) *)
RECURSIVE Anc(_, _)
Anc(S, n) == IF n = 0 THEN S ELSE Anc(S \cup { Parent[x] : x \in S \cap Classes }, n - 1)
IsSubDecl(c, k) == k \in Anc({c}, Cardinality(Classes))

-----------------------------------------------------------------------------
(* Program construction.                                                                          *)
(* every statement record carries ln (its line) and nx (line of the statement following it in the  *)
(* same block, 0 = none); the constructors leave them 0, Program fills them in                     *)
Mk(d, r) == [k |-> "mark", n |-> 100 * d + r, ln |-> 0, nx |-> 0]
B(d, x) == << Mk(d, 1), x, Mk(d, 2) >>
H(cls, as, body) == [cls |-> cls, as |-> as, body |-> body, ln |-> 0]   \* cls = <<>>: bare except
Try(body, hs, orelse, fin) == [k |-> "try", body |-> body, hs |-> hs, orelse |-> orelse, fin |-> fin, ln |-> 0, nx |-> 0]
For(it, body, orelse) == [k |-> "for", it |-> it, body |-> body, orelse |-> orelse, ln |-> 0, nx |-> 0]
With(cm, body) == [k |-> "with", cm |-> cm, body |-> body, ln |-> 0, nx |-> 0, last |-> 0]
Cm(d, er, xs, xr) == [k |-> 100 * d + 50, er |-> er, xs |-> xs, xr |-> xr]   \* xs: "none" | "true" | "one"
RaiseS(e) == [k |-> "raise", e |-> e, ln |-> 0, nx |-> 0]
Simple(k) == [k |-> k, ln |-> 0, nx |-> 0]

Leaves == { Simple("pass"), RaiseS("KeyError"), RaiseS("ValueError"), Simple("reraise"), Simple("ret"),
            Simple("brk"), Simple("cont"), Simple("enterraise") }
LeafName(lf) == IF lf.k = "raise" THEN "raise:" \o lf.e ELSE lf.k
LeafStmt(lf, d) == IF lf.k = "enterraise" THEN With(Cm(d, TRUE, "none", FALSE), << Mk(d, 1) >>)
                   ELSE lf

(* Every clause position (body, handler, else, finally) of every clause combination of try -- finally  *)
(* only (tf..), except only (tebody3, tehandleras, tehandlerre), except+else (tebody1/2, tehandler,     *)
(* teelse), except+finally (tef..), except+else+finally (teef..) -- and body and else of both loops can  *)
(* hold the hole.                                                                                        *)
Contexts == { "forbody", "forelse", "foriter", "foriterE", "whilebody", "whileelse", "ifthen",
              "tfbody", "tffin", "tffinexc", "tffinret", "finloopcont",
              "tebody1", "tebody2", "tebody3", "tehandler", "tehandleras", "tehandlerre", "tehandlerloop", "teelse",
              "loophandlerre", "tefbody", "tefhandler", "teffin",
              "teefbody", "teefhandler", "teefelse", "teeffin",
              "withn", "withs", "witht", "withx", "call" }
(* one representative per kind of enclosing block: the outermost context of the exhaustively enumerated *)
(* depth-3 paths of the thorough tier (cfg: Outer3 <- OuterRep); deeper/other paths are sampled          *)
OuterRep == { "forbody", "whilebody", "forelse", "ifthen", "tfbody", "tffin", "tebody1", "tehandler", "teelse",
              "teefbody", "teefelse", "withn", "withs", "call" }
(* contexts whose hole runs while an exception is being handled (bare raise is meaningful there) *)
HandlingCtx == { "tehandler", "tehandleras", "tehandlerre", "tehandlerloop", "loophandlerre", "tefhandler", "teefhandler", "tffinexc" }

Wrap(c, d, x) ==
  CASE c = "forbody"   -> For("range", B(d, x), << Mk(d, 3) >>)
    [] c = "forelse"   -> For("range", << Mk(d, 1) >>, << Mk(d, 3), x, Mk(d, 4) >>)
    [] c = "foriter"   -> For("raising", B(d, x), << Mk(d, 3) >>)
    \* the iterator fails with Exception itself - an ANCESTOR of StopIteration is not StopIteration: the loop is left by
    \* the exception, its else clause does not run, only a bare except (or one naming Exception/BaseException) handles it
    [] c = "foriterE"  -> For("raisingE", B(d, x), << Mk(d, 3) >>)
    [] c = "whilebody" -> [k |-> "while", body |-> B(d, x), orelse |-> << Mk(d, 3) >>, ln |-> 0, nx |-> 0]
    [] c = "whileelse" -> [k |-> "while", body |-> << Mk(d, 1) >>, orelse |-> << Mk(d, 3), x, Mk(d, 4) >>, ln |-> 0, nx |-> 0]
    [] c = "ifthen"    -> [k |-> "if", then |-> B(d, x), orelse |-> << Mk(d, 3) >>, ln |-> 0, nx |-> 0]
    [] c = "tfbody"    -> Try(B(d, x), <<>>, <<>>, << Mk(d, 5) >>)
    [] c = "tffin"     -> Try(<< Mk(d, 1) >>, <<>>, <<>>, << Mk(d, 5), x, Mk(d, 6) >>)
    [] c = "tffinexc"  -> Try(<< Mk(d, 1), RaiseS("KeyError") >>, <<>>, <<>>, << Mk(d, 5), x, Mk(d, 6) >>)
    [] c = "tffinret"  -> Try(<< Mk(d, 1), Simple("ret") >>, <<>>, <<>>, << Mk(d, 5), x, Mk(d, 6) >>)
    \* a loop whose body leaves a try by `continue`; while that continue is PENDING the finally clause runs an inner loop
    \* whose body is a try/finally holding the hole: whatever way the hole is left (continue, break, falling off ...)
    \* and however the inner finally runs, the outer continue still goes to the OUTER loop's next iteration afterwards
    \* (found missing by an independently seeded change: the target of a pending continue kept in a register that the
    \* finally body's own continue overwrites)
    [] c = "finloopcont" ->
         For("range", << Mk(d, 1),
                         Try(<< Mk(d, 2), Simple("cont") >>, <<>>, <<>>,
                             << Mk(d, 5),
                                For("range", << Mk(d, 9), Try(<< Mk(d, 10), x, Mk(d, 11) >>, <<>>, <<>>, << Mk(d, 12) >>), Mk(d, 13) >>, <<>>),
                                Mk(d, 6) >>),
                         Mk(d, 3) >>, << Mk(d, 4) >>)
    [] c = "tebody1"   -> Try(B(d, x), << H(<<"LookupError">>, FALSE, << Mk(d, 7) >>) >>, << Mk(d, 4) >>, <<>>)
    [] c = "tebody2"   -> Try(B(d, x), << H(<<"ValueError">>, FALSE, << Mk(d, 7) >>),
                                          \* tuple: one member matches exactly (KeyError), one only by inheritance (ZeroDivisionError from an __exit__),
                                          \* IndexError matches neither
                                          H(<<"ArithmeticError", "KeyError">>, TRUE, << Mk(d, 8), RaiseS("ValueError") >>) >>,
                              << Mk(d, 4) >>, <<>>)
    [] c = "tebody3"   -> Try(B(d, x), << H(<<"KeyError">>, TRUE, << Mk(d, 7) >>), H(<<>>, FALSE, << Mk(d, 8) >>) >>, <<>>, <<>>)
    [] c = "tehandler" -> Try(<< Mk(d, 1), RaiseS("KeyError") >>, << H(<<"LookupError">>, FALSE, << Mk(d, 7), x, Mk(d, 8) >>) >>,
                              << Mk(d, 4) >>, <<>>)
    \* hole in a LATER handler that binds the exception
    [] c = "tehandleras" -> Try(<< Mk(d, 1), RaiseS("KeyError") >>,
                                << H(<<"ValueError">>, FALSE, << Mk(d, 9) >>), H(<<"KeyError">>, TRUE, << Mk(d, 7), x, Mk(d, 8) >>) >>, <<>>, <<>>)
    \* the handler ends with a bare raise AFTER the hole: whatever was raised and handled inside the hole,
    \* the exception re-raised is the one this handler caught
    [] c = "tehandlerre" -> Try(<< Mk(d, 1), RaiseS("KeyError") >>,
                                << H(<<"KeyError">>, FALSE, << Mk(d, 7), x, Mk(d, 8), Simple("reraise") >>) >>, <<>>, <<>>)
    \* inside the handler of KeyError: a loop whose body handles ValueError, hole in that INNER handler (left by
    \* break / continue / return / raise / falling off); afterwards a bare raise must re-raise KeyError
    [] c = "tehandlerloop" ->
         Try(<< Mk(d, 1), RaiseS("KeyError") >>,
             << H(<<"KeyError">>, FALSE,
                  << Mk(d, 7),
                     For("range", << Mk(d, 9),
                                     Try(<< Mk(d, 10), RaiseS("ValueError") >>, << H(<<"ValueError">>, FALSE, << Mk(d, 11), x, Mk(d, 12) >>) >>, <<>>, <<>>),
                                     Mk(d, 13) >>, << Mk(d, 14) >>),
                     Mk(d, 8), Simple("reraise") >>) >>, <<>>, <<>>)
    \* the same loop outside any handler (in a plain with block, to have statements after the loop): the bare
    \* raise after it finds nothing being handled -> RuntimeError (or the exception of an enclosing handler)
    [] c = "loophandlerre" ->
         With(Cm(d, FALSE, "none", FALSE),
              << For("range", << Mk(d, 1),
                                 Try(<< Mk(d, 2), RaiseS("ValueError") >>, << H(<<"ValueError">>, FALSE, << Mk(d, 7), x, Mk(d, 8) >>) >>, <<>>, <<>>),
                                 Mk(d, 3) >>, <<>>),
                 Mk(d, 4), Simple("reraise") >>)
    [] c = "teelse"    -> Try(<< Mk(d, 1) >>, << H(<<"LookupError">>, FALSE, << Mk(d, 7) >>) >>, << Mk(d, 3), x, Mk(d, 4) >>, <<>>)
    [] c = "tefbody"   -> Try(B(d, x), << H(<<"ValueError">>, FALSE, << Mk(d, 7) >>) >>, <<>>, << Mk(d, 5) >>)
    [] c = "tefhandler" -> Try(<< Mk(d, 1), RaiseS("ValueError") >>, << H(<<"ValueError">>, FALSE, << Mk(d, 7), x, Mk(d, 8) >>) >>,
                               <<>>, << Mk(d, 5) >>)
    [] c = "teffin"    -> Try(<< Mk(d, 1) >>, << H(<<"ValueError">>, FALSE, << Mk(d, 7) >>) >>, <<>>, << Mk(d, 5), x, Mk(d, 6) >>)
    \* the full statement: try / except / else / finally
    [] c = "teefbody"  -> Try(B(d, x), << H(<<"LookupError">>, FALSE, << Mk(d, 7) >>) >>, << Mk(d, 4) >>, << Mk(d, 5) >>)
    [] c = "teefhandler" -> Try(<< Mk(d, 1), RaiseS("ValueError") >>, << H(<<"ValueError">>, FALSE, << Mk(d, 7), x, Mk(d, 8) >>) >>,
                                << Mk(d, 4) >>, << Mk(d, 5) >>)
    [] c = "teefelse"  -> Try(<< Mk(d, 1) >>, << H(<<"LookupError">>, FALSE, << Mk(d, 7) >>) >>, << Mk(d, 3), x, Mk(d, 4) >>, << Mk(d, 5) >>)
    [] c = "teeffin"   -> Try(<< Mk(d, 1) >>, << H(<<"LookupError">>, FALSE, << Mk(d, 7) >>) >>, << Mk(d, 4) >>, << Mk(d, 5), x, Mk(d, 6) >>)
    [] c = "withn"     -> With(Cm(d, FALSE, "none", FALSE), B(d, x))
    [] c = "withs"     -> With(Cm(d, FALSE, "true", FALSE), B(d, x))
    [] c = "witht"     -> With(Cm(d, FALSE, "one", FALSE), B(d, x))
    [] c = "withx"     -> With(Cm(d, FALSE, "none", TRUE), B(d, x))
    [] c = "call"      -> [k |-> "call", body |-> B(d, x), ln |-> 0, nx |-> 0, cl |-> 0]

RECURSIVE Build(_, _, _)
Build(p, lf, d) == IF p = <<>> THEN LeafStmt(lf, d) ELSE Wrap(Head(p), d, Build(Tail(p), lf, d + 1))
RawProgram(p, lf) == << Mk(0, 1), Build(p, lf, 1), Mk(0, 2) >>

-----------------------------------------------------------------------------
(* Canonical layout: the line of every statement in the rendering (one template per constructor, *)
(* nx = line of the statement that follows in the same block, 0 if none;                          *)
(* `def f():` is line 1, the body starts on line 2).  with: `last` = last line of its body;       *)
(* call: ln = line of the nested `def`, cl = line of the call statement that follows the body.    *)
RECURSIVE LayS(_, _), Lay1(_, _), LayH(_, _)
LayS(ss, l) == IF ss = <<>> THEN [ss |-> <<>>, nl |-> l]
               ELSE LET h == Lay1(Head(ss), l)
                        t == LayS(Tail(ss), h.nl)
                    IN [ss |-> << [h.s EXCEPT !.nx = IF Tail(ss) = <<>> THEN 0 ELSE h.nl] >> \o t.ss, nl |-> t.nl]
LayH(hs, l) == IF hs = <<>> THEN [hs |-> <<>>, nl |-> l]
               ELSE LET b == LayS(Head(hs).body, l + 1)
                        t == LayH(Tail(hs), b.nl)
                    IN [hs |-> << [Head(hs) EXCEPT !.body = b.ss, !.ln = l] >> \o t.hs, nl |-> t.nl]
(* optional clause: header line + block, nothing when the block is empty *)
LayOpt(ss, l) == IF ss = <<>> THEN [ss |-> <<>>, nl |-> l] ELSE LayS(ss, l + 1)
Lay1(s, l) ==
  CASE s.k = "if" -> LET a == LayS(s.then, l + 1)  b == LayOpt(s.orelse, a.nl)
                     IN [s |-> [s EXCEPT !.ln = l, !.then = a.ss, !.orelse = b.ss], nl |-> b.nl]
    [] s.k \in {"for", "while"} ->
                     LET a == LayS(s.body, l + 1)  b == LayOpt(s.orelse, a.nl)
                     IN [s |-> [s EXCEPT !.ln = l, !.body = a.ss, !.orelse = b.ss], nl |-> b.nl]
    [] s.k = "try" -> LET a == LayS(s.body, l + 1)  h == LayH(s.hs, a.nl)
                          o == LayOpt(s.orelse, h.nl)  f == LayOpt(s.fin, o.nl)
                      IN [s |-> [s EXCEPT !.ln = l, !.body = a.ss, !.hs = h.hs, !.orelse = o.ss, !.fin = f.ss], nl |-> f.nl]
    [] s.k = "with" -> LET a == LayS(s.body, l + 1)
                       IN [s |-> [s EXCEPT !.ln = l, !.body = a.ss, !.last = a.nl - 1], nl |-> a.nl]
    [] s.k = "call" -> LET a == LayS(s.body, l + 1)
                       IN [s |-> [s EXCEPT !.ln = l, !.body = a.ss, !.cl = a.nl], nl |-> a.nl + 1]
    [] OTHER -> [s |-> [s EXCEPT !.ln = l], nl |-> l + 1]
Program(p, lf) == LayS(RawProgram(p, lf), 2).ss

-----------------------------------------------------------------------------
(* What the 3.4 compiler must reject (SyntaxError): break outside a loop; continue outside a     *)
(* loop; continue inside a finally clause (unless inside a loop nested in that clause).  The      *)
(* else clause of a loop is outside that loop; a nested def starts afresh.                        *)
RECURSIVE BadS(_, _, _), Bad1(_, _, _)
BadS(ss, lp, fn) == \E i \in 1..Len(ss) : Bad1(ss[i], lp, fn)
Bad1(s, lp, fn) ==
  CASE s.k = "brk" -> ~lp
    [] s.k = "cont" -> ~lp \/ fn
    [] s.k = "if" -> BadS(s.then, lp, fn) \/ BadS(s.orelse, lp, fn)
    [] s.k \in {"for", "while"} -> BadS(s.body, TRUE, FALSE) \/ BadS(s.orelse, lp, fn)
    [] s.k = "try" -> \/ BadS(s.body, lp, fn) \/ BadS(s.orelse, lp, fn) \/ BadS(s.fin, lp, TRUE)
                      \/ \E i \in 1..Len(s.hs) : BadS(s.hs[i].body, lp, fn)
    [] s.k = "with" -> BadS(s.body, lp, fn)
    [] s.k = "call" -> BadS(s.body, FALSE, FALSE)
    [] OTHER -> FALSE
SyntaxErr(pg) == BadS(pg, FALSE, FALSE)
(* abstract class of the rejected construct, for finding keys: which statement, nearest enclosing  *)
(* block-forming construct (if and the else clause of a loop form no block of their own)           *)
RECURSIVE WhereS(_, _), Where1(_, _)
WhereS(ss, w) == UNION { Where1(ss[i], w) : i \in 1..Len(ss) }
Where1(s, w) ==
  CASE s.k \in {"brk", "cont"} -> { s.k \o "@" \o w }
    [] s.k = "if" -> WhereS(s.then, w) \cup WhereS(s.orelse, w)
    [] s.k \in {"for", "while"} -> WhereS(s.body, "loop-body") \cup WhereS(s.orelse, w)
    [] s.k = "try" -> WhereS(s.body, "try-body") \cup WhereS(s.orelse, "try-else") \cup WhereS(s.fin, "finally")
                      \cup UNION { WhereS(s.hs[i].body, "handler") : i \in 1..Len(s.hs) }
    [] s.k = "with" -> WhereS(s.body, "with-body")
    [] s.k = "call" -> WhereS(s.body, "def")
    [] OTHER -> {}

(* generated programs: bare raise only where an exception is being handled in the same function; *)
(* programs that must be rejected only up to SynDepth (all of them are in the quick tier)         *)
(* loophandlerre executes a bare raise that is in no handler of its own function: not generated inside a *)
(* function called from a handler (see hx)                                                              *)
RECURSIVE LastCall(_, _)
LastCall(p, i) == IF i = 0 THEN 0 ELSE IF p[i] = "call" THEN i ELSE LastCall(p, i - 1)
AdmitCtx(p, c) ==
  c = "loophandlerre" => LET k == LastCall(p, Len(p)) IN
                         \/ \E i \in (k + 1)..Len(p) : p[i] \in HandlingCtx
                         \/ ~ \E i \in 1..k : p[i] \in HandlingCtx
AdmitLeaf(p, lf) ==
  lf.k = "reraise" => \E i \in 1..Len(p) : p[i] \in HandlingCtx /\ \A j \in (i + 1)..Len(p) : p[j] # "call"
LeafByName(n) == CHOOSE lf \in Leaves : LeafName(lf) = n

-----------------------------------------------------------------------------
(* The machine.                                                                                   *)
VARIABLES st,    \* "gen" | "leaf" | "run" | "done" | "skip"
          path,  \* contexts chosen so far (outermost first); once the leaf is chosen its name is appended
          prog,  \* the program (annotated tree), <<>> while generating
          run    \* [ks, comp, log, inp, g]
vars == << st, path, prog, run >>

Norm == [t |-> "norm", e |-> "-", tb |-> <<>>, id |-> 0]
Cmp(t) == [t |-> t, e |-> "-", tb |-> <<>>, id |-> 0]
\* tb: sequence (outermost first) of SETS of allowed lines; id: number of the raise event (ghost)
Exc(e, tb, id) == [t |-> "exc", e |-> e, tb |-> tb, id |-> id]
NoNext == 0
SeqF(ss) == [k |-> "seq", ss |-> ss]
Pop(s) == SubSeq(s, 1, Len(s) - 1)
Top(s) == s[Len(s)]
PushSeq(s, ss) == IF ss = <<>> THEN s ELSE Append(s, SeqF(ss))

Matches(h, e) == h.cls = <<>> \/ \E i \in 1..Len(h.cls) : IsSubAlg(e, h.cls[i])
RECURSIVE FirstMatch(_, _, _)
FirstMatch(hs, e, i) == IF i > Len(hs) THEN 0 ELSE IF Matches(hs[i], e) THEN i ELSE FirstMatch(hs, e, i + 1)
DeclMatches(h, e) == h.cls = <<>> \/ \E k \in { h.cls[i] : i \in 1..Len(h.cls) } : IsSubDecl(e, k)

(* DECLARATIVE reading of "the exception being handled" from the control stack (used only by the  *)
(* invariant HandledStack; the machine uses the explicit stack hx): innermost handler frame or     *)
(* finally body entered by an exception (3.4 sets exc_info for both), not looking past a call      *)
RECURSIVE Handled(_, _)
Handled(ks, i) == IF i = 0 THEN Norm
                  ELSE LET f == ks[i] IN
                       IF f.k = "call" THEN Norm
                       ELSE IF f.k = "hnd" THEN f.exc
                       ELSE IF f.k = "fin" /\ f.saved.t = "exc" THEN f.saved
                       ELSE Handled(ks, i - 1)
(* ghost: lines of the active calls, outermost first *)
RECURSIVE CallLines(_)
CallLines(ks) == IF ks = <<>> THEN <<>>
                 ELSE CallLines(Pop(ks)) \o (IF Top(ks).k = "call" THEN << {Top(ks).ln} >> ELSE <<>>)

G0 == [nid |-> 0, open |-> {}, ran |-> {}, ncaught |-> 0, nsupp |-> 0, nover |-> 0,
       raises |-> <<>>,   \* per raise event: class and the traceback demanded by C02, computed from the stack at the raise
       bad |-> {}]
(* lab: label of the last ORIGIN decision of the semantics -- a rule that creates a completion or *)
(* chooses a branch (raise, bare raise, return/break/continue, a condition or iteration test, an    *)
(* iterator / __enter__ / __exit__ that raises, an __exit__ that suppresses); rules that merely     *)
(* propagate a completion (handler search, finally entry and resumption, loop and call exit) do not *)
(* change it.  why[i]: the label in force when log[i] was appended.  They name the rule behind an   *)
(* expectation in finding keys; they do not influence the run.                                      *)
(* hx: the stack of exceptions being handled.  Entering an except handler, or a finally clause by *)
(* an exception, pushes; EVERY way out of that handler / clause (falling off its end, break,     *)
(* continue, return, a new exception) pops, so the enclosing handler's exception is current      *)
(* again.  A call pushes a barrier (Norm) that its return pops: generated programs never execute *)
(* a bare raise in a callee while only a caller is handling something (reference manual "current *)
(* scope" and CPython's thread-wide state differ there).  A bare raise re-raises the top of hx,   *)
(* RuntimeError if there is none.  The invariant HandledStack ties hx to the control stack.       *)
Run0(pg) == [ks |-> << [k |-> "call", ln |-> TopCall], SeqF(pg) >>, comp |-> Norm, log |-> <<>>, why |-> <<>>, lab |-> "start",
             inp |-> <<>>, hx |-> <<>>, g |-> G0]
HxTop(S) == IF S.hx = <<>> THEN Norm ELSE Top(S.hx)
HxPush(S, c) == [S EXCEPT !.hx = Append(@, c)]
HxPop(S) == [S EXCEPT !.hx = Pop(@)]
Ev(S, n) == [S EXCEPT !.log = Append(@, n), !.why = Append(@, S.lab)]

Rd(S, dom) == IF Len(S.inp) < MaxIn THEN dom ELSE {0}

(* a raise event at this point; ks = stack after the raising statement was consumed *)
(* nx: line of the statement following the raising statement in its block (0: none, or the raise is *)
(* not a statement of the program) -- only classifies observed line errors in finding keys          *)
RaiseAt(S, ks, e, tb, kind, nx) ==
  [S EXCEPT !.ks = ks, !.comp = Exc(e, tb, Len(S.g.raises) + 1), !.lab = kind,
            !.g.raises = Append(@, [e |-> e, tb |-> CallLines(ks) \o tb, kind |-> kind, nx |-> nx])]
Cleanup(g, id) == [g EXCEPT !.open = @ \ {id}, !.ran = @ \cup {id},
                            !.bad = IF id \in g.ran THEN @ \cup {"cleanup ran twice"} ELSE @]
NewId(g, id) == [g EXCEPT !.nid = id, !.open = @ \cup {id}]

(* the iterable of a for loop is used up: range -> else clause; the raising iterator -> its       *)
(* __next__ raises KeyError, which leaves the loop like any exception raised at the for statement *)
ForEnd(S, base, f) ==
  IF f.it = "range" THEN [S EXCEPT !.ks = PushSeq(base, f.orelse), !.lab = "for:exhausted"]
  ELSE RaiseAt(S, base, IF f.it = "raisingE" THEN "Exception" ELSE "KeyError", << {f.ln}, {NextRaise} >>, "for:iterator-raises", NoNext)

WhileTest(S, base, f) ==
  { LET S1 == [S EXCEPT !.inp = Append(@, v)] IN
    IF v = 1 THEN [S1 EXCEPT !.ks = PushSeq(Append(base, f), f.body), !.lab = "while:true"]
    ELSE [S1 EXCEPT !.ks = PushSeq(base, f.orelse), !.lab = "while:false"] : v \in Rd(S, {0, 1}) }

EnterFin(S, base, f, c) ==
  { [S EXCEPT !.ks = PushSeq(Append(base, [k |-> "fin", saved |-> c]), f.fin), !.comp = Norm, !.g = Cleanup(@, f.id),
              !.hx = IF c.t = "exc" THEN Append(@, c) ELSE @] }

ExitWith(S, base, f, c) ==
  LET S1 == [Ev(S, f.cm.k + 10 + (IF c.t = "exc" THEN CodeOf(c.e) ELSE 0)) EXCEPT !.g = Cleanup(@, f.id)] IN
  IF f.cm.xr
  THEN LET S2 == RaiseAt(S1, base, "ZeroDivisionError", << {f.ln, f.last}, {ExitRaise} >>, "with-exit:" \o c.t \o ":raises", NoNext) IN
       { IF c.t = "exc" THEN [S2 EXCEPT !.g.nover = @ + 1] ELSE S2 }
  ELSE IF c.t = "exc" /\ f.cm.xs \in {"true", "one"}
  THEN { [S1 EXCEPT !.ks = base, !.comp = Norm, !.g.nsupp = @ + 1,
                    !.lab = "with-exit:exc:returns-" \o f.cm.xs \o ":suppressed"] }
  ELSE { [S1 EXCEPT !.ks = base, !.comp = c] }

Exec(S, s, rest) ==
  CASE s.k = "mark" -> { [Ev(S, s.n) EXCEPT !.ks = rest] }
    [] s.k = "pass" -> { [S EXCEPT !.ks = rest] }
    [] s.k = "raise" -> { RaiseAt(S, rest, s.e, << {s.ln} >>, "raise", s.nx) }
    [] s.k = "reraise" -> LET h == HxTop(S) IN
                          IF h.t = "exc" THEN { RaiseAt(S, rest, h.e, h.tb, "reraise", S.g.raises[h.id].nx) }
                          ELSE { RaiseAt(S, rest, "RuntimeError", << {s.ln} >>, "reraise-nothing", s.nx) }
    [] s.k \in {"ret", "brk", "cont"} -> { [S EXCEPT !.ks = rest, !.comp = Cmp(s.k), !.lab = s.k] }
    [] s.k = "if" -> { [S EXCEPT !.ks = PushSeq(rest, IF v = 1 THEN s.then ELSE s.orelse), !.inp = Append(@, v),
                              !.lab = IF v = 1 THEN "if:true" ELSE "if:false"] : v \in Rd(S, {0, 1}) }
    [] s.k = "for" -> { LET S1 == [S EXCEPT !.inp = Append(@, n)]
                            f == [k |-> "for", it |-> s.it, ln |-> s.ln, body |-> s.body, orelse |-> s.orelse, i |-> n - 1] IN
                        IF n > 0 THEN [S1 EXCEPT !.ks = PushSeq(Append(rest, f), s.body), !.lab = "for:next"]
                        ELSE ForEnd(S1, rest, f) : n \in Rd(S, 0..2) }
    [] s.k = "while" -> WhileTest(S, rest, [k |-> "while", body |-> s.body, orelse |-> s.orelse])
    [] s.k = "try" -> LET id == S.g.nid + 1
                          k1 == IF s.fin # <<>> THEN Append(rest, [k |-> "tryf", fin |-> s.fin, id |-> id]) ELSE rest
                          k2 == IF s.hs # <<>> THEN Append(k1, [k |-> "trye", hs |-> s.hs, orelse |-> s.orelse]) ELSE k1
                      IN { [S EXCEPT !.ks = PushSeq(k2, s.body), !.g = IF s.fin # <<>> THEN NewId(@, id) ELSE @] }
    [] s.k = "with" -> LET S1 == Ev(S, s.cm.k)
                           id == S.g.nid + 1 IN
                       IF s.cm.er THEN { RaiseAt(S1, rest, "IndexError", << {s.ln}, {EnterRaise} >>, "with-enter:raises", NoNext) }
                       ELSE { [S1 EXCEPT !.ks = PushSeq(Append(rest, [k |-> "with", cm |-> s.cm, ln |-> s.ln, last |-> s.last, id |-> id]), s.body),
                                         !.g = NewId(@, id)] }
    [] s.k = "call" -> { [S EXCEPT !.ks = PushSeq(Append(rest, [k |-> "call", ln |-> s.cl]), s.body), !.hx = Append(@, Norm)] }

(* leading marks of a block are logged together with the step of the statement that follows them *)
(* (fewer states; the log is the same)                                                            *)
RECURSIVE LogMarks(_, _)
LogMarks(S, ss) == IF ss # <<>> /\ Head(ss).k = "mark" THEN LogMarks(Ev(S, Head(ss).n), Tail(ss))
                   ELSE [S |-> S, ss |-> ss]

(* the frame on top finished its current part normally *)
NormalSteps(S, f, base) ==
  CASE f.k = "seq" -> LET m == LogMarks(S, f.ss) IN
                      IF m.ss = <<>> THEN { [m.S EXCEPT !.ks = base] }
                      ELSE Exec(m.S, Head(m.ss), PushSeq(base, Tail(m.ss)))
    [] f.k = "for" -> { IF f.i > 0 THEN [S EXCEPT !.ks = PushSeq(Append(base, [f EXCEPT !.i = @ - 1]), f.body), !.lab = "for:next"]
                        ELSE ForEnd(S, base, f) }
    [] f.k = "while" -> WhileTest(S, base, f)
    [] f.k = "tryf" -> EnterFin(S, base, f, S.comp)
    [] f.k = "trye" -> { [S EXCEPT !.ks = PushSeq(base, f.orelse)] }
    [] f.k = "hnd" -> { HxPop([S EXCEPT !.ks = base]) }
    [] f.k = "fin" -> { [S EXCEPT !.ks = base, !.comp = f.saved, !.hx = IF f.saved.t = "exc" THEN Pop(@) ELSE @] }
    [] f.k = "with" -> ExitWith(S, base, f, S.comp)
    [] f.k = "call" -> { [S EXCEPT !.ks = base, !.hx = IF base = <<>> THEN @ ELSE Pop(@)] }

(* an abrupt completion c reaches the frame on top *)
AbruptSteps(S, f, base, c) ==
  CASE f.k = "seq" -> { [S EXCEPT !.ks = base] }
    [] f.k \in {"for", "while"} ->
         { IF c.t = "brk" THEN [S EXCEPT !.ks = base, !.comp = Norm]
           ELSE IF c.t = "cont" THEN [S EXCEPT !.comp = Norm]
           ELSE [S EXCEPT !.ks = base] }
    [] f.k = "tryf" -> EnterFin(S, base, f, c)
    [] f.k = "trye" ->
         LET i == IF c.t = "exc" THEN FirstMatch(f.hs, c.e, 1) ELSE 0 IN
         IF i > 0
         THEN { [S EXCEPT !.ks = PushSeq(Append(base, [k |-> "hnd", exc |-> c]), f.hs[i].body), !.comp = Norm, !.hx = Append(@, c),
                          !.g = [@ EXCEPT !.ncaught = @ + 1,
                                          !.bad = IF DeclMatches(f.hs[i], c.e) /\ \A j \in 1..(i - 1) : ~DeclMatches(f.hs[j], c.e)
                                                  THEN @ ELSE @ \cup {"handler entered without being the first match"}]] }
         ELSE { [S EXCEPT !.ks = base,
                          !.g.bad = IF c.t = "exc" /\ \E j \in 1..Len(f.hs) : DeclMatches(f.hs[j], c.e)
                                    THEN @ \cup {"matching handler passed over"} ELSE @] }
    [] f.k = "hnd" -> { HxPop([S EXCEPT !.ks = base]) }     \* left by break / continue / return / a new exception
    [] f.k = "fin" -> { [S EXCEPT !.ks = base, !.g.nover = IF f.saved.t = "exc" THEN @ + 1 ELSE @,
                                  !.hx = IF f.saved.t = "exc" THEN Pop(@) ELSE @] }
    [] f.k = "with" -> ExitWith(S, base, f, c)
    [] f.k = "call" /\ c.t = "ret" -> { [S EXCEPT !.ks = base, !.comp = IF base = <<>> THEN c ELSE Norm, !.hx = IF base = <<>> THEN @ ELSE Pop(@)] }
    [] f.k = "call" /\ c.t = "exc" -> { [S EXCEPT !.ks = base, !.comp = Exc(c.e, << {f.ln} >> \o c.tb, c.id), !.hx = IF base = <<>> THEN @ ELSE Pop(@)] }
    \* brk/cont reaching a call frame: no arm -- TLC reports an error (SyntaxErr must have excluded it)

(* an abrupt completion discards the rest of every block it leaves: done within the same step *)
RECURSIVE DropSeqs(_)
DropSeqs(ks) == IF ks # <<>> /\ Top(ks).k = "seq" THEN DropSeqs(Pop(ks)) ELSE ks
Settle(S) == IF S.comp.t = "norm" THEN S ELSE [S EXCEPT !.ks = DropSeqs(@)]
Steps(S) == LET f == Top(S.ks)  base == Pop(S.ks) IN
            { Settle(r) : r \in IF S.comp.t = "norm" THEN NormalSteps(S, f, base) ELSE AbruptSteps(S, f, base, S.comp) }

(* origin: the kind of raise event the escaping exception comes from *)
Outcome(S) == [t |-> S.comp.t, e |-> S.comp.e, tb |-> S.comp.tb, lab |-> S.lab,
               origin |-> IF S.comp.t = "exc" THEN S.g.raises[S.comp.id].kind ELSE "-",
               next |-> IF S.comp.t = "exc" THEN S.g.raises[S.comp.id].nx ELSE 0]
Record(S) == [prog |-> prog, path |-> path, inputs |-> S.inp, log |-> S.log, why |-> S.why, out |-> Outcome(S)]
SynRecord(p, pg) == [prog |-> pg, path |-> p, inputs |-> <<>>, log |-> <<>>, why |-> <<>>,
                     out |-> [t |-> "syntax", e |-> "SyntaxError", tb |-> <<>>, lab |-> "reject", origin |-> "-", next |-> 0],
                     where |-> WhereS(pg, "def")]

Init == /\ st = "gen" /\ path = <<>> /\ prog = <<>> /\ run = Run0(<<>>)

GenCtx == /\ st = "gen" /\ Len(path) < Depth
          /\ Len(path) >= 2 => path[1] \in Outer3
          /\ \E c \in Contexts : AdmitCtx(path, c) /\ path' = Append(path, c)
          /\ UNCHANGED << st, prog, run >>
GenLeaf == /\ st = "gen" /\ Len(path) >= MinDepth
           /\ \E lf \in Leaves : AdmitLeaf(path, lf) /\ path' = Append(path, LeafName(lf))
           /\ st' = "leaf"
           /\ UNCHANGED << prog, run >>
(* build the program; what the compiler must reject is not run (and dropped beyond SynDepth) *)
Start == /\ st = "leaf"
         /\ LET p == SubSeq(path, 1, Len(path) - 1)
                pg == Program(p, LeafByName(path[Len(path)]))
                bad == SyntaxErr(pg) IN
            IF bad /\ Len(p) > SynDepth
            THEN /\ st' = "skip" /\ UNCHANGED << prog, run >>
            ELSE /\ prog' = pg
                 /\ IF bad
                    THEN /\ st' = "done" /\ run' = [Run0(pg) EXCEPT !.ks = <<>>, !.comp = Cmp("syntax")]
                         /\ PrintT(ToJson(SynRecord(path, pg)))
                    ELSE /\ st' = "run" /\ run' = Run0(pg)
         /\ UNCHANGED path
(* one step of the machine; the step that empties the control stack ends the run and prints the behaviour *)
Step == /\ st = "run"
        /\ \E r \in Steps(run) :
             /\ run' = r
             /\ IF r.ks = <<>> THEN st' = "done" /\ PrintT(ToJson(Record(r))) ELSE st' = "run"
        /\ UNCHANGED << path, prog >>
Idle == st \in {"done", "skip"} /\ UNCHANGED vars     \* so that deadlock = a stuck run

Next == GenCtx \/ GenLeaf \/ Start \/ Step \/ Idle
NextSim == GenCtx \/ GenLeaf \/ Start \/ Step
Spec == Init /\ [][Next]_vars
SpecSim == Init /\ [][NextSim]_vars

-----------------------------------------------------------------------------
(* The clauses of C02 as invariants of the semantics.                                             *)
FrameIds(ks) == { ks[i].id : i \in { j \in 1..Len(ks) : ks[j].k \in {"tryf", "with"} } }
(* every entered finally / __exit__ runs exactly once on every way out: an entered cleanup that   *)
(* has not run is still pending on the control stack; none runs twice; none is pending at the end *)
CleanupOnce == /\ run.g.open = FrameIds(run.ks)
               /\ run.g.ran \cap run.g.open = {}
               /\ (st = "done" => run.g.open = {})
(* a handler runs only as the first match by inheritance; no matching handler is passed over      *)
HandlerFirstMatch == run.g.bad = {}
(* no exception is lost: every raise event is accounted for by a handler entry, a true __exit__,  *)
(* an overriding exit from a finally/__exit__, or is still in flight (pending or saved by finally)*)
InFlight(S) == (IF S.comp.t = "exc" THEN 1 ELSE 0)
               + Cardinality({ i \in 1..Len(S.ks) : S.ks[i].k = "fin" /\ S.ks[i].saved.t = "exc" })
NoneLost == Len(run.g.raises) = run.g.ncaught + run.g.nsupp + run.g.nover + InFlight(run)
(* an escaping exception has the class of its raise event and a traceback naming the active  *)
(* calls at that event (outermost first) and the raising line -- computed here from the stack at  *)
(* the raise, in the machine by accumulation while unwinding                                      *)
EscapeIntact == (st = "done" /\ run.comp.t = "exc") =>
                  LET r == run.g.raises[run.comp.id] IN run.comp.e = r.e /\ run.comp.tb = r.tb
(* the explicit handled-exception stack agrees, in every state, with what the control stack says *)
HandledStack == st = "run" => HxTop(run) = Handled(run.ks, Len(run.ks))
FinalOK == st = "done" => run.comp.t \in {"norm", "ret", "exc", "syntax"}
(* what must be a SyntaxError never runs *)
RejectedNeverRuns == (st = "run" /\ run.log = <<>>) => ~SyntaxErr(prog)   \* checked where a run starts
TypeOK == /\ st \in {"gen", "leaf", "skip", "run", "done"} /\ Len(path) <= Depth + 1 /\ Len(run.inp) <= 64

Meta == [meta |-> TRUE,
         classes |-> { [name |-> c, parent |-> Parent[c], code |-> CodeOf(c)] : c \in Classes },
         lines |-> [topcall |-> TopCall, enterraise |-> EnterRaise, exitraise |-> ExitRaise, nextraise |-> NextRaise],
         contexts |-> Contexts]
ASSUME PrintT(ToJson(Meta))
=============================================================================
