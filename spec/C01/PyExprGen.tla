--------------------------------- MODULE PyExprGen ---------------------------------
(* C01 -- case generator. One initial state per case descriptor; the Next step builds the tree,
   computes the set of allowed outcomes with PyExpr!Eval / Exec, checks the meta-invariants of
   PyExprSyntax (Orders, Must) against them and prints one JSON record per case:
     src   rendered source (only the parentheses the precedence table requires)
     dump  expected abstract syntax tree (ast.dump format, leaf k as @k)
     vt    the values the prelude's table V must hold (leaf id -> value), init = pre-bound names
     outs  allowed outcomes: log, exception class or value (expressions) / final names + heap (statements)
     sigs  signatures of the primitive data operations involved;  cls = the signature, for one-operation cases
   Families: prim (every operator on every pair of universe values), pair / triple (all operator
   pairs and triples in every grouping), unmix (unary against binary), truth (boolean, comparison
   chain and conditional forms over all truth-value triples, in value / if / not context), d2 (all
   trees of depth <= 2 over a reduced alphabet), form (calls, subscripts, slices, attributes,
   displays, lambda), stmt (assignment shapes).                                                    *)
EXTENDS PyExprSyntax, Json

CONSTANTS Tier, Seed, Fams
VARIABLES c, res

Thorough == Tier = "thorough"
\* (the case sets take a parameter so that TLC does not evaluate all of them eagerly at start-up)
Ops12 == <<"+", "-", "*", "/", "//", "%", "**", "<<", ">>", "&", "|", "^">>
CmpOps10 == <<"<", "<=", "==", "!=", ">", ">=", "is", "isnot", "in", "notin">>
UnOps4 == <<"-", "+", "~", "not">>
IV == <<VInt(0), VInt(1), VInt(2), VInt(3), VInt(-2)>>
Pow5(i) == 5^i
\* i-th (1-based) base-5 digit of v selects an int of the universe
PV(i, v) == IV[((v \div Pow5(i - 1)) % 5) + 1]
\* the universe: 0 1 2 3 -2 False True, a list, an object with one attribute; plus None, a string, 0.0 1.5 -0.5 -2.0, a set
UNIV == 16
ULeaf(id, u) == CASE u <= 5 -> Leaf(id, IV[u])
                  [] u = 6 -> Leaf(id, VBool(FALSE))
                  [] u = 7 -> Leaf(id, VBool(TRUE))
                  [] u = 8 -> LeafL(id)
                  [] u = 9 -> LeafO(id)
                  [] u = 10 -> Leaf(id, VNone)
                  [] u = 11 -> Leaf(id, VStr("p"))
                  [] u = 12 -> Leaf(id, VFloat(0, 1))
                  [] u = 13 -> Leaf(id, VFloat(3, 2))
                  [] u = 14 -> Leaf(id, VFloat(-1, 2))
                  [] u = 15 -> Leaf(id, VFloat(-2, 1))
                  [] u = 16 -> LeafS(id, <<VInt(1), VInt(id + 1)>>)      \* a set object {1, id + 1}: two such operands overlap without being equal
\* seeded subsets of 0..n-1 of size <= k
Pick(n, k, salt) == { ((Seed + salt) * 7919 + j * 104729) % n : j \in 0..(k - 1) }

\* ------------------------------------------------------------------------------ operator trees
\* any binary-position operator by index: 12 arithmetic, and/or, 6 comparisons
BinLike(b, x, y) == IF b <= 12 THEN Bin(Ops12[b], x, y)
                    ELSE IF b = 13 THEN BoolE("and", <<x, y>>)
                    ELSE IF b = 14 THEN BoolE("or", <<x, y>>)
                    ELSE Cmp(<<CmpOps10[b - 14]>>, <<x, y>>)
L3(t) == <<Leaf(1, PV(1, t)), Leaf(2, PV(2, t)), Leaf(3, PV(3, t))>>
L4(t) == <<Leaf(1, PV(1, t)), Leaf(2, PV(2, t)), Leaf(3, PV(3, t)), Leaf(4, PV(4, t))>>
PairTree(o1, o2, shape, t) == LET l == L3(t) IN
    IF shape = 1 THEN Bin(Ops12[o2], Bin(Ops12[o1], l[1], l[2]), l[3])
    ELSE Bin(Ops12[o1], l[1], Bin(Ops12[o2], l[2], l[3]))
TripleTree(o1, o2, o3, shape, t) ==
    LET l == L4(t)
        a == Ops12[o1]
        b == Ops12[o2]
        d == Ops12[o3]
    IN CASE shape = 1 -> Bin(d, Bin(b, Bin(a, l[1], l[2]), l[3]), l[4])          \* ((1 a 2) b 3) d 4
         [] shape = 2 -> Bin(d, Bin(a, l[1], Bin(b, l[2], l[3])), l[4])          \* (1 a (2 b 3)) d 4
         [] shape = 3 -> Bin(b, Bin(a, l[1], l[2]), Bin(d, l[3], l[4]))          \* (1 a 2) b (3 d 4)
         [] shape = 4 -> Bin(a, l[1], Bin(d, Bin(b, l[2], l[3]), l[4]))          \* 1 a ((2 b 3) d 4)
         [] shape = 5 -> Bin(a, l[1], Bin(b, l[2], Bin(d, l[3], l[4])))          \* 1 a (2 b (3 d 4))
UnMixTree(u, b, shape, t) == LET l == L3(t) IN
    CASE shape = 1 -> BinLike(b, Un(UnOps4[u], l[1]), l[2])
      [] shape = 2 -> Un(UnOps4[u], BinLike(b, l[1], l[2]))
      [] shape = 3 -> BinLike(b, l[1], Un(UnOps4[u], l[2]))

\* ------------------------------------------------------------------------------ truth-value forms
TV == <<VInt(0), VInt(1), VInt(2), VBool(FALSE), VBool(TRUE)>>
NTruth == 26
TruthTree(tpl, v1, v2, v3) ==
    LET x == Leaf(1, TV[v1])
        y == Leaf(2, TV[v2])
        z == Leaf(3, TV[v3])
        k0 == Leaf(4, VInt(0))
        k3 == Leaf(5, VInt(3))
    IN CASE tpl = 1 -> BoolE("or", <<BoolE("and", <<x, y>>), z>>)               \* x and y or z
         [] tpl = 2 -> BoolE("or", <<x, BoolE("and", <<y, z>>)>>)               \* x or y and z
         [] tpl = 3 -> BoolE("and", <<x, y, z>>)
         [] tpl = 4 -> BoolE("or", <<x, y, z>>)
         [] tpl = 5 -> BoolE("or", <<BoolE("and", <<Un("not", x), y>>), Un("not", z)>>)
         [] tpl = 6 -> IfE(x, y, z)
         [] tpl = 7 -> Cmp(<<"<", "<">>, <<x, y, z>>)
         [] tpl = 8 -> Cmp(<<"==", "!=">>, <<x, y, z>>)
         [] tpl = 9 -> Cmp(<<"<", ">">>, <<x, y, z>>)
         [] tpl = 10 -> Cmp(<<"in", "in">>, <<x, Lst(<<y>>), Lst(<<Lst(<<z>>)>>)>>)
         [] tpl = 11 -> BoolE("or", <<Cmp(<<"<">>, <<x, y>>), z>>)
         [] tpl = 12 -> IfE(x, y, IfE(z, k0, k3))                               \* x if y else z if e(4) else e(5)
         [] tpl = 13 -> BoolE("and", <<x, BoolE("or", <<y, z>>)>>)              \* x and (y or z)
         [] tpl = 14 -> BoolE("and", <<BoolE("or", <<x, y>>), z>>)              \* (x or y) and z
         [] tpl = 15 -> Un("not", BoolE("and", <<x, y>>))
         [] tpl = 16 -> Cmp(<<"<", "==">>, <<x, y, z>>)
         [] tpl = 17 -> Un("not", Cmp(<<"==">>, <<x, y>>))                      \* not x == y
         [] tpl = 18 -> IfE(x, Un("not", y), z)
         [] tpl = 19 -> IfE(IfE(x, y, z), k0, k3)                               \* (x if y else z) if e(4) else e(5)
         [] tpl = 20 -> IfE(BoolE("and", <<x, y>>), z, BoolE("or", <<k0, k3>>)) \* x and y if z else e(4) or e(5)
         [] tpl = 21 -> Cmp(<<"<=", ">=", "!=">>, <<x, y, z, k3>>)
         [] tpl = 22 -> BoolE("and", <<BoolE("and", <<x, y>>), z>>)             \* (x and y) and z
         [] tpl = 23 -> BoolE("or", <<x, BoolE("or", <<y, z>>)>>)               \* x or (y or z)
         [] tpl = 24 -> Cmp(<<"<">>, <<Cmp(<<"<">>, <<x, y>>), z>>)             \* (x < y) < z
         [] tpl = 25 -> Cmp(<<"<">>, <<x, Cmp(<<"<">>, <<y, z>>)>>)             \* x < (y < z)
         [] tpl = 26 -> BoolE("or", <<Cmp(<<"is">>, <<x, y>>), Cmp(<<"notin">>, <<z, Tup(<<k0, k3>>)>>)>>)
InCtx(ctx, e) == CASE ctx = 1 -> e [] ctx = 2 -> IfTest(e) [] ctx = 3 -> Un("not", e)

\* ------------------------------------------------------------------------------ all trees of depth <= 2
D2Arity(n) == IF n <= 9 THEN 2 ELSE IF n <= 11 THEN 1 ELSE 3
D2Ops == <<"+", "-", "*", "//", "**">>
CmpPairs == <<<<"<", "<">>, <<"<", "==">>, <<"==", "<">>, <<"==", "==">>>>
D2Node(n, x, y, z) ==
    CASE n <= 5 -> Bin(D2Ops[n], x, y)
      [] n = 6 -> BoolE("and", <<x, y>>)
      [] n = 7 -> BoolE("or", <<x, y>>)
      [] n = 8 -> Cmp(<<"<">>, <<x, y>>)
      [] n = 9 -> Cmp(<<"==">>, <<x, y>>)
      [] n = 10 -> Un("-", x)
      [] n = 11 -> Un("not", x)
      [] n = 12 -> IfE(x, y, z)
      [] OTHER -> Cmp(CmpPairs[n - 12], <<x, y, z>>)
D2Val(id, va) == IV[((id * (1 + (va % 4)) + (va \div 4)) % 5) + 1]
D2Child(n, pos, va) == IF n = 0 THEN Leaf(pos, D2Val(pos, va))
                       ELSE D2Node(n, Leaf(pos * 4 + 1, D2Val(pos * 4 + 1, va)), Leaf(pos * 4 + 2, D2Val(pos * 4 + 2, va)),
                                   Leaf(pos * 4 + 3, D2Val(pos * 4 + 3, va)))
D2Tree(root, c1, c2, c3, va) == D2Node(root, D2Child(c1, 1, va), D2Child(c2, 2, va), D2Child(c3, 3, va))
D2All(th) == { <<"d2", root, c1, c2, c3>> : root \in 1..16, c1 \in 0..16, c2 \in 0..16, c3 \in 0..16 }
D2Valid(d) == (D2Arity(d[2]) >= 2 \/ d[4] = 0) /\ (D2Arity(d[2]) >= 3 \/ d[5] = 0)
D2Index(d) == ((d[2] * 17 + d[3]) * 17 + d[4]) * 17 + d[5]

\* ------------------------------------------------------------------------------ forms
SP == Leaf(7, VStr("p"))
SQ == Leaf(8, VStr("q"))
SK == Leaf(9, VStr("k"))
IVX == <<VInt(0), VInt(1), VInt(2), VInt(3), VInt(-2), VBool(TRUE), VNone>>
PX(i, v) == IVX[((v \div (7^(i - 1))) % 7) + 1]          \* index-like operands: ints, True, None
NForm == 40
FormTree(tpl, v) ==
    LET e1 == Leaf(1, PV(1, v))
        e2 == Leaf(2, PV(2, v))
        e3 == Leaf(3, PV(3, v))
        e4 == Leaf(4, PV(4, v))
        e5 == Leaf(5, PV(5, v))
        x2 == Leaf(2, PX(1, v))
        x3 == Leaf(3, PX(2, v))
        x4 == Leaf(4, PX(3, v))
        F == Name("f")
        G == Name("g")
        X == Name("x")
        Y == Name("y")
    IN CASE tpl = 1 -> Call(F, <<APos(e1), APos(e2), AKw("k", e3)>>)
         [] tpl = 2 -> Call(F, <<APos(e1), AStar(Lst(<<e2>>)), AKw("k", e3)>>)
         [] tpl = 3 -> Call(F, <<AKw("k", e1), AStar(Lst(<<e2>>))>>)
         [] tpl = 4 -> Call(F, <<APos(e1), ADStar(DictD(<<SK>>, <<e2>>))>>)
         [] tpl = 5 -> Call(Call(G, <<APos(e1)>>), <<APos(e2)>>)
         [] tpl = 6 -> Lst(<<e1, e2, e3>>)
         [] tpl = 7 -> Tup(<<e1, e2, e3>>)
         [] tpl = 8 -> SetD(<<e1, e2, e3>>)
         [] tpl = 9 -> DictD(<<SP, SQ>>, <<e1, e2>>)
         [] tpl = 10 -> Idx(LeafL(1), x2)
         [] tpl = 11 -> Slc(LeafL(1), x2, x3, NoneN)
         [] tpl = 12 -> Slc(LeafL(1), x2, x3, x4)
         [] tpl = 13 -> Attr(LeafO(1))
         [] tpl = 14 -> Call(Lam(<<"x", "y">>, <<e1>>, Bin("+", X, Y)), <<APos(e2)>>)
         [] tpl = 15 -> Call(Lam(<<"x", "y">>, <<e1>>, Bin("-", X, Y)), <<APos(e2), AKw("y", e3)>>)
         [] tpl = 16 -> Call(Lam(<<"x">>, <<>>, Bin("*", e1, X)), <<APos(e2)>>)
         [] tpl = 17 -> Call(F, <<AStar(e1), ADStar(e2)>>)
         [] tpl = 18 -> Call(e1, <<APos(e2), AKw("k", e3)>>)
         [] tpl = 19 -> Call(F, <<APos(e1), AKw("m", e2), AStar(Tup(<<e3>>)), AKw("k", e4), ADStar(DictD(<<SP>>, <<e5>>))>>)
         [] tpl = 20 -> Idx(Idx(Lst(<<LeafL(1), e2>>), x3), x4)
         [] tpl = 21 -> Attr(Attr(LeafO(1)))
         [] tpl = 22 -> Call(Call(F, <<APos(e1)>>), <<APos(e2)>>)
         [] tpl = 23 -> Un("-", Idx(LeafL(1), x2))
         [] tpl = 24 -> Bin("**", Idx(LeafL(1), x2), e3)
         [] tpl = 25 -> Call(F, <<APos(IfE(e1, e2, e3)), AKw("k", BoolE("or", <<e4, e5>>))>>)
         [] tpl = 26 -> Idx(Tup(<<e1, e2>>), x3)
         [] tpl = 27 -> Slc(Lst(<<e1, e2>>), x3, x4, NoneN)
         [] tpl = 28 -> Lam(<<"x">>, <<e1>>, e2)
         [] tpl = 29 -> Call(Lam(<<>>, <<>>, e1), <<>>)
         [] tpl = 30 -> Idx(LeafL(1), Tup(<<e2, e3>>))
         [] tpl = 31 -> Idx(Idx(Call(F, <<APos(e1)>>), x2), x3)
         [] tpl = 32 -> Bin("+", Attr(LeafO(1)), Idx(LeafL(2), x3))
         [] tpl = 33 -> Idx(DictD(<<SP>>, <<e1>>), IF v % 2 = 0 THEN SQ ELSE Leaf(6, VStr("p")))
         [] tpl = 34 -> Cmp(<<"in">>, <<e1, Tup(<<e2, e3>>)>>)
         [] tpl = 35 -> Call(Call(G, <<AKw("x", e1)>>), <<APos(e2)>>)
         [] tpl = 36 -> Call(Lam(<<"x", "y">>, <<e1, e2>>, Tup(<<X, Y, e3>>)), <<AKw("y", e4)>>)
         [] tpl = 37 -> DictD(<<SP, SQ, Leaf(6, VStr("p"))>>, <<e1, e2, e3>>)
         [] tpl = 38 -> Slc(LeafL(1), NoneN, x2, x3)
         [] tpl = 39 -> Call(Attr(LeafO(1)), <<APos(e2)>>)
         [] tpl = 40 -> Bin("*", Lst(<<e1, e2>>), Un("-", Idx(LeafL(3), x4)))

\* ------------------------------------------------------------------------------ assignment shapes
NStmt == 40
\* [body, env0]; env0 = pre-bound names: <<name, leaf-like record>>
StmtProg(tpl, v) ==
    LET e1 == Leaf(1, PV(1, v))
        e2 == Leaf(2, PV(2, v))
        e3 == Leaf(3, PV(3, v))
        e4 == Leaf(4, PV(4, v))
        e5 == Leaf(5, PV(5, v))
        x2 == Leaf(2, PX(1, v))
        x3 == Leaf(3, PX(2, v))
        A == Name("a")
        B == Name("b")
        C == Name("c")
        I == Name("i")
        op == Ops12[(v % 12) + 1]
        sop == <<"|", "&", "-", "^">>[(v % 4) + 1]
        S1(id) == LeafS(id, <<VInt(1), VInt(2)>>)
        S2(id) == LeafS(id, <<VInt(2), VInt(3)>>)
        none == <<>>
        P(b, env) == [body |-> b, env0 |-> env]
    IN CASE tpl = 1 -> P(Assign(<<A, B>>, e1), none)
         [] tpl = 2 -> P(Assign(<<Idx(LeafL(1), x2)>>, e3), none)
         [] tpl = 3 -> P(Assign(<<Attr(LeafO(1))>>, e2), none)
         [] tpl = 4 -> P(Assign(<<Tup(<<A, B>>)>>, Tup(<<e1, e2>>)), none)
         [] tpl = 5 -> P(Assign(<<Tup(<<Idx(LeafL(1), x2), Attr(LeafO(3))>>)>>, Tup(<<e4, e5>>)), none)
         [] tpl = 6 -> P(Aug("+", Idx(LeafL(1), x2), e3), none)
         [] tpl = 7 -> P(Aug("+", Attr(LeafO(1)), e2), none)
         [] tpl = 8 -> P(Assign(<<Slc(LeafL(1), x2, x3, NoneN)>>, Lst(<<e4>>)), none)
         [] tpl = 9 -> P(Assign(<<A, Idx(LeafL(1), x2)>>, e3), none)
         [] tpl = 10 -> P(Aug(op, A, e1), <<<<"a", Leaf(90, VInt(2))>>>>)
         [] tpl = 11 -> P(Assign(<<I, Idx(LeafL(1), I)>>, e2), <<<<"i", Leaf(90, VInt(0))>>>>)
         [] tpl = 12 -> P(Assign(<<Tup(<<Idx(LeafL(1), I), I>>)>>, Tup(<<e2, e3>>)), <<<<"i", Leaf(90, VInt(0))>>>>)
         [] tpl = 13 -> P(Assign(<<Tup(<<A, Tup(<<B, C>>)>>)>>, Tup(<<e1, Tup(<<e2, e3>>)>>)), none)
         [] tpl = 14 -> P(Assign(<<Lst(<<A, B>>)>>, Slc(LeafL(1), x2, x3, NoneN)), none)
         [] tpl = 15 -> P(Assign(<<Tup(<<A, B>>)>>, e1), none)
         [] tpl = 16 -> P(Assign(<<Tup(<<Attr(LeafO(1)), Idx(LeafL(2), x3)>>)>>, LeafL(4)), none)
         [] tpl = 17 -> P(Aug(op, Idx(LeafL(1), x2), e3), none)
         [] tpl = 18 -> P(Aug(op, Attr(LeafO(1)), e2), none)
         [] tpl = 19 -> P(Aug("-", Idx(Lst(<<e1, e2>>), x3), e4), none)
         [] tpl = 20 -> P(Aug("+", A, e1), none)
         [] tpl = 21 -> P(Assign(<<A, B, C>>, Tup(<<e1, e2>>)), none)
         [] tpl = 22 -> P(Assign(<<Attr(e1)>>, e2), none)
         [] tpl = 23 -> P(Aug("+", A, Lst(<<e1, e2>>)), <<<<"a", LeafL(90)>>>>)
         [] tpl = 24 -> P(Assign(<<Idx(Idx(LeafL(1), x2), x3)>>, e4), none)
         [] tpl = 25 -> P(Assign(<<Idx(Call(Name("f"), <<APos(e1)>>), x2)>>, e3), none)
         [] tpl = 26 -> P(Assign(<<Slc(LeafL(1), x2, x3, NoneN)>>, e4), none)
         [] tpl = 27 -> P(Assign(<<A>>, IfE(e1, e2, e3)), none)
         [] tpl = 28 -> P(Assign(<<A, Tup(<<B, C>>)>>, Tup(<<e1, e2>>)), none)
         [] tpl = 29 -> P(Assign(<<Attr(LeafO(1)), Attr(LeafO(2)), A>>, BoolE("or", <<e3, e4>>)), none)
         [] tpl = 30 -> P(Aug(op, Idx(LeafL(1), BoolE("and", <<x2, x3>>)), Bin("-", e4, e5)), none)
         [] tpl = 31 -> P(Aug("+", Attr(Idx(Lst(<<LeafO(1), LeafO(2)>>), x3)), e4), none)
         [] tpl = 32 -> P(Assign(<<Idx(LeafL(1), x2), Idx(LeafL(6), Leaf(7, PX(1, v)))>>, Cmp(<<"<", "<">>, <<e3, e4, e5>>)), none)
         [] tpl = 33 -> P(Aug("*", A, e1), <<<<"a", Leaf(90, VBool(TRUE))>>>>)
         [] tpl = 34 -> P(Assign(<<Tup(<<A, B>>), Lst(<<C, Idx(LeafL(1), x2)>>)>>, Tup(<<e3, e4>>)), none)
         \* in-place set operators: the target keeps ITS object (updated), the right operand keeps its contents
         [] tpl = 35 -> P(Aug(sop, A, B), <<<<"a", S1(90)>>, <<"b", S2(91)>>>>)
         [] tpl = 36 -> P(Aug(sop, A, S2(1)), <<<<"a", S1(90)>>, <<"c", S1(90)>>>>)
         [] tpl = 37 -> P(Aug(sop, Idx(Lst(<<S1(1), S2(2)>>), x3), S2(4)), none)
         [] tpl = 38 -> P(Aug(sop, A, A), <<<<"a", S1(90)>>>>)
         [] tpl = 39 -> P(Assign(<<A>>, Bin(sop, B, C)), <<<<"b", S1(90)>>, <<"c", S2(91)>>>>)
         [] tpl = 40 -> P(Aug(sop, A, e1), <<<<"a", S1(90)>>>>)

\* ------------------------------------------------------------------------------ random trees (PyExprSim)
\* tape[pos + 1] decides the node at tree position pos (children of pos: 4 pos + 1 .. 4 pos + 3)
SimVals == <<VInt(0), VInt(1), VInt(2), VInt(3), VInt(-2), VBool(FALSE), VBool(TRUE)>>
CmpOps6 == <<"<", "<=", "==", "!=", ">", ">=">>
RECURSIVE SimNode(_, _, _)
SimNode(pos, depth, tape) ==
    LET x == tape[pos + 1]
        kind == (x \div 4) % 24
        o1 == CmpOps6[((x \div 96) % 6) + 1]
        o2 == CmpOps6[((x \div 7) % 6) + 1]
        A == SimNode(4 * pos + 1, depth - 1, tape)
        B == SimNode(4 * pos + 2, depth - 1, tape)
        C == SimNode(4 * pos + 3, depth - 1, tape)
    IN IF depth = 0 \/ x % 4 = 0 THEN Leaf(pos + 1, SimVals[((x \div 4) % 7) + 1])
       ELSE CASE kind <= 11 -> Bin(Ops12[kind + 1], A, B)
              [] kind = 12 -> BoolE("and", <<A, B>>)
              [] kind = 13 -> BoolE("or", <<A, B>>)
              [] kind = 14 -> Cmp(<<o1>>, <<A, B>>)
              [] kind = 15 -> Cmp(<<o1, o2>>, <<A, B, C>>)
              [] kind = 16 -> Un("-", A)
              [] kind = 17 -> Un("not", A)
              [] kind = 18 -> IfE(A, B, C)
              [] kind = 19 -> Idx(Tup(<<A, B>>), C)
              [] kind = 20 -> Idx(Lst(<<A, B, C>>), Leaf(pos + 65, SimVals[((x \div 96) % 5) + 1]))
              [] kind = 21 -> Un("~", A)
              [] kind = 22 -> BoolE(IF x % 8 < 4 THEN "and" ELSE "or", <<A, B, C>>)
              [] kind = 23 -> Idx(Call(Name("f"), <<APos(A), AKw("k", B)>>), C)
SimTapeLen == 64
SimRange == 0..575

\* ------------------------------------------------------------------------------ the case space
PrimCases(th) ==
    { <<"prim", 1, o, a, b>> : o \in 1..22, a \in 1..UNIV, b \in 1..UNIV }        \* binary and comparison operators
    \cup { <<"prim", 2, o, a, 0>> : o \in 1..5, a \in 1..UNIV }                     \* unary operators, attribute
    \cup { <<"prim", 3, 0, a, b>> : a \in 1..UNIV, b \in 1..UNIV }                  \* subscript
PairCases(th) == { <<"pair", o1, o2, sh, t>> : o1 \in 1..12, o2 \in 1..12, sh \in 1..2,
                                            t \in IF th THEN 0..124 ELSE Pick(125, 4, 1) }
TripleOps(th) == IF th THEN 1..12 ELSE 1..8
TripleCases(th) == { <<"triple", o1, o2, o3, sh, t>> : o1 \in TripleOps(th), o2 \in TripleOps(th), o3 \in TripleOps(th), sh \in 1..5,
                                                    t \in Pick(625, IF th THEN 3 ELSE 1, 2) }
UnMixCases(th) == { <<"unmix", u, b, sh, t>> : u \in 1..4, b \in 1..20, sh \in 1..3, t \in Pick(125, IF th THEN 8 ELSE 2, 3) }
TruthCases(th) == { <<"truth", tpl, v1, v2, v3, ctx>> : tpl \in 1..NTruth, v1 \in 1..(IF th THEN 5 ELSE 3),
                                                     v2 \in 1..(IF th THEN 5 ELSE 3), v3 \in 1..(IF th THEN 5 ELSE 3), ctx \in 1..3 }
D2Cases(th) == { d \o <<va>> : d \in { x \in D2All(th) : D2Valid(x) /\ (th \/ D2Index(x) % 16 = Seed % 16) },
                          va \in IF th THEN {Seed % 16, (Seed + 5) % 16} ELSE {Seed % 16} }
FormCases(th) == { <<"form", tpl, v>> : tpl \in 1..NForm, v \in Pick(16807, IF th THEN 60 ELSE 6, 4) }
StmtCases(th) == { <<"stmt", tpl, v>> : tpl \in 1..NStmt, v \in Pick(16807, IF th THEN 80 ELSE 8, 5) }
Cases(th) == (IF "prim" \in Fams THEN PrimCases(th) ELSE {}) \cup (IF "pair" \in Fams THEN PairCases(th) ELSE {})
         \cup (IF "triple" \in Fams THEN TripleCases(th) ELSE {}) \cup (IF "unmix" \in Fams THEN UnMixCases(th) ELSE {})
         \cup (IF "truth" \in Fams THEN TruthCases(th) ELSE {}) \cup (IF "d2" \in Fams THEN D2Cases(th) ELSE {})
         \cup (IF "form" \in Fams THEN FormCases(th) ELSE {}) \cup (IF "stmt" \in Fams THEN StmtCases(th) ELSE {})

\* program of a descriptor: [body, env0, isStmt]
Prog(d) ==
    LET E(b) == [body |-> b, env0 |-> <<>>, isStmt |-> b.k \in {"assign", "aug", "iftest"}] IN
    CASE d[1] = "prim" ->
           (CASE d[2] = 1 -> E(BinLike(IF d[3] <= 12 THEN d[3] ELSE d[3] + 2, ULeaf(1, d[4]), ULeaf(2, d[5])))
              [] d[2] = 2 -> E(IF d[3] = 5 THEN Attr(ULeaf(1, d[4])) ELSE Un(UnOps4[d[3]], ULeaf(1, d[4])))
              [] d[2] = 3 -> E(Idx(ULeaf(1, d[4]), ULeaf(2, d[5]))))
      [] d[1] = "pair" -> E(PairTree(d[2], d[3], d[4], d[5]))
      [] d[1] = "triple" -> E(TripleTree(d[2], d[3], d[4], d[5], d[6]))
      [] d[1] = "unmix" -> E(UnMixTree(d[2], d[3], d[4], d[5]))
      [] d[1] = "truth" -> E(InCtx(d[6], TruthTree(d[2], d[3], d[4], d[5])))
      [] d[1] = "d2" -> E(D2Tree(d[2], d[3], d[4], d[5], d[6]))
      [] d[1] = "form" -> E(FormTree(d[2], d[3]))
      [] d[1] = "stmt" -> LET p == StmtProg(d[2], d[3]) IN [body |-> p.body, env0 |-> p.env0, isStmt |-> TRUE]
      [] d[1] = "sim" -> E(SimNode(0, d[2], d[3]))

\* ------------------------------------------------------------------------------ evaluation and output of one case
RECURSIVE SortedIds(_)
SortedIds(S) == IF S = {} THEN <<>> ELSE LET m == CHOOSE x \in S : \A y \in S : x <= y IN <<m>> \o SortedIds(S \ {m})

CaseOf(d) ==
    LET p == Prog(d)
        leaves == LeavesOf(p.body) \o [i \in 1..Len(p.env0) |-> p.env0[i][2]]
        refIds == { leaves[i].id : i \in { j \in 1..Len(leaves) : leaves[j].v.t = "ref" } }
        heap0 == [id \in refIds |-> leaves[CHOOSE j \in 1..Len(leaves) : leaves[j].id = id].h]
        bound == { p.env0[i][1] : i \in 1..Len(p.env0) }
        env0 == [nm \in {"f", "g"} \cup bound |->
                   IF nm = "f" THEN VFn(1, <<>>) ELSE IF nm = "g" THEN VFn(2, <<>>)
                   ELSE p.env0[CHOOSE i \in 1..Len(p.env0) : p.env0[i][1] = nm][2].v]
        st0 == [env |-> env0, heap |-> heap0]
        outs == IF p.isStmt THEN Exec(p.body, st0) ELSE Eval(p.body, st0)
        skip == \E o \in outs : o.exc = "SKIP"
        leafLog(o) == SelectSeq(o.log, LAMBDA x : x < MarkF)
        orders == Orders(p.body)
        must == Must(p.body)
        metaOk == \A o \in outs :
                     /\ NoDup(leafLog(o))                                              \* at most once
                     /\ \E ord \in orders : IsSubseq(leafLog(o), ord)                   \* left to right, rhs before targets
                     /\ (o.exc = "" => must \subseteq { leafLog(o)[i] : i \in 1..Len(leafLog(o)) })   \* exactly once unless skipped by a short circuit
        allSg == UNION { o.sg : o \in outs }
        names(o) == SelectSeq(NameOrder, LAMBDA nm : nm \in DOMAIN o.env)
        outJ(o) == IF p.isStmt
                   THEN [log |-> o.log, exc |-> o.exc,
                         env |-> [i \in 1..Len(names(o)) |-> <<names(o)[i], J(o.env[names(o)[i]])>>],
                         heap |-> LET ids == SortedIds(DOMAIN o.heap) IN [i \in 1..Len(ids) |-> <<ids[i], J(o.heap[ids[i]])>>]]
                   ELSE [log |-> o.log, exc |-> o.exc, val |-> J(o.val)]
        \* one table entry per leaf id (two pre-bound names may share one leaf: aliases)
        lids == SortedIds({ leaves[i].id : i \in 1..Len(leaves) })
        leafOf(id) == leaves[CHOOSE j \in 1..Len(leaves) : leaves[j].id = id]
        vt == [i \in 1..Len(lids) |-> <<lids[i], IF leafOf(lids[i]).v.t = "ref" THEN J(leafOf(lids[i]).h) ELSE J(leafOf(lids[i]).v)>>]
    IN [res |-> IF skip THEN "skip" ELSE IF metaOk THEN "ok" ELSE "badmeta",
        rec |-> IF skip THEN [fam |-> d[1], skip |-> TRUE, d |-> d]
                ELSE [fam |-> d[1], skip |-> FALSE, d |-> d, stmt |-> p.isStmt, src |-> Render(p.body), dump |-> Dump(p.body, p.isStmt),
                      vt |-> vt, init |-> [i \in 1..Len(p.env0) |-> <<p.env0[i][1], p.env0[i][2].id>>],
                      outs |-> { outJ(o) : o \in outs }, sigs |-> allSg,
                      cls |-> IF d[1] = "prim" /\ Cardinality(allSg) = 1 THEN CHOOSE s \in allSg : TRUE ELSE ""]]

Init == c \in Cases(Thorough) /\ res = "todo"
Next == /\ res = "todo"
        /\ LET r == CaseOf(c) IN res' = r.res /\ PrintT(ToJson(r.rec))
        /\ UNCHANGED c
Spec == Init /\ [][Next]_<<c, res>>
MetaOK == res # "badmeta"
====================================================================================
