//go:build verif

// C20: line-at-a-time interactive input is equivalent to running the file.
//
//  1. TLC checks the clauses of C20 on spec/C20/PyRepl.tla (each item runs exactly once and in
//     order, never before it is complete, the prompt clauses, echo) over every session of the
//     tier's length from the descriptor alphabet, and prints every session with its physical lines.
//  2. T-binding: each session is fed line by line to a real repl.REPL (recording UI, per-context
//     stdout capture, stderr watched); after every line the prompt, the echoed text, the error
//     report and the tracked names (n, f, _) are recorded.  TLC validates the recorded sessions
//     against PyReplTrace, inferring at which line each multi-line statement ran.
//  3. Equivalence: the same statements executed one by one in exec mode, and (for sessions that
//     run as a file without error) the concatenated lines run with py.RunFile, must leave the
//     namespace TLC printed for the session.
//
// The harness holds no expectation: lines, allowed observations and final namespaces come from TLC.
package main

import (
	"encoding/json"
	"fmt"
	"os"
	"path/filepath"
	"sort"
	"strings"
	"sync"
	"sync/atomic"
	"time"

	"gpverif/common"
	"gpverif/pyrun"

	"github.com/go-python/gpython/py"
	"github.com/go-python/gpython/repl"
)

type Item struct {
	Kind  string   `json:"kind"`
	Lines []string `json:"lines"`
	C     int      `json:"c"`
}
type Session struct {
	Items []Item `json:"items"`
	Final struct {
		N int  `json:"n"`
		F bool `json:"f"`
	} `json:"final"`
	AsFile bool `json:"asfile"`
}

// one event per fed line (short keys: the file is large)
type Event struct {
	Kd string `json:"kd"`
	K  int    `json:"k"`
	P  string `json:"p"`
	O  string `json:"o"`
	E  bool   `json:"e"`
	N  int    `json:"n"`
	F  bool   `json:"f"`
	U  string `json:"u"`
	// not part of the trace: for naming a divergence
	line  string
	m, c  int
	panic string
}

type ui struct {
	prompt string
	prints []string
}

func (u *ui) SetPrompt(p string) { u.prompt = p }
func (u *ui) Print(s string)     { u.prints = append(u.prints, s) }

func (s *Session) key() string {
	var k []string
	for _, it := range s.Items {
		k = append(k, it.Kind)
	}
	return strings.Join(k, " ")
}

var stderrFile *os.File

func stderrSize() int64 {
	fi, err := stderrFile.Stat()
	if err != nil {
		return 0
	}
	return fi.Size()
}

func lookup(m *py.Module, ctx py.Context, name string) py.Object {
	if v, ok := m.Globals[name]; ok {
		return v
	}
	if v, ok := ctx.Store().Builtins.Globals[name]; ok {
		return v
	}
	return nil
}

func counterOf(g py.StringDict) int {
	if v, ok := g["n"].(py.Int); ok {
		return int(v)
	}
	return -1
}

// interactive drives a real REPL through the session, line by line
func interactive(dir string, s *Session) []Event {
	c := pyrun.New(dir)
	defer c.Close()
	r := repl.New(c.Ctx)
	u := &ui{}
	r.SetUI(u)
	var evs []Event
	for _, it := range s.Items {
		for li, line := range it.Lines {
			u.prints = nil
			c.Out.Reset()
			before := stderrSize()
			pan := ""
			func() {
				defer func() {
					if e := recover(); e != nil {
						pan = fmt.Sprint(e)
					}
				}()
				r.Run(line)
			}()
			ev := Event{Kd: it.Kind, K: li + 1, P: u.prompt, O: strings.Join(u.prints, "\n") + c.Out.String(), E: stderrSize() > before,
				N: counterOf(r.Module.Globals), U: "unset", line: line, m: len(it.Lines), c: it.C, panic: pan}
			_, ev.F = r.Module.Globals["f"]
			if v := lookup(r.Module, c.Ctx, "_"); v != nil {
				ev.U = pyrun.Repr(v)
			}
			if pan != "" {
				ev.P = "PANIC"
			}
			evs = append(evs, ev)
		}
	}
	return evs
}

type finalNs struct {
	N int
	F bool
}

// oneByOne executes each item's text as its own exec-mode unit in one persistent namespace
func oneByOne(dir string, s *Session) (finalNs, string) {
	c := pyrun.New(dir)
	defer c.Close()
	c.Exec("pass\n", 5*time.Second)
	for _, it := range s.Items {
		r := c.Exec(strings.Join(it.Lines, "\n")+"\n", 10*time.Second)
		if r.Panic != "" || r.TimedOut {
			return finalNs{}, r.Outcome()
		}
	}
	f := finalNs{N: counterOf(c.Mod.Globals)}
	_, f.F = c.Mod.Globals["f"]
	return f, ""
}

// asFile writes all lines to a file and runs it with py.RunFile
func asFile(dir string, s *Session) (finalNs, string) {
	var all []string
	for _, it := range s.Items {
		all = append(all, it.Lines...)
	}
	path := filepath.Join(dir, "session.py")
	if err := os.WriteFile(path, []byte(strings.Join(all, "\n")+"\n"), 0o644); err != nil {
		common.Inconclusive("property=C20 cannot write %s: %v", path, err)
	}
	c := pyrun.New(dir)
	defer c.Close()
	var mod *py.Module
	res := pyrun.Guard(20*time.Second, func() error {
		var err error
		// by relative path from the working directory (the scratch directory): RunFile joins "." with the name
		mod, err = py.RunFile(c.Ctx, filepath.Join("repl", filepath.Base(dir), "session.py"), py.CompileOpts{}, nil)
		return err
	})
	if res.Outcome() != "ok" || mod == nil {
		return finalNs{}, res.Outcome()
	}
	f := finalNs{N: counterOf(mod.Globals)}
	_, f.F = mod.Globals["f"]
	return f, ""
}

// ---------------------------------------------------------------------------------------
// naming a divergence by the model's case partition

var labels = map[string]string{
	"init": "assignment", "inc": "assignment", "echo": "expression", "none": "None-expression", "under": "underscore-expression",
	"call": "call-of-session-function", "comment": "comment-line", "empty": "empty-line", "ws": "blank-with-spaces",
	"serr": "syntax-error", "rerr": "runtime-error", "cinc": "if-block", "nest": "nested-blocks", "loop": "for-block",
	"else": "if-else-block", "cmt": "block-with-comment-line", "cecho": "block-with-expression", "def": "def-block",
	"rerrc": "block-with-runtime-error", "serrc": "block-with-syntax-error", "ml": "bracket-continued",
	"mlc": "bracket-continued-with-comment-line", "mls": "triple-quoted-string", "bs": "backslash-continued",
	"mle": "bracket-continued-with-empty-line", "mlse": "triple-quoted-string-with-empty-line",
	"mlsw": "triple-quoted-string-with-blank-line", "cstr": "block-with-string-with-empty-line",
	"icomment": "indented-comment-line", "tcomment": "tab-indented-comment-line",
	"semi": "two-statements-one-line", "semiecho": "expression-and-assignment-one-line", "indented": "indented-at-primary-prompt",
	"trail": "trailing-comment", "trailws": "trailing-whitespace", "pass": "pass", "oneline": "one-line-compound",
	"tryexc": "try-except-block", "tryfin": "try-finally-block", "elif": "if-elif-else-block", "tabblk": "tab-indented-block",
	"while": "while-else-block", "mlsh": "triple-quoted-string-with-hash-line",
}

// generated block items are named by their header and body codes (spec: BName), e.g. Bif:iwi
func labelOf(kd string) string {
	if lab := labels[kd]; lab != "" {
		return lab
	}
	if strings.HasPrefix(kd, "B") {
		return "generated-block(" + kd[1:] + ")"
	}
	return kd
}

func lineRole(e *Event) string {
	switch {
	case e.m == 1:
		return ""
	case e.K == e.m:
		return ":terminating-blank-line"
	case e.K == e.c:
		return ":completing-line"
	case e.K == 1:
		return ":first-line"
	}
	return ":inner-line"
}

func valueClass(u string) string {
	switch {
	case u == "unset" || u == "None":
		return u
	case strings.HasPrefix(u, "'"):
		return "str"
	}
	return "int"
}

func divergenceKey(prev, e *Event, fields []string) string {
	lab := labelOf(e.Kd)
	var parts []string
	sort.Strings(fields)
	for _, f := range fields {
		switch f {
		case "p":
			switch e.P {
			case repl.ContinuationPrompt:
				parts = append(parts, "prompt=continuation")
			case repl.NormalPrompt:
				parts = append(parts, "prompt=primary")
			default:
				parts = append(parts, "prompt="+common.TrimKey(e.P, 12))
			}
		case "n":
			d := e.N
			if prev != nil {
				d = e.N - prev.N
			}
			parts = append(parts, fmt.Sprintf("counter%+d", d))
		case "f":
			parts = append(parts, fmt.Sprintf("f-defined=%v", e.F))
		case "u":
			parts = append(parts, "_="+valueClass(e.U))
		case "x":
			parts = append(parts, "not run by its last line")
		case "o":
			if e.O == "" && !e.E {
				parts = append(parts, "echo-or-report=none")
			} else if e.E {
				parts = append(parts, "echo-or-report=stderr")
			} else {
				parts = append(parts, "echo-or-report=text")
			}
		}
	}
	pending := "nothing pending"
	if e.K < e.c {
		pending = "statement incomplete"
	}
	parts = append(parts, pending)
	return "C20|Feed(" + lab + lineRole(e) + ")|" + strings.Join(parts, ",")
}

// ---------------------------------------------------------------------------------------

func tracesFile(evs [][]Event, idx []int) string {
	var b strings.Builder
	for _, i := range idx {
		j, _ := json.Marshal(map[string]interface{}{"ev": evs[i]})
		b.Write(j)
		b.WriteByte('\n')
	}
	return b.String()
}

func main() {
	env := common.Setup()
	rep := common.NewReport(env, "model_checking")
	rep.Rule = "a case is one interactive session: the sequence of item kinds (statement descriptors of spec/C20/PyRepl.tla) after the initial n = 0; " +
		"sessions are distinct when their kind sequences differ; every session feeds at least two statements, so none is trivial"
	rep.Assumptions = []string{
		"TLC and the CommunityModules Json module are correct",
		"the REPL is driven through repl.REPL.Run with a recording UI; stderr output (tracebacks) is observed as 'something was reported', never its text",
		"sessions are driven one at a time: repl.REPL.Run swaps the process-wide vm.PrintExpr",
	}
	dir := filepath.Join(env.Scratch, "repl")
	os.MkdirAll(dir, 0o755)
	var err error
	stderrFile, err = os.Create(filepath.Join(env.Scratch, "stderr.txt"))
	if err != nil {
		common.Inconclusive("property=C20 %v", err)
	}
	realStderr := os.Stderr

	// 1. model checking + generation
	var sessions []*Session
	seen := map[string]bool{}
	collect := func(b []byte) {
		s := &Session{}
		if json.Unmarshal(b, s) != nil || len(s.Items) < 2 {
			common.Inconclusive("property=C20 unreadable session from TLC: %.200s", b)
		}
		if k := s.key(); !seen[k] {
			seen[k] = true
			sessions = append(sessions, s)
		}
	}
	genInfo := map[string]interface{}{}
	if env.Replay != "" {
		// re-run the one session of a recorded divergence (its lines and reference namespace came from TLC)
		b, err := os.ReadFile(env.Replay)
		var f struct {
			Case struct {
				Replay json.RawMessage `json:"replay_session"`
			} `json:"case"`
		}
		if err != nil || json.Unmarshal(b, &f) != nil || len(f.Case.Replay) == 0 {
			common.Inconclusive("property=C20 replay file %s holds no session: %v", env.Replay, err)
		}
		collect(f.Case.Replay)
	}
	gen := func(name, cfg, simulate string, depth int) {
		res := env.MustTLC(common.TLCRun{Dir: "C20", Module: "MCGen", Config: cfg, Simulate: simulate, Depth: depth, Seed: env.Seed,
			Timeout: 25 * time.Minute, OnLine: collect})
		if len(res.Violations) > 0 || !res.Finished {
			common.Inconclusive("property=C20 the model itself fails (%s): %v\n%s", cfg, res.Violations, res.Stdout)
		}
		if simulate == "" {
			rep.AddTLC(res)
		}
		genInfo[name] = map[string]interface{}{"states": res.Distinct, "sessions_total": len(sessions), "wall_s": res.Wall.Seconds()}
		fmt.Printf("generation %s: %d states, %d sessions so far, TLC %.1fs (at %.1fs)\n", name, res.Distinct, len(sessions), res.Wall.Seconds(), time.Since(env.Start).Seconds())
	}
	if env.Replay != "" {
		// nothing to generate
	} else if os.Getenv("VERIF_C20_DEV") != "" {
		gen("dev", "gen_dev.cfg", "", 0)
	} else if env.Thorough() {
		gen("exhaustive2", "gen_dev.cfg", "", 0)
		gen("exhaustive3", "gen_quick.cfg", "", 0)
		gen("exhaustive4core", "gen_thorough.cfg", "", 0)
		gen("blocks2", "gen_blocks.cfg", "", 0)
		// -simulate generates num walks per worker; every walk prints exactly one session
		gen("random6", "gen_sim.cfg", fmt.Sprintf("num=%d", 6000/env.Workers+1), 60)
	} else {
		// quick: every session of 2 items over the whole fixed alphabet, of 3 items over the core alphabet, and every
		// generated block item followed by a probe
		gen("exhaustive2", "gen_dev.cfg", "", 0)
		gen("exhaustive3core", "gen_core3.cfg", "", 0)
		gen("blocks-probe", "gen_blocks_quick.cfg", "", 0)
	}
	if len(sessions) == 0 {
		common.Inconclusive("property=C20 no session generated")
	}
	sort.Slice(sessions, func(i, j int) bool { return sessions[i].key() < sessions[j].key() })

	// 2. drive the real REPL (serially) and record
	os.Stderr = stderrFile
	evs := make([][]Event, len(sessions))
	var lines int64
	kindSeen := map[string]int{}
	for i, s := range sessions {
		evs[i] = interactive(dir, s)
		lines += int64(len(evs[i]))
		for _, it := range s.Items {
			kindSeen[it.Kind]++
		}
		if i%500 == 0 {
			stderrFile.Truncate(0)
			stderrFile.Seek(0, 0)
		}
	}
	os.Stderr = realStderr
	fmt.Printf("recorded %d sessions, %d lines (at %.1fs)\n", len(sessions), lines, time.Since(env.Start).Seconds())

	// 4. equivalence with executing the statements one by one / running the file; runs while TLC validates the traces
	//    (exec mode never touches the REPL's process-wide print hook, so these runs go in parallel)
	var nFile, nOne int64
	equivDone := make(chan struct{})
	go func() {
		defer close(equivDone)
		var wg sync.WaitGroup
		jobs := make(chan *Session, 256)
		for w := 0; w < env.Workers; w++ {
			wdir := filepath.Join(dir, fmt.Sprintf("w%d", w))
			os.MkdirAll(wdir, 0o755)
			wg.Add(1)
			go func() {
				defer wg.Done()
				for s := range jobs {
					want := finalNs{s.Final.N, s.Final.F}
					got, bad := oneByOne(wdir, s)
					atomic.AddInt64(&nOne, 1)
					if bad != "" || got != want {
						rep.Violation("C20|Equivalence(one by one in exec mode)|"+equivClass(want, got, bad), map[string]interface{}{"replay_session": s, "session": s.key(), "model_final": want, "observed_final": got, "outcome": bad})
					}
					if s.AsFile {
						got, bad := asFile(wdir, s)
						atomic.AddInt64(&nFile, 1)
						if bad != "" || got != want {
							rep.Violation("C20|Equivalence(py.RunFile)|"+equivClass(want, got, bad), map[string]interface{}{"replay_session": s, "session": s.key(), "model_final": want, "observed_final": got, "outcome": bad})
						}
					}
				}
			}()
		}
		for _, s := range sessions {
			jobs <- s
		}
		close(jobs)
		wg.Wait()
	}()

	// 3. trace validation: accepted sessions first, then the place of the divergence for the rest
	all := make([]int, len(sessions))
	for i := range all {
		all[i] = i
	}
	accepted := map[int]bool{}
	res := env.MustTLC(common.TLCRun{Dir: "C20", Module: "PyReplTrace", Config: "trace.cfg", Extra: map[string]string{"traces.ndjson": tracesFile(evs, all)},
		Timeout: 25 * time.Minute, OnLine: func(b []byte) {
			var a struct {
				Acc int `json:"acc"`
			}
			if json.Unmarshal(b, &a) == nil && a.Acc > 0 {
				accepted[a.Acc-1] = true
			}
		}})
	if !res.Finished || len(res.Violations) > 0 {
		common.Inconclusive("property=C20 trace validation did not finish: %v\n%s", res.Violations, res.Stdout)
	}
	rep.AddTLC(res)
	fmt.Printf("trace validation: %d of %d sessions accepted, TLC %.1fs (at %.1fs)\n", len(accepted), len(sessions), res.Wall.Seconds(), time.Since(env.Start).Seconds())
	var rejected []int
	for i := range sessions {
		if !accepted[i] {
			rejected = append(rejected, i)
		}
	}
	if len(rejected) > 0 {
		type prog struct {
			T   int      `json:"t"`
			L   int      `json:"l"`
			Bad []string `json:"bad"`
		}
		far := map[int]*prog{}
		res := env.MustTLC(common.TLCRun{Dir: "C20", Module: "PyReplTrace", Config: "trace_progress.cfg",
			Extra: map[string]string{"traces.ndjson": tracesFile(evs, rejected)}, Timeout: 25 * time.Minute, OnLine: func(b []byte) {
				p := &prog{}
				if json.Unmarshal(b, p) != nil || p.T == 0 {
					return
				}
				q := far[p.T-1]
				// the furthest position any explanation reaches; among those the one with the fewest fields unexplained
				if q == nil || p.L > q.L || (p.L == q.L && weight(p.Bad) < weight(q.Bad)) {
					far[p.T-1] = p
				}
			}})
		if !res.Finished {
			common.Inconclusive("property=C20 locating divergences did not finish\n%s", res.Stdout)
		}
		fmt.Printf("divergences located in %d rejected sessions, TLC %.1fs (at %.1fs)\n", len(rejected), res.Wall.Seconds(), time.Since(env.Start).Seconds())
		for ri, si := range rejected {
			p := far[ri]
			if p == nil || p.L < 2 || p.L-1 > len(evs[si]) {
				common.Inconclusive("property=C20 no position reported for rejected session %q", sessions[si].key())
			}
			e := &evs[si][p.L-2] // the event whose observation no behaviour of the model explains
			var prev *Event
			if p.L >= 3 {
				prev = &evs[si][p.L-3]
			}
			key := divergenceKey(prev, e, p.Bad)
			if e.panic != "" {
				key = "C20|Feed(" + labelOf(e.Kd) + lineRole(e) + ")|panic"
			}
			if len(p.Bad) == 0 {
				key = "C20|Feed(" + labelOf(e.Kd) + lineRole(e) + ")|next line cannot follow"
			}
			var fed []string
			for _, x := range evs[si][:p.L-1] {
				fed = append(fed, x.line)
			}
			rep.Violation(key, map[string]interface{}{"replay_session": sessions[si], "session": sessions[si].key(), "lines_fed": fed, "rejected_at_line": p.L - 1,
				"observed_after_that_line": e, "unexplained_fields": p.Bad, "events": evs[si]})
		}
	}

	// 4. (started before step 3, see above) wait for the equivalence runs
	<-equivDone
	fmt.Printf("equivalence: %d one-by-one, %d as file (at %.1fs)\n", nOne, nFile, time.Since(env.Start).Seconds())

	rep.Evaluations = lines
	rep.Distinct = int64(len(sessions))
	rep.Traces = int64(len(sessions))
	rep.Exhaustive = false
	rep.Extra["generation"] = genInfo
	rep.Extra["sessions_accepted_by_trace_validation"] = len(accepted)
	rep.Extra["sessions_rejected"] = len(rejected)
	rep.Extra["lines_fed_to_the_real_repl"] = lines
	rep.Extra["items_per_kind"] = kindSeen
	rep.Extra["equivalence_runs"] = map[string]int64{"one_by_one_exec": nOne, "as_file": nFile}
	rep.Extra["exhaustive_within"] = "quick: every session of <= 2 items over the fixed alphabet, <= 3 items over the core alphabet, every generated block item (header x body of 1..3 lines over statement / comment / whitespace-only lines) followed by a probe; thorough: <= 3 items over the fixed alphabet, <= 4 over the core alphabet, generated block x core item in both orders; longer sessions are a seeded sample"
	for i := 0; i < len(sessions) && i < 5; i++ {
		j := (i * 2477) % len(sessions)
		rep.Sample(map[string]interface{}{"session": sessions[j].key(), "events": evs[j], "model_final": sessions[j].Final})
	}
	for kd := range labels {
		if kd != "init" && kindSeen[kd] == 0 && os.Getenv("VERIF_C20_DEV") == "" && env.Replay == "" {
			common.Vacuous("property=C20 vacuous run: item kind %q never occurred", kd)
		}
	}
	rep.Finish()
}

// an explanation in which the item did run by its last line is preferred ("x" = it had not)
func weight(bad []string) int {
	w := len(bad)
	for _, f := range bad {
		if f == "x" {
			w += 5
		}
	}
	return w
}

func equivClass(want, got finalNs, bad string) string {
	switch {
	case bad != "":
		return "outcome=" + bad
	case want.N != got.N && want.F != got.F:
		return "counter and f differ"
	case want.N != got.N:
		return "counter differs"
	}
	return "f differs"
}
