SPECIFICATION GSpec
CONSTANTS
  Kinds <- Alphabet3
  MaxItems = 3
  Simulating = FALSE
INVARIANTS TypeOK OnceInOrder PromptClause NotEarly EchoClause Emit
CHECK_DEADLOCK FALSE
