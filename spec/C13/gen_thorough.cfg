\* case generation, thorough tier: lengths 0..6, slice components None, -9..9, BIG
SPECIFICATION Spec
CONSTANTS
  MaxLen = 6
  IdxMax = 9
  MaxRhs = 4
  CatMax = 3
  CmpLen = 3
CHECK_DEADLOCK FALSE
