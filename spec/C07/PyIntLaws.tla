------------------------------ MODULE PyIntLaws ------------------------------
(* Design check for C07: TLC checks, for every ordered pair (a, b) of the boundary lattice,   *)
(* the algebraic laws that characterise exact integer arithmetic with Python's conventions.   *)
(* BigNum/PyInt are an executable definition; these laws tie each operator to the others so   *)
(* that a mistake in one of them (digit carries at 2^15 boundaries, the sign rules of // and  *)
(* %, floor semantics of >>, two's complement of negatives, text conversion) is contradicted  *)
(* by an independent definition.  One initial state per pair, the laws are evaluated in the   *)
(* Next step (so all workers share the work); the invariant reads the verdict.                *)
EXTENDS PyInt
CONSTANT Tier          \* 0 = quick, 1 = thorough (TLC's cfg syntax has no negative numbers, so the sets live here)
\* exponents k and offsets d of the lattice points 2^k + d; shift counts and exponents tried by the laws.
\* 15, 30, 45 are digit boundaries of BigNum itself, 31/32/63/64 those of the implementation
Exps == IF Tier = 0 THEN {15, 31, 63, 64, 127} ELSE {15, 16, 30, 31, 32, 45, 63, 64, 127, 190}
Deltas == IF Tier = 0 THEN {-1, 0, 1} ELSE {-2, -1, 0, 1, 2}
ShiftCounts == IF Tier = 0 THEN {0, 1, 15, 31, 63, 64, 100} ELSE {0, 1, 14, 15, 16, 29, 30, 31, 45, 63, 64, 100}
SmallExps == IF Tier = 0 THEN {2, 5} ELSE {2, 5, 9}

P2(k) == ShlN(One, k)
NatD(n, d) == IF d >= 0 THEN AddN(n, NatOfInt(d)) ELSE SubN(n, NatOfInt(-d))
Sqrt63 == FromDigits(<<3, 0, 3, 7, 0, 0, 0, 4, 9, 9>>, 10)          \* floor(sqrt(2^63 - 1)) = 3037000499
LatticeN == {<<>>, <<1>>, <<2>>} \cup {NatD(P2(k), d) : k \in Exps, d \in Deltas} \cup {NatD(Sqrt63, d) : d \in {-1, 0, 1, 2}}
Lattice == {Z(1, n) : n \in LatticeN} \cup {Z(-1, n) : n \in LatticeN}

MinusOne == Z(-1, One)
TwoPow(k) == Z(1, P2(k))

DivLaws(a, b) ==
  ZIsZero(b) \/
  LET qr == ZDivMod(a, b) q == qr[1] r == qr[2] IN
  /\ ZAdd(ZMul(q, b), r) = a                                             \* (a // b) * b + a % b = a
  /\ (ZIsZero(r) \/ (r.s = b.s /\ CmpN(r.m, b.m) < 0))                   \* 0 <= |a % b| < |b|, sign of the divisor
  /\ ZDivMod(ZMul(a, b), b) = <<a, ZZero>>                               \* (a * b) // b = a, (a * b) % b = 0
  /\ Expected([op |-> "floordiv", a |-> a, b |-> b, c |-> ZZero]).v = q
  /\ Expected([op |-> "mod", a |-> a, b |-> b, c |-> ZZero]).v = r
RingLaws(a, b) ==
  /\ ZAdd(a, b) = ZAdd(b, a) /\ ZMul(a, b) = ZMul(b, a)
  /\ ZSub(ZAdd(a, b), b) = a
  /\ ZMul(ZAdd(a, b), a) = ZAdd(ZMul(a, a), ZMul(b, a))                  \* distributivity
  /\ ZSign(ZSub(a, b)) = ZCmp(a, b)                                      \* order agrees with subtraction
  /\ ZCmp(a, b) = -ZCmp(b, a)
  /\ ZNeg(ZNeg(a)) = a /\ ZAdd(a, ZNeg(a)) = ZZero /\ ZAbs(a) = (IF a.s = 1 THEN a ELSE ZNeg(a))
  /\ IsZ(ZAdd(a, b)) /\ IsZ(ZSub(a, b)) /\ IsZ(ZMul(a, b))
ShiftLaws(a) ==
  \A n \in ShiftCounts :
    /\ ZShr(ZShl(a, n), n) = a                                           \* (a << n) >> n = a
    /\ ZShl(a, n) = ZMul(a, TwoPow(n))                                   \* a << n = a * 2^n
    /\ ZShr(a, n) = ZDivMod(a, TwoPow(n))[1]                             \* a >> n = floor(a / 2^n)
BitLaws(a, b) ==
  /\ ZInv(a) = ZSub(ZNeg(a), ZOne) /\ ZInv(ZInv(a)) = a                  \* ~a = -a - 1
  /\ ZAdd(ZAnd(a, b), ZOr(a, b)) = ZAdd(a, b)                            \* a&b + a|b = a + b
  /\ ZXor(a, b) = ZSub(ZOr(a, b), ZAnd(a, b))                            \* a^b = a|b - a&b
  /\ ZInv(ZAnd(a, b)) = ZOr(ZInv(a), ZInv(b))                            \* De Morgan
  /\ ZAnd(a, b) = ZAnd(b, a) /\ ZOr(a, b) = ZOr(b, a) /\ ZXor(a, b) = ZXor(b, a)
  /\ ZAnd(a, a) = a /\ ZOr(a, a) = a /\ ZXor(a, a) = ZZero
  /\ ZAnd(a, MinusOne) = a /\ ZOr(a, ZZero) = a /\ ZAnd(a, ZInv(a)) = ZZero /\ ZOr(a, ZInv(a)) = MinusOne
  /\ IsZ(ZAnd(a, b)) /\ IsZ(ZOr(a, b)) /\ IsZ(ZXor(a, b))
PowLaws(a, b) ==
  /\ ZPow(a, 0) = ZOne /\ ZPow(a, 1) = a /\ ZPow(a, 2) = ZMul(a, a) /\ ZPow(a, 3) = ZMul(a, ZMul(a, a))
  /\ \A e \in SmallExps : ZPow(a, e + 1) = ZMul(ZPow(a, e), a)
  /\ ZIsZero(b) \/ \A e \in SmallExps :                                  \* pow(a, e, b) = (a ** e) % b
       PowModOut(a, ZOfInt(e), b).v = ZDivMod(ZPow(a, e), b)[2]
  /\ ZIsZero(b) \/ b.s = -1 \/ a.s = -1 \/ (Tier = 0 /\ (BitLen(a.m) > 32 \/ BitLen(b.m) > 64)) \/
       \* pow(a, x + y, b) = pow(a, x, b) * pow(a, y, b) % b with big exponents (quick: exponents up to 65 bits, thorough: all)
       LET x == ZAbs(a) y == ZAdd(ZAbs(b), ZOne) IN
       PowModOut(a, ZAdd(x, y), b).v = ZDivMod(ZMul(PowModOut(a, x, b).v, PowModOut(a, y, b).v), b)[2]
TextLaws(a) ==
  /\ \A base \in {2, 8, 10, 16} : FromDigits(ToDigits(a.m, base), base) = a.m
  /\ ParseInt(TextOf(a, 10, <<>>), 10).v = a /\ ParseInt(TextOf(a, 10, <<>>), 0).v = a
  /\ ParseInt(TextOf(a, 16, <<48, 120>>), 16).v = a /\ ParseInt(TextOf(a, 16, <<48, 120>>), 0).v = a /\ ParseInt(TextOf(a, 16, <<>>), 16).v = a
  /\ ParseInt(TextOf(a, 8, <<48, 111>>), 8).v = a /\ ParseInt(TextOf(a, 8, <<48, 111>>), 0).v = a
  /\ ParseInt(TextOf(a, 2, <<48, 98>>), 2).v = a /\ ParseInt(TextOf(a, 2, <<48, 98>>), 0).v = a
  /\ Len(ToDigits(a.m, 2)) = MaxI(1, BitLen(a.m))
  /\ ToDigits(a.m, 2)[1] = (IF a.m = <<>> THEN 0 ELSE 1)                 \* no leading zero digit
MaskLaws(a) ==
  \A k \in {1, 15, 16, 63, 64} :                                         \* two's complement: a & (2^k - 1) = a mod 2^k
       ZAnd(a, ZSub(TwoPow(k), ZOne)) = ZDivMod(a, TwoPow(k))[2]
RepLaws(a) ==
  /\ FitsWord(a) <=> (ZCmp(a, WordMin) >= 0 /\ ZCmp(a, WordMax) <= 0)
  /\ IsZ(a)

\* the laws about a alone are evaluated once per a (in the pair whose b is zero)
Laws(a, b) == /\ DivLaws(a, b) /\ RingLaws(a, b) /\ BitLaws(a, b) /\ PowLaws(a, b)
              /\ ZIsZero(b) => (ShiftLaws(a) /\ MaskLaws(a) /\ TextLaws(a) /\ RepLaws(a))
\* which conjunct failed (diagnostics)
Failing(a, b) == <<DivLaws(a, b), RingLaws(a, b), ShiftLaws(a), BitLaws(a, b), PowLaws(a, b), TextLaws(a), RepLaws(a), MaskLaws(a)>>

ASSUME /\ FitsWord(WordMax) /\ FitsWord(WordMin) /\ ~FitsWord(ZAdd(WordMax, ZOne)) /\ ~FitsWord(ZSub(WordMin, ZOne))
       /\ FitsWord(ZMul(Z(1, Sqrt63), Z(1, Sqrt63)))                          \* 3037000499^2 < 2^63 <= 3037000500^2
       /\ ~FitsWord(ZMul(Z(1, NatD(Sqrt63, 1)), Z(1, NatD(Sqrt63, 1))))
       /\ ParseInt(<<>>, 10).k = "exc" /\ ParseInt(<<45>>, 10).k = "exc" /\ ParseInt(<<48, 120>>, 16).k = "exc"
       /\ ParseInt(<<48, 49, 48>>, 0).k = "exc" /\ ParseInt(<<48, 48>>, 0).v = ZZero /\ ParseInt(<<48, 49, 48>>, 10).v = ZOfInt(10)
       /\ ParseInt(<<32, 43, 49, 50, 10>>, 10).v = ZOfInt(12) /\ ParseInt(<<45, 32, 49>>, 10).k = "exc"
       /\ ParseInt(<<48, 98, 49>>, 16).v = ZOfInt(177) /\ ParseInt(<<49, 95, 48>>, 10).k = "exc" /\ ParseInt(<<122>>, 36).v = ZOfInt(35)

VARIABLES a, b, v
Init == a \in Lattice /\ b \in Lattice /\ v = "todo"
Next == v = "todo" /\ v' = (IF Laws(a, b) THEN "ok" ELSE "bad") /\ UNCHANGED <<a, b>>
Spec == Init /\ [][Next]_<<a, b, v>>
LawsHold == v # "bad"
=============================================================================
