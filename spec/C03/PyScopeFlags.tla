---- MODULE PyScopeFlags ----
\* Systematic driver: one program for EVERY assignment of def-use flag sets to the blocks of a tree
\* (the families on which ScopeMC/RefineMC compare the transcribed algorithm with the declarative
\* rules), so that the real symtable package, compiler and interpreter meet every such
\* configuration -- in particular the rare ones (a class that declares a name global between a
\* function binding it and a method using it, nonlocal through two levels, ...) that random
\* construction seldom produces.
\* Block i > 1 is a def (type "function") or a class; its body is, per name in NameSeq order:
\*   the declarations (G: global n, N: nonlocal n), then the binding (L: n = tag), then all child
\*   definitions (each def child is called right after its definition), then the use (U: log n).
\* P makes n a plain parameter.
EXTENDS PyScopeGen
Seq1 == <<"x">>
Seq2 == <<"x", "y">>
Seq1C == <<"x", "__class__">>
CONSTANTS FShapes, FFlags, FModFlags,
          Mode      \* "all": every configuration;  "cls": __class__ is used only in module > def > class > method, by the method
Chain4 == { <<0,1,2,3>> }
Trees3 == { <<0,1>>, <<0,1,2>>, <<0,1,1>> }
Trees4 == { <<0,1,2,3>>, <<0,1,2,2>>, <<0,1,1,3>> }
F7 == { {}, {"L"}, {"U"}, {"L","U"}, {"G","L"}, {"N","U"}, {"P"} }
F9 == { {}, {"L"}, {"U"}, {"L","U"}, {"G","L"}, {"G","U"}, {"N","U"}, {"N","L"}, {"P","U"} }
FMod == { {}, {"L"} }
FModQ == { {"L"} }
VARIABLES shape, types, fl, v
TypesOK == types[1] = "module" /\ \A i \in 2..Len(shape) : types[i] # "module"
\* __class__ (if it is among the names) is only used, and only by methods: function blocks whose parent is a class
BlockOK(i, g) == \A n \in Names :
              IF n = CLS THEN g[n] = {} \/ (g[n] = {"U"} /\ types[i] = "function" /\ i > 1 /\ types[shape[i]] = "class")
              ELSE /\ ("P" \in g[n] => types[i] = "function")
                   /\ (i = 1 => g[n] \in FModFlags)
\* the flag assignments allowed for block i (filtered per block, so that Init never enumerates the
\* full product of all blocks before filtering)
Allowed(i) == { g \in [Names -> FFlags \cup FModFlags \cup {{"U"}}] : BlockOK(i, g) }
Kids(i) == SelectSeq([c \in 1..Len(shape) |-> c], LAMBDA c : shape[c] = i)
Body(i) ==
  LET per(op, flag) == FoldLeft(LAMBDA acc, n : IF flag \in fl[i][n] THEN Append(acc, Ev(op, n, 0)) ELSE acc, <<>>, NameSeq)
      kids == FoldLeft(LAMBDA acc, c : acc \o <<Ev("child", "-", c)>> \o (IF types[c] = "function" THEN <<Ev("call", "-", c)>> ELSE <<>>), <<>>, Kids(i))
  IN per("global", "G") \o per("nonlocal", "N") \o per("bind", "L") \o kids \o per("use", "U")
\* (TLCEval: see SymtableAlg.WithModuleGlobals -- the program is built once, not at every P[s])
Prog == TLCEval([i \in 1..Len(shape) |->
           [kind |-> IF i = 1 THEN "module" ELSE IF types[i] = "function" THEN "def" ELSE "class",
            parent |-> shape[i],
            par |-> TLCEval([n \in Names |-> IF "P" \in fl[i][n] THEN [k |-> "arg", from |-> "-"] ELSE NoPar]),
            iter |-> "-", tgt |-> "-", ev |-> Body(i)]])
Init == /\ shape \in FShapes
        /\ types \in [1..Len(shape) -> {"module", "function", "class"}] /\ TypesOK
        /\ \E b1 \in Allowed(1), b2 \in Allowed(2) :
           \E b3 \in (IF Len(shape) >= 3 THEN Allowed(3) ELSE {b1}), b4 \in (IF Len(shape) >= 4 THEN Allowed(4) ELSE {b1}) :
              fl = SubSeq(<<b1, b2, b3, b4>>, 1, Len(shape))
        /\ (Mode = "cls" => (\A i \in 1..Len(shape) : fl[i][CLS] = {})
                            \/ (types = <<"module", "function", "class", "function">> /\ fl[4][CLS] = {"U"}))
        /\ v = "todo"
Next == /\ v = "todo"
        /\ PrintT(ToJson(Expect(Prog)))
        /\ v' = "done" /\ UNCHANGED <<shape, types, fl>>
Spec == Init /\ [][Next]_<<shape, types, fl, v>>
====
