---------------------------- MODULE PyReplTrace ----------------------------
(* Trace validation: every recorded session of the real repl.REPL must be a behaviour of      *)
(* PyRepl.  A session is a sequence of events, one per fed physical line, with what the       *)
(* recording UI and the session module showed afterwards:                                     *)
(*   kd, k : item kind and line number within the item (from the generated session)          *)
(*   p     : prompt shown after the line         o : text echoed through UI.Print             *)
(*   e     : something was written to stderr     n, f, u : counter (-1 = unset), f defined,   *)
(*                                                         repr of _ ("unset" if unbound)     *)
(* Only lines are logged: TLC infers at which line each multi-line item executed (TExec is an *)
(* unlogged step).  An event's observation is compared when the next one is consumed.        *)
(* Each session is its own initial state, so verdicts are independent: accepted sessions      *)
(* print [acc |-> t]; with Progress = TRUE every reached position is printed and the          *)
(* harness takes the furthest one of a rejected session as the place of the divergence.       *)
EXTENDS PyRepl, Json
CONSTANT Progress
Traces == ndJsonDeserialize("traces.ndjson")
VARIABLES t, l
tvars == <<vars, t, l>>
TKinds == AllKinds
Evs == Traces[t].ev
Ev == Evs[l]
TInit == t \in 1..Len(Traces) /\ l = 1 /\ Init
(* the model state explains what was seen after event e *)
ObsOK(e) == /\ prompt = e.p /\ ns.n = e.n /\ ns.f = e.f
            /\ e.u = (IF ns.last.def THEN ns.last.val ELSE "unset")
            /\ IF err THEN (e.e \/ e.o # "") ELSE (~e.e /\ e.o = out)      \* an error is reported somehow; otherwise exactly the echo
(* ... and an item whose last line has been fed has run *)
PrevOK == IF l = 1 THEN TRUE ELSE (ObsOK(Evs[l - 1]) /\ (k = M(Cur) => ex))     \* (IF, not \/: TLC explores both sides of a disjunction in an action)
(* for the report only: which parts of the previous observation this state does not explain *)
Bad(e) == { x \in {"p", "n", "f", "u", "o", "x"} :
              CASE x = "p" -> prompt # e.p
                [] x = "n" -> ns.n # e.n
                [] x = "f" -> ns.f # e.f
                [] x = "u" -> e.u # (IF ns.last.def THEN ns.last.val ELSE "unset")
                [] x = "o" -> ~(IF err THEN (e.e \/ e.o # "") ELSE (~e.e /\ e.o = out))
                [] x = "x" -> k = M(Cur) /\ ~ex }
TFeed == /\ l <= Len(Evs) /\ PrevOK
         /\ \E p \in {PS1, PS2} : FeedLine(Ev.kd, p)
         /\ k' = Ev.k
         /\ l' = l + 1 /\ UNCHANGED t
TExec == l > 1 /\ Exec /\ UNCHANGED <<t, l>>
TEnd  == l = Len(Evs) + 1 /\ PrevOK /\ AtBoundary /\ l' = l + 1 /\ UNCHANGED <<vars, t>>
TNext == TFeed \/ TExec \/ TEnd
TSpec == TInit /\ [][TNext]_tvars
Accepted == l = Len(Evs) + 2
Emit == /\ Accepted => PrintT(ToJson([acc |-> t]))
        /\ Progress => PrintT(ToJson([t |-> t, l |-> l, bad |-> IF l = 1 \/ l > Len(Evs) + 1 THEN {} ELSE Bad(Evs[l - 1])]))
=============================================================================
