SPECIFICATION SpecMC
CONSTANT Names = {"x", "y"}
CONSTANT NameSeq <- Seq2
CONSTANT Shapes <- Shapes4
CONSTANT FlagsX <- FX4
CONSTANT FlagsY <- FYq
INVARIANT RefinesD
CHECK_DEADLOCK FALSE
