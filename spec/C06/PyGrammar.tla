------------------------------ MODULE PyGrammar ------------------------------
(* C06: abstract syntax trees of Python 3.4, and the relation between a tree and its legal    *)
(* concrete spellings.                                                                        *)
(*                                                                                            *)
(*  (i)   Trees are records mirroring ast/ast.go ([t |-> node type, fields...]); an absent    *)
(*        optional child is [t |-> "None"].                                                   *)
(*  (ii)  Spell: tree -> token sequence (SpellMod ...) -> physical lines (Layout).  Every     *)
(*        choice the grammar leaves to the writer is taken from a choice stream h (a small    *)
(*        hash state forked per decision, so a spelling is a function of (tree, h) and the    *)
(*        relation is { (tree, Spell(tree, h)) : h }): redundant parentheses, bare or          *)
(*        parenthesised tuples, trailing commas, ';' joining, one-line or indented suites,    *)
(*        elif or else-if, alternative number and string spellings, keyword/star order in     *)
(*        calls; then spacing, comments, blank lines, backslash continuation, line breaks     *)
(*        inside brackets, indentation unit per block (1, 2, 4, 8 spaces, tab), form feed.    *)
(*        The tree is never consulted again after spelling: what the parser must return for   *)
(*        any spelling is the tree itself.                                                    *)
(*  (iii) The recogniser for the 3.4 grammar is in PyGrammarRec.                              *)
(*                                                                                            *)
(* Parenthesisation is the one place where the speller must know the grammar: Prec(e) is the  *)
(* grammar level of the outermost production of e, and every operand position states the     *)
(* lowest level it accepts without parentheses (the numbers are the nesting of the grammar    *)
(* rules test > or_test > and_test > not_test > comparison > expr ... > power > atom).        *)
EXTENDS Integers, Sequences, FiniteSets, TLC, SequencesExt, PyLex

(* ------------------------------------------------------------------------------------------ *)
(* choice stream                                                                              *)
HMix(v, m) == (((v % m) * (v % m)) + 12345) % m
H0(a, b) == [x |-> HMix((a % 100000) * 3 + (b % 100000) * 7 + 1, 30269), y |-> HMix((a % 100000) * 5 + (b % 100000) * 11 + 2, 30307)]
Fork(h, i) == [x |-> HMix(h.x * 171 + i * 59 + 11, 30269), y |-> HMix(h.y * 172 + i * 113 + 7, 30307)]
Draw(h, n) == (h.x * 3 + h.y) % n                      \* 0 .. n-1
Pick(h, seq) == seq[Draw(h, Len(seq)) + 1]
Chance(h, pct) == Draw(h, 100) < pct

Concat(ss) == FoldLeft(LAMBDA a, b : a \o b, <<>>, ss)
JoinS(cs) == FoldLeft(LAMBDA a, b : a \o b, "", cs)          \* characters -> string

(* ------------------------------------------------------------------------------------------ *)
(* (i) trees                                                                                  *)
NoneN == [t |-> "None"]
IsNone(e) == e.t = "None"
Nm(id, ctx) == [t |-> "Name", id |-> id, ctx |-> ctx]
NumE(v) == [t |-> "Num", n |-> v]
StrE(s) == [t |-> "Str", s |-> s]            \* s = sequence of one-character strings
BytesE(s) == [t |-> "Bytes", s |-> s]
NCE(v) == [t |-> "NameConstant", value |-> v]
EllE == [t |-> "Ellipsis"]
BinOpE(l, op, r) == [t |-> "BinOp", left |-> l, op |-> op, right |-> r]
UnaryOpE(op, e) == [t |-> "UnaryOp", op |-> op, operand |-> e]
BoolOpE(op, vs) == [t |-> "BoolOp", op |-> op, values |-> vs]
CompareE(l, ops, cs) == [t |-> "Compare", left |-> l, ops |-> ops, comparators |-> cs]
IfExpE(c, a, b) == [t |-> "IfExp", test |-> c, body |-> a, orelse |-> b]
LambdaE(args, body) == [t |-> "Lambda", args |-> args, body |-> body]
CallE(f, args, kws, star, kw) == [t |-> "Call", func |-> f, args |-> args, keywords |-> kws, starargs |-> star, kwargs |-> kw]
AttributeE(v, attr, ctx) == [t |-> "Attribute", value |-> v, attr |-> attr, ctx |-> ctx]
SubscriptE(v, sl, ctx) == [t |-> "Subscript", value |-> v, slice |-> sl, ctx |-> ctx]
StarredE(v, ctx) == [t |-> "Starred", value |-> v, ctx |-> ctx]
ListE(es, ctx) == [t |-> "List", elts |-> es, ctx |-> ctx]
TupleE(es, ctx) == [t |-> "Tuple", elts |-> es, ctx |-> ctx]
SetE(es) == [t |-> "Set", elts |-> es]
DictE(ks, vs) == [t |-> "Dict", keys |-> ks, values |-> vs]
ListCompE(e, gs) == [t |-> "ListComp", elt |-> e, generators |-> gs]
SetCompE(e, gs) == [t |-> "SetComp", elt |-> e, generators |-> gs]
DictCompE(k, v, gs) == [t |-> "DictComp", key |-> k, value |-> v, generators |-> gs]
GenExpE(e, gs) == [t |-> "GeneratorExp", elt |-> e, generators |-> gs]
YieldE(v) == [t |-> "Yield", value |-> v]
YieldFromE(v) == [t |-> "YieldFrom", value |-> v]
IndexS(v) == [t |-> "Index", value |-> v]
SliceS(lo, up, st) == [t |-> "Slice", lower |-> lo, upper |-> up, step |-> st]
ExtSliceS(ds) == [t |-> "ExtSlice", dims |-> ds]
CompN(target, iter, ifs) == [t |-> "comprehension", target |-> target, iter |-> iter, ifs |-> ifs]
ArgN(name, ann) == [t |-> "arg", arg |-> name, annotation |-> ann]
ArgumentsN(args, vararg, kwonly, kwdefs, kwarg, defaults) ==
  [t |-> "arguments", args |-> args, vararg |-> vararg, kwonlyargs |-> kwonly, kw_defaults |-> kwdefs, kwarg |-> kwarg, defaults |-> defaults]
KeywordN(name, v) == [t |-> "keyword", arg |-> name, value |-> v]
AliasN(name, asname) == [t |-> "alias", name |-> name, asname |-> asname]          \* name = parts of the dotted name; asname "" = absent
WithItemN(e, v) == [t |-> "withitem", context_expr |-> e, optional_vars |-> v]
HandlerN(ty, name, body) == [t |-> "ExceptHandler", type |-> ty, name |-> name, body |-> body]   \* name "" = absent

ExprS(v) == [t |-> "Expr", value |-> v]
AssignS(ts, v) == [t |-> "Assign", targets |-> ts, value |-> v]
AugAssignS(tg, op, v) == [t |-> "AugAssign", target |-> tg, op |-> op, value |-> v]
ReturnS(v) == [t |-> "Return", value |-> v]
PassS == [t |-> "Pass"]
BreakS == [t |-> "Break"]
ContinueS == [t |-> "Continue"]
RaiseS(e, c) == [t |-> "Raise", exc |-> e, cause |-> c]
GlobalS(ns) == [t |-> "Global", names |-> ns]
NonlocalS(ns) == [t |-> "Nonlocal", names |-> ns]
ImportS(as) == [t |-> "Import", names |-> as]
ImportFromS(m, as, lvl) == [t |-> "ImportFrom", module |-> m, names |-> as, level |-> lvl]   \* module = parts, <<>> = absent
DeleteS(ts) == [t |-> "Delete", targets |-> ts]
AssertS(c, m) == [t |-> "Assert", test |-> c, msg |-> m]
IfS(c, b, o) == [t |-> "If", test |-> c, body |-> b, orelse |-> o]
WhileS(c, b, o) == [t |-> "While", test |-> c, body |-> b, orelse |-> o]
ForS(tg, it, b, o) == [t |-> "For", target |-> tg, iter |-> it, body |-> b, orelse |-> o]
TryS(b, hs, o, f) == [t |-> "Try", body |-> b, handlers |-> hs, orelse |-> o, finalbody |-> f]
WithS(items, b) == [t |-> "With", items |-> items, body |-> b]
FunctionDefS(name, args, b, decos, ret) == [t |-> "FunctionDef", name |-> name, args |-> args, body |-> b, decorator_list |-> decos, returns |-> ret]
ClassDefS(name, bases, kws, star, kw, b, decos) ==
  [t |-> "ClassDef", name |-> name, bases |-> bases, keywords |-> kws, starargs |-> star, kwargs |-> kw, body |-> b, decorator_list |-> decos]
ModuleM(b) == [t |-> "Module", body |-> b]
ExpressionM(e) == [t |-> "Expression", body |-> e]

(* operators: [name (the ast class), s (spelling), p (grammar level)] *)
BinOps == << [name |-> "Add", s |-> "+", p |-> 10], [name |-> "Sub", s |-> "-", p |-> 10],
             [name |-> "Mult", s |-> "*", p |-> 11], [name |-> "Div", s |-> "/", p |-> 11],
             [name |-> "Mod", s |-> "%", p |-> 11], [name |-> "FloorDiv", s |-> "//", p |-> 11],
             [name |-> "LShift", s |-> "<<", p |-> 9], [name |-> "RShift", s |-> ">>", p |-> 9],
             [name |-> "BitOr", s |-> "|", p |-> 6], [name |-> "BitXor", s |-> "^", p |-> 7],
             [name |-> "BitAnd", s |-> "&", p |-> 8], [name |-> "Pow", s |-> "**", p |-> 13] >>
BinOpTable == [n \in {o.name : o \in ToSet(BinOps)} |-> CHOOSE o \in ToSet(BinOps) : o.name = n]
BinOpNamed(n) == BinOpTable[n]
CmpOps == << [name |-> "Eq", s |-> <<"==">>], [name |-> "NotEq", s |-> <<"!=">>], [name |-> "Lt", s |-> <<"<">>],
             [name |-> "LtE", s |-> <<"<=">>], [name |-> "Gt", s |-> <<">">>], [name |-> "GtE", s |-> <<">=">>],
             [name |-> "Is", s |-> <<"is">>], [name |-> "IsNot", s |-> <<"is", "not">>],
             [name |-> "In", s |-> <<"in">>], [name |-> "NotIn", s |-> <<"not", "in">>] >>
CmpOpTable == [n \in {o.name : o \in ToSet(CmpOps)} |-> CHOOSE o \in ToSet(CmpOps) : o.name = n]
CmpOpNamed(n) == CmpOpTable[n]
UnaryOps == << [name |-> "Invert", s |-> "~", p |-> 12], [name |-> "Not", s |-> "not", p |-> 4],
               [name |-> "UAdd", s |-> "+", p |-> 12], [name |-> "USub", s |-> "-", p |-> 12] >>
UnaryOpTable == [n \in {o.name : o \in ToSet(UnaryOps)} |-> CHOOSE o \in ToSet(UnaryOps) : o.name = n]
UnaryOpNamed(n) == UnaryOpTable[n]
BoolOps == << [name |-> "And", s |-> "and", p |-> 3], [name |-> "Or", s |-> "or", p |-> 2] >>
BoolOpTable == [n \in {o.name : o \in ToSet(BoolOps)} |-> CHOOSE o \in ToSet(BoolOps) : o.name = n]
BoolOpNamed(n) == BoolOpTable[n]

(* grammar level of the outermost production of an expression *)
Prec(e) ==
  CASE e.t \in {"Yield", "YieldFrom"} -> -1
    [] e.t = "Tuple" -> IF e.elts = <<>> THEN 15 ELSE 0
    [] e.t \in {"Lambda", "IfExp"} -> 1
    [] e.t = "BoolOp" -> BoolOpNamed(e.op).p
    [] e.t = "UnaryOp" -> UnaryOpNamed(e.op).p
    [] e.t = "Compare" -> 5
    [] e.t = "BinOp" -> BinOpNamed(e.op).p
    [] e.t \in {"Call", "Attribute", "Subscript"} -> 14
    [] OTHER -> 15

(* ------------------------------------------------------------------------------------------ *)
(* random trees (bounded depth), used by the generating configurations                        *)
Names == <<"a", "b", "c", "x", "y", "f">>
Attrs == <<"m", "n">>
RECURSIVE GenE(_, _), GenT(_, _, _), GenSlice(_, _), GenComps(_, _), GenArgs(_, _, _), GenCallParts(_, _)

GenAtom(h) ==
  LET k == Draw(Fork(h, 1), 14) IN
  IF k < 6 THEN Nm(Pick(Fork(h, 2), Names), "Load")
  ELSE IF k < 9 THEN NumE(Draw(Fork(h, 2), 12))
  ELSE IF k < 11 THEN StrE(Pick(Fork(h, 2), << <<"s">>, <<"a", "b">>, <<>>, <<"q", " ", "r">> >>))
  ELSE IF k < 12 THEN BytesE(Pick(Fork(h, 2), << <<"s">>, <<>> >>))
  ELSE IF k < 13 THEN NCE(Pick(Fork(h, 2), <<"None", "True", "False">>))
  ELSE EllE

GenEs(d, h, n) == [i \in 1..n |-> GenE(d, Fork(h, 20 + i))]
GenOpt(d, h, pct) == IF Chance(Fork(h, 1), pct) THEN GenE(d, Fork(h, 2)) ELSE NoneN

ExprKinds == <<"Atom", "Atom", "BinOp", "BinOp", "BinOp", "UnaryOp", "UnaryOp", "BoolOp", "BoolOp", "Compare", "Compare",
               "IfExp", "Lambda", "Call", "Call", "Attribute", "Subscript", "Subscript", "Tuple", "List", "Set", "Dict",
               "ListComp", "SetComp", "DictComp", "GeneratorExp", "Yield">>

GenE(d, h) ==
  IF d = 0 THEN GenAtom(h)
  ELSE LET k == Pick(Fork(h, 1), ExprKinds) IN
  CASE k = "Atom" -> GenAtom(Fork(h, 2))
    [] k = "BinOp" -> BinOpE(GenE(d - 1, Fork(h, 2)), Pick(Fork(h, 3), BinOps).name, GenE(d - 1, Fork(h, 4)))
    [] k = "UnaryOp" ->
         LET op == Pick(Fork(h, 3), UnaryOps).name
             e  == GenE(d - 1, Fork(h, 2))
         \* the 3.4 grammar gives -1 the tree UnaryOp(USub, Num(1)); the 3.4 reference implementation
         \* folds it into Num(-1) depending on the spelling: that one shape is not generated
         IN UnaryOpE(op, IF op = "USub" /\ e.t = "Num" THEN Nm("a", "Load") ELSE e)
    [] k = "BoolOp" -> BoolOpE(Pick(Fork(h, 3), BoolOps).name, GenEs(d - 1, Fork(h, 2), 2 + Draw(Fork(h, 4), 2)))
    [] k = "Compare" ->
         LET n == 1 + Draw(Fork(h, 4), 2) IN
         CompareE(GenE(d - 1, Fork(h, 2)), [i \in 1..n |-> Pick(Fork(h, 30 + i), CmpOps).name], GenEs(d - 1, Fork(h, 3), n))
    [] k = "IfExp" -> IfExpE(GenE(d - 1, Fork(h, 2)), GenE(d - 1, Fork(h, 3)), GenE(d - 1, Fork(h, 4)))
    [] k = "Lambda" -> LambdaE(GenArgs(d - 1, Fork(h, 2), FALSE), GenE(d - 1, Fork(h, 3)))
    [] k = "Call" -> LET c == GenCallParts(d - 1, Fork(h, 3)) IN
                     CallE(GenE(d - 1, Fork(h, 2)), c.args, c.keywords, c.starargs, c.kwargs)
    [] k = "Attribute" -> AttributeE(GenE(d - 1, Fork(h, 2)), Pick(Fork(h, 3), Attrs), "Load")
    [] k = "Subscript" -> SubscriptE(GenE(d - 1, Fork(h, 2)), GenSlice(d - 1, Fork(h, 3)), "Load")
    [] k = "Tuple" -> TupleE(GenEs(d - 1, Fork(h, 2), Draw(Fork(h, 3), 4)), "Load")
    [] k = "List" -> ListE(GenEs(d - 1, Fork(h, 2), Draw(Fork(h, 3), 4)), "Load")
    [] k = "Set" -> SetE(GenEs(d - 1, Fork(h, 2), 1 + Draw(Fork(h, 3), 3)))
    [] k = "Dict" -> LET n == Draw(Fork(h, 4), 3) IN DictE(GenEs(d - 1, Fork(h, 2), n), GenEs(d - 1, Fork(h, 3), n))
    [] k = "ListComp" -> ListCompE(GenE(d - 1, Fork(h, 2)), GenComps(d - 1, Fork(h, 3)))
    [] k = "SetComp" -> SetCompE(GenE(d - 1, Fork(h, 2)), GenComps(d - 1, Fork(h, 3)))
    [] k = "DictComp" -> DictCompE(GenE(d - 1, Fork(h, 2)), GenE(d - 1, Fork(h, 4)), GenComps(d - 1, Fork(h, 3)))
    [] k = "GeneratorExp" -> GenExpE(GenE(d - 1, Fork(h, 2)), GenComps(d - 1, Fork(h, 3)))
    [] OTHER -> IF Chance(Fork(h, 3), 30) THEN YieldFromE(GenE(d - 1, Fork(h, 2))) ELSE YieldE(GenOpt(d - 1, Fork(h, 2), 70))

(* assignment / deletion targets; star = a starred element is allowed here *)
GenTPlain(d, h, ctx) ==
  LET k == Draw(Fork(h, 1), 6) IN
  IF d = 0 \/ k < 3 THEN Nm(Pick(Fork(h, 2), Names), ctx)
  ELSE IF k < 4 THEN AttributeE(GenE(d - 1, Fork(h, 2)), Pick(Fork(h, 3), Attrs), ctx)
  ELSE SubscriptE(GenE(d - 1, Fork(h, 2)), GenSlice(d - 1, Fork(h, 3)), ctx)
GenT(d, h, ctx) ==
  LET k == Draw(Fork(h, 1), 10) IN
  IF d = 0 \/ k < 6 THEN GenTPlain(d, Fork(h, 2), ctx)
  ELSE LET n    == 1 + Draw(Fork(h, 3), 3)
           star == IF ctx = "Store" /\ Chance(Fork(h, 4), 30) THEN 1 + Draw(Fork(h, 5), n) ELSE 0
           elts == [i \in 1..n |-> IF i = star THEN StarredE(GenTPlain(d - 1, Fork(h, 40 + i), ctx), ctx)
                                   ELSE GenT(d - 1, Fork(h, 40 + i), ctx)]
       IN IF k < 8 THEN TupleE(elts, ctx) ELSE ListE(elts, ctx)

GenSlice(d, h) ==
  LET k == Draw(Fork(h, 1), 10)
      sl(hh) == SliceS(GenOpt(d, Fork(hh, 1), 50), GenOpt(d, Fork(hh, 2), 50), GenOpt(d, Fork(hh, 3), 30))
  IN IF k < 4 THEN IndexS(GenE(d, Fork(h, 2)))
     ELSE IF k < 5 THEN IndexS(TupleE(GenEs(d, Fork(h, 2), 1 + Draw(Fork(h, 3), 2)), "Load"))
     ELSE IF k < 8 THEN sl(Fork(h, 2))
     ELSE LET n == 2 + Draw(Fork(h, 3), 2)
              w == 1 + Draw(Fork(h, 4), n)        \* this dimension is a slice, so the whole is not Index(Tuple)
          IN ExtSliceS([i \in 1..n |-> IF i = w \/ Chance(Fork(h, 50 + i), 40) THEN sl(Fork(h, 60 + i))
                                        ELSE IndexS(GenE(d, Fork(h, 60 + i)))])

GenComps(d, h) ==
  [i \in 1..(1 + Draw(Fork(h, 1), 2)) |->
     CompN(GenT(d, Fork(h, 10 + i), "Store"), GenE(d, Fork(h, 20 + i)), GenEs(d, Fork(h, 30 + i), Draw(Fork(h, 40 + i), 3)))]

(* parameters; ann = annotations allowed (def, not lambda) *)
GenArgs(d, h, ann) ==
  LET na   == Draw(Fork(h, 1), 3)
      nd   == Draw(Fork(h, 2), na + 1)
      nk   == Draw(Fork(h, 3), 3)
      mk(name, hh) == ArgN(name, IF ann /\ Chance(Fork(hh, 1), 30) THEN GenE(d, Fork(hh, 2)) ELSE NoneN)
      hasv == Chance(Fork(h, 4), 35)
  IN ArgumentsN([i \in 1..na |-> mk(<<"p", "q">>[i], Fork(h, 10 + i))],
                IF hasv THEN mk("v", Fork(h, 5)) ELSE NoneN,
                [i \in 1..nk |-> mk(<<"k", "m">>[i], Fork(h, 20 + i))],
                [i \in 1..nk |-> GenOpt(d, Fork(h, 30 + i), 50)],
                IF Chance(Fork(h, 6), 30) THEN mk("w", Fork(h, 7)) ELSE NoneN,
                GenEs(d, Fork(h, 8), nd))

GenCallParts(d, h) ==
  LET nk == Draw(Fork(h, 2), 3) IN
  [args |-> GenEs(d, Fork(h, 3), Draw(Fork(h, 1), 3)),
   keywords |-> [i \in 1..nk |-> KeywordN(<<"k", "m">>[i], GenE(d, Fork(h, 10 + i)))],
   starargs |-> GenOpt(d, Fork(h, 4), 25),
   kwargs |-> GenOpt(d, Fork(h, 5), 25)]

(* statements: ed = expression depth, d = statement nesting depth *)
RECURSIVE GenS(_, _, _), GenBody(_, _, _)
SimpleKinds == <<"Expr", "Expr", "Assign", "Assign", "Assign", "AugAssign", "Return", "Pass", "Break", "Continue", "Raise",
                 "Global", "Nonlocal", "Import", "ImportFrom", "Delete", "Assert", "YieldStmt">>
CompoundKinds == <<"If", "If", "While", "For", "Try", "With", "FunctionDef", "ClassDef">>
GenAliases(h, dotted) ==
  [i \in 1..(1 + Draw(Fork(h, 1), 2)) |->
     AliasN(IF dotted /\ Chance(Fork(h, 10 + i), 40) THEN Pick(Fork(h, 20 + i), << <<"a", "b">>, <<"x", "y", "a">> >>) ELSE Pick(Fork(h, 20 + i), << <<"a">>, <<"b">>, <<"x">> >>),
            IF Chance(Fork(h, 30 + i), 40) THEN Pick(Fork(h, 40 + i), <<"c", "y">>) ELSE "")]
(* decorators: '@' dotted_name [ '(' [arglist] ')' ] *)
GenDecos(ed, h) ==
  [i \in 1..Draw(Fork(h, 1), 3) |->
     LET base == IF Chance(Fork(h, 40 + i), 50) THEN Nm("a", "Load") ELSE AttributeE(Nm("a", "Load"), "m", "Load")
         c    == GenCallParts(ed, Fork(h, 50 + i))
     IN IF Chance(Fork(h, 60 + i), 40) THEN CallE(base, c.args, c.keywords, c.starargs, c.kwargs) ELSE base]
GenS(ed, d, h) ==
  LET compound == d > 0 /\ Chance(Fork(h, 1), 45)
      k == IF compound THEN Pick(Fork(h, 2), CompoundKinds) ELSE Pick(Fork(h, 2), SimpleKinds)
      e(i) == GenE(ed, Fork(h, 100 + i))
      body(i) == GenBody(ed, d - 1, Fork(h, 200 + i))
      optbody(i, pct) == IF Chance(Fork(h, 300 + i), pct) THEN body(i) ELSE <<>>
  IN
  CASE k = "Expr" -> ExprS(e(1))
    [] k = "Assign" -> AssignS([i \in 1..(1 + Draw(Fork(h, 3), 2)) |-> GenT(ed, Fork(h, 10 + i), "Store")],
                               IF Chance(Fork(h, 4), 10) THEN YieldE(GenOpt(ed, Fork(h, 5), 60)) ELSE e(1))
    [] k = "AugAssign" -> AugAssignS(GenTPlain(ed, Fork(h, 3), "Store"), Pick(Fork(h, 4), BinOps).name, e(1))
    [] k = "Return" -> ReturnS(GenOpt(ed, Fork(h, 3), 70))
    [] k = "Pass" -> PassS
    [] k = "Break" -> BreakS
    [] k = "Continue" -> ContinueS
    [] k = "Raise" -> LET x == GenOpt(ed, Fork(h, 3), 75) IN RaiseS(x, IF IsNone(x) THEN NoneN ELSE GenOpt(ed, Fork(h, 4), 40))
    [] k = "Global" -> GlobalS([i \in 1..(1 + Draw(Fork(h, 3), 2)) |-> Names[i]])
    [] k = "Nonlocal" -> NonlocalS([i \in 1..(1 + Draw(Fork(h, 3), 2)) |-> Names[i]])
    [] k = "Import" -> ImportS(GenAliases(Fork(h, 3), TRUE))
    [] k = "ImportFrom" ->
         LET lvl == Pick(Fork(h, 3), <<0, 0, 1, 2, 3, 4>>)
             m   == IF lvl > 0 /\ Chance(Fork(h, 4), 50) THEN <<>> ELSE Pick(Fork(h, 5), << <<"a">>, <<"a", "b">> >>)
         IN ImportFromS(m, IF Chance(Fork(h, 6), 20) THEN <<AliasN(<<"*">>, "")>> ELSE GenAliases(Fork(h, 7), FALSE), lvl)
    [] k = "Delete" -> DeleteS([i \in 1..(1 + Draw(Fork(h, 3), 2)) |-> GenT(ed, Fork(h, 10 + i), "Del")])
    [] k = "Assert" -> AssertS(e(1), GenOpt(ed, Fork(h, 3), 40))
    [] k = "YieldStmt" -> ExprS(IF Chance(Fork(h, 3), 30) THEN YieldFromE(e(1)) ELSE YieldE(GenOpt(ed, Fork(h, 4), 70)))
    [] k = "If" -> IfS(e(1), body(1),
                       IF Chance(Fork(h, 3), 30) THEN <<IfS(e(2), body(2), optbody(3, 50))>> ELSE optbody(4, 40))
    [] k = "While" -> WhileS(e(1), body(1), optbody(2, 30))
    [] k = "For" -> ForS(GenT(ed, Fork(h, 3), "Store"), e(1), body(1), optbody(2, 30))
    [] k = "Try" ->
         LET nh == Draw(Fork(h, 3), 3)
             hs == [i \in 1..nh |->
                      LET ty == IF i = nh /\ Chance(Fork(h, 20 + i), 40) THEN NoneN ELSE e(10 + i) IN
                      HandlerN(ty, IF ~IsNone(ty) /\ Chance(Fork(h, 30 + i), 50) THEN "e" ELSE "", body(10 + i))]
         IN IF nh = 0 THEN TryS(body(1), <<>>, <<>>, body(2))
            ELSE TryS(body(1), hs, optbody(3, 30), optbody(4, 30))
    [] k = "With" -> WithS([i \in 1..(1 + Draw(Fork(h, 3), 2)) |->
                              WithItemN(e(i), IF Chance(Fork(h, 20 + i), 50) THEN GenT(ed, Fork(h, 30 + i), "Store") ELSE NoneN)], body(1))
    [] k = "FunctionDef" ->
         FunctionDefS("f", GenArgs(ed, Fork(h, 3), TRUE), body(1), GenDecos(ed, Fork(h, 4)), GenOpt(ed, Fork(h, 5), 25))
    [] OTHER -> LET c == GenCallParts(ed, Fork(h, 3))
                    bare == Chance(Fork(h, 4), 40) IN
                ClassDefS("C", IF bare THEN <<>> ELSE c.args, IF bare THEN <<>> ELSE c.keywords,
                          IF bare THEN NoneN ELSE c.starargs, IF bare THEN NoneN ELSE c.kwargs, body(1), GenDecos(ed, Fork(h, 5)))
GenBody(ed, d, h) == [i \in 1..(1 + Draw(Fork(h, 1), 3)) |-> GenS(ed, d, Fork(h, 10 + i))]

(* ------------------------------------------------------------------------------------------ *)
(* operator forms for the exhaustive precedence / associativity cases: form f applied to a    *)
(* sequence of operands.  Forms 1..12 binary operators, 13..22 comparisons, 23..24 and/or,    *)
(* 25..28 unary operators, then the remaining expression constructors with operand slots.     *)
NForms == 35
FormArity(f) == IF f <= 24 THEN 2 ELSE IF f <= 28 THEN 1
                ELSE CASE f = 29 -> 3 [] f = 30 -> 1 [] f = 31 -> 2 [] f = 32 -> 1 [] f = 33 -> 2 [] f = 34 -> 3 [] f = 35 -> 3
FormTree(f, x) ==
  IF f <= 12 THEN BinOpE(x[1], BinOps[f].name, x[2])
  ELSE IF f <= 22 THEN CompareE(x[1], <<CmpOps[f - 12].name>>, <<x[2]>>)
  ELSE IF f <= 24 THEN BoolOpE(BoolOps[f - 22].name, <<x[1], x[2]>>)
  ELSE IF f <= 28 THEN UnaryOpE(UnaryOps[f - 24].name, x[1])
  ELSE CASE f = 29 -> IfExpE(x[1], x[2], x[3])
         [] f = 30 -> LambdaE(ArgumentsN(<<>>, NoneN, <<>>, <<>>, NoneN, <<>>), x[1])
         [] f = 31 -> CallE(x[1], <<x[2]>>, <<>>, NoneN, NoneN)
         [] f = 32 -> AttributeE(x[1], "m", "Load")
         [] f = 33 -> SubscriptE(x[1], IndexS(x[2]), "Load")
         [] f = 34 -> CompareE(x[1], <<"Lt", "In">>, <<x[2], x[3]>>)
         [] f = 35 -> BoolOpE("Or", <<x[1], x[2], x[3]>>)
AtomOps(from, n) == [i \in 1..n |-> Nm(<<"a", "b", "c", "x", "y", "f", "g", "h", "u">>[from + i], "Load")]
(* form f with form g in slot k (other slots names) *)
PairTree(f, k, g) == FormTree(f, [i \in 1..FormArity(f) |-> IF i = k THEN FormTree(g, AtomOps(3, FormArity(g))) ELSE AtomOps(0, 3)[i]])
(* form f with (form g with form e in slot l) in slot k *)
TripleTree(f, k, g, l, e) ==
  FormTree(f, [i \in 1..FormArity(f) |->
                 IF i = k THEN FormTree(g, [j \in 1..FormArity(g) |-> IF j = l THEN FormTree(e, AtomOps(6, FormArity(e))) ELSE AtomOps(3, 3)[j]])
                 ELSE AtomOps(0, 3)[i]])
(* one representative form per grammar level, for the triples *)
LevelForms == <<24, 23, 26, 15, 21, 9, 10, 11, 7, 1, 3, 28, 12, 29, 30>>

(* ------------------------------------------------------------------------------------------ *)
(* (ii a) tree -> tokens.  A token is [k |-> kind, s |-> text]; kind = text for keywords and  *)
(* operators, NAME / NUMBER / STRING otherwise; NEWLINE / INDENT / DEDENT / ENDMARKER have     *)
(* empty text.                                                                                *)
TK(k, s) == [k |-> k, s |-> s]
Op(s) == <<TK(s, s)>>
NameT(s) == <<TK("NAME", s)>>
NL == <<TK("NEWLINE", "")>>
INDENT == <<TK("INDENT", "")>>
DEDENT == <<TK("DEDENT", "")>>
ENDMARKER == <<TK("ENDMARKER", "")>>

RedundantPct == 10     \* chance of one more pair of redundant parentheses

(* items (token sequences) separated by commas; trailing = add a final comma *)
Commas(items, trailing) ==
  Concat([i \in 1..Len(items) |-> IF i < Len(items) \/ trailing THEN items[i] \o Op(",") ELSE items[i]])

(* digits of a small natural number in a base; alternative spellings of integer literals *)
RECURSIVE DigitsIn(_, _)
DigitChars == <<"0", "1", "2", "3", "4", "5", "6", "7", "8", "9", "a", "b", "c", "d", "e", "f">>
DigitsIn(v, base) == IF v < base THEN DigitChars[v + 1] ELSE DigitsIn(v \div base, base) \o DigitChars[(v % base) + 1]
NumSpell(v, h) ==
  LET k == Draw(h, 10) IN
  IF k < 6 THEN DigitsIn(v, 10)
  ELSE IF k < 7 THEN Pick(Fork(h, 1), <<"0x", "0X">>) \o DigitsIn(v, 16)
  ELSE IF k < 8 THEN Pick(Fork(h, 1), <<"0o", "0O">>) \o DigitsIn(v, 8)
  ELSE IF k < 9 THEN Pick(Fork(h, 1), <<"0b", "0B">>) \o DigitsIn(v, 2)
  ELSE IF v = 0 THEN "00" ELSE DigitsIn(v, 10)

(* spellings of a string of letters and blanks: quote kind, prefix, implicit concatenation     *)
(* (escapes are PyLiteral's subject)                                                          *)
StrPieces(s, prefix, h) ==
  LET q    == Pick(Fork(h, 1), <<"'", "\"", "'''", "\"\"\"">>)
      lit(x, hh) == TK("STRING", (((prefix \o Pick(hh, <<"", "", "", IF prefix = "" THEN "u" ELSE "", IF prefix = "" THEN "r" ELSE "">>)) \o q) \o JoinS(x)) \o q)
      n    == Len(s)
      cut  == IF n >= 1 /\ Chance(Fork(h, 2), 30) THEN Draw(Fork(h, 3), n + 1) ELSE -1
  IN IF cut = -1 THEN <<lit(s, Fork(h, 4))>>
     ELSE <<lit(SubSeq(s, 1, cut), Fork(h, 4)), lit(SubSeq(s, cut + 1, n), Fork(h, 5))>>

RECURSIVE SpellE(_, _, _, _), SpellBare(_, _), SpellTupleBare(_, _, _), SpellComps(_, _), SpellSlice(_, _), SpellCallArgs(_, _, _, _, _),
          SpellParams(_, _), SpellTarget(_, _, _)

(* e at a position that accepts grammar level p without parentheses; r = redundant pairs left *)
SpellE(e, p, h, r) ==
  IF Prec(e) < p \/ (r > 0 /\ Chance(Fork(h, 900), RedundantPct))
  THEN (Op("(") \o SpellE(e, -1, Fork(h, 901), r - 1)) \o Op(")")
  ELSE SpellBare(e, h)

SpellEs(es, p, h) == [i \in 1..Len(es) |-> SpellE(es[i], p, Fork(h, 500 + i), 1)]

(* a non-empty tuple without its own parentheses: a, b  /  a,  *)
SpellTupleBare(e, h, p) ==
  Commas([i \in 1..Len(e.elts) |->
            IF e.elts[i].t = "Starred" THEN Op("*") \o SpellE(e.elts[i].value, 6, Fork(h, 500 + i), 1)
            ELSE SpellE(e.elts[i], p, Fork(h, 500 + i), 1)],
         Len(e.elts) = 1 \/ Chance(Fork(h, 2), 25))

(* list-like element sequence with starred elements (targets) *)
SpellElts(es, h) ==
  [i \in 1..Len(es) |-> IF es[i].t = "Starred" THEN Op("*") \o SpellE(es[i].value, 6, Fork(h, 500 + i), 1)
                        ELSE SpellE(es[i], 1, Fork(h, 500 + i), 1)]

SpellComps(gs, h) ==
  Concat([i \in 1..Len(gs) |->
     (((Op("for") \o SpellTarget(gs[i].target, Fork(h, 10 + i), TRUE)) \o Op("in")) \o SpellE(gs[i].iter, 2, Fork(h, 20 + i), 1))
     \o Concat([j \in 1..Len(gs[i].ifs) |-> Op("if") \o SpellE(gs[i].ifs[j], 2, Fork(h, 100 * i + j), 1)])])

(* a target in an exprlist / with / for position: a tuple may be bare only where bare = TRUE *)
SpellTarget(tg, h, bare) ==
  IF tg.t = "Tuple" /\ tg.elts # <<>> /\ bare /\ Chance(Fork(h, 1), 60) THEN SpellTupleBare(tg, Fork(h, 2), 6)
  ELSE IF tg.t = "Starred" THEN Op("*") \o SpellE(tg.value, 6, Fork(h, 3), 1)
  ELSE SpellE(tg, 6, Fork(h, 3), 1)

SpellSlice(sl, h) ==
  LET opt(x, hh) == IF IsNone(x) THEN <<>> ELSE SpellE(x, 1, hh, 1)
      one(s, hh) ==
        IF s.t = "Index" THEN SpellE(s.value, 1, hh, 1)
        ELSE ((opt(s.lower, Fork(hh, 1)) \o Op(":")) \o opt(s.upper, Fork(hh, 2)))
             \o (IF ~IsNone(s.step) THEN Op(":") \o SpellE(s.step, 1, Fork(hh, 3), 1)
                 ELSE IF Chance(Fork(hh, 4), 20) THEN Op(":") ELSE <<>>)
  IN IF sl.t = "Index" THEN
          IF sl.value.t = "Tuple" /\ sl.value.elts # <<>> /\ Chance(Fork(h, 1), 70) THEN SpellTupleBare(sl.value, Fork(h, 2), 1)
          ELSE SpellE(sl.value, 1, Fork(h, 2), 1)
     ELSE IF sl.t = "Slice" THEN one(sl, Fork(h, 2))
     ELSE Commas([i \in 1..Len(sl.dims) |-> one(sl.dims[i], Fork(h, 10 + i))], Chance(Fork(h, 3), 20))

(* arglist of a call / class definition.  Keyword arguments may stand on either side of *x.   *)
SpellCallArgs(args, kws, star, kw, h) ==
  LET kwtoks(i) == (NameT(kws[i].arg) \o Op("=")) \o SpellE(kws[i].value, 1, Fork(h, 30 + i), 1)
      nk    == Len(kws)
      split == IF IsNone(star) THEN nk ELSE Draw(Fork(h, 1), nk + 1)     \* keywords 1..split stand before *x
      pos   == [i \in 1..Len(args) |->
                  IF args[i].t = "GeneratorExp" /\ Len(args) = 1 /\ nk = 0 /\ IsNone(star) /\ IsNone(kw) /\ Chance(Fork(h, 2), 60)
                  THEN (SpellE(args[i].elt, 1, Fork(h, 3), 1) \o SpellComps(args[i].generators, Fork(h, 4)))    \* f(x for x in y)
                  ELSE SpellE(args[i], 1, Fork(h, 10 + i), 1)]
      soleGen == Len(args) = 1 /\ args[1].t = "GeneratorExp" /\ nk = 0 /\ IsNone(star) /\ IsNone(kw)
      items == ((pos \o [i \in 1..split |-> kwtoks(i)])
                \o (IF IsNone(star) THEN <<>> ELSE << Op("*") \o SpellE(star, 1, Fork(h, 5), 1) >>))
               \o ([i \in 1..(nk - split) |-> kwtoks(split + i)]
                   \o (IF IsNone(kw) THEN <<>> ELSE << Op("**") \o SpellE(kw, 1, Fork(h, 6), 1) >>))
  IN Commas(items, items # <<>> /\ IsNone(star) /\ IsNone(kw) /\ ~soleGen /\ Chance(Fork(h, 7), 20))

(* parameter list of def (annotations) / lambda *)
SpellParams(a, h) ==
  LET ann(x, hh) == NameT(x.arg) \o (IF IsNone(x.annotation) THEN <<>> ELSE Op(":") \o SpellE(x.annotation, 1, hh, 1))
      na == Len(a.args)
      nd == Len(a.defaults)
      plain == [i \in 1..na |-> ann(a.args[i], Fork(h, 10 + i))
                                \o (IF i > na - nd THEN Op("=") \o SpellE(a.defaults[i - (na - nd)], 1, Fork(h, 20 + i), 1) ELSE <<>>)]
      starp == IF ~IsNone(a.vararg) THEN << Op("*") \o ann(a.vararg, Fork(h, 3)) >>
               ELSE IF a.kwonlyargs # <<>> THEN << Op("*") >> ELSE <<>>
      kwo == [i \in 1..Len(a.kwonlyargs) |-> ann(a.kwonlyargs[i], Fork(h, 30 + i))
                                \o (IF IsNone(a.kw_defaults[i]) THEN <<>> ELSE Op("=") \o SpellE(a.kw_defaults[i], 1, Fork(h, 40 + i), 1))]
      dstar == IF IsNone(a.kwarg) THEN <<>> ELSE << Op("**") \o ann(a.kwarg, Fork(h, 4)) >>
      items == ((plain \o starp) \o kwo) \o dstar
  IN Commas(items, items # <<>> /\ starp = <<>> /\ dstar = <<>> /\ Chance(Fork(h, 5), 15))

SpellBare(e, h) ==
  CASE e.t = "Name" -> NameT(e.id)
    [] e.t = "Num" -> <<TK("NUMBER", NumSpell(e.n, Fork(h, 1)))>>
    [] e.t = "Str" -> StrPieces(e.s, "", Fork(h, 1))
    [] e.t = "Bytes" -> StrPieces(e.s, Pick(Fork(h, 2), <<"b", "B", "br", "rb", "bR", "Rb">>), Fork(h, 1))
    [] e.t = "NameConstant" -> Op(e.value)
    [] e.t = "Ellipsis" -> Op("...")
    [] e.t = "BinOp" ->
         LET o == BinOpNamed(e.op) IN
         IF e.op = "Pow" THEN (SpellE(e.left, 14, Fork(h, 1), 1) \o Op("**")) \o SpellE(e.right, 12, Fork(h, 2), 1)
         ELSE (SpellE(e.left, o.p, Fork(h, 1), 1) \o Op(o.s)) \o SpellE(e.right, o.p + 1, Fork(h, 2), 1)
    [] e.t = "UnaryOp" -> LET o == UnaryOpNamed(e.op) IN Op(o.s) \o SpellE(e.operand, o.p, Fork(h, 1), 1)
    [] e.t = "BoolOp" ->
         LET o == BoolOpNamed(e.op) IN
         Concat([i \in 1..Len(e.values) |-> (IF i > 1 THEN Op(o.s) ELSE <<>>) \o SpellE(e.values[i], o.p + 1, Fork(h, 10 + i), 1)])
    [] e.t = "Compare" ->
         SpellE(e.left, 6, Fork(h, 1), 1)
         \o Concat([i \in 1..Len(e.ops) |->
                      Concat([j \in 1..Len(CmpOpNamed(e.ops[i]).s) |-> Op(CmpOpNamed(e.ops[i]).s[j])])
                      \o SpellE(e.comparators[i], 6, Fork(h, 10 + i), 1)])
    [] e.t = "IfExp" -> (((SpellE(e.body, 2, Fork(h, 1), 1) \o Op("if")) \o SpellE(e.test, 2, Fork(h, 2), 1)) \o Op("else"))
                        \o SpellE(e.orelse, 1, Fork(h, 3), 1)
    [] e.t = "Lambda" -> ((Op("lambda") \o SpellParams(e.args, Fork(h, 1))) \o Op(":")) \o SpellE(e.body, 1, Fork(h, 2), 1)
    [] e.t = "Call" -> ((SpellE(e.func, 14, Fork(h, 1), 1) \o Op("("))
                        \o SpellCallArgs(e.args, e.keywords, e.starargs, e.kwargs, Fork(h, 2))) \o Op(")")
    [] e.t = "Attribute" -> (SpellE(e.value, 14, Fork(h, 1), 1) \o Op(".")) \o NameT(e.attr)
    [] e.t = "Subscript" -> ((SpellE(e.value, 14, Fork(h, 1), 1) \o Op("[")) \o SpellSlice(e.slice, Fork(h, 2))) \o Op("]")
    [] e.t = "Starred" -> Op("*") \o SpellE(e.value, 6, Fork(h, 1), 1)
    [] e.t = "Tuple" -> IF e.elts = <<>> THEN Op("(") \o Op(")") ELSE SpellTupleBare(e, Fork(h, 1), 1)
    [] e.t = "List" -> (Op("[") \o Commas(SpellElts(e.elts, Fork(h, 1)), e.elts # <<>> /\ Chance(Fork(h, 2), 20))) \o Op("]")
    [] e.t = "Set" -> (Op("{") \o Commas(SpellEs(e.elts, 1, Fork(h, 1)), Chance(Fork(h, 2), 20))) \o Op("}")
    [] e.t = "Dict" ->
         (Op("{") \o Commas([i \in 1..Len(e.keys) |-> (SpellE(e.keys[i], 1, Fork(h, 10 + i), 1) \o Op(":")) \o SpellE(e.values[i], 1, Fork(h, 20 + i), 1)],
                            e.keys # <<>> /\ Chance(Fork(h, 2), 20))) \o Op("}")
    [] e.t = "ListComp" -> ((Op("[") \o SpellE(e.elt, 1, Fork(h, 1), 1)) \o SpellComps(e.generators, Fork(h, 2))) \o Op("]")
    [] e.t = "SetComp" -> ((Op("{") \o SpellE(e.elt, 1, Fork(h, 1), 1)) \o SpellComps(e.generators, Fork(h, 2))) \o Op("}")
    [] e.t = "DictComp" -> ((((Op("{") \o SpellE(e.key, 1, Fork(h, 1), 1)) \o Op(":")) \o SpellE(e.value, 1, Fork(h, 3), 1))
                            \o SpellComps(e.generators, Fork(h, 2))) \o Op("}")
    [] e.t = "GeneratorExp" -> ((Op("(") \o SpellE(e.elt, 1, Fork(h, 1), 1)) \o SpellComps(e.generators, Fork(h, 2))) \o Op(")")
    [] e.t = "Yield" -> Op("yield") \o (IF IsNone(e.value) THEN <<>> ELSE SpellE(e.value, 0, Fork(h, 1), 1))
    [] e.t = "YieldFrom" -> (Op("yield") \o Op("from")) \o SpellE(e.value, 1, Fork(h, 1), 1)

(* a testlist_star_expr position (expression statement, assignment target or value) *)
SpellTestlistStar(e, h) ==
  IF e.t = "Tuple" /\ e.elts # <<>> /\ Chance(Fork(h, 1), 70) THEN SpellTupleBare(e, Fork(h, 2), 1)
  ELSE IF e.t = "Starred" THEN Op("*") \o SpellE(e.value, 6, Fork(h, 3), 1)
  ELSE SpellE(e, 0, Fork(h, 3), 1)
(* a position that also admits a bare yield (right-hand sides, expression statements) *)
SpellValue(e, h) == IF e.t \in {"Yield", "YieldFrom"} /\ Chance(Fork(h, 4), 80) THEN SpellBare(e, Fork(h, 5)) ELSE SpellTestlistStar(e, h)

(* statements.  A simple statement yields its tokens without NEWLINE; a compound statement    *)
(* yields complete logical lines.                                                             *)
RECURSIVE SpellSimple(_, _), SpellCompound(_, _), SpellSuite(_, _), SpellBlock(_, _)
IsSimple(s) == s.t \notin {"If", "While", "For", "Try", "With", "FunctionDef", "ClassDef"}
SpellDotted(parts) ==   \* <<"a", "b">> -> a . b
  Concat([i \in 1..Len(parts) |-> (IF i > 1 THEN Op(".") ELSE <<>>) \o NameT(parts[i])])
SpellAlias(a) == (IF a.name = <<"*">> THEN Op("*") ELSE SpellDotted(a.name)) \o (IF a.asname = "" THEN <<>> ELSE Op("as") \o NameT(a.asname))
SpellLevel(n, h) ==   \* n leading dots, as '.' and '...' tokens
  IF n >= 3 /\ Chance(Fork(h, 1), 70) THEN Op("...") \o [i \in 1..(n - 3) |-> TK(".", ".")]
  ELSE [i \in 1..n |-> TK(".", ".")]
SpellSimple(s, h) ==
  CASE s.t = "Expr" -> SpellValue(s.value, Fork(h, 1))
    [] s.t = "Assign" -> Concat([i \in 1..Len(s.targets) |-> SpellTestlistStar(s.targets[i], Fork(h, 10 + i)) \o Op("=")])
                         \o SpellValue(s.value, Fork(h, 1))
    [] s.t = "AugAssign" -> (SpellE(s.target, 1, Fork(h, 1), 1) \o Op(BinOpNamed(s.op).s \o "="))
                            \o (IF s.value.t \in {"Yield", "YieldFrom"} THEN SpellBare(s.value, Fork(h, 2))
                                ELSE IF s.value.t = "Tuple" /\ s.value.elts # <<>> /\ Chance(Fork(h, 3), 70) THEN SpellTupleBare(s.value, Fork(h, 2), 1)
                                ELSE SpellE(s.value, 0, Fork(h, 2), 1))
    [] s.t = "Return" -> Op("return") \o (IF IsNone(s.value) THEN <<>>
                                          ELSE IF s.value.t = "Tuple" /\ s.value.elts # <<>> /\ Chance(Fork(h, 3), 70) THEN SpellTupleBare(s.value, Fork(h, 2), 1)
                                          ELSE SpellE(s.value, 0, Fork(h, 1), 1))
    [] s.t = "Pass" -> Op("pass")
    [] s.t = "Break" -> Op("break")
    [] s.t = "Continue" -> Op("continue")
    [] s.t = "Raise" -> (Op("raise") \o (IF IsNone(s.exc) THEN <<>> ELSE SpellE(s.exc, 1, Fork(h, 1), 1)))
                        \o (IF IsNone(s.cause) THEN <<>> ELSE Op("from") \o SpellE(s.cause, 1, Fork(h, 2), 1))
    [] s.t = "Global" -> Op("global") \o Commas([i \in 1..Len(s.names) |-> NameT(s.names[i])], FALSE)
    [] s.t = "Nonlocal" -> Op("nonlocal") \o Commas([i \in 1..Len(s.names) |-> NameT(s.names[i])], FALSE)
    [] s.t = "Import" -> Op("import") \o Commas([i \in 1..Len(s.names) |-> SpellAlias(s.names[i])], FALSE)
    [] s.t = "ImportFrom" ->
         LET names == [i \in 1..Len(s.names) |-> SpellAlias(s.names[i])]
             star  == s.names[1].name = <<"*">>
             paren == ~star /\ Chance(Fork(h, 2), 30)
         IN (((Op("from") \o SpellLevel(s.level, Fork(h, 1))) \o SpellDotted(s.module)) \o Op("import"))
            \o (IF paren THEN (Op("(") \o Commas(names, Chance(Fork(h, 3), 30))) \o Op(")") ELSE Commas(names, FALSE))
    [] s.t = "Delete" -> Op("del") \o Commas([i \in 1..Len(s.targets) |-> SpellE(s.targets[i], 6, Fork(h, 10 + i), 1)],
                                             Chance(Fork(h, 1), 15))
    [] s.t = "Assert" -> (Op("assert") \o SpellE(s.test, 1, Fork(h, 1), 1))
                         \o (IF IsNone(s.msg) THEN <<>> ELSE Op(",") \o SpellE(s.msg, 1, Fork(h, 2), 1))

(* a run of statements as logical lines; consecutive simple statements may share a line *)
SpellBlock(ss, h) ==
  LET step(a, i) ==
        IF IsSimple(ss[i]) THEN
             IF a.open /\ Chance(Fork(h, 100 + i), 35)
             THEN [a EXCEPT !.cur = (@ \o Op(";")) \o SpellSimple(ss[i], Fork(h, 200 + i))]
             ELSE [a EXCEPT !.out = @ \o (IF a.open THEN (a.cur \o (IF Chance(Fork(h, 300 + i), 10) THEN Op(";") ELSE <<>>)) \o NL ELSE <<>>),
                            !.cur = SpellSimple(ss[i], Fork(h, 200 + i)), !.open = TRUE]
        ELSE [a EXCEPT !.out = (@ \o (IF a.open THEN (a.cur \o (IF Chance(Fork(h, 300 + i), 10) THEN Op(";") ELSE <<>>)) \o NL ELSE <<>>))
                                \o SpellCompound(ss[i], Fork(h, 200 + i)),
                       !.cur = <<>>, !.open = FALSE]
      r == FoldLeft(step, [out |-> <<>>, cur |-> <<>>, open |-> FALSE], [i \in 1..Len(ss) |-> i])
  IN r.out \o (IF r.open THEN (r.cur \o (IF Chance(Fork(h, 1), 10) THEN Op(";") ELSE <<>>)) \o NL ELSE <<>>)

(* suite after ':' : either the simple statements on the same line, or an indented block *)
SpellSuite(ss, h) ==
  IF (\A i \in 1..Len(ss) : IsSimple(ss[i])) /\ Chance(Fork(h, 1), 30)
  THEN Concat([i \in 1..Len(ss) |-> (IF i > 1 THEN Op(";") ELSE <<>>) \o SpellSimple(ss[i], Fork(h, 10 + i))])
       \o ((IF Chance(Fork(h, 2), 10) THEN Op(";") ELSE <<>>) \o NL)
  ELSE ((NL \o INDENT) \o SpellBlock(ss, Fork(h, 3))) \o DEDENT

SpellDecorator(d, h) ==
  LET dotted(x) == IF x.t = "Name" THEN NameT(x.id) ELSE (NameT(x.value.id) \o Op(".")) \o NameT(x.attr) IN
  (Op("@") \o (IF d.t = "Call" THEN ((dotted(d.func) \o Op("(")) \o SpellCallArgs(d.args, d.keywords, d.starargs, d.kwargs, h)) \o Op(")")
               ELSE dotted(d))) \o NL

RECURSIVE SpellElse(_, _)
SpellElse(orelse, h) ==   \* else-part of an if: elif chain or else
  IF orelse = <<>> THEN <<>>
  ELSE IF Len(orelse) = 1 /\ orelse[1].t = "If" /\ Chance(Fork(h, 1), 75)
       THEN (((Op("elif") \o SpellE(orelse[1].test, 1, Fork(h, 2), 1)) \o Op(":")) \o SpellSuite(orelse[1].body, Fork(h, 3)))
            \o SpellElse(orelse[1].orelse, Fork(h, 4))
       ELSE (Op("else") \o Op(":")) \o SpellSuite(orelse, Fork(h, 5))
SpellOptElse(orelse, h) == IF orelse = <<>> THEN <<>> ELSE (Op("else") \o Op(":")) \o SpellSuite(orelse, h)

SpellCompound(s, h) ==
  CASE s.t = "If" -> (((Op("if") \o SpellE(s.test, 1, Fork(h, 1), 1)) \o Op(":")) \o SpellSuite(s.body, Fork(h, 2))) \o SpellElse(s.orelse, Fork(h, 3))
    [] s.t = "While" -> (((Op("while") \o SpellE(s.test, 1, Fork(h, 1), 1)) \o Op(":")) \o SpellSuite(s.body, Fork(h, 2))) \o SpellOptElse(s.orelse, Fork(h, 3))
    [] s.t = "For" -> (((((Op("for") \o SpellTarget(s.target, Fork(h, 1), TRUE)) \o Op("in"))
                         \o (IF s.iter.t = "Tuple" /\ s.iter.elts # <<>> /\ Chance(Fork(h, 4), 60) THEN SpellTupleBare(s.iter, Fork(h, 5), 1)
                             ELSE SpellE(s.iter, 0, Fork(h, 5), 1)))
                        \o Op(":")) \o SpellSuite(s.body, Fork(h, 2))) \o SpellOptElse(s.orelse, Fork(h, 3))
    [] s.t = "Try" ->
         ((((Op("try") \o Op(":")) \o SpellSuite(s.body, Fork(h, 1)))
           \o Concat([i \in 1..Len(s.handlers) |->
                 (((Op("except") \o (IF IsNone(s.handlers[i].type) THEN <<>> ELSE SpellE(s.handlers[i].type, 1, Fork(h, 10 + i), 1)))
                   \o (IF s.handlers[i].name = "" THEN <<>> ELSE Op("as") \o NameT(s.handlers[i].name)))
                  \o Op(":")) \o SpellSuite(s.handlers[i].body, Fork(h, 20 + i))]))
          \o SpellOptElse(s.orelse, Fork(h, 2)))
         \o (IF s.finalbody = <<>> THEN <<>> ELSE (Op("finally") \o Op(":")) \o SpellSuite(s.finalbody, Fork(h, 3)))
    [] s.t = "With" ->
         ((Op("with") \o Commas([i \in 1..Len(s.items) |->
                                   SpellE(s.items[i].context_expr, 1, Fork(h, 10 + i), 1)
                                   \o (IF IsNone(s.items[i].optional_vars) THEN <<>> ELSE Op("as") \o SpellTarget(s.items[i].optional_vars, Fork(h, 20 + i), FALSE))],
                                FALSE)) \o Op(":")) \o SpellSuite(s.body, Fork(h, 1))
    [] s.t = "FunctionDef" ->
         Concat([i \in 1..Len(s.decorator_list) |-> SpellDecorator(s.decorator_list[i], Fork(h, 10 + i))])
         \o (((((((Op("def") \o NameT(s.name)) \o Op("(")) \o SpellParams(s.args, Fork(h, 1))) \o Op(")"))
               \o (IF IsNone(s.returns) THEN <<>> ELSE Op("->") \o SpellE(s.returns, 1, Fork(h, 2), 1))) \o Op(":"))
             \o SpellSuite(s.body, Fork(h, 3)))
    [] s.t = "ClassDef" ->
         Concat([i \in 1..Len(s.decorator_list) |-> SpellDecorator(s.decorator_list[i], Fork(h, 10 + i))])
         \o ((((Op("class") \o NameT(s.name))
               \o (IF s.bases = <<>> /\ s.keywords = <<>> /\ IsNone(s.starargs) /\ IsNone(s.kwargs) /\ Chance(Fork(h, 1), 70) THEN <<>>
                   ELSE (Op("(") \o SpellCallArgs(s.bases, s.keywords, s.starargs, s.kwargs, Fork(h, 2))) \o Op(")")))
              \o Op(":")) \o SpellSuite(s.body, Fork(h, 3)))

SpellMod(m, h) ==
  IF m.t = "Module" THEN SpellBlock(m.body, h) \o ENDMARKER
  ELSE \* Expression (eval_input): testlist NEWLINE* ENDMARKER
       ((IF m.body.t = "Tuple" /\ m.body.elts # <<>> /\ Chance(Fork(h, 1), 70) THEN SpellTupleBare(m.body, Fork(h, 2), 1)
         ELSE SpellE(m.body, 0, Fork(h, 2), 1)) \o NL) \o ENDMARKER

(* ------------------------------------------------------------------------------------------ *)
(* (ii b) tokens -> physical lines (PyLex items; a token item also carries its text s)        *)
Keywords == {"False", "None", "True", "and", "as", "assert", "break", "class", "continue", "def", "del", "elif", "else", "except",
             "finally", "for", "from", "global", "if", "import", "in", "is", "lambda", "nonlocal", "not", "or", "pass", "raise",
             "return", "try", "while", "with", "yield"}
OpToks == {"+", "-", "*", "/", "%", "@", "<", ">", "=", "&", "|", "^", "~", ".", "...", "**", "//", "<<", ">>", "<=", ">=", "==", "!=", "->",
           "+=", "-=", "*=", "/=", "%=", "&=", "|=", "^=", "<<=", ">>=", "**=", "//="}
IsWord(tk) == tk.k \in {"NAME", "NUMBER"} \/ tk.k \in Keywords
IsOpTok(tk) == tk.k \in OpToks
(* must the two tokens be separated by white space?  Conservative: yes whenever joining them   *)
(* could change the tokenisation.  (No operator token continues with + - ~ after a shorter     *)
(* operator, so a unary sign may follow an operator directly: a--b, a**-b.)                    *)
NeedSpace(a, b) ==
  \/ IsWord(a) /\ (IsWord(b) \/ b.k = "STRING")
  \/ a.k = "NUMBER" /\ b.k \in {".", "..."}
  \/ a.k = "STRING" /\ b.k = "STRING"
  \/ a.k \in {".", "..."} /\ b.k = "NUMBER"
  \/ IsOpTok(a) /\ IsOpTok(b) /\ b.k \notin {"-", "+", "~"}

TokItem(tk) == [k |-> "tok", n |-> 0, t |-> tk.k, s |-> tk.s]
WsItem(n) == [k |-> "ws", n |-> n, t |-> "", s |-> ""]
TabItem == [k |-> "tab", n |-> 1, t |-> "", s |-> ""]
FfItem == [k |-> "ff", n |-> 1, t |-> "", s |-> ""]
CommentItem(s) == [k |-> "comment", n |-> 0, t |-> "", s |-> s]
BslashItem == [k |-> "bslash", n |-> 0, t |-> "", s |-> ""]
Comments == <<"#", "# c", "#!x(", "# \"\"\"", "#\\">>

IndentUnits == << <<WsItem(4)>>, <<WsItem(4)>>, <<WsItem(2)>>, <<WsItem(1)>>, <<WsItem(8)>>, <<TabItem>>, <<WsItem(3)>> >>
AnyLead(h) == Pick(h, << <<>>, <<>>, <<WsItem(1)>>, <<WsItem(4)>>, <<TabItem>>, <<WsItem(2), TabItem>>, <<WsItem(7)>> >>)
Gap(h) == Pick(h, << <<WsItem(1)>>, <<WsItem(1)>>, <<WsItem(1)>>, <<WsItem(2)>>, <<TabItem>>, <<WsItem(1), TabItem>> >>)

(* Layout options: lay = [plain (no optional white space, comments, breaks), ff (form feeds)] *)
Layout(toks, h, lay) ==
  LET N == Len(toks)
      fancy(hh, pct) == ~lay.plain /\ Chance(hh, pct)
      \* lines that do not belong to any logical line: blank / white space / comment only
      filler(hh) == IF fancy(Fork(hh, 1), 12)
                    THEN << (IF lay.ff /\ Chance(Fork(hh, 5), 30) THEN <<FfItem>> ELSE <<>>) \o AnyLead(Fork(hh, 2))
                            \o (IF Chance(Fork(hh, 3), 60) THEN <<CommentItem(Pick(Fork(hh, 4), Comments))>> ELSE <<>>) >>
                    ELSE <<>>
      endline(hh) == IF fancy(Fork(hh, 1), 12) THEN Gap(Fork(hh, 2)) \o <<CommentItem(Pick(Fork(hh, 3), Comments))>>
                     ELSE IF fancy(Fork(hh, 4), 8) THEN Gap(Fork(hh, 5)) ELSE <<>>
      step(a, i) ==
        LET tk == toks[i]
            hh == Fork(h, i)
        IN
        IF tk.k = "NEWLINE" THEN
             [a EXCEPT !.lines = Append(@, a.cur \o endline(Fork(hh, 1))) \o filler(Fork(hh, 2)), !.cur = <<>>, !.first = TRUE]
        ELSE IF tk.k = "INDENT" THEN [a EXCEPT !.ind = Append(@, PLTop(@) \o Pick(Fork(hh, 1), IndentUnits))]
        ELSE IF tk.k = "DEDENT" THEN [a EXCEPT !.ind = SubSeq(@, 1, Len(@) - 1)]
        ELSE IF tk.k = "ENDMARKER" THEN a
        ELSE LET prev  == IF a.first THEN tk ELSE a.last
                 depth == a.depth
                 \* separator between prev and tk (not at the start of a logical line)
                 brk   == ~a.first /\ depth > 0 /\ fancy(Fork(hh, 1), 10)          \* line break inside brackets
                 bsl   == ~a.first /\ ~brk /\ fancy(Fork(hh, 2), 4)               \* backslash continuation
                 sep   == IF a.first THEN (IF lay.ff /\ Chance(Fork(hh, 8), 10) THEN <<FfItem>> ELSE <<>>) \o PLTop(a.ind)
                          ELSE IF NeedSpace(prev, tk) THEN Gap(Fork(hh, 3))
                          ELSE IF lay.plain THEN <<WsItem(1)>>
                          ELSE IF Chance(Fork(hh, 4), 55) THEN Gap(Fork(hh, 3)) ELSE <<>>
                 d2    == IF tk.s \in PLOpen THEN depth + 1 ELSE IF tk.s \in PLClose THEN depth - 1 ELSE depth
             IN IF brk THEN [a EXCEPT !.lines = (Append(@, a.cur \o endline(Fork(hh, 5))) \o filler(Fork(hh, 6))),
                                      !.cur = AnyLead(Fork(hh, 7)) \o <<TokItem(tk)>>, !.last = tk, !.depth = d2]
                ELSE IF bsl THEN [a EXCEPT !.lines = Append(@, (a.cur \o (IF Chance(Fork(hh, 5), 70) THEN Gap(Fork(hh, 6)) ELSE <<>>)) \o <<BslashItem>>),
                                           !.cur = AnyLead(Fork(hh, 7)) \o <<TokItem(tk)>>, !.last = tk, !.depth = d2]
                ELSE [a EXCEPT !.cur = (@ \o sep) \o <<TokItem(tk)>>, !.last = tk, !.first = FALSE, !.depth = d2]
      r == FoldLeft(step, [lines |-> filler(Fork(h, 9001)), cur |-> <<>>, first |-> TRUE, last |-> TK("", ""), depth |-> 0, ind |-> << <<>> >>],
                    [i \in 1..N |-> i])
  IN r.lines

TokKinds(toks) == [i \in 1..Len(toks) |-> toks[i].k]

(* the text of the items, line by line (the line terminator is chosen by the case) *)
Spaces == <<" ", "  ", "   ", "    ", "     ", "      ", "       ", "        ">>
ItemText(it) == CASE it.k = "ws" -> Spaces[it.n] [] it.k = "tab" -> "\t" [] it.k = "ff" -> "\f" [] it.k = "bslash" -> "\\" [] OTHER -> it.s
LinesText(lines) == [l \in 1..Len(lines) |-> JoinS([k \in 1..Len(lines[l]) |-> ItemText(lines[l][k])])]
=============================================================================
