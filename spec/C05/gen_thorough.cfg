\* every history of 4 next/send("a") calls on 2 live generators x every pair of the 14 templates
SPECIFICATION SpecCalls
CONSTANTS
  NTop = 2
  MaxOps = 4
  NB = 14
  MaxMicro = 80
  MaxOpsOne = 0
  LockChoices <- NoTops
  Bodies <- B
  SendVals <- SendQuick
  TopChoices <- TopsWithValues
INVARIANTS RunComplete TypeOK DoneAbsorbing DoneStatus SendCreated LazyCreation Quiescent SuspendedAtYield Emit
CHECK_DEADLOCK FALSE
