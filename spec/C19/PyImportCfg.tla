---------------------------- MODULE PyImportCfg ----------------------------
(* Configurations of the import model: which modules exist, what their bodies contain, what   *)
(* the main program imports.  No variables here; PyImport (the semantics) extends this module. *)
(* CfgOK is the whole family; the named families below are the exhaustively explored parts.  *)
EXTENDS Integers, Sequences, FiniteSets, TLC

CONSTANT Mods                 \* importable modules, e.g. {"ma", "mb", "mc"}

Main    == "main"
Missing == "nx"               \* a module that exists nowhere (no file, no registered implementation)
All     == Mods \cup {Main}
Targets == Mods \cup {Missing}

(* The five statement forms of C19 plus a from-import of a name the module never defines.    *)
Forms == {"import", "import_as", "from", "from_as", "star", "from_missing"}
ModuleForms == {"import", "import_as"}       \* bind the module object
NameForms   == {"from", "from_as"}           \* bind the value of the module's v

StmtsOver(forms, targets) == { [form |-> f, t |-> t] : f \in forms, t \in targets }
(* from t import u [as mx]  where u is the NAME OF A MODULE: succeeds only if t really has an attribute u   *)
(* (t's body executed  import u ,  from x import u  or a star-import that copied it), whatever the module   *)
(* table holds under u - loaded before, later or never.                                                      *)
ModNameForms == {"frommod", "frommod_as"}
ModNameStmts(targets, names) == { [form |-> f, t |-> t, u |-> u] : f \in ModNameForms, t \in targets, u \in names }
ImportForms == Forms \cup ModNameForms
AnyStmt == StmtsOver(Forms, Targets) \cup ModNameStmts(Targets, Mods)

(* Names a namespace can hold.  Every source module binds v, _h and pub in one step of its    *)
(* body ("set"); w is only ever bound by  from t import v as w.                               *)
Names   == {"v", "_h", "pub", "w"}
Private == {"_h"}                            \* the names starting with an underscore
Unbound == "-"
EmptyNs == [n \in Names |-> Unbound]

(* __all__ of a module: absent / [] / () / ['v'] (pub is public but not listed) / ['v', '_h'] (an underscore  *)
(* name listed) / ['v', 'zz'] (zz is never defined)                                                             *)
AllVariants == {"no", "empty", "emptyt", "v", "vh", "vz"}
AllList(a) == CASE a = "v" -> <<"v">> [] a = "vh" -> <<"v", "_h">> [] a = "vz" -> <<"v", "zz">> [] OTHER -> <<>>
RaiseVariants == {"no", "early", "late"}     \* the body raises ValueError right after its first line / just before its last
Kinds == {"src", "gosrc", "goglob", "late"}  \* file on sys.path / registered Go ModuleImpl with Python CodeSrc / registered Go ModuleImpl with Globals only
                                             \* / file in a directory that is appended to sys.path only by the main program's "addpath" statement
AddPathStmt == [form |-> "addpath", t |-> "-"]

(* cfg = [mods |-> [m \in Mods |-> [kind, pre, post, all, raises]], main |-> sequence of statements] *)
ModOK(c) == /\ c.kind \in Kinds /\ c.all \in AllVariants /\ c.raises \in RaiseVariants
            /\ Len(c.pre) <= 2 /\ Len(c.post) <= 2
            /\ \A i \in 1..Len(c.pre) : c.pre[i] \in AnyStmt
            /\ \A i \in 1..Len(c.post) : c.post[i] \in AnyStmt
            /\ (c.kind = "goglob" => c.pre = <<>> /\ c.post = <<>> /\ c.raises = "no")
CfgOK(c) == /\ DOMAIN c.mods = Mods /\ \A m \in Mods : ModOK(c.mods[m])
            /\ Len(c.main) \in 1..4 /\ \A i \in 1..Len(c.main) : c.main[i] \in AnyStmt \cup {AddPathStmt}

Plain(pre, post) == [kind |-> "src", pre |-> pre, post |-> post, all |-> "no", raises |-> "no"]

(* --- family "graph": every module has at most one import statement, before or after it     *)
(* defines its names; the main program imports one module in any way and then  import ma.     *)
(* This is every import graph with out-degree <= 1 per module (cycles, chains, self-imports)  *)
(* x statement forms x which module is imported first.                                        *)
OneImport(forms) ==
  {[pre |-> <<>>, post |-> <<>>]} \cup {[pre |-> <<s>>, post |-> <<>>] : s \in StmtsOver(forms, Mods)}
                                  \cup {[pre |-> <<>>, post |-> <<s>>] : s \in StmtsOver(forms, Mods)}
GraphFamily(forms) ==
  { [mods |-> [m \in Mods |-> Plain(f[m].pre, f[m].post)], main |-> <<s, [form |-> "import", t |-> "ma"]>>] :
      f \in [Mods -> OneImport(forms)], s \in StmtsOver(forms, Mods) }
UniformFamily(forms) == UNION { GraphFamily({f}) : f \in forms }

(* The model treats module names uniformly, so two graph configurations that differ only by   *)
(* exchanging the names mb and mc have the same behaviours up to that renaming.  The quick    *)
(* tier explores one representative of each such pair (the one with the smaller code).        *)
FormNo(f) == CASE f = "import" -> 0 [] f = "import_as" -> 1 [] f = "from" -> 2 [] f = "from_as" -> 3 [] f = "star" -> 4 [] OTHER -> 5
ModNo(t)  == CASE t = "ma" -> 0 [] t = "mb" -> 1 [] t = "mc" -> 2 [] t = "md" -> 3 [] OTHER -> 4
StmtNo(s) == FormNo(s.form) * 5 + ModNo(s.t)
PPNo(c)   == IF c.pre # <<>> THEN 1 + StmtNo(c.pre[1]) ELSE IF c.post # <<>> THEN 31 + StmtNo(c.post[1]) ELSE 0
CodeOf(c) == ((PPNo(c.mods["ma"]) * 61 + PPNo(c.mods["mb"])) * 61 + PPNo(c.mods["mc"])) * 30 + StmtNo(c.main[1])
SwapName(n) == IF n = "mb" THEN "mc" ELSE IF n = "mc" THEN "mb" ELSE n
SwapStmts(q) == IF q = <<>> THEN <<>> ELSE << [q[1] EXCEPT !.t = SwapName(@)] >>
SwapCfg(c) == [mods |-> [m \in Mods |-> [c.mods[SwapName(m)] EXCEPT !.pre = SwapStmts(@), !.post = SwapStmts(@)]],
               main |-> << [c.main[1] EXCEPT !.t = SwapName(@)], c.main[2] >>]
GraphFamilySym(forms) == { c \in GraphFamily(forms) : CodeOf(c) <= CodeOf(SwapCfg(c)) }

(* --- family "diamond": two import statements in ma (two paths to the same module); the main  *)
(* program imports ma under another name and then again as ma.                                *)
TwoImports(forms) == { [pre |-> <<s1>>, post |-> <<s2>>] : s1 \in StmtsOver(forms, Mods \ {"ma"}), s2 \in StmtsOver(forms, Mods \ {"ma"}) }
DiamondFamily(forms) ==
  { [mods |-> [m \in Mods |-> IF m = "ma" THEN Plain(d.pre, d.post) ELSE Plain(f[m].pre, f[m].post)],
     main |-> <<s, [form |-> "import", t |-> "ma"]>>] :
      d \in TwoImports(forms), f \in [Mods \ {"ma"} -> OneImport(forms)], s \in StmtsOver({"import_as"}, {"ma"}) }

(* --- family "flat": the modules import nothing; the main program is any sequence of 1..3    *)
(* statements over all forms (plus one import of the missing module); ma is a source file, mb *)
(* a Go module with Python source, any further module a Go module with globals only.          *)
FlatMods(a) == [m \in Mods |-> [kind |-> IF m = "ma" THEN "src" ELSE IF m = "mb" THEN "gosrc" ELSE "goglob",
                                pre |-> <<>>, post |-> <<>>, all |-> a, raises |-> "no"]]
FlatStmts == StmtsOver(Forms, {"ma", "mb"}) \cup StmtsOver({"import_as", "from", "star"}, Mods \ {"ma", "mb"})
             \cup {[form |-> "import", t |-> Missing], [form |-> "from", t |-> Missing]}
SeqsUpTo(S, n) == {<<a>> : a \in S} \cup (IF n >= 2 THEN {<<a, b>> : a \in S, b \in S} ELSE {})
                               \cup (IF n >= 3 THEN {<<a, b, c>> : a \in S, b \in S, c \in S} ELSE {})
FlatFamily(n) == { [mods |-> FlatMods(a), main |-> s] : a \in AllVariants, s \in SeqsUpTo(FlatStmts, n) }

(* --- family "modname": does  from t import u  consult anything but t's own attributes?  ma may import mb   *)
(* (before or after its definitions), mb may import mc; the main program is any sequence of 1..3 statements *)
(* over  import m  and  from t import u  (t in {ma, mb}, u in {mb, mc}): u loaded before, later or never,    *)
(* u an attribute of t or not.                                                                               *)
ModNameMods == { [m \in Mods |-> IF m = "ma" THEN Plain(a.pre, a.post) ELSE IF m = "mb" THEN Plain(<<>>, b) ELSE Plain(<<>>, <<>>)] :
                   a \in { [pre |-> <<>>, post |-> <<>>], [pre |-> <<[form |-> "import", t |-> "mb"]>>, post |-> <<>>],
                            [pre |-> <<>>, post |-> <<[form |-> "import", t |-> "mb"]>>] },
                   b \in { <<>>, <<[form |-> "import", t |-> "mc"]>> } }
ModNameFamily == { [mods |-> ms, main |-> q] : ms \in ModNameMods,
                     q \in SeqsUpTo(StmtsOver({"import"}, Mods) \cup { [form |-> "frommod", t |-> t, u |-> u] : t \in {"ma", "mb"}, u \in {"mb", "mc"} }, 3) }

(* --- family "late": a missing module that becomes available.  ma's file lies in a directory that is not on   *)
(* sys.path at first; mb imports ma in some way (before or after its definitions, guarded like every import) or *)
(* not at all; the main program is any sequence of 1..4 statements over imports of ma and mb and the statement  *)
(* that appends the directory to sys.path.  A failed import must leave nothing behind: the same statement       *)
(* succeeds after the path was extended, the body runs once, and what mb missed it keeps missing.               *)
SeqsOf4(S) == SeqsUpTo(S, 3) \cup {<<a, b, c, d>> : a \in S, b \in S, c \in S, d \in S}
OneImportOf(forms, targets) ==
  {[pre |-> <<>>, post |-> <<>>]} \cup {[pre |-> <<x>>, post |-> <<>>] : x \in StmtsOver(forms, targets)}
                                  \cup {[pre |-> <<>>, post |-> <<x>>] : x \in StmtsOver(forms, targets)}
LateMods == { [m \in Mods |-> IF m = "ma" THEN [Plain(<<>>, <<>>) EXCEPT !.kind = "late"] ELSE IF m = "mb" THEN Plain(b.pre, b.post) ELSE Plain(<<>>, <<>>)] :
                b \in OneImportOf({"import", "from", "star"}, {"ma"}) }
LateFamily == { [mods |-> ms, main |-> q] : ms \in LateMods,
                  q \in { r \in SeqsOf4({AddPathStmt, [form |-> "import", t |-> "ma"], [form |-> "from", t |-> "ma"], [form |-> "import", t |-> "mb"]}) :
                            \E i \in 1..Len(r) : r[i] = AddPathStmt } }

(* --- family "raise": two modules with at most one import each and a body that may raise;    *)
(* the main program imports one of them, then ma, then a name of mb.                          *)
RaiseFamily(forms) ==
  { [mods |-> [m \in Mods |-> [kind |-> "src", pre |-> f[m].pre, post |-> f[m].post, all |-> "no", raises |-> r[m]]],
     main |-> <<s, [form |-> "import", t |-> "ma"], [form |-> "from", t |-> "mb"]>>] :
      f \in [Mods -> OneImport(forms)], r \in [Mods -> RaiseVariants], s \in StmtsOver(forms, Mods) }
=============================================================================
