SPECIFICATION Spec
CONSTANTS
  MaxN = 4
  MaxBases = 3
  OpCounts = {1, 2, 3}
  Exhaustive = FALSE
INVARIANTS FrameOk MrosOk
CHECK_DEADLOCK FALSE
