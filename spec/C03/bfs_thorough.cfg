SPECIFICATION Spec
CONSTANT Names = {"x"}
CONSTANT NameSeq <- Seq1
CONSTANT MaxScopes = 3
CONSTANT MaxDepth = 2
CONSTANT MaxEvStmt = 2
CONSTANT MaxEvExpr = 2
CONSTANT WithLocset = FALSE
CHECK_DEADLOCK FALSE
