//go:build verif

// C17: lists, dicts and sets match a reference model over any history.
//
//  1. The operation alphabet is intersected with what the live gpython types provide: every method
//     name of the model is probed with py.GetAttrString on a real list/dict/set, every operator form
//     with the Go interface the VM dispatches on; the resulting set becomes the constant Provided of
//     spec/C17/PyHeap.tla ("the other *provided* methods": a missing method is not a violation).
//  2. TLC explores the reference model from the fixed initial heap (p and q one object, r another),
//     checks its invariants (well-formed canonical heap, alias visibility, frame: only the objects a
//     statement names as mutated change) and prints every edge of the state graph within the tier's
//     depth together with a shortest history leading to it; tlc -simulate adds long seeded histories.
//  3. R-binding: every printed history is rendered as a Python function, run by the real interpreter
//     (harness/pyrun), and after every statement the outcome class, the yielded value, the contents
//     seen through every name, the lengths and the identity partition of the names are compared with
//     what the model printed. Only the first divergence of a history is reported.
//
// Nothing here knows what a container operation does: statements and expectations come from TLC.
package main

import (
	"bufio"
	"bytes"
	"encoding/json"
	"fmt"
	"io"
	"os"
	"os/exec"
	"sort"
	"strconv"
	"strings"
	"sync"
	"sync/atomic"
	"time"

	"gpverif/common"
	"gpverif/pyrun"

	"github.com/go-python/gpython/py"
)

type Step struct {
	Form  string          `json:"form"`
	Cls   string          `json:"cls"`
	Stmt  string          `json:"stmt"`
	Res   string          `json:"res"`
	Val   json.RawMessage `json:"val"`
	Expr  bool            `json:"expr"`
	Unord bool            `json:"unord"`
	Obs   struct {
		P  json.RawMessage `json:"p"`
		Q  json.RawMessage `json:"q"`
		R  json.RawMessage `json:"r"`
		Np int             `json:"np"`
		Nq int             `json:"nq"`
		Nr int             `json:"nr"`
		Pq bool            `json:"pq"`
		Pr bool            `json:"pr"`
		Qr bool            `json:"qr"`
	} `json:"obs"`
}

type Hist struct {
	Kind  string   `json:"kind"`
	Cfg   string   `json:"cfg"`
	Init  []string `json:"init"`
	Steps []Step   `json:"steps"`
}

// ---------------------------------------------------------------------------------------
// "provided": what the live types offer

var methodNames = map[string][]string{
	"list": {"append", "extend", "insert", "pop", "remove", "reverse", "sort", "clear", "copy", "index", "count"},
	"dict": {"get", "update", "pop", "setdefault", "clear", "copy", "keys", "values", "items"},
	"set":  {"add", "remove", "discard", "update", "clear", "copy", "issubset", "isdisjoint", "pop"},
}

func probe(kind string) (provided []string, missing []string) {
	var obj py.Object
	switch kind {
	case "list":
		obj = py.NewList()
	case "dict":
		obj = py.NewStringDict()
	case "set":
		obj = py.NewSet()
	}
	for _, m := range methodNames[kind] {
		ok := false
		r := pyrun.Guard(5*time.Second, func() error {
			_, err := py.GetAttrString(obj, m)
			return err
		})
		ok = r.Outcome() == "ok"
		if ok {
			provided = append(provided, m)
		} else {
			missing = append(missing, m)
		}
	}
	if kind == "set" {
		// operator forms: provided when the type implements the method the VM dispatches to
		ops := []struct {
			tok string
			ok  bool
		}{
			{"|", implements(obj, func(o py.Object) bool { _, ok := o.(py.I__or__); return ok })},
			{"&", implements(obj, func(o py.Object) bool { _, ok := o.(py.I__and__); return ok })},
			{"-", implements(obj, func(o py.Object) bool { _, ok := o.(py.I__sub__); return ok })},
			{"^", implements(obj, func(o py.Object) bool { _, ok := o.(py.I__xor__); return ok })},
			{"<=", implements(obj, func(o py.Object) bool { _, ok := o.(py.I__le__); return ok })},
		}
		for _, o := range ops {
			if o.ok {
				provided = append(provided, o.tok)
			} else {
				missing = append(missing, o.tok)
			}
		}
	}
	return
}

func implements(o py.Object, f func(py.Object) bool) bool { return f(o) }

// ---------------------------------------------------------------------------------------
// rendering a history as a Python function

var handlers = []string{"IndexError", "ValueError", "KeyError", "TypeError", "AttributeError", "StopIteration", "NameError", "Exception"}

func obsExpr(kind string) string {
	switch kind {
	case "list":
		return "p, q, r, len(p), len(q), len(r), p is q, p is r, q is r"
	case "dict":
		// `d1 is d2` on dicts is not usable in gpython (C10 finding): identity of dicts is observed
		// through the visibility of mutations only
		return "[[k, p[k]] for k in sorted(p)], [[k, q[k]] for k in sorted(q)], [[k, r[k]] for k in sorted(r)], len(p), len(q), len(r)"
	case "set":
		cnt := func(n string) string { return "[len([e for e in " + n + " if e == c]) for c in [0, 1, 2, 3]]" }
		return cnt("p") + ", " + cnt("q") + ", " + cnt("r") + ", len(p), len(q), len(r), p is q, p is r, q is r"
	}
	return ""
}

func render(h *Hist) string {
	var b strings.Builder
	b.WriteString("def h():\n")
	for _, l := range h.Init {
		b.WriteString("    " + l + "\n")
	}
	for k, st := range h.Steps {
		b.WriteString("    res = 'ok'\n    val = []\n    try:\n")
		if st.Expr {
			b.WriteString("        val = [" + st.Stmt + "]\n")
		} else {
			b.WriteString("        " + st.Stmt + "\n")
		}
		for _, e := range handlers {
			b.WriteString("    except " + e + ":\n        res = '" + e + "'\n")
		}
		fmt.Fprintf(&b, "    print([%d, res, val, %s])\n", k, obsExpr(h.Kind))
	}
	b.WriteString("h()\n")
	return b.String()
}

// ---------------------------------------------------------------------------------------
// reading Python's printed lists: nested lists of atoms (numbers, True/False/None, quoted strings)

type node struct {
	atom string
	list []*node
	isL  bool
}

func parsePy(s string) (*node, error) {
	pos := 0
	var parse func() (*node, error)
	skip := func() {
		for pos < len(s) && (s[pos] == ' ') {
			pos++
		}
	}
	parse = func() (*node, error) {
		skip()
		if pos >= len(s) {
			return nil, fmt.Errorf("unexpected end")
		}
		switch c := s[pos]; {
		case c == '[':
			pos++
			n := &node{isL: true}
			skip()
			if pos < len(s) && s[pos] == ']' {
				pos++
				return n, nil
			}
			for {
				e, err := parse()
				if err != nil {
					return nil, err
				}
				n.list = append(n.list, e)
				skip()
				if pos >= len(s) {
					return nil, fmt.Errorf("unterminated list")
				}
				if s[pos] == ',' {
					pos++
					continue
				}
				if s[pos] == ']' {
					pos++
					return n, nil
				}
				return nil, fmt.Errorf("unexpected %q at %d", s[pos], pos)
			}
		case c == '\'' || c == '"':
			end := strings.IndexByte(s[pos+1:], c)
			if end < 0 {
				return nil, fmt.Errorf("unterminated string")
			}
			a := s[pos+1 : pos+1+end]
			pos += end + 2
			return &node{atom: a}, nil
		default:
			st := pos
			for pos < len(s) && s[pos] != ',' && s[pos] != ']' && s[pos] != ' ' {
				pos++
			}
			if st == pos {
				return nil, fmt.Errorf("unexpected %q at %d", s[pos], pos)
			}
			return &node{atom: s[st:pos]}, nil
		}
	}
	n, err := parse()
	if err != nil {
		return nil, err
	}
	skip()
	if pos != len(s) {
		return nil, fmt.Errorf("trailing text at %d", pos)
	}
	return n, nil
}

func (n *node) String() string {
	if n == nil {
		return "<nil>"
	}
	if !n.isL {
		return n.atom
	}
	p := make([]string, len(n.list))
	for i, e := range n.list {
		p[i] = e.String()
	}
	return "[" + strings.Join(p, ", ") + "]"
}

// fromJSON turns what TLC printed into the same shape: numbers and booleans as Python spells them,
// a dict (JSON object) as the list of [key, value] pairs sorted by key
func fromJSON(raw json.RawMessage) *node {
	var v interface{}
	if len(raw) == 0 || json.Unmarshal(raw, &v) != nil {
		return &node{atom: "<unreadable>"}
	}
	return conv(v)
}

func conv(v interface{}) *node {
	switch x := v.(type) {
	case []interface{}:
		n := &node{isL: true}
		for _, e := range x {
			n.list = append(n.list, conv(e))
		}
		return n
	case map[string]interface{}:
		keys := make([]string, 0, len(x))
		for k := range x {
			keys = append(keys, k)
		}
		sort.Strings(keys)
		n := &node{isL: true}
		for _, k := range keys {
			n.list = append(n.list, &node{isL: true, list: []*node{{atom: k}, conv(x[k])}})
		}
		return n
	case string:
		return &node{atom: x}
	case float64:
		return &node{atom: strconv.FormatInt(int64(x), 10)}
	case bool:
		if x {
			return &node{atom: "True"}
		}
		return &node{atom: "False"}
	case nil:
		return &node{atom: "None"}
	}
	return &node{atom: fmt.Sprint(v)}
}

func atomInt(i int) *node { return &node{atom: strconv.Itoa(i)} }
func atomBool(b bool) *node {
	if b {
		return &node{atom: "True"}
	}
	return &node{atom: "False"}
}

// sortInner orders the members of the (single) collection inside a yielded value
func sortInner(n *node) *node {
	if n == nil || !n.isL || len(n.list) != 1 || !n.list[0].isL {
		return n
	}
	in := append([]*node(nil), n.list[0].list...)
	sort.Slice(in, func(i, j int) bool { return in[i].String() < in[j].String() })
	return &node{isL: true, list: []*node{{isL: true, list: in}}}
}

// ---------------------------------------------------------------------------------------
// running and comparing

type divergence struct {
	Step     int    `json:"step"`
	Kind     string `json:"kind"`
	Expected string `json:"expected"`
	Observed string `json:"observed"`
}

// compare returns the first divergence of the printed lines from the history, or nil
func compare(h *Hist, out string) *divergence {
	lines := map[int]*node{}
	for _, ln := range strings.Split(out, "\n") {
		ln = strings.TrimSpace(ln)
		if !strings.HasPrefix(ln, "[") {
			continue
		}
		n, err := parsePy(ln)
		if err != nil || !n.isL || len(n.list) < 3 {
			continue
		}
		k, err := strconv.Atoi(n.list[0].atom)
		if err != nil {
			continue
		}
		lines[k] = n
	}
	for k := range h.Steps {
		st := &h.Steps[k]
		n := lines[k]
		if n == nil {
			return &divergence{k, "no-output", st.Res, "<nothing printed>"}
		}
		res := n.list[1].atom
		if res != st.Res {
			if st.Res == "ok" {
				return &divergence{k, res, st.Res, res}
			}
			if res == "ok" {
				return &divergence{k, "no-exception", st.Res, res}
			}
			return &divergence{k, res, st.Res, res}
		}
		expVal, gotVal := fromJSON(st.Val), n.list[2]
		if st.Unord {
			expVal, gotVal = sortInner(expVal), sortInner(gotVal)
		}
		if expVal.String() != gotVal.String() {
			return &divergence{k, "wrong-value", expVal.String(), gotVal.String()}
		}
		exp := []*node{fromJSON(st.Obs.P), fromJSON(st.Obs.Q), fromJSON(st.Obs.R), atomInt(st.Obs.Np), atomInt(st.Obs.Nq), atomInt(st.Obs.Nr)}
		if h.Kind != "dict" {
			exp = append(exp, atomBool(st.Obs.Pq), atomBool(st.Obs.Pr), atomBool(st.Obs.Qr))
		}
		got := n.list[3:]
		if len(got) != len(exp) {
			return &divergence{k, "no-output", "observation", n.String()}
		}
		es := (&node{isL: true, list: exp}).String()
		gs := (&node{isL: true, list: got}).String()
		if es != gs {
			kind := "wrong-contents"
			if len(exp) == 9 {
				same := true
				for i := 0; i < 6; i++ {
					if exp[i].String() != got[i].String() {
						same = false
					}
				}
				// the identity partition of the names is wrong (the contents may be wrong as a consequence)
				if same || exp[6].String() != got[6].String() || exp[7].String() != got[7].String() || exp[8].String() != got[8].String() {
					kind = "wrong-identity"
				}
			}
			return &divergence{k, kind, es, gs}
		}
	}
	return nil
}

type runner struct {
	ctx     *pyrun.Ctx
	n       int
	patient bool
}

const histTimeout = 20 * time.Second

// a history that timed out is tried again with this much patience before the timeout counts (a starved
// machine must not look like a hanging interpreter)
const retryTimeout = 150 * time.Second

// run executes one history in the runner's context; a panic or timeout retires the context
func (r *runner) run(src string) *pyrun.Result {
	if r.ctx == nil || r.n > 400 {
		if r.ctx != nil {
			r.ctx.Close()
		}
		r.ctx = pyrun.New()
		r.n = 0
	}
	r.n++
	to := histTimeout
	if r.patient {
		to = retryTimeout
	}
	res := r.ctx.Exec(src, to)
	if res.Panic != "" || res.TimedOut {
		if !res.TimedOut {
			r.ctx.Close()
		}
		r.ctx = nil
	}
	return res
}

func check(r *runner, h *Hist) (*divergence, *pyrun.Result) {
	src := render(h)
	res := r.run(src)
	var d *divergence
	switch {
	case res.TimedOut:
		d = &divergence{len(h.Steps) - 1, "timeout", "", ""}
	case res.Panic != "":
		// the statement that panicked is the first one without a printed line
		d = compare(h, res.Stdout)
		if d == nil || d.Kind == "no-output" {
			k := len(h.Steps) - 1
			if d != nil {
				k = d.Step
			}
			d = &divergence{k, "panic:" + res.PanicSite, h.Steps[k].Res, common.TrimKey(res.Panic, 80)}
		}
	case res.Exc != "":
		d = compare(h, res.Stdout)
		if d == nil || d.Kind == "no-output" {
			k := len(h.Steps) - 1
			if d != nil {
				k = d.Step
			}
			what := res.Exc
			if res.CompileErr {
				what = "compile-" + res.Exc
			}
			d = &divergence{k, what, h.Steps[k].Res, res.Msg}
		}
	default:
		d = compare(h, res.Stdout)
	}
	return d, res
}

func keyOf(h *Hist, d *divergence) string {
	st := h.Steps[d.Step]
	cls := st.Cls
	if d.Kind == "wrong-identity" {
		// a name was rebound instead of the object being changed: how set members were spelled has no part in that
		cls = strings.Replace(strings.Replace(cls, ",spelled", "", 1), ",mixed", "", 1)
	}
	if strings.Contains(cls, ",spelled") {
		// the statement itself names 1.0 / True: that decides, whatever came before
		cls = strings.Replace(cls, ",mixed", "", 1)
	}
	return fmt.Sprintf("C17|%s|kind=%s%s|observed=%s", st.Form, h.Kind, cls, d.Kind)
}

// ---------------------------------------------------------------------------------------
// replay workers are subprocesses: a broken container can make the interpreter abort the whole process (a list
// that contains itself sends repr/== into unbounded Go recursion, a fatal error that recover() cannot catch)

type reply struct {
	D      *divergence `json:"d"`
	Panic  bool        `json:"panic"`
	Retire bool        `json:"retire"` // a statement timed out: its goroutine is still running, replace this worker
}

// workerMain: one history per input line, one reply per output line
func workerMain() {
	rd := bufio.NewReaderSize(os.Stdin, 1<<20)
	out := bufio.NewWriter(os.Stdout)
	r := &runner{}
	for {
		line, err := rd.ReadBytes('\n')
		if len(bytes.TrimSpace(line)) > 0 {
			h := &Hist{}
			if json.Unmarshal(line, h) != nil {
				os.Exit(3)
			}
			d, res := check(r, h)
			if d != nil {
				// re-run once in a fresh context (and with more patience) before reporting
				r2 := &runner{patient: true}
				d, res = check(r2, h)
				if r2.ctx != nil {
					r2.ctx.Close()
				}
			}
			b, _ := json.Marshal(reply{D: d, Panic: res.Panic != "", Retire: res.TimedOut})
			out.Write(append(b, '\n'))
			out.Flush()
		}
		if err != nil {
			return
		}
	}
}

type proc struct {
	cmd    *exec.Cmd
	in     io.WriteCloser
	out    *bufio.Reader
	stderr *bytes.Buffer
}

func startProc() *proc {
	cmd := exec.Command(os.Args[0])
	cmd.Env = append(os.Environ(), "GPV_WORKER=1")
	in, err1 := cmd.StdinPipe()
	out, err2 := cmd.StdoutPipe()
	p := &proc{cmd: cmd, in: in, stderr: &bytes.Buffer{}}
	cmd.Stderr = &limited{buf: p.stderr, max: 4096}
	if err1 != nil || err2 != nil || cmd.Start() != nil {
		common.Inconclusive("property=C17 cannot start a replay worker")
	}
	p.out = bufio.NewReaderSize(out, 1<<20)
	return p
}

type limited struct {
	buf *bytes.Buffer
	max int
}

func (l *limited) Write(b []byte) (int, error) {
	if room := l.max - l.buf.Len(); room > 0 {
		if len(b) < room {
			room = len(b)
		}
		l.buf.Write(b[:room])
	}
	return len(b), nil
}

func (p *proc) stop() {
	p.in.Close()
	p.cmd.Process.Kill()
	p.cmd.Wait()
}

// ask sends one history; ok=false: the worker died or hung (what = first line of what it said)
func (p *proc) ask(h *Hist) (rep reply, ok bool, what string) {
	b, _ := json.Marshal(h)
	if _, err := p.in.Write(append(b, '\n')); err != nil {
		return rep, false, p.lastWords()
	}
	type ans struct {
		line []byte
		err  error
	}
	ch := make(chan ans, 1)
	go func() {
		line, err := p.out.ReadBytes('\n')
		ch <- ans{line, err}
	}()
	select {
	case a := <-ch:
		if a.err != nil || json.Unmarshal(a.line, &rep) != nil {
			p.cmd.Wait()
			return rep, false, p.lastWords()
		}
		return rep, true, ""
	case <-time.After(histTimeout + retryTimeout + 30*time.Second):
		return rep, false, "no answer (hung)"
	}
}

func (p *proc) lastWords() string {
	for _, l := range strings.Split(p.stderr.String(), "\n") {
		if strings.HasPrefix(l, "fatal error:") || strings.HasPrefix(l, "panic:") {
			return common.TrimKey(l, 60)
		}
	}
	return "worker died"
}

func main() {
	if os.Getenv("GPV_WORKER") != "" {
		workerMain()
		return
	}
	env := common.Setup()
	rep := common.NewReport(env, "model_checking")
	rep.Rule = "a case is one history printed by TLC from spec/C17/PyHeap.tla: an edge of the state graph of the reference model (a heap situation and one statement) with a shortest history reaching it, or a simulated long history; distinct by (kind, statements); all are non-trivial (at least one statement on aliased containers, observation compared after every statement)"
	rep.Assumptions = []string{
		"TLC and the CommunityModules Json module are correct",
		"the observation scaffolding (print of nested int/float/bool lists, len, is, sorted() of strings, list comprehensions with ==, try/except on builtin classes) is itself right - the vetted core",
		"dict identity is observed only through visibility of mutations (`d1 is d2` panics in gpython, a C10 finding)",
	}
	if env.Replay != "" {
		replay(env)
		return
	}
	tier := "quick"
	if env.Thorough() {
		tier = "thorough"
	}
	var (
		mu        sync.Mutex
		seen      = map[string]bool{}
		byKind    = map[string]int64{}
		byCfg     = map[string]int64{}
		byForm    = map[string]int64{}
		lastForms = map[string]int64{}
		steps     int64
		runs      int64
		stopped   int64 // histories whose divergence was in a prefix step (their last edge was not reached)
		panics    int64
		simHist   int64
		fatals    int64
	)
	jobs := make(chan *Hist, 8192)
	var wg sync.WaitGroup
	// replay workers (subprocesses); the thorough tier has ten times the histories
	nw := env.Pick(8, 12)
	if nw > env.Workers {
		nw = env.Workers
	}
	if nw < 4 {
		nw = 4
	}
	for w := 0; w < nw; w++ {
		wg.Add(1)
		go func() {
			defer wg.Done()
			p := startProc()
			for h := range jobs {
				rp, ok, what := p.ask(h)
				if !ok {
					// the worker died on this history: find the first statement that kills a fresh worker
					p.stop()
					k := len(h.Steps) - 1
					for n := 1; n <= len(h.Steps); n++ {
						q := startProc()
						pre := *h
						pre.Steps = h.Steps[:n]
						_, ok2, _ := q.ask(&pre)
						q.stop()
						if !ok2 {
							k = n - 1
							break
						}
					}
					rp = reply{D: &divergence{k, "fatal:" + what, h.Steps[k].Res, "the interpreter process died"}}
					atomic.AddInt64(&fatals, 1)
					p = startProc()
				}
				if rp.Retire {
					p.stop()
					p = startProc()
				}
				d := rp.D
				atomic.AddInt64(&runs, 1)
				atomic.AddInt64(&steps, int64(len(h.Steps)))
				if d != nil {
					if d.Step < len(h.Steps)-1 {
						atomic.AddInt64(&stopped, 1)
					}
					if rp.Panic {
						atomic.AddInt64(&panics, 1)
					}
					var stmts []string
					for _, s := range h.Steps {
						stmts = append(stmts, s.Stmt)
					}
					rep.Violation(keyOf(h, d), map[string]interface{}{"history": h, "statements": append(append([]string{}, h.Init...), stmts...),
						"divergence": d, "program": render(h)})
				}
			}
			p.stop()
		}()
	}
	provided := map[string][]string{}
	missingAll := map[string][]string{}
	accept := func(b []byte, sim bool) {
		h := &Hist{}
		if err := json.Unmarshal(b, h); err != nil || len(h.Steps) == 0 {
			common.Inconclusive("property=C17 bad history from TLC: %v: %s", err, common.TrimKey(string(b), 200))
		}
		var id strings.Builder
		id.WriteString(h.Kind)
		for _, s := range h.Steps {
			id.WriteString("\n" + s.Stmt)
		}
		mu.Lock()
		if seen[id.String()] {
			mu.Unlock()
			return
		}
		seen[id.String()] = true
		byKind[h.Kind]++
		byCfg[h.Cfg]++
		for _, s := range h.Steps {
			byForm[h.Kind+"/"+s.Form]++
		}
		lastForms[h.Kind+"/"+h.Steps[len(h.Steps)-1].Form]++
		if sim {
			simHist++
		}
		if len(seen)%5003 == 1 {
			var stmts []string
			for _, s := range h.Steps {
				stmts = append(stmts, s.Stmt)
			}
			rep.Sample(map[string]interface{}{"kind": h.Kind, "init": h.Init, "statements": stmts, "last_observation": h.Steps[len(h.Steps)-1].Obs})
		}
		mu.Unlock()
		jobs <- h
	}
	modelStats := map[string]interface{}{}
	var q []string
	for _, kind := range []string{"list", "dict", "set"} {
		prov, miss := probe(kind)
		provided[kind], missingAll[kind] = prov, miss
		for _, p := range prov {
			q = append(q, `"`+kind+"."+p+`"`)
		}
	}
	subst := func(name string) string {
		b, err := os.ReadFile(env.Verif + "/spec/C17/" + name)
		if err != nil {
			common.Inconclusive("property=C17 cannot read %s: %v", name, err)
		}
		return strings.Replace(string(b), "@PROVIDED@", strings.Join(q, ", "), -1)
	}
	// one TLC run for every edge of every configuration of the tier (the configuration is part of the initial state)
	cfg := tier + ".cfg"
	res := env.MustTLC(common.TLCRun{Dir: "C17", Module: "PyHeapMC", Config: "run.cfg", Extra: map[string]string{"run.cfg": subst(cfg)},
		Timeout: 40 * time.Minute, OnLine: func(b []byte) { accept(b, false) }})
	if len(res.Violations) > 0 || !res.Finished {
		common.Inconclusive("property=C17 the reference model violates its own invariants or did not finish (spec/C17/PyHeap.tla, %s): %v\n%s", cfg, res.Violations, res.Stdout)
	}
	rep.AddTLC(res)
	modelStats[cfg] = map[string]interface{}{"distinct_states": res.Distinct, "edges": res.Generated, "wall_s": res.Wall.Seconds()}
	fmt.Printf("phase exhaustive done at %.1fs (%d states, %d edges)\n", time.Since(env.Start).Seconds(), res.Distinct, res.Generated)
	// one TLC run for the long seeded histories of all three kinds
	scfg := "sim_" + tier + ".cfg"
	num := env.Pick(300, 1500)
	depth := env.Pick(8, 12)
	sres := env.MustTLC(common.TLCRun{Dir: "C17", Module: "PyHeapMC", Config: "run.cfg", Extra: map[string]string{"run.cfg": subst(scfg)},
		Simulate: fmt.Sprintf("num=%d", num), Depth: depth + 1, Seed: env.Seed, Workers: 1, Timeout: 40 * time.Minute,
		OnLine: func(b []byte) { accept(b, true) }})
	if len(sres.Violations) > 0 {
		common.Inconclusive("property=C17 the reference model violates its own invariants in simulation (%s): %v\n%s", scfg, sres.Violations, sres.Stdout)
	}
	modelStats[scfg] = map[string]interface{}{"behaviours": num, "length": depth, "wall_s": sres.Wall.Seconds()}
	fmt.Printf("phase simulation done at %.1fs\n", time.Since(env.Start).Seconds())
	close(jobs)
	wg.Wait()
	fmt.Printf("phase replay done at %.1fs (%d histories, %d statements)\n", time.Since(env.Start).Seconds(), runs, steps)
	if runs == 0 {
		common.Inconclusive("property=C17 TLC printed no history")
	}
	for _, k := range []string{"list", "dict", "set"} {
		if byKind[k] == 0 {
			common.Vacuous("property=C17 vacuous run: no %s history", k)
		}
	}
	if simHist == 0 {
		common.Vacuous("property=C17 vacuous run: no simulated history")
	}
	rep.Evaluations = steps
	rep.Distinct = runs
	rep.Traces = runs
	rep.Exhaustive = true
	rep.Extra["provided"] = provided
	rep.Extra["not_provided_hence_not_enumerated"] = missingAll
	rep.Extra["histories_by_kind"] = byKind
	rep.Extra["histories_by_configuration"] = byCfg
	rep.Extra["statements_by_form"] = byForm
	rep.Extra["edges_by_last_statement_form"] = lastForms
	rep.Extra["simulated_histories"] = simHist
	rep.Extra["histories_cut_short_by_an_earlier_divergence"] = stopped
	rep.Extra["histories_ending_in_go_panic"] = panics
	rep.Extra["histories_killing_the_interpreter_process"] = fatals
	rep.Extra["model"] = modelStats
	rep.Finish()
}

func replay(env *common.Env) {
	b, err := os.ReadFile(env.Replay)
	if err != nil {
		common.Inconclusive("property=C17 replay: %v", err)
	}
	var f struct {
		Key  string `json:"key"`
		Case struct {
			History *Hist `json:"history"`
		} `json:"case"`
	}
	if err := json.Unmarshal(b, &f); err != nil || f.Case.History == nil {
		common.Inconclusive("property=C17 replay: cannot read %s: %v", env.Replay, err)
	}
	h := f.Case.History
	fmt.Print(render(h))
	r := &runner{}
	d, res := check(r, h)
	fmt.Printf("stdout:\n%s\noutcome: %s %s\n", res.Stdout, res.Outcome(), res.Panic)
	if d != nil {
		js, _ := json.Marshal(d)
		fmt.Printf("divergence: %s\nVIOLATION property=C17 replay=%s key=%s\n", js, env.Replay, keyOf(h, d))
		os.Exit(1)
	}
	fmt.Println("no divergence")
	os.Exit(0)
}
