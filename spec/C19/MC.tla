--------------------------------- MODULE MC ---------------------------------
(* One TLC run explores the union of the exhaustive families named by Families (PyImportCfg)  *)
(* and an explicit list of further configurations (cfgs.ndjson, one JSON object per line: a   *)
(* seeded sample of the whole family CfgOK drawn by the harness).                             *)
EXTENDS PyImport
CONSTANTS Families,
          AssumeAll     \* also check the exhaustive families against CfgOK (thorough tier; it is sequential work)
Three == {"import", "from", "star"}
Five  == {"import", "import_as", "from", "from_as", "star"}
CfgList == ndJsonDeserialize("cfgs.ndjson")
FamCfgs(f) == CASE f = "graph3"   -> GraphFamily(Three)
                [] f = "graph3s"  -> GraphFamilySym(Three)
                [] f = "graph5"   -> GraphFamily(Five)
                [] f = "uniform"  -> UniformFamily({"import_as", "from", "star"})
                [] f = "diamond"  -> DiamondFamily(Three)
                [] f = "diamond2" -> DiamondFamily({"import", "from"})
                [] f = "flat2"    -> FlatFamily(2)
                [] f = "flat3"    -> FlatFamily(3)
                [] f = "raise"    -> RaiseFamily(Three)
                [] f = "modname"  -> ModNameFamily
                [] f = "late"     -> LateFamily
                [] f = "sample"   -> { CfgList[i] : i \in 1..Len(CfgList) }
ASSUME \A f \in Families : (AssumeAll \/ f = "sample") => \A c \in FamCfgs(f) : CfgOK(c)
Init == \E f \in Families : InitWith(f, FamCfgs(f))
Spec == Init /\ [][Next]_vars
=============================================================================
