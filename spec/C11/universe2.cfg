SPECIFICATION Spec
CONSTANTS NestDepth = 2
          MaxLen = 2
          MaxFill = 1
          CoreFill = 2
          SimLens = {}
          SimFill = {}
INVARIANT Emit
CHECK_DEADLOCK FALSE
