SPECIFICATION SpecMC
CONSTANT Names = {"x", "y"}
CONSTANT NameSeq <- Seq2
CONSTANT Shapes <- ShapesQ
CONSTANT FlagsX <- FX3
CONSTANT FlagsY <- FYq
INVARIANT Confluent
CHECK_DEADLOCK FALSE
