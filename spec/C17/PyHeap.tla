------------------------------- MODULE PyHeap -------------------------------
(* Python's mutable containers as a heap of objects with names as aliases (reference model of C17). *)
(*                                                                                                  *)
(*   heap   : sequence of objects, an object identity is its index                                  *)
(*              list  - a sequence of elements, each a scalar (its spelling, e.g. "1.0") or a        *)
(*                      reference to another object                                                  *)
(*              dict  - a function from a set of string keys to integers                             *)
(*              set   - a set of integers: the equality classes of its hashable scalar members       *)
(*                      (1, 1.0 and True are one member, as Python's == and hash make them)          *)
(*   var    : names p, q, r -> identity (aliases are names with the same identity)                  *)
(*   iter   : the one list iterator "it": the object it walks, its position, and whether that object  *)
(*            was changed since the iterator was made (only used to classify findings)               *)
(*   hist   : the statements executed so far with the observation the model predicts after each       *)
(*                                                                                                  *)
(* Every action is one Python statement.  It is given as an EFFECT: new var/heap/iter, the outcome   *)
(* class ("ok" or the exception), the value the statement yields if it is an observer, and the set   *)
(* of objects it may change.  Next applies one effect, checks the frame (nothing outside the         *)
(* declared objects changes - "an operand is unchanged unless the operation is a mutator"),          *)
(* garbage-collects and renumbers the heap canonically (so that TLC identifies equal situations),    *)
(* and prints the history as one JSON record: the harness replays it on the real interpreter and     *)
(* compares after every statement.                                                                  *)
(*                                                                                                  *)
(* Mutation during iteration needs no special case: "it = iter(x)" and "next(it)" are actions like   *)
(* any other and interleave with the mutators.  Slices come from spec/lib/PySeq.tla.                 *)
EXTENDS PySeq, TLC, Json
CONSTANTS Configs,    \* the configurations to explore, each a record (see PyHeapMC.tla):
                      \*   name, kind ("list" | "dict" | "set"), maxops (history length), maxlen (containers never grow
                      \*   beyond this many members: growing actions are disabled), scalars (spellings statements may
                      \*   mention, e.g. {"0", "1.0", "True"}), idxmax (list indices and slice bounds are -idxmax..idxmax
                      \*   and Far), keys (dict keys), forms (statement forms), pairs ("all": every pair of slice bounds
                      \*   from Idx; "few": a handful - forward, open-ended, empty, start beyond stop)
          Provided,   \* "<kind>.<method or operator>" for everything the live type provides: the rest is not part of C17
          EmitAll     \* TRUE: print every edge of the state graph (with a shortest history leading to it);
                      \* FALSE: print only the finished histories TLC walks into (simulation mode)
\* cf is the configuration of this behaviour (chosen in Init, never changed): one TLC run covers all of them
VARIABLES cf, var, heap, iter, hist
vars == <<cf, var, heap, iter, hist>>
Kind == cf.kind
MaxOps == cf.maxops
MaxLen == cf.maxlen
Scalars == cf.scalars
IdxMax == cf.idxmax
Keys == cf.keys
Forms == cf.forms
Pairs == cf.pairs

Names == {"p", "q", "r"}
NameSeq == <<"p", "q", "r">>
Far == 5 + MaxLen
Idx == (-IdxMax..IdxMax) \cup {Far}
NumVal(s) == CASE s = "0" -> 0 [] s = "1" -> 1 [] s = "2" -> 2 [] s = "3" -> 3 [] s = "1.0" -> 1 [] s = "True" -> 1
               [] s = "0.0" -> 0 [] s = "False" -> 0 [] s = "2.0" -> 2
Classes == {0, 1, 2, 3}
Str(i) == ToString(i)
BoolAtom(b) == IF b THEN "True" ELSE "False"

-----------------------------------------------------------------------------
(* list elements                                                                                    *)
Sc(s) == [ref |-> FALSE, s |-> s, id |-> 0]
Rf(id) == [ref |-> TRUE, s |-> "", id |-> id]
Refs(items) == { items[i].id : i \in { j \in 1..Len(items) : items[j].ref } }
AllScalars(items) == \A i \in 1..Len(items) : ~items[i].ref

\* objects reachable from a sequence of roots, in order of discovery (roots first, then breadth first)
RECURSIVE Closure(_, _, _)
Closure(h, ord, k) ==
  IF k > Len(ord) THEN ord
  ELSE LET items == h[ord[k]]
           new == IF Kind # "list" THEN <<>>
                  ELSE LET cand == [i \in 1..Len(items) |-> IF items[i].ref THEN items[i].id ELSE 0]
                           \* first occurrences of references to objects not yet listed
                           keep == { i \in 1..Len(cand) : cand[i] # 0 /\ cand[i] \notin SqSet(ord)
                                                       /\ \A j \in 1..(i - 1) : cand[j] # cand[i] }
                       IN [n \in 1..Cardinality(keep) |-> cand[SqAsc(keep)[n]]]
       IN Closure(h, ord \o new, k + 1)
Dedup(s) == LET keep == { i \in 1..Len(s) : \A j \in 1..(i - 1) : s[j] # s[i] } IN [n \in 1..Cardinality(keep) |-> s[SqAsc(keep)[n]]]
ReachFrom(h, a) == SqSet(Closure(h, <<a>>, 1))
\* appending a reference to object b into object a must not close a cycle (printing such a list never ends)
NoCycle(h, a, b) == a \notin ReachFrom(h, b)

\* Python's == on elements and lists: scalars by numeric value, lists item by item
RECURSIVE ItemsEq(_, _, _)
ElemEq(h, e, f) == IF e.ref /\ f.ref THEN ItemsEq(h, h[e.id], h[f.id])
                   ELSE IF ~e.ref /\ ~f.ref THEN NumVal(e.s) = NumVal(f.s) ELSE FALSE
ItemsEq(h, s, t) == Len(s) = Len(t) /\ \A i \in 1..Len(s) : ElemEq(h, s[i], t[i])

\* what print() shows: scalars by spelling, references by the contents of what they refer to
RECURSIVE RenItems(_, _)
RenItems(h, items) == [i \in 1..Len(items) |-> IF items[i].ref THEN RenItems(h, h[items[i].id]) ELSE items[i].s]
RenElem(h, e) == IF e.ref THEN RenItems(h, h[e.id]) ELSE e.s

\* stable sort by numeric value (insertion sort: an item goes behind everything not greater)
RECURSIVE SortInto(_, _, _)
SortInto(s, k, acc) ==
  IF k > Len(s) THEN acc
  ELSE LET n == Cardinality({ i \in 1..Len(acc) : NumVal(acc[i].s) <= NumVal(s[k].s) })
       IN SortInto(s, k + 1, SubSeq(acc, 1, n) \o <<s[k]>> \o SubSeq(acc, n + 1, Len(acc)))
StableSort(s) == SortInto(s, 1, <<>>)
FirstEq(items, v) == LET hit == { i \in 1..Len(items) : ~items[i].ref /\ NumVal(items[i].s) = NumVal(v) }
                     IN IF hit = {} THEN 0 ELSE CHOOSE i \in hit : \A j \in hit : i <= j
CountEq(items, v) == Cardinality({ i \in 1..Len(items) : ~items[i].ref /\ NumVal(items[i].s) = NumVal(v) })

-----------------------------------------------------------------------------
(* canonical heap: only reachable objects, numbered in order of discovery from p, q, r, it          *)
Canon(v, h, it) ==
  LET roots == Dedup(<<v["p"], v["q"], v["r"]>> \o (IF it.obj # 0 THEN <<it.obj>> ELSE <<>>))
      ord == Closure(h, roots, 1)
      newid(id) == CHOOSE n \in 1..Len(ord) : ord[n] = id
      renum(o) == IF Kind # "list" THEN o
                  ELSE [i \in 1..Len(o) |-> IF o[i].ref THEN Rf(newid(o[i].id)) ELSE o[i]]
  IN [v |-> [n \in Names |-> newid(v[n])],
      h |-> [n \in 1..Len(ord) |-> renum(h[ord[n]])],
      it |-> IF it.obj = 0 THEN it ELSE [it EXCEPT !.obj = newid(it.obj)]]

-----------------------------------------------------------------------------
(* observation after a statement: contents through every name, which names are the same object     *)
Show(h, id) == CASE Kind = "list" -> RenItems(h, h[id])
                 [] Kind = "dict" -> h[id]
                 \* a set is observed class by class: how many members equal 0, 1, 2, 3 (never more than one each)
                 [] Kind = "set" -> [c \in 1..4 |-> IF (c - 1) \in h[id] THEN 1 ELSE 0]
SizeOf(h, id) == CASE Kind = "list" -> Len(h[id]) [] Kind = "dict" -> Cardinality(DOMAIN h[id]) [] Kind = "set" -> Cardinality(h[id])
Obs(v, h) == [p |-> Show(h, v["p"]), q |-> Show(h, v["q"]), r |-> Show(h, v["r"]),
              np |-> SizeOf(h, v["p"]), nq |-> SizeOf(h, v["q"]), nr |-> SizeOf(h, v["r"]),
              pq |-> v["p"] = v["q"], pr |-> v["p"] = v["r"], qr |-> v["q"] = v["r"]]

-----------------------------------------------------------------------------
(* effects                                                                                          *)
O(x) == heap[var[x]]
NewId == Len(heap) + 1
\* an effect: state after, statement text, outcome, yielded value (a sequence: empty = none), objects that may
\* change, whether the statement is an expression whose value is observed, whether the value is an unordered collection
Eff(v, h, it, stmt, res, val, touched, expr, unord) ==
  [v |-> v, h |-> h, it |-> it, stmt |-> stmt, res |-> res, val |-> val, touched |-> touched, expr |-> expr, unord |-> unord]
Same(stmt, res, val) == Eff(var, heap, iter, stmt, res, val, {}, TRUE, FALSE)            \* observers
SameU(stmt, val) == Eff(var, heap, iter, stmt, "ok", val, {}, TRUE, TRUE)                \* observers of unordered collections
Mut(x, new, stmt) == Eff(var, [heap EXCEPT ![var[x]] = new], iter, stmt, "ok", <<>>, {var[x]}, FALSE, FALSE)
MutVal(x, new, stmt, val) == Eff(var, [heap EXCEPT ![var[x]] = new], iter, stmt, "ok", val, {var[x]}, TRUE, FALSE)
Fresh(x, new, stmt) == Eff([var EXCEPT ![x] = NewId], Append(heap, new), iter, stmt, "ok", <<>>, {}, FALSE, FALSE)
Rebind(x, y) == Eff([var EXCEPT ![x] = var[y]], heap, iter, x \o " = " \o y, "ok", <<>>, {}, FALSE, FALSE)
Raise(stmt, exc) == Eff(var, heap, iter, stmt, exc, <<>>, {}, FALSE, FALSE)              \* a statement that fails changes nothing
RaiseE(stmt, exc) == Eff(var, heap, iter, stmt, exc, <<>>, {}, TRUE, FALSE)              \* an expression that fails
Small(n) == n <= MaxLen
Has(m) == (Kind \o "." \o m) \in Provided

-----------------------------------------------------------------------------
(* lists                                                                                            *)
Sl(i, j) == Str(i) \o ":" \o Str(j)
\* the iterator walks the live list: it yields item pos if there is one now; once exhausted it stays exhausted
NextEff ==
  IF iter.pos >= 0 /\ iter.pos < Len(heap[iter.obj])
  THEN Eff(var, heap, [iter EXCEPT !.pos = @ + 1], "next(it)", "ok", <<RenElem(heap, heap[iter.obj][iter.pos + 1])>>, {}, TRUE, FALSE)
  ELSE Eff(var, heap, [iter EXCEPT !.pos = -1], "next(it)", "StopIteration", <<>>, {}, TRUE, FALSE)
\* for e in x: if len(y) < K: y.append(e)      - the loop reads the list item by item while the body may grow it
RECURSIVE ForAppend(_, _, _, _)
ForAppend(h, xi, yi, k) == IF k > Len(h[xi]) THEN h
                           ELSE IF Len(h[yi]) < MaxLen THEN ForAppend([h EXCEPT ![yi] = Append(@, h[xi][k])], xi, yi, k + 1)
                           ELSE ForAppend(h, xi, yi, k + 1)

ListEffect(f, x, y, s, i, j) ==
  LET L == O(x) M == O(y) n == Len(O(x)) IN
  CASE f = "append" -> Mut(x, Append(L, Sc(s)), x \o ".append(" \o s \o ")")
    [] f = "appendref" -> Mut(x, Append(L, Rf(var[y])), x \o ".append(" \o y \o ")")
    [] f = "extend" -> Mut(x, L \o M, x \o ".extend(" \o y \o ")")
    [] f = "insert" -> LET k == NormUp(i, n) IN Mut(x, SubSeq(L, 1, k) \o <<Sc(s)>> \o SubSeq(L, k + 1, n), x \o ".insert(" \o Str(i) \o ", " \o s \o ")")
    [] f = "pop" -> IF n = 0 THEN RaiseE(x \o ".pop()", "IndexError")
                    ELSE MutVal(x, SubSeq(L, 1, n - 1), x \o ".pop()", <<RenElem(heap, L[n])>>)
    [] f = "popi" -> IF ~IndexOk(i, n) THEN RaiseE(x \o ".pop(" \o Str(i) \o ")", "IndexError")
                     ELSE MutVal(x, DelItemD(L, i), x \o ".pop(" \o Str(i) \o ")", <<RenElem(heap, GetItemD(L, i))>>)
    [] f = "remove" -> IF FirstEq(L, s) = 0 THEN Raise(x \o ".remove(" \o s \o ")", "ValueError")
                       ELSE Mut(x, DelItemD(L, FirstEq(L, s) - 1), x \o ".remove(" \o s \o ")")
    [] f = "reverse" -> Mut(x, SqRev(L), x \o ".reverse()")
    [] f = "sort" -> Mut(x, StableSort(L), x \o ".sort()")
    \* x.sort(key=...) with a key function that appends to y at every call.  The key function is called exactly once per
    \* item.  While a list is being sorted it is detached (it looks empty, whatever is done to it is discarded), and a
    \* change made to it during the sort is reported afterwards: the list ends up sorted AND ValueError is raised.  A key
    \* function that changes another list is an ordinary function: y grows by one item per item of x.
    [] f = "sortkeymut" ->
         LET stmt == x \o ".sort(key=lambda e: (" \o y \o ".append(0), e)[1])" IN
         IF var[x] = var[y]
         THEN Eff(var, [heap EXCEPT ![var[x]] = StableSort(L)], iter, stmt, IF n = 0 THEN "ok" ELSE "ValueError", <<>>, {var[x]}, FALSE, FALSE)
         ELSE Eff(var, [heap EXCEPT ![var[x]] = StableSort(L), ![var[y]] = M \o [q \in 1..n |-> Sc("0")]], iter, stmt, "ok", <<>>, {var[x], var[y]}, FALSE, FALSE)
    [] f = "clear" -> Mut(x, <<>>, x \o ".clear()")
    [] f = "copy" -> Fresh(x, M, x \o " = " \o y \o ".copy()")
    [] f = "iadd" -> Mut(x, L \o M, x \o " += " \o y)
    [] f = "imul" -> Mut(x, RepeatD(L, i), x \o " *= " \o Str(i))
    [] f = "setitem" -> IF IndexOk(i, n) THEN Mut(x, SetItemD(L, i, Sc(s)), x \o "[" \o Str(i) \o "] = " \o s)
                        ELSE Raise(x \o "[" \o Str(i) \o "] = " \o s, "IndexError")
    [] f = "delitem" -> IF IndexOk(i, n) THEN Mut(x, DelItemD(L, i), "del " \o x \o "[" \o Str(i) \o "]")
                        ELSE Raise("del " \o x \o "[" \o Str(i) \o "]", "IndexError")
    [] f = "getitem" -> IF IndexOk(i, n) THEN Same(x \o "[" \o Str(i) \o "]", "ok", <<RenElem(heap, GetItemD(L, i))>>)
                        ELSE RaiseE(x \o "[" \o Str(i) \o "]", "IndexError")
    \* slice assignment reads the right-hand side before it changes the list, also when it is the list itself
    [] f = "setslice" -> Mut(x, SetSliceD(L, i, j, NoneV, M), x \o "[" \o Sl(i, j) \o "] = " \o y)
    [] f = "setslice2" -> IF SetSliceOk(L, i, j, 2, M) THEN Mut(x, SetSliceD(L, i, j, 2, M), x \o "[" \o Sl(i, j) \o ":2] = " \o y)
                          ELSE Raise(x \o "[" \o Sl(i, j) \o ":2] = " \o y, "ValueError")
    [] f = "setslicem1" -> IF SetSliceOk(L, i, j, -1, M) THEN Mut(x, SetSliceD(L, i, j, -1, M), x \o "[" \o Sl(i, j) \o ":-1] = " \o y)
                           ELSE Raise(x \o "[" \o Sl(i, j) \o ":-1] = " \o y, "ValueError")
    \* whole-list extended slices: the same-length rule makes these the extended assignments that succeed when the
    \* right-hand side is the list itself or an alias; every item of the right-hand side is read before any is written
    [] f = "setrev" -> IF SetSliceOk(L, NoneV, NoneV, -1, M) THEN Mut(x, SetSliceD(L, NoneV, NoneV, -1, M), x \o "[::-1] = " \o y)
                       ELSE Raise(x \o "[::-1] = " \o y, "ValueError")
    [] f = "seteven" -> LET E == GetSliceD(M, NoneV, NoneV, 2)
                        IN IF SetSliceOk(L, NoneV, NoneV, 2, E) THEN Mut(x, SetSliceD(L, NoneV, NoneV, 2, E), x \o "[::2] = " \o y \o "[::2]")
                           ELSE Raise(x \o "[::2] = " \o y \o "[::2]", "ValueError")
    [] f = "delslice" -> Mut(x, DelSliceD(L, i, j, NoneV), "del " \o x \o "[" \o Sl(i, j) \o "]")
    [] f = "delslice2" -> Mut(x, DelSliceD(L, i, j, 2), "del " \o x \o "[" \o Sl(i, j) \o ":2]")
    [] f = "delslicem1" -> Mut(x, DelSliceD(L, i, j, -1), "del " \o x \o "[" \o Sl(i, j) \o ":-1]")
    [] f = "slicecopy" -> Fresh(x, M, x \o " = " \o y \o "[:]")
    [] f = "getslice" -> Fresh(x, GetSliceD(M, i, j, NoneV), x \o " = " \o y \o "[" \o Sl(i, j) \o "]")
    [] f = "listcopy" -> Fresh(x, M, x \o " = list(" \o y \o ")")
    [] f = "concat" -> Fresh(x, L \o M, x \o " = " \o x \o " + " \o y)
    [] f = "concat2" -> Fresh(x, M \o L, x \o " = " \o y \o " + " \o x)
    [] f = "repeat" -> Fresh(x, RepeatD(M, 2), x \o " = " \o y \o " * 2")
    [] f = "rebind" -> Rebind(x, y)
    [] f = "contains" -> Same(s \o " in " \o x, "ok", <<BoolAtom(FirstEq(L, s) # 0)>>)
    [] f = "len" -> Same("len(" \o x \o ")", "ok", <<Str(n)>>)
    [] f = "eq" -> Same(x \o " == " \o y, "ok", <<BoolAtom(ItemsEq(heap, L, M))>>)
    [] f = "index" -> IF FirstEq(L, s) = 0 THEN RaiseE(x \o ".index(" \o s \o ")", "ValueError")
                      ELSE Same(x \o ".index(" \o s \o ")", "ok", <<Str(FirstEq(L, s) - 1)>>)
    [] f = "count" -> Same(x \o ".count(" \o s \o ")", "ok", <<Str(CountEq(L, s))>>)
    [] f = "iter" -> Eff(var, heap, [obj |-> var[x], pos |-> 0, dirty |-> FALSE], "it = iter(" \o x \o ")", "ok", <<>>, {}, FALSE, FALSE)
    [] f = "next" -> NextEff
    \* x = list(it): everything the iterator has left, as a new list; the iterator is exhausted afterwards and STAYS
    \* exhausted however the list it walked grows later (found missing by an independently seeded change: an exhausted
    \* list iterator that came back to life after an append)
    [] f = "drain" -> Eff([var EXCEPT ![x] = NewId],
                          Append(heap, IF iter.pos >= 0 /\ iter.pos < Len(heap[iter.obj])
                                       THEN SubSeq(heap[iter.obj], iter.pos + 1, Len(heap[iter.obj])) ELSE <<>>),
                          [iter EXCEPT !.pos = -1], x \o " = list(it)", "ok", <<>>, {}, FALSE, FALSE)
    [] f = "forappend" -> Eff(var, ForAppend(heap, var[x], var[y], 1), iter,
                              "for e in " \o x \o ": " \o y \o ".append(e) if len(" \o y \o ") < " \o Str(MaxLen) \o " else None", "ok", <<>>, {var[y]}, FALSE, FALSE)
    [] f = "listcomp" -> Fresh(x, M, x \o " = [e for e in " \o y \o "]")

\* which parameters a form reads (the others are pinned so that a statement is enumerated once)
ListUses(f) ==
  CASE f \in {"append", "remove", "contains", "index", "count"} -> {"s"}
    [] f \in {"appendref", "extend", "copy", "iadd", "slicecopy", "listcopy", "concat", "concat2", "repeat", "rebind", "eq", "forappend", "listcomp", "setrev", "seteven", "sortkeymut"} -> {"y"}
    [] f \in {"insert", "setitem"} -> {"i", "s"}
    [] f \in {"popi", "delitem", "getitem", "imul"} -> {"i"}
    [] f \in {"setslice", "setslice2", "setslicem1", "getslice"} -> {"y", "i", "j"}
    [] f \in {"delslice", "delslice2", "delslicem1"} -> {"i", "j"}
    [] f = "next" -> {"nox"}
    [] OTHER -> {}
SliceForms == {"setslice", "setslice2", "setslicem1", "delslice", "delslice2", "delslicem1", "getslice"}
FewPairs == {<<0, 1>>, <<1, Far>>, <<-1, 0>>, <<1, 0>>, <<0, 0>>, <<-1, Far>>}
PairOk(i, j) == Pairs = "all" \/ <<i, j>> \in FewPairs
ListMethod(f) == CASE f = "appendref" -> "append" [] f = "popi" -> "pop" [] OTHER -> f
ListMethods == {"append", "appendref", "extend", "insert", "pop", "popi", "remove", "reverse", "sort", "clear", "copy", "index", "count"}
ListEnabled(f, x, y, s, i, j) ==
  LET L == O(x) M == O(y) n == Len(O(x)) IN
  /\ f \in ListMethods => Has(ListMethod(f))
  /\ f \in SliceForms => PairOk(i, j)
  \* copying references into an object must not make it reachable from itself
  /\ f \in {"extend", "iadd", "setslice", "setslice2", "setslicem1", "setrev", "seteven"} => \A b \in Refs(M) : NoCycle(heap, var[x], b)
  /\ f = "forappend" => \A b \in Refs(L) : NoCycle(heap, var[y], b)
  /\ CASE f = "append" -> Small(n + 1)
       [] f = "appendref" -> Small(n + 1) /\ NoCycle(heap, var[x], var[y])
       [] f \in {"extend", "iadd", "concat", "concat2"} -> Small(n + Len(M))
       [] f = "insert" -> Small(n + 1)
       [] f = "imul" -> i \in {0, 2} /\ Small(n * i)
       [] f = "repeat" -> Small(2 * Len(M))
       [] f = "setslice" -> Small(Len(SetSliceD(L, i, j, NoneV, M)))
       [] f = "sort" -> AllScalars(L)
       [] f = "sortkeymut" -> AllScalars(L) /\ Has("sort") /\ Has("append") /\ (var[x] # var[y] => Small(Len(M) + n))
       [] f = "rebind" -> x # y
       [] f = "next" -> iter.obj # 0
       [] f = "drain" -> iter.obj # 0
       [] OTHER -> TRUE

-----------------------------------------------------------------------------
(* dicts (string keys, integer values)                                                              *)
Dom(d) == DOMAIN d
Put(d, k, v) == [kk \in Dom(d) \cup {k} |-> IF kk = k THEN v ELSE d[kk]]
Drop(d, k) == [kk \in Dom(d) \ {k} |-> d[kk]]
Merge(d, e) == [kk \in Dom(d) \cup Dom(e) |-> IF kk \in Dom(e) THEN e[kk] ELSE d[kk]]
Q(k) == "'" \o k \o "'"
NoneAtom == "None"
DictEffect(f, x, y, s, k) ==
  LET D == O(x) E == O(y) v == NumVal(s) IN
  CASE f = "dset" -> Mut(x, Put(D, k, v), x \o "[" \o Q(k) \o "] = " \o s)
    [] f = "ddel" -> IF k \in Dom(D) THEN Mut(x, Drop(D, k), "del " \o x \o "[" \o Q(k) \o "]") ELSE Raise("del " \o x \o "[" \o Q(k) \o "]", "KeyError")
    [] f = "dgetitem" -> IF k \in Dom(D) THEN Same(x \o "[" \o Q(k) \o "]", "ok", <<Str(D[k])>>) ELSE RaiseE(x \o "[" \o Q(k) \o "]", "KeyError")
    [] f = "get" -> Same(x \o ".get(" \o Q(k) \o ")", "ok", <<IF k \in Dom(D) THEN Str(D[k]) ELSE NoneAtom>>)
    [] f = "get2" -> Same(x \o ".get(" \o Q(k) \o ", " \o s \o ")", "ok", <<IF k \in Dom(D) THEN Str(D[k]) ELSE s>>)
    [] f = "dcontains" -> Same(Q(k) \o " in " \o x, "ok", <<BoolAtom(k \in Dom(D))>>)
    [] f = "len" -> Same("len(" \o x \o ")", "ok", <<Str(Cardinality(Dom(D)))>>)
    [] f = "update" -> Mut(x, Merge(D, E), x \o ".update(" \o y \o ")")
    [] f = "updatekw" -> Mut(x, Put(D, k, v), x \o ".update(" \o k \o "=" \o s \o ")")
    [] f = "pop" -> IF k \in Dom(D) THEN MutVal(x, Drop(D, k), x \o ".pop(" \o Q(k) \o ")", <<Str(D[k])>>) ELSE RaiseE(x \o ".pop(" \o Q(k) \o ")", "KeyError")
    [] f = "pop2" -> IF k \in Dom(D) THEN MutVal(x, Drop(D, k), x \o ".pop(" \o Q(k) \o ", " \o s \o ")", <<Str(D[k])>>)
                     ELSE Same(x \o ".pop(" \o Q(k) \o ", " \o s \o ")", "ok", <<s>>)
    [] f = "setdefault" -> IF k \in Dom(D) THEN Same(x \o ".setdefault(" \o Q(k) \o ", " \o s \o ")", "ok", <<Str(D[k])>>)
                           ELSE MutVal(x, Put(D, k, v), x \o ".setdefault(" \o Q(k) \o ", " \o s \o ")", <<s>>)
    [] f = "clear" -> Mut(x, [kk \in {} |-> 0], x \o ".clear()")
    [] f = "dictcopy" -> Fresh(x, E, x \o " = dict(" \o y \o ")")
    [] f = "copy" -> Fresh(x, E, x \o " = " \o y \o ".copy()")
    [] f = "rebind" -> Rebind(x, y)
    [] f = "eq" -> Same(x \o " == " \o y, "ok", <<BoolAtom(D = E)>>)
    \* iteration in all its forms yields every key (value, item) once; the order is not fixed
    [] f = "keys" -> SameU("sorted(" \o x \o ".keys())", <<Dom(D)>>)
    [] f = "diter" -> SameU("sorted([k for k in " \o x \o "])", <<Dom(D)>>)
    [] f = "items" -> SameU("sorted([k for k, v in " \o x \o ".items() if " \o x \o "[k] == v])", <<Dom(D)>>)
    \* the values, counted per value (several keys may hold the same one)
    [] f = "values" -> Same("[len([v for v in " \o x \o ".values() if v == c]) for c in [0, 1, 2, 3]]", "ok",
                            <<[c \in 1..4 |-> Str(Cardinality({kk \in Dom(D) : D[kk] = c - 1}))]>>)
    [] f = "dforcopy" -> Eff(var, [heap EXCEPT ![var[y]] = Merge(E, D)], iter, "for k in sorted(" \o x \o "): " \o y \o "[k] = " \o x \o "[k]", "ok", <<>>, {var[y]}, FALSE, FALSE)
DictUses(f) ==
  CASE f \in {"dset", "get2", "updatekw", "pop2", "setdefault"} -> {"k", "s"}
    [] f \in {"ddel", "dgetitem", "get", "dcontains", "pop"} -> {"k"}
    [] f \in {"update", "dictcopy", "copy", "rebind", "eq", "dforcopy"} -> {"y"}
    [] OTHER -> {}
DictMethods == {"get", "get2", "update", "updatekw", "pop", "pop2", "setdefault", "clear", "copy", "keys", "values", "items"}
DictMethod(f) == CASE f = "get2" -> "get" [] f = "updatekw" -> "update" [] f = "pop2" -> "pop" [] OTHER -> f
DictEnabled(f, x, y, s, k) ==
  /\ f \in DictMethods => Has(DictMethod(f))
  /\ CASE f = "rebind" -> x # y [] OTHER -> TRUE
-----------------------------------------------------------------------------
(* sets of hashable scalars: membership is by equality class                                        *)
SetEffect(f, x, y, s) ==
  LET S == O(x) T == O(y) c == NumVal(s) IN
  CASE f = "add" -> Mut(x, S \cup {c}, x \o ".add(" \o s \o ")")
    [] f = "remove" -> IF c \in S THEN Mut(x, S \ {c}, x \o ".remove(" \o s \o ")") ELSE Raise(x \o ".remove(" \o s \o ")", "KeyError")
    [] f = "discard" -> Mut(x, S \ {c}, x \o ".discard(" \o s \o ")")
    [] f = "contains" -> Same(s \o " in " \o x, "ok", <<BoolAtom(c \in S)>>)
    [] f = "len" -> Same("len(" \o x \o ")", "ok", <<Str(Cardinality(S))>>)
    [] f = "update" -> Mut(x, S \cup T, x \o ".update(" \o y \o ")")
    [] f = "or" -> Fresh(x, S \cup T, x \o " = " \o x \o " | " \o y)
    [] f = "and" -> Fresh(x, S \cap T, x \o " = " \o x \o " & " \o y)
    [] f = "sub" -> Fresh(x, S \ T, x \o " = " \o x \o " - " \o y)
    [] f = "xor" -> Fresh(x, (S \ T) \cup (T \ S), x \o " = " \o x \o " ^ " \o y)
    \* the augmented forms change the object itself: every alias sees it
    [] f = "ior" -> Mut(x, S \cup T, x \o " |= " \o y)
    [] f = "iand" -> Mut(x, S \cap T, x \o " &= " \o y)
    [] f = "isub" -> Mut(x, S \ T, x \o " -= " \o y)
    [] f = "ixor" -> Mut(x, (S \ T) \cup (T \ S), x \o " ^= " \o y)
    [] f = "clear" -> Mut(x, {}, x \o ".clear()")
    [] f = "setcopy" -> Fresh(x, T, x \o " = set(" \o y \o ")")
    [] f = "copy" -> Fresh(x, T, x \o " = " \o y \o ".copy()")
    [] f = "rebind" -> Rebind(x, y)
    [] f = "eq" -> Same(x \o " == " \o y, "ok", <<BoolAtom(S = T)>>)
    [] f = "le" -> Same(x \o " <= " \o y, "ok", <<BoolAtom(S \subseteq T)>>)
    [] f = "issubset" -> Same(x \o ".issubset(" \o y \o ")", "ok", <<BoolAtom(S \subseteq T)>>)
    [] f = "isdisjoint" -> Same(x \o ".isdisjoint(" \o y \o ")", "ok", <<BoolAtom(S \cap T = {})>>)
    \* pop takes an arbitrary member: only decided when there is at most one
    [] f = "pop" -> IF S = {} THEN RaiseE(x \o ".pop()", "KeyError")
                    ELSE MutVal(x, {}, x \o ".pop() == " \o Str(CHOOSE m \in S : TRUE), <<"True">>)
    \* iterating yields every member once
    [] f = "iterlen" -> Same("len([e for e in " \o x \o "])", "ok", <<Str(Cardinality(S))>>)
SetUses(f) ==
  CASE f \in {"add", "remove", "discard", "contains"} -> {"s"}
    [] f \in {"update", "or", "and", "sub", "xor", "ior", "iand", "isub", "ixor", "setcopy", "copy", "rebind", "eq", "le", "issubset", "isdisjoint"} -> {"y"}
    [] OTHER -> {}
SetMethods == {"add", "remove", "discard", "update", "clear", "copy", "issubset", "isdisjoint", "pop"}
\* operator forms count as provided when the live type implements the operator
SetOperator(f) == CASE f = "or" -> "|" [] f = "and" -> "&" [] f = "sub" -> "-" [] f = "xor" -> "^" [] f = "le" -> "<="
                    [] f = "ior" -> "|" [] f = "iand" -> "&" [] f = "isub" -> "-" [] f = "ixor" -> "^" [] OTHER -> ""
SetEnabled(f, x, y, s) ==
  /\ f \in SetMethods => Has(f)
  /\ SetOperator(f) # "" => Has(SetOperator(f))
  /\ CASE f = "rebind" -> x # y
       [] f = "pop" -> Cardinality(O(x)) <= 1
       [] f = "add" -> Small(Cardinality(O(x)) + 1)
       [] OTHER -> TRUE

-----------------------------------------------------------------------------
(* initial heaps: p and q are one object, r is another                                              *)
InitHeap == CASE Kind = "list" -> << <<Sc("0"), Sc("1")>>, <<Sc("2")>> >>
              \* r shares a key with p under another value: equality has to look at the values within two statements
              [] Kind = "dict" -> << [kk \in {"a"} |-> 0], [kk \in {"a", "b"} |-> 1] >>
              [] Kind = "set" -> << {0, 1}, {2} >>
\* The lists are made by statements, not by displays alone: an implementation keeps spare room behind a list that was
\* shortened, and storage wrongly shared between a list and something derived from it only shows when there is such
\* room (found by an independently seeded change: `a + b` built with append on a's storage). The model's heap is the same.
InitText == CASE Kind = "list" -> <<"p = [0, 1, 7]", "del p[2]", "q = p", "r = [2, 7]", "del r[1]">>
              [] Kind = "dict" -> <<"p = {'a': 0}", "q = p", "r = {'a': 1, 'b': 1}">>
              [] Kind = "set" -> <<"p = {0, 1}", "q = p", "r = {2}">>
Init == /\ cf \in Configs
        /\ heap = InitHeap
        /\ var = [n \in Names |-> IF n = "r" THEN 2 ELSE 1]
        /\ iter = [obj |-> 0, pos |-> 0, dirty |-> FALSE]
        /\ hist = <<>>

\* nothing outside the declared objects changes, nothing is lost, a fresh object is really new
FrameOK(e) == /\ Len(e.h) >= Len(heap)
              /\ \A id \in 1..Len(heap) : id \notin e.touched => e.h[id] = heap[id]
              /\ \A n \in Names : e.v[n] <= Len(e.h)
              /\ \A n \in Names : e.v[n] > Len(heap) => \A m \in Names : (var[m] # e.v[n])

I0 == 0
S0 == CHOOSE s \in Scalars : TRUE
K0 == CHOOSE k \in Keys : TRUE
Pinned(uses, x, y, s, i, j, k) ==
  /\ "y" \notin uses => y = "p"
  /\ "s" \notin uses => s = S0
  /\ "i" \notin uses => i = I0
  /\ "j" \notin uses => j = I0
  /\ "k" \notin uses => k = K0
  /\ "nox" \in uses => x = "p"

\* the class of a step, for finding keys: the statement form, whether the right operand is the object itself
\* (through any name), whether a plain slice names a position beyond its stop, whether the list was changed
\* since the iterator that is being advanced was made, whether a set statement spells a member other than as a plain
\* int (1.0, True) or comes after one that did
PlainInts == {"0", "1", "2", "3"}
\* some earlier statement put a member spelled 1.0 / True / ... into a set (the set model itself keeps classes only)
AfterSpelled == \E n \in 1..Len(hist) : hist[n].form = "add" /\ hist[n].cls = ",spelled"
StepClass(f, uses, x, y, s, i, j, e) ==
  (IF Kind = "set" /\ "s" \in uses /\ s \notin PlainInts THEN ",spelled" ELSE "") \o
  (IF Kind = "set" /\ AfterSpelled THEN ",mixed" ELSE "") \o
  (IF "y" \in uses /\ var[x] = var[y] THEN ",alias" ELSE "") \o
  (IF Kind = "list" /\ f \in SliceForms /\ FirstUp(Len(O(IF f = "getslice" THEN y ELSE x)), i) > BoundUp(Len(O(IF f = "getslice" THEN y ELSE x)), j) THEN ",crossed" ELSE "") \o
  (IF f = "next" /\ iter.dirty THEN ",mutated" ELSE "")
Apply(e, f, cls) ==
  /\ Assert(FrameOK(e), <<"frame violated by", e.stmt>>)
  /\ LET cn == Canon(e.v, e.h, IF e.it.obj # 0 /\ e.it.obj \in e.touched THEN [e.it EXCEPT !.dirty = TRUE] ELSE e.it)
         step == [form |-> f, cls |-> cls, stmt |-> e.stmt, res |-> e.res, val |-> e.val, expr |-> e.expr, unord |-> e.unord, obs |-> Obs(cn.v, cn.h)]
     IN /\ cf' = cf
        /\ var' = cn.v
        /\ heap' = cn.h
        /\ iter' = cn.it
        /\ hist' = Append(hist, step)
        /\ EmitAll => PrintT(ToJson([kind |-> Kind, cfg |-> cf.name, init |-> InitText, steps |-> Append(hist, step)]))

Next ==
  /\ Len(hist) < MaxOps
  /\ \E f \in Forms, x \in Names, y \in Names, s \in Scalars, i \in Idx, j \in Idx, k \in Keys :
       \/ /\ Kind = "list"
          /\ Pinned(ListUses(f), x, y, s, i, j, k) /\ k = K0
          /\ ListEnabled(f, x, y, s, i, j)
          /\ LET e == ListEffect(f, x, y, s, i, j) IN Apply(e, f, StepClass(f, ListUses(f), x, y, s, i, j, e))
       \/ /\ Kind = "dict"
          /\ Pinned(DictUses(f), x, y, s, i, j, k)
          /\ DictEnabled(f, x, y, s, k)
          /\ LET e == DictEffect(f, x, y, s, k) IN Apply(e, f, StepClass(f, DictUses(f), x, y, s, i, j, e))
       \/ /\ Kind = "set"
          /\ Pinned(SetUses(f), x, y, s, i, j, k)
          /\ SetEnabled(f, x, y, s)
          /\ LET e == SetEffect(f, x, y, s) IN Apply(e, f, StepClass(f, SetUses(f), x, y, s, i, j, e))
Spec == Init /\ [][Next]_vars

\* Simulation (tlc -simulate): instead of computing every successor and throwing all but one away, each
\* step draws a few random statements (TLC's seeded RandomElement) and offers the enabled ones.
UsesOf(f) == CASE Kind = "list" -> ListUses(f) [] Kind = "dict" -> DictUses(f) [] Kind = "set" -> SetUses(f)
SimTry ==
  \E f \in {RandomElement(Forms)} :
  \E x0 \in {RandomElement(Names)}, y0 \in {RandomElement(Names)}, s0 \in {RandomElement(Scalars)},
     i0 \in {RandomElement(Idx)}, j0 \in {RandomElement(Idx)}, k0 \in {RandomElement(Keys)} :
    LET uses == UsesOf(f)
        x == IF "nox" \in uses THEN "p" ELSE x0
        y == IF "y" \in uses THEN y0 ELSE "p"
        s == IF "s" \in uses THEN s0 ELSE S0
        i == IF "i" \in uses THEN i0 ELSE I0
        j == IF "j" \in uses THEN j0 ELSE I0
        k == IF "k" \in uses THEN k0 ELSE K0
    IN \/ /\ Kind = "list" /\ ListEnabled(f, x, y, s, i, j)
          /\ LET e == ListEffect(f, x, y, s, i, j) IN Apply(e, f, StepClass(f, uses, x, y, s, i, j, e))
       \/ /\ Kind = "dict" /\ DictEnabled(f, x, y, s, k)
          /\ LET e == DictEffect(f, x, y, s, k) IN Apply(e, f, StepClass(f, uses, x, y, s, i, j, e))
       \/ /\ Kind = "set" /\ SetEnabled(f, x, y, s)
          /\ LET e == SetEffect(f, x, y, s) IN Apply(e, f, StepClass(f, uses, x, y, s, i, j, e))
SimNext == Len(hist) < MaxOps /\ \E t \in 1..6 : SimTry
SimSpec == Init /\ [][SimNext]_vars

\* simulation mode: the finished history is printed from the state TLC actually walked into
EmitFinal == (~EmitAll /\ Len(hist) = MaxOps) => PrintT(ToJson([kind |-> Kind, cfg |-> cf.name, init |-> InitText, steps |-> hist]))

\* TLC identifies situations, not the ways they were reached: the history is bookkeeping
\* ... except the way the newest object was made: every way of copying (slice, constructor, method, +, *, comprehension,
\* set operator) must be followed by every mutation, so situations reached by different copying statements stay apart
CopyForms == {"slicecopy", "getslice", "listcopy", "drain", "concat", "concat2", "repeat", "listcomp", "copy", "dictcopy", "setcopy", "or", "and", "sub", "xor"}
CopyTag == IF hist # <<>> /\ hist[Len(hist)].form \in CopyForms THEN hist[Len(hist)].form ELSE ""
View == <<cf.name, var, heap, iter, CopyTag>>

-----------------------------------------------------------------------------
(* invariants of the model                                                                          *)
\* the heap is canonical and well-formed: every object reachable, every reference valid, no cycle
WellFormed == /\ \A n \in Names : var[n] \in 1..Len(heap)
              /\ iter.obj \in 0..Len(heap)
              /\ Kind = "list" => \A id \in 1..Len(heap) : /\ Refs(heap[id]) \subseteq 1..Len(heap)
                                                            /\ \A b \in Refs(heap[id]) : NoCycle(heap, id, b)
\* a mutation through one name is visible through every alias: aliases show the same contents, because
\* they are one object; and what the last observation shows is the heap
AliasVisibility == \A a, b \in Names : var[a] = var[b] => Show(heap, var[a]) = Show(heap, var[b])
LastObsIsHeap == hist # <<>> => hist[Len(hist)].obs = Obs(var, heap)
Bounded == \A id \in 1..Len(heap) : SizeOf(heap, id) <= MaxLen
=============================================================================
