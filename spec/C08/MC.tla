------------------------------- MODULE MC -------------------------------
(* Bounded instances of Contexts: every assignment of scripts to the contexts within per-context *)
(* length bounds, up to permutation of contexts that have the same bound.                        *)
EXTENDS Contexts
CONSTANTS MaxLens   \* sequence of length bounds, one per context in the order of CtxSeq

CtxSeq == << "c1", "c2", "c3" >>
Pos(c) == CHOOSE i \in 1..Len(CtxSeq) : CtxSeq[i] = c
Bound(c) == MaxLens[Pos(c)]

Code(s) == FoldLeft(LAMBDA acc, o : acc * (Len(OpList) + 1) + o, 0, s)
Scripts(n) == UNION { [1..k -> 1..Len(OpList)] : k \in 0..n }
Sorted(a) == \A c, d \in Ctx : (Pos(c) < Pos(d) /\ Bound(c) = Bound(d)) =>
                 (Len(a[c]) > Len(a[d]) \/ (Len(a[c]) = Len(a[d]) /\ Code(a[c]) <= Code(a[d])))
F2(s1, s2) == ("c1" :> s1) @@ ("c2" :> s2)
F3(s1, s2, s3) == ("c1" :> s1) @@ ("c2" :> s2) @@ ("c3" :> s3)
MCScripts == IF Cardinality(Ctx) = 2
             THEN { a \in { F2(s1, s2) : s1 \in Scripts(MaxLens[1]), s2 \in Scripts(MaxLens[2]) } : Sorted(a) }
             ELSE { a \in { F3(s1, s2, s3) : s1 \in Scripts(MaxLens[1]), s2 \in Scripts(MaxLens[2]), s3 \in Scripts(MaxLens[3]) } : Sorted(a) }

ML21 == <<2, 1>>
ML22 == <<2, 2>>
ML111 == <<1, 1, 1>>
ML31 == <<3, 1>>
Both == {"percontext", "reject"}
One == {"percontext"}
=============================================================================
