\* quick: every program of nesting depth <= 2, every input choice
SPECIFICATION Spec
CONSTANTS
  Depth = 2
  MinDepth = 0
  SynDepth = 2
  Outer3 <- Contexts
  MaxIn = 3
INVARIANTS TypeOK CleanupOnce HandlerFirstMatch NoneLost HandledStack EscapeIntact FinalOK RejectedNeverRuns
CHECK_DEADLOCK TRUE
