\* the harness writes its own copy (MaxLen, Seed, Full) and the input file extra.ndjson
CONSTANTS
  MaxLen = 3
  Seed = 1
  Full = FALSE
INIT Init
NEXT Next
INVARIANT LawsOK
CHECK_DEADLOCK FALSE
