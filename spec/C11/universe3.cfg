SPECIFICATION Spec
CONSTANTS MaxLen = 3
          SimLens = {}
INVARIANT Emit
CHECK_DEADLOCK FALSE
