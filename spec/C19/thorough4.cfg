SPECIFICATION Spec
CONSTANTS
  Mods = {"ma", "mb", "mc", "md"}
  Families = {"uniform", "sample"}
  AssumeAll = TRUE
INVARIANTS TypeOK OnlyAvailable RunOnce NoReentry OneObject Provenance StarRespectsUnderscore Terminates Usable Emit
CHECK_DEADLOCK FALSE
