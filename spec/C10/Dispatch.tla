------------------------------ MODULE Dispatch ------------------------------
(* C10: the call/operator boundary.  An application - a callable applied to an argument tuple,   *)
(* an operator template over operands, or a program - is delivered to the embedder as a value or *)
(* as a Python exception carried by the returned error.  The outcome alphabet has exactly these  *)
(* two letters: there is NO action that panics, aborts the process or never returns.  The harness *)
(* reads the alphabet from the Meta record and reports every observed outcome outside it.        *)
(*                                                                                               *)
(* The module also enumerates the input universe of Universe.tla for the harness: the full       *)
(* product of argument tuples up to MaxFull, a seeded sample of NSample tuples of arity 3, the    *)
(* operator templates, the programs; and the number of cases of each family, which the harness   *)
(* must reproduce exactly (it forms callable x tuple and operator x tuple itself, the callables   *)
(* being known only to the live interpreter).                                                    *)
EXTENDS Universe, TLC, Json

CONSTANTS MaxFull,   \* arities 0..MaxFull are enumerated completely
          NSample    \* number of random triples (seeded by TLC's -seed)

Outcomes == {"value", "exception"}
Kinds == {"call", "operator", "program"}

VARIABLES kind, outcome
vars == <<kind, outcome>>
Init == kind \in Kinds /\ outcome = "pending"
Deliver == outcome = "pending" /\ outcome' \in Outcomes /\ UNCHANGED kind
Next == Deliver
Spec == Init /\ [][Next]_vars /\ WF_vars(Next)
TypeOK == outcome \in Outcomes \cup {"pending"}
Delivered == <>(outcome \in Outcomes)

\* ---- enumeration, at constant level ----
Full == UNION { TupleSet(n) : n \in 0..MaxFull }
Triple(k) == << RandomElement(1..NV), RandomElement(1..NV), RandomElement(1..NV) >>
Sample == { Triple(k) : k \in 1..NSample }
OpsOfArity(n) == { i \in 1..Len(Operators) : Operators[i].arity = n }
Count(S, tier) == Cardinality({ t \in S : TierOf(t) = tier })

Meta == [outcomes |-> Outcomes, prelude |-> Prelude, values |-> Values, operators |-> Operators, excluded |-> Excluded,
         tuples_std |-> Count(Full, "std"), tuples_resource |-> Count(Full, "resource"), tuples_fatal |-> Count(Full, "fatal"),
         operator_cases_std |-> [n \in 1..2 |-> Cardinality(OpsOfArity(n)) *
                                                  (Count(TupleSet(n), "std") + Cardinality({ t \in SweepTuples : Len(t) = n }))],
         sweep_tuples |-> Cardinality(SweepTuples)]
ASSUME PrintT(ToJson(Meta))
ASSUME \A t \in Full : PrintT(ToJson([args |-> t, tier |-> TierOf(t), sample |-> FALSE]))
ASSUME \A t \in SweepTuples : PrintT(ToJson([args |-> t, tier |-> "std", sample |-> FALSE, sweep |-> TRUE]))
ASSUME \A t \in Sample : PrintT(ToJson([args |-> t, tier |-> TierOf(t), sample |-> TRUE]))
ASSUME \A p \in Programs : PrintT(ToJson([program |-> p, tier |-> "std"]))
ASSUME \A p \in ReentrantPrograms : PrintT(ToJson([program |-> p, tier |-> "std"]))
ASSUME \A p \in UnboundPrograms : PrintT(ToJson([program |-> p, tier |-> "std"]))
ASSUME \A p \in FatalPrograms : PrintT(ToJson([program |-> p, tier |-> "fatal"]))
=============================================================================
