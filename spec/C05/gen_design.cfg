\* design check on the small-step specification (one TLC run):
\*  - yield from is transparent: each delegating template side by side with its in-place form, 5 calls each in lock-step (thorough: gen_design_t.cfg, 6)
\*  - every template alone: every history of 5 (thorough 6) next/send('a')/send('b') calls, all invariants on every small step
SPECIFICATION SpecDesign
CONSTANTS
  NTop = 2
  MaxOps = 10
  MaxOpsOne = 5
  NB = 14
  MaxMicro = 80
  Bodies <- BWithInline
  SendVals <- SendThorough
  TopChoices <- QuickDesignTops
  LockChoices <- QuickLockTops
INVARIANTS TypeOK Transparent DoneAbsorbing DoneStatus SendCreated LazyCreation Quiescent SuspendedAtYield
CHECK_DEADLOCK FALSE
