---- MODULE SymtableRun ----
\* SymtableAlg as a state machine: the analysis of symtable.go with an explicit stack of
\* AnalyzeBlock activations, in which every loop over a Go map takes ONE ELEMENT PER ACTION in an
\* ARBITRARY order (\E n \in todo).  TLC therefore explores every iteration order of every loop
\* of every block.  Checked on it:
\*   RefinesD  (C03): every terminal state equals the declarative classification PyScopeD, and the
\*                    analysis fails iff PyScopeD rejects the program -- "the outcome never depends
\*                    on the order in which names happen to be analysed";
\*   Confluent (C18): every terminal state equals the result of the functional driver in one fixed
\*                    order, i.e. all terminal states of one program agree.
EXTENDS PyScopeD
VARIABLES prog,   \* the analysed program (Blocks); constant along a behaviour
          stk,    \* stack of AnalyzeBlock activations, innermost last
          res,    \* block -> (name -> final scope), filled when a block returns
          err     \* "" or the first error raised (the Go code panics out of the whole analysis)
vars == <<prog, stk, res, err>>

NoRes == [n \in Names |-> INV]
\* activation record of AnalyzeBlock(bound, free, global) on block b
Frame(b, bound, free, global) ==
  [b |-> b, ph |-> "names", todo |-> Syms(prog, b), bound0 |-> bound, global0 |-> global,
   s |-> NameState0(bound, free, global), kid |-> 1, nb |-> {}, ng |-> {}, allfree |-> {},
   c |-> [scopes |-> NoRes, free |-> {}], u |-> NoRes]
Top == stk[Len(stk)]
SetTop(f) == [stk EXCEPT ![Len(stk)] = f]

\* `for name, v := range st.Symbols { st.AnalyzeName(...) }`
NameLoop == /\ stk # <<>> /\ Top.ph = "names" /\ Top.todo # {}
            /\ \E n \in Top.todo :
                 LET s2 == AnalyzeName(prog, Top.b, Top.s, n) IN
                 IF s2.err # "" THEN /\ err' = s2.err /\ stk' = <<>> /\ UNCHANGED <<prog, res>>     \* panic
                 ELSE /\ stk' = SetTop([Top EXCEPT !.s = s2, !.todo = @ \ {n}]) /\ UNCHANGED <<prog, res, err>>
NameDone == /\ stk # <<>> /\ Top.ph = "names" /\ Top.todo = {}
            /\ stk' = SetTop([Top EXCEPT !.ph = "kids", !.nb = NewBound(prog, Top.b, Top.bound0, Top.s),
                                         !.ng = NewGlobal(prog, Top.b, Top.global0, Top.s)])
            /\ UNCHANGED <<prog, res, err>>
\* `for _, entry := range st.Children { entry.AnalyzeChildBlock(newbound, newfree, newglobal, allfree) }`
\* (a slice: fixed order; the child works on copies; newfree is still empty here)
KidCall == /\ stk # <<>> /\ Top.ph = "kids" /\ Top.kid <= Len(ChildSeq(prog, Top.b))
           /\ stk' = Append(SetTop([Top EXCEPT !.kid = @ + 1]),
                            Frame(ChildSeq(prog, Top.b)[Top.kid], BS(Top.nb), {}, Top.ng))
           /\ UNCHANGED <<prog, res, err>>
KidsDone == /\ stk # <<>> /\ Top.ph = "kids" /\ Top.kid > Len(ChildSeq(prog, Top.b))
            /\ LET c0 == [scopes |-> Top.s.scopes, free |-> Top.allfree]
                   ty == prog[Top.b].type IN
               stk' = SetTop(IF ty = "function" THEN [Top EXCEPT !.ph = "cells", !.c = c0, !.todo = Syms(prog, Top.b)]
                             ELSE [Top EXCEPT !.ph = "usym", !.c = IF ty = "class" THEN DropClass(c0) ELSE c0,
                                              !.todo = Syms(prog, Top.b)])
            /\ UNCHANGED <<prog, res, err>>
\* AnalyzeCells: `for name, scope := range scopes`
CellLoop == /\ stk # <<>> /\ Top.ph = "cells" /\ Top.todo # {}
            /\ \E n \in Top.todo : stk' = SetTop([Top EXCEPT !.c = CellStep(Top.c, n), !.todo = @ \ {n}])
            /\ UNCHANGED <<prog, res, err>>
CellDone == /\ stk # <<>> /\ Top.ph = "cells" /\ Top.todo = {}
            /\ stk' = SetTop([Top EXCEPT !.ph = "usym", !.todo = Syms(prog, Top.b)])
            /\ UNCHANGED <<prog, res, err>>
\* Symbols.Update, first loop `for name, symbol := range symbols`
USymLoop == /\ stk # <<>> /\ Top.ph = "usym" /\ Top.todo # {}
            /\ \E n \in Top.todo : stk' = SetTop([Top EXCEPT !.u = UpdSymStep(prog, Top.b, Top.u, Top.c.scopes, n), !.todo = @ \ {n}])
            /\ UNCHANGED <<prog, res, err>>
USymDone == /\ stk # <<>> /\ Top.ph = "usym" /\ Top.todo = {}
            /\ stk' = SetTop([Top EXCEPT !.ph = "ufree", !.todo = Top.c.free])
            /\ UNCHANGED <<prog, res, err>>
\* Symbols.Update, second loop `for name := range free`
UFreeLoop == /\ stk # <<>> /\ Top.ph = "ufree" /\ Top.todo # {}
             /\ \E n \in Top.todo : stk' = SetTop([Top EXCEPT !.u = UpdFreeStep(prog, Top.b, Top.u, Top.s.bound, n), !.todo = @ \ {n}])
             /\ UNCHANGED <<prog, res, err>>
\* free.Update(newfree); return to AnalyzeChildBlock: child_free.Update(temp_free)
Return == /\ stk # <<>> /\ Top.ph = "ufree" /\ Top.todo = {}
          /\ LET out == Top.s.free \cup Top.c.free
                 rest == SubSeq(stk, 1, Len(stk) - 1) IN
             /\ res' = [res EXCEPT ![Top.b] = Top.u]
             /\ stk' = IF rest = <<>> THEN <<>>
                       ELSE [rest EXCEPT ![Len(rest)] = [@ EXCEPT !.allfree = @ \cup out]]
          /\ UNCHANGED <<prog, err>>
Next == NameLoop \/ NameDone \/ KidCall \/ KidsDone \/ CellLoop \/ CellDone \/ USymLoop \/ USymDone \/ UFreeLoop \/ Return

Terminal == stk = <<>>
RefinesD == Terminal =>
   IF err # "" THEN AnyErrorD(prog)
   ELSE ~AnyErrorD(prog) /\ \A b \in 1..Len(prog) : \A n \in Names : res[b][n] = ClassifyD(prog, b, n)
====
