// Package pyrun runs Python source in the real gpython interpreter, in-process, with
// per-context stdout capture, panic recovery and a wall-clock watchdog.
// It contains no expectations: it reports what happened.
package pyrun

import (
	"bytes"
	"fmt"
	"runtime/debug"
	"strings"
	"sync"
	"time"

	"github.com/go-python/gpython/py"
	_ "github.com/go-python/gpython/stdlib"
)

// Writer is a Python object with write/flush that captures output; install as sys.stdout.
type Writer struct {
	mu  sync.Mutex
	buf bytes.Buffer
}

var writerType = py.NewType("verifwriter", "capturing writer of the verification harness")

func (w *Writer) Type() *py.Type { return writerType }
func (w *Writer) String() string {
	w.mu.Lock()
	defer w.mu.Unlock()
	return w.buf.String()
}
func (w *Writer) Reset() {
	w.mu.Lock()
	w.buf.Reset()
	w.mu.Unlock()
}

func init() {
	writerType.Dict["write"] = py.MustNewMethod("write", func(self py.Object, arg py.Object) (py.Object, error) {
		w := self.(*Writer)
		w.mu.Lock()
		defer w.mu.Unlock()
		switch s := arg.(type) {
		case py.String:
			w.buf.WriteString(string(s))
		case py.Bytes:
			w.buf.Write([]byte(s))
		default:
			r, err := py.Str(arg)
			if err != nil {
				return nil, err
			}
			w.buf.WriteString(string(r.(py.String)))
		}
		return py.None, nil
	}, 0, "")
	writerType.Dict["flush"] = py.MustNewMethod("flush", func(self py.Object) (py.Object, error) { return py.None, nil }, 0, "")
}

// Ctx is a fresh interpreter context with captured stdout and a persistent __main__ module.
type Ctx struct {
	Ctx py.Context
	Out *Writer
	Mod *py.Module
}

// New creates a context; sysPaths may be nil.
func New(sysPaths ...string) *Ctx {
	if sysPaths == nil {
		sysPaths = []string{"."}
	}
	c := &Ctx{Ctx: py.NewContext(py.ContextOpts{SysArgs: []string{"prog"}, SysPaths: sysPaths}), Out: &Writer{}}
	sys := c.Ctx.Store().MustGetModule("sys")
	sys.Globals["stdout"] = c.Out
	sys.Globals["stderr"] = c.Out
	return c
}

func (c *Ctx) Close() { c.Ctx.Close() }

// Result of compiling/running one piece of source.
type Result struct {
	Stdout     string
	CompileErr bool   // the error came from py.Compile
	Exc        string // exception class name ("" = none), e.g. "KeyError"
	ExcBases   []string // Exc and all its base classes (names), most derived first
	Msg        string // exception message (never compared by checks; diagnostics only)
	TBLines    []int  // line numbers of the traceback, outermost first
	Panic      string // Go panic value ("" = none)
	PanicSite  string // top frame inside github.com/go-python/gpython of the panic stack
	TimedOut   bool
	Value      py.Object // for Eval: the value
}

// Outcome renders the outcome class: "ok", "exc:<Class>", "panic", "timeout".
func (r *Result) Outcome() string {
	switch {
	case r.TimedOut:
		return "timeout"
	case r.Panic != "":
		return "panic"
	case r.Exc != "":
		return "exc:" + r.Exc
	}
	return "ok"
}

// IsA reports whether the raised exception is cls or a subclass of it.
func (r *Result) IsA(cls string) bool {
	for _, b := range r.ExcBases {
		if b == cls {
			return true
		}
	}
	return false
}

func classify(err error, res *Result) {
	if err == nil {
		return
	}
	var t *py.Type
	switch e := err.(type) {
	case py.ExceptionInfo:
		t = e.Type
		if v, ok := e.Value.(*py.Exception); ok && v != nil {
			res.Msg = excMsg(v)
			if t == nil {
				t = v.Type()
			}
		}
		for tb := e.Traceback; tb != nil; tb = tb.Next {
			res.TBLines = append(res.TBLines, int(tb.Lineno))
		}
	case *py.Exception:
		t = e.Type()
		res.Msg = excMsg(e)
	default:
		res.Exc = "GoError"
		res.Msg = err.Error()
		res.ExcBases = []string{"GoError"}
		return
	}
	if t == nil {
		res.Exc = "UnknownException"
		res.ExcBases = []string{res.Exc}
		return
	}
	res.Exc = t.Name
	seen := map[*py.Type]bool{}
	var walk func(x *py.Type)
	walk = func(x *py.Type) {
		if x == nil || seen[x] {
			return
		}
		seen[x] = true
		res.ExcBases = append(res.ExcBases, x.Name)
		if x.Base != nil {
			walk(x.Base)
		}
		for _, b := range x.Bases {
			if bt, ok := b.(*py.Type); ok {
				walk(bt)
			}
		}
	}
	walk(t)
}

func excMsg(e *py.Exception) (s string) {
	defer func() {
		if recover() != nil {
			s = "<unprintable>"
		}
	}()
	if a, ok := e.Args.(py.Tuple); ok && len(a) > 0 {
		return fmt.Sprint(a[0])
	}
	return ""
}

func panicSite(stack string) string {
	lines := strings.Split(stack, "\n")
	seenPanic := false
	for _, l := range lines {
		if strings.HasPrefix(l, "panic(") {
			seenPanic = true
			continue
		}
		if !seenPanic {
			continue
		}
		if strings.HasPrefix(l, "github.com/go-python/gpython/") {
			f := strings.TrimPrefix(l, "github.com/go-python/gpython/")
			if i := strings.LastIndex(f, "("); i > 0 {
				f = f[:i]
			}
			return f
		}
	}
	return "?"
}

// guarded runs f under recover() and a watchdog. On timeout the goroutine is abandoned
// (it cannot be killed); callers that expect non-termination must use a worker subprocess.
func guarded(timeout time.Duration, f func(res *Result)) *Result {
	res := &Result{}
	done := make(chan struct{})
	go func() {
		defer close(done)
		defer func() {
			if e := recover(); e != nil {
				res.Panic = fmt.Sprint(e)
				res.PanicSite = panicSite(string(debug.Stack()))
			}
		}()
		f(res)
	}()
	if timeout <= 0 {
		timeout = 20 * time.Second
	}
	select {
	case <-done:
		return res
	case <-time.After(timeout):
		return &Result{TimedOut: true}
	}
}

// Exec compiles src in exec mode and runs it in the context's __main__ module.
func (c *Ctx) Exec(src string, timeout time.Duration) *Result {
	return c.run(src, py.ExecMode, timeout)
}

// Single compiles src in single (interactive) mode and runs it.
func (c *Ctx) Single(src string, timeout time.Duration) *Result {
	return c.run(src, py.SingleMode, timeout)
}

func (c *Ctx) run(src string, mode py.CompileMode, timeout time.Duration) *Result {
	c.Out.Reset()
	r := guarded(timeout, func(res *Result) {
		code, err := py.Compile(src, "<verif>", mode, 0, true)
		if err != nil {
			res.CompileErr = true
			classify(err, res)
			return
		}
		var rerr error
		if c.Mod == nil {
			c.Mod, rerr = py.RunCode(c.Ctx, code, "<verif>", nil)
		} else {
			_, rerr = py.RunCode(c.Ctx, code, "<verif>", c.Mod)
		}
		classify(rerr, res)
	})
	if !r.TimedOut {
		r.Stdout = c.Out.String()
	}
	return r
}

// Eval evaluates an expression in the context's __main__ module and returns its value.
func (c *Ctx) Eval(expr string, timeout time.Duration) *Result {
	c.Out.Reset()
	r := guarded(timeout, func(res *Result) {
		code, err := py.Compile(expr, "<verif>", py.EvalMode, 0, true)
		if err != nil {
			res.CompileErr = true
			classify(err, res)
			return
		}
		if c.Mod == nil {
			empty, _ := py.Compile("pass\n", "<verif>", py.ExecMode, 0, true)
			c.Mod, _ = py.RunCode(c.Ctx, empty, "<verif>", nil)
		}
		v, rerr := c.Ctx.RunCode(code, c.Mod.Globals, c.Mod.Globals, nil)
		res.Value = v
		classify(rerr, res)
	})
	if !r.TimedOut {
		r.Stdout = c.Out.String()
	}
	return r
}

// Run is the one-shot form: fresh context, exec, close.
func Run(src string, timeout time.Duration) *Result {
	c := New()
	defer c.Close()
	return c.Exec(src, timeout)
}

// Guard exposes the recover+watchdog wrapper for harnesses that call the Go API directly.
func Guard(timeout time.Duration, f func() error) *Result {
	return guarded(timeout, func(res *Result) { classify(f(), res) })
}

// Repr returns repr(o) computed by gpython, or "<repr failed>".
func Repr(o py.Object) (s string) {
	defer func() {
		if recover() != nil {
			s = "<repr panicked>"
		}
	}()
	if o == nil {
		return "<nil>"
	}
	r, err := py.Repr(o)
	if err != nil {
		return "<repr failed>"
	}
	return string(r.(py.String))
}
