---------------------------- MODULE LayoutInputs ----------------------------
(* C18: the LAYOUT family of compilation inputs.                                                *)
(*                                                                                              *)
(* "No state left behind that another compilation can observe" quantifies over what was         *)
(* compiled BEFORE - including compilations that were REJECTED, and rejected at a point where    *)
(* the front end holds state: inside nested indented blocks (the lexer's indentation stacks are *)
(* non-empty), inside an open bracket or string, after an inconsistent dedent.  The family is    *)
(* every combination of                                                                         *)
(*    unit   the indentation unit: 1, 2, 3, 4 or 8 spaces, or a tab                            *)
(*    depth  1..MaxDepth nested  if x:  blocks                                                  *)
(*    kind   "valid"       two statements in the innermost block, then back at column 0         *)
(*           "error"       the second statement of the innermost block is malformed             *)
(*           "open"        ... ends inside an open bracket (end of input)                       *)
(*           "string"      ... ends inside an open triple-quoted string                         *)
(*           "dedent"      a dedent to a column that matches no enclosing block                  *)
(*           "deep"        the second statement is indented one unit deeper (unexpected indent) *)
(*           "mixed"       (depth >= 2) the innermost block is indented by a tab plus spaces     *)
(*                         where the outer ones use this unit: Python says inconsistent          *)
(* Sources differ in their unit only, so a compilation that inherits the indentation stack of a *)
(* predecessor with another unit gives another answer (a spurious or a missing TabError /       *)
(* IndentationError) and CompileService!Return rejects it.  (Found missing by an independently   *)
(* seeded change: a pooled lexer that kept one of its two indentation stacks.)                   *)
(* The module only enumerates inputs; what each must compile to is not stated here - C18 asks    *)
(* for the same answer every time, whatever it is.                                               *)
EXTENDS Integers, Sequences, TLC, Json

CONSTANT MaxDepth
Units == <<" ", "  ", "   ", "    ", "        ", "\t">>
Kinds == <<"valid", "error", "open", "string", "dedent", "deep", "mixed">>

RECURSIVE Rep(_, _)
Rep(u, n) == IF n = 0 THEN "" ELSE u \o Rep(u, n - 1)
Heads(u, depth) == [d \in 1..depth |-> Rep(u, d - 1) \o "if x" \o ToString(d) \o ":"]
In(u, depth) == Rep(u, depth)
Body(u, depth, kind) ==
  CASE kind = "valid"  -> << In(u, depth) \o "y = 1", In(u, depth) \o "y = 2", "z = 3" >>
    [] kind = "error"  -> << In(u, depth) \o "y = 1", In(u, depth) \o "y = = 2" >>
    [] kind = "open"   -> << In(u, depth) \o "y = 1", In(u, depth) \o "y = (1," >>
    [] kind = "string" -> << In(u, depth) \o "y = 1", In(u, depth) \o "y = '''abc" >>
    [] kind = "dedent" -> << In(u, depth) \o In(u, 1) \o "y = 1", In(u, depth) \o " y = 2" >>
    [] kind = "deep"   -> << In(u, depth) \o "y = 1", In(u, depth + 1) \o "y = 2" >>
    [] kind = "mixed"  -> << In(u, depth - 1) \o "\t " \o "y = 1", In(u, depth - 1) \o " \t" \o "y = 2" >>
Lines(u, depth, kind) == Heads(u, depth) \o Body(u, depth, kind)
KindsAt(d) == { k \in 1..Len(Kinds) : Kinds[k] # "mixed" \/ d >= 2 }
Inputs == UNION { { [unit |-> ui, depth |-> d, kind |-> Kinds[k], lines |-> Lines(Units[ui], d, Kinds[k])] :
                      ui \in 1..Len(Units), k \in KindsAt(d) } : d \in 1..MaxDepth }

VARIABLE done
Init == done = FALSE
Next == ~done /\ done' = TRUE /\ \A i \in Inputs : PrintT(ToJson(i))
Spec == Init /\ [][Next]_done
TypeOK == done \in BOOLEAN
=============================================================================
