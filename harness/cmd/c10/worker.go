//go:build verif

package main

import (
	"bufio"
	"encoding/json"
	"fmt"
	"os"
	"reflect"
	"regexp"
	"runtime/debug"
	"sort"
	"strings"
	"sync/atomic"
	"syscall"
	"time"

	"gpverif/pyrun"

	"github.com/go-python/gpython/py"
	"github.com/go-python/gpython/vm"
)

// ---- what TLC printed (spec/C10) --------------------------------------------------------

type ValueD struct {
	ID    string `json:"id"`
	Src   string `json:"src"`
	Fresh bool   `json:"fresh"`
	Huge  bool   `json:"huge"`
	Tier  string `json:"tier"`
}
type OperatorD struct {
	Name  string `json:"name"`
	Arity int    `json:"arity"`
	Kind  string `json:"kind"`
	Src   string `json:"src"`
}
type ProgramD struct {
	Name  string   `json:"name,omitempty"`
	Top   string   `json:"top,omitempty"`
	Outer string   `json:"outer,omitempty"`
	Inner string   `json:"inner,omitempty"`
	Exit  string   `json:"exit,omitempty"`
	Lines []string `json:"lines"`
}
type Universe struct {
	Outcomes  []string    `json:"outcomes"`
	Prelude   string      `json:"prelude"`
	Values    []ValueD    `json:"values"`
	Operators []OperatorD `json:"operators"`
	Excluded  []string    `json:"excluded"`
	// tuples by tier; each tuple is a list of 1-based indices into Values
	Tuples   map[string][][]int    `json:"tuples"`
	Programs map[string][]ProgramD `json:"programs"`
}

// Job: what one worker process has to do.
type Job struct {
	U       *Universe `json:"u"`
	Mode    string    `json:"mode"`    // "list" | "run"
	Tier    string    `json:"tier"`    // which tuples: std | resource | fatal
	Units   []string  `json:"units"`   // "c:<callable index>" | "o:<operator index>" | "p:<from>:<to>"
	Careful bool      `json:"careful"` // announce every case before running it
	Skip    []int     `json:"skip"`    // case numbers (within the single unit of a careful run) not to run
	MaxAr   int       `json:"max_arity"`
	CaseTO  int       `json:"case_timeout_s"`
	Sample  int       `json:"sample"`        // >0: run only every Sample-th case (offset Seed) of each unit
	MStride int       `json:"method_stride"` // >1: a method is applied to every MStride-th argument pair only (and to no triple)
	Seed    int64     `json:"seed"`
}

type panicInfo struct {
	Count   int    `json:"count"`
	Example string `json:"example"`
	Message string `json:"message"`
}
type unitResult struct {
	Unit       string                `json:"unit"`
	Cases      int                   `json:"cases"`
	Values     int                   `json:"values"`
	Exceptions int                   `json:"exceptions"`
	Panics     map[string]*panicInfo `json:"panics,omitempty"`
	ExcClasses map[string]int        `json:"exc_classes,omitempty"`
}

// ---- worker state -----------------------------------------------------------------------

type callable struct {
	Name string `json:"name"`
	Self int    `json:"self"` // -1: found in builtins; else index (0-based) of the receiver value
	Attr string `json:"attr"`
}

type wstate struct {
	job   *Job
	ctx   *pyrun.Ctx
	g     py.StringDict
	vcode []*py.Code
	vcach []py.Object
	calls []callable
	out   *bufio.Writer
	// watchdog
	caseNo  int64
	started int64 // unix nano of the current case start (0 = idle)
	current atomic.Value
}

var numRe = regexp.MustCompile(`[0-9]+`)
var typRe = regexp.MustCompile(`\*?\b[a-z]+\.[A-Z][A-Za-z]*\b`)

// panicClass: the panic message without values, numbers and type names.
func panicClass(msg string) string {
	msg = strings.SplitN(msg, "\n", 2)[0]
	msg = strings.TrimPrefix(msg, "runtime error: ")
	if i := strings.IndexAny(msg, "[\"'"); i > 0 {
		msg = msg[:i]
	}
	msg = typRe.ReplaceAllString(msg, "T")
	msg = numRe.ReplaceAllString(msg, "N")
	msg = strings.TrimSpace(strings.Join(strings.Fields(msg), " "))
	if len(msg) > 60 {
		msg = msg[:60]
	}
	return msg
}

// normSite removes the compiler's numbering of init functions and closures (py.init.13.func6 -> py.init.func):
// the numbers move when unrelated code is added.
func normSite(f string) string {
	return strings.Join(strings.FieldsFunc(numRe.ReplaceAllString(f, ""), func(r rune) bool { return r == '.' }), ".")
}

const gpPrefix = "github.com/go-python/gpython/"

// panicSite: the first gpython frame below the panic in a debug.Stack() dump.
func panicSite(stack string) string {
	seen := false
	for _, l := range strings.Split(stack, "\n") {
		if strings.HasPrefix(l, "panic(") {
			seen = true
			continue
		}
		if seen && strings.HasPrefix(l, gpPrefix) {
			f := strings.TrimPrefix(l, gpPrefix)
			if i := strings.LastIndex(f, "("); i > 0 {
				f = f[:i]
			}
			return normSite(f)
		}
	}
	return "?"
}

func (w *wstate) emit(kind string, v interface{}) {
	b, _ := json.Marshal(v)
	w.out.WriteString(kind + " " + string(b) + "\n")
	w.out.Flush()
}

func (w *wstate) mk(i int) py.Object {
	if w.vcach[i] != nil {
		return w.vcach[i]
	}
	v, err := w.ctx.Ctx.RunCode(w.vcode[i], w.g, w.g, nil)
	if err != nil {
		fmt.Fprintf(os.Stderr, "worker: value %s cannot be built: %v\n", w.job.U.Values[i].ID, err)
		os.Exit(5)
	}
	if !w.job.U.Values[i].Fresh {
		w.vcach[i] = v
	}
	return v
}

func (w *wstate) setup() {
	u := w.job.U
	vm.PrintExpr = func(string) {}
	w.ctx = pyrun.New()
	r := w.ctx.Exec(u.Prelude, 20*time.Second)
	if r.Outcome() != "ok" {
		fmt.Fprintf(os.Stderr, "worker: prelude failed: %s %s\n", r.Outcome(), r.Msg)
		os.Exit(5)
	}
	w.g = w.ctx.Mod.Globals
	w.vcode = make([]*py.Code, len(u.Values))
	w.vcach = make([]py.Object, len(u.Values))
	for i, v := range u.Values {
		c, err := py.Compile(v.Src, "<value "+v.ID+">", py.EvalMode, 0, true)
		if err != nil {
			fmt.Fprintf(os.Stderr, "worker: value %s does not compile: %v\n", v.ID, err)
			os.Exit(5)
		}
		w.vcode[i] = c
	}
	excl := map[string]bool{}
	for _, e := range u.Excluded {
		excl[e] = true
	}
	// callables: everything callable in builtins ...
	bi := w.ctx.Ctx.Store().Builtins.Globals
	var names []string
	for n := range bi {
		names = append(names, n)
	}
	sort.Strings(names)
	for _, n := range names {
		if excl[n] {
			continue
		}
		if _, ok := bi[n].(py.I__call__); ok {
			w.calls = append(w.calls, callable{Name: n, Self: -1, Attr: n})
		}
	}
	// ... and every callable attribute in the type tables (type and its MRO) of every value
	for vi, v := range u.Values {
		if strings.HasPrefix(v.ID, "sweep:") {
			continue // the boundary-sweep integers are arguments only; int receivers are in the core universe
		}
		o := w.mk(vi)
		t := o.Type()
		seen := map[string]bool{}
		var attrs []string
		for _, tt := range append([]py.Object{t}, t.Mro...) {
			ty, ok := tt.(*py.Type)
			if !ok {
				continue
			}
			for an := range ty.Dict {
				if !seen[an] {
					seen[an] = true
					attrs = append(attrs, an)
				}
			}
		}
		// the special methods live in the Go method set (M__add__ ...), not in the type dictionary
		rt := reflect.TypeOf(o)
		for i := 0; i < rt.NumMethod(); i++ {
			if mn := rt.Method(i).Name; strings.HasPrefix(mn, "M__") && strings.HasSuffix(mn, "__") && !seen[mn[1:]] {
				seen[mn[1:]] = true
				attrs = append(attrs, mn[1:])
			}
		}
		sort.Strings(attrs)
		for _, an := range attrs {
			if excl[an] {
				continue
			}
			func() {
				defer func() { recover() }()
				a, err := py.GetAttrString(o, an)
				if err == nil {
					if _, ok := a.(py.I__call__); ok {
						w.calls = append(w.calls, callable{Name: v.ID + "." + an, Self: vi, Attr: an})
					}
				}
			}()
		}
	}
}

func (w *wstate) watchdog() {
	to := time.Duration(w.job.CaseTO) * time.Second
	if to <= 0 {
		to = 10 * time.Second
	}
	for {
		time.Sleep(200 * time.Millisecond)
		st := atomic.LoadInt64(&w.started)
		if st != 0 && time.Since(time.Unix(0, st)) > to {
			cur := "?"
			if f, ok := w.current.Load().(func() string); ok {
				cur = f()
			}
			fmt.Fprintf(os.Stderr, "GPV-HANG %s\n", cur)
			os.Exit(7)
		}
	}
}

// one case under recover(); f returns the error of the application
func (w *wstate) runCase(res *unitResult, desc func() string, f func() error) {
	defer func() {
		atomic.StoreInt64(&w.started, 0)
		if e := recover(); e != nil {
			msg := fmt.Sprint(e)
			key := panicSite(string(debug.Stack())) + "|" + panicClass(msg)
			if res.Panics == nil {
				res.Panics = map[string]*panicInfo{}
			}
			p := res.Panics[key]
			if p == nil {
				p = &panicInfo{Example: desc(), Message: strings.SplitN(msg, "\n", 2)[0]}
				res.Panics[key] = p
			}
			p.Count++
		}
	}()
	res.Cases++
	atomic.StoreInt64(&w.started, time.Now().UnixNano())
	err := f()
	if err == nil {
		res.Values++
		return
	}
	res.Exceptions++
	name := "GoError"
	switch e := err.(type) {
	case py.ExceptionInfo:
		if e.Type != nil {
			name = e.Type.Name
		}
	case *py.Exception:
		name = e.Type().Name
	}
	if res.ExcClasses == nil {
		res.ExcClasses = map[string]int{}
	}
	res.ExcClasses[name]++
}

func (w *wstate) ids(t []int) string {
	var s []string
	for _, i := range t {
		s = append(s, w.job.U.Values[i-1].ID)
	}
	return strings.Join(s, ", ")
}

func (w *wstate) tuples(arity int) [][]int {
	var out [][]int
	for _, t := range w.job.U.Tuples[w.job.Tier] {
		if len(t) == arity {
			out = append(out, t)
		}
	}
	return out
}

func (w *wstate) runUnit(unit string) *unitResult {
	res := &unitResult{Unit: unit}
	u := w.job.U
	skip := map[int]bool{}
	for _, s := range w.job.Skip {
		skip[s] = true
	}
	caseNo := 0
	want := func(desc func() string) bool {
		caseNo++
		if skip[caseNo] {
			return false
		}
		if w.job.Sample > 1 && (int64(caseNo)+w.job.Seed)%int64(w.job.Sample) != 0 {
			return false
		}
		w.current.Store(desc)
		if w.job.Careful {
			w.emit("CASE", map[string]interface{}{"n": caseNo, "desc": desc()})
		}
		return true
	}
	var kind string
	var a, b int
	fmt.Sscanf(unit, "%1s:%d:%d", &kind, &a, &b)
	switch kind {
	case "c":
		c := w.calls[a]
		for ar := 0; ar <= w.job.MaxAr; ar++ {
			var tl [][]int
			if c.Self >= 0 {
				// the receiver is an operand of the case: the tier is that of (receiver, args...)
				tl = w.methodTuples(c.Self, ar)
			} else {
				tl = w.tuples(ar)
			}
			if ar == 0 && len(tl) == 0 && w.job.Tier == "std" && c.Self < 0 {
				tl = [][]int{{}}
			}
			if c.Self >= 0 && w.job.MStride > 1 && ar >= 2 {
				if ar > 2 {
					continue
				}
				var sub [][]int
				for i := (a + int(w.job.Seed)) % w.job.MStride; i < len(tl); i += w.job.MStride {
					sub = append(sub, tl[i])
				}
				tl = sub
			}
			for _, t := range tl {
				t := t
				desc := func() string { return c.Name + "(" + w.ids(t) + ")" }
				if !want(desc) {
					continue
				}
				w.runCase(res, desc, func() error {
					var fn py.Object
					if c.Self >= 0 {
						var err error
						fn, err = py.GetAttrString(w.mk(c.Self), c.Attr)
						if err != nil {
							return err
						}
					} else {
						fn = w.ctx.Ctx.Store().Builtins.Globals[c.Attr]
					}
					args := make(py.Tuple, len(t))
					for i, vi := range t {
						args[i] = w.mk(vi - 1)
					}
					_, err := py.Call(fn, args, nil)
					return err
				})
			}
		}
	case "o":
		op := u.Operators[a]
		mode := py.EvalMode
		src := op.Src
		if op.Kind == "stmt" {
			mode = py.ExecMode
		}
		code, err := py.Compile(src, "<operator "+op.Name+">", mode, 0, true)
		if err != nil {
			fmt.Fprintf(os.Stderr, "worker: operator template %s does not compile: %v\n", op.Name, err)
			os.Exit(5)
		}
		names := []string{"a", "b", "c"}
		for _, t := range w.tuples(op.Arity) {
			t := t
			desc := func() string { return op.Name + " [" + strings.TrimSpace(op.Src) + "] with " + w.ids(t) }
			if !want(desc) {
				continue
			}
			w.runCase(res, desc, func() error {
				g := w.g.Copy()
				for i, vi := range t {
					g[names[i]] = w.mk(vi - 1)
				}
				_, err := w.ctx.Ctx.RunCode(code, g, g, nil)
				return err
			})
		}
	case "p":
		ps := u.Programs[w.job.Tier]
		for i := a; i < b && i < len(ps); i++ {
			p := ps[i]
			src := strings.Join(p.Lines, "\n") + "\n"
			desc := func() string { return "program " + strings.Join(p.Lines, " / ") }
			if !want(desc) {
				continue
			}
			w.runCase(res, desc, func() error {
				code, err := py.Compile(src, "<program>", py.ExecMode, 0, true)
				if err != nil {
					return err
				}
				g := w.g.Copy()
				_, err = w.ctx.Ctx.RunCode(code, g, g, nil)
				return err
			})
		}
	}
	return res
}

// methodTuples: argument tuples (without the receiver) of arity ar such that (receiver, args...) is in the job's tier.
func (w *wstate) methodTuples(self, ar int) [][]int {
	u := w.job.U
	tierOf := func(t []int) string {
		huge, fatal := false, false
		for _, i := range append([]int{self + 1}, t...) {
			if u.Values[i-1].Tier == "fatal" {
				fatal = true
			}
			if u.Values[i-1].Huge {
				huge = true
			}
		}
		switch {
		case fatal:
			return "fatal"
		case len(t)+1 >= 2 && huge:
			return "resource"
		}
		return "std"
	}
	var out [][]int
	if ar == 0 {
		if tierOf(nil) == w.job.Tier {
			out = append(out, []int{})
		}
		return out
	}
	for _, tier := range []string{"std", "resource", "fatal"} {
		for _, t := range u.Tuples[tier] {
			if len(t) == ar && tierOf(t) == w.job.Tier {
				out = append(out, t)
			}
		}
	}
	return out
}

func workerMain() {
	// resource limits: address space and stack, so that runaway cases die quickly and alone
	var lim syscall.Rlimit
	lim.Cur, lim.Max = 6<<30, 6<<30
	syscall.Setrlimit(syscall.RLIMIT_AS, &lim)

	b, err := os.ReadFile(os.Getenv("GPV_JOB"))
	if err != nil {
		fmt.Fprintln(os.Stderr, "worker:", err)
		os.Exit(5)
	}
	job := &Job{}
	if err := json.Unmarshal(b, job); err != nil {
		fmt.Fprintln(os.Stderr, "worker:", err)
		os.Exit(5)
	}
	// a small stack limit in the fatal tier makes runaway recursion die quickly (and as a stack overflow,
	// not as a watchdog timeout, whatever the load of the machine)
	if job.Tier == "fatal" {
		debug.SetMaxStack(4 << 20)
	} else {
		debug.SetMaxStack(64 << 20)
	}
	w := &wstate{job: job, out: bufio.NewWriter(os.NewFile(3, "protocol"))}
	w.setup()
	if job.Mode == "list" {
		w.emit("CALLABLES", w.calls)
		return
	}
	go w.watchdog()
	for _, unit := range job.Units {
		w.emit("BEGIN", unit)
		res := w.runUnit(unit)
		w.emit("END", res)
	}
	w.emit("DONE", len(job.Units))
}
