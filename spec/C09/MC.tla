------------------------------- MODULE MC -------------------------------
(* Bounded instances of Lifecycle: every assignment of scripts of 1..MaxLen operations to the   *)
(* goroutines, up to permutation of goroutines (scripts in non-decreasing code order).           *)
EXTENDS Lifecycle
CONSTANTS MaxLen, NeedClose, OpSet

OpCode(o) == CASE o = "run" -> 1 [] o = "minit" -> 2 [] o = "rac" -> 3 [] o = "close" -> 4 [] o = "wait" -> 5
                 [] o = "runr" -> 6 [] o = "minitr" -> 7 [] o = "racx" -> 8 [] o = "minitc" -> 9
RECURSIVE Code(_)
Code(s) == IF s = <<>> THEN 0 ELSE OpCode(Head(s)) + 10 * Code(Tail(s))
Scripts == UNION { [1..n -> OpSet] : n \in 1..MaxLen }
Order == CHOOSE f \in [Procs -> 1..Cardinality(Procs)] : \A p, q \in Procs : p # q => f[p] # f[q]
Sorted(a) == \A p, q \in Procs : Order[p] < Order[q] => Code(a[p]) <= Code(a[q])
HasClose(a) == \E p \in Procs : \E i \in 1..Len(a[p]) : a[p][i] = "close"
(* refinement of the four-variable core (LifecycleCore.tla) *)
Core == INSTANCE LifecycleCore WITH Execs <- Procs \X (1..(MaxLen + 1)),
                                    aAdm <- admitted, aClosed <- closed, aCbs <- cbs, aDone <- done
RefinesCore == Core!CSpec
MCScripts == { a \in [Procs -> Scripts] : Sorted(a) /\ (NeedClose => HasClose(a)) }
=============================================================================
