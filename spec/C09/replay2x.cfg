\* scheduler view (AtomicWake): labelled state graph exported as JSON edges for edge-coverage replay
SPECIFICATION Spec
CONSTANTS
  Procs = {"a", "b"}
  MaxLen = 2
  NeedClose = FALSE
  OpSet = {"runr", "minitr", "racx", "minitc", "close"}
  AtomicWake = TRUE
  ScriptSet <- MCScripts
VIEW View
ACTION_CONSTRAINT Emit
INVARIANTS CounterSane CallbacksOnce DoneAfterQuiescence NoRunDuringCb ClosedMeansIdle StepClauses NoDeadlock
CHECK_DEADLOCK FALSE
