\* case generation, quick tier: lengths 0..3, slice components None, -4..4, BIG
SPECIFICATION Spec
CONSTANTS
  MaxLen = 3
  IdxMax = 4
  MaxRhs = 2
  CatMax = 2
  CmpLen = 2
CHECK_DEADLOCK FALSE
