//go:build verif

// C11: the compile pipeline is total — code object or SyntaxError-family exception carrying
// file name, line and offset; never a panic, a hang, or an internal error.
//
//  1. TLC checks spec/C11/Pipeline.tla (stage machine: totality, progress, lexical verdict).
//  2. TLC enumerates the input universe of spec/C11/PipelineUniverse.tla — every sequence of
//     alphabet items up to the tier's length bound, plus seeded draws of length 3..8 — and prints
//     for each sequence what PyLex (spec/lib/PyLex.tla) says about both joinings (with/without a
//     separating space).  The harness renders each sequence from the shared alphabet constant and
//     runs the real py.Compile in the three modes under recover() and a watchdog, and the real
//     parser.LexString where PyLex made a claim (tokens compared by equality with TLC's output).
//  3. Byte- and token-level mutations of every .py file in the repository (seeded).
//  4. The distinct abstract outcome events observed in 2 and 3 are written to a trace that TLC
//     validates against Pipeline (PipelineTrace.tla); a rejected event is a violation.
//
// No expectation lives here: this file renders, runs, abstracts and compares by equality.
package main

import (
	"bytes"
	"crypto/sha1"
	"encoding/binary"
	"encoding/hex"
	"encoding/json"
	"fmt"
	"math/rand"
	"os"
	"path/filepath"
	"regexp"
	"runtime/debug"
	"sort"
	"strconv"
	"strings"
	"sync"
	"sync/atomic"
	"time"

	"gpverif/cmd/c03/scope"
	"gpverif/common"

	"github.com/go-python/gpython/parser"
	"github.com/go-python/gpython/py"
	_ "github.com/go-python/gpython/stdlib"
)

const fileName = "<c11>"

// ---------------------------------------------------------------------------------------
// alphabet (shared constant spec/C11/alphabet.ndjson)

type alphaItem struct {
	ID   int    `json:"id"`
	Hex  string `json:"hex"`
	Show string `json:"show"`
	Cls  string `json:"cls"`
	raw  []byte
}

func loadAlphabet(env *common.Env) []alphaItem {
	f, err := os.Open(filepath.Join(env.Verif, "spec", "C11", "alphabet.ndjson"))
	if err != nil {
		common.Inconclusive("property=C11 alphabet: %v", err)
	}
	defer f.Close()
	var out []alphaItem
	err = common.ReadNDJSON(f, func(b []byte) error {
		var a alphaItem
		if err := json.Unmarshal(b, &a); err != nil {
			return err
		}
		raw, err := hex.DecodeString(a.Hex)
		if err != nil {
			return err
		}
		a.raw = raw
		if a.ID != len(out)+1 {
			return fmt.Errorf("alphabet ids must be 1..n in order")
		}
		out = append(out, a)
		return nil
	})
	if err != nil {
		common.Inconclusive("property=C11 alphabet: %v", err)
	}
	return out
}

// ---------------------------------------------------------------------------------------
// running the real code

type observation struct {
	Kind    string   // code | exc | panic | timeout | nothing
	Cls     string   // exception class
	Bases   []string // class and all base classes
	File    bool     // filename attribute present and equal to the name passed in
	Line    bool     // lineno attribute present, an int
	Offset  bool     // offset attribute present, an int
	Msg     string   // diagnostics / finding key only
	Site    string   // panic site (top gpython frame)
	elapsed time.Duration
}

var modes = []struct {
	name string
	m    py.CompileMode
}{{"exec", py.ExecMode}, {"eval", py.EvalMode}, {"single", py.SingleMode}}

func panicSite(stack string) string {
	lines := strings.Split(stack, "\n")
	seen := false
	for _, l := range lines {
		if strings.HasPrefix(l, "panic(") {
			seen = true
			continue
		}
		if seen && strings.HasPrefix(l, "github.com/go-python/gpython/") {
			f := strings.TrimPrefix(l, "github.com/go-python/gpython/")
			if i := strings.LastIndex(f, "("); i > 0 {
				f = f[:i]
			}
			return f
		}
	}
	return "?"
}

func typeBases(t *py.Type) []string {
	var out []string
	seen := map[*py.Type]bool{}
	var walk func(x *py.Type)
	walk = func(x *py.Type) {
		if x == nil || seen[x] {
			return
		}
		seen[x] = true
		out = append(out, x.Name)
		walk(x.Base)
		for _, b := range x.Bases {
			if bt, ok := b.(*py.Type); ok {
				walk(bt)
			}
		}
	}
	walk(t)
	return out
}

func describeErr(err error, o *observation) {
	var exc *py.Exception
	switch e := err.(type) {
	case *py.Exception:
		exc = e
	case py.ExceptionInfo:
		if v, ok := e.Value.(*py.Exception); ok {
			exc = v
		}
	}
	if exc == nil {
		o.Kind = "exc"
		o.Cls = fmt.Sprintf("GoError:%T", err)
		o.Bases = []string{o.Cls}
		o.Msg = err.Error()
		return
	}
	o.Kind = "exc"
	o.Cls = exc.Type().Name
	o.Bases = typeBases(exc.Type())
	if a, ok := exc.Args.(py.Tuple); ok && len(a) > 0 {
		o.Msg = fmt.Sprint(a[0])
	}
	if v, ok := exc.Dict["filename"]; ok {
		if s, ok := v.(py.String); ok && string(s) == fileName {
			o.File = true
		}
	}
	if v, ok := exc.Dict["lineno"]; ok {
		_, o.Line = v.(py.Int)
	}
	if v, ok := exc.Dict["offset"]; ok {
		_, o.Offset = v.(py.Int)
	}
}

// compileOnce runs py.Compile under recover(); the caller supplies the watchdog.
func compileOnce(src string, mode py.CompileMode) (o observation) {
	start := time.Now()
	defer func() {
		if r := recover(); r != nil {
			o = observation{Kind: "panic", Msg: fmt.Sprint(r), Site: panicSite(string(debug.Stack()))}
		}
		o.elapsed = time.Since(start)
	}()
	code, err := py.Compile(src, fileName, mode, 0, true)
	switch {
	case err == nil && code != nil:
		o.Kind = "code"
	case err == nil:
		o.Kind = "nothing"
	default:
		describeErr(err, &o)
	}
	return o
}

var tokNameRe = regexp.MustCompile(`^("(?:[^"\\]|\\.)*")`)

// lexOnce runs parser.LexString (file input) and returns the token kinds.
func lexOnce(src string) (kinds []string, failed bool, panicked string) {
	defer func() {
		if r := recover(); r != nil {
			panicked = fmt.Sprint(r)
		}
	}()
	lts, err := parser.LexString(src, py.ExecMode)
	for i := range lts {
		m := tokNameRe.FindStringSubmatch(lts[i].String())
		if m == nil {
			kinds = append(kinds, "?")
			continue
		}
		name, uerr := strconv.Unquote(m[1])
		if uerr != nil {
			name = m[1]
		}
		if name == "FILE_INPUT" {
			continue
		}
		kinds = append(kinds, name)
	}
	return kinds, err != nil, ""
}

// ---------------------------------------------------------------------------------------
// cases, events

type lexClaim struct {
	Lex  string   `json:"lex"`
	Toks []string `json:"toks"`
}
type uniRec struct {
	S []int    `json:"s"`
	F int      `json:"f"` // 0 = free sequence, >0 = filler in frame F, -1 = nested compound frames around a leaf statement (joined form only)
	A lexClaim `json:"a"` // joined with one space
	B lexClaim `json:"b"` // joined with nothing
}

type job struct {
	src    string
	lex    lexClaim // Lex == "none" for mutation cases
	origin string   // description for reports
	seq    []int
	spaced bool
}

// event is what TLC validates: nothing but the abstract outcome.
type event struct {
	Mode   string   `json:"mode"`
	Kind   string   `json:"kind"`
	Cls    string   `json:"cls"`
	Bases  []string `json:"bases"`
	File   bool     `json:"file"`
	Line   bool     `json:"line"`
	Offset bool     `json:"offset"`
}

type example struct {
	Source string `json:"source"`
	Mode   string `json:"mode"`
	Origin string `json:"origin"`
	Msg    string `json:"message,omitempty"`
	Site   string `json:"panic_site,omitempty"`
}

type eventInfo struct {
	ev     event
	count  int64
	byMsg  map[string]*example // message class -> first example
	nByMsg map[string]int64
}

type collector struct {
	mu       sync.Mutex
	events   map[string]*eventInfo
	order    []string
	distinct map[uint64]struct{}
	compiles int64
	lexRuns  int64
	lexAgree map[string]int64
	lexClass map[string]int64
	outcomes map[string]int64
	slowest  time.Duration
	slowSrc  string
	rep      *common.Report
	suspects []suspect
}

type suspect struct {
	j    job
	mode int
}

var (
	reAstType = regexp.MustCompile(`\*ast\.\w+`)
	reQuoted  = regexp.MustCompile(`'[^']*'|"[^"]*"`)
	reDigits  = regexp.MustCompile(`\d+`)
	reHexAddr = regexp.MustCompile(`0x[0-9a-fA-F]+`)
)

// msgClass abstracts an error message into a class usable in a finding key.
func msgClass(s string) string {
	s = strings.SplitN(s, "\n", 2)[0]
	s = reAstType.ReplaceAllString(s, "*ast.T")
	s = reHexAddr.ReplaceAllString(s, "ADDR")
	s = reQuoted.ReplaceAllString(s, "Q")
	s = reDigits.ReplaceAllString(s, "N")
	if i := strings.Index(s, ": missing method"); i > 0 {
		s = s[:i]
	}
	return common.TrimKey(s, 90)
}

func show(src string) string {
	if len(src) > 400 {
		return strconv.Quote(src[:400]) + "…(" + strconv.Itoa(len(src)) + " bytes)"
	}
	return strconv.Quote(src)
}

func (c *collector) record(j *job, mode string, o observation) {
	ev := event{Mode: mode, Kind: o.Kind, Cls: o.Cls, Bases: o.Bases, File: o.File, Line: o.Line, Offset: o.Offset}
	if ev.Bases == nil {
		ev.Bases = []string{}
	}
	kb, _ := json.Marshal(ev)
	k := string(kb)
	mc := ""
	if o.Kind != "code" {
		mc = msgClass(o.Msg)
		if o.Kind == "panic" {
			mc = o.Site + "|" + mc
		}
	}
	c.mu.Lock()
	defer c.mu.Unlock()
	c.compiles++
	ei := c.events[k]
	if ei == nil {
		ei = &eventInfo{ev: ev, byMsg: map[string]*example{}, nByMsg: map[string]int64{}}
		c.events[k] = ei
		c.order = append(c.order, k)
	}
	ei.count++
	ei.nByMsg[mc]++
	if _, ok := ei.byMsg[mc]; !ok && len(ei.byMsg) < 200 {
		ei.byMsg[mc] = &example{Source: show(j.src), Mode: mode, Origin: j.origin, Msg: common.TrimKey(o.Msg, 200), Site: o.Site}
	}
	oc := o.Kind
	if o.Kind == "exc" {
		oc = "exc:" + o.Cls
	}
	c.outcomes[oc]++
	if o.elapsed > c.slowest {
		c.slowest = o.elapsed
		c.slowSrc = show(j.src)
	}
}

func eqStrings(a, b []string) bool {
	if len(a) != len(b) {
		return false
	}
	for i := range a {
		if a[i] != b[i] {
			return false
		}
	}
	return true
}

func firstDiff(want, got []string) string {
	for i := 0; i < len(want) || i < len(got); i++ {
		w, g := "<end>", "<end>"
		if i < len(want) {
			w = want[i]
		}
		if i < len(got) {
			g = got[i]
		}
		if w != g {
			return "want=" + w + ",got=" + g
		}
	}
	return "same"
}

// checkLex compares the real lexer with what TLC printed for this text (file input only).
func (c *collector) checkLex(j *job) {
	if j.lex.Lex == "none" {
		return
	}
	kinds, failed, panicked := lexOnce(j.src)
	verdict := "agree"
	switch {
	case panicked != "":
		verdict = "lexer panics: " + msgClass(panicked)
	case j.lex.Lex == "err":
		if !failed {
			verdict = "lexer accepts"
		}
	case j.lex.Lex == "toks":
		if failed {
			verdict = "lexer rejects"
		} else if !eqStrings(kinds, j.lex.Toks) {
			verdict = "tokens differ:" + firstDiff(j.lex.Toks, kinds)
		}
	case j.lex.Lex == "eof":
		// the reference lexer reports end of file inside a logical line; gpython's lexer may leave the
		// rejection to the grammar (then Pipeline demands the SyntaxError at the compile level): the
		// tokens up to the end of file must agree
		if !failed && (len(kinds) < len(j.lex.Toks) || !eqStrings(kinds[:len(j.lex.Toks)], j.lex.Toks)) {
			verdict = "token prefix differs:" + firstDiff(j.lex.Toks, kinds)
		}
	}
	c.mu.Lock()
	c.lexRuns++
	c.lexClass[j.lex.Lex]++
	if verdict == "agree" {
		c.lexAgree[j.lex.Lex]++
	}
	c.mu.Unlock()
	if verdict != "agree" {
		c.rep.Violation("C11|PyLex.Classify|lex="+j.lex.Lex+"|"+verdict,
			map[string]interface{}{"source": show(j.src), "origin": j.origin, "spec_tokens": j.lex.Toks, "lexer_tokens": kinds, "lexer_failed": failed})
	}
}

func (c *collector) noteDistinct(src string) {
	h := sha1.Sum([]byte(src))
	k := binary.LittleEndian.Uint64(h[:8])
	c.mu.Lock()
	c.distinct[k] = struct{}{}
	c.mu.Unlock()
}

// ---------------------------------------------------------------------------------------
// worker pool with watchdog: a compile that does not return within the limit is abandoned
// (goroutines cannot be killed), its worker replaced, and the case re-run alone at the end.

type worker struct {
	busy      atomic.Int64 // unix nanos of the start of the running compile, 0 = idle
	abandoned atomic.Bool
	cur       atomic.Pointer[suspect]
	done      sync.Once // releases the pool's wait group exactly once (worker exit or abandonment)
}

// maxSuspects: goroutines cannot be killed, so every hang keeps a core busy for the rest of the run.
// After this many watchdog hits the exploration stops (remaining cases are dropped) and the run
// goes straight to re-running the first suspects alone: a hang defect is reported, not suffered.
const maxSuspects = 12

type pool struct {
	tripped atomic.Bool
	jobs    chan job
	c       *collector
	wg      sync.WaitGroup
	mu      sync.Mutex
	workers []*worker
	limit   time.Duration
	stop    chan struct{}
}

func newPool(c *collector, n int, limit time.Duration) *pool {
	p := &pool{jobs: make(chan job, 4096), c: c, limit: limit, stop: make(chan struct{})}
	for i := 0; i < n; i++ {
		p.spawn()
	}
	go p.monitor()
	return p
}

func (p *pool) spawn() {
	w := &worker{}
	p.mu.Lock()
	p.workers = append(p.workers, w)
	p.mu.Unlock()
	p.wg.Add(1)
	go func() {
		defer w.done.Do(p.wg.Done)
		for j := range p.jobs {
			j := j
			if p.tripped.Load() {
				continue // exploration aborted: drain
			}
			p.c.noteDistinct(j.src)
			for mi, m := range modes {
				s := &suspect{j: j, mode: mi}
				w.cur.Store(s)
				w.busy.Store(time.Now().UnixNano())
				o := compileOnce(j.src, m.m)
				w.busy.Store(0)
				if w.abandoned.Load() {
					return // the monitor gave this case to the re-run list and started a replacement
				}
				p.c.record(&j, m.name, o)
			}
			w.busy.Store(time.Now().UnixNano())
			p.c.checkLex(&j)
			w.busy.Store(0)
			if w.abandoned.Load() {
				return
			}
		}
	}()
}

func (p *pool) monitor() {
	t := time.NewTicker(500 * time.Millisecond)
	defer t.Stop()
	for {
		select {
		case <-p.stop:
			return
		case <-t.C:
		}
		now := time.Now().UnixNano()
		p.mu.Lock()
		ws := append([]*worker(nil), p.workers...)
		p.mu.Unlock()
		for _, w := range ws {
			b := w.busy.Load()
			if b != 0 && !w.abandoned.Load() && time.Duration(now-b) > p.limit {
				w.abandoned.Store(true)
				if s := w.cur.Load(); s != nil {
					p.c.mu.Lock()
					p.c.suspects = append(p.c.suspects, *s)
					if len(p.c.suspects) >= maxSuspects {
						p.tripped.Store(true)
					}
					p.c.mu.Unlock()
				}
				p.spawn()            // replaced first, so the wait group never drops to zero early ...
				w.done.Do(p.wg.Done) // ... then the stuck goroutine is written off
			}
		}
	}
}

func (p *pool) finish() {
	close(p.jobs)
	p.wg.Wait()
	close(p.stop)
}

// rerunSuspects re-runs every watchdog hit alone with the long limit before it counts.
func (c *collector) rerunSuspects(limit time.Duration) {
	for i, s := range c.suspects {
		if i >= 3 && len(c.suspects) >= maxSuspects {
			break // aborted exploration: the first few confirm the hang
		}
		s := s
		done := make(chan observation, 1)
		go func() { done <- compileOnce(s.j.src, modes[s.mode].m) }()
		select {
		case o := <-done:
			c.record(&s.j, modes[s.mode].name, o)
		case <-time.After(limit):
			c.record(&s.j, modes[s.mode].name, observation{Kind: "timeout", Msg: "no answer within " + limit.String()})
		}
	}
}

// ---------------------------------------------------------------------------------------
// universe from TLC

type seqSet struct {
	mu sync.Mutex
	m  map[string]bool
}

func (s *seqSet) testAndSet(k string) bool {
	s.mu.Lock()
	defer s.mu.Unlock()
	old := s.m[k]
	s.m[k] = true
	return old
}

var framedTotal, nestedTotal atomic.Int64

func render(alpha []alphaItem, seq []int, spaced bool) (string, bool) {
	var b bytes.Buffer
	for i, id := range seq {
		if id < 1 || id > len(alpha) {
			return "", false
		}
		if i > 0 && spaced {
			b.WriteByte(' ')
		}
		b.Write(alpha[id-1].raw)
	}
	return b.String(), true
}

func describeSeq(alpha []alphaItem, seq []int, spaced bool) string {
	parts := make([]string, len(seq))
	for i, id := range seq {
		parts[i] = alpha[id-1].Show
	}
	sep := "joined"
	if spaced {
		sep = "spaced"
	}
	return "alphabet sequence [" + strings.Join(parts, " | ") + "] " + sep
}

func runUniverse(env *common.Env, rep *common.Report, c *collector, p *pool, alpha []alphaItem, run common.TLCRun, seenSeq *seqSet) (nseq int) {
	var bad atomic.Int64
	run.OnLine = func(b []byte) {
		var r uniRec
		if err := json.Unmarshal(b, &r); err != nil || len(r.S) == 0 {
			bad.Add(1)
			return
		}
		key := fmt.Sprint(r.S)
		if seenSeq.testAndSet(key) {
			return
		}
		nseq++
		if r.F > 0 {
			framedTotal.Add(1)
		} else if r.F < 0 {
			nestedTotal.Add(1)
		}
		for _, spaced := range []bool{true, false} {
			if !spaced && len(r.S) == 1 {
				continue // one item: both joinings are the same text
			}
			src, ok := render(alpha, r.S, spaced)
			if !ok {
				bad.Add(1)
				return
			}
			lc := r.B
			if spaced {
				lc = r.A
			}
			if lc.Lex == "skip" {
				continue
			}
			j := job{src: src, lex: lc, seq: r.S, spaced: spaced, origin: describeSeq(alpha, r.S, spaced)}
			if nseq%50000 == 7 {
				rep.Sample(map[string]interface{}{"kind": "alphabet sequence", "items": r.S, "spaced": spaced, "source": show(src), "pylex": lc})
			}
			p.jobs <- j
		}
	}
	res := env.MustTLC(run)
	rep.AddTLC(res)
	if len(res.Violations) > 0 {
		common.Inconclusive("property=C11 universe enumeration reported %v", res.Violations)
	}
	if bad.Load() > 0 {
		common.Inconclusive("property=C11 %d universe records could not be read", bad.Load())
	}
	return nseq
}

// ---------------------------------------------------------------------------------------
// scope-shaped VALID programs: the family spec/C03/PyScopeFlags.tla enumerates - one program per
// assignment of def-use flag sets (global / nonlocal declaration, binding, use, parameter) to the
// blocks of a module > def|class > def|class > def|class nesting - rendered by the package the C03
// and C18 harnesses share.  They drive the symtable -> compile hand-over (cell / free / global
// bookkeeping, closure construction), which syntax-shaped inputs do not reach.  For C11 only the
// outcome alphabet is the oracle; what each name must resolve to is C03's subject.

func runScopePrograms(env *common.Env, rep *common.Report, p *pool) (n int) {
	cfgName := "scope_" + env.Tier + ".cfg"
	cfg, err := os.ReadFile(filepath.Join(env.Verif, "spec", "C11", cfgName))
	if err != nil {
		common.Inconclusive("property=C11 %v", err)
	}
	seen := map[string]bool{}
	bad := 0
	res := env.MustTLC(common.TLCRun{Dir: "C03", Module: "PyScopeFlags", Config: "c11_" + cfgName, Extra: map[string]string{"c11_" + cfgName: string(cfg)},
		Timeout: 12 * time.Minute, OnLine: func(rec []byte) {
			var c scope.Case
			if err := json.Unmarshal(rec, &c); err != nil || len(c.P) == 0 {
				bad++
				return
			}
			src := scope.Render(c.P)
			if seen[src] {
				return
			}
			seen[src] = true
			n++
			if n%4000 == 17 {
				rep.Sample(map[string]interface{}{"kind": "scope program (spec/C03/PyScopeFlags)", "source": show(src)})
			}
			p.jobs <- job{src: src, lex: lexClaim{Lex: "none"}, origin: "scope program of spec/C03/PyScopeFlags (" + cfgName + ")"}
		}})
	rep.AddTLC(res)
	if bad > 0 || !res.Finished || len(res.Violations) > 0 {
		common.Inconclusive("property=C11 scope program generation failed (%d unreadable records, %v)\n%s", bad, res.Violations, res.Stdout)
	}
	return n
}

// ---------------------------------------------------------------------------------------
// the literal universe of spec/C11/PipelineLiterals.tla: every prefix x quote x body of up to MaxPieces pieces
// (plain characters of 1..4 bytes, complete and truncated escapes, quotes, line breaks, a lone backslash),
// rendered from the shared piece table spec/C11/litpieces.ndjson; each literal is compiled alone and as a call operand.

func runLiterals(env *common.Env, rep *common.Report, p *pool) (n int) {
	f, err := os.Open(filepath.Join(env.Verif, "spec", "C11", "litpieces.ndjson"))
	if err != nil {
		common.Inconclusive("property=C11 literal pieces: %v", err)
	}
	var pieces [][]byte
	dec := json.NewDecoder(f)
	for dec.More() {
		var it struct {
			ID  int    `json:"id"`
			Hex string `json:"hex"`
		}
		if err := dec.Decode(&it); err != nil || it.ID != len(pieces)+1 {
			common.Inconclusive("property=C11 literal pieces: unreadable or out of order (%v)", err)
		}
		b, err := hex.DecodeString(it.Hex)
		if err != nil {
			common.Inconclusive("property=C11 literal pieces: %v", err)
		}
		pieces = append(pieces, b)
	}
	f.Close()
	bad := 0
	res := env.MustTLC(common.TLCRun{Dir: "C11", Module: "PipelineLiterals", Config: "literals_" + env.Tier + ".cfg", Timeout: 12 * time.Minute,
		OnLine: func(rec []byte) {
			var c struct {
				Pre  string `json:"pre"`
				Qt   string `json:"qt"`
				Body []int  `json:"body"`
			}
			if err := json.Unmarshal(rec, &c); err != nil || c.Qt == "" {
				bad++
				return
			}
			var b strings.Builder
			b.WriteString(c.Pre + c.Qt)
			for _, i := range c.Body {
				if i < 1 || i > len(pieces) {
					bad++
					return
				}
				b.Write(pieces[i-1])
			}
			b.WriteString(c.Qt)
			lit := b.String()
			n++
			if n%20000 == 7 {
				rep.Sample(map[string]interface{}{"kind": "literal (spec/C11/PipelineLiterals)", "source": show(lit)})
			}
			p.jobs <- job{src: lit, lex: lexClaim{Lex: "none"}, origin: "literal of spec/C11/PipelineLiterals"}
			p.jobs <- job{src: "print(" + lit + ")\n", lex: lexClaim{Lex: "none"}, origin: "literal of spec/C11/PipelineLiterals as a call operand"}
		}})
	rep.AddTLC(res)
	if bad > 0 || n == 0 || !res.Finished || len(res.Violations) > 0 {
		common.Inconclusive("property=C11 literal generation failed (%d unreadable records, %d literals, %v)\n%s", bad, n, res.Violations, res.Stdout)
	}
	return n
}

// ---------------------------------------------------------------------------------------
// the numeric literals of spec/C11/PipelineNumbers.tla: integer part x fraction x exponent x suffix

func runNumbers(env *common.Env, rep *common.Report, p *pool) (n int) {
	bad := 0
	res := env.MustTLC(common.TLCRun{Dir: "C11", Module: "PipelineNumbers", Config: "numbers.cfg", Timeout: 8 * time.Minute,
		OnLine: func(rec []byte) {
			var c struct {
				Num string `json:"num"`
			}
			if err := json.Unmarshal(rec, &c); err != nil || c.Num == "" {
				bad++
				return
			}
			n++
			if n%2000 == 11 {
				rep.Sample(map[string]interface{}{"kind": "numeric literal (spec/C11/PipelineNumbers)", "source": c.Num})
			}
			for _, src := range []string{c.Num, "-" + c.Num, "x = [" + c.Num + ", 1]\n", "f(" + c.Num + ".real)\n"} {
				p.jobs <- job{src: src, lex: lexClaim{Lex: "none"}, origin: "numeric literal of spec/C11/PipelineNumbers"}
			}
		}})
	rep.AddTLC(res)
	if bad > 0 || n == 0 || !res.Finished || len(res.Violations) > 0 {
		common.Inconclusive("property=C11 number generation failed (%d unreadable records, %d numbers, %v)\n%s", bad, n, res.Violations, res.Stdout)
	}
	return n
}

// ---------------------------------------------------------------------------------------
// grammar-shaped VALID programs: the bounded random statement / expression trees of
// spec/C06/PyGrammarGen.tla in two spellings each (they parse by construction, so all of them
// reach the symbol table and most of them code generation and the assembler).

func runGrammarPrograms(env *common.Env, rep *common.Report, p *pool) (n int) {
	cfg := fmt.Sprintf("SPECIFICATION Spec\nCONSTANTS Seed = %d\n Kind = \"random\"\n NCases = %d\n NSpell = 2\n ExprDepth = %d\n StmtDepth = %d\n NMutants = 0\nINVARIANT SelfCheck\nINVARIANT Emit\nCHECK_DEADLOCK FALSE\n",
		(env.Seed+50000)%100000, env.Pick(400, 3000), env.Pick(2, 3), env.Pick(2, 2))
	bad := 0
	res := env.MustTLC(common.TLCRun{Dir: "C06", Module: "PyGrammarGen", Config: "c11_random.cfg", Extra: map[string]string{"c11_random.cfg": cfg},
		Timeout: 12 * time.Minute, OnLine: func(rec []byte) {
			var c struct {
				Spellings []struct {
					Text      []string `json:"text"`
					SelfCheck string   `json:"selfcheck"`
				} `json:"spellings"`
			}
			if err := json.Unmarshal(rec, &c); err != nil || len(c.Spellings) == 0 {
				bad++
				return
			}
			for _, sp := range c.Spellings {
				if sp.SelfCheck != "ok" {
					bad++
					continue
				}
				n++
				p.jobs <- job{src: strings.Join(sp.Text, "\n") + "\n", lex: lexClaim{Lex: "none"}, origin: "spelled tree of spec/C06/PyGrammarGen"}
			}
		}})
	rep.AddTLC(res)
	if bad > 0 || !res.Finished || len(res.Violations) > 0 {
		common.Inconclusive("property=C11 grammar program generation failed (%d bad records, %v)\n%s", bad, res.Violations, res.Stdout)
	}
	return n
}

// ---------------------------------------------------------------------------------------
// mutations of the repository's Python files

var chunkRe = regexp.MustCompile(`[A-Za-z_][A-Za-z_0-9]*|[0-9][0-9a-zA-Z_.]*|[ \t]+|\r?\n|.`)

func pyFiles(root string) []string {
	var out []string
	filepath.Walk(root, func(p string, info os.FileInfo, err error) error {
		if err != nil {
			return nil
		}
		if info.IsDir() && (info.Name() == ".git") {
			return filepath.SkipDir
		}
		if !info.IsDir() && strings.HasSuffix(p, ".py") {
			out = append(out, p)
		}
		return nil
	})
	sort.Strings(out)
	return out
}

func mutateBytes(rng *rand.Rand, src []byte, alpha []alphaItem) ([]byte, string) {
	if len(src) == 0 {
		return alpha[rng.Intn(len(alpha))].raw, "byte:insert-into-empty"
	}
	out := append([]byte(nil), src...)
	pos := rng.Intn(len(out))
	switch rng.Intn(7) {
	case 0:
		return append(out[:pos], out[pos+1:]...), "byte:delete"
	case 1:
		out[pos] ^= 1 << uint(rng.Intn(8))
		return out, "byte:bitflip"
	case 2:
		out[pos] = byte(rng.Intn(256))
		return out, "byte:replace"
	case 3:
		ins := []byte{byte(rng.Intn(256))}
		return append(out[:pos], append(ins, out[pos:]...)...), "byte:insert"
	case 4:
		return out[:pos], "byte:truncate"
	case 5:
		end := pos + 1 + rng.Intn(40)
		if end > len(out) {
			end = len(out)
		}
		return append(out[:pos], out[end:]...), "byte:delete-span"
	default:
		end := pos + 1 + rng.Intn(40)
		if end > len(out) {
			end = len(out)
		}
		span := append([]byte(nil), out[pos:end]...)
		return append(out[:end], append(span, out[end:]...)...), "byte:duplicate-span"
	}
}

func mutateTokens(rng *rand.Rand, chunks [][]byte, alpha []alphaItem) ([][]byte, string) {
	out := make([][]byte, len(chunks))
	copy(out, chunks)
	if len(out) == 0 {
		return [][]byte{alpha[rng.Intn(len(alpha))].raw}, "token:insert-into-empty"
	}
	pos := rng.Intn(len(out))
	item := alpha[rng.Intn(len(alpha))].raw
	switch rng.Intn(6) {
	case 0:
		return append(out[:pos], out[pos+1:]...), "token:delete"
	case 1:
		out[pos] = item
		return out, "token:replace"
	case 2:
		return append(out[:pos], append([][]byte{item}, out[pos:]...)...), "token:insert"
	case 3:
		return append(out[:pos+1], append([][]byte{out[pos]}, out[pos+1:]...)...), "token:duplicate"
	case 4:
		q := rng.Intn(len(out))
		out[pos], out[q] = out[q], out[pos]
		return out, "token:swap"
	default:
		return out[:pos+1], "token:truncate"
	}
}

func runMutations(env *common.Env, rep *common.Report, p *pool, alpha []alphaItem, perFile int) (files, mutants int) {
	list := pyFiles(env.Repo)
	for fi, path := range list {
		src, err := os.ReadFile(path)
		if err != nil {
			continue
		}
		files++
		rel, _ := filepath.Rel(env.Repo, path)
		rng := rand.New(rand.NewSource(env.Seed*1000003 + int64(fi)))
		p.jobs <- job{src: string(src), lex: lexClaim{Lex: "none"}, origin: "file " + rel + " unchanged"}
		chunks := chunkRe.FindAll(src, -1)
		for k := 0; k < perFile; k++ {
			var mut []byte
			var ops []string
			nops := 1 + rng.Intn(3)
			if k%2 == 0 {
				mut = src
				for i := 0; i < nops; i++ {
					var op string
					mut, op = mutateBytes(rng, mut, alpha)
					ops = append(ops, op)
				}
			} else {
				cs := chunks
				for i := 0; i < nops; i++ {
					var op string
					cs, op = mutateTokens(rng, cs, alpha)
					ops = append(ops, op)
				}
				mut = bytes.Join(cs, nil)
			}
			mutants++
			j := job{src: string(mut), lex: lexClaim{Lex: "none"}, origin: "file " + rel + " mutated: " + strings.Join(ops, ",")}
			if k == 0 && fi%20 == 3 {
				rep.Sample(map[string]interface{}{"kind": "mutated repository file", "file": rel, "operations": ops, "bytes": len(mut)})
			}
			p.jobs <- j
		}
	}
	return files, mutants
}

// ---------------------------------------------------------------------------------------

func main() {
	env := common.Setup()
	rep := common.NewReport(env, "exploration")
	alpha := loadAlphabet(env)
	c := &collector{events: map[string]*eventInfo{}, distinct: map[uint64]struct{}{}, lexAgree: map[string]int64{},
		lexClass: map[string]int64{}, outcomes: map[string]int64{}, rep: rep}

	if env.Replay != "" {
		replay(env, rep, c)
		return
	}

	phase := map[string]float64{}
	var phaseMu sync.Mutex
	mark := time.Now()
	lap := func(name string) {
		phaseMu.Lock()
		phase[name] = time.Since(mark).Seconds()
		phaseMu.Unlock()
	}
	// 1. design check of the stage machine  2. the universe, compiled as TLC prints it: the
	// exhaustive and the simulated enumeration run side by side and feed one worker pool.
	p := newPool(c, env.Workers, 10*time.Second)
	seen := &seqSet{m: map[string]bool{}}
	cfg := "universe2.cfg"
	if env.Thorough() {
		cfg = "universe3.cfg"
	}
	var nExh, nSim int
	var tlcWG sync.WaitGroup
	tlcWG.Add(2)
	func() {
		res := env.MustTLC(common.TLCRun{Dir: "C11", Module: "Pipeline", Config: "Pipeline.cfg", Workers: 1, Timeout: 5 * time.Minute})
		rep.AddTLC(res)
		if len(res.Violations) > 0 || !res.Finished {
			common.Inconclusive("property=C11 the stage machine fails its own invariants: %v\n%s", res.Violations, res.Stdout)
		}
		lap("tlc_pipeline_design_done_at")
	}()
	go func() {
		defer tlcWG.Done()
		nExh = runUniverse(env, rep, c, p, alpha, common.TLCRun{Dir: "C11", Module: "PipelineUniverse", Config: cfg, Timeout: time.Duration(env.Pick(13, 60)) * time.Minute}, seen)
		lap("universe_exhaustive_done_at")
	}()
	go func() {
		defer tlcWG.Done()
		nSim = runUniverse(env, rep, c, p, alpha, common.TLCRun{Dir: "C11", Module: "PipelineUniverse", Config: "universe_sim.cfg",
			Simulate: fmt.Sprintf("num=%d", env.Pick(1000, 15000)), Depth: 10, Seed: env.Seed, Workers: 4, // num is per worker; a fixed worker count keeps the draws a function of the seed
			Timeout: 10 * time.Minute}, seen)
		lap("universe_simulated_done_at")
	}()
	tlcWG.Wait()
	nScope := runScopePrograms(env, rep, p)
	lap("scope_programs_done_at")
	nGrammar := runGrammarPrograms(env, rep, p)
	lap("grammar_programs_done_at")
	nLit := runLiterals(env, rep, p)
	lap("literals_done_at")
	nNum := runNumbers(env, rep, p)
	lap("numbers_done_at")
	// 3. mutations of the repository's .py files
	files, mutants := runMutations(env, rep, p, alpha, env.Pick(12, 150))
	p.finish()
	c.rerunSuspects(30 * time.Second)
	lap("mutations_done_at")

	// 4. TLC validates the distinct outcome events against Pipeline
	validateEvents(env, rep, c)
	lap("tlc_trace_validation_done_at")
	rep.Extra["phase_seconds"] = phase

	rep.Evaluations = c.compiles + c.lexRuns
	rep.Distinct = int64(len(c.distinct))
	rep.Rule = "cases = source texts: every sequence of 1.." + strconv.Itoa(env.Pick(2, 3)) + " items of the " + strconv.Itoa(len(alpha)) +
		"-item alphabet (spec/C11/alphabet.ndjson) joined with and without a space, every filler of 0.." + strconv.Itoa(env.Pick(1, 2)) +
		" items in each grammatical frame of PipelineUniverse.tla, every leaf statement under every nesting of 1.." + strconv.Itoa(env.Pick(2, 3)) +
		" compound frames, every def-use flag configuration of spec/C03/PyScopeFlags on 4-block nestings (TLC, exhaustive), every string/bytes literal of spec/C11/PipelineLiterals (7 prefixes x 4 quotes x bodies of up to " + strconv.Itoa(env.Pick(2, 3)) + " of 25 pieces), every numeric literal of spec/C11/PipelineNumbers (20 integer parts x 6 fractions x 9 exponents x 7 suffixes), seeded spelled trees of spec/C06/PyGrammarGen, seeded TLC draws of 3..8 free items and 2..4 filler items, " +
		"and seeded byte/token mutations of every .py file of the repository; each compiled in exec, eval and single mode. " +
		"distinct_nontrivial counts distinct source texts (SHA-1); evaluations counts py.Compile calls plus parser.LexString comparisons"
	rep.Exhaustive = false
	rep.Traces = int64(len(c.events))
	rep.Extra["alphabet_items"] = len(alpha)
	rep.Extra["sequences_exhaustive"] = nExh
	rep.Extra["sequences_simulated"] = nSim
	rep.Extra["sequences_in_frames"] = framedTotal.Load()
	rep.Extra["sequences_nested_compound_frames"] = nestedTotal.Load()
	rep.Extra["scope_programs"] = nScope
	rep.Extra["literals_prefix_x_quote_x_body"] = nLit
	rep.Extra["numeric_literals"] = nNum
	rep.Extra["grammar_programs"] = nGrammar
	rep.Extra["repository_files"] = files
	rep.Extra["mutants"] = mutants
	rep.Extra["compiles"] = c.compiles
	rep.Extra["outcome_counts"] = c.outcomes
	rep.Extra["distinct_outcome_events_validated_by_tlc"] = len(c.events)
	rep.Extra["pylex_claims_by_class"] = c.lexClass
	rep.Extra["pylex_agreements_by_class"] = c.lexAgree
	rep.Extra["watchdog_hits_rerun"] = len(c.suspects)
	rep.Extra["exploration_aborted_after_watchdog_hits"] = p.tripped.Load()
	rep.Extra["slowest_compile_ms"] = c.slowest.Milliseconds()
	rep.Extra["slowest_compile_source"] = c.slowSrc
	rep.Assumptions = []string{
		"the explored universe is the one defined by spec/C11/PipelineUniverse.tla plus seeded mutations of the repository's files; totality over all byte sequences is not proved",
		"the specification contributes the universe, the lexical classification (PyLex) and the outcome monitor (Pipeline); it does not decide which texts must compile",
		"a compile that exceeds the 10 s watchdog is re-run alone with 30 s before it counts as a hang",
	}
	if nestedTotal.Load() == 0 || framedTotal.Load() == 0 || nScope == 0 {
		common.Vacuous("property=C11 vacuous run: framed=%d nested=%d sequences, %d scope programs", framedTotal.Load(), nestedTotal.Load(), nScope)
	}
	for _, k := range []string{"err", "eof", "toks"} {
		if c.lexClass[k] == 0 {
			common.Vacuous("property=C11 vacuous run: PyLex never produced class %q", k)
		}
	}
	rep.Finish()
}

func validateEvents(env *common.Env, rep *common.Report, c *collector) {
	if len(c.order) == 0 {
		common.Inconclusive("property=C11 no outcome was observed")
	}
	sort.Strings(c.order)
	var buf bytes.Buffer
	for _, k := range c.order {
		buf.WriteString(k)
		buf.WriteByte('\n')
	}
	verdicts := map[int]string{}
	var mu sync.Mutex
	res := env.MustTLC(common.TLCRun{Dir: "C11", Module: "PipelineTrace", Config: "PipelineTrace.cfg",
		Extra: map[string]string{"events.ndjson": buf.String()}, Timeout: 5 * time.Minute,
		OnLine: func(b []byte) {
			var v struct {
				Line    int    `json:"line"`
				Verdict string `json:"verdict"`
			}
			if json.Unmarshal(b, &v) == nil && v.Line > 0 {
				mu.Lock()
				verdicts[v.Line] = v.Verdict
				mu.Unlock()
			}
		}})
	rep.AddTLC(res)
	if len(res.Violations) > 0 {
		common.Inconclusive("property=C11 trace validation run failed: %v", res.Violations)
	}
	accepted := 0
	for i, k := range c.order {
		v, ok := verdicts[i+1]
		if !ok {
			common.Inconclusive("property=C11 TLC gave no verdict for event %d: %s", i+1, k)
		}
		ei := c.events[k]
		if v == "accepted" {
			accepted++
			continue
		}
		// rejected: one finding key per message class seen under this event
		mcs := make([]string, 0, len(ei.byMsg))
		for mc := range ei.byMsg {
			mcs = append(mcs, mc)
		}
		sort.Strings(mcs)
		for _, mc := range mcs {
			key := "C11|Pipeline.Accepts|" + divergence(ei.ev) + "|" + mc
			rep.Violation(key, map[string]interface{}{"event": ei.ev, "example": ei.byMsg[mc], "occurrences": ei.nByMsg[mc]})
		}
	}
	rep.Extra["outcome_events_accepted"] = accepted
	rep.Extra["outcome_events_rejected"] = len(c.order) - accepted
}

// divergence names the observable class of a rejected event for the finding key.
func divergence(e event) string {
	switch e.Kind {
	case "code":
		return "observed=code"
	case "exc":
		s := "observed=exc:" + e.Cls
		var miss []string
		if !e.File {
			miss = append(miss, "file")
		}
		if !e.Line {
			miss = append(miss, "line")
		}
		if !e.Offset {
			miss = append(miss, "offset")
		}
		if len(miss) > 0 {
			s += "|missing=" + strings.Join(miss, "+")
		}
		return s
	default:
		return "observed=" + e.Kind
	}
}

// replay re-runs the first case of a recorded violation and prints what happens now.
func replay(env *common.Env, rep *common.Report, c *collector) {
	b, err := os.ReadFile(env.Replay)
	if err != nil {
		common.Inconclusive("property=C11 replay: %v", err)
	}
	var r struct {
		Key  string `json:"key"`
		Case struct {
			Example *example `json:"example"`
			Source  string   `json:"source"`
		} `json:"case"`
	}
	if err := json.Unmarshal(b, &r); err != nil {
		common.Inconclusive("property=C11 replay: %v", err)
	}
	q, mode := r.Case.Source, "exec"
	if r.Case.Example != nil {
		q, mode = r.Case.Example.Source, r.Case.Example.Mode
	}
	src, err := strconv.Unquote(q)
	if err != nil {
		common.Inconclusive("property=C11 replay: the recorded source was truncated (%v)", err)
	}
	for _, m := range modes {
		if m.name == mode {
			o := compileOnce(src, m.m)
			fmt.Printf("REPLAY property=C11 key=%s mode=%s source=%s -> kind=%s class=%s message=%q site=%s\n", r.Key, mode, q, o.Kind, o.Cls, o.Msg, o.Site)
		}
	}
	kinds, failed, pan := lexOnce(src)
	fmt.Printf("REPLAY property=C11 LexString(exec): failed=%v panic=%q tokens=%v\n", failed, pan, kinds)
	os.Exit(0)
}
