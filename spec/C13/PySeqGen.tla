------------------------------ MODULE PySeqGen ------------------------------
(* Case generator of C13: every (operation, sequence, operands) within the bounds, with the       *)
(* outcome, value and operand contents Python's sequence model (spec/lib/PySeq.tla, declarative    *)
(* operators only) prescribes.  TLC prints one JSON record per case; the harness renders each case *)
(* as Go API calls and as Python source, runs it on the real interpreter and compares.             *)
(*                                                                                                *)
(* Values are sequences of integers: list/tuple/range items, code points of a str, byte values of *)
(* a bytes object.  Slice components: NoneV = omitted, BigNeg/BigPos = far out of range            *)
(* (instantiated by the harness with -2**63 / 2**63-1 and with integers beyond the machine word), *)
(* BadV = an object that is no index (a float, a str).                                            *)
EXTENDS PySeq, TLC, Json
CONSTANTS MaxLen,     \* sequence lengths 0..MaxLen
          IdxMax,     \* integer slice components -IdxMax..IdxMax plus BigNeg, BigPos, None
          MaxRhs,     \* right-hand sides of slice assignments have 0..MaxRhs items
          CatMax,     \* second operand of a concatenation has 0..CatMax items
          CmpLen      \* compared sequences have 0..CmpLen items over a two-letter alphabet
VARIABLE c

BadV == 200000
Lens == 0..MaxLen
Idx == (-IdxMax..IdxMax) \cup {BigNeg, BigPos}
Comp == Idx \cup {NoneV}

(* sequence kinds: two kinds of str (ASCII only / with 2-, 3- and 4-byte code points) and three   *)
(* kinds of range (unit step, step 3 with a ragged stop, negative step)                           *)
NK == 8
KName(k) == CASE k = 1 -> "list" [] k = 2 -> "tuple" [] k = 3 -> "str" [] k = 4 -> "ustr" [] k = 5 -> "bytes"
              [] k = 6 -> "range1" [] k = 7 -> "range3" [] k = 8 -> "rangem2"
PyType(k) == CASE k = 1 -> "list" [] k = 2 -> "tuple" [] k \in {3, 4} -> "str" [] k = 5 -> "bytes" [] OTHER -> "range"
UChars == <<233, 128512, 97, 20013, 98, 122, 8364, 99>>
BChars == <<0, 65, 255, 10, 39, 92, 200, 66>>
RangeOf(k, n) == CASE k = 6 -> <<0, n, 1>> [] k = 7 -> <<1, 3 * n, 3>> [] k = 8 -> <<10, 11 - 2 * n, -2>> [] OTHER -> <<>>
Content(k, n) == CASE k \in {1, 2} -> [i \in 1..n |-> 9 + i]
                   [] k = 3 -> [i \in 1..n |-> 96 + i]
                   [] k = 4 -> SubSeq(UChars, 1, n)
                   [] k = 5 -> SubSeq(BChars, 1, n)
                   [] OTHER -> LET r == RangeOf(k, n) IN RangeElemsD(r[1], r[2], r[3])
Mutable(k) == k = 1

(* classification of a case for finding keys: the partition is the specification's own case       *)
(* structure (sign of the step, whether start lies beyond stop, which operand is the sequence      *)
(* itself), never concrete values                                                                  *)
\* "plain": step omitted or 1, the slices that are replaced and deleted as a whole
StepClass(st) == IF st = NoneV \/ st = 1 THEN "plain" ELSE IF st = BadV THEN "bad" ELSE IF st = 0 THEN "zero"
                 ELSE IF st > 0 THEN "pos" ELSE "neg"
HasBig(S) == \E x \in S : IsBig(x)
HasBad(S) == BadV \in S
\* start beyond stop in the direction of travel (an empty slice that still names a position)
Crossed(n, a, b, st) == IF st = 0 \/ HasBad({a, b, st}) THEN FALSE
                        ELSE IF StepOf(st) > 0 THEN FirstUp(n, a) > BoundUp(n, b) ELSE FirstDn(n, a) < BoundDn(n, b)
SliceClass(n, a, b, st) == "step=" \o StepClass(st) \o (IF Crossed(n, a, b, st) THEN ",crossed" ELSE "")
                           \o (IF HasBig({a, b, st}) THEN ",big" ELSE "") \o (IF HasBad({a, b, st}) THEN ",badkey" ELSE "")
IndexClass(i) == IF i = BadV THEN "badkey" ELSE IF IsBig(i) THEN "big" ELSE "small"

Base(op, k, n) == [op |-> op, kind |-> KName(k), t |-> PyType(k), x |-> Content(k, n), r |-> RangeOf(k, n)]
B2(v) == IF v THEN <<1>> ELSE <<0>>

-----------------------------------------------------------------------------
(* reading                                                                                        *)
GetSliceCase(k, n, a, b, st) ==
  LET x == Content(k, n)
      bad == HasBad({a, b, st})
  IN Base("GetSlice", k, n) @@
     [a |-> a, b |-> b, st |-> st, cls |-> SliceClass(n, a, b, st),
      out |-> IF bad THEN "TypeError" ELSE IF st = 0 THEN "ValueError" ELSE "ok",
      rk |-> PyType(k), val |-> IF bad \/ st = 0 THEN <<>> ELSE GetSliceD(x, a, b, st),
      post |-> x, fresh |-> Mutable(k)]
GetItemCase(k, n, i) ==
  LET x == Content(k, n)
      ok == i # BadV /\ IndexOk(i, n)
  IN Base("GetItem", k, n) @@
     [i |-> i, cls |-> IndexClass(i),
      out |-> IF i = BadV THEN "TypeError" ELSE IF ok THEN "ok" ELSE "IndexError",
      rk |-> IF PyType(k) = "str" THEN "str" ELSE "int", val |-> IF ok THEN <<GetItemD(x, i)>> ELSE <<>>,
      post |-> x, fresh |-> FALSE]
LenCase(k, n) == Base("Len", k, n) @@ [cls |-> "-", out |-> "ok", rk |-> "int", val |-> <<n>>, post |-> Content(k, n), fresh |-> FALSE]
\* iteration (iterator protocol, for loop, list(x), tuple(x)) yields the items in order, then StopIteration for good
IterCase(k, n) == Base("Iter", k, n) @@ [et |-> (IF PyType(k) = "str" THEN "str" ELSE "int"), cls |-> "-", out |-> "ok", rk |-> "items", val |-> Content(k, n), post |-> Content(k, n), fresh |-> TRUE]

-----------------------------------------------------------------------------
(* list mutation; the immutable types refuse with TypeError and stay as they are                  *)
\* right-hand sides: yk = 0 the list itself, 1 a list, 2 a tuple, 6 a range
RhsContent(yk, m, x) == IF yk = 0 THEN x ELSE IF yk = 6 THEN [i \in 1..m |-> i - 1] ELSE [i \in 1..m |-> 20 + i]
RhsType(yk) == IF yk = 0 THEN "self" ELSE PyType(yk)
SetSliceCase(k, n, a, b, st, yk, m) ==
  LET x == Content(k, n)
      y == RhsContent(yk, m, x)
      bad == HasBad({a, b, st})
      out == IF ~Mutable(k) \/ bad THEN "TypeError" ELSE IF st = 0 THEN "ValueError"
             ELSE IF SetSliceOk(x, a, b, st, y) THEN "ok" ELSE "ValueError"
      post == IF out = "ok" THEN SetSliceD(x, a, b, st, y) ELSE x
  IN Base("SetSlice", k, n) @@
     [a |-> a, b |-> b, st |-> st, yt |-> RhsType(yk), y |-> y, yr |-> IF yk = 6 THEN <<0, m, 1>> ELSE <<>>,
      cls |-> SliceClass(n, a, b, st) \o (IF yk = 0 THEN ",rhs=self" ELSE ""),
      out |-> out, rk |-> "none", val |-> <<>>, post |-> post, ypost |-> IF yk = 0 THEN post ELSE y, fresh |-> FALSE]
DelSliceCase(k, n, a, b, st) ==
  LET x == Content(k, n)
      bad == HasBad({a, b, st})
      out == IF ~Mutable(k) \/ bad THEN "TypeError" ELSE IF st = 0 THEN "ValueError" ELSE "ok"
  IN Base("DelSlice", k, n) @@
     [a |-> a, b |-> b, st |-> st, cls |-> SliceClass(n, a, b, st),
      out |-> out, rk |-> "none", val |-> <<>>, post |-> IF out = "ok" THEN DelSliceD(x, a, b, st) ELSE x, fresh |-> FALSE]
\* The immutable types refuse item assignment and deletion with TypeError whatever the index. For an
\* index beyond the machine word the reference implementation converts the index first and reports
\* IndexError; the sequence model does not order the two checks, so both are allowed there.
FarAlt(k, i) == IF ~Mutable(k) /\ IsBig(i) THEN "IndexError" ELSE ""
SetItemCase(k, n, i) ==
  LET x == Content(k, n)
      out == IF ~Mutable(k) \/ i = BadV THEN "TypeError" ELSE IF IndexOk(i, n) THEN "ok" ELSE "IndexError"
  IN Base("SetItem", k, n) @@
     [i |-> i, item |-> 77, cls |-> IndexClass(i), out |-> out, alt |-> FarAlt(k, i), rk |-> "none", val |-> <<>>,
      post |-> IF out = "ok" THEN SetItemD(x, i, 77) ELSE x, fresh |-> FALSE]
DelItemCase(k, n, i) ==
  LET x == Content(k, n)
      out == IF ~Mutable(k) \/ i = BadV THEN "TypeError" ELSE IF IndexOk(i, n) THEN "ok" ELSE "IndexError"
  IN Base("DelItem", k, n) @@
     [i |-> i, cls |-> IndexClass(i), out |-> out, alt |-> FarAlt(k, i), rk |-> "none", val |-> <<>>,
      post |-> IF out = "ok" THEN DelItemD(x, i) ELSE x, fresh |-> FALSE]

-----------------------------------------------------------------------------
(* concatenation and repetition: same type only, range supports neither; the result is new        *)
ConcatCase(k, n, yk, m) ==
  LET x == Content(k, n)
      y == IF yk = 0 THEN x ELSE Content(yk, m)
      yt == IF yk = 0 THEN PyType(k) ELSE PyType(yk)
      ok == PyType(k) = yt /\ PyType(k) # "range"
  IN Base("Concat", k, n) @@
     [yt |-> IF yk = 0 THEN "self" ELSE yt, y |-> y, yr |-> IF yk = 0 THEN RangeOf(k, n) ELSE RangeOf(yk, m),
      cls |-> IF yk = 0 THEN "rhs=self" ELSE IF ok THEN "same" ELSE "mixed",
      out |-> IF ok THEN "ok" ELSE "TypeError", rk |-> PyType(k), val |-> IF ok THEN ConcatD(x, y) ELSE <<>>,
      post |-> x, ypost |-> y, fresh |-> Mutable(k)]
RepeatCase(k, n, cnt, rev) ==
  LET x == Content(k, n)
      ok == PyType(k) # "range"
  IN Base("Repeat", k, n) @@
     [cnt |-> cnt, rev |-> rev, cls |-> IF cnt <= 0 THEN "count<=0" ELSE "count>0",
      out |-> IF ok THEN "ok" ELSE "TypeError", rk |-> PyType(k), val |-> IF ok THEN RepeatD(x, cnt) ELSE <<>>,
      post |-> x, fresh |-> Mutable(k)]

-----------------------------------------------------------------------------
(* membership                                                                                     *)
\* needles for item membership: every item, the gaps of a range, the neighbours outside
ItemNeedles(x) == IF Len(x) = 0 THEN {0, 1}
                  ELSE LET lo == CHOOSE v \in SqSet(x) : \A w \in SqSet(x) : v <= w
                           hi == CHOOSE v \in SqSet(x) : \A w \in SqSet(x) : v >= w
                       IN IF hi - lo <= 40 THEN (lo - 1)..(hi + 1) ELSE SqSet(x) \cup {lo - 1, lo + 1, hi + 1}
\* needles for substring membership: every contiguous piece up to 3 items, pieces with a gap, reversed pairs, a stranger
SubNeedles(x, stranger) ==
  { SubSeq(x, i, j) : i \in 1..(Len(x) + 1), j \in 0..Len(x) } \cup
  { <<x[i], x[j]>> : i \in 1..Len(x), j \in 1..Len(x) } \cup { <<stranger>>, <<>> } \cup
  { Append(x, stranger) }
ContainsItemCase(k, n, v) ==
  LET x == Content(k, n)
  IN Base("Contains", k, n) @@
     [vt |-> "int", v |-> <<v>>, cls |-> "item", out |-> "ok", rk |-> "bool", val |-> B2(ElemIn(x, v)), post |-> x, fresh |-> FALSE]
ContainsSubCase(k, n, v) ==
  LET x == Content(k, n)
  IN Base("Contains", k, n) @@
     [vt |-> PyType(k), v |-> v, cls |-> "subsequence", out |-> "ok", rk |-> "bool", val |-> B2(SubseqIn(x, v)), post |-> x, fresh |-> FALSE]
\* an int is no substring: TypeError
ContainsBadCase(k, n) ==
  Base("Contains", k, n) @@
     [vt |-> "int", v |-> <<97>>, cls |-> "int in str", out |-> "TypeError", rk |-> "bool", val |-> <<>>, post |-> Content(k, n), fresh |-> FALSE]

-----------------------------------------------------------------------------
(* equality and ordering                                                                           *)
CmpOps == {"==", "!=", "<", "<=", ">", ">="}
Alphabet(k) == CASE k \in {1, 2} -> {1, 2} [] k \in {3, 4} -> {97, 233} [] k = 5 -> {65, 255} [] OTHER -> {}
WordsOf(k) == UNION { [1..l -> Alphabet(k)] : l \in 0..CmpLen }
\* ranges to compare: equal as sequences although spelled differently, and different ones
CmpRanges == { <<0, 0, 1>>, <<5, 2, 1>>, <<0, 1, 1>>, <<0, 1, 5>>, <<0, 2, 1>>, <<0, 3, 2>>, <<0, 4, 2>>, <<0, 4, 1>>,
               <<1, 3, 1>>, <<3, 0, -1>>, <<3, 1, -1>>, <<3, 0, -2>>, <<3, -1, -2>>, <<1, 7, 3>>, <<1, 6, 3>> }
Holds(op, s, t) == CASE op = "==" -> SeqEq(s, t) [] op = "!=" -> ~SeqEq(s, t) [] op = "<" -> LexLt(s, t)
                     [] op = "<=" -> LexLe(s, t) [] op = ">" -> LexLt(t, s) [] op = ">=" -> LexLe(t, s)
IsOrdering(op) == op \notin {"==", "!="}
CompareCase(k, s, yk, t, op) ==
  LET same == PyType(k) = PyType(yk)
      ok == IF IsOrdering(op) THEN same ELSE TRUE
      res == IF same THEN Holds(op, s, t) ELSE op = "!="
  IN [op |-> "Compare", kind |-> KName(k), t |-> PyType(k), x |-> s, r |-> <<>>, yt |-> PyType(yk), y |-> t, yr |-> <<>>, cmp |-> op,
      cls |-> (IF same THEN "same" ELSE "mixed") \o (IF IsOrdering(op) THEN ",ordering" ELSE ",equality"),
      out |-> IF ok THEN "ok" ELSE "TypeError", rk |-> "bool", val |-> IF ok THEN B2(res) ELSE <<>>, post |-> s, ypost |-> t, fresh |-> FALSE]
CompareRangeCase(p, q, op) ==
  LET s == RangeElemsD(p[1], p[2], p[3])
      t == RangeElemsD(q[1], q[2], q[3])
      ok == ~IsOrdering(op)
  IN [op |-> "Compare", kind |-> "range", t |-> "range", x |-> s, r |-> p, yt |-> "range", y |-> t, yr |-> q, cmp |-> op,
      cls |-> "same" \o (IF IsOrdering(op) THEN ",ordering" ELSE ",equality"),
      out |-> IF ok THEN "ok" ELSE "TypeError", rk |-> "bool", val |-> IF ok THEN B2(Holds(op, s, t)) ELSE <<>>, post |-> s, ypost |-> t, fresh |-> FALSE]

-----------------------------------------------------------------------------
(* derive, operate, re-read everything: "operands are never corrupted, results never alias" over   *)
(* histories of two or three operations.  y is made from x (a plain slice, x + empty, x * 1,       *)
(* tuple(x), list(x)); then z = y OP e1 and z2 = y OP e2; afterwards x, y, z and z2 are read again:   *)
(* x and y are what they were, z is still what it was when it was made.  (A slice of an immutable    *)
(* sequence may share storage with its parent; an operation on the slice must not write into it.)    *)
Derivs == {"slice", "addempty", "mul1", "tuple", "list"}
ThenOps == {"concat", "repeat", "iadd", "slice"}
DeriveType(k, d) == CASE d = "tuple" -> "tuple" [] d = "list" -> "list" [] OTHER -> PyType(k)
DeriveOk(k, d, op) ==
  /\ d \in {"addempty", "mul1"} => PyType(k) # "range"
  /\ d \in {"tuple", "list"} => PyType(k) # "str"                 \* keeps the items integers
  /\ op \in {"concat", "repeat", "iadd"} => DeriveType(k, d) # "range"
  /\ op = "iadd" => DeriveType(k, d) # "list"                      \* in-place growth of lists is C17's
Extra1(t) == IF t = "str" \/ t = "bytes" THEN <<120>> ELSE <<50>>
Extra2(t) == IF t = "str" \/ t = "bytes" THEN <<121, 122>> ELSE <<51, 52>>
DeriveCase(k, n, d, a, b, op) ==
  LET x == Content(k, n)
      yt == DeriveType(k, d)
      y == IF d = "slice" THEN SubSeq(x, a + 1, b) ELSE x
      then(e) == CASE op = "concat" -> ConcatD(y, e) [] op = "iadd" -> ConcatD(y, e)
                   [] op = "repeat" -> RepeatD(y, 2) [] op = "slice" -> GetSliceD(y, 0, 1, NoneV)
  IN Base("Derive", k, n) @@
     [d |-> d, a |-> a, b |-> b, dt |-> yt, then |-> op, e1 |-> Extra1(yt), e2 |-> Extra2(yt),
      cls |-> "derive=" \o d \o ",then=" \o op, out |-> "ok", rk |-> yt,
      yv |-> y, z |-> then(Extra1(yt)), z2 |-> then(Extra2(yt)), val |-> <<>>, post |-> x, fresh |-> FALSE]

-----------------------------------------------------------------------------
(* enumeration: one root per (group, kind, length); each root expands to its cases in one step    *)
Groups == {"read", "setslice", "delslice", "item", "concat", "contains", "compare", "derive"}
BadTriples == {<<BadV, NoneV, NoneV>>, <<NoneV, BadV, NoneV>>, <<NoneV, NoneV, BadV>>, <<1, BadV, 2>>}
Triples == (Comp \X Comp \X Comp) \cup BadTriples
\* the immutable kinds refuse every mutation the same way: a handful of slices suffices there
FewTriples == {<<NoneV, NoneV, NoneV>>, <<1, 2, NoneV>>, <<NoneV, NoneV, -1>>, <<0, BigPos, 2>>, <<NoneV, NoneV, 0>>}
MutTriples(k) == IF Mutable(k) THEN Triples ELSE FewTriples
\* right-hand sides <<kind, length>>: the list itself, lists of every length, one tuple, one range
RhsSet(k) == IF Mutable(k) THEN {<<0, 0>>, <<2, 1>>, <<6, 2>>} \cup {<<1, m>> : m \in 0..MaxRhs} ELSE {<<1, 1>>}
CatSet == {<<0, 0>>} \cup ((1..NK) \X (0..CatMax))
Init == \E g \in Groups, k \in 1..NK, n \in Lens : c = <<"root", g, k, n>>
Emit(rec) == c' = <<"case", rec>> /\ PrintT(ToJson(rec))
Next ==
  /\ c[1] = "root"
  /\ LET g == c[2] k == c[3] n == c[4] x == Content(c[3], c[4]) IN
     \/ g = "read" /\ \E tr \in Triples : Emit(GetSliceCase(k, n, tr[1], tr[2], tr[3]))
     \/ g = "read" /\ \E i \in Idx \cup {BadV} : Emit(GetItemCase(k, n, i))
     \/ g = "read" /\ Emit(LenCase(k, n))
     \/ g = "read" /\ Emit(IterCase(k, n))
     \/ g = "setslice" /\ \E tr \in MutTriples(k), ym \in RhsSet(k) : Emit(SetSliceCase(k, n, tr[1], tr[2], tr[3], ym[1], ym[2]))
     \/ g = "delslice" /\ \E tr \in MutTriples(k) : Emit(DelSliceCase(k, n, tr[1], tr[2], tr[3]))
     \/ g = "item" /\ \E i \in Idx \cup {BadV} : Emit(SetItemCase(k, n, i))
     \/ g = "item" /\ \E i \in Idx \cup {BadV} : Emit(DelItemCase(k, n, i))
     \/ g = "concat" /\ \E ym \in CatSet : Emit(ConcatCase(k, n, ym[1], ym[2]))
     \/ g = "concat" /\ \E cnt \in -2..3, rev \in BOOLEAN : Emit(RepeatCase(k, n, cnt, rev))
     \/ g = "contains" /\ PyType(k) \in {"list", "tuple", "range"} /\ \E v \in ItemNeedles(x) : Emit(ContainsItemCase(k, n, v))
     \/ g = "contains" /\ PyType(k) = "str" /\ \E v \in SubNeedles(x, 113) : Emit(ContainsSubCase(k, n, v))
     \/ g = "contains" /\ PyType(k) = "str" /\ Emit(ContainsBadCase(k, n))
     \/ g = "contains" /\ PyType(k) = "bytes" /\ \E v \in SubNeedles(x, 7) : Emit(ContainsSubCase(k, n, v))
     \/ g = "contains" /\ PyType(k) = "bytes" /\ \E v \in SqSet(x) \cup {7, 1} : Emit(ContainsItemCase(k, n, v))
     \/ g = "derive" /\ \E d \in Derivs, op \in ThenOps, a \in 0..n, b \in 0..n :
          /\ DeriveOk(k, d, op) /\ a <= b /\ (d # "slice" => (a = 0 /\ b = n))
          /\ Emit(DeriveCase(k, n, d, a, b, op))
     \* comparisons do not depend on the length: done once, at the root of length 0
     \/ g = "compare" /\ n = 0 /\ k = 6 /\ \E p \in CmpRanges, q \in CmpRanges, op \in CmpOps : Emit(CompareRangeCase(p, q, op))
     \/ g = "compare" /\ n = 0 /\ k <= 5 /\ \E s \in WordsOf(k), t \in WordsOf(k), op \in CmpOps : Emit(CompareCase(k, s, k, t, op))
     \* mixed types: == is False, != is True, ordering is a TypeError
     \/ g = "compare" /\ n = 0 /\ k <= 5 /\ \E yk \in {j \in 1..5 : PyType(j) # PyType(k)}, ls \in 0..1, lt \in 0..1, op \in CmpOps :
            Emit(CompareCase(k, [i \in 1..ls |-> CHOOSE v \in Alphabet(k) : TRUE], yk, [i \in 1..lt |-> CHOOSE v \in Alphabet(yk) : TRUE], op))
Spec == Init /\ [][Next]_c
=============================================================================
