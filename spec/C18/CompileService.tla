---- MODULE CompileService ----
\* Compilation as a service used concurrently (property C18).
\*
\* Clients (goroutines) invoke Compile(key) -- key = (source, file name, mode) -- and later receive
\* a code object, abstracted to its deep structural dump.  The ONLY state of the specification is
\* `memo`, the part of the FUNCTION key -> dump that has been observed so far: a return (key, dump)
\* is possible iff memo[key] is still undefined or equal to dump.  Nothing else is remembered, so
\* no order of invocations, no interleaving and no repetition count can influence a result: the
\* service is a deterministic, side-effect-free function of its input.
\* NoResidue: an observer -- a program running in a context of its own, before, during and after
\* compilations -- always produces the same output (`obs` is the one output seen so far).
EXTENDS Integers, Sequences, FiniteSets, TLC
CONSTANTS Keys, Dumps, Procs
None == "-"
ASSUME None \notin Dumps
VARIABLES memo,     \* Keys -> Dumps \cup {None}
          pending,  \* Procs -> Keys \cup {None}: the compilation a client is waiting for
          obs       \* Dumps \cup {None}: the observer's output
vars == <<memo, pending, obs>>
Init == /\ memo = [k \in Keys |-> None]
        /\ pending = [p \in Procs |-> None]
        /\ obs = None
Invoke(p, k) == /\ pending[p] = None
                /\ pending' = [pending EXCEPT ![p] = k]
                /\ UNCHANGED <<memo, obs>>
Return(p, d) == /\ pending[p] # None
                /\ memo[pending[p]] \in {None, d}
                /\ memo' = [memo EXCEPT ![pending[p]] = d]
                /\ pending' = [pending EXCEPT ![p] = None]
                /\ UNCHANGED obs
\* a code object that was returned earlier is looked at again: it still has the dump it had
\* (later compilations do not reach into results already handed out)
Recheck(k, d) == /\ memo[k] = d
                 /\ UNCHANGED vars
Observe(d) == /\ obs \in {None, d}
              /\ obs' = d
              /\ UNCHANGED <<memo, pending>>
Next == \/ \E p \in Procs, k \in Keys : Invoke(p, k)
        \/ \E p \in Procs, d \in Dumps : Return(p, d)
        \/ \E k \in Keys, d \in Dumps : Recheck(k, d)
        \/ \E d \in Dumps : Observe(d)
Spec == Init /\ [][Next]_vars
\* what the specification guarantees to every client (checked by TLC on small constants)
TypeOK == /\ memo \in [Keys -> Dumps \cup {None}] /\ pending \in [Procs -> Keys \cup {None}] /\ obs \in Dumps \cup {None}
\* once a key has a dump it keeps it
Functional == [][\A k \in Keys : memo[k] # None => memo'[k] = memo[k]]_vars
ObserverStable == [][obs # None => obs' = obs]_vars
====
