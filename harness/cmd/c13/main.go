//go:build verif

// C13: indexing and slicing follow Python's sequence model for all indices.
//
//  1. TLC checks spec/C13/PySeqMC: the algorithmic formulations of spec/lib/PySeq.tla (the clamp-and-
//     count arithmetic the code is written in) equal the declarative ones on the whole bounded domain.
//  2. TLC enumerates spec/C13/PySeqGen: every (operation, sequence, operands) within the bounds with
//     the outcome, value and operand contents the declarative model prescribes (one JSON record each).
//  3. G-binding: every record is executed on the real objects through the Go API (py.GetItem, SetItem,
//     DelItem, Add, Mul, Eq.., SequenceContains, Len, Iter/Next) and - all of the non-slice cases, a seeded
//     share of the slice cases - as compiled Python source through harness/pyrun. Outcome class, result
//     type and value, operand contents afterwards and non-aliasing of results are compared with the record.
//
// Nothing in this file knows what a sequence operation should return: it renders, runs, reads
// back and compares with what TLC printed.
package main

import (
	"encoding/json"
	"fmt"
	"hash/fnv"
	"math"
	"math/big"
	"os"
	"sort"
	"strconv"
	"strings"
	"sync"
	"sync/atomic"
	"time"

	"gpverif/common"
	"gpverif/pyrun"

	"github.com/go-python/gpython/py"
)

// markers of spec/lib/PySeq.tla and spec/C13/PySeqGen.tla
const (
	noneV  = 100000
	bigPos = 1000
	bigNeg = -1000
	badV   = 200000
)

// Rec is one record printed by PySeqGen.
type Rec struct {
	Op   string  `json:"op"`
	Kind string  `json:"kind"`
	T    string  `json:"t"`
	X    []int64 `json:"x"`
	R    []int64 `json:"r"`
	A    *int64  `json:"a,omitempty"`
	B    *int64  `json:"b,omitempty"`
	St   *int64  `json:"st,omitempty"`
	I    *int64  `json:"i,omitempty"`
	Item *int64  `json:"item,omitempty"`
	Yt   string  `json:"yt,omitempty"`
	Y    []int64 `json:"y,omitempty"`
	Yr   []int64 `json:"yr,omitempty"`
	Cnt  *int64  `json:"cnt,omitempty"`
	Rev  bool    `json:"rev,omitempty"`
	Vt   string  `json:"vt,omitempty"`
	V    []int64 `json:"v,omitempty"`
	Cmp  string  `json:"cmp,omitempty"`
	Et   string  `json:"et,omitempty"`
	// derive-operate-reread cases: y = Derive(x); z = y OP e1; z2 = y OP e2; then everything is read again
	D     string  `json:"d,omitempty"`
	Dt    string  `json:"dt,omitempty"`
	Then  string  `json:"then,omitempty"`
	E1    []int64 `json:"e1,omitempty"`
	E2    []int64 `json:"e2,omitempty"`
	Yv    []int64 `json:"yv,omitempty"`
	Z     []int64 `json:"z,omitempty"`
	Z2    []int64 `json:"z2,omitempty"`
	Cls   string  `json:"cls"`
	Out   string  `json:"out"`
	Alt   string  `json:"alt,omitempty"` // a second allowed exception class ("" = none)
	Rk    string  `json:"rk"`
	Val   []int64 `json:"val"`
	Post  []int64 `json:"post"`
	Ypost []int64 `json:"ypost,omitempty"`
	Fresh bool    `json:"fresh"`
}

// variant = how the symbolic operands are instantiated
type variant struct {
	Big int `json:"big"` // 0: machine word (py.Int), 1: just beyond the word (py.BigInt), 2: beyond 2**64 (py.BigInt)
	Bad int `json:"bad"` // 0: float, 1: str
}

var (
	bigPosSrc = []string{"9223372036854775807", "9223372036854775813", "18446744073709551619"}
	bigNegSrc = []string{"-9223372036854775808", "-9223372036854775813", "-18446744073709551619"}
	badSrc    = []string{"1.0", "'1'"}
	bigPosObj [3]py.Object
	bigNegObj [3]py.Object
	badObj    = [2]py.Object{py.Float(1.0), py.String("1")}
)

func init() {
	for i := range bigPosSrc {
		p, _ := new(big.Int).SetString(bigPosSrc[i], 10)
		n, _ := new(big.Int).SetString(bigNegSrc[i], 10)
		if i == 0 {
			bigPosObj[i], bigNegObj[i] = py.Int(math.MaxInt64), py.Int(math.MinInt64)
		} else {
			bigPosObj[i], bigNegObj[i] = (*py.BigInt)(p), (*py.BigInt)(n)
		}
	}
}

func (r *Rec) comps() []int64 {
	var c []int64
	for _, p := range []*int64{r.A, r.B, r.St, r.I} {
		if p != nil {
			c = append(c, *p)
		}
	}
	return c
}

func (r *Rec) variants() []variant {
	hasBig, hasBad := false, false
	for _, c := range r.comps() {
		if c == bigPos || c == bigNeg {
			hasBig = true
		}
		if c == badV {
			hasBad = true
		}
	}
	vs := []variant{{}}
	if hasBig {
		vs = []variant{{Big: 0}, {Big: 1}, {Big: 2}}
	}
	if hasBad {
		var w []variant
		for _, v := range vs {
			w = append(w, variant{v.Big, 0}, variant{v.Big, 1})
		}
		vs = w
	}
	return vs
}

func compObj(c int64, v variant) py.Object {
	switch c {
	case noneV:
		return py.None
	case bigPos:
		return bigPosObj[v.Big]
	case bigNeg:
		return bigNegObj[v.Big]
	case badV:
		return badObj[v.Bad]
	}
	return py.Int(c)
}

func compSrc(c int64, v variant, none string) string {
	switch c {
	case noneV:
		return none
	case bigPos:
		return bigPosSrc[v.Big]
	case bigNeg:
		return bigNegSrc[v.Big]
	case badV:
		return badSrc[v.Bad]
	}
	return strconv.FormatInt(c, 10)
}

// ---------------------------------------------------------------------------------------
// building and reading back real objects

func runes(x []int64) string {
	rs := make([]rune, len(x))
	for i, c := range x {
		rs[i] = rune(c)
	}
	return string(rs)
}

func mkObj(t string, x, r []int64) (py.Object, error) {
	switch t {
	case "list":
		l := py.NewListWithCapacity(len(x))
		for _, v := range x {
			l.Append(py.Int(v))
		}
		return l, nil
	case "tuple":
		tu := make(py.Tuple, len(x))
		for i, v := range x {
			tu[i] = py.Int(v)
		}
		return tu, nil
	case "str":
		return py.String(runes(x)), nil
	case "bytes":
		b := make([]byte, len(x))
		for i, v := range x {
			b[i] = byte(v)
		}
		return py.Bytes(b), nil
	case "range":
		return py.Call(py.RangeType, py.Tuple{py.Int(r[0]), py.Int(r[1]), py.Int(r[2])}, nil)
	case "int":
		return py.Int(x[0]), nil
	}
	return nil, fmt.Errorf("unknown type %q", t)
}

// value is what the harness reads back from an object: its kind and its items as integers
type value struct {
	Kind string  `json:"kind"` // list tuple str bytes range bool int none ?
	Et   string  `json:"et"`   // element kind of list/tuple items: int | str | "" (no items) | mixed
	Val  []int64 `json:"val"`
	Bad  string  `json:"bad,omitempty"`
}

func elem(o py.Object) (int64, string) {
	switch e := o.(type) {
	case py.Int:
		return int64(e), "int"
	case py.Bool:
		if e {
			return 1, "bool"
		}
		return 0, "bool"
	case py.String:
		rs := []rune(string(e))
		if len(rs) == 1 {
			return int64(rs[0]), "str"
		}
	}
	return 0, "?"
}

func items(objs []py.Object, v *value) {
	for _, o := range objs {
		if o == nil {
			v.Bad = "nil item"
			v.Val = append(v.Val, -999999)
			continue
		}
		n, k := elem(o)
		if k == "?" {
			v.Bad = "item of type " + o.Type().Name
		}
		if v.Et == "" {
			v.Et = k
		} else if v.Et != k {
			v.Et = "mixed"
		}
		v.Val = append(v.Val, n)
	}
}

func norm(o py.Object) (v value) {
	defer func() {
		if e := recover(); e != nil {
			v.Bad = fmt.Sprint("panic while reading: ", e)
		}
	}()
	v.Val = []int64{}
	switch x := o.(type) {
	case nil:
		v.Kind = "nil"
	case *py.List:
		v.Kind = "list"
		items(x.Items, &v)
	case py.Tuple:
		v.Kind = "tuple"
		items(x, &v)
	case py.String:
		v.Kind = "str"
		for _, r := range string(x) {
			v.Val = append(v.Val, int64(r))
		}
	case py.Bytes:
		v.Kind = "bytes"
		for _, b := range x {
			v.Val = append(v.Val, int64(b))
		}
	case *py.Range:
		v.Kind = "range"
		n := 0
		err := py.Iterate(x, func(it py.Object) bool {
			e, k := elem(it)
			if k != "int" {
				v.Bad = "range item of type " + it.Type().Name
			}
			v.Val = append(v.Val, e)
			n++
			return n > 10000
		})
		if err != nil {
			v.Bad = "iterating the range failed"
		}
		if l, err := py.Len(x); err != nil || l != py.Object(py.Int(len(v.Val))) {
			v.Bad = "len(range) disagrees with its items"
		}
	case py.Bool:
		v.Kind = "bool"
		if x {
			v.Val = []int64{1}
		} else {
			v.Val = []int64{0}
		}
	case py.Int:
		v.Kind = "int"
		v.Val = []int64{int64(x)}
	case py.NoneType:
		v.Kind = "none"
	default:
		v.Kind = "?" + o.Type().Name
	}
	return
}

func eqInts(a, b []int64) bool {
	if len(a) != len(b) {
		return false
	}
	for i := range a {
		if a[i] != b[i] {
			return false
		}
	}
	return true
}

// ---------------------------------------------------------------------------------------
// observation of one execution, compared with the record

type obs struct {
	Outcome string `json:"outcome"` // ok | exc:<Class> | panic | timeout
	Site    string `json:"site,omitempty"`
	excIsA  func(string) bool
	Res     *value `json:"result,omitempty"`
	TypeOK  bool   `json:"type_ok"`
	Post    *value `json:"post,omitempty"`
	Ypost   *value `json:"ypost,omitempty"`
	Aliased string `json:"aliased,omitempty"`
	Note    string `json:"note,omitempty"`
	// derive cases: y right after it was made, z right after it was made (API path), then x, y, z, z2 at the end
	Y0, Z0         *value
	XE, YE, ZE, Z2 *value
}

// verdict returns "" if the observation is what the record allows, else the kind of divergence.
func verdict(rec *Rec, o *obs) string {
	switch {
	case o.Outcome == "timeout":
		return "timeout"
	case o.Outcome == "panic":
		return "panic:" + o.Site
	}
	if rec.Out == "ok" {
		if o.Outcome != "ok" {
			return strings.TrimPrefix(o.Outcome, "exc:")
		}
	} else {
		if o.Outcome == "ok" {
			return "no-exception"
		}
		if !o.excIsA(rec.Out) && !(rec.Alt != "" && o.excIsA(rec.Alt)) {
			return strings.TrimPrefix(o.Outcome, "exc:")
		}
	}
	if rec.Op == "Derive" {
		return verdictDerive(rec, o)
	}
	if rec.Out == "ok" && rec.Rk != "none" {
		if o.Res == nil {
			return "no-result"
		}
		if o.Res.Bad != "" {
			return "broken-result"
		}
		if !o.TypeOK {
			return "wrong-type"
		}
		if !eqInts(o.Res.Val, rec.Val) {
			return "wrong-value"
		}
	}
	mut := rec.Op == "SetSlice" || rec.Op == "DelSlice" || rec.Op == "SetItem" || rec.Op == "DelItem"
	if o.Post == nil || o.Post.Bad != "" || !eqInts(o.Post.Val, rec.Post) {
		if mut && rec.Out == "ok" {
			return "wrong-contents"
		}
		return "operand-changed"
	}
	if rec.Ypost != nil && rec.Yt != "self" {
		if o.Ypost == nil || o.Ypost.Bad != "" || !eqInts(o.Ypost.Val, rec.Ypost) {
			return "operand-changed"
		}
	}
	if o.Aliased != "" {
		return "aliased"
	}
	return ""
}

func sameVal(v *value, want []int64) bool {
	return v != nil && v.Bad == "" && eqInts(v.Val, want)
}

// verdictDerive: the derived object and both results are what the record says, and nothing that was made
// earlier changed when something was made later
func verdictDerive(rec *Rec, o *obs) string {
	if !o.TypeOK {
		return "wrong-type"
	}
	if o.Y0 != nil && !sameVal(o.Y0, rec.Yv) {
		return "wrong-value"
	}
	if o.Z0 != nil && !sameVal(o.Z0, rec.Z) {
		return "wrong-value"
	}
	if !sameVal(o.XE, rec.Post) || !sameVal(o.YE, rec.Yv) {
		// the sequence the derived object was made from, or the derived object, changed under a later operation
		if o.Y0 == nil && o.YE != nil && !eqInts(o.YE.Val, rec.Yv) && sameVal(o.XE, rec.Post) && sameVal(o.ZE, rec.Z) && sameVal(o.Z2, rec.Z2) {
			return "wrong-value" // source path: y is read once, at the end; nothing else is off, so it was made wrong
		}
		return "operand-changed"
	}
	if !sameVal(o.Z2, rec.Z2) {
		return "wrong-value"
	}
	if !sameVal(o.ZE, rec.Z) {
		if o.Z0 != nil {
			return "result-changed" // it was right when it was made
		}
		return "wrong-value/result-changed"
	}
	return ""
}

func typeLabel(rec *Rec) string {
	if rec.Kind == "ustr" {
		return "str,nonascii"
	}
	return rec.T
}

// findingKey builds the key of a divergence from the specification's own case partition (the
// cls field computed by PySeqGen) and the kind of divergence. Two coarsenings keep the number of
// keys in the tens: an operand in arbitrary-precision representation is refused before any slice
// arithmetic happens, so the slice class says nothing there; an operation the type does not
// support at all (TypeError where a value is due) fails the same way for every operand class.
func findingKey(rec *Rec, v variant, form, div string) string {
	op := rec.Op
	if form != "" {
		op += "(" + form + ")"
	}
	cls := rec.Cls
	bigint := strings.Contains(rec.Cls, "big") && v.Big != 0
	unsupported := rec.Out != "TypeError" && div == "TypeError" && rec.Op != "Compare"
	switch {
	case unsupported:
		cls = ""
	case bigint:
		cls = "int=bigint"
	default:
		cls = strings.Replace(cls, ",big", "", 1)
		if strings.Contains(rec.Cls, "badkey") {
			if v.Bad == 0 {
				cls += ",key=float"
			} else {
				cls += ",key=str"
			}
		}
		if rec.Yt != "" && rec.Op != "SetSlice" && rec.Yt != rec.T && rec.Yt != "self" {
			cls += ",other=" + rec.Yt
		}
		if rec.Op == "Contains" {
			cls += ",needle=" + rec.Vt
		}
	}
	if cls != "" {
		cls = "," + cls
	}
	return fmt.Sprintf("C13|%s|type=%s%s|observed=%s", op, typeLabel(rec), cls, div)
}

// ---------------------------------------------------------------------------------------
// Go API path

const apiTimeout = 10 * time.Second

// forms of a record on the Go API path
func apiForms(rec *Rec) []string {
	if rec.Op == "Iter" {
		return []string{"next", "SequenceList", "SequenceTuple", "list()", "tuple()", "Iterate"}
	}
	return []string{""}
}

func sliceObj(rec *Rec, v variant) py.Object {
	return py.NewSlice(compObj(*rec.A, v), compObj(*rec.B, v), compObj(*rec.St, v))
}

func doAPI(rec *Rec, v variant, form string, x, y py.Object) (py.Object, error) {
	switch rec.Op {
	case "GetSlice":
		return py.GetItem(x, sliceObj(rec, v))
	case "GetItem":
		return py.GetItem(x, compObj(*rec.I, v))
	case "Len":
		return py.Len(x)
	case "SetSlice":
		return py.SetItem(x, sliceObj(rec, v), y)
	case "DelSlice":
		return py.DelItem(x, sliceObj(rec, v))
	case "SetItem":
		return py.SetItem(x, compObj(*rec.I, v), py.Int(*rec.Item))
	case "DelItem":
		return py.DelItem(x, compObj(*rec.I, v))
	case "Concat":
		return py.Add(x, y)
	case "Repeat":
		if rec.Rev {
			return py.Mul(py.Int(*rec.Cnt), x)
		}
		return py.Mul(x, py.Int(*rec.Cnt))
	case "Contains":
		needle, err := mkObj(rec.Vt, rec.V, nil)
		if err != nil {
			return nil, err
		}
		found, err := py.SequenceContains(x, needle)
		if err != nil {
			return nil, err
		}
		return py.NewBool(found), nil
	case "Compare":
		switch rec.Cmp {
		case "==":
			return py.Eq(x, y)
		case "!=":
			return py.Ne(x, y)
		case "<":
			return py.Lt(x, y)
		case "<=":
			return py.Le(x, y)
		case ">":
			return py.Gt(x, y)
		case ">=":
			return py.Ge(x, y)
		}
	case "Iter":
		switch form {
		case "next":
			it, err := py.Iter(x)
			if err != nil {
				return nil, err
			}
			out := py.NewList()
			for i := 0; i <= len(rec.X)+3; i++ {
				e, err := py.Next(it)
				if err != nil {
					if !isStop(err) {
						return nil, err
					}
					// exhausted: it must stay exhausted
					if _, err2 := py.Next(it); err2 == nil || !isStop(err2) {
						return nil, py.ExceptionNewf(py.RuntimeError, "verif: iterator yields again after StopIteration")
					}
					return out, nil
				}
				out.Append(e)
			}
			return out, nil
		case "SequenceList":
			return py.SequenceList(x)
		case "SequenceTuple":
			t, err := py.SequenceTuple(x)
			if err != nil {
				return nil, err
			}
			return py.NewListFromItems(t), nil
		case "list()":
			return py.Call(py.ListType, py.Tuple{x}, nil)
		case "tuple()":
			t, err := py.Call(py.TupleType, py.Tuple{x}, nil)
			if err != nil {
				return nil, err
			}
			tt, ok := t.(py.Tuple)
			if !ok {
				return nil, py.ExceptionNewf(py.RuntimeError, "verif: tuple() did not return a tuple")
			}
			return py.NewListFromItems(tt), nil
		case "Iterate":
			out := py.NewList()
			err := py.Iterate(x, func(e py.Object) bool { out.Append(e); return false })
			return out, err
		}
	}
	return nil, fmt.Errorf("verif: unknown operation %s/%s", rec.Op, form)
}

func isStop(err error) bool { return py.IsException(py.StopIteration, err) }

func deriveAPI(rec *Rec, x py.Object) (py.Object, error) {
	switch rec.D {
	case "slice":
		return py.GetItem(x, py.NewSlice(py.Int(*rec.A), py.Int(*rec.B), py.None))
	case "addempty":
		e, err := mkObj(rec.T, nil, nil)
		if err != nil {
			return nil, err
		}
		return py.Add(x, e)
	case "mul1":
		return py.Mul(x, py.Int(1))
	case "tuple":
		return py.Call(py.TupleType, py.Tuple{x}, nil)
	case "list":
		return py.Call(py.ListType, py.Tuple{x}, nil)
	}
	return nil, fmt.Errorf("verif: unknown derivation %s", rec.D)
}

func thenAPI(rec *Rec, y py.Object, extra []int64) (py.Object, error) {
	switch rec.Then {
	case "concat", "iadd":
		e, err := mkObj(rec.Dt, extra, nil)
		if err != nil {
			return nil, err
		}
		if rec.Then == "iadd" {
			return py.IAdd(y, e)
		}
		return py.Add(y, e)
	case "repeat":
		return py.Mul(y, py.Int(2))
	case "slice":
		return py.GetItem(y, py.NewSlice(py.Int(0), py.Int(1), py.None))
	}
	return nil, fmt.Errorf("verif: unknown operation %s", rec.Then)
}

func kindOK(v value, want string) bool {
	return v.Kind == want && (v.Et == "int" || v.Et == "" || want == "str" || want == "bytes" || want == "range")
}

func runDeriveAPI(rec *Rec) *obs {
	o := &obs{excIsA: func(string) bool { return false }}
	x, err := mkObj(rec.T, rec.X, rec.R)
	if err != nil {
		o.Outcome = "exc:scaffold"
		return o
	}
	var y, z, z2 py.Object
	res := pyrun.Guard(apiTimeout, func() error {
		var err error
		if y, err = deriveAPI(rec, x); err != nil {
			return err
		}
		y0 := norm(y)
		o.Y0 = &y0
		if z, err = thenAPI(rec, y, rec.E1); err != nil {
			return err
		}
		z0 := norm(z)
		o.Z0 = &z0
		z2, err = thenAPI(rec, y, rec.E2)
		return err
	})
	o.Outcome = res.Outcome()
	o.Site = res.PanicSite
	o.excIsA = res.IsA
	if o.Outcome != "ok" {
		return o
	}
	xe, ye, ze, z2e := norm(x), norm(y), norm(z), norm(z2)
	o.XE, o.YE, o.ZE, o.Z2 = &xe, &ye, &ze, &z2e
	o.Post = &xe
	o.TypeOK = kindOK(ye, rec.Dt) && kindOK(ze, rec.Dt) && kindOK(z2e, rec.Dt)
	return o
}

func runAPI(rec *Rec, v variant, form string) *obs {
	if rec.Op == "Derive" {
		return runDeriveAPI(rec)
	}
	o := &obs{}
	x, err := mkObj(rec.T, rec.X, rec.R)
	if err != nil {
		o.Outcome = "exc:scaffold"
		o.Note = err.Error()
		o.excIsA = func(string) bool { return false }
		return o
	}
	// a list operand of a mutating operation comes in three storage histories, chosen by the shape of the case: exact
	// room, one spare slot (grown and shortened again), room for twice its items (see render for the source route)
	if l, ok := x.(*py.List); ok && (rec.Op == "SetSlice" || rec.Op == "DelSlice" || rec.Op == "SetItem" || rec.Op == "DelItem" || rec.Op == "Concat" || rec.Op == "Repeat") {
		n := len(l.Items)
		switch (n + len(rec.Y) + len(rec.Post)) % 3 {
		case 1:
			l.Items = append(l.Items, py.Int(0))[:n]
		case 2:
			room := make([]py.Object, n, 2*n+4)
			copy(room, l.Items)
			l.Items = room
		}
	}
	var y py.Object
	if rec.Yt == "self" {
		y = x
	} else if rec.Yt != "" {
		if y, err = mkObj(rec.Yt, rec.Y, rec.Yr); err != nil {
			o.Outcome = "exc:scaffold"
			o.excIsA = func(string) bool { return false }
			return o
		}
	}
	var result py.Object
	res := pyrun.Guard(apiTimeout, func() error {
		var err error
		result, err = doAPI(rec, v, form, x, y)
		return err
	})
	o.Outcome = res.Outcome()
	o.Site = res.PanicSite
	o.excIsA = res.IsA
	if res.TimedOut {
		return o
	}
	if o.Outcome == "ok" && rec.Rk != "none" {
		rv := norm(result)
		o.Res = &rv
		switch rec.Rk {
		case "items":
			o.TypeOK = rv.Kind == "list" && (rv.Et == rec.Et || len(rv.Val) == 0)
		case "list", "tuple":
			o.TypeOK = rv.Kind == rec.Rk && (rv.Et == "int" || len(rv.Val) == 0)
		default:
			o.TypeOK = rv.Kind == rec.Rk
		}
	}
	pv := norm(x)
	o.Post = &pv
	if y != nil {
		yv := norm(y)
		o.Ypost = &yv
	}
	// results never alias a mutable operand: changing either side must not show on the other
	if o.Outcome == "ok" && result != nil && res.Panic == "" {
		func() {
			defer func() {
				if e := recover(); e != nil {
					o.Note = fmt.Sprint("panic during alias probe: ", e)
				}
			}()
			if rl, ok := result.(*py.List); ok && rec.Fresh {
				if xl, ok := x.(*py.List); ok && xl == rl {
					o.Aliased = "result is the operand"
					return
				}
				if yl, ok := y.(*py.List); ok && yl == rl {
					o.Aliased = "result is the right operand"
					return
				}
				if len(rl.Items) > 0 {
					rl.Items[0] = py.Int(-7)
				}
				rl.Append(py.Int(-7))
				if p2 := norm(x); !eqInts(p2.Val, pv.Val) {
					o.Aliased = "changing the result changed the operand"
					return
				}
				if y != nil {
					if y2 := norm(y); !eqInts(y2.Val, o.Ypost.Val) {
						o.Aliased = "changing the result changed the right operand"
						return
					}
				}
			}
			for _, op := range []py.Object{x, y} {
				if ol, ok := op.(*py.List); ok {
					before := norm(result)
					for i := range ol.Items {
						ol.Items[i] = py.Int(-8)
					}
					ol.Append(py.Int(-8))
					if after := norm(result); !eqInts(before.Val, after.Val) {
						o.Aliased = "changing the operand changed the result"
						return
					}
				}
			}
		}()
	}
	return o
}

// ---------------------------------------------------------------------------------------
// source path

func lit(t string, x, r []int64) string {
	switch t {
	case "list", "tuple":
		var p []string
		for _, v := range x {
			p = append(p, strconv.FormatInt(v, 10))
		}
		if t == "list" {
			return "[" + strings.Join(p, ", ") + "]"
		}
		if len(p) == 0 {
			return "()"
		}
		return "(" + strings.Join(p, ", ") + ",)"
	case "str":
		return "'" + runes(x) + "'"
	case "bytes":
		var b strings.Builder
		b.WriteString("b'")
		for _, v := range x {
			fmt.Fprintf(&b, "\\x%02x", v)
		}
		b.WriteString("'")
		return b.String()
	case "range":
		return fmt.Sprintf("range(%d, %d, %d)", r[0], r[1], r[2])
	case "int":
		return strconv.FormatInt(x[0], 10)
	}
	return "?"
}

func ints(expr, t string) string {
	if t == "str" {
		return "[ord(ch) for ch in " + expr + "]"
	}
	return "list(" + expr + ")"
}

func srcForms(rec *Rec) []string {
	if rec.Op == "Iter" {
		return []string{"for", "list()", "tuple()", "next", "comprehension"}
	}
	return []string{""}
}

func sliceSrc(rec *Rec, v variant) string {
	s := compSrc(*rec.A, v, "") + ":" + compSrc(*rec.B, v, "")
	if *rec.St != noneV {
		s += ":" + compSrc(*rec.St, v, "")
	}
	return s
}

type srcCase struct {
	rec  *Rec
	v    variant
	form string
	text string
}

// render writes one case as a Python function; every line it prints starts with the case number
func renderDerive(idx int, rec *Rec) string {
	var b strings.Builder
	w := func(f string, a ...interface{}) { fmt.Fprintf(&b, f, a...) }
	w("def c%d():\n    x = %s\n", idx, lit(rec.T, rec.X, rec.R))
	// A list that was shortened or grown keeps spare room behind its items, one that comes from a display does not; the
	// sequence model knows no such thing, so every mutating list case is run on a list of each history (by case number):
	// fresh from the display / grown by append and shortened again / built longer and cut back.  (Found missing by an
	// independently seeded change: a slice assignment that saved the tail only when the new items end inside len, not
	// cap - wrong only on a list with spare room.)
	if rec.T == "list" && (rec.Op == "SetSlice" || rec.Op == "DelSlice" || rec.Op == "SetItem" || rec.Op == "DelItem" || rec.Op == "Concat" || rec.Op == "Repeat") {
		switch idx % 3 {
		case 1:
			w("    x.append(0)\n    del x[len(x) - 1]\n")
		case 2:
			w("    x = x + [0, 0, 0]\n    del x[len(x) - 3:]\n")
		}
	}
	if rec.Then == "concat" || rec.Then == "iadd" {
		w("    e1 = %s\n    e2 = %s\n", lit(rec.Dt, rec.E1, nil), lit(rec.Dt, rec.E2, nil))
	}
	w("    try:\n")
	switch rec.D {
	case "slice":
		w("        y = x[%d:%d]\n", *rec.A, *rec.B)
	case "addempty":
		w("        y = x + %s\n", lit(rec.T, nil, nil))
	case "mul1":
		w("        y = x * 1\n")
	case "tuple":
		w("        y = tuple(x)\n")
	case "list":
		w("        y = list(x)\n")
	}
	for i, z := range []string{"z", "z2"} {
		e := []string{"e1", "e2"}[i]
		switch rec.Then {
		case "concat":
			w("        %s = y + %s\n", z, e)
		case "iadd":
			w("        %s = y\n        %s += %s\n", z, z, e)
		case "repeat":
			w("        %s = y * 2\n", z)
		case "slice":
			w("        %s = y[0:1]\n", z)
		}
	}
	rd := func(n string) string {
		if rec.Dt == "range" {
			return "[e for e in " + n + "]"
		}
		return ints(n, rec.Dt)
	}
	w("        print(%d, 'ok', isinstance(y, %s) and isinstance(z, %s) and isinstance(z2, %s), [])\n", idx, rec.Dt, rec.Dt, rec.Dt)
	w("        print(%d, 'vals', [%s, %s, %s, %s])\n", idx, ints("x", rec.T), rd("y"), rd("z"), rd("z2"))
	for _, e := range []string{"IndexError", "ValueError", "TypeError", "OverflowError", "AttributeError", "KeyError", "StopIteration", "Exception"} {
		w("    except %s:\n        print(%d, 'exc', '%s')\n", e, idx, e)
	}
	w("c%d()\n", idx)
	return b.String()
}

func render(idx int, rec *Rec, v variant, form string) string {
	if rec.Op == "Derive" {
		return renderDerive(idx, rec)
	}
	var b strings.Builder
	w := func(f string, a ...interface{}) { fmt.Fprintf(&b, f, a...) }
	w("def c%d():\n    x = %s\n", idx, lit(rec.T, rec.X, rec.R))
	if rec.Yt == "self" {
		w("    y = x\n")
	} else if rec.Yt != "" {
		w("    y = %s\n", lit(rec.Yt, rec.Y, rec.Yr))
	}
	w("    r = None\n    try:\n")
	stmt := ""
	switch rec.Op {
	case "GetSlice":
		stmt = "r = x[" + sliceSrc(rec, v) + "]"
	case "GetItem":
		stmt = "r = x[" + compSrc(*rec.I, v, "None") + "]"
	case "Len":
		stmt = "r = len(x)"
	case "SetSlice":
		stmt = "x[" + sliceSrc(rec, v) + "] = y"
	case "DelSlice":
		stmt = "del x[" + sliceSrc(rec, v) + "]"
	case "SetItem":
		stmt = fmt.Sprintf("x[%s] = %d", compSrc(*rec.I, v, "None"), *rec.Item)
	case "DelItem":
		stmt = "del x[" + compSrc(*rec.I, v, "None") + "]"
	case "Concat":
		stmt = "r = x + y"
	case "Repeat":
		if rec.Rev {
			stmt = fmt.Sprintf("r = %d * x", *rec.Cnt)
		} else {
			stmt = fmt.Sprintf("r = x * %d", *rec.Cnt)
		}
	case "Contains":
		stmt = "r = " + lit(rec.Vt, rec.V, nil) + " in x"
	case "Compare":
		stmt = "r = x " + rec.Cmp + " y"
	case "Iter":
		switch form {
		case "for":
			stmt = "r = []\n        for e in x:\n            r.append(e)"
		case "list()":
			stmt = "r = list(x)"
		case "tuple()":
			stmt = "r = list(tuple(x))"
		case "comprehension":
			stmt = "r = [e for e in x]"
		case "next":
			stmt = fmt.Sprintf("it = iter(x)\n        r = []\n        for k in range(%d):\n            r.append(next(it))\n        for k in range(2):\n            try:\n                next(it)\n                r.append('again')\n            except StopIteration:\n                pass", len(rec.X))
		}
	}
	w("        %s\n", stmt)
	switch rec.Rk {
	case "list", "tuple", "bytes":
		w("        print(%d, 'ok', isinstance(r, %s), list(r))\n", idx, rec.Rk)
	case "range":
		// a wrongly computed range may be astronomically long: read it with a bound
		w("        out = []\n        for e in r:\n            out.append(e)\n            if len(out) > 40:\n                break\n")
		w("        print(%d, 'ok', isinstance(r, range), out)\n        print(%d, 'len', len(r) == len(out))\n", idx, idx)
	case "str":
		w("        print(%d, 'ok', isinstance(r, str), [ord(ch) for ch in r])\n", idx)
	case "int":
		w("        print(%d, 'ok', isinstance(r, int), [r])\n", idx)
	case "bool":
		w("        print(%d, 'ok', isinstance(r, bool), [1 if r else 0])\n", idx)
	case "none":
		w("        print(%d, 'ok', True, [])\n", idx)
	case "items":
		if rec.Et == "str" {
			w("        print(%d, 'ok', isinstance(r, list), [ord(ch) for ch in r])\n", idx)
		} else {
			w("        print(%d, 'ok', isinstance(r, list), r)\n", idx)
		}
	}
	if rec.Fresh && (rec.Rk == "list" || rec.Rk == "items") {
		// the result is a new list: changing it must not show through the operands
		w("        r.append(-7)\n")
	}
	for _, e := range []string{"IndexError", "ValueError", "TypeError", "OverflowError", "AttributeError", "KeyError", "StopIteration", "Exception"} {
		w("    except %s:\n        print(%d, 'exc', '%s')\n", e, idx, e)
	}
	w("    print(%d, 'post', %s)\n", idx, ints("x", rec.T))
	if rec.Yt != "" && rec.Yt != "self" {
		w("    print(%d, 'ypost', %s)\n", idx, ints("y", rec.Yt))
	}
	if rec.T == "list" && (rec.Rk == "list" || rec.Rk == "items") {
		// changing the operand must not show through the result
		w("    if r is not None:\n        before = list(r)\n        x.append(-8)\n        print(%d, 'indep', list(r) == before)\n", idx)
	}
	w("c%d()\n", idx)
	return b.String()
}

func parseSrc(idx int, out string) *obs {
	o := &obs{Outcome: "none"}
	prefix := strconv.Itoa(idx) + " "
	var exc string
	for _, ln := range strings.Split(out, "\n") {
		if !strings.HasPrefix(ln, prefix) {
			continue
		}
		f := strings.SplitN(ln[len(prefix):], " ", 2)
		if len(f) < 2 {
			continue
		}
		switch f[0] {
		case "ok":
			g := strings.SplitN(f[1], " ", 2)
			if len(g) == 2 {
				o.Outcome = "ok"
				o.TypeOK = g[0] == "True"
				rv := value{Kind: "printed"}
				if json.Unmarshal([]byte(g[1]), &rv.Val) != nil {
					rv.Bad = "unparsable: " + common.TrimKey(g[1], 60)
				}
				o.Res = &rv
			}
		case "exc":
			exc = f[1]
			o.Outcome = "exc:" + exc
			// an exception after the result was printed (e.g. in the alias probe) keeps the result
		case "vals":
			var vs [][]int64
			if json.Unmarshal([]byte(f[1]), &vs) == nil && len(vs) == 4 {
				mk := func(v []int64) *value {
					if v == nil {
						v = []int64{}
					}
					return &value{Kind: "printed", Val: v}
				}
				o.XE, o.YE, o.ZE, o.Z2 = mk(vs[0]), mk(vs[1]), mk(vs[2]), mk(vs[3])
				o.Post = o.XE
			}
		case "post", "ypost":
			pv := value{Kind: "printed"}
			if json.Unmarshal([]byte(f[1]), &pv.Val) != nil {
				pv.Bad = "unparsable: " + common.TrimKey(f[1], 60)
			}
			if f[0] == "post" {
				o.Post = &pv
			} else {
				o.Ypost = &pv
			}
		case "len":
			if f[1] != "True" && o.Res != nil {
				o.Res.Bad = "len(result) disagrees with its items"
			}
		case "indep":
			if f[1] != "True" {
				o.Aliased = "changing the operand changed the result"
			}
		}
	}
	o.excIsA = func(c string) bool { return c == exc }
	return o
}

const unitTimeout = 60 * time.Second

// runUnit compiles and runs a batch of cases in one fresh context. ok=false: the unit as a whole
// failed (compile error, uncaught exception, panic, timeout) and has to be split.
func runUnit(cases []srcCase, base int) (outs []*obs, ok bool, res *pyrun.Result) {
	var b strings.Builder
	for i := range cases {
		b.WriteString(cases[i].text)
	}
	c := pyrun.New()
	res = c.Exec(b.String(), unitTimeout)
	if !res.TimedOut {
		c.Close()
	}
	if res.Outcome() != "ok" {
		return nil, false, res
	}
	for i := range cases {
		outs = append(outs, parseSrc(base+i, res.Stdout))
	}
	return outs, true, res
}

// ---------------------------------------------------------------------------------------

type counters struct {
	mu       sync.Mutex
	byOp     map[string]int64
	byOut    map[string]int64
	distinct map[uint64]bool
	nontriv  int64
	apiRuns  int64
	srcRuns  int64
	srcUnits int64
	timeouts int64
}

func hashOf(b []byte, seed int64) uint64 {
	h := fnv.New64a()
	h.Write(b)
	var s [8]byte
	for i := 0; i < 8; i++ {
		s[i] = byte(seed >> (8 * i))
	}
	h.Write(s[:])
	return h.Sum64()
}

func main() {
	env := common.Setup()
	rep := common.NewReport(env, "model_checking")
	rep.Rule = "a case is one record printed by TLC from spec/C13/PySeqGen.tla: (operation, sequence kind and contents, operands) with the outcome, value and operand contents spec/lib/PySeq.tla prescribes; distinct by record text; counted as non-trivial when the sequence is not empty"
	rep.Assumptions = []string{
		"TLC and the CommunityModules Json module are correct",
		"reading an object back (Go type switch over py.List/Tuple/String/Bytes/Bool/Int, py.Iterate over a range; in source: list(), ord(), isinstance(), print of int lists) is itself right - the vetted scaffolding core",
		"BIGPOS/BIGNEG of the specification stand for every integer beyond any length; they are instantiated with 2**63-1 / -2**63 (machine word), 2**63+5 / -2**63-5 and 2**64+3 / -2**64-3 (arbitrary precision)",
	}
	quick := !env.Thorough()
	cfgSuffix := "quick"
	if !quick {
		cfgSuffix = "thorough"
	}
	if env.Replay != "" {
		replay(env)
		return
	}

	// 1. design check: algorithmic = declarative
	mc := env.MustTLC(common.TLCRun{Dir: "C13", Module: "PySeqMC", Config: "mc_" + cfgSuffix + ".cfg", Timeout: 40 * time.Minute})
	if len(mc.Violations) > 0 || !mc.Finished {
		common.Inconclusive("property=C13 the design check of spec/lib/PySeq.tla did not pass (spec/C13/PySeqMC, mc_%s.cfg): %v\n%s", cfgSuffix, mc.Violations, mc.Stdout)
	}
	rep.AddTLC(mc)
	rep.Extra["design_check"] = map[string]interface{}{"states": mc.Distinct, "invariants": "PosAgree PosInRange PosMaximal GetAgree SimpleIsSubSeq DelAgree SetAgree SelfAssign RangeAgree OrderLaws", "wall_s": mc.Wall.Seconds()}
	fmt.Printf("phase design check done at %.1fs (%d states)\n", time.Since(env.Start).Seconds(), mc.Distinct)

	// 2+3. generation, streamed into the executors
	cnt := &counters{byOp: map[string]int64{}, byOut: map[string]int64{}, distinct: map[uint64]bool{}}
	type job struct {
		rec *Rec
		raw []byte
	}
	jobs := make(chan job, 4096)
	srcQ := make(chan srcCase, 4096)
	var wgAPI, wgSrc sync.WaitGroup
	// share of slice cases that also run as source (all other cases always do)
	srcShare := uint64(env.Pick(24, 48))
	nAPI := 4
	nSrc := 4
	if env.Workers < 8 {
		nAPI, nSrc = 3, 3
	}
	report := func(rec *Rec, v variant, form, path string, o *obs) {
		div := verdict(rec, o)
		if div == "" {
			return
		}
		if div == "timeout" {
			atomic.AddInt64(&cnt.timeouts, 1)
		}
		rep.Violation(findingKey(rec, v, form, div), map[string]interface{}{"record": rec, "variant": v, "form": form, "path": path, "observed": o,
			"source": render(0, rec, v, srcFormFor(rec, form))})
	}
	for w := 0; w < nAPI; w++ {
		wgAPI.Add(1)
		go func() {
			defer wgAPI.Done()
			for j := range jobs {
				rec := j.rec
				for _, v := range rec.variants() {
					for _, form := range apiForms(rec) {
						o := runAPI(rec, v, form)
						if verdict(rec, o) != "" {
							// re-run once in fresh objects before reporting
							o = runAPI(rec, v, form)
						}
						atomic.AddInt64(&cnt.apiRuns, 1)
						report(rec, v, form, "api", o)
					}
				}
				isSlice := rec.Op == "GetSlice" || rec.Op == "SetSlice" || rec.Op == "DelSlice"
				if !isSlice || hashOf(j.raw, env.Seed)%srcShare == 0 {
					for _, v := range rec.variants() {
						for _, form := range srcForms(rec) {
							srcQ <- srcCase{rec: rec, v: v, form: form}
						}
					}
				}
			}
		}()
	}
	const unitSize = 40
	for w := 0; w < nSrc; w++ {
		wgSrc.Add(1)
		go func() {
			defer wgSrc.Done()
			var batch []srcCase
			flush := func() {
				if len(batch) == 0 {
					return
				}
				for i := range batch {
					batch[i].text = render(i, batch[i].rec, batch[i].v, batch[i].form)
				}
				outs, ok, _ := runUnit(batch, 0)
				atomic.AddInt64(&cnt.srcUnits, 1)
				if ok {
					for i, o := range outs {
						if verdict(batch[i].rec, o) != "" {
							ok = false // re-run the doubtful ones alone, in a fresh context
							break
						}
					}
					if ok {
						atomic.AddInt64(&cnt.srcRuns, int64(len(batch)))
						batch = batch[:0]
						return
					}
				}
				// the unit failed as a whole or holds a candidate: run every case alone
				for i := range batch {
					c := batch[i]
					if ok2 := outs != nil && verdict(c.rec, outs[i]) == ""; ok2 {
						atomic.AddInt64(&cnt.srcRuns, 1)
						continue
					}
					c.text = render(0, c.rec, c.v, c.form)
					o1, ok1, res := runUnit([]srcCase{c}, 0)
					atomic.AddInt64(&cnt.srcRuns, 1)
					var o *obs
					if ok1 {
						o = o1[0]
					} else {
						o = &obs{Outcome: res.Outcome(), Site: res.PanicSite, excIsA: res.IsA, Note: "the compiled unit did not run to its end: " + res.Exc + " " + res.Msg}
						if res.Outcome() != "panic" && res.Outcome() != "timeout" {
							// an exception class the case's handlers do not name, or a compile error
							o.Outcome = "exc:" + res.Exc
							if res.CompileErr {
								o.Outcome = "exc:compile-" + res.Exc
							}
						}
					}
					report(c.rec, c.v, c.form, "source", o)
				}
				batch = batch[:0]
			}
			for c := range srcQ {
				batch = append(batch, c)
				if len(batch) >= unitSize {
					flush()
				}
			}
			flush()
		}()
	}

	gen := env.MustTLC(common.TLCRun{Dir: "C13", Module: "PySeqGen", Config: "gen_" + cfgSuffix + ".cfg", Timeout: 40 * time.Minute,
		OnLine: func(b []byte) {
			rec := &Rec{}
			if err := json.Unmarshal(b, rec); err != nil {
				common.Inconclusive("property=C13 bad record from TLC: %v: %s", err, common.TrimKey(string(b), 200))
			}
			raw := append([]byte(nil), b...)
			h := hashOf(raw, 0)
			cnt.mu.Lock()
			if !cnt.distinct[h] {
				cnt.distinct[h] = true
				if len(rec.X) > 0 {
					cnt.nontriv++
				}
				cnt.byOp[rec.Op]++
				cnt.byOut[rec.Op+"/"+rec.Out]++
				if len(cnt.distinct)%20011 == 1 {
					rep.Sample(rec)
				}
				cnt.mu.Unlock()
				jobs <- job{rec, raw}
			} else {
				cnt.mu.Unlock()
			}
		}})
	close(jobs)
	if len(gen.Violations) > 0 || !gen.Finished {
		common.Inconclusive("property=C13 case generation did not finish: %v\n%s", gen.Violations, gen.Stdout)
	}
	rep.AddTLC(gen)
	fmt.Printf("phase generation done at %.1fs (%d records)\n", time.Since(env.Start).Seconds(), len(cnt.distinct))
	wgAPI.Wait()
	close(srcQ)
	fmt.Printf("phase api done at %.1fs (%d executions)\n", time.Since(env.Start).Seconds(), cnt.apiRuns)
	wgSrc.Wait()
	fmt.Printf("phase source done at %.1fs (%d executions in %d compiled units)\n", time.Since(env.Start).Seconds(), cnt.srcRuns, cnt.srcUnits)

	if len(cnt.distinct) == 0 {
		common.Inconclusive("property=C13 TLC printed no case")
	}
	// vacuity: every operation must have occurred with every outcome class the specification has for it
	need := []string{"GetSlice/ok", "GetSlice/ValueError", "GetSlice/TypeError", "GetItem/ok", "GetItem/IndexError", "GetItem/TypeError",
		"SetSlice/ok", "SetSlice/ValueError", "SetSlice/TypeError", "DelSlice/ok", "DelSlice/ValueError", "DelSlice/TypeError",
		"SetItem/ok", "SetItem/IndexError", "SetItem/TypeError", "DelItem/ok", "DelItem/IndexError", "DelItem/TypeError",
		"Concat/ok", "Concat/TypeError", "Repeat/ok", "Repeat/TypeError", "Contains/ok", "Contains/TypeError",
		"Compare/ok", "Compare/TypeError", "Len/ok", "Iter/ok", "Derive/ok"}
	for _, n := range need {
		if cnt.byOut[n] == 0 {
			common.Vacuous("property=C13 vacuous run: no case of class %s was generated", n)
		}
	}
	rep.Evaluations = cnt.apiRuns + cnt.srcRuns
	rep.Distinct = cnt.nontriv
	rep.Traces = int64(len(cnt.distinct))
	rep.Exhaustive = true
	rep.Extra["cases_by_operation"] = cnt.byOp
	rep.Extra["cases_by_operation_and_outcome"] = cnt.byOut
	rep.Extra["cases_total"] = len(cnt.distinct)
	rep.Extra["executions_go_api"] = cnt.apiRuns
	rep.Extra["executions_compiled_source"] = cnt.srcRuns
	rep.Extra["compiled_units"] = cnt.srcUnits
	rep.Extra["source_share_of_slice_cases"] = fmt.Sprintf("1/%d (seeded), every other case always", srcShare)
	rep.Extra["watchdog_timeouts"] = cnt.timeouts
	rep.Extra["bounds"] = map[string]interface{}{"config": "gen_" + cfgSuffix + ".cfg"}
	rep.Finish()
}

func srcFormFor(rec *Rec, form string) string {
	if rec.Op != "Iter" {
		return ""
	}
	for _, f := range srcForms(rec) {
		if f == form {
			return f
		}
	}
	return "for"
}

// replay re-runs the case of a replay file on both paths and prints what happens.
func replay(env *common.Env) {
	b, err := os.ReadFile(env.Replay)
	if err != nil {
		common.Inconclusive("property=C13 replay: %v", err)
	}
	var f struct {
		Key  string `json:"key"`
		Case struct {
			Record  *Rec    `json:"record"`
			Variant variant `json:"variant"`
			Form    string  `json:"form"`
			Path    string  `json:"path"`
		} `json:"case"`
	}
	if err := json.Unmarshal(b, &f); err != nil || f.Case.Record == nil {
		common.Inconclusive("property=C13 replay: cannot read %s: %v", env.Replay, err)
	}
	rec := f.Case.Record
	bad := false
	show := func(path, form string, o *obs) {
		d := verdict(rec, o)
		js, _ := json.Marshal(o)
		fmt.Printf("replay path=%s form=%q verdict=%q observed=%s\n", path, form, d, js)
		if d != "" {
			bad = true
		}
	}
	for _, form := range apiForms(rec) {
		show("api", form, runAPI(rec, f.Case.Variant, form))
	}
	for _, form := range srcForms(rec) {
		c := srcCase{rec: rec, v: f.Case.Variant, form: form}
		c.text = render(0, rec, c.v, form)
		fmt.Print(c.text)
		outs, ok, res := runUnit([]srcCase{c}, 0)
		if ok {
			show("source", form, outs[0])
		} else {
			fmt.Printf("replay path=source form=%q unit failed: %s %s %s\n", form, res.Outcome(), res.Msg, res.Panic)
			bad = true
		}
	}
	exp, _ := json.Marshal(rec)
	fmt.Printf("expected (TLC): %s\n", exp)
	if bad {
		fmt.Printf("VIOLATION property=C13 replay=%s key=%s\n", env.Replay, f.Key)
		os.Exit(1)
	}
	os.Exit(0)
}

var _ = sort.Strings
