SPECIFICATION Spec
CONSTANTS
  Mods = {"ma", "mb"}
  Family = "raise"
INVARIANTS TypeOK RunOnce NoReentry OneObject Provenance StarRespectsUnderscore Terminates Usable Emit
CHECK_DEADLOCK FALSE
