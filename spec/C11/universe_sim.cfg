SPECIFICATION Spec
CONSTANTS NestDepth = 0
          MaxLen = 8
          MaxFill = 4
          CoreFill = 0
          SimLens = {3, 4, 5, 6, 7, 8}
          SimFill = {2, 3, 4}
INVARIANT Emit
CHECK_DEADLOCK FALSE
