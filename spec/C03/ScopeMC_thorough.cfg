SPECIFICATION Spec
CONSTANT Names = {"x"}
CONSTANT Shapes <- ShapesAll
INVARIANT Ok
CHECK_DEADLOCK FALSE
