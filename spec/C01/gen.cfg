\* the harness writes its own copy with the tier and seed of the run
CONSTANTS
  Tier = "quick"
  Seed = 1
  Fams = {"prim", "pair", "triple", "unmix", "truth", "d2", "form", "stmt"}
INIT Init
NEXT Next
INVARIANT MetaOK
CHECK_DEADLOCK FALSE
