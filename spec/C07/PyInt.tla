-------------------------------- MODULE PyInt --------------------------------
(* Python 3.4 integer semantics (property C07) on top of BigNum.                              *)
(*                                                                                            *)
(* Expected(C) maps one recorded operation C = [op, a, ra, b, rb, c, rc, base, txt, ...] to   *)
(* the outcome Python defines: an exact integer, a pair (divmod), a truth value, "a float"    *)
(* (class only: the value of int ** negative int and of true division is C15's business),     *)
(* a text, or an exception class.  Where Python 3.4 does not pin the behaviour the outcome    *)
(* lists the additional exception classes that are acceptable (field exc of a non-exception   *)
(* outcome), e.g. shift counts that do not fit a machine word.                                *)
(*                                                                                            *)
(* Representation rule.  gpython holds an int either as a machine word (py.Int, int64) or as  *)
(* an arbitrary-precision value (py.BigInt pointer).  The value of a result must not depend on the   *)
(* representation of the operands, and the result is in canonical form: a value that fits a   *)
(* word IS a word (CanonRep).  Operands may arrive in non-canonical form ("bigsmall": a       *)
(* BigInt holding a word-sized value, as produced by the Go API).                             *)
EXTENDS BigNum, TLC

W63N == ShlN(One, 63)
WordMax == Z(1, SubN(W63N, One))                 \*  2^63 - 1
WordMin == Z(-1, W63N)                           \* -2^63
FitsWord(x) == BitLen(x.m) <= 63 \/ (x.s = -1 /\ x.m = W63N)
CanonRep(x) == IF FitsWord(x) THEN "w" ELSE "B"

(* ------------------------------ outcomes ------------------------------ *)
Outcome(k, v, v2, t, txt, exc, ename) == [k |-> k, v |-> v, v2 |-> v2, t |-> t, txt |-> txt, exc |-> exc, ename |-> ename]
OInt(v) == Outcome("int", v, ZZero, 0, <<>>, {}, "")
OIntOr(v, S) == Outcome("int", v, ZZero, 0, <<>>, S, "")          \* the value, or one of the exception classes S
OPair(q, r) == Outcome("pair", q, r, 0, <<>>, {}, "")
OBool(t) == Outcome("bool", ZZero, ZZero, IF t THEN 1 ELSE 0, <<>>, {}, "")
OFloat == Outcome("float", ZZero, ZZero, 0, <<>>, {}, "")
OText(txt) == Outcome("text", ZZero, ZZero, 0, txt, {}, "")
ORaise(name, S) == Outcome("exc", ZZero, ZZero, 0, <<>>, S, name)  \* must raise a class in S (or a subclass)
OOD == Outcome("ood", ZZero, ZZero, 0, <<>>, {}, "")               \* outside the domain this module evaluates: harness error

ZDE == ORaise("ZeroDivisionError", {"ZeroDivisionError"})

(* ------------------------------ operators ------------------------------ *)
MaxLeftShift == 4096
MaxPowBits == 2048

ShiftOut(isLeft, a, b) ==
  IF b.s = -1 THEN ORaise("ValueError", IF FitsWord(b) THEN {"ValueError"} ELSE {"ValueError", "OverflowError"})
  ELSE IF ~isLeft THEN
         IF IsSmallN(b.m) THEN OInt(ZShr(a, IntOfNat(b.m)))
         ELSE OIntOr(IF a.s = 1 THEN ZZero ELSE Z(-1, One), IF FitsWord(b) THEN {} ELSE {"OverflowError"})
  ELSE IF IsSmallN(b.m) /\ IntOfNat(b.m) <= MaxLeftShift THEN OInt(ZShl(a, IntOfNat(b.m)))
  ELSE IF ZIsZero(a) THEN OIntOr(ZZero, {"OverflowError"})
  ELSE OOD

\* a ** b
PowOut(a, b) ==
  IF b.s = -1 THEN (IF ZIsZero(a) THEN ZDE ELSE OFloat)
  ELSE IF ZIsZero(b) THEN OInt(ZOne)
  ELSE IF ZIsZero(a) THEN OInt(ZZero)
  ELSE IF a.m = One THEN OInt(IF a.s = -1 /\ IsOddN(b.m) THEN Z(-1, One) ELSE ZOne)
  ELSE IF IsSmallN(b.m) /\ IntOfNat(b.m) <= MaxPowBits /\ IntOfNat(b.m) * BitLen(a.m) <= MaxPowBits
       THEN OInt(ZPow(a, IntOfNat(b.m)))
  ELSE OOD

\* pow(a, b, c): (a ** b) % c with the sign of c; a negative exponent must raise (TypeError in 3.4's
\* long_pow, ValueError in later 3.x: both accepted, DESIGN.md section 10); c = 0 raises ValueError
PowModOut(a, b, c) ==
  IF b.s = -1 THEN ORaise("TypeError", {"TypeError", "ValueError"})
  ELSE IF ZIsZero(c) THEN ORaise("ValueError", {"ValueError"})
  ELSE LET a0 == ZDivMod(a, ZAbs(c))[2].m                  \* a mod |c|, a natural
           r == PowModN(a0, b.m, c.m)
       IN OInt(IF c.s = -1 /\ r # <<>> THEN Z(-1, SubN(c.m, r)) ELSE Z(1, r))

CmpOut(op, a, b) ==
  LET c == ZCmp(a, b) IN
  OBool(CASE op = "lt" -> c < 0 [] op = "le" -> c <= 0 [] op = "eq" -> c = 0
          [] op = "ne" -> c # 0 [] op = "gt" -> c > 0 [] op = "ge" -> c >= 0)

(* ------------------------------ text ------------------------------ *)
DigitChar(d) == IF d < 10 THEN 48 + d ELSE 87 + d                       \* 0-9 a-z
DigitVal(ch) == IF ch \in 48..57 THEN ch - 48 ELSE IF ch \in 97..122 THEN ch - 87 ELSE IF ch \in 65..90 THEN ch - 55 ELSE 99
\* sign, prefix (code sequence), digits in the base
TextOf(x, base, prefix) == LET ds == ToDigits(x.m, base) IN
  (IF x.s = -1 THEN <<45>> ELSE <<>>) \o prefix \o [i \in 1..Len(ds) |-> DigitChar(ds[i])]
IsSpaceChar(ch) == ch \in {32, 9, 10, 11, 12, 13}
StripWs(t) == LET first == FoldLeft(LAMBDA acc, i : IF acc = 0 /\ ~IsSpaceChar(t[i]) THEN i ELSE acc, 0, Idx(Len(t)))
                  last == FoldLeft(LAMBDA acc, i : IF ~IsSpaceChar(t[i]) THEN i ELSE acc, 0, Idx(Len(t)))
              IN IF first = 0 THEN <<>> ELSE SubSeq(t, first, last)
\* int(text, base) of Python 3.4 (PyLong_FromString): surrounding white space, one optional sign, an optional
\* base prefix when it agrees with the base (or base = 0, which also forbids a non-zero decimal with leading
\* zeros), at least one digit, every digit below the base, no underscores.  base in {0} \cup 2..36
ParseInt(t, base) ==
  LET s0 == StripWs(t)
      neg == s0 # <<>> /\ s0[1] = 45
      s1 == IF s0 # <<>> /\ s0[1] \in {43, 45} THEN Tail(s0) ELSE s0
      hasPfx(l1, l2) == Len(s1) >= 2 /\ s1[1] = 48 /\ s1[2] \in {l1, l2}
      eff == IF base # 0 THEN base
             ELSE IF hasPfx(120, 88) THEN 16 ELSE IF hasPfx(111, 79) THEN 8 ELSE IF hasPfx(98, 66) THEN 2 ELSE 10
      skip == \/ base \in {0, 16} /\ hasPfx(120, 88)
              \/ base \in {0, 8} /\ hasPfx(111, 79)
              \/ base \in {0, 2} /\ hasPfx(98, 66)
      s2 == IF skip THEN SubSeq(s1, 3, Len(s1)) ELSE s1
      ds == [i \in 1..Len(s2) |-> DigitVal(s2[i])]
      ok == /\ s2 # <<>>
            /\ \A i \in 1..Len(s2) : ds[i] < eff
            /\ (base = 0 /\ ~skip /\ Len(s2) > 1 /\ s2[1] = 48) => \A i \in 1..Len(s2) : ds[i] = 0
  IN IF ok THEN OInt(Z(IF neg THEN -1 ELSE 1, FromDigits(ds, eff))) ELSE ORaise("ValueError", {"ValueError"})
ParseValid(t, base) == ParseInt(t, base).k = "int"

(* ------------------------------ the operation table ------------------------------ *)
UnaryOps == {"neg", "pos", "abs", "invert", "int", "round", "index", "truth", "not", "boolcall", "str", "repr", "hex", "oct", "bin", "hashself"}
BinaryOps == {"add", "sub", "mul", "floordiv", "mod", "divmod", "truediv", "lshift", "rshift", "and", "or", "xor", "pow",
              "lt", "le", "eq", "ne", "gt", "ge", "hasheq"}
TernaryOps == {"pow3"}
TextOps == {"parse", "lit"}
\* in-place forms (py.IAdd ... / augmented assignment; C.form = "i") have the semantics of the plain operator C.op

Expected(C) ==
  LET a == C.a b == C.b c == C.c op == C.op IN
  CASE op = "neg" -> OInt(ZNeg(a))
    [] op = "pos" -> OInt(a)
    [] op = "abs" -> OInt(ZAbs(a))
    [] op = "invert" -> OInt(ZInv(a))
    [] op \in {"int", "round", "index"} -> OInt(a)          \* int(a), round(a), a.__index__()
    [] op \in {"truth", "boolcall"} -> OBool(~ZIsZero(a))   \* `if a`, bool(a)
    [] op = "not" -> OBool(ZIsZero(a))
    [] op \in {"str", "repr"} -> OText(TextOf(a, 10, <<>>))
    [] op = "hex" -> OText(TextOf(a, 16, <<48, 120>>))
    [] op = "oct" -> OText(TextOf(a, 8, <<48, 111>>))
    [] op = "bin" -> OText(TextOf(a, 2, <<48, 98>>))
    [] op = "hashself" -> OBool(TRUE)                        \* hash(a) == hash(a recomputed in the other representation)
    [] op = "hasheq" -> IF a = b THEN OBool(TRUE) ELSE OOD   \* equal values hash equal
    [] op = "add" -> OInt(ZAdd(a, b))
    [] op = "sub" -> OInt(ZSub(a, b))
    [] op = "mul" -> OInt(ZMul(a, b))
    [] op = "floordiv" -> IF ZIsZero(b) THEN ZDE ELSE OInt(ZDivMod(a, b)[1])
    [] op = "mod" -> IF ZIsZero(b) THEN ZDE ELSE OInt(ZDivMod(a, b)[2])
    [] op = "divmod" -> IF ZIsZero(b) THEN ZDE ELSE LET qr == ZDivMod(a, b) IN OPair(qr[1], qr[2])
    [] op = "truediv" -> IF ZIsZero(b) THEN ZDE ELSE OFloat
    [] op = "lshift" -> ShiftOut(TRUE, a, b)
    [] op = "rshift" -> ShiftOut(FALSE, a, b)
    [] op = "and" -> OInt(ZAnd(a, b))
    [] op = "or" -> OInt(ZOr(a, b))
    [] op = "xor" -> OInt(ZXor(a, b))
    [] op = "pow" -> PowOut(a, b)
    [] op = "pow3" -> PowModOut(a, b, c)
    [] op \in {"lt", "le", "eq", "ne", "gt", "ge"} -> CmpOut(op, a, b)
    [] op = "parse" -> ParseInt(C.txt, C.base)               \* int(text, base)
    [] op = "lit" -> ParseInt(C.txt, 0)                      \* an integer literal in source text (optionally negated)
    [] OTHER -> OOD

(* ------------------------------ acceptance of an observation ------------------------------ *)
\* observation o = [k, v, rv, v2, rv2, t, txt, bases]: k in int|pair|bool|float|text|exc|panic|timeout;
\* rv, rv2 in "w" | "B" | "?" (not observed: results read from program output);
\* bases = the raised class and its base classes, most derived first
RepOk(rv, v) == rv = "?" \/ rv = CanonRep(v)
SetOfSeq(s) == {s[i] : i \in 1..Len(s)}
Match(e, o) ==
  IF o.k = "exc" THEN SetOfSeq(o.bases) \cap e.exc # {}
  ELSE /\ e.k = o.k
       /\ CASE e.k = "int" -> e.v = o.v /\ RepOk(o.rv, o.v)
            [] e.k = "pair" -> e.v = o.v /\ e.v2 = o.v2 /\ RepOk(o.rv, o.v) /\ RepOk(o.rv2, o.v2)
            [] e.k = "bool" -> e.t = o.t
            [] e.k = "float" -> TRUE
            [] e.k = "text" -> e.txt = o.txt
            [] OTHER -> FALSE

(* ------------------------------ the case partition used for finding keys ------------------------------ *)
(* A finding key is  C07|<operator>|<case class>|<kind of divergence>.  The case class follows the case      *)
(* structure of Expected: the disjunct that computed the expectation (for pow, pow3 and the shifts), the     *)
(* signs of the operands where the operator's definition branches on them, a summary of the operand          *)
(* representations and the representation the result must have.  When only the representation of the        *)
(* result is wrong (kind "rep") the signs are left out.                                                      *)
SignChar(x) == IF ZIsZero(x) THEN "0" ELSE IF x.s = 1 THEN "+" ELSE "-"
\* "word" | "big" | "bigsmall" (a BigInt holding a word-sized value, non-canonical); operands written in source
\* text ("s") are classified by the representation the literal must get
RepName(x, r) == IF r = "w" THEN "word" ELSE IF r = "B" THEN (IF FitsWord(x) THEN "bigsmall" ELSE "big")
                 ELSE IF FitsWord(x) THEN "word" ELSE "big"
Arity(op) == IF op \in UnaryOps THEN 1 ELSE IF op \in TernaryOps THEN 3 ELSE IF op \in TextOps THEN 0 ELSE 2
RepSummary(C) ==
  LET n == Arity(C.op)
      names == {RepName(C.a, C.ra)} \cup (IF n >= 2 THEN {RepName(C.b, C.rb)} ELSE {}) \cup (IF n >= 3 THEN {RepName(C.c, C.rc)} ELSE {})
  IN IF n = 0 THEN "text" ELSE IF "bigsmall" \in names THEN "noncanonical" ELSE IF "big" \in names THEN "big" ELSE "word"
BranchName(C) ==
  LET a == C.a b == C.b c == C.c op == C.op IN
  CASE op = "pow3" -> IF b.s = -1 THEN "exponent<0" ELSE IF ZIsZero(c) THEN "modulus=0" ELSE IF c.s = -1 THEN "modulus<0" ELSE "modulus>0"
    [] op = "pow" -> IF b.s = -1 THEN (IF ZIsZero(a) THEN "zero**negative" ELSE "exponent<0")
                     ELSE IF ZIsZero(b) THEN "exponent=0" ELSE IF ZIsZero(a) THEN "base=0" ELSE IF a.m = One THEN "|base|=1" ELSE "a" \o SignChar(a)
    [] op \in {"lshift", "rshift"} ->
         "a" \o SignChar(a) \o "," \o (IF b.s = -1 THEN (IF FitsWord(b) THEN "count<0" ELSE "count<0,beyond-word")
                                        ELSE IF IsSmallN(b.m) THEN "count<2^30" ELSE IF FitsWord(b) THEN "count>=2^30" ELSE "count>=2^63")
    [] op \in TextOps -> "base=" \o ToString(C.base) \o ",valid=" \o (IF ParseValid(C.txt, IF op = "lit" THEN 0 ELSE C.base) THEN "1" ELSE "0")
                         \o (LET s0 == StripWs(C.txt) s1 == IF s0 # <<>> /\ s0[1] \in {43, 45} THEN Tail(s0) ELSE s0 IN   \* the base-0 rule about leading zeros
                             IF C.base = 0 /\ Len(s1) > 1 /\ s1[1] = 48 /\ s1[2] \in 48..57 THEN ",leading-zero" ELSE "")
    [] op \in UnaryOps -> "a" \o SignChar(a)
    [] OTHER -> "a" \o SignChar(a) \o ",b" \o SignChar(b)
ResultRepName(e) ==
  LET nm(x) == IF FitsWord(x) THEN "word" ELSE "big" IN
  IF e.k = "int" THEN ",r=" \o nm(e.v) ELSE IF e.k = "pair" THEN ",r=" \o nm(e.v) \o "/" \o nm(e.v2) ELSE ""
CaseClass(C, e, withBranch) ==
  (IF withBranch THEN BranchName(C) \o "," ELSE "") \o "reps=" \o RepSummary(C)
  \o (IF withBranch /\ C.op \in {"pow", "pow3"} THEN "" ELSE ResultRepName(e))
DivergenceKind(e, o) ==
  IF o.k \in {"panic", "timeout"} THEN "observed=" \o o.k
  ELSE IF o.k = "exc" THEN (IF e.k = "exc" THEN "expected=exc:" \o e.ename \o ",observed=exc:" \o o.bases[1]
                            ELSE "observed=exc:" \o o.bases[1])
  ELSE IF e.k = "exc" THEN "expected=exc:" \o e.ename \o ",observed=" \o o.k
  ELSE IF e.k # o.k THEN "expected=" \o e.k \o ",observed=" \o o.k
  ELSE IF e.k = "int" /\ e.v = o.v THEN "rep"
  ELSE IF e.k = "pair" /\ e.v = o.v /\ e.v2 = o.v2 THEN "rep"
  ELSE "value"
(* ------------------------------ operands are immutable ------------------------------ *)
(* No action of this specification has an effect on its operands: an int object denotes the same value, in the same    *)
(* representation, after every operator, in-place operator (which rebinds the name, the old object stays) and           *)
(* conversion.  A line carries what the operand objects hold after the operation (aa, ab, ac with representations       *)
(* raa, rab, rac; "?" = read from program output, value only) and, where observed, their representation before it       *)
(* (ra0 ...; otherwise the representation the harness forced: ra ...).                                                  *)
SameRep(forced, before, after) == after = "?" \/ after = (IF forced \in {"w", "B"} THEN forced ELSE IF before \in {"w", "B"} THEN before ELSE after)
OperandsPreserved(C) ==
  LET n == Arity(C.op) IN
  /\ n >= 1 => (C.aa = C.a /\ SameRep(C.ra, C.ra0, C.raa))
  /\ n >= 2 => (C.ab = C.b /\ SameRep(C.rb, C.rb0, C.rab))
  /\ n >= 3 => (C.ac = C.c /\ SameRep(C.rc, C.rc0, C.rac))
MutationKey(C, e) ==
  LET n == Arity(C.op)
      which == (IF n >= 1 /\ ~(C.aa = C.a /\ SameRep(C.ra, C.ra0, C.raa)) THEN "a" ELSE "")
               \o (IF n >= 2 /\ ~(C.ab = C.b /\ SameRep(C.rb, C.rb0, C.rab)) THEN "b" ELSE "")
               \o (IF n >= 3 /\ ~(C.ac = C.c /\ SameRep(C.rc, C.rc0, C.rac)) THEN "c" ELSE "")
  IN "C07|" \o C.form \o C.op \o "|" \o CaseClass(C, e, TRUE) \o "|operand-mutated:" \o which
FindingKey(C, e) ==
  LET kind == DivergenceKind(e, C.o) IN
  "C07|" \o C.form \o C.op \o "|" \o CaseClass(C, e, kind # "rep") \o "|" \o kind
=============================================================================
