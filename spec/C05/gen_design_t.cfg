\* design check on the small-step specification (one TLC run):
\*  - yield from is transparent: each delegating template side by side with its in-place form, 6 calls each in lock-step
\*  - every template alone: every history of 6 next/send('a')/send('b') calls, all invariants on every small step
SPECIFICATION SpecDesign
CONSTANTS
  NTop = 2
  MaxOps = 12
  MaxOpsOne = 6
  NB = 14
  MaxMicro = 80
  Bodies <- BWithInline
  SendVals <- SendThorough
  TopChoices <- DesignTops
  LockChoices <- LockTops
INVARIANTS TypeOK Transparent DoneAbsorbing DoneStatus SendCreated LazyCreation Quiescent SuspendedAtYield
CHECK_DEADLOCK FALSE
