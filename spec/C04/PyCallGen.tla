------------------------------ MODULE PyCallGen ------------------------------
(* Behaviour generation for C04 (binding G): for every unit the harness asks for -- a signature *)
(* index and a list of call-shape indexes into PyCall's SigSeq / CallSeq -- print the signature *)
(* and, per call, the result the DECLARATIVE binder demands: the value every parameter must     *)
(* receive, the contents of *va and **kw, or TypeError (with the kinds of error, which are      *)
(* reported but never compared).  The call shapes themselves are printed once.                  *)
EXTENDS PyCall
Units == ndJsonDeserialize("units.ndjson")      \* [id, si, form ("func" | "method"), cis]
VARIABLES u, v

ASSUME PrintT(ToJson([calls |-> [i \in 1..Len(CallSeq) |->
          [n |-> CallSeq[i].n, kws |-> SetToSeq(CallSeq[i].kws), star |-> CallSeq[i].star,
           hasss |-> CallSeq[i].hasss, ss |-> SetToSeq(CallSeq[i].ss)]]]))

\* A function found on a class and called through an instance, o.f(args), is called as
\* f(o, args): the receiver takes the first positional slot ("self", a name no keyword of the
\* space uses) and the remaining parameters bind exactly as for the plain function.
Receiver(form) == IF form = "method" THEN "inst" ELSE ""
\* the spec's case partition, used for finding keys: shape of the keyword-only parameters and
\* whether the call leaves one of them to the keyword-defaults table
KwoClass(s) == IF Len(s.kwo) = 0 THEN "none"
               ELSE IF Len(s.kwo) = 1 THEN (IF s.kwo[1].d THEN "k1=d" ELSE "k1")
               ELSE (IF s.kwo[1].d THEN "k1=d" ELSE "k1") \o "," \o (IF s.kwo[2].d THEN "k2=d" ELSE "k2")
KwDefaultsConsulted(s, c) == \E i \in 1..Len(s.kwo) : s.kwo[i].name \notin KwGiven(c)
Part(s, c) == "kwonly=" \o KwoClass(s) \o ";kwdefaults=" \o (IF KwDefaultsConsulted(s, c) THEN "consulted" ELSE "unused")
\* "z" stands for ANY name that is not a parameter of the callee.  Keywords are matched against parameter names only:
\* the names of the callee's own *va / **kw variables and of a local variable of its body ("loc"; every generated body
\* has one) are not parameter names, so each call spells z in one of these four ways and must bind exactly as if it
\* were spelled z (found missing by an independently seeded change: keyword matching over all of co_varnames).
ZSpellings == <<"z", "va", "kw", "loc">>
Spell(n, zs) == IF n = "z" THEN zs ELSE n
Expect(s, c, form, zs) ==
  LET r == BindD(s, c) ps == ParamSeq(s) IN
  IF r.ok THEN [ok |-> TRUE, recv |-> Receiver(form), vals |-> [i \in 1..Len(ps) |-> r.vals[ps[i]]], va |-> r.va,
                kw |-> SetToSeq({ <<Spell(p[1], zs), p[2]>> : p \in r.kw }), kinds |-> <<>>, part |-> Part(s, c)]
  ELSE [ok |-> FALSE, recv |-> "", vals |-> <<>>, va |-> <<>>, kw |-> <<>>, kinds |-> SetToSeq(ErrKinds(s, c)), part |-> Part(s, c)]
Record(unit) ==
  LET s == SigSeq[unit.si] IN
  [id |-> unit.id, si |-> unit.si, form |-> unit.form, sig |-> s, params |-> ParamSeq(s),
   defaults |-> [i \in 1..Len(ParamSeq(s)) |-> HasDefault(s, ParamSeq(s)[i])],
   cases |-> [j \in 1..Len(unit.cis) |->
                LET zs == ZSpellings[((unit.id + unit.cis[j]) % 4) + 1] IN
                [ci |-> unit.cis[j], zs |-> zs, e |-> Expect(s, CallSeq[unit.cis[j]], unit.form, zs)]]]
Init == u \in 1..Len(Units) /\ v = "todo"
Next == v = "todo" /\ UNCHANGED u /\ PrintT(ToJson(Record(Units[u]))) /\ v' = "done"
Spec == Init /\ [][Next]_<<u, v>>
=============================================================================
