------------------------------- MODULE MCGen -------------------------------
(* Model checking of PyRepl over every session of MaxItems items from Kinds (all shorter      *)
(* sessions are prefixes), and generation: every finished session is printed once with its    *)
(* physical lines, the line from which each item may run, and the namespace the statements    *)
(* leave when executed one by one (the reference for the "equivalent to running the file"     *)
(* clause).  In simulation mode (long random sessions) Stop is the only step after the last   *)
(* item, so each random walk prints exactly one session.                                      *)
EXTENDS PyRepl, Json
CONSTANT Simulating
VARIABLE stopped
gvars == <<vars, stopped>>
GInit == Init /\ stopped = FALSE
Stop == Leaf /\ ~stopped /\ stopped' = TRUE /\ UNCHANGED vars
GNext == (Next /\ UNCHANGED stopped) \/ (Simulating /\ Stop)
GSpec == GInit /\ [][GNext]_gvars
Item(kd) == [kind |-> kd, lines |-> Lines(kd), c |-> C(kd)]
Session == [items |-> [j \in 1..Len(hist) |-> Item(hist[j])],
            final |-> [n |-> RefNs(hist).n, f |-> RefNs(hist).f],
            \* the whole text can be run as a file: nothing raises (and _ is never bound outside interactive mode)
            asfile |-> \A j \in 1..Len(hist) : hist[j] # "under" /\ ~Effect(hist[j], RefNs(SubSeq(hist, 1, j - 1))).err]
Emit == IF Simulating THEN (stopped => PrintT(ToJson(Session)))
        ELSE (Leaf /\ ~late => PrintT(ToJson(Session)))
=============================================================================
