------------------------------ MODULE PyFloatOps ------------------------------
(* The operation table of property C15: what Python 3.4 defines for every float / mixed         *)
(* int-float / complex operator, conversion and folding builtin, in terms of PyFloat.           *)
(*                                                                                              *)
(* Operands are tagged records:  [t |-> "f", f |-> double]  |  [t |-> "i", z |-> integer]       *)
(*                             | [t |-> "c", re |-> double, im |-> double].                     *)
(* Expected(C) maps a recorded operation C = [op, x, y, txt] to an outcome:                     *)
(*   k = "float" (f), "pairf" (f, f2), "complex" (f, f2), "int" (v), "bool" (t), "exc" (exc),    *)
(*   "anyfloat" (some float: libm-defined; exc lists exception classes that are also allowed),  *)
(*   "anycomplex", "repr" (the observed text must satisfy ReprOk for f), "ood".                 *)
EXTENDS PyFloat

Out(k, f, f2, v, t, exc, ename) == [k |-> k, f |-> f, f2 |-> f2, g |-> f, g2 |-> f2, v |-> v, t |-> t, exc |-> exc, ename |-> ename]
\* an outcome with a second acceptable value (g, g2): the declarative reading of // % divmod
WithAlt(o, g, g2) == [o EXCEPT !.g = g, !.g2 = g2]
OFloat(f) == Out("float", f, NaN, ZZero, 0, {}, "")
OPairF(q, r) == Out("pairf", q, r, ZZero, 0, {}, "")
OComplex(re, im) == Out("complex", re, im, ZZero, 0, {}, "")
OInt(v) == Out("int", NaN, NaN, v, 0, {}, "")
OBool(t) == Out("bool", NaN, NaN, ZZero, IF t THEN 1 ELSE 0, {}, "")
ORaise(name) == Out("exc", NaN, NaN, ZZero, 0, {name}, name)
OAnyFloat(S) == Out("anyfloat", NaN, NaN, ZZero, 0, S, "")
OAnyComplex == Out("anycomplex", NaN, NaN, ZZero, 0, {"OverflowError"}, "")   \* complex pow may overflow
ORepr(f) == Out("repr", f, NaN, ZZero, 0, {}, "")
OOD == Out("ood", NaN, NaN, ZZero, 0, {}, "")

VF(f) == [t |-> "f", f |-> f]
VI(z) == [t |-> "i", z |-> z]
\* conversion of an operand to a double (an int is rounded correctly or raises OverflowError)
ToF(x) == IF x.t = "f" THEN [err |-> "", v |-> x.f] ELSE IntToFloat(x.z)

\* float_pow outcome
PowOutcome(a, b) ==
  LET p == FloatPow(a, b) IN
  IF p.cplx THEN OAnyComplex
  ELSE IF p.det THEN (IF p.err # "" THEN ORaise(p.err) ELSE OFloat(p.f))
  ELSE OAnyFloat(IF p.mayOverflow THEN {"OverflowError"} ELSE {})

HasIdeal(x, y) == IsFin(x) /\ IsFin(y) /\ ~IsZeroF(y)
\* binary arithmetic with at least one float operand (the int operand is converted first: its OverflowError wins)
FloatArith(op, x, y) ==
  LET a == ToF(x) b == ToF(y) IN
  IF a.err # "" THEN ORaise(a.err) ELSE IF b.err # "" THEN ORaise(b.err)
  ELSE CASE op = "add" -> OFloat(FAdd(a.v, b.v))
         [] op = "sub" -> OFloat(FSub(a.v, b.v))
         [] op = "mul" -> OFloat(FMul(a.v, b.v))
         [] op = "truediv" -> IF IsZeroF(b.v) THEN ORaise("ZeroDivisionError") ELSE OFloat(FDiv(a.v, b.v))
         [] op = "floordiv" -> LET d == FloatDivMod(a.v, b.v) IN IF d.err # "" THEN ORaise(d.err)
                               ELSE IF HasIdeal(a.v, b.v) THEN WithAlt(OFloat(d.q), IdealDivMod(a.v, b.v).q, NaN) ELSE OFloat(d.q)
         [] op = "mod" -> LET d == FloatRem(a.v, b.v) IN IF d.err # "" THEN ORaise(d.err)
                          ELSE IF HasIdeal(a.v, b.v) THEN WithAlt(OFloat(d.r), IdealDivMod(a.v, b.v).r, NaN) ELSE OFloat(d.r)
         [] op = "divmod" -> LET d == FloatDivMod(a.v, b.v) IN IF d.err # "" THEN ORaise(d.err)
                             ELSE IF HasIdeal(a.v, b.v) THEN LET i == IdealDivMod(a.v, b.v) IN WithAlt(OPairF(d.q, d.r), i.q, i.r) ELSE OPairF(d.q, d.r)
         [] op = "pow" -> PowOutcome(a.v, b.v)
         [] OTHER -> OOD
Arith(op, x, y) ==
  IF x.t = "i" /\ y.t = "i" THEN
       (IF op = "truediv" THEN LET d == IntTrueDiv(x.z, y.z) IN IF d.err # "" THEN ORaise(d.err) ELSE OFloat(d.v)
        ELSE IF op = "add" THEN OInt(ZAdd(x.z, y.z))                    \* needed by sum(): 0 + int
        ELSE OOD)
  ELSE FloatArith(op, x, y)

\* rich comparison: "lt" | "eq" | "gt" | "un"; ints and floats are compared exactly (float_richcompare)
Relation(x, y) ==
  IF x.t = "f" /\ y.t = "f" THEN FCompare(x.f, y.f)
  ELSE IF x.t = "i" /\ y.t = "f" THEN CompareIntFloat(x.z, y.f)
  ELSE IF x.t = "f" /\ y.t = "i" THEN LET r == CompareIntFloat(y.z, x.f) IN IF r = "lt" THEN "gt" ELSE IF r = "gt" THEN "lt" ELSE r
  ELSE LET c == ZCmp(x.z, y.z) IN IF c < 0 THEN "lt" ELSE IF c > 0 THEN "gt" ELSE "eq"
CompareOp(op, x, y) ==
  LET r == Relation(x, y) IN
  CASE op = "lt" -> r = "lt" [] op = "le" -> r \in {"lt", "eq"} [] op = "eq" -> r = "eq"
    [] op = "ne" -> r # "eq" [] op = "gt" -> r = "gt" [] op = "ge" -> r \in {"gt", "eq"}
OValue(x) == IF x.t = "f" THEN OFloat(x.f) ELSE OInt(x.z)

\* complex numbers: an int or float operand becomes (x, 0.0); + and - are component-wise, * is the textbook
\* formula evaluated in double arithmetic in CPython's order
ToC(x) == IF x.t = "c" THEN [err |-> "", re |-> x.re, im |-> x.im]
          ELSE LET a == ToF(x) IN [err |-> a.err, re |-> a.v, im |-> FZero(0)]
ComplexArith(op, x, y) ==
  LET a == ToC(x) b == ToC(y) IN
  IF a.err # "" THEN ORaise(a.err) ELSE IF b.err # "" THEN ORaise(b.err)
  ELSE CASE op = "cadd" -> OComplex(FAdd(a.re, b.re), FAdd(a.im, b.im))
         [] op = "csub" -> OComplex(FSub(a.re, b.re), FSub(a.im, b.im))
         [] op = "cmul" -> OComplex(FSub(FMul(a.re, b.re), FMul(a.im, b.im)), FAdd(FMul(a.re, b.im), FMul(a.im, b.re)))
         [] OTHER -> OOD

Expected(C) ==
  LET x == C.x y == C.y op == C.op IN
  CASE op \in {"add", "sub", "mul", "truediv", "floordiv", "mod", "divmod", "pow"} -> Arith(op, x, y)
    [] op = "powagree" -> Arith("pow", x, y)                            \* x ** y, and pow(x, y) must be the same observation
    [] op \in {"lt", "le", "eq", "ne", "gt", "ge"} -> OBool(CompareOp(op, x, y))
    [] op \in {"cadd", "csub", "cmul"} -> ComplexArith(op, x, y)
    \* folding builtins, defined by the operators: min/max return the first extremal argument; sum is a left fold from 0
    [] op = "min2" -> OValue(IF Relation(y, x) = "lt" THEN y ELSE x)
    [] op = "max2" -> OValue(IF Relation(y, x) = "gt" THEN y ELSE x)
    [] op = "sum2" -> LET s1 == Arith("add", VI(ZZero), x) IN
                      IF s1.k = "exc" THEN s1 ELSE Arith("add", IF s1.k = "int" THEN VI(s1.v) ELSE VF(s1.f), y)
    [] op = "divmodagree" -> Arith("divmod", x, y)                      \* divmod(x, y) against (x // y, x % y): see Match
    \* unary on a float
    [] op = "neg" -> OFloat(FNeg(x.f))
    [] op = "pos" -> OFloat(x.f)
    [] op = "abs" -> OFloat(FAbs(x.f))
    [] op = "truth" -> OBool(FNonZero(x.f))
    [] op \in {"int", "trunc"} -> IF IsNaN(x.f) THEN ORaise("ValueError") ELSE IF IsInf(x.f) THEN ORaise("OverflowError") ELSE OInt(TruncToInt(x.f))
    [] op = "round" -> IF IsNaN(x.f) THEN ORaise("ValueError") ELSE IF IsInf(x.f) THEN ORaise("OverflowError") ELSE OInt(RoundHalfEvenToInt(x.f))
    [] op \in {"repr", "str"} -> ORepr(x.f)
    [] op = "float" -> IF x.t = "f" THEN OFloat(x.f) ELSE LET a == IntToFloat(x.z) IN IF a.err # "" THEN ORaise(a.err) ELSE OFloat(a.v)
    [] op = "fromstr" -> LET a == FloatFromText(C.txt) IN IF a.err # "" THEN ORaise(a.err) ELSE OFloat(a.v)
    [] OTHER -> OOD

(* ------------------------------ acceptance of an observation ------------------------------ *)
\* observation o = [k, f, f2, v, t, txt, bases]; k in float | pairf | complex | int | bool | text | exc | panic | timeout ...
SetOfSeq(s) == {s[i] : i \in 1..Len(s)}
SameObs(o, p) == o.k = p.k /\ (IF o.k = "exc" THEN o.bases[1] = p.bases[1]
                              ELSE Same(o.f, p.f) /\ Same(o.f2, p.f2) /\ o.v = p.v /\ o.t = p.t /\ o.txt = p.txt)
Match(e, o) ==
  IF o.k = "exc" THEN SetOfSeq(o.bases) \cap e.exc # {}
  ELSE CASE e.k = "float" -> o.k = "float" /\ (Same(e.f, o.f) \/ Same(e.g, o.f))
         [] e.k \in {"pairf", "complex"} -> o.k = e.k /\ ((Same(e.f, o.f) /\ Same(e.f2, o.f2)) \/ (Same(e.g, o.f) /\ Same(e.g2, o.f2)))
         [] e.k = "int" -> o.k = "int" /\ e.v = o.v
         [] e.k = "bool" -> o.k = "bool" /\ e.t = o.t
         [] e.k = "anyfloat" -> o.k = "float"
         [] e.k = "anycomplex" -> o.k = "complex"
         [] e.k = "repr" -> o.k = "text" /\ ReprOk(e.f, o.txt)
         [] OTHER -> FALSE
\* lines that also carry a second observation o2 of an equivalent formulation: both must be the same observation
Accept(C, e) == Match(e, C.o) /\ (C.op \in {"powagree", "divmodagree"} => SameObs(C.o, C.o2))

(* ------------------------------ the case partition used for finding keys ------------------------------ *)
(* C15|<operator>|<operand classes>|<kind of divergence>.  Operand classes follow the case analysis of the       *)
(* specification: nan / inf / zero / finite for doubles (finer for the conversions, whose definition depends on  *)
(* integrality, ties and the word size), and for ints whether the value converts to a double exactly, with        *)
(* rounding, or not at all.                                                                                       *)
P53 == ShlN(One, 53)
IntClass(z) == IF CmpN(z.m, P53) <= 0 THEN "int<=2^53" ELSE IF IntToFloat(z).err # "" THEN "int>=2^1024"
               ELSE (IF BitLen(z.m) <= 63 THEN "int<2^63" ELSE "int>=2^63")
                    \o (IF BitLen(z.m) - TrailingZeros(z.m) <= 53 THEN ",exact" ELSE ",inexact")
FloatClass(f) == IF IsNaN(f) THEN "nan" ELSE IF IsInf(f) THEN "inf" ELSE IF IsZeroF(f) THEN "zero" ELSE "finite"
\* finer classes for int(), round(), repr()
FracClass(f) ==
  IF f.k # "fin" THEN FloatClass(f)
  ELSE IF f.m = <<>> THEN (IF f.s = 1 THEN "negzero" ELSE "zero")
  ELSE IF IsIntegerF(f) THEN (IF BitLen(TruncToInt(f).m) > 63 THEN "integral>=2^63" ELSE IF BitLen(TruncToInt(f).m) > 53 THEN "integral>=2^53" ELSE "integral")
  ELSE LET t == TruncToInt(f) r == RoundHalfEvenToInt(f)
           half == Same(FSub(FAbs(f), Round(0, t.m, 0)), FHalf)
       IN IF half THEN (IF r = t THEN "half-to-even-down" ELSE "half-to-even-up")
          ELSE IF r = t THEN "fraction<half" ELSE "fraction>half"
OperandClass(op, x) ==
  IF x.t = "i" THEN IntClass(x.z)
  ELSE IF x.t = "c" THEN "complex"
  ELSE IF op \in {"int", "trunc", "round", "repr", "str"} THEN FracClass(x.f) ELSE FloatClass(x.f)
UnaryOps == {"neg", "pos", "abs", "truth", "int", "trunc", "round", "repr", "str", "float"}
\* the path of float_divmod for finite non-zero operands: is the dividend a multiple of the divisor, do the signs
\* differ (the remainder is moved to the divisor's sign), is |x| < |y|, and the hard case CPython's comments describe:
\* the rounded quotient x / y lands on the other side of an integer than the exact quotient
DivModPath(vx, wx) ==
  LET mod0 == FMod(vx, wx) d == FloatDivMod(vx, wx) IN
  (IF IsZeroF(mod0) THEN "multiple" ELSE IF vx.s # wx.s THEN "signs-differ" ELSE "signs-equal")
  \o (IF FCmpFin(FAbs(vx), FAbs(wx)) < 0 THEN ",|x|<|y|" ELSE ",|x|>=|y|")
  \o (IF ~Same(FFloor(FDiv(vx, wx)), d.q) THEN ",quotient-rounds-across-integer" ELSE "")
\* class of an operand of // % divmod **: these work on the converted doubles (FloatArith), so an int operand that
\* converts is classified by the double it becomes
ConvertedClass(x) == IF x.t = "i" THEN (LET a == IntToFloat(x.z) IN IF a.err # "" THEN IntClass(x.z) ELSE FloatClass(a.v)) ELSE FloatClass(x.f)
DivModOps == {"floordiv", "mod", "divmod", "divmodagree"}
FullClass(C) ==
  IF C.op = "fromstr" THEN "text"
  ELSE IF C.op \in UnaryOps THEN OperandClass(C.op, C.x)
  ELSE IF C.op = "truediv" /\ C.x.t = "i" /\ C.y.t = "i" THEN           \* int / int: the exact quotient is rounded once
       (IF IntClass(C.x.z) \in {"int<=2^53", "int<2^63,exact", "int>=2^63,exact"} /\ IntClass(C.y.z) \in {"int<=2^53", "int<2^63,exact", "int>=2^63,exact"}
        THEN "int,int,both-convert-exactly" ELSE "int,int,an-operand-does-not-convert-exactly")
  ELSE IF C.op \in (DivModOps \cup {"pow", "powagree"}) /\ C.x.t # "c" /\ C.y.t # "c" THEN
       ConvertedClass(C.x) \o "," \o ConvertedClass(C.y)
       \o (LET a == ToF(C.x) b == ToF(C.y) IN                            \* the path through float_divmod matters for //
           IF C.op = "floordiv" /\ a.err = "" /\ b.err = "" /\ IsFin(a.v) /\ IsFin(b.v) /\ ~IsZeroF(a.v) /\ ~IsZeroF(b.v)
           THEN "," \o DivModPath(a.v, b.v) ELSE "")
  ELSE OperandClass(C.op, C.x) \o "," \o OperandClass(C.op, C.y)
\* operand types only (ints with their size class): used when the divergence does not depend on the float's value --
\* a result of the wrong type, or an exception where none (or another one) is due
TypeName(x) == IF x.t = "i" THEN (IF IntToFloat(x.z).err # "" THEN "int>=2^1024" ELSE IF BitLen(x.z.m) <= 63 THEN "int<2^63" ELSE "int>=2^63")
               ELSE IF x.t = "c" THEN "complex" ELSE "float"
TypeClass(C) ==
  IF C.op = "fromstr" THEN "text" ELSE IF C.op \in UnaryOps THEN TypeName(C.x)
  ELSE IF C.op = "truediv" /\ C.x.t = "i" /\ C.y.t = "i" THEN
       "int,int," \o (IF "int>=2^1024" \in {TypeName(C.x), TypeName(C.y)} THEN "an-operand>=2^1024"
                      ELSE IF "int>=2^63" \in {TypeName(C.x), TypeName(C.y)} THEN "an-operand>=2^63" ELSE "operands<2^63")
  ELSE TypeName(C.x) \o "," \o TypeName(C.y)
\* the kind of observation an expected outcome calls for
ObservationKind(e) == IF e.k = "repr" THEN "text" ELSE IF e.k = "anyfloat" THEN "float" ELSE IF e.k = "anycomplex" THEN "complex" ELSE e.k
\* the six comparisons are one action of the specification (Relation), split only into ordering and equality
\* likewise the conversion of the int operand of a mixed int/float operation is one disjunct of FloatArith for all
\* binary operators: divergences in raising (a missing, spurious or different exception) are keyed by it
ArithOpNames == {"add", "sub", "mul", "truediv", "floordiv", "mod", "divmod", "pow", "powagree", "divmodagree", "cadd", "csub", "cmul"}
FoldOpNames == {"min2", "max2", "sum2"}
MixedWithInt(C) == "i" \in {C.x.t, C.y.t} /\ {C.x.t, C.y.t} # {"i"}
OperatorName(C) ==
  LET op == C.op IN
  IF op \in {"lt", "le", "gt", "ge"} THEN "order(lt,le,gt,ge)" ELSE IF op \in {"eq", "ne"} THEN "equality(eq,ne)"
  ELSE IF op \in ArithOpNames /\ C.o.k = "exc" /\ MixedWithInt(C) THEN "arithmetic(int,float-or-complex)"
  ELSE IF op \in FoldOpNames /\ C.o.k = "exc" /\ MixedWithInt(C) THEN "fold(min,max,sum)(int,float)"
  ELSE IF op = "powagree" THEN "pow" ELSE IF op = "divmodagree" THEN "divmod"   \* the relational clause has its own kind
  ELSE op
CaseClass(C, e) ==
  LET o == C.o IN
  IF o.k = "exc" \/ (e.k # "exc" /\ o.k \notin {"panic", "timeout"} /\ ObservationKind(e) # o.k) THEN TypeClass(C) ELSE FullClass(C)
FloatDiff(e, o) ==      \* how two doubles differ
  IF IsZeroF(e) /\ IsZeroF(o) THEN "sign-of-zero"
  ELSE IF IsNaN(e) THEN "expected=nan" ELSE IF IsNaN(o) THEN "observed=nan"
  ELSE "value"
DivergenceKind(C, e) ==
  LET o == C.o IN
  IF o.k \in {"panic", "timeout"} THEN "observed=" \o o.k
  ELSE IF o.k = "exc" THEN (IF e.k = "exc" THEN "expected=exc:" \o e.ename \o ",observed=exc:" \o o.bases[1] ELSE "observed=exc:" \o o.bases[1])
  ELSE IF e.k = "exc" THEN "expected=exc:" \o e.ename \o ",observed=" \o o.k
  ELSE IF Match(e, o) THEN "disagrees-with-equivalent-form"      \* powagree / divmodagree: o is allowed, o2 differs from o
  ELSE IF e.k = "repr" THEN (IF o.k # "text" THEN "observed=" \o o.k ELSE ReprFailure(e.f, o.txt))
  ELSE IF e.k = "anyfloat" THEN "expected=float,observed=" \o o.k
  ELSE IF e.k = "anycomplex" THEN "expected=complex,observed=" \o o.k
  ELSE IF e.k # o.k THEN "expected=" \o e.k \o ",observed=" \o o.k
  ELSE (CASE e.k = "float" -> FloatDiff(e.f, o.f)
          [] e.k = "pairf" -> IF Same(e.f, o.f) THEN "mod:" \o FloatDiff(e.f2, o.f2) ELSE IF Same(e.f2, o.f2) THEN "div:" \o FloatDiff(e.f, o.f) ELSE "both"
          [] e.k = "complex" -> IF Same(e.f, o.f) THEN "imag:" \o FloatDiff(e.f2, o.f2) ELSE "real:" \o FloatDiff(e.f, o.f)
          [] OTHER -> "value")
(* ------------------------------ operands are immutable ------------------------------ *)
\* no operation of this table has an effect on its operands: the operand objects re-read after the operation (xa, ya)
\* denote what they denoted before
SameOperand(x, xa) == xa.t = x.t /\ (CASE x.t = "f" -> Same(x.f, xa.f) [] x.t = "i" -> x.z = xa.z [] x.t = "c" -> Same(x.re, xa.re) /\ Same(x.im, xa.im) [] OTHER -> FALSE)
OperandsPreserved(C) == SameOperand(C.x, C.xa) /\ (C.op \in UnaryOps \/ C.op = "fromstr" \/ SameOperand(C.y, C.ya))
MutationKey(C) == "C15|" \o C.op \o "|" \o FullClass(C) \o "|operand-mutated"
FindingKey(C, e) == "C15|" \o OperatorName(C) \o "|" \o CaseClass(C, e) \o "|" \o DivergenceKind(C, e)
=============================================================================
