---- MODULE PyScopeGen ----
\* The space of programs of PyScope, as a construction in textual order: a cursor (the stack of
\* open scopes) and three kinds of steps -- append an event to the innermost open scope, open a
\* child scope there, close it.  Every program has exactly one construction, scope ids come out in
\* pre-order.  Two drivers:
\*   PyScopeBFS   TLC enumerates every construction within MaxScopes/MaxDepth/MaxEv (exhaustive);
\*   PyScopeDice  a construction is the deterministic image of a sequence of dice supplied by the
\*                harness (seeded pseudo-random numbers: entropy only), for bounds beyond exhaustion.
EXTENDS PyScope, Json
CONSTANTS MaxScopes, MaxDepth, MaxEvStmt, MaxEvExpr, WithLocset

G0 == [prog |-> << [kind |-> "module", parent |-> 0, par |-> TLCEval([n \in Names |-> NoPar]), iter |-> "-", tgt |-> "-", ev |-> <<>>] >>,
       stack |-> <<1>>]
Cur(g) == g.stack[Len(g.stack)]
CurKind(g) == g.prog[Cur(g)].kind
Room(g) == Len(g.prog[Cur(g)].ev) < (IF StmtKind(CurKind(g)) THEN MaxEvStmt ELSE MaxEvExpr)
CanOpen(g) == Room(g) /\ Len(g.prog) < MaxScopes /\ Len(g.stack) <= MaxDepth

\* ---- the alphabet
\* ordinary names (everything may happen to them) vs the special name __class__ (only used, only in
\* function-like scopes)
UserSeq == SelectSeq(NameSeq, LAMBDA n : n # CLS)
UserNames == Range(UserSeq)
HasCls == CLS \in Names
StmtOps == <<"bind", "use", "del", "global", "nonlocal">>
OpsOf(k) == IF StmtKind(k) THEN (IF k = "class" /\ WithLocset THEN StmtOps \o <<"locset">> ELSE StmtOps) ELSE <<"use">>
ChildKinds(k) == IF StmtKind(k) THEN <<"def", "lambda", "class", "comp">> ELSE <<"lambda", "comp">>
ParModes == <<NoPar, [k |-> "arg", from |-> "-"], [k |-> "dup", from |-> "-"]>> \o [i \in 1..Len(UserSeq) |-> [k |-> "dflt", from |-> UserSeq[i]]]
NameOrNone == <<"-">> \o UserSeq
Callable(g) == SelectSeq([c \in 1..Len(g.prog) |-> c], LAMBDA c : g.prog[c].parent = Cur(g) /\ g.prog[c].kind \in {"def", "lambda"})
NewScope(g, kind, par, iter, tgt) == [kind |-> kind, parent |-> Cur(g), par |-> TLCEval(par), iter |-> iter, tgt |-> tgt, ev |-> <<>>]

\* ---- steps
AddEv(g, e) == [g EXCEPT !.prog[Cur(g)].ev = Append(@, e)]
Open(g, sc) == [prog |-> Append([g.prog EXCEPT ![Cur(g)].ev = Append(@, Ev("child", "-", Len(g.prog) + 1))], sc),
                stack |-> Append(g.stack, Len(g.prog) + 1)]
Close(g) == [g EXCEPT !.stack = SubSeq(@, 1, Len(@) - 1)]

\* every step enabled in g (exhaustive driver)
Succ(g) ==
     (IF Room(g) THEN { AddEv(g, Ev(OpsOf(CurKind(g))[o], n, 0)) : o \in 1..Len(OpsOf(CurKind(g))), n \in UserNames } ELSE {})
  \cup (IF Room(g) /\ HasCls /\ CurKind(g) \in {"def", "lambda", "comp"} THEN { AddEv(g, Ev("use", CLS, 0)) } ELSE {})
  \cup (IF Room(g) /\ StmtKind(CurKind(g)) THEN { AddEv(g, Ev("call", "-", Callable(g)[j])) : j \in 1..Len(Callable(g)) } ELSE {})
  \cup (IF CanOpen(g) THEN
          { Open(g, NewScope(g, "class", [n \in Names |-> NoPar], "-", "-")) : x \in (IF StmtKind(CurKind(g)) THEN {1} ELSE {}) }
          \cup { Open(g, NewScope(g, "comp", [n \in Names |-> NoPar], it, tg)) : it \in Range(NameOrNone), tg \in Range(NameOrNone) }
          \cup { Open(g, NewScope(g, k, pm, "-", "-")) : k \in (IF StmtKind(CurKind(g)) THEN {"def", "lambda"} ELSE {"lambda"}),
                                                        pm \in { f \in [Names -> Range(ParModes)] : HasCls => f[CLS] = NoPar } }
        ELSE {})
  \cup (IF Len(g.stack) > 1 THEN { Close(g) } ELSE {})

\* rejections that no extension of the program can undo: such programs are emitted but not extended
MonoReject(P) == DupParam(P) \/ DeclAfterUse(P) \/
   \E s \in 1..Len(P) : \E n \in Names : LET f == Flags1(P, s, n) IN ("G" \in f /\ ("P" \in f \/ "N" \in f)) \/ ("N" \in f /\ "P" \in f)

\* ---- dice driver: d = <<d1, d2, d3, d4>>, each a natural number
Pick(sq, d) == sq[(d % Len(sq)) + 1]
WPick(table, d) ==      \* table = sequence of <<weight, value>>
  LET total == FoldLeft(LAMBDA a, w : a + w[1], 0, table)
      r == d % total
      F == FoldLeft(LAMBDA acc, w : IF acc.done THEN acc
                                    ELSE IF r < acc.sum + w[1] THEN [done |-> TRUE, sum |-> 0, v |-> w[2]]
                                    ELSE [acc EXCEPT !.sum = @ + w[1]],
                    [done |-> FALSE, sum |-> 0, v |-> table[1][2]], table)
  IN F.v
OpWeights(k) == IF StmtKind(k)
                THEN << <<30, "bind">>, <<36, "use">>, <<10, "del">>, <<9, "global">>, <<11, "nonlocal">> >>
                     \o (IF k = "class" /\ WithLocset THEN << <<25, "locset">> >> ELSE <<>>)
                     \* ("supref" -- the bare name `super`, which also counts as a use of __class__ -- is specified but
                     \* not generated: gpython has no builtin `super`, a missing feature outside C03)
                     \o (IF k = "def" /\ HasCls THEN << <<10, "usecls">> >> ELSE <<>>)
                ELSE << <<8, "use">> >> \o (IF HasCls THEN << <<1, "usecls">> >> ELSE <<>>)
ModeWeights == << <<52, 1>>, <<26, 2>>, <<2, 3>>, <<20, 4>> >>     \* none, arg, dup, dflt
ParOfDie(d) == LET m == WPick(ModeWeights, d) IN
               IF m = 4 THEN [k |-> "dflt", from |-> Pick(UserSeq, d \div 100)] ELSE ParModes[m]
DiceOpen(g, d) ==
  LET k == IF StmtKind(CurKind(g)) THEN WPick(<< <<40, "def">>, <<22, "class">>, <<18, "lambda">>, <<20, "comp">> >>, d[2])
           ELSE Pick(ChildKinds(CurKind(g)), d[2]) IN
  IF k = "class" THEN Open(g, NewScope(g, "class", [n \in Names |-> NoPar], "-", "-"))
  ELSE IF k = "comp" THEN Open(g, NewScope(g, "comp", [n \in Names |-> NoPar], Pick(NameOrNone, d[3]), Pick(NameOrNone, d[4])))
  ELSE Open(g, NewScope(g, k, [n \in Names |-> IF n = CLS THEN NoPar
                                                ELSE IF n = UserSeq[1] THEN ParOfDie(d[3])
                                                ELSE ParOfDie(d[4] + 7 * (CHOOSE i \in 1..Len(UserSeq) : UserSeq[i] = n))], "-", "-"))
\* a declaration that the construction already knows to be illegal (the name occurs earlier in the
\* block; nonlocal in the module) is kept only one time in eight: rejected programs are wanted,
\* but not as the majority
SeenIn(g, n) == \E j \in 1..Len(g.prog[Cur(g)].ev) : EvDefs(g.prog, Cur(g), j, n) # {}
DiceEv(g, d) ==
  LET op == WPick(OpWeights(CurKind(g)), d[2])
      n == Pick(UserSeq, d[3])
      hopeless == op \in {"global", "nonlocal"} /\ (SeenIn(g, n) \/ (op = "nonlocal" /\ Len(g.stack) = 1) \/ g.prog[Cur(g)].par[n].k # "-")
  IN IF op = "usecls" THEN AddEv(g, Ev("use", CLS, 0))
     ELSE IF op = "supref" THEN AddEv(g, Ev("supref", "-", 0))
     ELSE AddEv(g, Ev(IF hopeless /\ d[4] % 8 # 0 THEN (IF d[4] % 2 = 0 THEN "use" ELSE "bind") ELSE op, n, 0))
DiceStep(g, d) ==
  LET want == IF Len(g.stack) = 1
              THEN WPick(<< <<30, "ev">>, <<18, "call">>, <<52, "open">> >>, d[1])
              ELSE WPick(<< <<44, "ev">>, <<15, "call">>, <<22, "open">>, <<19, "close">> >>, d[1])
      canEv == Room(g)
      canCall == Room(g) /\ StmtKind(CurKind(g)) /\ Callable(g) # <<>>
      canClose == Len(g.stack) > 1
  IN IF want = "call" /\ canCall THEN AddEv(g, Ev("call", "-", Pick(Callable(g), d[2])))
     ELSE IF want = "open" /\ CanOpen(g) THEN DiceOpen(g, d)
     ELSE IF want = "close" /\ canClose THEN Close(g)
     ELSE IF canEv THEN DiceEv(g, d)
     ELSE IF canClose THEN Close(g)
     ELSE g
\* the first die decides which names the module binds before anything else
Preamble(d) == LET m == d[1] % 4 IN
  FoldLeft(LAMBDA g, j : IF (j = 1 /\ m \in {1, 3}) \/ (j > 1 /\ m \in {2, 3}) THEN AddEv(g, Ev("bind", UserSeq[j], 0)) ELSE g,
           G0, [j \in 1..Len(UserSeq) |-> j])
Build(dice) == IF dice = <<>> THEN G0 ELSE FoldLeft(LAMBDA g, d : DiceStep(g, d), Preamble(dice[1]), Tail(dice))
====
