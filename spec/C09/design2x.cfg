\* all interleavings of 2 goroutines x every script of <=3 operations, free-running wake-up
SPECIFICATION FairSpec
CONSTANTS
  Procs = {"a", "b"}
  MaxLen = 2
  NeedClose = FALSE
  OpSet = {"run", "minit", "rac", "close", "wait", "runr", "minitr", "racx", "minitc"}
  AtomicWake = FALSE
  ScriptSet <- MCScripts
VIEW View
INVARIANTS CounterSane CallbacksOnce DoneAfterQuiescence NoRunDuringCb ClosedMeansIdle StepClauses OnceOwner TypeOK NoDeadlock
PROPERTY Termination
PROPERTY RefinesCore
CHECK_DEADLOCK FALSE
