SPECIFICATION Spec
CONSTANT Names = {"x", "__class__"}
CONSTANT NameSeq <- Seq1C
CONSTANT FShapes <- Trees4
CONSTANT FFlags <- F9
CONSTANT Mode = "all"
CONSTANT FModFlags <- FMod
CONSTANT MaxScopes = 4
CONSTANT MaxDepth = 3
CONSTANT MaxEvStmt = 9
CONSTANT MaxEvExpr = 3
CONSTANT WithLocset = FALSE
CHECK_DEADLOCK FALSE
