\* thorough: every program of nesting depth <= 2, and of depth 3 with the outermost context in OuterRep; every input choice
SPECIFICATION Spec
CONSTANTS
  Depth = 3
  MinDepth = 0
  SynDepth = 2
  Outer3 <- OuterRep
  MaxIn = 3
INVARIANTS TypeOK CleanupOnce HandlerFirstMatch NoneLost HandledStack EscapeIntact FinalOK RejectedNeverRuns
CHECK_DEADLOCK TRUE
