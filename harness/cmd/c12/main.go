//go:build verif

// C12: emitted code objects are well-formed and stack-safe on every path.
//
//  1. The corpus (every .py file of the repository + seeded generated programs + a few programs that
//     need EXTENDED_ARG) is compiled with the real compiler; every code object, nested ones
//     included, is written as data (bytes, table sizes, stacksize, lnotab, ...).
//  2. Static part: TLC explores the abstract state space of every code object on
//     spec/C12/PyVMStatic.tla and checks the clauses of C12 as invariants.  A violated invariant is a
//     verdict about the real compiler's output.
//  3. Dynamic part (T binding): the corpus is executed in-process with vm.VerifInstr recording, per
//     frame, (pc, tags of the real stack, real block stack) before every instruction; TLC validates
//     the traces against the same machine (spec/C12/PyVMTrace.tla, subset construction), and every
//     (pc, stack depth, block depth) the VM reached in frames that were not traced completely is
//     compared with the set TLC found reachable in the static exploration.
//
// No expectation lives here: the harness renders data, runs the real code and compares with what
// TLC decided.
package main

import (
	"bytes"
	"encoding/json"
	"fmt"
	"math/rand"
	"os"
	"path/filepath"
	"sort"
	"strings"
	"time"

	"gpverif/common"
	"gpverif/pyrun"

	"github.com/go-python/gpython/py"
	"github.com/go-python/gpython/vm"
)

// Table is the registry of code objects (id = position + 1).
type Table struct {
	codes           []*CodeRec
	byPtr           map[*py.Code]int
	byHash          map[[20]byte]int
	compiledObjects int // before merging identical ones
}

func newTable() *Table { return &Table{byPtr: map[*py.Code]int{}, byHash: map[[20]byte]int{}} }

func countLines(s string) int {
	if s == "" {
		return 0
	}
	n := strings.Count(s, "\n")
	if !strings.HasSuffix(s, "\n") {
		n++
	}
	return n
}

// decode computes the boundary witness (verified by the specification) and the instruction count.
func decode(code string) (st []int, n int) {
	st = make([]int, len(code))
	for p := 0; p < len(code); {
		st[p] = 1
		n++
		if code[p] >= 90 {
			p += 3
		} else {
			p++
		}
	}
	return
}

// add registers a code object and, recursively, the code objects among its constants.  Code objects
// with the same content (bytes, table sizes, kinds of the constants, stacksize, lnotab) are one
// case: the prelude of the generated programs and most lambdas/comprehensions repeat; the smallest
// number of source lines among the duplicates is kept (the most demanding bound for the line table).
func (t *Table) add(c *py.Code, src *Source, parent int, nlines int) int {
	if id, ok := t.byPtr[c]; ok {
		return id
	}
	t.compiledObjects++
	r := &CodeRec{NConsts: len(c.Consts), NNames: len(c.Names), NVars: len(c.Varnames),
		NCells: len(c.Cellvars) + len(c.Freevars), Stacksize: int(c.Stacksize), Firstlineno: int(c.Firstlineno),
		NLines: nlines, code: c, src: src, parent: parent}
	r.Bytes = make([]int, len(c.Code))
	for i := 0; i < len(c.Code); i++ {
		r.Bytes[i] = int(c.Code[i])
	}
	r.KKind = make([]int, len(c.Consts))
	for i, k := range c.Consts {
		switch k.(type) {
		case py.NoneType:
			r.KKind[i] = 1
		case *py.Code:
			r.KKind[i] = 2
		case py.String:
			r.KKind[i] = 3
		case py.Tuple:
			r.KKind[i] = 4
		}
	}
	r.Lnotab = make([]int, len(c.Lnotab))
	for i := 0; i < len(c.Lnotab); i++ {
		r.Lnotab[i] = int(c.Lnotab[i])
	}
	b, _ := json.Marshal([]interface{}{r.Bytes, r.NConsts, r.KKind, r.NNames, r.NVars, r.NCells, r.Stacksize, r.Lnotab, r.Firstlineno})
	h := sha1sum(b)
	id, dup := t.byHash[h]
	if dup {
		old := t.codes[id-1]
		if nlines > 0 && (old.NLines == 0 || nlines < old.NLines) {
			old.NLines, old.src, old.code = nlines, src, c
		}
	} else {
		r.Id = len(t.codes) + 1
		r.St, r.instrs = decode(c.Code)
		t.codes = append(t.codes, r)
		t.byHash[h] = r.Id
		id = r.Id
	}
	t.byPtr[c] = id
	for _, k := range c.Consts {
		if sub, ok := k.(*py.Code); ok {
			t.add(sub, src, id, nlines)
		}
	}
	return id
}

// idOf returns the id of a code object seen by the VM hook, registering code the corpus did not
// compile itself (imported modules, exec/eval/compile strings).
func (t *Table) idOf(c *py.Code, cur *Source) int {
	if id, ok := t.byPtr[c]; ok {
		return id
	}
	nlines := 0
	if cur != nil {
		for _, p := range []string{c.Filename, filepath.Join(cur.Dir, c.Filename)} {
			if b, err := os.ReadFile(p); err == nil {
				nlines = countLines(string(b))
				break
			}
		}
	}
	return t.add(c, nil, 0, nlines)
}

func (r *CodeRec) where() string {
	if r.src != nil {
		return r.src.Name + ":" + r.code.Name
	}
	return r.code.Filename + ":" + r.code.Name
}

// disasm renders the instructions around offset pc (for the repro of a finding).
func (r *CodeRec) disasm(pc, around int) []string {
	var all []string
	at := -1
	code := r.code.Code
	for p := 0; p < len(code); {
		op := vm.OpCode(code[p])
		s := fmt.Sprintf("%5d %s", p, op.String())
		if code[p] >= 90 && p+2 < len(code) {
			s += fmt.Sprintf(" %d", int(code[p+1])+256*int(code[p+2]))
			p += 3
		} else {
			p++
		}
		if p > pc && at < 0 {
			at = len(all)
			s = ">>" + s[2:]
		}
		all = append(all, s)
	}
	if at < 0 {
		at = len(all)
	}
	lo, hi := at-around, at+around+1
	if lo < 0 {
		lo = 0
	}
	if hi > len(all) {
		hi = len(all)
	}
	return all[lo:hi]
}

func opName(op int) string {
	if op < 0 || op > 255 {
		return "none"
	}
	if op == 90 {
		return "STORE_NAME" // the generated stringer prints the alias HAVE_ARGUMENT
	}
	return vm.OpCode(op).String()
}

func (r *CodeRec) repro() interface{} {
	if r.src == nil {
		return map[string]string{"file": r.code.Filename}
	}
	if r.src.Origin == "repo" || len(r.src.Text) > 6000 {
		return map[string]string{"file": r.src.Name, "origin": r.src.Origin, "class": r.src.Class}
	}
	return map[string]string{"origin": r.src.Origin, "class": r.src.Class, "source": r.src.Text}
}

// ---------------------------------------------------------------------------------------

func repoSources(env *common.Env) []*Source {
	var out []*Source
	runDirs := map[string]bool{"vm/tests": true, "py/tests": true, "stdlib/builtin/tests": true, "stdlib/math/tests": true,
		"vm/benchmarks": true, "pytest/testdata/tests": true, "examples": true}
	filepath.Walk(env.Repo, func(p string, info os.FileInfo, err error) error {
		if err != nil {
			return nil
		}
		if info.IsDir() {
			if info.Name() == ".git" {
				return filepath.SkipDir
			}
			return nil
		}
		if !strings.HasSuffix(p, ".py") {
			return nil
		}
		b, err := os.ReadFile(p)
		if err != nil {
			return nil
		}
		rel, _ := filepath.Rel(env.Repo, p)
		dir := filepath.Dir(rel)
		out = append(out, &Source{Name: rel, Origin: "repo", Text: string(b), Run: runDirs[dir], Dir: filepath.Dir(p), Class: "repo:" + dir})
		return nil
	})
	sort.Slice(out, func(i, j int) bool { return out[i].Name < out[j].Name })
	return out
}

type stats struct {
	sources, compiled, rejected, compilePanics int
	ran, ranOK, ranExc, ranPanic               int
	byClass                                    map[string]int
}

func compileAll(srcs []*Source, t *Table, st *stats) map[*Source]*py.Code {
	out := map[*Source]*py.Code{}
	for _, s := range srcs {
		st.sources++
		var code *py.Code
		res := pyrun.Guard(120*time.Second, func() error {
			c, err := py.Compile(s.Text, s.Name, py.ExecMode, 0, true)
			code = c
			return err
		})
		if res.TimedOut {
			common.Inconclusive("property=C12 compiling %s timed out", s.Name)
		}
		if res.Panic != "" {
			st.compilePanics++ // C11's business (compile pipeline total), not a code object
			continue
		}
		if res.Exc != "" || code == nil {
			st.rejected++
			if os.Getenv("C12_DEBUG") != "" {
				fmt.Printf("DEBUG rejected %s: %s %s\n", s.Name, res.Exc, res.Msg)
			}
			continue
		}
		st.compiled++
		st.byClass[s.Class]++
		t.add(code, s, 0, countLines(s.Text))
		out[s] = code
	}
	return out
}

func runAll(env *common.Env, srcs []*Source, codes map[*Source]*py.Code, rec *Recorder, st *stats, budget int64) {
	vm.VerifInstr = rec.hook
	defer func() { vm.VerifInstr = nil }()
	for _, s := range srcs {
		code := codes[s]
		if code == nil || !s.Run {
			continue
		}
		st.ran++
		rec.mu.Lock()
		rec.curSrc = s
		rec.budget = budget
		rec.used = 0
		rec.mu.Unlock()
		dir := s.Dir
		if dir == "" {
			dir = env.Scratch
		}
		res := pyrun.Guard(120*time.Second, func() error {
			c := pyrun.New(dir)
			defer c.Close()
			_, err := py.RunCode(c.Ctx, code, s.Name, nil)
			return err
		})
		if res.TimedOut {
			common.Inconclusive("property=C12 running %s did not finish (blocked outside the VM loop)", s.Name)
		}
		if os.Getenv("C12_DEBUG") != "" && (res.Panic != "" || res.Exc != "") {
			fmt.Printf("DEBUG run %s: %s %s %s %s\n", s.Name, res.Outcome(), res.Msg, res.Panic, res.PanicSite)
		}
		switch {
		case res.Panic != "":
			st.ranPanic++
		case res.Exc != "":
			st.ranExc++
		default:
			st.ranOK++
		}
		rec.endProgram()
	}
}

func ndjson(recs interface{}) string {
	var buf bytes.Buffer
	enc := json.NewEncoder(&buf)
	switch v := recs.(type) {
	case []*CodeRec:
		for _, r := range v {
			enc.Encode(r)
		}
	case []*Trace:
		for _, r := range v {
			enc.Encode(r)
		}
	}
	return buf.String()
}

type vioRec struct {
	V     string `json:"v"`
	Cid   int    `json:"cid"`
	Pc    int    `json:"pc"`
	Kind  string `json:"kind"`
	Depth int    `json:"depth"`
	NBlk  int    `json:"nblk"`
	Op    int    `json:"op"`
	// trace records
	Tid  int    `json:"tid"`
	I    int    `json:"i"`
	At   int    `json:"at"`
	Exit string `json:"exit"`
}
type emitRec struct {
	E  int `json:"e"`
	Pc int `json:"pc"`
	D  int `json:"d"`
	B  int `json:"b"`
}

func main() {
	if null, err := os.Open(os.DevNull); err == nil {
		os.Stdin = null
	}
	env := common.Setup()
	rep := common.NewReport(env, "model_checking")
	rep.Rule = "a case is one code object emitted by the real compiler whose abstract state space TLC explored under the invariants of spec/C12/PyVMStatic.tla; two code objects are the same case when bytes, table sizes, kinds of constants, stacksize and lnotab agree; code objects of at most 4 instructions are trivial and not counted"
	rep.Assumptions = []string{
		"TLC and the CommunityModules Json/SequencesExt modules are correct",
		"the per-opcode relation of spec/C12/PyVM.tla states the documented meaning of the Python 3.4 opcodes (it was written without consulting compile/instructions.go:opcodeStackEffect and is itself validated against every instruction the real VM executed in this run)",
		"vm.VerifInstr (build tag verif) is called before every instruction fetch and at every frame exit",
	}
	rng := rand.New(rand.NewSource(env.Seed))
	st := &stats{byClass: map[string]int{}}
	table := newTable()

	// 1. corpus
	var srcs []*Source
	if env.Replay != "" {
		srcs = replaySources(env)
	} else {
		srcs = append(srcs, repoSources(env)...)
		srcs = append(srcs, probeSources(env)...)
		srcs = append(srcs, gridSources(env.Thorough())...)
		srcs = append(srcs, shallowSources()...)
		srcs = append(srcs, generate(rng, env.Pick(120, 1500))...)
	}
	codes := compileAll(srcs, table, st)
	nCorpus := len(table.codes)
	if os.Getenv("C12_DEBUG") != "" {
		per := map[string][2]int{}
		for _, r := range table.codes {
			x := per[r.src.Class]
			x[0]++
			x[1] += r.instrs
			per[r.src.Class] = x
		}
		fmt.Printf("DEBUG code objects/instructions per class: %v\n", per)
		if os.Getenv("C12_DEBUG") == "compile" {
			return
		}
	}
	fmt.Printf("phase compile done at %.1fs: %d sources, %d compiled, %d rejected, %d code objects\n",
		time.Since(env.Start).Seconds(), st.sources, st.compiled, st.rejected, nCorpus)
	if st.compiled == 0 {
		common.Inconclusive("property=C12 nothing compiled")
	}

	// 3a. run the corpus with the recorder
	rec := newRecorder(table, env.Pick(400, 3000), env.Pick(2, 5), int64(env.Pick(70000, 700000)))
	runAll(env, srcs, codes, rec, st, int64(env.Pick(150000, 600000)))
	fmt.Printf("phase run done at %.1fs: %d programs run (%d ok, %d exception, %d panic), %d frames, %d instructions, %d traces (%d events), %d code objects found at run time\n",
		time.Since(env.Start).Seconds(), st.ran, st.ranOK, st.ranExc, st.ranPanic, rec.frames, rec.events, len(rec.traces), rec.tracedEvents, len(table.codes)-nCorpus)

	// 2. static exploration of every code object
	uncovered := rec.uncovered()
	for id := range rec.needEmit {
		table.codes[id-1].Emit = 1
	}
	staticViolations := 0
	predicted := map[obsKey]struct{}{}
	seenVio := map[string]bool{}
	onStatic := func(line []byte) {
		var e emitRec
		if json.Unmarshal(line, &e) == nil && e.E > 0 {
			predicted[obsKey{int32(e.E), int32(e.Pc), int32(e.D), int32(e.B)}] = struct{}{}
			return
		}
		var v vioRec
		if json.Unmarshal(line, &v) != nil || v.V == "" || v.Cid < 1 || v.Cid > len(table.codes) {
			return
		}
		if v.V == "WitnessOK" {
			common.Inconclusive("property=C12 the boundary witness of code object %d is not the decoding from offset 0 (harness defect)", v.Cid)
		}
		r := table.codes[v.Cid-1]
		sub := opName(v.Op)
		if v.V == "LnotabOK" {
			sub = v.Kind
		}
		key := "C12|static|" + v.V + "|" + sub
		dk := fmt.Sprintf("%s|%d|%d", key, v.Cid, v.Pc)
		if seenVio[dk] {
			return
		}
		seenVio[dk] = true
		staticViolations++
		rep.Violation(key, map[string]interface{}{"invariant": v.V, "kind": v.Kind, "code": r.where(), "pc": v.Pc, "opcode": opName(v.Op),
			"depth": v.Depth, "blocks": v.NBlk, "stacksize": r.Stacksize, "disassembly": r.disasm(v.Pc, 8), "repro": r.repro()})
	}
	fmt.Printf("phase static starts at %.1fs\n", time.Since(env.Start).Seconds())
	sres := runTLC(env, common.TLCRun{Dir: "C12", Module: "PyVMStatic", Config: "static.cfg", Continue: true, Seed: env.Seed,
		Extra: map[string]string{"codes.ndjson": ndjson(table.codes)}, Timeout: time.Duration(env.Pick(12, 40)) * time.Minute, OnLine: onStatic})
	rep.AddTLC(sres)
	if !sres.Finished {
		common.Inconclusive("property=C12 static exploration did not finish\n%s", sres.Stdout)
	}
	if len(sres.Violations) > 0 && staticViolations == 0 {
		common.Inconclusive("property=C12 TLC reports %v but printed no violation record\n%s", sres.Violations, sres.Stdout)
	}
	fmt.Printf("phase static done at %.1fs: %d code objects, %d states, %d violating states, tlc %.1fs\n",
		time.Since(env.Start).Seconds(), len(table.codes), sres.Distinct, staticViolations, sres.Wall.Seconds())

	// 3b. every (pc, depth, block depth) reached by frames not traced completely is a reachable model state
	unpredicted, compared := 0, len(uncovered)
	for _, k := range uncovered {
		if _, ok := predicted[k]; !ok {
			unpredicted++
			r := table.codes[k.cid-1]
			op := -1
			if int(k.pc) < len(r.Bytes) {
				op = r.Bytes[k.pc]
			}
			rep.Violation("C12|reach|unpredicted|"+opName(op), map[string]interface{}{"code": r.where(), "pc": k.pc, "observed_depth": k.d,
				"observed_blocks": k.b, "stacksize": r.Stacksize, "disassembly": r.disasm(int(k.pc), 8), "repro": r.repro()})
		}
	}

	// 3c. trace validation
	var tcodes []*CodeRec
	local := map[int]int{}
	for _, t := range rec.traces {
		if _, ok := local[t.gcid]; !ok {
			c := *table.codes[t.gcid-1]
			c.Emit = 0
			c.Id = len(tcodes) + 1
			tcodes = append(tcodes, &c)
			local[t.gcid] = c.Id
		}
		t.Cid = local[t.gcid]
	}
	rejected := 0
	if len(rec.traces) > 0 {
		seenT := map[int]bool{}
		onTrace := func(line []byte) {
			var v vioRec
			if json.Unmarshal(line, &v) != nil || v.V == "" || v.Tid < 1 || v.Tid > len(rec.traces) {
				return
			}
			if seenT[v.Tid] {
				return
			}
			seenT[v.Tid] = true
			rejected++
			t := rec.traces[v.Tid-1]
			r := table.codes[t.gcid-1]
			op := -1
			if v.At >= 0 && v.At < len(r.Bytes) {
				op = r.Bytes[v.At]
			}
			if v.Kind == "" {
				v.Kind = "stacksize"
			}
			key := "C12|trace|" + v.V + "|" + v.Kind + "|" + opName(op)
			lo, hi := v.I-3, v.I+1
			if lo < 0 {
				lo = 0
			}
			if hi > len(t.Ev) {
				hi = len(t.Ev)
			}
			rep.Violation(key, map[string]interface{}{"code": r.where(), "executed_pc": v.At, "opcode": opName(op), "observation": v.I, "kind": v.Kind,
				"exit": t.Exit, "events": t.Ev[lo:hi], "stacksize": r.Stacksize, "disassembly": r.disasm(v.At, 8), "repro": r.repro()})
		}
		tres := runTLC(env, common.TLCRun{Dir: "C12", Module: "PyVMTrace", Config: "trace.cfg", Continue: true, Seed: env.Seed,
			Extra:   map[string]string{"codes.ndjson": ndjson(tcodes), "traces.ndjson": ndjson(rec.traces)},
			Timeout: time.Duration(env.Pick(12, 40)) * time.Minute, OnLine: onTrace})
		rep.AddTLC(tres)
		if !tres.Finished {
			common.Inconclusive("property=C12 trace validation did not finish\n%s", tres.Stdout)
		}
		if len(tres.Violations) > 0 && rejected == 0 {
			common.Inconclusive("property=C12 TLC reports %v on the traces but printed no record\n%s", tres.Violations, tres.Stdout)
		}
		fmt.Printf("phase trace done at %.1fs: %d traces, %d rejected, tlc %.1fs\n", time.Since(env.Start).Seconds(), len(rec.traces), rejected, tres.Wall.Seconds())
	}

	// evidence
	totalInstr, opsSeen, nontrivial := 0, map[int]bool{}, 0
	for _, r := range table.codes {
		totalInstr += r.instrs
		for p, s := range r.St {
			if s == 1 {
				opsSeen[r.Bytes[p]] = true
			}
		}
		if r.instrs > 4 {
			nontrivial++
		}
	}
	rep.Evaluations = int64(table.compiledObjects)
	rep.Distinct = int64(nontrivial)
	rep.Traces = int64(len(rec.traces))
	rep.Exhaustive = false
	rep.Extra["sources"] = st.sources
	rep.Extra["sources_compiled"] = st.compiled
	rep.Extra["sources_rejected_by_compiler"] = st.rejected
	rep.Extra["compile_panics"] = st.compilePanics
	rep.Extra["sources_by_class"] = st.byClass
	rep.Extra["code_objects_compiled"] = table.compiledObjects
	rep.Extra["code_objects_distinct"] = len(table.codes)
	rep.Extra["code_objects_found_at_run_time"] = len(table.codes) - nCorpus
	rep.Extra["instructions_static"] = totalInstr
	rep.Extra["opcodes_in_corpus"] = len(opsSeen)
	rep.Extra["extended_arg_instructions"] = countOp(table, 144)
	rep.Extra["static_violating_states"] = staticViolations
	rep.Extra["programs_run"] = map[string]int{"run": st.ran, "ok": st.ranOK, "exception": st.ranExc, "go_panic": st.ranPanic, "budget_hit": rec.budgetHit}
	rep.Extra["frames_executed"] = rec.frames
	rep.Extra["instructions_executed"] = rec.events
	rep.Extra["trace_events_validated"] = rec.tracedEvents
	rep.Extra["traces_rejected"] = rejected
	rep.Extra["frames_cut"] = rec.cutFrames
	rep.Extra["frames_resumed_after_exit_ignored"] = rec.resumedAfterExit
	rep.Extra["reach_observations_compared"] = compared
	rep.Extra["reach_observations_unpredicted"] = unpredicted
	rep.Extra["reach_code_objects"] = len(rec.needEmit)
	rep.Extra["max_stack_depth_observed"] = rec.maxDepthSeen
	exits, blockKinds := map[string]int{}, map[string]int{}
	for _, t := range rec.traces {
		exits[t.Exit]++
		for _, e := range t.Ev {
			for _, bl := range e.Blk {
				blockKinds[bl.T]++
			}
		}
	}
	rep.Extra["trace_exits"] = exits
	rep.Extra["trace_block_observations_by_kind"] = blockKinds
	for _, s := range srcs {
		if s.Origin == "gen" && codes[s] != nil {
			txt := strings.TrimPrefix(s.Text, prelude)
			if len(txt) > 1500 {
				txt = txt[:1500] + "..."
			}
			rep.Sample(map[string]string{"kind": "generated program (after the common prelude)", "class": s.Class, "source": txt})
			break
		}
	}
	for _, r := range table.codes {
		if r.instrs > 30 && r.src != nil && r.src.Origin == "repo" {
			rep.Sample(map[string]interface{}{"kind": "code object explored by TLC", "code": r.where(), "bytes": len(r.Bytes), "instructions": r.instrs,
				"stacksize": r.Stacksize, "lnotab": r.Lnotab, "disassembly_head": r.disasm(0, 12)})
			break
		}
	}
	for _, t := range rec.traces {
		if len(t.Ev) > 12 && t.Exit == "raised" {
			rep.Sample(map[string]interface{}{"kind": "frame trace validated by TLC", "code": table.codes[t.gcid-1].where(), "events": len(t.Ev), "exit": t.Exit, "last_events": t.Ev[len(t.Ev)-4:]})
			break
		}
	}
	rep.Finish()
}

// runTLC is env.MustTLC except that the "Error: The behavior up to this point is:" lines which TLC prints with
// every invariant violation (-continue) are not evaluation errors.
func runTLC(env *common.Env, r common.TLCRun) *common.TLCResult {
	if os.Getenv("C12_KEEP") != "" {
		for name, content := range r.Extra {
			os.WriteFile(filepath.Join(os.Getenv("C12_KEEP"), r.Module+"_"+name), []byte(content), 0o644)
		}
	}
	t0 := time.Now()
	res, err := env.TLC(r)
	if err != nil {
		common.Inconclusive("property=%s %v", env.ID, err)
	}
	if os.Getenv("C12_DEBUG") != "" {
		fmt.Printf("DEBUG env.TLC %s took %.1fs, tlc process %.1fs\n", r.Module, time.Since(t0).Seconds(), res.Wall.Seconds())
	}
	for _, e := range res.Errors {
		if strings.HasPrefix(e, "The behavior up to this point is") || strings.HasPrefix(e, "The following behavior constitutes a counter-example") {
			continue
		}
		common.Inconclusive("property=%s tlc %s/%s evaluation error: %s\n%s", env.ID, r.Dir, r.Module, e, res.Stdout)
	}
	return res
}

func countOp(t *Table, op int) int {
	n := 0
	for _, r := range t.codes {
		for p, s := range r.St {
			if s == 1 && r.Bytes[p] == op {
				n++
			}
		}
	}
	return n
}
