SPECIFICATION GSpec
INVARIANT GInv
CHECK_DEADLOCK FALSE
