------------------------------- MODULE PyFloat -------------------------------
(* IEEE-754 binary64 arithmetic with Python 3.4's rules (property C15), on top of BigNum.      *)
(*                                                                                             *)
(* A double is  [k |-> "fin", s |-> 0|1, m |-> natural (BigNum), e |-> Int]  meaning            *)
(* (-1)^s * m * 2^e with m < 2^53 and e >= -1074 (zero: m = <<>>, e = 0, the sign is kept),     *)
(* or [k |-> "inf", s], or [k |-> "nan"].  Every operation is computed exactly on dyadic        *)
(* rationals and rounded once (RoundNearestEven with the subnormal floor and overflow to        *)
(* infinity), which is what IEEE-754 demands of + - * / and of int -> float conversion.         *)
(* fmod is exact.  Python's float_divmod / float_rem / float_pow special cases /                *)
(* float_richcompare / float.__round__ / float.__trunc__ are transcribed step by step from      *)
(* CPython 3.4's Objects/floatobject.c, so //, %, divmod are bit-exact predictions including    *)
(* the sign of zero.  Decimal text is converted by an exact rational computation (correctly     *)
(* rounded), which gives the two-sided repr postcondition.                                      *)
(* libm-defined results (float ** float in general) are NOT specified: PowOut says "any float". *)
EXTENDS BigNum, TLC

Fin(s, m, e) == [k |-> "fin", s |-> s, m |-> m, e |-> IF m = <<>> THEN 0 ELSE e]
Inf(s) == [k |-> "inf", s |-> s, m |-> <<>>, e |-> 0]
NaN == [k |-> "nan", s |-> 0, m |-> <<>>, e |-> 0]
FZero(s) == Fin(s, <<>>, 0)
FOne == Fin(0, One, 0)
FHalf == Fin(0, One, -1)
IsNaN(x) == x.k = "nan"
IsInf(x) == x.k = "inf"
IsFin(x) == x.k = "fin"
IsZeroF(x) == x.k = "fin" /\ x.m = <<>>

\* round the exact value (-1)^s * m * 2^e (m a natural of any size) to the nearest double, ties to even
Round(s, m, e) ==
  IF m = <<>> THEN FZero(s)
  ELSE LET shift == MaxI(BitLen(m) - 53, -1074 - e) IN
       IF shift <= 0 THEN (IF BitLen(m) + e > 1024 THEN Inf(s) ELSE Fin(s, m, e))
       ELSE LET q == ShrN(m, shift)
                rem == SubN(m, ShlN(q, shift))
                c == CmpN(rem, ShlN(One, shift - 1))
                q2 == IF c > 0 \/ (c = 0 /\ IsOddN(q)) THEN AddN(q, One) ELSE q
            IN IF BitLen(q2) + e + shift > 1024 THEN Inf(s) ELSE Fin(s, q2, e + shift)
\* round the exact rational (-1)^s * n / d (d # 0): a quotient with >= 55 significant bits plus a sticky bit
RoundRational(s, n, d) ==
  IF n = <<>> THEN FZero(s)
  ELSE LET k == MaxI(0, 56 + BitLen(d) - BitLen(n))
           qr == DivModN(ShlN(n, k), d)
           m2 == AddN(ShlN(qr[1], 1), IF qr[2] = <<>> THEN <<>> ELSE One)
       IN Round(s, m2, -k - 1)

\* canonical form for comparing values: strip trailing zero bits of m (the value is unchanged)
\* number of trailing zero bits of a natural m # <<>>
RECURSIVE TzSmall(_)
TzSmall(d) == IF d % 2 = 1 THEN 0 ELSE 1 + TzSmall(d \div 2)                      \* d # 0, depth <= 15
TrailingZeros(m) == LET i == FoldLeft(LAMBDA acc, j : IF acc = 0 /\ m[j] # 0 THEN j ELSE acc, 0, Idx(Len(m)))
                    IN (i - 1) * BITS + TzSmall(m[i])
Canon(x) == IF x.k # "fin" \/ x.m = <<>> THEN x ELSE LET z == TrailingZeros(x.m) IN [x EXCEPT !.m = ShrN(x.m, z), !.e = @ + z]
Same(x, y) == Canon(x) = Canon(y)                 \* same double (zeros with different signs differ; nan = nan)

(* ------------------------------ decoding the transported bit pattern ------------------------------ *)
\* bs = the 8 bytes of the binary64 pattern, most significant first (TLC integers are 32-bit)
DecodeF(bs) ==
  LET s == bs[1] \div 128
      ex == (bs[1] % 128) * 16 + bs[2] \div 16
      frac == FromDigits(<<bs[2] % 16, bs[3], bs[4], bs[5], bs[6], bs[7], bs[8]>>, 256)
  IN IF ex = 2047 THEN (IF frac = <<>> THEN Inf(s) ELSE NaN)
     ELSE IF ex = 0 THEN Fin(s, frac, -1074)
     ELSE Fin(s, AddN(frac, ShlN(One, 52)), ex - 1075)

(* ------------------------------ IEEE arithmetic ------------------------------ *)
SignXor(a, b) == IF a = b THEN 0 ELSE 1
FNeg(x) == IF x.k = "nan" THEN x ELSE [x EXCEPT !.s = 1 - @]
FAbs(x) == IF x.k = "nan" THEN x ELSE [x EXCEPT !.s = 0]
FCopySign(x, y) == IF x.k = "nan" THEN x ELSE [x EXCEPT !.s = y.s]
FAdd(x, y) ==
  CASE x.k = "nan" \/ y.k = "nan" -> NaN
    [] x.k = "inf" /\ y.k = "inf" -> IF x.s = y.s THEN x ELSE NaN
    [] x.k = "inf" -> x
    [] y.k = "inf" -> y
    [] OTHER ->
       IF x.m = <<>> /\ y.m = <<>> THEN FZero(IF x.s = 1 /\ y.s = 1 THEN 1 ELSE 0)
       ELSE IF x.m = <<>> THEN y ELSE IF y.m = <<>> THEN x
       ELSE LET e == MinI(x.e, y.e)
                a == ShlN(x.m, x.e - e)
                b == ShlN(y.m, y.e - e)
            IN IF x.s = y.s THEN Round(x.s, AddN(a, b), e)
               ELSE LET c == CmpN(a, b) IN
                    IF c = 0 THEN FZero(0)
                    ELSE IF c > 0 THEN Round(x.s, SubN(a, b), e) ELSE Round(y.s, SubN(b, a), e)
FSub(x, y) == FAdd(x, FNeg(y))
FMul(x, y) ==
  CASE x.k = "nan" \/ y.k = "nan" -> NaN
    [] x.k = "inf" \/ y.k = "inf" -> IF IsZeroF(x) \/ IsZeroF(y) THEN NaN ELSE Inf(SignXor(x.s, y.s))
    [] OTHER -> Round(SignXor(x.s, y.s), MulN(x.m, y.m), x.e + y.e)
\* IEEE division (x / 0 = inf, 0 / 0 = nan)
FDiv(x, y) ==
  CASE x.k = "nan" \/ y.k = "nan" -> NaN
    [] x.k = "inf" /\ y.k = "inf" -> NaN
    [] x.k = "inf" -> Inf(SignXor(x.s, y.s))
    [] y.k = "inf" -> FZero(SignXor(x.s, y.s))
    [] y.m = <<>> -> IF x.m = <<>> THEN NaN ELSE Inf(SignXor(x.s, y.s))
    [] x.m = <<>> -> FZero(SignXor(x.s, y.s))
    [] OTHER -> LET k == MaxI(0, 56 + BitLen(y.m) - BitLen(x.m))
                    qr == DivModN(ShlN(x.m, k), y.m)
                    m2 == AddN(ShlN(qr[1], 1), IF qr[2] = <<>> THEN <<>> ELSE One)
                IN Round(SignXor(x.s, y.s), m2, x.e - y.e - k - 1)

\* three-way comparison of finite doubles (-0 = +0)
FCmpFin(x, y) ==
  LET sx == IF x.m = <<>> THEN 0 ELSE IF x.s = 1 THEN -1 ELSE 1
      sy == IF y.m = <<>> THEN 0 ELSE IF y.s = 1 THEN -1 ELSE 1
  IN IF sx # sy THEN (IF sx < sy THEN -1 ELSE 1)
     ELSE IF sx = 0 THEN 0
     ELSE LET hx == BitLen(x.m) + x.e hy == BitLen(y.m) + y.e IN      \* position of the leading bit
          IF hx # hy THEN (IF hx < hy THEN -sx ELSE sx)
          ELSE LET e == MinI(x.e, y.e) IN sx * CmpN(ShlN(x.m, x.e - e), ShlN(y.m, y.e - e))
\* IEEE comparison: "lt" | "eq" | "gt" | "un" (unordered)
FCompare(x, y) ==
  IF x.k = "nan" \/ y.k = "nan" THEN "un"
  ELSE IF x.k = "inf" /\ y.k = "inf" THEN (IF x.s = y.s THEN "eq" ELSE IF x.s = 1 THEN "lt" ELSE "gt")
  ELSE IF x.k = "inf" THEN (IF x.s = 1 THEN "lt" ELSE "gt")
  ELSE IF y.k = "inf" THEN (IF y.s = 1 THEN "gt" ELSE "lt")
  ELSE LET c == FCmpFin(x, y) IN IF c < 0 THEN "lt" ELSE IF c > 0 THEN "gt" ELSE "eq"
FLess(x, y) == FCompare(x, y) = "lt"
FGreater(x, y) == FCompare(x, y) = "gt"
FNonZero(x) == ~IsZeroF(x)                         \* C truth value of a double (nan is true)

\* floor as a double; the integral part of a double is representable, so Round is exact here
FFloor(x) ==
  IF x.k # "fin" \/ x.m = <<>> \/ x.e >= 0 THEN x
  ELSE LET q == ShrN(x.m, -x.e)
           exact == ShlN(q, -x.e) = x.m
       IN IF x.s = 0 THEN Round(0, q, 0) ELSE Round(1, IF exact THEN q ELSE AddN(q, One), 0)
\* C fmod: exact, sign of x; fmod(x, inf) = x, fmod(inf, y) = fmod(x, 0) = nan
FMod(x, y) ==
  IF x.k = "nan" \/ y.k = "nan" \/ x.k = "inf" \/ IsZeroF(y) THEN NaN
  ELSE IF y.k = "inf" \/ x.m = <<>> THEN x
  ELSE LET e == MinI(x.e, y.e)
           r == DivModN(ShlN(x.m, x.e - e), ShlN(y.m, y.e - e))[2]
       IN Round(x.s, r, e)

(* ------------------------------ integers and doubles ------------------------------ *)
\* int -> float: correctly rounded or OverflowError; i is a signed BigNum integer
IntToFloat(i) == LET r == Round(IF i.s = 1 THEN 0 ELSE 1, i.m, 0) IN
                 IF r.k = "inf" THEN [err |-> "OverflowError", v |-> NaN] ELSE [err |-> "", v |-> r]
\* exact three-way comparison of an integer with a finite double
CmpIntFin(i, x) ==
  LET xs == IF x.m = <<>> THEN 1 ELSE IF x.s = 1 THEN -1 ELSE 1 IN
  IF x.e >= 0 THEN ZCmp(i, Z(xs, ShlN(x.m, x.e)))
  ELSE ZCmp(Z(i.s, ShlN(i.m, -x.e)), Z(xs, x.m))
\* int compared with any double: "lt" | "eq" | "gt" | "un"
CompareIntFloat(i, x) ==
  IF x.k = "nan" THEN "un" ELSE IF x.k = "inf" THEN (IF x.s = 1 THEN "gt" ELSE "lt")
  ELSE LET c == CmpIntFin(i, x) IN IF c < 0 THEN "lt" ELSE IF c > 0 THEN "gt" ELSE "eq"
\* truncation toward zero (float.__trunc__, int(x)) and round-half-even (round(x)) of a finite double, as integers
TruncToInt(x) == IF x.e >= 0 THEN Z(IF x.s = 1 THEN -1 ELSE 1, ShlN(x.m, x.e)) ELSE Z(IF x.s = 1 THEN -1 ELSE 1, ShrN(x.m, -x.e))
RoundHalfEvenToInt(x) ==
  IF x.e >= 0 THEN TruncToInt(x)
  ELSE LET q == ShrN(x.m, -x.e)
           rem == SubN(x.m, ShlN(q, -x.e))
           c == CmpN(rem, ShlN(One, -x.e - 1))
           q2 == IF c > 0 \/ (c = 0 /\ IsOddN(q)) THEN AddN(q, One) ELSE q
       IN Z(IF x.s = 1 THEN -1 ELSE 1, q2)
\* true division of integers: the correctly rounded quotient (long_true_divide), not a quotient of rounded operands
IntTrueDiv(a, b) ==
  IF ZIsZero(b) THEN [err |-> "ZeroDivisionError", v |-> NaN]
  ELSE LET r == RoundRational(IF a.s = b.s THEN 0 ELSE 1, a.m, b.m) IN
       IF r.k = "inf" THEN [err |-> "OverflowError", v |-> NaN]
       ELSE [err |-> "", v |-> IF r.m = <<>> THEN FZero(IF ZIsZero(a) THEN (IF b.s = -1 THEN 1 ELSE 0) ELSE r.s) ELSE r]

(* ------------------------------ Python's float_divmod, float_rem, float_floor_div (3.4) ------------------------------ *)
\* [err, q, r]: q = floor division result, r = modulo; err = "ZeroDivisionError" for a zero divisor
FloatDivMod(vx, wx) ==
  IF IsZeroF(wx) THEN [err |-> "ZeroDivisionError", q |-> NaN, r |-> NaN]
  ELSE LET mod0 == FMod(vx, wx)                                            \* mod = fmod(vx, wx)
           div0 == FDiv(FSub(vx, mod0), wx)                                \* div = (vx - mod) / wx
           adjust == FNonZero(mod0) /\ (FLess(wx, FZero(0)) # FLess(mod0, FZero(0)))
           mod1 == IF FNonZero(mod0) THEN (IF adjust THEN FAdd(mod0, wx) ELSE mod0)   \* same sign as the denominator
                   ELSE FCopySign(FZero(0), wx)
           div1 == IF adjust THEN FSub(div0, FOne) ELSE div0
           fl == FFloor(div1)
           floordiv == IF FNonZero(div1)                                    \* snap quotient to nearest integral value
                       THEN (IF FGreater(FSub(div1, fl), FHalf) THEN FAdd(fl, FOne) ELSE fl)
                       ELSE FCopySign(FZero(0), FDiv(vx, wx))               \* zero with the sign of the true quotient
       IN [err |-> "", q |-> floordiv, r |-> mod1]
FloatRem(vx, wx) ==
  IF IsZeroF(wx) THEN [err |-> "ZeroDivisionError", r |-> NaN]
  ELSE LET mod0 == FMod(vx, wx)
           mod1 == IF FNonZero(mod0) THEN (IF FLess(wx, FZero(0)) # FLess(mod0, FZero(0)) THEN FAdd(mod0, wx) ELSE mod0)
                   ELSE FCopySign(FZero(0), wx)
       IN [err |-> "", r |-> mod1]

\* The declarative reading of the same operations (language reference: x // y is the floor of the mathematical
\* quotient, x % y has the sign of y, x = (x // y) * y + x % y): exact floor division of the two dyadics scaled to a
\* common exponent -- which is Python's integer floor division -- with each component rounded once.  CPython's algorithm
\* above agrees with it except where its own intermediate roundings show (quotients beyond 2^53, e.g. divmod(1e16, -3.0)
\* gives (-3333333333333335.0, -2.0) although floor(1e16 / -3) = -3333333333333334 and then the divmod identity fails).
\* Both are accepted by the operation table; PyFloatLaws checks that they coincide for quotients below 2^53.
IdealDivMod(vx, wx) ==          \* vx finite, wx finite and non-zero
  LET e == MinI(vx.e, wx.e)
      a == Z(IF vx.s = 1 THEN -1 ELSE 1, ShlN(vx.m, vx.e - e))
      b == Z(IF wx.s = 1 THEN -1 ELSE 1, ShlN(wx.m, wx.e - e))
      qr == ZDivMod(a, b)
      q == Round(IF qr[1].s = -1 THEN 1 ELSE 0, qr[1].m, 0)
      r == Round(IF qr[2].s = -1 THEN 1 ELSE 0, qr[2].m, e)
  IN [q |-> IF IsZeroF(q) THEN FZero(SignXor(vx.s, wx.s)) ELSE q,          \* a zero quotient has the sign of the true quotient
      r |-> IF IsZeroF(r) THEN FZero(wx.s) ELSE r,                          \* a zero remainder has the sign of the divisor
      qbits |-> BitLen(qr[1].m)]

(* ------------------------------ Python's float_pow: only what does not depend on libm ------------------------------ *)
\* is the finite double an odd integer?  (fmod(fabs(iw), 2.0) == 1.0)
IsOddIntegerF(x) == x.k = "fin" /\ x.m # <<>> /\ x.e <= 0 /\ x.e > -53 /\ ShlN(ShrN(x.m, -x.e), -x.e) = x.m /\ IsOddN(ShrN(x.m, -x.e))
IsIntegerF(x) == x.k = "fin" /\ (x.m = <<>> \/ x.e >= 0 \/ (x.e > -53 /\ ShlN(ShrN(x.m, -x.e), -x.e) = x.m))
\* exact x ^ n for a finite double and a small non-negative TLC integer n, rounded once
FPowSmall(x, n) == Round(IF x.s = 1 /\ n % 2 = 1 THEN 1 ELSE 0, PowN(x.m, n), x.e * n)
\* det: the result is fully determined (f, or the exception err); otherwise "some float" (libm), with mayOverflow
\* telling whether OverflowError is also acceptable; cplx: a negative base with a fractional exponent gives a complex
PowRes(det, f, err, mayOverflow, cplx) == [det |-> det, f |-> f, err |-> err, mayOverflow |-> mayOverflow, cplx |-> cplx]
FloatPow(iv, iw) ==
  IF IsZeroF(iw) THEN PowRes(TRUE, FOne, "", FALSE, FALSE)                               \* v**0 is 1, even 0**0 and nan**0
  ELSE IF IsNaN(iv) THEN PowRes(TRUE, NaN, "", FALSE, FALSE)
  ELSE IF IsNaN(iw) THEN PowRes(TRUE, IF Same(iv, FOne) THEN FOne ELSE NaN, "", FALSE, FALSE)   \* 1**nan = 1
  ELSE IF IsInf(iw) THEN
         LET av == FAbs(iv) c == FCompare(av, FOne) IN
         IF c = "eq" THEN PowRes(TRUE, FOne, "", FALSE, FALSE)
         ELSE IF (iw.s = 0) = (c = "gt") THEN PowRes(TRUE, Inf(0), "", FALSE, FALSE)
         ELSE PowRes(TRUE, FZero(0), "", FALSE, FALSE)
  ELSE IF IsInf(iv) THEN
         LET odd == IsOddIntegerF(iw) IN
         IF iw.s = 0 THEN PowRes(TRUE, IF odd THEN iv ELSE Inf(0), "", FALSE, FALSE)
         ELSE PowRes(TRUE, IF odd THEN FCopySign(FZero(0), iv) ELSE FZero(0), "", FALSE, FALSE)
  ELSE IF IsZeroF(iv) THEN
         IF iw.s = 1 THEN PowRes(TRUE, NaN, "ZeroDivisionError", FALSE, FALSE)
         ELSE PowRes(TRUE, IF IsOddIntegerF(iw) THEN iv ELSE FZero(0), "", FALSE, FALSE)
  ELSE IF iv.s = 1 /\ ~IsIntegerF(iw) THEN PowRes(FALSE, NaN, "", FALSE, TRUE)            \* complex result
  ELSE IF Same(FAbs(iv), FOne) THEN PowRes(TRUE, IF iv.s = 1 /\ IsOddIntegerF(iw) THEN FNeg(FOne) ELSE FOne, "", FALSE, FALSE)
  ELSE IF IsIntegerF(iw) /\ iw.s = 0 /\ FCmpFin(iw, Fin(0, <<8>>, 0)) <= 0 THEN             \* exponent 1..8: the exact power decides overflow
         LET n == IntOfNat(TruncToInt(iw).m) IN
         IF FPowSmall(iv, n).k = "inf" THEN PowRes(TRUE, NaN, "OverflowError", FALSE, FALSE)
         ELSE IF n = 1 THEN PowRes(TRUE, iv, "", FALSE, FALSE)
         ELSE PowRes(FALSE, NaN, "", FALSE, FALSE)
  ELSE PowRes(FALSE, NaN, "", TRUE, FALSE)

(* ------------------------------ decimal text <-> double ------------------------------ *)
\* D * 10^k10 for a natural D, correctly rounded
DecimalToDouble(s, D, k10) ==
  IF D = <<>> THEN FZero(s)
  ELSE LET nd == Len(ToDigits(D, 10)) IN
       IF nd + k10 > 310 THEN Inf(s)
       ELSE IF nd + k10 < -330 THEN FZero(s)
       ELSE IF k10 >= 0 THEN Round(s, MulN(D, PowN(<<10>>, k10)), 0)
       ELSE RoundRational(s, D, PowN(<<10>>, -k10))
\* a scanner for  [sign] digits [. digits] [e [sign] digits]  |  . digits ...   (codes: 0-9 48..57, '.' 46, '+' 43, '-' 45, e 101, E 69)
\* state: ph 0 start, 1 after sign, 2 integer digits, 3 fraction digits, 4 after e, 5 after exponent sign, 6 exponent digits, 9 error
ScanStep(st, ch) ==
  LET isd == ch \in 48..57 d == ch - 48 IN
  IF st.ph = 9 THEN st
  ELSE IF isd /\ st.ph \in {0, 1, 2} THEN [st EXCEPT !.ph = 2, !.D = AddN(MulSmall(@, 10), IF d = 0 THEN <<>> ELSE <<d>>), !.nd = @ + 1]
  ELSE IF isd /\ st.ph = 3 THEN [st EXCEPT !.D = AddN(MulSmall(@, 10), IF d = 0 THEN <<>> ELSE <<d>>), !.nd = @ + 1, !.frac = @ + 1]
  ELSE IF isd /\ st.ph \in {4, 5, 6} THEN [st EXCEPT !.ph = 6, !.E = MinI(99999, @ * 10 + d)]
  ELSE IF ch \in {43, 45} /\ st.ph = 0 THEN [st EXCEPT !.ph = 1, !.neg = (ch = 45)]
  ELSE IF ch \in {43, 45} /\ st.ph = 4 THEN [st EXCEPT !.ph = 5, !.eneg = (ch = 45)]
  ELSE IF ch = 46 /\ st.ph \in {0, 1, 2} THEN [st EXCEPT !.ph = 3, !.point = TRUE]
  ELSE IF ch \in {101, 69} /\ st.ph \in {2, 3} /\ st.nd > 0 THEN [st EXCEPT !.ph = 4, !.hasexp = TRUE]
  ELSE [st EXCEPT !.ph = 9]
Scan(t) == FoldLeft(ScanStep, [ph |-> 0, neg |-> FALSE, D |-> <<>>, nd |-> 0, frac |-> 0, E |-> 0, eneg |-> FALSE, point |-> FALSE, hasexp |-> FALSE], t)
ScanOk(st) == st.ph \in {2, 3, 6} /\ st.nd > 0
ScanK10(st) == (IF st.eneg THEN -st.E ELSE st.E) - st.frac
ScanValue(st) == DecimalToDouble(IF st.neg THEN 1 ELSE 0, st.D, ScanK10(st))
IsSpaceCh(ch) == ch \in {32, 9, 10, 11, 12, 13}
StripSpace(t) == LET first == FoldLeft(LAMBDA acc, i : IF acc = 0 /\ ~IsSpaceCh(t[i]) THEN i ELSE acc, 0, Idx(Len(t)))
                     last == FoldLeft(LAMBDA acc, i : IF ~IsSpaceCh(t[i]) THEN i ELSE acc, 0, Idx(Len(t)))
                 IN IF first = 0 THEN <<>> ELSE SubSeq(t, first, last)
LowerCh(ch) == IF ch \in 65..90 THEN ch + 32 ELSE ch
\* float(text) of Python 3.4: white space, sign, inf | infinity | nan in any case, or a decimal number; ValueError otherwise
TxtInf == <<105, 110, 102>>
TxtInfinity == <<105, 110, 102, 105, 110, 105, 116, 121>>
TxtNan == <<110, 97, 110>>
FloatFromText(t) ==
  LET s0 == StripSpace(t)
      neg == s0 # <<>> /\ s0[1] = 45
      body == [i \in 1..Len(IF s0 # <<>> /\ s0[1] \in {43, 45} THEN Tail(s0) ELSE s0) |-> LowerCh((IF s0 # <<>> /\ s0[1] \in {43, 45} THEN Tail(s0) ELSE s0)[i])]
      st == Scan(s0)
  IN IF body \in {TxtInf, TxtInfinity} THEN [err |-> "", v |-> Inf(IF neg THEN 1 ELSE 0)]
     ELSE IF body = TxtNan THEN [err |-> "", v |-> NaN]
     ELSE IF ScanOk(st) THEN [err |-> "", v |-> ScanValue(st)]
     ELSE [err |-> "ValueError", v |-> NaN]
\* repr/str postcondition for x: Python's spellings of the specials; for a finite value a decimal float literal
\* that (1) converts back to x under correct rounding and (2) has no shorter digit string that does: with the n
\* significant digits D of the text, neither of the two neighbouring (n-1)-digit decimals converts back to x
StripTrailingZeros(D, k10) ==        \* <<D', k10'>> with D' not a multiple of ten (D # 0)
  FoldLeft(LAMBDA acc, i : LET qr == DivModSmall(acc[1], 10) IN IF acc[3] \/ qr[2] # 0 THEN <<acc[1], acc[2], TRUE>> ELSE <<qr[1], acc[2] + 1, FALSE>>,
           <<D, k10, FALSE>>, Idx(Len(ToDigits(D, 10))))
ReprOk(x, t) ==
  IF IsNaN(x) THEN t = TxtNan
  ELSE IF IsInf(x) THEN t = (IF x.s = 1 THEN <<45>> ELSE <<>>) \o TxtInf
  ELSE LET st == Scan(t) IN
       /\ ScanOk(st) /\ (st.point \/ st.hasexp)                    \* reads back as a float, not as an int
       /\ st.neg = (x.s = 1)
       /\ Same(ScanValue(st), x)
       /\ IF st.D = <<>> THEN TRUE
          ELSE LET sd == StripTrailingZeros(st.D, ScanK10(st))
                   n == Len(ToDigits(sd[1], 10))
                   lo == DivModSmall(sd[1], 10)[1]
               IN n = 1 \/ (~Same(DecimalToDouble(x.s, lo, sd[2] + 1), x) /\ ~Same(DecimalToDouble(x.s, AddN(lo, One), sd[2] + 1), x))
\* why a text fails (for finding keys)
ReprFailure(x, t) ==
  IF IsNaN(x) \/ IsInf(x) THEN "spelling"
  ELSE LET st == Scan(t) IN
       IF ~ScanOk(st) THEN "not-a-number-text"
       ELSE IF ~(st.point \/ st.hasexp) THEN "reads-back-as-int"
       ELSE IF st.neg # (x.s = 1) THEN "sign"
       ELSE IF ~Same(ScanValue(st), x) THEN "does-not-round-trip"
       ELSE "not-shortest"
=============================================================================
