//go:build verif

// C16: attribute lookup follows instance, then C3 MRO; methods bind correctly.
//
// Part A (spec/C16/PyClassMC): TLC enumerates every class hierarchy within the tier's bounds
// (model checking: all hierarchies of <= MaxN classes with <= 3 ordered bases; thorough adds a
// seeded simulation sample of 6-class hierarchies), checks on each that the algorithm of
// py/type.go:pmerge (MergeA) succeeds iff a C3 linearisation exists and returns exactly it, and
// prints per hierarchy the outcome of every class statement, the MROs and isinstance.  The
// harness renders the class statements, observes the MRO through lookups only (gpython has no
// __mro__: every class defines x; read o.x, delete it from the class that supplied it, repeat)
// and compares order, TypeError at class creation and isinstance with TLC's record.
//
// Part B (spec/C16/PyClassGen): TLC generates behaviours -- exhaustively for a small scope (model
// checking: every hierarchy and placement of <= 2 classes, no operations, sweep only) and as a
// seeded simulation sample beyond it: a consistent
// hierarchy, a placement of the names x, y as plain value / function / classmethod /
// staticmethod, two instances with instance dictionaries, <= 3 reads / writes / deletes on
// instances and classes, then a sweep reading both names on every object and isinstance for every
// pair -- each with the observation the specification's object model demands.  The harness
// renders the program, runs it in-process and compares observation by observation.
//
// No expectation lives here: render, run, compare by equality.
package main

import (
	"crypto/sha1"
	"encoding/json"
	"fmt"
	"os"
	"reflect"
	"strings"
	"sync"
	"sync/atomic"
	"time"

	"gpverif/common"
	"gpverif/pyrun"
)

// ---------------------------------------------------------------------------------------------
// part A records

type InstCell struct {
	R    bool   `json:"r"`
	Part string `json:"part"`
}
type Hier struct {
	Bases  [][]int      `json:"bases"`
	Ok     []bool       `json:"ok"`
	Mro    [][]int      `json:"mro"`
	IsInst [][]InstCell `json:"isinst"`
	Ctor   [][]int      `json:"ctor"` // ctor[0]: odd classes define __init__, ctor[1]: even ones; per class the class whose __init__ must run (0: none)
}

// ---------------------------------------------------------------------------------------------
// part B records

type Obs struct {
	T    string   `json:"t"` // val | call | exc | ok
	V    string   `json:"v"`
	Recv []string `json:"recv"`
}
type Op struct {
	Op   string `json:"op"`
	Tgt  string `json:"tgt"`
	Name string `json:"name"`
	Kind string `json:"kind"`
	Tag  string `json:"tag"`
	Obs  Obs    `json:"obs"`
	Part string `json:"part"`
}
type SweepRead struct {
	Tgt  string `json:"tgt"`
	Name string `json:"name"`
	Obs  Obs    `json:"obs"`
	Part string `json:"part"`
}
type InstQ struct {
	Inst string `json:"inst"`
	Cls  string `json:"cls"`
	R    bool   `json:"r"`
	Part string `json:"part"`
}
type Beh struct {
	N       int                 `json:"n"`
	Bases   [][]int             `json:"bases"`
	Mro     [][]int             `json:"mro"`
	Classes []map[string]string `json:"classes"`
	Icls    []int               `json:"icls"`
	Insts   []map[string]string `json:"insts"`
	Ops     []Op                `json:"ops"`
	Sweep   []SweepRead         `json:"sweep"`
	IsInst  []InstQ             `json:"isinst"`
}

// ---------------------------------------------------------------------------------------------
// rendering

const helpersA = `def order_of(o, ks):
    order = []
    for i in range(12):
        try:
            v = o.x
        except AttributeError:
            break
        order.append(v)
        c = ks[v]
        del c.x
    for v in order:
        c = ks[v]
        c.x = v
    return order
def mkinit(tag):
    def __init__(self):
        self.who = tag
    return __init__
def insts_of(o, ks, names):
    out = []
    for nm in names:
        if isinstance(o, ks[nm]):
            out.append('T')
        else:
            out.append('F')
    return out
`

func classHead(c int, bases []int) string {
	if len(bases) == 0 {
		return fmt.Sprintf("class K%d:", c)
	}
	var bs []string
	for _, b := range bases {
		bs = append(bs, fmt.Sprintf("K%d", b))
	}
	return fmt.Sprintf("class K%d(%s):", c, strings.Join(bs, ", "))
}

func progA(h *Hier) string {
	var b strings.Builder
	b.WriteString("res = []\nks = {}\nnames = []\n")
	for i, bs := range h.Bases {
		c := i + 1
		b.WriteString("ok = 1\ntry:\n    " + classHead(c, bs) + "\n")
		fmt.Fprintf(&b, "        x = '%d'\nexcept TypeError:\n    ok = 0\n", c)
		fmt.Fprintf(&b, "if ok:\n    ks['%d'] = K%d\n    names.append('%d')\n    res.append(['mro', order_of(K%d(), ks)])\nelse:\n    res.append(['TypeError'])\n", c, c, c, c)
	}
	b.WriteString("for nm in names:\n    res.append(['isinst', nm, insts_of(ks[nm](), ks, names)])\n")
	// construction: __init__ defined by the classes of one parity; which one runs when each class is called
	b.WriteString("for par in (1, 0):\n    for nm in names:\n        if int(nm) % 2 == par:\n            ks[nm].__init__ = mkinit(nm)\n")
	b.WriteString("    row = []\n    for nm in names:\n        o = ks[nm]()\n        try:\n            row.append(o.who)\n        except AttributeError:\n            row.append('0')\n")
	b.WriteString("    res.append(['ctor', row])\n    for nm in names:\n        if int(nm) % 2 == par:\n            del ks[nm].__init__\nprint(res)\n")
	return b.String()
}

const helpersB = `def who(a):
    out = []
    for e in a:
        nm = '?'
        for p in ALL:
            if e is p[1]:
                nm = p[0]
        out.append(nm)
    return out
def mk(tag):
    def g(*a):
        return [tag, who(a)]
    return g
def rd(th):
    try:
        r = th()
        if isinstance(r, str):
            res.append(['v', r])
        else:
            q = r()
            res.append(['c', q[0], q[1]])
    except AttributeError:
        res.append(['e', 'AttributeError'])
    except TypeError:
        res.append(['e', 'TypeError'])
def tf(b):
    if b:
        return 'T'
    return 'F'
`

func progB(k *Beh) string {
	var b strings.Builder
	b.WriteString("res = []\nALL = []\n")
	var all []string
	for i, bs := range k.Bases {
		c := i + 1
		b.WriteString(classHead(c, bs) + "\n")
		empty := true
		for _, nm := range []string{"x", "y"} {
			tag := fmt.Sprintf("K%d.%s", c, nm)
			switch k.Classes[i][nm] {
			case "plain":
				fmt.Fprintf(&b, "    %s = '%s'\n", nm, tag)
			case "func":
				fmt.Fprintf(&b, "    def %s(*a):\n        return ['%s', who(a)]\n", nm, tag)
			case "classmethod", "staticmethod":
				fmt.Fprintf(&b, "    @%s\n    def %s(*a):\n        return ['%s', who(a)]\n", k.Classes[i][nm], nm, tag)
			default:
				continue
			}
			empty = false
		}
		if empty {
			b.WriteString("    pass\n")
		}
		all = append(all, fmt.Sprintf("['K%d', K%d]", c, c))
	}
	for i, c := range k.Icls {
		fmt.Fprintf(&b, "o%d = K%d()\n", i+1, c)
		all = append(all, fmt.Sprintf("['o%d', o%d]", i+1, i+1))
	}
	b.WriteString("ALL = [" + strings.Join(all, ", ") + "]\n")
	value := func(kind, tag string) string {
		if kind == "func" {
			return "mk('" + tag + "')"
		}
		return "'" + tag + "'"
	}
	for i := range k.Icls {
		for _, nm := range []string{"x", "y"} {
			if kd := k.Insts[i][nm]; kd != "none" {
				fmt.Fprintf(&b, "o%d.%s = %s\n", i+1, nm, value(kd, fmt.Sprintf("o%d.%s", i+1, nm)))
			}
		}
	}
	for _, o := range k.Ops {
		switch o.Op {
		case "read":
			fmt.Fprintf(&b, "rd(lambda: %s.%s)\n", o.Tgt, o.Name)
		case "write":
			fmt.Fprintf(&b, "%s.%s = %s\nres.append(['ok'])\n", o.Tgt, o.Name, value(o.Kind, o.Tag))
		case "del":
			fmt.Fprintf(&b, "try:\n    del %s.%s\n    res.append(['ok'])\nexcept AttributeError:\n    res.append(['e', 'AttributeError'])\n", o.Tgt, o.Name)
		}
	}
	for _, s := range k.Sweep {
		fmt.Fprintf(&b, "rd(lambda: %s.%s)\n", s.Tgt, s.Name)
	}
	for _, q := range k.IsInst {
		fmt.Fprintf(&b, "res.append(['i', tf(isinstance(%s, %s))])\n", q.Inst, q.Cls)
	}
	b.WriteString("print(res)\n")
	return b.String()
}

// ---------------------------------------------------------------------------------------------
// running

// runUnit runs the programs of one unit in one context (helpers first). It returns one parsed
// result list per program, or nil for a program whose output is missing/garbled together with
// the outcome text. Programs of a unit that did not complete are re-run one per context.
var (
	unitsRun, unitFallbacks, unitNanos int64
)

func runUnit(helpers string, progs []string) ([][]interface{}, []string) {
	out := make([][]interface{}, len(progs))
	why := make([]string, len(progs))
	t0 := time.Now()
	r := pyrun.Run(helpers+strings.Join(progs, ""), 60*time.Second)
	atomic.AddInt64(&unitNanos, int64(time.Since(t0)))
	atomic.AddInt64(&unitsRun, 1)
	lines := strings.Split(strings.TrimRight(r.Stdout, "\n"), "\n")
	if r.Outcome() == "ok" && len(lines) == len(progs) {
		good := true
		for i, l := range lines {
			var v []interface{}
			if json.Unmarshal([]byte(strings.ReplaceAll(l, "'", "\"")), &v) != nil {
				good = false
				break
			}
			out[i] = v
		}
		if good {
			return out, why
		}
	}
	if len(progs) == 1 {
		oc := r.Outcome()
		if r.Panic != "" {
			oc = "panic:" + r.PanicSite
		} else if oc == "ok" {
			oc = "garbled output"
		}
		out[0], why[0] = nil, oc
		return out, why
	}
	atomic.AddInt64(&unitFallbacks, 1)
	for i, p := range progs {
		o, w := runUnit(helpers, []string{p})
		out[i], why[i] = o[0], w[0]
	}
	return out, why
}

func obsList(o Obs) []interface{} {
	switch o.T {
	case "val":
		return []interface{}{"v", o.V}
	case "call":
		rv := make([]interface{}, len(o.Recv))
		for i, s := range o.Recv {
			rv[i] = s
		}
		return []interface{}{"c", o.V, rv}
	case "exc":
		return []interface{}{"e", o.V}
	}
	return []interface{}{"ok"}
}

func brief(exp []interface{}, got interface{}) string {
	g, ok := got.([]interface{})
	if !ok || len(g) == 0 {
		return "observed=garbled"
	}
	switch g[0] {
	case "e":
		if len(g) > 1 {
			return fmt.Sprintf("observed=%v", g[1])
		}
	case "ok":
		return "observed=no exception"
	case "v":
		if exp[0] == "v" {
			return "observed=another value"
		}
		return "observed=a plain value"
	case "c":
		if exp[0] == "c" && len(g) > 1 && g[1] == exp[1] {
			return "observed=bound to other arguments"
		}
		if exp[0] == "c" {
			return "observed=another definition"
		}
		return "observed=a callable"
	}
	return "observed=other"
}

type checker struct {
	rep      *common.Report
	mu       sync.Mutex
	distinct map[string]struct{}
	parts    map[string]int64
	cases    int64
	obs      int64
	diverged int64
	sampA    int
	sampB    int
}

func (ck *checker) part(p string) {
	ck.mu.Lock()
	ck.parts[p]++
	ck.mu.Unlock()
}

func (ck *checker) seen(key string) bool {
	h := sha1.Sum([]byte(key))
	ck.mu.Lock()
	defer ck.mu.Unlock()
	if _, ok := ck.distinct[string(h[:10])]; ok {
		return true
	}
	ck.distinct[string(h[:10])] = struct{}{}
	return false
}

func strs(x interface{}) []string {
	l, _ := x.([]interface{})
	out := make([]string, 0, len(l))
	for _, e := range l {
		out = append(out, fmt.Sprint(e))
	}
	return out
}

// checkA compares one hierarchy's result list with TLC's record.
func (ck *checker) checkA(h *Hier, res []interface{}, why, prog string) {
	atomic.AddInt64(&ck.cases, 1)
	detail := func(what string, extra interface{}) map[string]interface{} {
		return map[string]interface{}{"part": "A", "hierarchy": h, "what": what, "observed": extra, "program": helpersA + prog}
	}
	if res == nil {
		ck.rep.Violation("C16|ClassStatement|program did not complete|observed="+common.TrimKey(why, 60), detail(why, nil))
		return
	}
	n := len(h.Bases)
	var created []int
	if len(res) < n {
		ck.rep.Violation("C16|ClassStatement|program did not complete|observed=short output", detail("short output", res))
		return
	}
	for c := 1; c <= n; c++ {
		e, _ := res[c-1].([]interface{})
		atomic.AddInt64(&ck.obs, 1)
		rejected := len(e) == 1 && e[0] == "TypeError"
		if h.Ok[c-1] {
			ck.part("ClassStatement|accepted")
		} else {
			ck.part("ClassStatement|rejected")
		}
		if rejected != !h.Ok[c-1] {
			if rejected {
				ck.rep.Violation("C16|ClassStatement|consistent hierarchy|observed=TypeError", detail(fmt.Sprintf("class K%d", c), e))
			} else {
				ck.rep.Violation("C16|ClassStatement|no consistent linearisation|observed=class created", detail(fmt.Sprintf("class K%d", c), e))
			}
			return // later observations depend on which classes exist
		}
		if rejected {
			continue
		}
		created = append(created, c)
		var want []string
		for _, m := range h.Mro[c-1] {
			if m != 0 {
				want = append(want, fmt.Sprint(m))
			}
		}
		if len(e) != 2 || e[0] != "mro" || !reflect.DeepEqual(strs(e[1]), want) {
			ck.rep.Violation("C16|Mro|lookup order through an instance|observed=another order", detail(fmt.Sprintf("MRO of K%d, expected %v", c, want), e))
		}
	}
	if len(res) != n+len(created)+2 {
		ck.rep.Violation("C16|ClassStatement|program did not complete|observed=short output", detail("isinstance or construction rows missing", res))
		return
	}
	for k := 0; k < 2 && len(h.Ctor) == 2; k++ {
		e, _ := res[n+len(created)+k].([]interface{})
		var got []string
		if len(e) == 2 {
			got = strs(e[1])
		}
		for j, c := range created {
			atomic.AddInt64(&ck.obs, 1)
			ck.part("Construct|__init__ along the MRO")
			want := fmt.Sprint(h.Ctor[k][c-1])
			if j >= len(got) || got[j] != want {
				ck.rep.Violation("C16|Construct|first __init__ along the MRO|observed=another class's __init__ (or none)",
					detail(fmt.Sprintf("K%d() with __init__ in the classes of parity %d: expected the __init__ of K%s", c, 1-k, want), e))
				break
			}
		}
	}
	for i, c := range created {
		e, _ := res[n+i].([]interface{})
		if len(e) != 3 {
			ck.rep.Violation("C16|IsInstance|garbled", detail("isinstance row", e))
			continue
		}
		got := strs(e[2])
		for j, b := range created {
			cell := h.IsInst[c-1][b-1]
			atomic.AddInt64(&ck.obs, 1)
			ck.part(cell.Part)
			if j >= len(got) || (got[j] == "T") != cell.R {
				ck.rep.Violation(fmt.Sprintf("C16|%s|observed=%v", cell.Part, !cell.R), detail(fmt.Sprintf("isinstance(K%d(), K%d)", c, b), e))
			}
		}
	}
	ck.mu.Lock()
	if ck.sampA < 2 && n >= 4 {
		ck.sampA++
		ck.rep.Sample(map[string]interface{}{"part": "A", "hierarchy": h, "observed": res})
	}
	ck.mu.Unlock()
}

func (ck *checker) checkB(k *Beh, res []interface{}, why, prog string) {
	atomic.AddInt64(&ck.cases, 1)
	detail := func(what string, exp, got interface{}) map[string]interface{} {
		return map[string]interface{}{"part": "B", "behaviour": k, "what": what, "expected": exp, "observed": got, "program": helpersB + prog}
	}
	if res == nil {
		ck.rep.Violation("C16|Behaviour|program did not complete|observed="+common.TrimKey(why, 60), detail(why, nil, nil))
		return
	}
	if len(res) != len(k.Ops)+len(k.Sweep)+len(k.IsInst) {
		ck.rep.Violation("C16|Behaviour|program did not complete|observed=short output", detail("short output", nil, res))
		return
	}
	i := 0
	one := func(what, part string, exp []interface{}) {
		got := res[i]
		i++
		atomic.AddInt64(&ck.obs, 1)
		ck.part(part)
		if !reflect.DeepEqual(got, interface{}(exp)) {
			atomic.AddInt64(&ck.diverged, 1)
			ck.rep.Violation("C16|"+part+"|"+brief(exp, got), detail(what, exp, got))
		}
	}
	for j, o := range k.Ops {
		one(fmt.Sprintf("operation %d: %s %s.%s", j+1, o.Op, o.Tgt, o.Name), o.Part, obsList(o.Obs))
	}
	for _, s := range k.Sweep {
		one(fmt.Sprintf("final read %s.%s", s.Tgt, s.Name), s.Part, obsList(s.Obs))
	}
	for _, q := range k.IsInst {
		want := "F"
		if q.R {
			want = "T"
		}
		got := res[i]
		i++
		atomic.AddInt64(&ck.obs, 1)
		ck.part(q.Part)
		if !reflect.DeepEqual(got, interface{}([]interface{}{"i", want})) {
			atomic.AddInt64(&ck.diverged, 1)
			ck.rep.Violation(fmt.Sprintf("C16|%s|observed=%v", q.Part, !q.R), detail(fmt.Sprintf("isinstance(%s, %s)", q.Inst, q.Cls), want, got))
		}
	}
	ck.mu.Lock()
	if ck.sampB < 3 && len(k.Ops) >= 2 {
		ck.sampB++
		ck.rep.Sample(map[string]interface{}{"part": "B", "behaviour": k, "observed": res})
	}
	ck.mu.Unlock()
}

// ---------------------------------------------------------------------------------------------

type stage struct {
	env     *common.Env
	ck      *checker
	helpers string
	per     int
	work    chan []json.RawMessage
	wg      sync.WaitGroup
	batch   []json.RawMessage
	do      func(rec json.RawMessage) (prog string, check func(res []interface{}, why string))
}

func (s *stage) start() {
	s.work = make(chan []json.RawMessage, 64)
	for w := 0; w < s.env.Workers; w++ {
		s.wg.Add(1)
		go func() {
			defer s.wg.Done()
			for batch := range s.work {
				progs := make([]string, len(batch))
				checks := make([]func([]interface{}, string), len(batch))
				for i, rec := range batch {
					progs[i], checks[i] = s.do(rec)
				}
				res, why := runUnit(s.helpers, progs)
				for i := range batch {
					checks[i](res[i], why[i])
				}
			}
		}()
	}
}
func (s *stage) add(rec []byte) {
	s.batch = append(s.batch, append(json.RawMessage(nil), rec...))
	if len(s.batch) >= s.per {
		s.work <- s.batch
		s.batch = nil
	}
}
func (s *stage) finish() {
	if len(s.batch) > 0 {
		s.work <- s.batch
		s.batch = nil
	}
	close(s.work)
	s.wg.Wait()
}

func main() {
	env := common.Setup()
	rep := common.NewReport(env, "model_checking")
	ck := &checker{rep: rep, distinct: map[string]struct{}{}, parts: map[string]int64{}}

	doA := func(rec json.RawMessage) (string, func([]interface{}, string)) {
		var h Hier
		if err := json.Unmarshal(rec, &h); err != nil || len(h.Bases) == 0 {
			common.Inconclusive("property=C16 unreadable hierarchy record: %v", err)
		}
		p := progA(&h)
		return p, func(res []interface{}, why string) { ck.checkA(&h, res, why, p) }
	}
	doB := func(rec json.RawMessage) (string, func([]interface{}, string)) {
		var k Beh
		if err := json.Unmarshal(rec, &k); err != nil || k.N == 0 {
			common.Inconclusive("property=C16 unreadable behaviour record: %v", err)
		}
		p := progB(&k)
		return p, func(res []interface{}, why string) { ck.checkB(&k, res, why, p) }
	}

	if env.Replay != "" {
		b, err := os.ReadFile(env.Replay)
		if err != nil {
			common.Inconclusive("property=C16 cannot read replay file: %v", err)
		}
		var rf struct {
			Case struct {
				Part      string          `json:"part"`
				Hierarchy json.RawMessage `json:"hierarchy"`
				Behaviour json.RawMessage `json:"behaviour"`
			} `json:"case"`
		}
		if json.Unmarshal(b, &rf) != nil || rf.Case.Part == "" {
			common.Inconclusive("property=C16 replay file does not hold a C16 case")
		}
		// the record in the file is TLC's output of the recording run, expectations included
		if rf.Case.Part == "A" {
			p, chk := doA(rf.Case.Hierarchy)
			res, why := runUnit(helpersA, []string{p})
			chk(res[0], why[0])
		} else {
			p, chk := doB(rf.Case.Behaviour)
			res, why := runUnit(helpersB, []string{p})
			chk(res[0], why[0])
		}
		rep.Evaluations = ck.cases
		rep.Rule = "replay of one recorded case"
		rep.Finish()
	}

	design := map[string]interface{}{}
	runA := func(cfg, sim string, depth int, label string) {
		tStage := time.Now()
		st := &stage{env: env, ck: ck, helpers: helpersA, per: 8, do: doA}
		st.start()
		var n, dup int64
		res := env.MustTLC(common.TLCRun{Dir: "C16", Module: "PyClassMC", Config: cfg, Simulate: sim, Depth: depth, Seed: env.Seed,
			Timeout: 40 * time.Minute,
			OnLine: func(rec []byte) {
				var h struct {
					Bases json.RawMessage `json:"bases"`
				}
				if json.Unmarshal(rec, &h) != nil {
					return
				}
				if ck.seen("A" + string(h.Bases)) {
					dup++
					return
				}
				n++
				st.add(rec)
			}})
		tTLC := time.Now()
		st.finish()
		drain := time.Since(tTLC).Seconds()
		rep.AddTLC(res)
		if len(res.Violations) > 0 || (sim == "" && !res.Finished) {
			common.Inconclusive("property=C16 the specification fails its own design check (MergeA vs C3, %s): %v\n%s", cfg, res.Violations, res.Stdout)
		}
		if n == 0 {
			common.Inconclusive("property=C16 %s produced no hierarchy\n%s", cfg, res.Stdout)
		}
		design[label] = map[string]interface{}{"config": cfg, "simulate": sim, "hierarchies": n, "repeated_in_sample": dup, "states": res.Distinct, "wall_s": res.Wall.Seconds(), "drain_after_tlc_s": drain, "stage_s": time.Since(tStage).Seconds()}
	}
	t0 := time.Now()
	if env.Thorough() {
		runA("mc5.cfg", "", 0, "all_hierarchies_up_to_5_classes")
		runA("sim6.cfg", fmt.Sprintf("num=%d", 2000/env.Workers+1), 8, "sampled_hierarchies_of_6_classes")
	} else {
		runA("mc5.cfg", "", 0, "all_hierarchies_up_to_5_classes")
	}
	casesA := ck.cases
	t1 := time.Now()

	// part B
	runB := func(cfg, sim string, label string) {
		st := &stage{env: env, ck: ck, helpers: helpersB, per: 6, do: doB}
		st.start()
		var n, dup int64
		res := env.MustTLC(common.TLCRun{Dir: "C16", Module: "PyClassGen", Config: cfg, Simulate: sim, Depth: 14,
			Seed: env.Seed, Timeout: 40 * time.Minute,
			OnLine: func(rec []byte) {
				var k struct {
					Bases, Classes, Icls, Insts json.RawMessage
					Ops                         []struct{ Op, Tgt, Name, Kind string }
				}
				if json.Unmarshal(rec, &k) != nil {
					return
				}
				ops, _ := json.Marshal(k.Ops)
				if ck.seen("B" + string(k.Bases) + string(k.Classes) + string(k.Icls) + string(k.Insts) + string(ops)) {
					dup++
					return
				}
				n++
				st.add(rec)
			}})
		st.finish()
		rep.AddTLC(res)
		if len(res.Violations) > 0 || (sim == "" && !res.Finished) {
			common.Inconclusive("property=C16 PyClassGen (%s) violates its own invariants (frame condition, MRO bookkeeping): %v\n%s", cfg, res.Violations, res.Stdout)
		}
		if n == 0 {
			common.Inconclusive("property=C16 PyClassGen (%s) produced no behaviour\n%s", cfg, res.Stdout)
		}
		design[label] = map[string]interface{}{"config": cfg, "simulate": sim, "behaviours": n, "repeated": dup, "states": res.Distinct, "wall_s": res.Wall.Seconds()}
	}
	// every hierarchy x placement of <= 2 classes, no operations (the sweep observes every read)
	runB("small2.cfg", "", "all_placements_up_to_2_classes")
	casesB0 := ck.cases - casesA
	t2 := time.Now()
	if env.Thorough() {
		runB("gen5.cfg", fmt.Sprintf("num=%d", 20000/env.Workers+1), "sampled_behaviours")
	} else {
		runB("gen.cfg", fmt.Sprintf("num=%d", 4000/env.Workers+1), "sampled_behaviours")
	}

	rep.Evaluations = ck.cases
	rep.Distinct = int64(len(ck.distinct))
	rep.Traces = ck.cases
	rep.Exhaustive = false
	rep.Rule = "a case is (A) one class hierarchy (ordered base lists of every class) whose class statements, lookup order through an instance of every class and isinstance matrix are compared with TLC's record, or (B) one generated behaviour (hierarchy, placement of x and y, two instances, <=3 operations, final sweep) compared observation by observation. Distinct = distinct hierarchies (A) plus distinct (hierarchy, placement, instances, operations) tuples (B), counted by hash; repeated samples are dropped before running. Every case is non-trivial: it creates at least one class and performs at least one lookup with a spec-computed result. Part A is exhaustive for <=5 classes and part B for <=2 classes without operations (every placement, sweep only); 6-class hierarchies and the behaviours with operations are seeded samples."
	rep.Extra["hierarchies_run"] = casesA
	rep.Extra["behaviours_run_exhaustive_small_scope"] = casesB0
	rep.Extra["behaviours_run_sampled"] = ck.cases - casesA - casesB0
	rep.Extra["observations_compared"] = ck.obs
	rep.Extra["observations_by_spec_partition"] = ck.parts
	rep.Extra["tlc_runs"] = design
	rep.Extra["interpreter_runs"] = unitsRun
	rep.Extra["units_rerun_program_by_program"] = unitFallbacks
	rep.Extra["interpreter_time_summed_s"] = float64(unitNanos) / 1e9
	rep.Extra["part_A_s"] = t1.Sub(t0).Seconds()
	rep.Extra["part_B_small_scope_s"] = t2.Sub(t1).Seconds()
	rep.Extra["part_B_sampled_s"] = time.Since(t2).Seconds()
	rep.Assumptions = []string{
		"TLC and the CommunityModules Json module are correct",
		"the vetted scaffolding of the generated programs works (lists of str, try/except AttributeError/TypeError, lambda, `is` on classes and instances, isinstance(x, str) for the exact type str)",
		"the MRO is observed only through lookups (gpython exposes neither __mro__ nor issubclass); object is never observed as a member of an MRO",
	}
	for _, p := range []string{"ClassStatement|accepted", "ClassStatement|rejected", "Construct|__init__ along the MRO", "IsInstance|class=ancestor", "IsInstance|class=unrelated",
		"ReadI|found=instance|kind=plain", "ReadI|found=base|kind=func", "ReadI|found=own|kind=classmethod", "ReadC|found=base|kind=plain", "ReadC|found=own|kind=staticmethod",
		"WriteI", "WriteC", "DelI|present", "DelI|absent", "DelC|own", "DelC|inherited only"} {
		if ck.parts[p] == 0 {
			common.Vacuous("property=C16 vacuous run: no observation in partition %q", p)
		}
	}
	rep.Finish()
}
