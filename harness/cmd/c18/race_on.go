//go:build verif && race

package main

const raceEnabled = true
