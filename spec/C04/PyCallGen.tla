------------------------------ MODULE PyCallGen ------------------------------
(* Behaviour generation for C04 (binding G): for every unit the harness asks for -- a signature *)
(* index and a list of call-shape indexes into PyCall's SigSeq / CallSeq -- print the signature *)
(* and, per call, the result the DECLARATIVE binder demands: the value every parameter must     *)
(* receive, the contents of *va and **kw, or TypeError (with the kinds of error, which are      *)
(* reported but never compared).  The call shapes themselves are printed once.                  *)
EXTENDS PyCall
Units == ndJsonDeserialize("units.ndjson")      \* [id, si, cis]
VARIABLES u, v

ASSUME PrintT(ToJson([calls |-> [i \in 1..Len(CallSeq) |->
          [n |-> CallSeq[i].n, kws |-> SetToSeq(CallSeq[i].kws), star |-> CallSeq[i].star,
           hasss |-> CallSeq[i].hasss, ss |-> SetToSeq(CallSeq[i].ss)]]]))

Expect(s, c) ==
  LET r == BindD(s, c) ps == ParamSeq(s) IN
  IF r.ok THEN [ok |-> TRUE, vals |-> [i \in 1..Len(ps) |-> r.vals[ps[i]]], va |-> r.va,
                kw |-> SetToSeq(r.kw), kinds |-> <<>>]
  ELSE [ok |-> FALSE, vals |-> <<>>, va |-> <<>>, kw |-> <<>>, kinds |-> SetToSeq(ErrKinds(s, c))]
Record(unit) ==
  LET s == SigSeq[unit.si] IN
  [id |-> unit.id, si |-> unit.si, sig |-> s, params |-> ParamSeq(s),
   defaults |-> [i \in 1..Len(ParamSeq(s)) |-> HasDefault(s, ParamSeq(s)[i])],
   cases |-> [j \in 1..Len(unit.cis) |-> [ci |-> unit.cis[j], e |-> Expect(s, CallSeq[unit.cis[j]])]]]
Init == u \in 1..Len(Units) /\ v = "todo"
Next == v = "todo" /\ UNCHANGED u /\ PrintT(ToJson(Record(Units[u]))) /\ v' = "done"
Spec == Init /\ [][Next]_<<u, v>>
=============================================================================
