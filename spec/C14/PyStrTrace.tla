--------------------------------- MODULE PyStrTrace ---------------------------------
(* C14 -- validation of recorded repr texts (T pattern). Each line of trace.ndjson holds a value x built by the
   harness and the text r that the real repr produced for it, both as code-point lists:
       [k |-> "str", s |-> code points of x, r |-> code points of repr(x)]
       [k |-> "val", v |-> value record (PyStr!V), r |-> code points of repr(x)]
   The step for line l accepts iff decoding r with the literal rules of PyStr gives back x
   (str: Decode(r) = s exactly; values: ValEq(ValDecode(r), v), i.e. Python's ==). Rejected lines are printed. *)
EXTENDS PyStr, Json
Lines == ndJsonDeserialize("trace.ndjson")
VARIABLES l, res
RECURSIVE FixV(_)
\* JSON has no distinction between an empty sequence and an empty array of records: rebuild the uniform record
FixV(j) == V(j.t, j.cps, j.neg, j.digits, j.n, j.d, [i \in 1..Len(j.xs) |-> FixV(j.xs[i])])
Accepts(ln) == IF ln.k = "str" THEN LET d == Decode(ln.r) IN d.ok /\ d.v = ln.s
               ELSE ValEq(ValDecode(ln.r), FixV(ln.v))
Init == l \in 1..Len(Lines) /\ res = "todo"
Next == /\ res = "todo"
        /\ LET ok == Accepts(Lines[l]) IN
           /\ res' = IF ok THEN "ok" ELSE "rejected"
           /\ (IF ok THEN TRUE ELSE PrintT(ToJson([line |-> l])))
        /\ UNCHANGED l
====================================================================================
