SPECIFICATION Spec
CONSTANTS
  Mods = {"ma", "mb", "mc"}
  Families = {"flat2", "modname", "sample"}
  AssumeAll = FALSE
INVARIANTS TypeOK RunOnce NoReentry OneObject Provenance StarRespectsUnderscore Terminates Usable Emit
CHECK_DEADLOCK FALSE
