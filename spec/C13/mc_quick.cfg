\* design check, quick tier: lengths 0..4, components None, -4..4, BIG
SPECIFICATION Spec
CONSTANTS
  MaxLen = 4
  IdxMax = 4
  MaxRhs = 3
  Wide = FALSE
  CmpLen = 3
INVARIANTS PosAgree PosInRange PosMaximal GetAgree SimpleIsSubSeq DelAgree SetAgree SelfAssign RangeAgree OrderLaws
CHECK_DEADLOCK FALSE
