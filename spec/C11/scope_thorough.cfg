SPECIFICATION Spec
CONSTANT Names = {"x"}
CONSTANT NameSeq <- Seq1
CONSTANT FShapes <- Trees4
CONSTANT FFlags <- F9
CONSTANT FModFlags <- FMod
CONSTANT Mode = "all"
CONSTANT MaxScopes = 4
CONSTANT MaxDepth = 3
CONSTANT MaxEvStmt = 9
CONSTANT MaxEvExpr = 3
CONSTANT WithLocset = FALSE
CHECK_DEADLOCK FALSE
