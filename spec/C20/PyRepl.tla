------------------------------- MODULE PyRepl -------------------------------
(* C20 - the interactive interpreter at the granularity of physical lines.                   *)
(*                                                                                            *)
(* A session is a sequence of ITEMS; an item is one statement (or a comment / blank line)     *)
(* given as its physical lines, a multi-line statement followed by its terminating blank      *)
(* line.  Feeding a line (FeedLine) and executing a completed statement (Exec) are separate   *)
(* actions: Exec is enabled from the item's COMPLETING line up to and including its last      *)
(* line - for a bracket/string/backslash continued statement the closing line or the blank    *)
(* line after it, for a compound statement the blank line, for a one-line statement that      *)
(* line.  So "runs on the closing bracket" (CPython) and "runs on the blank line" (gpython)   *)
(* are both behaviours of this specification, exactly as C20 is worded.                      *)
(*                                                                                            *)
(* Every session threads a counter n through its statements (the first item is always         *)
(*  n = 0 ), so a statement executed twice, not at all or out of order changes n and every    *)
(* later echo.  The abstract namespace is (n, f, last): the counter, whether the function f   *)
(* is defined, and the value of _ (repr text).                                                *)
EXTENDS Integers, Sequences, FiniteSets, TLC

PS1 == ">>> "
PS2 == "... "

(* ------------------------------- generated block items ---------------------------------------- *)
(* Besides the fixed descriptors below, compound items are GENERATED: a header and a body of   *)
(* one to three physical lines, each an assignment, a comment (indented or at column 0) or a   *)
(* whitespace-only line (at the block's indentation, shallower, or a lone tab).  In a file     *)
(* comment lines and whitespace-only lines are not statements and do not end a block, whatever *)
(* their indentation; only the really empty line after the item terminates it interactively.   *)
Hdrs == {"if", "for"}
HdrLine(h) == IF h = "if" THEN "if True:" ELSE "for i in range(2):"
HdrMult(h) == IF h = "if" THEN 1 ELSE 2
BodyCodes == {"i", "w", "s", "c", "z", "t"}
BodyLine(c) == CASE c = "i" -> "    n = n + 1"      \* a statement
                 [] c = "w" -> "    "               \* whitespace only, at the block's indentation
                 [] c = "s" -> "  "                 \* whitespace only, shallower than the block
                 [] c = "t" -> "\t"                 \* a lone tab
                 [] c = "c" -> "    # c"            \* a comment at the block's indentation
                 [] c = "z" -> "# c"                \* a comment at column 0
Bodies == {b \in UNION {[1..m -> BodyCodes] : m \in 1..3} : \E j \in DOMAIN b : b[j] = "i"}
BlockSpecs == {[h |-> h, b |-> b] : h \in Hdrs, b \in Bodies}
Cat(b) == IF Len(b) = 1 THEN b[1] ELSE IF Len(b) = 2 THEN b[1] \o b[2] ELSE b[1] \o b[2] \o b[3]
BName(x) == "B" \o x.h \o ":" \o Cat(x.b)
BlockKinds == {BName(x) : x \in BlockSpecs}
BTable == [kd \in BlockKinds |-> CHOOSE x \in BlockSpecs : BName(x) = kd]
BLines(x) == <<HdrLine(x.h)>> \o [j \in 1..Len(x.b) |-> BodyLine(x.b[j])] \o <<"">>
BIncs(x) == HdrMult(x.h) * Cardinality({j \in DOMAIN x.b : x.b[j] = "i"})

Lines(kd) ==
  CASE kd \in BlockKinds -> BLines(BTable[kd])
    [] kd = "init"    -> <<"n = 0">>
    [] kd = "inc"     -> <<"n = n + 1">>
    [] kd = "echo"    -> <<"n">>
    [] kd = "none"    -> <<"None">>
    [] kd = "under"   -> <<"_">>
    [] kd = "call"    -> <<"f()">>
    [] kd = "comment" -> <<"# c">>
    [] kd = "empty"   -> <<"">>
    [] kd = "ws"      -> <<"   ">>
    [] kd = "serr"    -> <<"n = = 1">>
    [] kd = "rerr"    -> <<"n = n + undefined_name">>
    [] kd = "semi"    -> <<"n = n + 1; n = n + 1">>                    \* two statements on one line
    [] kd = "semiecho" -> <<"n; n = n + 1">>                           \* an expression statement and an assignment on one line
    [] kd = "indented" -> <<"  n = n + 1">>                            \* indentation at the primary prompt: an error, nothing runs
    [] kd = "trail"   -> <<"n = n + 1  # c">>                          \* a trailing comment
    [] kd = "trailws" -> <<"n = n + 1   ">>                            \* trailing white space
    [] kd = "pass"    -> <<"pass">>
    [] kd = "icomment" -> <<"    # c">>                             \* a comment line that starts with blanks: still only a comment
    [] kd = "tcomment" -> <<"\t# c">>                               \* ... or with a tab
    [] kd = "oneline" -> <<"if True: n = n + 1", "">>                  \* a compound statement on one line: complete at once
    [] kd = "tryexc"  -> <<"try:", "    n = n + undefined_name", "except NameError:", "    n = n + 1", "">>
    [] kd = "tryfin"  -> <<"try:", "    n = n + 1", "finally:", "    n = n + 1", "">>
    [] kd = "elif"    -> <<"if False:", "    n = n + 5", "elif True:", "    n = n + 1", "else:", "    n = n + 7", "">>
    [] kd = "tabblk"  -> <<"if True:", "\tn = n + 1", "\tn = n + 1", "">>   \* a block indented with tabs
    [] kd = "while"   -> <<"while False:", "    n = n + 5", "else:", "    n = n + 1", "">>
    [] kd = "mlsh"    -> <<"'''a", "# c", "b'''", "">>                     \* a line inside a string that looks like a comment
    [] kd = "cinc"    -> <<"if True:", "    n = n + 1", "">>
    [] kd = "nest"    -> <<"if True:", "    if True:", "        n = n + 1", "    n = n + 1", "">>
    [] kd = "loop"    -> <<"for i in range(2):", "    n = n + 1", "">>
    [] kd = "else"    -> <<"if False:", "    n = n + 5", "else:", "    n = n + 1", "">>
    [] kd = "cmt"     -> <<"if True:", "    # c", "    n = n + 1", "">>
    [] kd = "cecho"   -> <<"if True:", "    n", "">>
    [] kd = "def"     -> <<"def f():", "    return n", "">>
    [] kd = "rerrc"   -> <<"if True:", "    n = n + 1", "    n = n + undefined_name", "    n = n + 1", "">>
    [] kd = "serrc"   -> <<"if True:", "    n = = 1", "">>
    [] kd = "ml"      -> <<"n = (n +", "     1)", "">>
    [] kd = "mlc"     -> <<"n = (n +", "  # c", "     1)", "">>
    [] kd = "mls"     -> <<"'''a", "b'''", "">>
    [] kd = "bs"      -> <<"n = n + \\", "    1", "">>
    [] kd = "mle"     -> <<"n = (n +", "", "     1)", "">>                \* an empty line inside an open bracket
    [] kd = "mlse"    -> <<"'''a", "", "b'''", "">>                      \* an empty line inside a string: part of its value
    [] kd = "mlsw"    -> <<"'''a", " ", "b'''", "">>                     \* a whitespace-only line inside a string
    [] kd = "cstr"    -> <<"if True:", "    '''x", "", "    y'''", "">>    \* a string with an empty line, in a block

OneLine   == {"init", "inc", "echo", "none", "under", "call", "comment", "empty", "ws", "serr", "rerr",
              "semi", "semiecho", "indented", "trail", "trailws", "pass", "icomment", "tcomment"}
Compound  == {"cinc", "nest", "loop", "else", "cmt", "cecho", "def", "rerrc", "cstr", "tryexc", "tryfin", "elif", "tabblk", "while"}   \* complete only with the (last) blank line
Continued == {"ml", "mlc", "mls", "bs", "mle", "mlse", "mlsw", "oneline", "mlsh"}                           \* complete at the closing line
FixedKinds == OneLine \cup Compound \cup Continued \cup {"serrc"}
AllKinds  == FixedKinds \cup BlockKinds
Alphabet  == FixedKinds \ {"init"}     \* the items a session is made of after its initial  n = 0
(* the alphabet of the exhaustive 3-item sessions (thorough tier): without the kinds that vary the spelling of a *)
(* statement only (they are explored in all 2-item sessions)                                                    *)
Alphabet3 == Alphabet \ {"icomment", "tcomment", "semi", "semiecho", "indented", "trail", "trailws", "pass", "oneline", "tryexc", "tryfin", "elif", "tabblk", "while", "mlsh"}

M(kd) == Len(Lines(kd))
(* the line from which on the item may execute (or, for an erroneous statement, be reported) *)
C(kd) == IF kd \in OneLine THEN 1 ELSE IF kd \in Compound \cup BlockKinds THEN M(kd) ELSE IF kd = "serrc" THEN 2 ELSE M(kd) - 1

(* ------------------------------- effect on the abstract namespace ------------------------------- *)
NoValue == [def |-> FALSE, val |-> ""]
IntVal(x) == [def |-> TRUE, val |-> ToString(x)]
StrVal(kd) == [def |-> TRUE, val |-> CASE kd = "mlse" -> "'a\\n\\nb'" [] kd = "mlsw" -> "'a\\n \\nb'"
                                      [] kd = "cstr" -> "'x\\n\\n    y'" [] kd = "mlsh" -> "'a\\n# c\\nb'" [] OTHER -> "'a\\nb'"]
Ns0 == [n |-> -1, f |-> FALSE, last |-> NoValue]
(* result of executing item kd in namespace s: the new namespace, the echoed text, whether an error is reported *)
Effect(kd, s) ==
  LET same(o, e) == [ns |-> s, out |-> o, err |-> e]
      plus(d, e) == [ns |-> [s EXCEPT !.n = @ + d], out |-> "", err |-> e] IN
  CASE kd \in BlockKinds -> plus(BIncs(BTable[kd]), FALSE)
    [] kd = "init" -> [ns |-> [s EXCEPT !.n = 0], out |-> "", err |-> FALSE]
    [] kd \in {"inc", "cinc", "else", "cmt", "ml", "mlc", "mle", "bs", "trail", "trailws", "oneline", "tryexc", "elif", "while"} -> plus(1, FALSE)
    [] kd \in {"nest", "loop", "semi", "tryfin", "tabblk"} -> plus(2, FALSE)
    [] kd = "semiecho" -> [ns |-> [s EXCEPT !.n = @ + 1, !.last = IntVal(s.n)], out |-> ToString(s.n), err |-> FALSE]
    [] kd = "rerrc" -> plus(1, TRUE)                       \* the effects before the failing line stay
    [] kd \in {"echo", "cecho"} -> [ns |-> [s EXCEPT !.last = IntVal(s.n)], out |-> ToString(s.n), err |-> FALSE]
    [] kd = "call" -> IF s.f THEN [ns |-> [s EXCEPT !.last = IntVal(s.n)], out |-> ToString(s.n), err |-> FALSE] ELSE same("", TRUE)
    [] kd = "under" -> IF s.last.def THEN same(s.last.val, FALSE) ELSE same("", TRUE)
    [] kd \in {"mls", "mlse", "mlsw", "cstr", "mlsh"} -> [ns |-> [s EXCEPT !.last = StrVal(kd)], out |-> StrVal(kd).val, err |-> FALSE]
    [] kd = "def" -> [ns |-> [s EXCEPT !.f = TRUE], out |-> "", err |-> FALSE]
    [] kd \in {"serr", "serrc", "rerr", "indented"} -> same("", TRUE)
    [] OTHER -> same("", FALSE)                            \* none (a None value is neither echoed nor bound to _), comment, empty, ws

(* reference: the same statements executed one by one *)
RECURSIVE RefNs(_)
RefNs(h) == IF h = <<>> THEN Ns0 ELSE Effect(h[Len(h)], RefNs(SubSeq(h, 1, Len(h) - 1))).ns

(* --------------------------------------- the line machine --------------------------------------- *)
CONSTANTS Kinds,      \* the alphabet of items after the initial  n = 0
          MaxItems    \* items per session (without the initial one)
VARIABLES hist,       \* kinds of the items started so far
          k,          \* lines of the current item (the last of hist) fed so far
          ex,         \* the current item has been executed
          ns,         \* the session namespace
          prompt,     \* the prompt shown now
          out, err,   \* echoed text and error report since the last line was fed
          late        \* some item of this session ran after its completing line
vars == <<hist, k, ex, ns, prompt, out, err, late>>

(* the items that may follow the history h (a configuration may override it to shape the sessions) *)
NextKinds(h) == Kinds
(* sessions made of one generated block item and one item of the core alphabet, in either order *)
CoreKinds == {"inc", "echo", "none", "under", "cinc", "def", "call", "ml", "mlse", "comment", "empty", "serr", "rerr"}
BlockAndCore(h) == IF Len(h) = 1 THEN BlockKinds \cup CoreKinds ELSE IF h[2] \in BlockKinds THEN CoreKinds ELSE BlockKinds
BlockThenProbe(h) == IF Len(h) = 1 THEN BlockKinds ELSE {"echo", "cinc"}
Cur == IF hist = <<>> THEN "init" ELSE hist[Len(hist)]     \* (total, so that guards can be evaluated in any order)
AtBoundary == hist = <<>> \/ (k = M(Cur) /\ ex)
Incomplete == hist # <<>> /\ k < C(Cur)
Executed   == hist = <<>> \/ ex

(* what C20 says about the prompt: continuation whenever more input is needed, never once everything is executed *)
PromptOK == (Incomplete => prompt = PS2) /\ (Executed => prompt = PS1)

Init == hist = <<>> /\ k = 0 /\ ex = TRUE /\ ns = Ns0 /\ prompt = PS1 /\ out = "" /\ err = FALSE /\ late = FALSE

(* one physical line is fed: the first line of a new item kd, or the next line of the current one *)
FeedLine(kd, p) ==
  /\ \/ /\ AtBoundary /\ hist' = Append(hist, kd) /\ k' = 1 /\ ex' = FALSE
     \/ /\ ~AtBoundary /\ kd = Cur /\ k < M(Cur) /\ hist' = hist /\ k' = k + 1 /\ ex' = ex
  /\ prompt' = p /\ out' = "" /\ err' = FALSE
  /\ PromptOK'
  /\ UNCHANGED <<ns, late>>

(* the current item is complete and has not run: it runs, in the one persistent namespace *)
Exec ==
  /\ hist # <<>> /\ ~ex /\ k >= C(Cur)
  /\ LET r == Effect(Cur, ns) IN ns' = r.ns /\ out' = r.out /\ err' = r.err
  /\ ex' = TRUE /\ prompt' = PS1 /\ late' = (late \/ k > C(Cur))
  /\ UNCHANGED <<hist, k>>

Feed == \E p \in {PS1, PS2} :
          \/ ~AtBoundary /\ FeedLine(Cur, p)
          \/ AtBoundary /\ hist = <<>> /\ FeedLine("init", p)
          \/ AtBoundary /\ hist # <<>> /\ Len(hist) <= MaxItems /\ \E kd \in NextKinds(hist) : FeedLine(kd, p)
Next == Feed \/ Exec
Spec == Init /\ [][Next]_vars

(* ---------------------------------- what C20 demands of the model ---------------------------------- *)
Done == IF hist = <<>> THEN <<>> ELSE IF ex THEN hist ELSE SubSeq(hist, 1, Len(hist) - 1)   \* the items executed so far
(* each statement ran exactly once and in order: the namespace is that of executing them one by one *)
OnceInOrder == ns = RefNs(Done)
PromptClause == PromptOK
(* an item that cannot run yet has not run; one whose last line was fed runs before anything else is fed *)
NotEarly == hist # <<>> /\ k < C(Cur) => ~ex
EchoClause == (out # "" => ex /\ out = Effect(Cur, RefNs(SubSeq(hist, 1, Len(hist) - 1))).out)
TypeOK == k \in 0..7 /\ prompt \in {PS1, PS2} /\ ns.n \in -1..(6 * (MaxItems + 1))

Leaf == Len(hist) = MaxItems + 1 /\ k = M(Cur) /\ ex
=============================================================================
