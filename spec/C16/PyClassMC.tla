------------------------------ MODULE PyClassMC ------------------------------
(* Part A of C16: every class hierarchy, its acceptance and its method resolution orders.         *)
(*                                                                                                *)
(* States are hierarchies built one class statement at a time (every sequence of <= MaxBases      *)
(* distinct, existing earlier classes as bases).  A class whose statement fails (no consistent    *)
(* linearisation: TypeError) does not exist and cannot be named as a base later.                  *)
(* Emit (a) checks the design on the last class: the algorithm of py/type.go (MergeA) succeeds    *)
(* iff a C3 linearisation exists, returns exactly it, succeeds iff the constraints are            *)
(* consistent at all, and the result is WellFormed; (b) prints the hierarchy with the outcome of  *)
(* every class statement, the MROs, and isinstance for every (instance class, class) pair.        *)
(* Model checking mode enumerates all hierarchies of <= MaxN classes; simulation mode samples     *)
(* hierarchies of exactly MaxN classes (EmitAll = FALSE).                                         *)
EXTENDS PyClass
CONSTANTS MaxN, MaxBases, EmitAll
VARIABLES bases, oks, mros, v
vars == <<bases, oks, mros, v>>

SubsetsUpTo(S, n) == { T \in SUBSET S : Cardinality(T) <= n }
BaseSeqs(c) == UNION { SetToSeqs(T) : T \in SubsetsUpTo({ b \in 1..(c - 1) : oks[b] }, MaxBases) }

Init == bases = <<>> /\ oks = <<>> /\ mros = <<>> /\ v = "grow"
AddClass == /\ v = "grow" /\ Len(bases) < MaxN
            /\ \E bs \in BaseSeqs(Len(bases) + 1) :
                 LET r == MroOfNew(Len(bases) + 1, bs, mros) IN
                 /\ bases' = Append(bases, bs) /\ oks' = Append(oks, r.ok) /\ mros' = Append(mros, r.mro)
            /\ v' = "grow"
Verdict ==
  LET c == Len(bases)
      ls == MergeInput(bases[c], mros)
      m == MergeA(ls)
      c3s == { p \in SetToSeqs(AllOf(ls)) : IsC3(p, ls) }
  IN IF m.ok # (c3s # {}) THEN "acceptance differs from the existence of a C3 order"
     ELSE IF m.ok /\ c3s # {m.mro} THEN "order differs from the C3 order"
     ELSE IF m.ok # Consistent(ls) THEN "acceptance differs from consistency of the constraints"
     ELSE IF m.ok /\ ~WellFormed(bases, c, mros[c], mros) THEN "result is not well formed"
     ELSE IF m.ok # oks[c] THEN "bookkeeping"
     ELSE "ok"
\* isinstance(instance of class c, class b) = b is in the MRO of c
IsInst(c, b) == b \in ElemsOf(mros[c])
IsInstPart(c, b) == IF b = c THEN "IsInstance|class=own" ELSE IF IsInst(c, b) THEN "IsInstance|class=ancestor" ELSE "IsInstance|class=unrelated"
\* calling a class runs the first __init__ along ITS linearisation (an implicit attribute read on the class): with
\* __init__ defined by exactly the classes of one parity (a plain function recording its class), constructing class c
\* runs the __init__ of the first class of that parity in the MRO of c - 0 if there is none
FirstOfParity(c, par) ==
  LET idx == { i \in 1..Len(mros[c]) : mros[c][i] # 0 /\ mros[c][i] % 2 = par } IN
  IF ~oks[c] \/ idx = {} THEN 0 ELSE mros[c][CHOOSE i \in idx : \A j \in idx : i <= j]
Record == [bases |-> bases, ok |-> oks, mro |-> mros,
           ctor |-> [k \in 1..2 |-> [c \in 1..Len(bases) |-> FirstOfParity(c, k % 2)]],     \* ctor[1]: odd classes define __init__, ctor[2]: even ones
           isinst |-> [c \in 1..Len(bases) |-> [b \in 1..Len(bases) |->
                         IF oks[c] /\ oks[b] THEN [r |-> IsInst(c, b), part |-> IsInstPart(c, b)]
                         ELSE [r |-> FALSE, part |-> "IsInstance|class does not exist"]]]]
Emit == /\ v = "grow" /\ Len(bases) >= 1 /\ (EmitAll \/ Len(bases) = MaxN)
        /\ PrintT(ToJson(Record))
        /\ v' = Verdict /\ UNCHANGED <<bases, oks, mros>>
Next == AddClass \/ Emit
Spec == Init /\ [][Next]_vars
DesignOk == v \in {"grow", "ok"}
=============================================================================
