\* the small-step reading: one instance of every template, every history of 6 calls, invariants on every small step
SPECIFICATION Spec
CONSTANTS
  NTop = 1
  MaxOps = 6
  NB = 14
  MaxMicro = 80
  Bodies <- B
  SendVals <- SendThorough
  TopChoices <- AllTops
INVARIANTS TypeOK DoneAbsorbing DoneStatus SendCreated LazyCreation Quiescent SuspendedAtYield
CHECK_DEADLOCK FALSE
