---- MODULE PyScopeLocset ----
\* Dedicated case class: a class body nested in a function writes its own namespace through
\* locals() -- the only way a name that is FREE in a class body can also be found in the class
\* namespace, i.e. the only way to reach the "namespace first" half of the class-body load rule.
\* Programs:  module [x = ..]? ; def f: [x = ..]? class C: <=3 events over {locset,use,bind,del,nonlocal,global} ; [use x]?
\* with at least one locset; the function is called once from the module (and once by the epilogue).
EXTENDS PyScopeGen
Seq1 == <<"x">>
X == NameSeq[1]
NP == TLCEval([n \in Names |-> NoPar])
ClassOps == {"locset", "use", "bind", "del", "nonlocal", "global"}
ClassBodies == { b \in UNION { [1..k -> ClassOps] : k \in 1..3 } : \E i \in DOMAIN b : b[i] = "locset" }
Opt(e) == { <<>>, <<e>> }
Progs == { << [kind |-> "module", parent |-> 0, par |-> NP, iter |-> "-", tgt |-> "-", ev |-> m \o <<Ev("child", "-", 2), Ev("call", "-", 2)>>],
              [kind |-> "def", parent |-> 1, par |-> NP, iter |-> "-", tgt |-> "-", ev |-> f1 \o <<Ev("child", "-", 3)>> \o f2],
              [kind |-> "class", parent |-> 2, par |-> NP, iter |-> "-", tgt |-> "-", ev |-> [i \in DOMAIN b |-> Ev(b[i], X, 0)]] >> :
           m \in Opt(Ev("bind", X, 0)), f1 \in Opt(Ev("bind", X, 0)), f2 \in Opt(Ev("use", X, 0)) \cup Opt(Ev("bind", X, 0)), b \in ClassBodies }
VARIABLES p, v
Init == p \in Progs /\ v = "todo"
Next == v = "todo" /\ PrintT(ToJson(Expect(p))) /\ v' = "done" /\ UNCHANGED p
Spec == Init /\ [][Next]_<<p, v>>
====
