---------------------------- MODULE PyGrammarRec ----------------------------
(* C06 (iii): a recogniser for the Python 3.4 grammar (Grammar/Grammar of CPython 3.4, the    *)
(* file parser/Grammar of the repository) over token kinds: NAME NUMBER STRING NEWLINE INDENT  *)
(* DEDENT ENDMARKER, and the text of every keyword and operator.                              *)
(*                                                                                            *)
(* Set-valued recursive descent: Nt(X, ts, i) is the set of positions j such that ts[i..j-1]  *)
(* derives the nonterminal X.  It is a transcription of the grammar rules and nothing else:   *)
(* the checks Python applies after parsing (assignment targets, keyword arguments, 'return'   *)
(* outside a function ...) are NOT made, so the accepted language is a superset of Python     *)
(* 3.4.  It is therefore used as a REJECTION oracle only: a token sequence it rejects is not  *)
(* Python 3.4.                                                                                *)
EXTENDS Integers, Sequences, FiniteSets, TLC

Tok(ts, i) == IF i <= Len(ts) THEN ts[i] ELSE "$"
Eat(ts, S, t) == { j + 1 : j \in { k \in S : Tok(ts, k) = t } }
EatAny(ts, S, T) == { j + 1 : j \in { k \in S : Tok(ts, k) \in T } }

AugAssignOps == {"+=", "-=", "*=", "/=", "%=", "&=", "|=", "^=", "<<=", ">>=", "**=", "//="}

RECURSIVE Nt(_, _, _), Then(_, _, _), StarF(_, _, _, _), StarSepF(_, _, _, _, _)

Then(ts, S, x) == UNION { Nt(x, ts, j) : j \in S }
Opt(ts, S, x) == S \cup Then(ts, S, x)
(* S x*  : closure of S under one more x; only the positions found last (F) are extended *)
StarF(ts, S, F, x) == LET new == Then(ts, F, x) \ S IN IF new = {} THEN S ELSE StarF(ts, S \cup new, new, x)
Star(ts, S, x) == StarF(ts, S, S, x)
(* S (sep x)*  *)
StarSepF(ts, S, F, sep, x) == LET new == Then(ts, Eat(ts, F, sep), x) \ S IN IF new = {} THEN S ELSE StarSepF(ts, S \cup new, new, sep, x)
StarSep(ts, S, sep, x) == StarSepF(ts, S, S, sep, x)
(* x (sep x)*  and  x (sep x)* [sep]  *)
SepList(ts, i, x, sep) == StarSep(ts, Nt(x, ts, i), sep, x)
SepListT(ts, i, x, sep) == LET a == SepList(ts, i, x, sep) IN a \cup Eat(ts, a, sep)
(* ':' suite after S *)
ColonSuite(ts, S) == Then(ts, Eat(ts, S, ":"), "suite")
OptElse(ts, S) == S \cup ColonSuite(ts, Eat(ts, S, "else"))

(* typedargslist (typed = TRUE) / varargslist *)
ParamList(ts, i, typed) ==
  LET fp   == IF typed THEN "tfpdef" ELSE "vfpdef"
      dp   == IF typed THEN "tdefparam" ELSE "vdefparam"
      dstar(S) == Then(ts, Eat(ts, S, "**"), fp)                                \* '**' fpdef
      starp(S) == LET a == Opt(ts, Eat(ts, S, "*"), fp)                         \* '*' [fpdef]
                      b == StarSep(ts, a, ",", dp)                              \* (',' defparam)*
                  IN b \cup dstar(Eat(ts, b, ","))                              \* [',' '**' fpdef]
      plain == SepList(ts, i, dp, ",")
      after == Eat(ts, plain, ",")
  IN ((plain \cup after) \cup (starp(after) \cup dstar(after))) \cup (starp({i}) \cup dstar({i}))

Nt(x, ts, i) ==
  LET t == Tok(ts, i) IN
  CASE x = "test" ->
         IF t = "lambda" THEN Then(ts, Eat(ts, {i + 1} \cup ParamList(ts, i + 1, FALSE), ":"), "test")
         ELSE LET a == Nt("or_test", ts, i)
              IN a \cup Then(ts, Eat(ts, Then(ts, Eat(ts, a, "if"), "or_test"), "else"), "test")
    [] x = "test_nocond" ->
         IF t = "lambda" THEN Then(ts, Eat(ts, {i + 1} \cup ParamList(ts, i + 1, FALSE), ":"), "test_nocond")
         ELSE Nt("or_test", ts, i)
    [] x = "or_test" -> SepList(ts, i, "and_test", "or")
    [] x = "and_test" -> SepList(ts, i, "not_test", "and")
    [] x = "not_test" -> IF t = "not" THEN Nt("not_test", ts, i + 1) ELSE Nt("comparison", ts, i)
    [] x = "comparison" -> Star(ts, Nt("expr", ts, i), "comp_tail")
    [] x = "comp_tail" ->
         LET after == (IF t \in {"<", ">", "==", ">=", "<=", "<>", "!=", "in", "is"} THEN {i + 1} ELSE {})
                      \cup (IF t = "not" /\ Tok(ts, i + 1) = "in" THEN {i + 2} ELSE {})
                      \cup (IF t = "is" /\ Tok(ts, i + 1) = "not" THEN {i + 2} ELSE {})
         IN Then(ts, after, "expr")
    [] x = "expr" -> SepList(ts, i, "xor_expr", "|")
    [] x = "xor_expr" -> SepList(ts, i, "and_expr", "^")
    [] x = "and_expr" -> SepList(ts, i, "shift_expr", "&")
    [] x = "shift_expr" -> Star(ts, Nt("arith_expr", ts, i), "shift_tail")
    [] x = "shift_tail" -> IF t \in {"<<", ">>"} THEN Nt("arith_expr", ts, i + 1) ELSE {}
    [] x = "arith_expr" -> Star(ts, Nt("term", ts, i), "arith_tail")
    [] x = "arith_tail" -> IF t \in {"+", "-"} THEN Nt("term", ts, i + 1) ELSE {}
    [] x = "term" -> Star(ts, Nt("factor", ts, i), "term_tail")
    [] x = "term_tail" -> IF t \in {"*", "/", "%", "//"} THEN Nt("factor", ts, i + 1) ELSE {}
    [] x = "factor" -> IF t \in {"+", "-", "~"} THEN Nt("factor", ts, i + 1) ELSE Nt("power", ts, i)
    [] x = "power" -> LET a == Star(ts, Nt("atom", ts, i), "trailer") IN a \cup Then(ts, Eat(ts, a, "**"), "factor")
    [] x = "atom" ->
         CASE t = "(" -> Eat(ts, ({i + 1} \cup Nt("yield_expr", ts, i + 1)) \cup Nt("testlist_comp", ts, i + 1), ")")
           [] t = "[" -> Eat(ts, {i + 1} \cup Nt("testlist_comp", ts, i + 1), "]")
           [] t = "{" -> Eat(ts, {i + 1} \cup Nt("dictorsetmaker", ts, i + 1), "}")
           [] t \in {"NAME", "NUMBER", "...", "None", "True", "False"} -> {i + 1}
           [] t = "STRING" -> Star(ts, {i + 1}, "string")
           [] OTHER -> {}
    [] x = "string" -> Eat(ts, {i}, "STRING")
    [] x = "testlist_comp" ->
         LET a == Nt("test_or_star", ts, i)
             l == StarSep(ts, a, ",", "test_or_star")
         IN (Then(ts, a, "comp_for") \cup l) \cup Eat(ts, l, ",")
    [] x = "trailer" ->
         CASE t = "(" -> Eat(ts, {i + 1} \cup Nt("arglist", ts, i + 1), ")")
           [] t = "[" -> Eat(ts, SepListT(ts, i + 1, "subscript", ","), "]")
           [] t = "." -> Eat(ts, {i + 1}, "NAME")
           [] OTHER -> {}
    [] x = "subscript" ->
         LET a  == Nt("test", ts, i)
             c1 == Eat(ts, {i} \cup a, ":")                    \* [test] ':'
             c2 == Opt(ts, c1, "test")                         \* [test]
             c3 == c2 \cup Opt(ts, Eat(ts, c2, ":"), "test")   \* [':' [test]]
         IN a \cup c3
    [] x = "dictorsetmaker" ->
         LET a  == Nt("test", ts, i)
             kv == Then(ts, Eat(ts, a, ":"), "test")
             dl == StarSep(ts, kv, ",", "dict_item")
             sl == StarSep(ts, a, ",", "test")
         IN (((Then(ts, kv, "comp_for") \cup dl) \cup Eat(ts, dl, ",")) \cup (Then(ts, a, "comp_for") \cup sl)) \cup Eat(ts, sl, ",")
    [] x = "dict_item" -> Then(ts, Eat(ts, Nt("test", ts, i), ":"), "test")
    [] x = "arglist" ->
         LET args  == Star(ts, {i}, "argument_comma")                         \* (argument ',')*
             last  == Then(ts, args, "argument")
             dstar(S) == Then(ts, Eat(ts, S, "**"), "test")
             starp == LET a == Then(ts, Eat(ts, args, "*"), "test")
                          b == StarSep(ts, a, ",", "argument")
                      IN b \cup dstar(Eat(ts, b, ","))
         IN ((last \cup Eat(ts, last, ",")) \cup starp) \cup dstar(args)
    [] x = "argument_comma" -> Eat(ts, Nt("argument", ts, i), ",")
    [] x = "argument" -> LET a == Nt("test", ts, i) IN (a \cup Then(ts, a, "comp_for")) \cup Then(ts, Eat(ts, a, "="), "test")
    [] x = "comp_for" ->
         IF t # "for" THEN {}
         ELSE LET a == Then(ts, Eat(ts, Nt("exprlist", ts, i + 1), "in"), "or_test") IN a \cup Then(ts, a, "comp_iter")
    [] x = "comp_iter" ->
         IF t = "for" THEN Nt("comp_for", ts, i)
         ELSE IF t = "if" THEN LET a == Nt("test_nocond", ts, i + 1) IN a \cup Then(ts, a, "comp_iter")
         ELSE {}
    [] x = "yield_expr" ->
         IF t # "yield" THEN {}
         ELSE ({i + 1} \cup Then(ts, Eat(ts, {i + 1}, "from"), "test")) \cup Nt("testlist", ts, i + 1)
    [] x = "stmt" -> Nt("simple_stmt", ts, i) \cup Nt("compound_stmt", ts, i)
    [] x = "nl_or_stmt" -> Eat(ts, {i}, "NEWLINE") \cup Nt("stmt", ts, i)
    [] x = "simple_stmt" -> LET a == SepListT(ts, i, "small_stmt", ";") IN Eat(ts, a, "NEWLINE")
    [] x = "small_stmt" ->
         CASE t = "del" -> Nt("exprlist", ts, i + 1)
           [] t \in {"pass", "break", "continue"} -> {i + 1}
           [] t = "return" -> Opt(ts, {i + 1}, "testlist")
           [] t = "raise" -> LET a == Then(ts, {i + 1}, "test") IN ({i + 1} \cup a) \cup Then(ts, Eat(ts, a, "from"), "test")
           [] t = "yield" -> Nt("yield_expr", ts, i)
           [] t = "import" -> SepList(ts, i + 1, "dotted_as_name", ",")
           [] t = "from" ->
                LET dots == Star(ts, {i + 1}, "dot")
                    a    == Then(ts, dots, "dotted_name") \cup (dots \ {i + 1})
                    b    == Eat(ts, a, "import")
                IN (Eat(ts, b, "*") \cup Eat(ts, Then(ts, Eat(ts, b, "("), "import_as_names"), ")")) \cup Then(ts, b, "import_as_names")
           [] t \in {"global", "nonlocal"} -> StarSep(ts, Eat(ts, {i + 1}, "NAME"), ",", "name")
           [] t = "assert" -> LET a == Then(ts, {i + 1}, "test") IN a \cup Then(ts, Eat(ts, a, ","), "test")
           [] OTHER -> Nt("expr_stmt", ts, i)
    [] x = "expr_stmt" ->
         LET a   == Nt("testlist_star_expr", ts, i)
             aug == LET b == EatAny(ts, a, AugAssignOps) IN Then(ts, b, "yield_expr") \cup Then(ts, b, "testlist")
         IN Star(ts, a, "assign_rhs") \cup aug
    [] x = "assign_rhs" -> IF t = "=" THEN Nt("yield_expr", ts, i + 1) \cup Nt("testlist_star_expr", ts, i + 1) ELSE {}
    [] x = "testlist_star_expr" -> SepListT(ts, i, "test_or_star", ",")
    [] x = "test_or_star" -> IF t = "*" THEN Nt("expr", ts, i + 1) ELSE Nt("test", ts, i)
    [] x = "expr_or_star" -> IF t = "*" THEN Nt("expr", ts, i + 1) ELSE Nt("expr", ts, i)
    [] x = "exprlist" -> SepListT(ts, i, "expr_or_star", ",")
    [] x = "testlist" -> SepListT(ts, i, "test", ",")
    [] x = "name" -> Eat(ts, {i}, "NAME")
    [] x = "dot" -> EatAny(ts, {i}, {".", "..."})
    [] x = "dotted_name" -> StarSep(ts, Eat(ts, {i}, "NAME"), ".", "name")
    [] x = "dotted_as_name" -> LET a == Nt("dotted_name", ts, i) IN a \cup Eat(ts, Eat(ts, a, "as"), "NAME")
    [] x = "import_as_name" -> LET a == Eat(ts, {i}, "NAME") IN a \cup Eat(ts, Eat(ts, a, "as"), "NAME")
    [] x = "import_as_names" -> SepListT(ts, i, "import_as_name", ",")
    [] x = "compound_stmt" ->
         CASE t = "if" -> LET a == ColonSuite(ts, Then(ts, {i + 1}, "test")) IN OptElse(ts, Star(ts, a, "elif_clause"))
           [] t = "while" -> OptElse(ts, ColonSuite(ts, Then(ts, {i + 1}, "test")))
           [] t = "for" -> OptElse(ts, ColonSuite(ts, Then(ts, Eat(ts, Then(ts, {i + 1}, "exprlist"), "in"), "testlist")))
           [] t = "try" ->
                LET body == ColonSuite(ts, {i + 1})
                    hs   == Star(ts, Then(ts, body, "except_clause"), "except_clause")
                    fin(S) == ColonSuite(ts, Eat(ts, S, "finally"))
                    e    == OptElse(ts, hs)
                IN (e \cup fin(e)) \cup fin(body)
           [] t = "with" -> ColonSuite(ts, SepList(ts, i + 1, "with_item", ","))
           [] t = "def" -> Nt("funcdef", ts, i)
           [] t = "class" -> Nt("classdef", ts, i)
           [] t = "@" -> LET ds == Star(ts, Nt("decorator", ts, i), "decorator") IN Then(ts, ds, "funcdef") \cup Then(ts, ds, "classdef")
           [] OTHER -> {}
    [] x = "elif_clause" -> IF t = "elif" THEN ColonSuite(ts, Then(ts, {i + 1}, "test")) ELSE {}
    [] x = "except_clause" ->
         IF t # "except" THEN {}
         ELSE LET a == Then(ts, {i + 1}, "test")
                  b == a \cup Eat(ts, Eat(ts, a, "as"), "NAME")
              IN ColonSuite(ts, {i + 1} \cup b)
    [] x = "with_item" -> LET a == Nt("test", ts, i) IN a \cup Then(ts, Eat(ts, a, "as"), "expr")
    [] x = "funcdef" ->
         IF t # "def" THEN {}
         ELSE LET a == Eat(ts, Eat(ts, {i + 1}, "NAME"), "(")
                  b == Eat(ts, a \cup UNION { ParamList(ts, j, TRUE) : j \in a }, ")")
                  c == b \cup Then(ts, Eat(ts, b, "->"), "test")
              IN ColonSuite(ts, c)
    [] x = "classdef" ->
         IF t # "class" THEN {}
         ELSE LET a == Eat(ts, {i + 1}, "NAME")
                  p == Eat(ts, a, "(")
                  b == a \cup Eat(ts, p \cup Then(ts, p, "arglist"), ")")
              IN ColonSuite(ts, b)
    [] x = "decorator" ->
         IF t # "@" THEN {}
         ELSE LET a == Nt("dotted_name", ts, i + 1)
                  p == Eat(ts, a, "(")
                  b == a \cup Eat(ts, p \cup Then(ts, p, "arglist"), ")")
              IN Eat(ts, b, "NEWLINE")
    [] x = "suite" ->
         Nt("simple_stmt", ts, i)
         \cup (IF t = "NEWLINE" /\ Tok(ts, i + 1) = "INDENT"
               THEN Eat(ts, Star(ts, Nt("stmt", ts, i + 2), "stmt"), "DEDENT") ELSE {})
    [] x = "tfpdef" -> LET a == Eat(ts, {i}, "NAME") IN a \cup Then(ts, Eat(ts, a, ":"), "test")
    [] x = "vfpdef" -> Eat(ts, {i}, "NAME")
    [] x = "tdefparam" -> LET a == Nt("tfpdef", ts, i) IN a \cup Then(ts, Eat(ts, a, "="), "test")
    [] x = "vdefparam" -> LET a == Eat(ts, {i}, "NAME") IN a \cup Then(ts, Eat(ts, a, "="), "test")

(* file_input: (NEWLINE | stmt)* ENDMARKER ;  eval_input: testlist NEWLINE* ENDMARKER *)
InFileInput(ts) == (Len(ts) + 1) \in Eat(ts, Star(ts, {1}, "nl_or_stmt"), "ENDMARKER")
RECURSIVE SkipNL(_, _)
SkipNL(ts, S) == LET new == Eat(ts, S, "NEWLINE") \ S IN IF new = {} THEN S ELSE SkipNL(ts, S \cup new)
InEvalInput(ts) == (Len(ts) + 1) \in Eat(ts, SkipNL(ts, Nt("testlist", ts, 1)), "ENDMARKER")
InGrammar(ts, mode) == IF mode = "eval" THEN InEvalInput(ts) ELSE InFileInput(ts)
=============================================================================
