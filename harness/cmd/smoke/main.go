// smoke: exercises pyrun against the live interpreter (development aid).
package main

import (
	"fmt"
	"time"

	"gpverif/pyrun"
)

func main() {
	for _, src := range []string{"print(1+2)\n", "x = {}\nx['a']\n", "def f():\n    return 1/0\nf()\n", "print(str(ValueError()))\n", "def g(:\n", "print([1,'a'])\n"} {
		r := pyrun.Run(src, 5*time.Second)
		fmt.Printf("%q -> %s out=%q bases=%v tb=%v compile=%v panic=%q site=%q\n", src, r.Outcome(), r.Stdout, r.ExcBases, r.TBLines, r.CompileErr, r.Panic, r.PanicSite)
	}
	c := pyrun.New()
	c.Exec("a = 5\n", 0)
	r := c.Eval("a * 2", 0)
	fmt.Println(pyrun.Repr(r.Value), r.Outcome())
}
