-------------------------- MODULE PipelineLiterals --------------------------
(* C11: the universe of string and bytes LITERALS.                                              *)
(*                                                                                              *)
(* The free sequences of PipelineUniverse contain a handful of fixed literals.  The code that   *)
(* decodes a literal (prefix handling, escape decoding with its look-ahead for \x \u \U \N and  *)
(* octal escapes, the ASCII check of bytes literals) has its own case analysis over the BODY of *)
(* the literal: which escapes are complete, which are cut short by the end of the literal, and  *)
(* whether characters outside ASCII - which take several bytes in the source but one position   *)
(* in the decoded text - come before them.  A literal is                                        *)
(*      prefix  quote  piece*  quote                                                           *)
(* with the pieces of litpieces.ndjson (shared with the harness, which renders piece i as the   *)
(* bytes of its "hex" field): plain characters of 1, 2, 3 and 4 bytes, complete and truncated   *)
(* escapes of every kind, quote characters, line breaks, a lone backslash.  TLC enumerates every *)
(* body of up to MaxPieces pieces under every prefix and quote; each literal is compiled alone  *)
(* and as the operand of a call, in all three modes.  For C11 the only claim is the outcome     *)
(* alphabet of Pipeline.tla: a code object or a SyntaxError (with position) - whatever the      *)
(* literal means is C06's subject.                                                              *)
EXTENDS Integers, Sequences, FiniteSets, TLC, Json

CONSTANT MaxPieces
Pieces == ndJsonDeserialize("litpieces.ndjson")
NPieces == Len(Pieces)
Prefixes == <<"", "b", "r", "rb", "u", "B", "Rb">>
Quotes == <<"'", "\"", "'''", "\"\"\"">>

VARIABLES pre, qt, body
vars == <<pre, qt, body>>
Init == pre \in 1..Len(Prefixes) /\ qt \in 1..Len(Quotes) /\ body = <<>>
Grow == Len(body) < MaxPieces /\ \E i \in 1..NPieces : body' = Append(body, i) /\ UNCHANGED <<pre, qt>>
Spec == Init /\ [][Grow]_vars
Emit == PrintT(ToJson([pre |-> Prefixes[pre], qt |-> Quotes[qt], body |-> body]))
TypeOK == Len(body) <= MaxPieces
=============================================================================
