SPECIFICATION Spec
CONSTANTS Kind = "str"
          FullLen = 1
          RepLen = 2
INVARIANT Emit
CHECK_DEADLOCK FALSE
